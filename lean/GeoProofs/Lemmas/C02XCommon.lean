/-
  C02X, part 8: for *all* operands with closed rings,

      is_intersects (relateParts pa pb)  ⇔  ∃ p, locateParts pa p ≠ Outside ∧ locateParts pb p ≠ Outside

  — the mask "not `FF*FF****`" on the DE-9IM specification says exactly that the two geometries
  (interior ∪ boundary) have a common point.

  (⇒) a vertex atom or a midpoint atom is a point; a face atom `m ± δ·n` located inside a polygon of an
  operand sits beside a point `m` that is on a ring of that polygon or — off its rings the winding
  numbers of `m` and of the face sample agree (`windingE_perturb`) — strictly inside it.
  (⇐) a common point on the arrangement has an atom (`atom_of_located`). A common point `p` on no
  segment is strictly inside a polygon `q` of `A` and a polygon `q'` of `B`; walk from `p` towards a
  coordinate of the shell of `q` to the first point `h` that lies on a ring of `q` or `q'`
  (`first_hit`: the candidates are the finitely many intersection points / overlap ends computed by
  `lineIntersection`): up to `h` no ring is met, so about every ring that does not pass through `h` the
  winding number at `h` is the one at `p` (`windingE_const`) — `h` is a common point on the arrangement.
-/
import GeoProofs.Lemmas.C02XLinear
import GeoProofs.Lemmas.WINDJordan

set_option linter.unusedSimpArgs false
set_option linter.unusedVariables false

namespace Geo.Proofs.C02X
open Geo Geo.Proofs.Kernel Geo.Proofs.Spec Geo.Proofs.C02Q Geo.Proofs.WIND

/-! ### the first hit along a segment -/

/-- intersection points / overlap end points of `[p, a]` with one segment -/
def hitsOf (p a : Pt) (s : Pt × Pt) : List Pt :=
  match lineIntersection p a s.1 s.2 with
  | some (.single x _) => [x]
  | some (.collinear x y) => [x, y]
  | none => []

theorem hitsOf_on {p a : Pt} {s : Pt × Pt} {c : Pt} (h : c ∈ hitsOf p a s) :
    SegMem c p a ∧ SegMem c s.1 s.2 := by
  unfold hitsOf at h
  cases hli : lineIntersection p a s.1 s.2 with
  | none => rw [hli] at h; cases h
  | some r =>
    cases r with
    | single x f =>
      rw [hli] at h
      simp only [List.mem_singleton] at h
      exact (Geo.Proofs.C11.li_single_exact p a s.1 s.2 x f hli c).mpr h
    | collinear x y =>
      rw [hli] at h
      simp only [List.mem_cons, List.not_mem_nil, or_false] at h
      have hex := Geo.Proofs.C11.li_collinear_exact p a s.1 s.2 x y hli
      rcases h with e | e
      · rw [e]; exact (hex x).mpr (SegMem_left x y)
      · rw [e]; exact (hex y).mpr (SegMem_right x y)

/-- every common point of `[p, a]` and the segment is at least as far from `p` as one of the hits -/
theorem hitsOf_le {p a : Pt} (hpa : p ≠ a) {s : Pt × Pt} {z : Pt} (h1 : SegMem z p a)
    (h2 : SegMem z s.1 s.2) : ∃ c ∈ hitsOf p a s, dist2 p c ≤ dist2 p z := by
  unfold hitsOf
  cases hli : lineIntersection p a s.1 s.2 with
  | none => exact absurd ⟨z, h1, h2⟩ ((Geo.Proofs.C11.li_none_iff p a s.1 s.2).mp hli)
  | some r =>
    cases r with
    | single x f =>
      have := (Geo.Proofs.C11.li_single_exact p a s.1 s.2 x f hli z).mp ⟨h1, h2⟩
      exact ⟨x, by simp, by rw [this]⟩
    | collinear x y =>
      have hex := Geo.Proofs.C11.li_collinear_exact p a s.1 s.2 x y hli
      have hx := ((hex x).mpr (SegMem_left x y)).1
      have hy := ((hex y).mpr (SegMem_right x y)).1
      have hz := (hex z).mp ⟨h1, h2⟩
      rcases le_total (dist2 p x) (dist2 p y) with hle | hle
      · exact ⟨x, by simp, (dist2_between hpa hx hy hz hle).1⟩
      · exact ⟨y, by simp, (dist2_between hpa hy hx (SegMem_symm hz) hle).1⟩

/-- **first hit**: if `[p, a]` meets one of finitely many segments, some common point `h` is closest
to `p` -/
theorem first_hit {p a : Pt} (hpa : p ≠ a) (S : List (Pt × Pt))
    (hne : ∃ s ∈ S, ∃ z, SegMem z p a ∧ SegMem z s.1 s.2) :
    ∃ h, SegMem h p a ∧ (∃ s ∈ S, SegMem h s.1 s.2) ∧
      ∀ z, SegMem z p a → (∃ s ∈ S, SegMem z s.1 s.2) → dist2 p h ≤ dist2 p z := by
  have hC : (S.flatMap (hitsOf p a)).map (dist2 p) ≠ [] := by
    obtain ⟨s, hs, z, h1, h2⟩ := hne
    obtain ⟨c, hc, _⟩ := hitsOf_le hpa h1 h2
    intro e
    have : c ∈ S.flatMap (hitsOf p a) := List.mem_flatMap.mpr ⟨s, hs, hc⟩
    rw [List.map_eq_nil_iff] at e
    rw [e] at this; cases this
  obtain ⟨d, hd, hmin⟩ := exists_min_list _ hC
  obtain ⟨h, hh, rfl⟩ := List.mem_map.mp hd
  obtain ⟨s, hs, hhs⟩ := List.mem_flatMap.mp hh
  obtain ⟨g1, g2⟩ := hitsOf_on hhs
  refine ⟨h, g1, ⟨s, hs, g2⟩, ?_⟩
  rintro z hz ⟨t, ht, hzt⟩
  obtain ⟨c, hc, hle⟩ := hitsOf_le hpa hz hzt
  exact le_trans (hmin _ (List.mem_map.mpr ⟨c, List.mem_flatMap.mpr ⟨t, ht, hc⟩, rfl⟩)) hle

/-! ### located relative to one polygon of the parts -/

theorem located_of_on_ring {ps : Parts} {q : Poly} {r : List Pt} (hq : q ∈ ps.areas) (hr : r ∈ q.rings)
    {h : Pt} (hon : onAnySeg h (segs r) = true) : locateParts ps h ≠ .outside := by
  rw [locateParts_eq]
  by_cases hin : inAnyPoly ps.areas h = true
  · simp [hin]
  · have hring : onAnyRing ps.areas h = true := by
      unfold onAnyRing
      rw [Bool.or_eq_true]
      left
      rw [List.any_eq_true]
      refine ⟨q, hq, ?_⟩
      rw [Geo.Proofs.Spec.onAnySeg_iff] at hon ⊢
      obtain ⟨s, hs, hl⟩ := hon
      exact ⟨s, List.mem_flatMap.mpr ⟨r, hr, hs⟩, hl⟩
    simp [hin, hring]

theorem located_of_in_poly {ps : Parts} {q : Poly} (hq : q ∈ ps.areas) {h : Pt}
    (hoff : ∀ r ∈ q.rings, onAnySeg h (segs r) = false) (hins : insidePolyE (EPt.ofPt h) q = true) :
    locateParts ps h ≠ .outside := by
  have : inAnyPoly ps.areas h = true := by
    unfold inAnyPoly
    rw [List.any_eq_true]
    refine ⟨q, hq, ?_⟩
    rw [Bool.and_eq_true, Bool.not_eq_true']
    refine ⟨?_, hins⟩
    cases hc : onAnySeg h (q.rings.flatMap segs) with
    | false => rfl
    | true =>
      rw [Geo.Proofs.Spec.onAnySeg_iff] at hc
      obtain ⟨s, hs, hl⟩ := hc
      obtain ⟨r, hr, hsr⟩ := List.mem_flatMap.mp hs
      have : onAnySeg h (segs r) = true := by
        rw [Geo.Proofs.Spec.onAnySeg_iff]; exact ⟨s, hsr, hl⟩
      rw [hoff r hr] at this; cases this
  rw [locateParts_inside_of_poly ps h this]
  intro e; cases e

/-- off every ring of `q`, `insidePolyE` only depends on the winding numbers about the rings -/
theorem insidePolyE_congr {q : Poly} {e e' : EPt} (hw : ∀ r ∈ q.rings, windingE e r = windingE e' r) :
    insidePolyE e q = insidePolyE e' q := by
  unfold insidePolyE
  rw [hw q.ext (by simp [Poly.rings])]
  congr 1
  rw [Bool.eq_iff_iff, List.all_eq_true, List.all_eq_true]
  constructor
  · intro H h hh; rw [← hw h (by simp [Poly.rings, hh])]; exact H h hh
  · intro H h hh; rw [hw h (by simp [Poly.rings, hh])]; exact H h hh

/-- a polygon with closed rings, a point `p` strictly inside it and a point `h` such that `[h, p]`
meets the rings of the polygon at most at `h`: `h` is located non-`Outside` -/
theorem located_along {ps : Parts} {q : Poly} (hq : q ∈ ps.areas) (hcl : ∀ r ∈ q.rings, r.head? = r.getLast?)
    {p h : Pt} (hoff : ∀ r ∈ q.rings, onAnySeg p (segs r) = false) (hins : insidePolyE (EPt.ofPt p) q = true)
    (hclear : ∀ z, SegMem z h p → z ≠ h → ∀ r ∈ q.rings, ∀ s ∈ segs r, ¬ SegMem z s.1 s.2) :
    locateParts ps h ≠ .outside := by
  by_cases hon : ∃ r ∈ q.rings, onAnySeg h (segs r) = true
  · obtain ⟨r, hr, hon⟩ := hon
    exact located_of_on_ring hq hr hon
  · have hoffh : ∀ r ∈ q.rings, onAnySeg h (segs r) = false := by
      intro r hr
      cases hc : onAnySeg h (segs r) with
      | false => rfl
      | true => exact absurd ⟨r, hr, hc⟩ hon
    apply located_of_in_poly hq hoffh
    rw [insidePolyE_congr (e' := EPt.ofPt p)]
    · exact hins
    · intro r hr
      apply windingE_const r (hcl r hr) h p
      intro s hs ⟨x, hx1, hx2⟩
      by_cases hxh : x = h
      · subst hxh
        have : onAnySeg x (segs r) = true := by
          rw [Geo.Proofs.Spec.onAnySeg_iff]; exact ⟨s, hs, (lineCoord_iff _ _ _).mpr hx1⟩
        rw [hoffh r hr] at this; cases this
      · exact hclear x hx2 hxh r hr s hs hx1

/-! ### a common point off the arrangement -/

/-- reading "non-`Outside`, on no segment and no vertex": strictly inside a member polygon -/
theorem in_poly_of_off_arrangement {pa pb ps : Parts} (hsub : ∀ s ∈ ps.allSegs, s ∈ pa.allSegs ++ pb.allSegs)
    (hco : ∀ c ∈ allCoords ps, c ∈ vertsOf pa pb) {p : Pt} (hloc : locateParts ps p ≠ .outside)
    (hnv : p ∉ vertsOf pa pb) (hns : ∀ s ∈ pa.allSegs ++ pb.allSegs, ¬ SegMem p s.1 s.2) :
    ∃ q ∈ ps.areas, (∀ r ∈ q.rings, onAnySeg p (segs r) = false) ∧ insidePolyE (EPt.ofPt p) q = true := by
  have hoffall : ∀ ss : List (Pt × Pt), (∀ s ∈ ss, s ∈ ps.allSegs) → onAnySeg p ss = false := by
    intro ss hss
    cases hc : onAnySeg p ss with
    | false => rfl
    | true =>
      rw [Geo.Proofs.Spec.onAnySeg_iff] at hc
      obtain ⟨s, hs, hl⟩ := hc
      exact absurd ((lineCoord_iff _ _ _).mp hl) (hns s (hsub s (hss s hs)))
  rw [locateParts_eq] at hloc
  by_cases hin : inAnyPoly ps.areas p = true
  · unfold inAnyPoly at hin
    rw [List.any_eq_true] at hin
    obtain ⟨q, hq, hc⟩ := hin
    rw [Bool.and_eq_true] at hc
    refine ⟨q, hq, fun r hr => ?_, hc.2⟩
    exact hoffall _ (fun s hs => areaSegs_sub_allSegs hq hr hs)
  · exfalso
    have h1 : inAnyPoly ps.areas p = false := by simpa using hin
    have h2 : onAnyRing ps.areas p = false := by
      unfold onAnyRing
      rw [Bool.or_eq_false_iff]
      constructor
      · rw [List.any_eq_false]
        intro q hq
        rw [Bool.not_eq_true]
        apply hoffall
        intro s hs
        obtain ⟨r, hr, hsr⟩ := List.mem_flatMap.mp hs
        exact areaSegs_sub_allSegs hq hr hsr
      · rw [List.any_eq_false]
        intro q hq
        rw [Bool.not_eq_true, List.any_eq_false]
        intro r hr hrp
        rw [beq_iff_eq] at hrp
        exact hnv (hco p (mem_allCoords_ring hq hr (by rw [hrp]; simp)))
    have h3 : onAnyCurve ps.curves p = false := by
      unfold onAnyCurve
      rw [List.any_eq_false]
      intro c hc
      rw [Bool.not_eq_true]
      exact hoffall _ (fun s hs => curveSegs_sub_allSegs' hc hs)
    have h4 : ps.pts.any (· == p) = false := by
      rw [List.any_eq_false]
      intro x hx hxp
      rw [beq_iff_eq] at hxp
      exact hnv (hco p (mem_allCoords_pts (hxp ▸ hx)))
    simp [h1, h2, h3, h4] at hloc

/-- **a common point of two operands with closed rings yields a common point on the arrangement** -/
theorem common_point_on_arrangement {pa pb : Parts} (ca : ClosedRings pa) (cb : ClosedRings pb) {p : Pt}
    (hA : locateParts pa p ≠ .outside) (hB : locateParts pb p ≠ .outside) :
    ∃ h, locateParts pa h ≠ .outside ∧ locateParts pb h ≠ .outside ∧
      (h ∈ vertsOf pa pb ∨ ∃ s ∈ pa.allSegs ++ pb.allSegs, SegMem h s.1 s.2) := by
  by_cases hon : p ∈ vertsOf pa pb ∨ ∃ s ∈ pa.allSegs ++ pb.allSegs, SegMem p s.1 s.2
  · exact ⟨p, hA, hB, hon⟩
  · have hnv : p ∉ vertsOf pa pb := fun h => hon (Or.inl h)
    have hns : ∀ s ∈ pa.allSegs ++ pb.allSegs, ¬ SegMem p s.1 s.2 := fun s hs h => hon (Or.inr ⟨s, hs, h⟩)
    obtain ⟨q, hq, hoffq, hinq⟩ := in_poly_of_off_arrangement (ps := pa)
      (fun s hs => List.mem_append_left _ hs) (fun c hc => allCoords_mem_verts_left hc) hA hnv hns
    obtain ⟨q', hq', hoffq', hinq'⟩ := in_poly_of_off_arrangement (ps := pb)
      (fun s hs => List.mem_append_right _ hs) (fun c hc => allCoords_mem_verts_right hc) hB hnv hns
    -- the shell of `q` has an edge
    have hw : windingE (EPt.ofPt p) q.ext ≠ 0 := by
      unfold insidePolyE at hinq
      rw [Bool.and_eq_true] at hinq
      simpa using hinq.1
    obtain ⟨e0, he0⟩ : ∃ e, e ∈ segs q.ext := by
      cases hse : segs q.ext with
      | nil =>
        exfalso; apply hw
        unfold windingE; rw [hse]; rfl
      | cons e t => exact ⟨e, by simp⟩
    have hext : q.ext ∈ q.rings := by simp [Poly.rings]
    let S := (q.rings ++ q'.rings).flatMap segs
    have hSsub : ∀ s ∈ S, s ∈ pa.allSegs ++ pb.allSegs := by
      intro s hs
      obtain ⟨r, hr, hsr⟩ := List.mem_flatMap.mp hs
      rcases List.mem_append.mp hr with hr | hr
      · exact List.mem_append_left _ (areaSegs_sub_allSegs hq hr hsr)
      · exact List.mem_append_right _ (areaSegs_sub_allSegs hq' hr hsr)
    have he0S : e0 ∈ S := List.mem_flatMap.mpr ⟨q.ext, List.mem_append_left _ hext, he0⟩
    have hpa : p ≠ e0.1 := by
      intro e
      exact hns e0 (hSsub e0 he0S) (e ▸ SegMem_left e0.1 e0.2)
    obtain ⟨h, hh1, ⟨s, hs, hhs⟩, hmin⟩ := first_hit hpa S
      ⟨e0, he0S, e0.1, SegMem_right p e0.1, SegMem_left e0.1 e0.2⟩
    -- nothing is met strictly before `h`
    have hclear : ∀ z, SegMem z h p → z ≠ h → ∀ t ∈ S, ¬ SegMem z t.1 t.2 := by
      intro z hz hzh t ht hzt
      have hzpa : SegMem z p e0.1 := SegMem_convex hh1 (SegMem_left p e0.1) hz
      have h1 := hmin z hzpa ⟨t, ht, hzt⟩
      have h0 : dist2 p p ≤ dist2 p h := by rw [dist2_self]; unfold dist2; nlinarith [sq_nonneg (h.x - p.x), sq_nonneg (h.y - p.y)]
      have h2 := (dist2_between hpa (SegMem_left p e0.1) hh1 (SegMem_symm hz) h0).2
      exact hzh (dist2_inj_on_seg hpa hzpa hh1 (le_antisymm h2 h1))
    refine ⟨h, ?_, ?_, Or.inr ⟨s, hSsub s hs, hhs⟩⟩
    · apply located_along hq (ca q hq) hoffq hinq
      intro z hz hzh r hr t ht
      exact hclear z hz hzh t (List.mem_flatMap.mpr ⟨r, List.mem_append_left _ hr, ht⟩)
    · apply located_along hq' (cb q' hq') hoffq' hinq'
      intro z hz hzh r hr t ht
      exact hclear z hz hzh t (List.mem_flatMap.mpr ⟨r, List.mem_append_right _ hr, ht⟩)

/-! ### from a face atom to a point -/

/-- a face sample beside `m` located inside the parts: `m` itself is located non-`Outside` -/
theorem located_of_face {ps : Parts} (hcl : ClosedRings ps) {m : Pt} {x1 y1 : Rat}
    (h : locateFace ps ⟨m.x, x1, m.y, y1⟩ ≠ .outside) : locateParts ps m ≠ .outside := by
  rw [locateFace_eq] at h
  by_cases hany : ps.areas.any (insidePolyE ⟨m.x, x1, m.y, y1⟩) = true
  · rw [List.any_eq_true] at hany
    obtain ⟨q, hq, hins⟩ := hany
    by_cases hon : ∃ r ∈ q.rings, onAnySeg m (segs r) = true
    · obtain ⟨r, hr, hon⟩ := hon
      exact located_of_on_ring hq hr hon
    · have hoff : ∀ r ∈ q.rings, onAnySeg m (segs r) = false := by
        intro r hr
        cases hc : onAnySeg m (segs r) with
        | false => rfl
        | true => exact absurd ⟨r, hr, hc⟩ hon
      apply located_of_in_poly hq hoff
      rw [← insidePolyE_congr (e := ⟨m.x, x1, m.y, y1⟩)]
      · exact hins
      · intro r hr
        exact windingE_perturb r (hcl q hq r hr) m x1 y1 (hoff r hr)
  · simp [hany] at h

/-! ### the general statement -/

/-- **`is_intersects` on the DE-9IM specification ⇔ the operands have a common point**, for all
operands with closed rings (every geometry of the validity domain). -/
theorem isIntersects_iff_common_point_closed {pa pb : Parts} (ca : ClosedRings pa) (cb : ClosedRings pb) :
    Gen.isIntersects (relateParts pa pb) = true ↔
      ∃ p, locateParts pa p ≠ .outside ∧ locateParts pb p ≠ .outside := by
  rw [isIntersects_iff_cell]
  constructor
  · rintro ⟨X, Y, hX, hY, hc⟩
    obtain ⟨x, hx, hxA, hxB⟩ := atom_of_cell hX hc
    rcases mem_atomsOf_cases hx with ⟨v, _, rfl⟩ | ⟨s, _, _, m, _, _, rfl | rfl | rfl⟩
    · exact ⟨v, fun e => hX (hxA ▸ e), fun e => hY (hxB ▸ e)⟩
    · exact ⟨m, fun e => hX (hxA ▸ e), fun e => hY (hxB ▸ e)⟩
    · exact ⟨m, located_of_face ca (x1 := -(s.2.y - s.1.y)) (y1 := s.2.x - s.1.x) (fun e => hX (hxA ▸ e)),
        located_of_face cb (x1 := -(s.2.y - s.1.y)) (y1 := s.2.x - s.1.x) (fun e => hY (hxB ▸ e))⟩
    · exact ⟨m, located_of_face ca (x1 := - -(s.2.y - s.1.y)) (y1 := -(s.2.x - s.1.x)) (fun e => hX (hxA ▸ e)),
        located_of_face cb (x1 := - -(s.2.y - s.1.y)) (y1 := -(s.2.x - s.1.x)) (fun e => hY (hxB ▸ e))⟩
  · rintro ⟨p, hA, hB⟩
    obtain ⟨h, hA', hB', hon⟩ := common_point_on_arrangement ca cb hA hB
    exact ⟨_, _, hA', hB', cell_of_located ca cb hon⟩

end Geo.Proofs.C02X
