/-
  RELM — the intersection list of an edge as a canonical object, part 1:
  `compute_edge_distance` in exact arithmetic is injective along a segment; the `BTreeSet` of
  `EdgeIntersection`s is a strictly sorted list, determined by the set of its elements.
-/
import GeoModel.RelateImplTop
import GeoProofs.Lemmas.SegmentSpec
import Mathlib.Tactic.Linarith
import Mathlib.Tactic.NormNum

namespace Geo.Proofs.RELM
open Geo Geo.GG Geo.RI Geo.Proofs.Kernel

/-! ### `compute_edge_distance`, exactly -/

theorem rabs_nonneg (q : Rat) : 0 ≤ rabs q := by
  unfold rabs; split <;> linarith

theorem rabs_eq_zero {q : Rat} (h : rabs q = 0) : q = 0 := by
  unfold rabs at h; split at h <;> linarith

theorem rabs_mul_of_nonneg {t : Rat} (ht : 0 ≤ t) (q : Rat) : rabs (t * q) = t * rabs q := by
  unfold rabs
  by_cases hq : q < 0
  · by_cases ht0 : t = 0
    · subst ht0; simp
    · have htp : 0 < t := lt_of_le_of_ne ht (Ne.symm ht0)
      have : t * q < 0 := mul_neg_of_pos_of_neg htp hq
      rw [if_pos this, if_pos hq]; ring
  · have hq' : 0 ≤ q := not_lt.1 hq
    have : ¬ t * q < 0 := not_lt.2 (mul_nonneg ht hq')
    rw [if_neg this, if_neg hq]

/-- the larger of the two coordinate extents of the segment (`dx > dy ? dx : dy`) -/
def extent (a b : Pt) : Rat :=
  if rabs (b.x - a.x) > rabs (b.y - a.y) then rabs (b.x - a.x) else rabs (b.y - a.y)

theorem extent_pos {a b : Pt} (h : a ≠ b) : 0 < extent a b := by
  unfold extent
  have hx := rabs_nonneg (b.x - a.x)
  have hy := rabs_nonneg (b.y - a.y)
  split
  · linarith
  · rename_i hgt
    have hle : rabs (b.x - a.x) ≤ rabs (b.y - a.y) := not_lt.1 hgt
    rcases lt_or_eq_of_le hy with hpos | h0
    · exact hpos
    · exfalso
      apply h
      have hy0 : b.y - a.y = 0 := rabs_eq_zero h0.symm
      have hx0 : b.x - a.x = 0 := rabs_eq_zero (le_antisymm (by linarith) hx)
      cases a; cases b; simp only [Pt.mk.injEq] at *
      constructor <;> linarith

theorem edgeDistance_exact (p a b : Pt) : edgeDistance Arith.exact p a b =
    if p == a then 0 else if p == b then extent a b
    else if ((if rabs (b.x - a.x) > rabs (b.y - a.y) then rabs (p.x - a.x) else rabs (p.y - a.y)) == 0 && p != a)
      then rmax (rabs (p.x - a.x)) (rabs (p.y - a.y))
      else (if rabs (b.x - a.x) > rabs (b.y - a.y) then rabs (p.x - a.x) else rabs (p.y - a.y)) := rfl

/-- **edge distance of a point of the segment** = parameter × extent -/
theorem edgeDistance_of_param {p a b : Pt} {t : Rat} (ht0 : 0 ≤ t)
    (hx : p.x = a.x + t * (b.x - a.x)) (hy : p.y = a.y + t * (b.y - a.y)) :
    edgeDistance Arith.exact p a b = t * extent a b := by
  have hpx : rabs (p.x - a.x) = t * rabs (b.x - a.x) := by
    rw [← rabs_mul_of_nonneg ht0]; congr 1; linarith
  have hpy : rabs (p.y - a.y) = t * rabs (b.y - a.y) := by
    rw [← rabs_mul_of_nonneg ht0]; congr 1; linarith
  by_cases hab : a = b
  · -- degenerate segment: every such point is `a`
    subst hab
    have hpa : p = a := by cases p; cases a; simp only [Pt.mk.injEq] at *; constructor <;> linarith
    subst hpa
    rw [edgeDistance_exact]
    simp [extent, rabs]
  have hM := extent_pos hab
  rw [edgeDistance_exact]
  by_cases hpa : p = a
  · subst hpa
    have : t * extent p b = 0 := by
      have h1 : t * (b.x - p.x) = 0 := by linarith
      have h2 : t * (b.y - p.y) = 0 := by linarith
      by_cases ht : t = 0
      · rw [ht]; ring
      · exfalso; apply hab
        have hbx : b.x - p.x = 0 := by
          rcases mul_eq_zero.1 h1 with h | h
          · exact absurd h ht
          · exact h
        have hby : b.y - p.y = 0 := by
          rcases mul_eq_zero.1 h2 with h | h
          · exact absurd h ht
          · exact h
        cases p; cases b; simp only [Pt.mk.injEq] at *; constructor <;> linarith
    simp [this]
  · have hpa' : (p == a) = false := by simpa using hpa
    rw [hpa']
    simp only [Bool.false_eq_true, if_false]
    have hval : (if rabs (b.x - a.x) > rabs (b.y - a.y) then rabs (p.x - a.x) else rabs (p.y - a.y)) =
        t * extent a b := by
      unfold extent
      split
      · exact hpx
      · exact hpy
    have htpos : 0 < t := by
      rcases lt_or_eq_of_le ht0 with h | h
      · exact h
      · exfalso; apply hpa
        cases p; cases a; simp only [Pt.mk.injEq] at *
        rw [← h] at hx hy
        constructor <;> linarith
    have hne : t * extent a b ≠ 0 := ne_of_gt (mul_pos htpos hM)
    by_cases hpb : p = b
    · have hpb' : (p == b) = true := by simpa using hpb
      rw [hpb']
      simp only [if_true]
      -- `t = 1`
      subst hpb
      have : t = 1 := by
        have h1 : (t - 1) * (p.x - a.x) = 0 := by linarith
        have h2 : (t - 1) * (p.y - a.y) = 0 := by linarith
        by_contra hne1
        have ht1 : t - 1 ≠ 0 := fun h => hne1 (by linarith)
        apply hpa
        have hbx : p.x - a.x = 0 := by
          rcases mul_eq_zero.1 h1 with h | h
          · exact absurd h ht1
          · exact h
        have hby : p.y - a.y = 0 := by
          rcases mul_eq_zero.1 h2 with h | h
          · exact absurd h ht1
          · exact h
        cases p; cases a; simp only [Pt.mk.injEq] at *; constructor <;> linarith
      rw [this, one_mul]
    · have hpb' : (p == b) = false := by simpa using hpb
      rw [hpb']
      simp only [Bool.false_eq_true, if_false]
      rw [hval]
      have : (t * extent a b == 0) = false := by simpa using hne
      simp [this]

theorem edgeDistance_of_segMem {p a b : Pt} (h : SegMem p a b) :
    ∃ t, 0 ≤ t ∧ t ≤ 1 ∧ p.x = a.x + t * (b.x - a.x) ∧ p.y = a.y + t * (b.y - a.y) ∧
      edgeDistance Arith.exact p a b = t * extent a b := by
  obtain ⟨t, h0, h1, hx, hy⟩ := h
  exact ⟨t, h0, h1, hx, hy, edgeDistance_of_param h0 hx hy⟩

/-- distance zero is the start of the segment (for any point, on the segment or not) -/
theorem edgeDistance_eq_zero {p a b : Pt} (hp : SegMem p a b) (h : edgeDistance Arith.exact p a b = 0) : p = a := by
  obtain ⟨t, h0, _, hx, hy, hd⟩ := edgeDistance_of_segMem hp
  rw [hd] at h
  by_cases hab : a = b
  · subst hab
    cases p; cases a; simp only [Pt.mk.injEq] at *; constructor <;> linarith
  · have hM := extent_pos hab
    have : t = 0 := by
      rcases mul_eq_zero.1 h with h | h
      · exact h
      · linarith
    subst this
    cases p; cases a; simp only [Pt.mk.injEq] at *; constructor <;> linarith

/-- **injectivity along the segment** -/
theorem edgeDistance_inj {p p' a b : Pt} (hp : SegMem p a b) (hp' : SegMem p' a b)
    (h : edgeDistance Arith.exact p a b = edgeDistance Arith.exact p' a b) : p = p' := by
  obtain ⟨t, _, _, hx, hy, hd⟩ := edgeDistance_of_segMem hp
  obtain ⟨t', _, _, hx', hy', hd'⟩ := edgeDistance_of_segMem hp'
  by_cases hab : a = b
  · subst hab
    cases p; cases p'; cases a; simp only [Pt.mk.injEq] at *; constructor <;> linarith
  · have hM := extent_pos hab
    rw [hd, hd'] at h
    have : t = t' := by
      have : (t - t') * extent a b = 0 := by linarith
      rcases mul_eq_zero.1 this with h | h
      · linarith
      · linarith
    subst this
    cases p; cases p'; simp only [Pt.mk.injEq] at *; constructor <;> linarith

/-! ### the set of intersections: a strictly sorted list -/

/-- the key order of `EdgeIntersection` -/
def KeyLt (x y : EI) : Prop := x.seg < y.seg ∨ (x.seg = y.seg ∧ x.dist < y.dist)

def KeyEq (x y : EI) : Prop := x.seg = y.seg ∧ x.dist = y.dist

theorem cmp_lt_iff (x y : EI) : x.cmp y = .lt ↔ KeyLt x y := by
  unfold EI.cmp KeyLt
  by_cases h1 : x.seg < y.seg
  · simp [h1]
  · by_cases h2 : x.seg > y.seg
    · simp [h1, h2]; omega
    · have : x.seg = y.seg := by omega
      by_cases h3 : x.dist < y.dist
      · simp [h1, h2, h3, this]
      · by_cases h4 : x.dist > y.dist
        · simp [h1, h2, h3, h4, this]
        · simp [h1, h2, h3, h4, this]

theorem cmp_gt_iff (x y : EI) : x.cmp y = .gt ↔ KeyLt y x := by
  unfold EI.cmp KeyLt
  by_cases h1 : x.seg < y.seg
  · simp [h1]; omega
  · by_cases h2 : x.seg > y.seg
    · simp [h1, h2]
    · have : x.seg = y.seg := by omega
      by_cases h3 : x.dist < y.dist
      · simp [h1, h2, h3, this]; exact le_of_lt h3
      · by_cases h4 : x.dist > y.dist
        · simp [h1, h2, h3, h4, this]
        · simp [h1, h2, h3, h4, this]

theorem cmp_eq_iff (x y : EI) : x.cmp y = .eq ↔ KeyEq x y := by
  unfold EI.cmp KeyEq
  by_cases h1 : x.seg < y.seg
  · simp [h1]; omega
  · by_cases h2 : x.seg > y.seg
    · simp [h1, h2]; omega
    · have : x.seg = y.seg := by omega
      by_cases h3 : x.dist < y.dist
      · simp [h1, h2, h3, this]; exact ne_of_lt h3
      · by_cases h4 : x.dist > y.dist
        · simp [h1, h2, h3, h4, this]; exact ne_of_gt h4
        · simp [h1, h2, h3, h4, this]; exact le_antisymm (not_lt.1 h4) (not_lt.1 h3)

theorem KeyLt.trans {x y z : EI} (h1 : KeyLt x y) (h2 : KeyLt y z) : KeyLt x z := by
  unfold KeyLt at *
  rcases h1 with h1 | ⟨h1, h1'⟩ <;> rcases h2 with h2 | ⟨h2, h2'⟩
  · left; omega
  · left; omega
  · left; omega
  · right; exact ⟨by omega, lt_trans h1' h2'⟩

theorem KeyLt.irrefl (x : EI) : ¬ KeyLt x x := by
  unfold KeyLt; intro h
  rcases h with h | ⟨_, h⟩
  · omega
  · exact lt_irrefl _ h

theorem KeyLt.of_eq_left {x y z : EI} (h : KeyEq x y) (h2 : KeyLt y z) : KeyLt x z := by
  unfold KeyLt KeyEq at *; rw [h.1, h.2]; exact h2

theorem KeyLt.of_eq_right {x y z : EI} (h2 : KeyLt x y) (h : KeyEq y z) : KeyLt x z := by
  unfold KeyLt KeyEq at *; rw [← h.1, ← h.2]; exact h2

/-- strictly increasing keys -/
def SortedEI (l : List EI) : Prop := l.Pairwise KeyLt

theorem eiInsert_mem_subset (e x : EI) : ∀ (l : List EI), x ∈ eiInsert e l → x = e ∨ x ∈ l
  | [], h => by simp [eiInsert] at h; exact Or.inl h
  | y :: ys, h => by
      simp only [eiInsert] at h
      split at h
      · simp only [List.mem_cons] at h ⊢
        rcases h with h | h
        · exact Or.inr (Or.inl h)
        · rcases eiInsert_mem_subset e x ys h with h | h
          · exact Or.inl h
          · exact Or.inr (Or.inr h)
      · exact Or.inr h
      · simp only [List.mem_cons] at h ⊢
        exact h

theorem eiInsert_sorted (e : EI) : ∀ (l : List EI), SortedEI l → SortedEI (eiInsert e l)
  | [], _ => List.pairwise_singleton _ _
  | y :: ys, h => by
      have hy := List.pairwise_cons.1 h
      simp only [eiInsert]
      split
      · rename_i hc
        have hlt : KeyLt y e := (cmp_gt_iff e y).1 hc
        refine List.pairwise_cons.2 ⟨?_, eiInsert_sorted e ys hy.2⟩
        intro z hz
        rcases eiInsert_mem_subset e z ys hz with rfl | hz
        · exact hlt
        · exact hy.1 z hz
      · exact h
      · rename_i hc
        have hlt : KeyLt e y := (cmp_lt_iff e y).1 hc
        refine List.pairwise_cons.2 ⟨?_, h⟩
        intro z hz
        simp only [List.mem_cons] at hz
        rcases hz with rfl | hz
        · exact hlt
        · exact hlt.trans (hy.1 z hz)

/-- membership after an insertion into a sorted list: the new element is taken unless an element
with the same key is there -/
theorem mem_eiInsert (e x : EI) : ∀ (l : List EI), SortedEI l →
    (x ∈ eiInsert e l ↔ x ∈ l ∨ (x = e ∧ ∀ y ∈ l, ¬ KeyEq e y))
  | [], _ => by simp [eiInsert]
  | y :: ys, h => by
      have hy := List.pairwise_cons.1 h
      have hall : (∀ z ∈ y :: ys, ¬ KeyEq e z) ↔ (¬ KeyEq e y ∧ ∀ z ∈ ys, ¬ KeyEq e z) := List.forall_mem_cons
      simp only [eiInsert]
      split
      · rename_i hc
        have hlt : KeyLt y e := (cmp_gt_iff e y).1 hc
        have hne : ¬ KeyEq e y := by
          intro he
          exact KeyLt.irrefl y (hlt.of_eq_right he)
        rw [hall]
        simp only [List.mem_cons, mem_eiInsert e x ys hy.2]
        tauto
      · rename_i hc
        have heq : KeyEq e y := (cmp_eq_iff e y).1 hc
        rw [hall]
        simp only [List.mem_cons]
        tauto
      · rename_i hc
        have hlt : KeyLt e y := (cmp_lt_iff e y).1 hc
        have hne : ∀ z ∈ y :: ys, ¬ KeyEq e z := by
          intro z hz he
          simp only [List.mem_cons] at hz
          rcases hz with rfl | hz
          · exact KeyLt.irrefl z (KeyLt.of_eq_left ⟨he.1.symm, he.2.symm⟩ hlt)
          · exact KeyLt.irrefl z (KeyLt.of_eq_left ⟨he.1.symm, he.2.symm⟩ (hlt.trans (hy.1 z hz)))
        rw [show (x ∈ e :: y :: ys ↔ x = e ∨ x = y ∨ x ∈ ys) by simp only [List.mem_cons],
          show (x ∈ y :: ys ↔ x = y ∨ x ∈ ys) by simp only [List.mem_cons]]
        constructor
        · rintro (rfl | h1 | h1)
          · exact Or.inr ⟨rfl, hne⟩
          · exact Or.inl (Or.inl h1)
          · exact Or.inl (Or.inr h1)
        · rintro ((h1 | h1) | ⟨rfl, _⟩)
          · exact Or.inr (Or.inl h1)
          · exact Or.inr (Or.inr h1)
          · exact Or.inl rfl

/-- a strictly sorted list is determined by its elements -/
theorem sortedEI_ext : ∀ {l l' : List EI}, SortedEI l → SortedEI l' → (∀ x, x ∈ l ↔ x ∈ l') → l = l'
  | [], [], _, _, _ => rfl
  | [], y :: ys, _, _, h => by have := (h y).2 (List.mem_cons_self ..); cases this
  | x :: xs, [], _, _, h => by have := (h x).1 (List.mem_cons_self ..); cases this
  | x :: xs, y :: ys, h1, h2, h => by
      have hx := List.pairwise_cons.1 h1
      have hy := List.pairwise_cons.1 h2
      have hxy : x = y := by
        have hx' := (h x).1 (List.mem_cons_self ..)
        have hy' := (h y).2 (List.mem_cons_self ..)
        simp only [List.mem_cons] at hx' hy'
        rcases hx' with h' | h'
        · exact h'
        · rcases hy' with h'' | h''
          · exact h''.symm
          · exact absurd ((hy.1 x h').trans (hx.1 y h'')) (KeyLt.irrefl y)
      subst hxy
      congr 1
      apply sortedEI_ext hx.2 hy.2
      intro z
      have hz := h z
      simp only [List.mem_cons] at hz
      constructor
      · intro hzx
        rcases hz.1 (Or.inr hzx) with rfl | h'
        · exact absurd (hx.1 z hzx) (KeyLt.irrefl z)
        · exact h'
      · intro hzy
        rcases hz.2 (Or.inr hzy) with rfl | h'
        · exact absurd (hy.1 z hzy) (KeyLt.irrefl z)
        · exact h'

/-- inserting a list of intersections one after the other -/
def insertAll (rs : List EI) (l : List EI) : List EI := rs.foldl (fun l r => eiInsert r l) l

theorem insertAll_sorted : ∀ (rs : List EI) (l : List EI), SortedEI l → SortedEI (insertAll rs l)
  | [], _, h => h
  | r :: rs, l, h => insertAll_sorted rs _ (eiInsert_sorted r l h)

/-- no two different records with the same key -/
def Compat (S : List EI) : Prop := ∀ x ∈ S, ∀ y ∈ S, KeyEq x y → x = y

theorem mem_insertAll : ∀ (rs : List EI) (l : List EI), SortedEI l → Compat (l ++ rs) →
    ∀ x, x ∈ insertAll rs l ↔ x ∈ l ∨ x ∈ rs
  | [], l, _, _, x => by simp [insertAll]
  | r :: rs, l, hs, hc, x => by
      have hc' : Compat (eiInsert r l ++ rs) := by
        intro a ha b hb hab
        apply hc a _ b _ hab
        · simp only [List.mem_append, List.mem_cons] at ha ⊢
          rcases ha with ha | ha
          · rcases eiInsert_mem_subset r a l ha with rfl | ha
            · exact Or.inr (Or.inl rfl)
            · exact Or.inl ha
          · exact Or.inr (Or.inr ha)
        · simp only [List.mem_append, List.mem_cons] at hb ⊢
          rcases hb with hb | hb
          · rcases eiInsert_mem_subset r b l hb with rfl | hb
            · exact Or.inr (Or.inl rfl)
            · exact Or.inl hb
          · exact Or.inr (Or.inr hb)
      show x ∈ insertAll rs (eiInsert r l) ↔ _
      rw [mem_insertAll rs _ (eiInsert_sorted r l hs) hc' x, mem_eiInsert r x l hs]
      simp only [List.mem_cons]
      constructor
      · rintro ((h | ⟨rfl, _⟩) | h)
        · exact Or.inl h
        · exact Or.inr (Or.inl rfl)
        · exact Or.inr (Or.inr h)
      · rintro (h | rfl | h)
        · exact Or.inl (Or.inl h)
        · by_cases hex : ∃ y ∈ l, KeyEq x y
          · obtain ⟨y, hy, hxy⟩ := hex
            have : x = y := hc x (by simp) y (by simp [hy]) hxy
            subst this
            exact Or.inl (Or.inl hy)
          · exact Or.inl (Or.inr ⟨rfl, fun y hy he => hex ⟨y, hy, he⟩⟩)
        · exact Or.inr h

/-- **order independence**: inserting compatible records in any order (with any repetitions)
gives the same list -/
theorem insertAll_congr {l : List EI} (hs : SortedEI l) {rs rs' : List EI} (h : ∀ x, x ∈ rs ↔ x ∈ rs')
    (hc : Compat (l ++ rs)) : insertAll rs l = insertAll rs' l := by
  have hc' : Compat (l ++ rs') := by
    intro a ha b hb hab
    apply hc a _ b _ hab
    · simp only [List.mem_append] at ha ⊢; rcases ha with ha | ha
      · exact Or.inl ha
      · exact Or.inr ((h a).2 ha)
    · simp only [List.mem_append] at hb ⊢; rcases hb with hb | hb
      · exact Or.inl hb
      · exact Or.inr ((h b).2 hb)
  apply sortedEI_ext (insertAll_sorted rs l hs) (insertAll_sorted rs' l hs)
  intro x
  rw [mem_insertAll rs l hs hc x, mem_insertAll rs' l hs hc' x, h x]

end Geo.Proofs.RELM
