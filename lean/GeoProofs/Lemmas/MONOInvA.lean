/-
  MONO (C10, builder of the monotone pieces): a coordinate-provenance invariant of the sweep state, part A (the sweep).

  For any predicate `V` on coordinates: if the end points of all segments, the points of all queued events, the
  coordinates of all chains and of all finished pieces satisfy `V`, they still do after every operation of the
  sweep (`handle_event`, `next_point`); finished pieces are moreover *closed* (both chains start and end at the same
  coordinates). Instantiated with `V p := p is an input coordinate` in Props/C10.
-/
import GeoModel.MonoBuild
import GeoProofs.Lemmas.MONOHeap

namespace Geo.Proofs.MONO
open Geo Geo.Mono Geo.MonoBuild

/-- both chains are non-empty, start at the same coordinate and end at the same coordinate -/
def Closed (m : MonoPoly) : Prop :=
  m.top ≠ [] ∧ m.bot ≠ [] ∧ m.top.head? = m.bot.head? ∧ m.top.getLast? = m.bot.getLast?

def LoPV (V : Pt → Prop) (l : LoP) : Prop := V l.left ∧ V l.right

/-- a chain: all coordinates satisfy `V`, at least two of them -/
def ChainOk (V : Pt → Prop) (l : List Pt) : Prop := (∀ p ∈ l, V p) ∧ 2 ≤ l.length

def PieceOk (V : Pt → Prop) (m : MonoPoly) : Prop :=
  ChainOk V m.top ∧ ChainOk V m.bot ∧ Closed m

structure InvV (V : Pt → Prop) (st : St) : Prop where
  segs : ∀ s ∈ st.segs, LoPV V s.line
  evs : ∀ e ∈ st.events, V e.pt
  chains : ∀ c ∈ st.chains, ∀ l, c = some l → ChainOk V l
  outs : ∀ m ∈ st.outputs, PieceOk V m

variable {V : Pt → Prop}

theorem lopV_from {a b : Pt} (ha : V a) (hb : V b) : LoPV V (LoP.from a b) := by
  unfold LoP.from
  split
  · exact ⟨ha, hb⟩
  · split
    · exact ⟨ha, ha⟩
    · exact ⟨hb, ha⟩

theorem checkInterior_a {la lb : LoP} {p : Pt} (ha : LoPV V la) (hb : LoPV V lb)
    (h : checkInterior la lb = .a p) : V p := by
  unfold checkInterior at h
  simp only at h
  split at h
  · cases h; exact hb.1
  · split at h
    · cases h; exact hb.2
    · split at h
      · cases h
      · split at h <;> cases h

theorem checkInterior_b {la lb : LoP} {p : Pt} (ha : LoPV V la) (hb : LoPV V lb)
    (h : checkInterior la lb = .b p) : V p := by
  unfold checkInterior at h
  simp only at h
  split at h
  · cases h
  · split at h
    · cases h
    · split at h
      · cases h; exact ha.1
      · split at h
        · cases h; exact ha.2
        · cases h

theorem mem_of_getElem? {α} {l : List α} {i : Nat} {x : α} (h : l[i]? = some x) : x ∈ l :=
  List.mem_of_getElem? h

theorem forall_mem_set {α} {P : α → Prop} {l : List α} {i : Nat} {a : α}
    (hl : ∀ x ∈ l, P x) (ha : P a) : ∀ x ∈ l.set i a, P x := by
  intro x hx
  rcases List.mem_or_eq_of_mem_set hx with h | h
  · exact hl x h
  · rw [h]; exact ha

/-! ### the heap only permutes events -/

theorem heapPush_forall {P : Ev → Prop} {d : Heap} {e : Ev} (hd : ∀ x ∈ d, P x) (he : P e) :
    ∀ x ∈ heapPush d e, P x := by
  intro x hx
  have := (heapPush_perm d e).mem_iff.1 hx
  rcases List.mem_cons.1 this with h | h
  · rw [h]; exact he
  · exact hd x h

theorem heapExtend2_forall {P : Ev → Prop} {d : Heap} {a b : Ev} (hd : ∀ x ∈ d, P x) (ha : P a) (hb : P b) :
    ∀ x ∈ heapExtend2 d a b, P x := by
  intro x hx
  have := (heapExtend2_perm d a b).mem_iff.1 hx
  rcases List.mem_cons.1 this with h | h
  · rw [h]; exact ha
  · rcases List.mem_cons.1 h with h | h
    · rw [h]; exact hb
    · exact hd x h

theorem heapPop_forall {P : Ev → Prop} {d d' : Heap} {e : Ev} (hd : ∀ x ∈ d, P x)
    (h : heapPop d = some (e, d')) : P e ∧ ∀ x ∈ d', P x := by
  have hp := heapPop_perm h
  refine ⟨hd e (hp.mem_iff.2 (List.mem_cons_self ..)), fun x hx => hd x (hp.mem_iff.2 (List.mem_cons_of_mem _ hx))⟩

/-! ### primitive operations of the sweep -/

theorem lineOf_V {st : St} (hi : InvV V st) {i : Nat} {l : LoP} (h : st.lineOf i = some l) : LoPV V l := by
  unfold St.lineOf at h
  cases hs : st.segs[i]? with
  | none => rw [hs] at h; cases h
  | some s =>
    rw [hs] at h
    simp only [Option.map_some, Option.some.injEq] at h
    rw [← h]
    exact hi.segs s (mem_of_getElem? hs)

theorem splitAt_inv {st st' : St} {i nw : Nat} {pt : Pt} (hi : InvV V st) (hp : V pt)
    (h : st.splitAt i pt = some (st', nw)) : InvV V st' := by
  unfold St.splitAt at h
  split at h
  · cases h
  · rename_i s hs
    simp only [Option.some.injEq, Prod.mk.injEq] at h
    obtain ⟨h, _⟩ := h
    subst h
    have hsV := hi.segs s (mem_of_getElem? hs)
    refine ⟨?_, hi.evs, hi.chains, hi.outs⟩
    intro x hx
    simp only [List.mem_append, List.mem_singleton] at hx
    rcases hx with hx | hx
    · exact forall_mem_set hi.segs (lopV_from hsV.1 hp) x hx
    · rw [hx]; exact lopV_from hp hsV.2

theorem eventsOf_V {st : St} (hi : InvV V st) {i : Nat} {e1 e2 : Ev} (h : st.eventsOf i = some (e1, e2)) :
    V e1.pt ∧ V e2.pt := by
  unfold St.eventsOf at h
  split at h
  · cases h
  · rename_i g hg
    simp only [Option.some.injEq, Prod.mk.injEq] at h
    have := lineOf_V hi hg
    rw [← h.1, ← h.2]
    exact this

theorem applySplit_inv {st st' : St} {act seg : Nat} {sp : Split} (hi : InvV V st)
    (hsp : ∀ p, sp = .a p ∨ sp = .b p → V p)
    (h : st.applySplit act seg sp = some st') : InvV V st' := by
  unfold St.applySplit at h
  split at h
  · cases h; exact hi
  · rename_i pt
    split at h
    · cases h
    · rename_i st1 nw h1
      have i1 := splitAt_inv hi (hsp pt (Or.inl rfl)) h1
      split at h
      · rename_i x1 ev e1 e2 he he'
        cases h
        have v1 := eventsOf_V i1 he
        have v2 := eventsOf_V i1 he'
        exact ⟨i1.segs, heapExtend2_forall (heapPush_forall i1.evs v1.2) v2.1 v2.2, i1.chains, i1.outs⟩
      · cases h
  · rename_i pt
    split at h
    · cases h
    · rename_i st1 nw h1
      have i1 := splitAt_inv hi (hsp pt (Or.inr rfl)) h1
      split at h
      · rename_i x1 ev e1 e2 he he'
        cases h
        have v1 := eventsOf_V i1 he
        have v2 := eventsOf_V i1 he'
        exact ⟨i1.segs, heapExtend2_forall (heapPush_forall i1.evs v1.2) v2.1 v2.2, i1.chains, i1.outs⟩
      · cases h

theorem modifyChain_inv {st st' : St} {i : Nat} {f : List Pt → Option (List Pt)} (hi : InvV V st)
    (hf : ∀ c c', ChainOk V c → f c = some c' → ChainOk V c')
    (h : st.modifyChain i f = some st') : InvV V st' := by
  unfold St.modifyChain at h
  split at h
  · rename_i c hc
    split at h
    · rename_i c' hc'
      cases h
      refine ⟨hi.segs, hi.evs, ?_, hi.outs⟩
      refine forall_mem_set hi.chains ?_
      intro l hl
      cases hl
      exact hf c c' (hi.chains _ (mem_of_getElem? hc) c rfl) hc'
    · cases h
  · cases h

theorem fixTop_V {c c' : List Pt} {pt : Pt} (hc : ChainOk V c) (hp : V pt) (h : fixTop c pt = some c') :
    ChainOk V c' := by
  unfold fixTop at h
  split at h
  · cases h
  · cases h
    refine ⟨?_, ?_⟩
    · intro p hp'
      simp only [List.mem_append, List.mem_singleton] at hp'
      rcases hp' with h1 | h1
      · exact hc.1 p (List.dropLast_subset _ h1)
      · rw [h1]; exact hp
    · have := hc.2
      simp only [List.length_append, List.length_dropLast, List.length_cons, List.length_nil]
      omega

/-- operations that touch neither the coordinates nor the events keep the invariant -/
theorem inv_of_same {st st' : St} (hi : InvV V st)
    (h1 : ∀ s ∈ st'.segs, ∃ s0 ∈ st.segs, s.line = s0.line) (h2 : st'.events = st.events)
    (h3 : st'.chains = st.chains) (h4 : st'.outputs = st.outputs) : InvV V st' := by
  refine ⟨?_, by rw [h2]; exact hi.evs, by rw [h3]; exact hi.chains, by rw [h4]; exact hi.outs⟩
  intro s hs
  obtain ⟨s0, hs0, e⟩ := h1 s hs
  rw [e]; exact hi.segs s0 hs0

theorem onEvent_inv {st st' : St} {ev : Ev} (hi : InvV V st) (h : st.onEvent ev = some st') : InvV V st' := by
  unfold St.onEvent at h
  split at h
  · split at h
    · cases h
    · rename_i s hs
      have hsV := hi.segs s (mem_of_getElem? hs)
      refine modifyChain_inv (st := { st with incoming := st.incoming ++ [ev.seg] }) ⟨hi.segs, hi.evs, hi.chains, hi.outs⟩ ?_ h
      intro c c' hc hf
      exact fixTop_V hc hsV.2 hf
  · split at h
    · cases h
    · rename_i s hs
      cases h
      refine inv_of_same hi ?_ rfl rfl rfl
      intro x hx
      rcases List.mem_or_eq_of_mem_set hx with hx | hx
      · exact ⟨x, hx, rfl⟩
      · exact ⟨s, mem_of_getElem? hs, by rw [hx]⟩
  · cases h

/-! ### `handle_event` -/

theorem handle_inv : ∀ (fuel : Nat),
    (∀ (st st' : St) (ev : Ev), InvV V st → handleEvent fuel st ev = some st' → InvV V st') ∧
    (∀ (st st' : St) (ev : Ev) (b : Bool) (idx idx' : Nat), InvV V st →
        neighbour fuel st ev b idx = some (st', idx') → InvV V st') ∧
    (∀ (st st' : St) (ev : Ev) (b : Bool) (idx idx' : Nat), InvV V st →
        drain fuel st ev b idx = some (st', idx') → InvV V st')
  | 0 => by
    refine ⟨?_, ?_, ?_⟩ <;> intros <;> rename_i h <;> simp [handleEvent, neighbour, drain] at h
  | fuel + 1 => by
    obtain ⟨ihH, ihN, ihD⟩ := handle_inv fuel
    refine ⟨?_, ?_, ?_⟩
    · intro st st' ev hi h
      unfold handleEvent at h
      split at h
      · cases h
      · split at h
        · cases h; exact hi
        · split at h
          · -- lineLeft
            split at h
            · cases h
            · split at h
              · cases h
              · rename_i st1 idx1 hn1
                have i1 := ihN _ _ _ _ _ _ hi hn1
                split at h
                · cases h
                · rename_i st2 idx2 hn2
                  have i2 := ihN _ _ _ _ _ _ i1 hn2
                  split at h
                  · cases h
                  · refine onEvent_inv ?_ h
                    exact ⟨i2.segs, i2.evs, i2.chains, i2.outs⟩
          · -- lineRight
            split at h
            · cases h
            · refine onEvent_inv ?_ h
              exact ⟨hi.segs, hi.evs, hi.chains, hi.outs⟩
          · exact onEvent_inv hi h
    · intro st st' ev b idx idx' hi h
      unfold neighbour at h
      simp only at h
      split at h
      · cases h; exact hi
      · split at h
        · cases h
        · split at h
          · rename_i la lb hla hlb
            split at h
            · cases h
            · rename_i st1 hs1
              have hA := lineOf_V hi hla
              have hB := lineOf_V hi hlb
              have i1 : InvV V st1 := applySplit_inv hi (by
                intro p hp
                rcases hp with hp | hp
                · exact checkInterior_a hA hB hp
                · exact checkInterior_b hA hB hp) hs1
              exact ihD _ _ _ _ _ _ i1 h
          · cases h
    · intro st st' ev b idx idx' hi h
      unfold drain at h
      split at h
      · cases h
      · split at h
        · split at h
          · cases h
          · rename_i e evs hpop
            have hp := heapPop_forall (P := fun e => V e.pt) hi.evs hpop
            split at h
            · cases h
            · rename_i st1 hh
              have i1 := ihH { st with events := evs } _ _ ⟨hi.segs, hp.2, hi.chains, hi.outs⟩ hh
              split at h
              · exact ihD _ _ _ _ _ _ i1 h
              · split at h
                · cases h
                · exact ihD _ _ _ _ _ _ i1 h
        · cases h; exact hi

theorem handleEvent_inv {fuel : Nat} {st st' : St} {ev : Ev} (hi : InvV V st)
    (h : handleEvent fuel st ev = some st') : InvV V st' := (handle_inv fuel).1 st st' ev hi h

theorem nextPointLoop_inv (hf : Nat) (pt : Pt) : ∀ (fuel : Nat) (st st' : St), InvV V st →
    nextPointLoop hf pt fuel st = some st' → InvV V st'
  | 0, st, st', _, h => by simp [nextPointLoop] at h
  | fuel + 1, st, st', hi, h => by
    unfold nextPointLoop at h
    split at h
    · cases h
    · rename_i e evs hpop
      have hp := heapPop_forall (P := fun e => V e.pt) hi.evs hpop
      split at h
      · cases h
      · rename_i st1 hh
        have i1 := handleEvent_inv (st := { st with events := evs }) ⟨hi.segs, hp.2, hi.chains, hi.outs⟩ hh
        split at h
        · cases h; exact i1
        · exact nextPointLoop_inv hf pt fuel _ _ i1 h

theorem nextPoint_inv {fuel : Nat} {st st' : St} {p : Option Pt} (hi : InvV V st)
    (h : nextPoint fuel st = some (st', p)) : InvV V st' ∧ ∀ q, p = some q → V q := by
  unfold nextPoint at h
  split at h
  · cases h; exact ⟨hi, by intro q hq; cases hq⟩
  · rename_i e he
    split at h
    · cases h
    · rename_i st1 hl
      cases h
      refine ⟨nextPointLoop_inv _ _ _ _ _ hi hl, ?_⟩
      intro q hq
      cases hq
      exact hi.evs e (List.mem_of_mem_head? he)

end Geo.Proofs.MONO
