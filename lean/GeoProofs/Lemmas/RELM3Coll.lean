/-
  RELM3 — GeometryCollections of linear members (Line, LineString, MultiLineString, nested) and of point members
  (Point, MultiPoint, nested): `add_geometry` builds the graph of the MultiLineString of all their curves / of the
  MultiPoint of all their points, member by member; the specification flattens the collection the same way
  (`partsList`).  So `NodesLocate` follows from the MultiLineString / MultiPoint case — no hypothesis on how the
  members meet each other.
-/
import GeoProofs.Lemmas.RELM3Dom

namespace Geo.Proofs.RELM3
open Geo Geo.GG Geo.RI Geo.Proofs.Spec Geo.Proofs.RELM Geo.Proofs.RELM2 Geo.Proofs.Kernel

/-! ### linear collections -/

mutual
/-- Line (non-degenerate), LineString, MultiLineString, collections of these -/
def linOk : Geom → Bool
  | .line a b => a != b
  | .lineString _ => true
  | .multiLineString _ => true
  | .collection gs => linOkList gs
  | _ => false
def linOkList : List Geom → Bool
  | [] => true
  | g :: gs => linOk g && linOkList gs
end

theorem addLine_eq (idx : Nat) (a b : Pt) (hab : a ≠ b) (G : Graph) :
    addLine idx a b G = addLineString idx [a, b] G := by
  have hd : dedup [a, b] = [a, b] := by
    simp [dedup, dedupFrom, Ne.symm hab]
  unfold addLineString addLine
  rw [hd]
  rfl

mutual
theorem addGeometry_linear (idx : Nat) : ∀ (g : Geom) (G : Graph), linOk g = true →
    addGeometry idx g G = addLineStrings idx (parts g).curves G ∧ (parts g).pts = [] ∧ (parts g).areas = []
  | .line a b, G, h => by
      have hab : a ≠ b := by simpa [linOk] using h
      refine ⟨?_, rfl, rfl⟩
      simp only [addGeometry, parts, addLineStrings]
      exact addLine_eq idx a b hab G
  | .lineString cs, G, _ => by
      refine ⟨?_, rfl, rfl⟩
      simp only [addGeometry, parts, addLineStrings]
      split
      · rename_i he
        rw [List.isEmpty_iff] at he
        subst he
        rfl
      · rfl
  | .multiLineString ls, G, _ => ⟨Geo.Proofs.C17L.addGeometry_multiLineString idx ls G, rfl, rfl⟩
  | .collection gs, G, h => by
      have hl : linOkList gs = true := by simpa [linOk] using h
      obtain ⟨h1, h2, h3⟩ := addGeometries_linear idx gs G hl
      refine ⟨?_, by simpa [parts] using h2, by simpa [parts] using h3⟩
      simp only [addGeometry, parts]
      split
      · rename_i he
        rw [List.isEmpty_iff] at he
        subst he
        rfl
      · exact h1
  | .point _, _, h => by simp [linOk] at h
  | .polygon _, _, h => by simp [linOk] at h
  | .multiPoint _, _, h => by simp [linOk] at h
  | .multiPolygon _, _, h => by simp [linOk] at h
  | .rect _ _, _, h => by simp [linOk] at h
  | .triangle _ _ _, _, h => by simp [linOk] at h
theorem addGeometries_linear (idx : Nat) : ∀ (gs : List Geom) (G : Graph), linOkList gs = true →
    addGeometries idx gs G = addLineStrings idx (partsList gs).curves G ∧ (partsList gs).pts = [] ∧
      (partsList gs).areas = []
  | [], G, _ => ⟨rfl, rfl, rfl⟩
  | g :: gs, G, h => by
      simp only [linOkList, Bool.and_eq_true] at h
      obtain ⟨a1, a2, a3⟩ := addGeometry_linear idx g G h.1
      obtain ⟨b1, b2, b3⟩ := addGeometries_linear idx gs (addGeometry idx g G) h.2
      refine ⟨?_, by simp [partsList, Parts.append, a2, b2], by simp [partsList, Parts.append, a3, b3]⟩
      simp only [addGeometries, partsList, Parts.append]
      rw [b1, a1, Geo.Proofs.C17L.addLineStrings_append]
end

mutual
theorem noCollapse_linear : ∀ (g : Geom), inDomain g = true → linOk g = true → ∀ l ∈ (parts g).curves, NoCollapse l
  | .line a b, _, h => by
      have hab : a ≠ b := by simpa [linOk] using h
      intro l hl
      have : l = [a, b] := by simpa [parts] using hl
      subst this
      exact Or.inr ⟨a, b, [], by simp [dedup, dedupFrom, Ne.symm hab]⟩
  | .lineString cs, hd, _ => by
      intro l hl
      have : l = cs := by simpa [parts] using hl
      subst this
      have hv : l.isEmpty = true ∨ lineStringSimple l = true := by simpa [inDomain, validGeom] using hd
      rcases hv with he | hs
      · exact Or.inl (List.isEmpty_iff.1 he)
      · exact Or.inr (simple_dedup_long hs)
  | .multiLineString ls, hd, _ => fun l hl => Or.inr (long_of_mls_dom hd l (by simpa [parts] using hl))
  | .collection gs, hd, h => by
      have hl : linOkList gs = true := by simpa [linOk] using h
      have hd' : inDomainList gs = true := by
        simp only [inDomain, Bool.and_eq_true] at hd
        exact hd.2
      simpa [parts] using noCollapse_linearList gs hd' hl
  | .point _, _, h => by simp [linOk] at h
  | .polygon _, _, h => by simp [linOk] at h
  | .multiPoint _, _, h => by simp [linOk] at h
  | .multiPolygon _, _, h => by simp [linOk] at h
  | .rect _ _, _, h => by simp [linOk] at h
  | .triangle _ _ _, _, h => by simp [linOk] at h
theorem noCollapse_linearList : ∀ (gs : List Geom), inDomainList gs = true → linOkList gs = true →
    ∀ l ∈ (partsList gs).curves, NoCollapse l
  | [], _, _ => fun l hl => by simp [partsList] at hl
  | g :: gs, hd, h => by
      simp only [linOkList, Bool.and_eq_true] at h
      simp only [inDomainList, Bool.and_eq_true] at hd
      intro l hl
      simp only [partsList, Parts.append, List.mem_append] at hl
      rcases hl with hl | hl
      · exact noCollapse_linear g hd.1 h.1 l hl
      · exact noCollapse_linearList gs hd.2 h.2 l hl
end

/-- **a linear operand of the domain is, for `relate` and for the specification, the MultiLineString of its curves** -/
theorem linearAs_of_linOk (g : Geom) (hd : inDomain g = true) (h : linOk g = true) : LinearAs g (parts g).curves := by
  refine ⟨?_, ?_, noCollapse_linear g hd h⟩
  · intro idx
    unfold buildGraph
    rw [Geo.Proofs.C17L.addGeometry_multiLineString, (addGeometry_linear idx g _ h).1]
  · obtain ⟨_, h2, h3⟩ := addGeometry_linear 0 g Graph.empty h
    cases hp : parts g with
    | mk pts curves areas =>
      rw [hp] at h2 h3
      simp only at h2 h3
      subst h2 h3
      rfl

mutual
theorem noK9_linear (p : Pt) : ∀ (g : Geom), linOk g = true → esum p (parts g).curves = 0 →
    Geo.Proofs.C02X.noK9 p g = true
  | .line _ _, _, _ => rfl
  | .lineString _, _, _ => rfl
  | .multiLineString ls, _, h => by
      have : endpointCount p ls = 0 := by rw [endpointCount_eq_esum]; exact h
      simp [Geo.Proofs.C02X.noK9, this]
  | .collection gs, h, he => by
      have hl : linOkList gs = true := by simpa [linOk] using h
      simp only [Geo.Proofs.C02X.noK9]
      exact noK9_linearList p gs hl (by simpa [parts] using he)
  | .point _, h, _ => by simp [linOk] at h
  | .polygon _, h, _ => by simp [linOk] at h
  | .multiPoint _, h, _ => by simp [linOk] at h
  | .multiPolygon _, h, _ => by simp [linOk] at h
  | .rect _ _, h, _ => by simp [linOk] at h
  | .triangle _ _ _, h, _ => by simp [linOk] at h
theorem noK9_linearList (p : Pt) : ∀ (gs : List Geom), linOkList gs = true → esum p (partsList gs).curves = 0 →
    Geo.Proofs.C02X.noK9List p gs = true
  | [], _, _ => rfl
  | g :: gs, h, he => by
      simp only [linOkList, Bool.and_eq_true] at h
      simp only [partsList, Parts.append, Geo.Proofs.C02X.esum_append] at he
      simp only [Geo.Proofs.C02X.noK9List, Bool.and_eq_true]
      exact ⟨noK9_linear p g h.1 (by omega), noK9_linearList p gs h.2 (by omega)⟩
end

/-- **rows Interior / Boundary of `relate(Point p, B)` for every linear `B` of the domain, collections included** -/
theorem point_rows_eq_spec_linear (p : Pt) (b : Geom) (hd : inDomain b = true) (hl : linOk b = true) {m : IM}
    (h : relateGraph Arith.exact (.point p) b = some m) (X Y : Pos) (hX : X ≠ .outside) :
    m.get X Y = (relateSpec (.point p) b).get X Y := by
  have hA := linearAs_of_linOk b hd hl
  apply point_rows_eq_spec_of_nodesLocate_off _ p b h (nodesLocate_linear hA) (eisAreNodes_linear _ hA) _ X Y hX
  intro hp
  apply Geo.Proofs.C02X.coordPos_dom b p hd
  apply noK9_linear p b hl
  rw [← endpointCount_eq_esum]
  exact esum_zero_of_not_node Arith.exact hA p hp

/-! ### point collections -/

mutual
/-- Point, MultiPoint, collections of these -/
def ptOk : Geom → Bool
  | .point _ => true
  | .multiPoint _ => true
  | .collection gs => ptOkList gs
  | _ => false
def ptOkList : List Geom → Bool
  | [] => true
  | g :: gs => ptOk g && ptOkList gs
end

theorem addPoints_append (idx : Nat) : ∀ (xs ys : List Pt) (G : Graph),
    addPoints idx (xs ++ ys) G = addPoints idx ys (addPoints idx xs G)
  | [], _, _ => rfl
  | x :: xs, ys, G => by simp only [List.cons_append, addPoints]; exact addPoints_append idx xs ys _

mutual
theorem addGeometry_points (idx : Nat) : ∀ (g : Geom) (G : Graph), ptOk g = true →
    addGeometry idx g G = addPoints idx (parts g).pts G ∧ (parts g).curves = [] ∧ (parts g).areas = []
  | .point q, G, _ => ⟨rfl, rfl, rfl⟩
  | .multiPoint qs, G, _ => by
      refine ⟨?_, rfl, rfl⟩
      simp only [addGeometry, parts]
      split
      · rename_i he
        rw [List.isEmpty_iff] at he
        subst he
        rfl
      · rfl
  | .collection gs, G, h => by
      have hl : ptOkList gs = true := by simpa [ptOk] using h
      obtain ⟨h1, h2, h3⟩ := addGeometries_points idx gs G hl
      refine ⟨?_, by simpa [parts] using h2, by simpa [parts] using h3⟩
      simp only [addGeometry, parts]
      split
      · rename_i he
        rw [List.isEmpty_iff] at he
        subst he
        rfl
      · exact h1
  | .line _ _, _, h => by simp [ptOk] at h
  | .lineString _, _, h => by simp [ptOk] at h
  | .multiLineString _, _, h => by simp [ptOk] at h
  | .polygon _, _, h => by simp [ptOk] at h
  | .multiPolygon _, _, h => by simp [ptOk] at h
  | .rect _ _, _, h => by simp [ptOk] at h
  | .triangle _ _ _, _, h => by simp [ptOk] at h
theorem addGeometries_points (idx : Nat) : ∀ (gs : List Geom) (G : Graph), ptOkList gs = true →
    addGeometries idx gs G = addPoints idx (partsList gs).pts G ∧ (partsList gs).curves = [] ∧
      (partsList gs).areas = []
  | [], G, _ => ⟨rfl, rfl, rfl⟩
  | g :: gs, G, h => by
      simp only [ptOkList, Bool.and_eq_true] at h
      obtain ⟨a1, a2, a3⟩ := addGeometry_points idx g G h.1
      obtain ⟨b1, b2, b3⟩ := addGeometries_points idx gs (addGeometry idx g G) h.2
      refine ⟨?_, by simp [partsList, Parts.append, a2, b2], by simp [partsList, Parts.append, a3, b3]⟩
      simp only [addGeometries, partsList, Parts.append]
      rw [b1, a1, addPoints_append]
end

theorem nodesLocate_points (ar : Arith) (g : Geom) (h : ptOk g = true) : NodesLocate ar g ∧ EisAreNodes ar g := by
  obtain ⟨h1, h2, h3⟩ := addGeometry_points 1 g Graph.empty h
  have hB : buildGraph 1 g = addPoints 1 (parts g).pts Graph.empty := h1
  obtain ⟨e1, _, e3, e4⟩ := addPoints_spec 1 (parts g).pts Graph.empty
  have hedges : (freshGraph ar 1 g).edges = [] := by
    rw [fresh_edges, hB, e1]
    rfl
  have hE : EisAreNodes ar g := by
    intro e he
    rw [hedges] at he
    cases he
  refine ⟨?_, hE⟩
  intro n hn
  rw [fresh_nodes_of_no_eis ar 1 g (fun e he => by rw [hedges] at he; cases he), hB] at hn
  have hin := e3 (fun n hn => by cases hn) n hn
  have hmem : n.coord ∈ (parts g).pts := by
    have := (e4 n.coord).1 (List.mem_map.2 ⟨n, hn, rfl⟩)
    rcases this with h | h
    · exact h
    · simp [Graph.empty] at h
  have : locate g n.coord = .inside := by
    unfold locate
    rw [Geo.Proofs.Spec.locateParts_points _ _ h3 h2, if_pos hmem]
  rw [this]
  exact hin

mutual
theorem noK9_points (p : Pt) : ∀ (g : Geom), ptOk g = true → Geo.Proofs.C02X.noK9 p g = true
  | .point _, _ => rfl
  | .multiPoint _, _ => rfl
  | .collection gs, h => by
      have hl : ptOkList gs = true := by simpa [ptOk] using h
      simp only [Geo.Proofs.C02X.noK9]
      exact noK9_pointsList p gs hl
  | .line _ _, h => by simp [ptOk] at h
  | .lineString _, h => by simp [ptOk] at h
  | .multiLineString _, h => by simp [ptOk] at h
  | .polygon _, h => by simp [ptOk] at h
  | .multiPolygon _, h => by simp [ptOk] at h
  | .rect _ _, h => by simp [ptOk] at h
  | .triangle _ _ _, h => by simp [ptOk] at h
theorem noK9_pointsList (p : Pt) : ∀ (gs : List Geom), ptOkList gs = true → Geo.Proofs.C02X.noK9List p gs = true
  | [], _ => rfl
  | g :: gs, h => by
      simp only [ptOkList, Bool.and_eq_true] at h
      simp only [Geo.Proofs.C02X.noK9List, Bool.and_eq_true]
      exact ⟨noK9_points p g h.1, noK9_pointsList p gs h.2⟩
end

/-- the operands for which `Point × B` is tied to the specification at every point: every type but
GeometryCollection, and the collections all of whose members (recursively) are linear, or all point-like -/
def pointRowsOk (b : Geom) : Bool := notCollection b || linOk b || ptOk b

/-- **rows Interior / Boundary of `relate(Point p, B)` are the specification's, at every `p`** -/
theorem point_rows_eq_spec_dom4 (p : Pt) (b : Geom) (hd : inDomain b = true) (ht : pointRowsOk b = true) {m : IM}
    (h : relateGraph Arith.exact (.point p) b = some m) (X Y : Pos) (hX : X ≠ .outside) :
    m.get X Y = (relateSpec (.point p) b).get X Y := by
  simp only [pointRowsOk, Bool.or_eq_true] at ht
  rcases ht with (ht | ht) | ht
  · exact point_rows_eq_spec_dom3 p b hd ht h X Y hX
  · exact point_rows_eq_spec_linear p b hd ht h X Y hX
  · exact point_rows_eq_spec_of_nodesLocate_off _ p b h (nodesLocate_points _ b ht).1 (nodesLocate_points _ b ht).2
      (fun _ => Geo.Proofs.C02X.coordPos_dom b p hd (noK9_points p b ht)) X Y hX

end Geo.Proofs.RELM3
