/-
  C02X, part 7: the nine pairs of linear types (Line, LineString, MultiLineString): `intersects` is
  "some segment of the first meets some segment of the second" (`intersectsM_linear_iff`, every
  bounding-box early return on the way is sound — no validity needed), and that is the mask
  "not `FF*FF****`" on the DE-9IM specification (`intersectsM_linear_eq_spec`), for all inputs
  (degenerate lines, one-coordinate and non-simple line strings included).
-/
import GeoProofs.Lemmas.C02XLinear
import GeoProofs.Lemmas.C07Bbox
import GeoProofs.Lemmas.LocateLemmas

set_option linter.unusedSimpArgs false
set_option linter.unusedVariables false

namespace Geo.Proofs.C02X
open Geo Geo.Proofs.Kernel Geo.Proofs.Spec Geo.Proofs.C02Q

/-! ### bounding boxes -/

def InBox (mn mx x : Pt) : Prop := mn.x ≤ x.x ∧ x.x ≤ mx.x ∧ mn.y ≤ x.y ∧ x.y ≤ mx.y

/-- two geometries whose bounding boxes both contain `x` do not have disjoint bounding boxes -/
theorem disjointBB_false_of_common {a b : Geom} {x : Pt}
    (ha : ∀ mn mx, boundingRect a = some (mn, mx) → InBox mn mx x)
    (hb : ∀ mn mx, boundingRect b = some (mn, mx) → InBox mn mx x) : disjointBB a b = false := by
  unfold disjointBB
  cases hba : boundingRect a with
  | none => rfl
  | some ra =>
    cases hbb : boundingRect b with
    | none => rfl
    | some rb =>
      obtain ⟨amn, amx⟩ := ra
      obtain ⟨bmn, bmx⟩ := rb
      have h1 := ha amn amx hba
      have h2 := hb bmn bmx hbb
      simp only [Bool.not_eq_false']
      rw [rectRect_eq]
      unfold InBox at h1 h2
      refine ⟨?_, ?_, ?_, ?_⟩ <;> linarith [h1.1, h1.2.1, h1.2.2.1, h1.2.2.2, h2.1, h2.2.1, h2.2.2.1, h2.2.2.2]

theorem seg_in_bbox_of_coords {L : List Pt} {t : Pt × Pt} {x : Pt} (h1 : t.1 ∈ L) (h2 : t.2 ∈ L)
    (hx : SegMem x t.1 t.2) : ∀ mn mx, getBoundingRect L = some (mn, mx) → InBox mn mx x := by
  intro mn mx h
  have hb := (Geo.Proofs.C19.getBoundingRect_bounds L mn mx h).1
  exact Geo.Proofs.C07.SegMem_in_box hx (hb _ h1) (hb _ h2)

/-- Line, LineString, MultiLineString -/
def isLinear : Geom → Bool
  | .line _ _ | .lineString _ | .multiLineString _ => true
  | _ => false

/-- a point of a segment of a linear geometry lies in its bounding box -/
theorem linear_seg_in_bbox (g : Geom) (hl : isLinear g = true) {t : Pt × Pt} (ht : t ∈ (parts g).curveSegs)
    {x : Pt} (hx : SegMem x t.1 t.2) : ∀ mn mx, boundingRect g = some (mn, mx) → InBox mn mx x := by
  cases g <;> simp only [isLinear, Bool.false_eq_true] at hl
  · rename_i a b
    intro mn mx h
    simp only [parts, Parts.curveSegs, List.flatMap_cons, List.flatMap_nil, List.append_nil, segs,
      List.mem_singleton] at ht
    subst ht
    simp only [boundingRect, Option.some.injEq] at h
    have := Geo.Proofs.Loc.segMem_in_rectNew hx
    rw [h, rectCoord_iff] at this
    exact this
  · rename_i cs
    simp only [parts, Parts.curveSegs, List.flatMap_cons, List.flatMap_nil, List.append_nil] at ht
    obtain ⟨m1, m2⟩ := Geo.Proofs.Loc.segs_mem (s := t.1) (e := t.2) ht
    simp only [boundingRect]
    exact seg_in_bbox_of_coords m1 m2 hx
  · rename_i ls
    simp only [parts, Parts.curveSegs, List.mem_flatMap] at ht
    obtain ⟨cs, hcs, ht⟩ := ht
    obtain ⟨m1, m2⟩ := Geo.Proofs.Loc.segs_mem (s := t.1) (e := t.2) ht
    simp only [boundingRect]
    exact seg_in_bbox_of_coords (List.mem_flatten.mpr ⟨cs, hcs, m1⟩) (List.mem_flatten.mpr ⟨cs, hcs, m2⟩) hx

/-- some segment of `a` and some segment of `b` have a common point -/
def SegsMeet (a b : Geom) : Prop :=
  ∃ s ∈ (parts a).curveSegs, ∃ t ∈ (parts b).curveSegs, ∃ p, SegMem p s.1 s.2 ∧ SegMem p t.1 t.2

theorem SegsMeet.symm {a b : Geom} (h : SegsMeet a b) : SegsMeet b a := by
  obtain ⟨s, hs, t, ht, p, h1, h2⟩ := h
  exact ⟨t, ht, s, hs, p, h2, h1⟩

/-- linear operands with a common segment point do not have disjoint bounding boxes -/
theorem disjointBB_false_of_meet {a b : Geom} (ha : isLinear a = true) (hb : isLinear b = true)
    {s t : Pt × Pt} (hs : s ∈ (parts a).curveSegs) (ht : t ∈ (parts b).curveSegs) {p : Pt}
    (h1 : SegMem p s.1 s.2) (h2 : SegMem p t.1 t.2) : disjointBB a b = false :=
  disjointBB_false_of_common (linear_seg_in_bbox a ha hs h1) (linear_seg_in_bbox b hb ht h2)

theorem curveSegs_line (x y : Pt) : (parts (.line x y)).curveSegs = [(x, y)] := by
  simp [parts, Parts.curveSegs, segs]

theorem curveSegs_lineString (cs : List Pt) : (parts (.lineString cs)).curveSegs = segs cs := by
  simp [parts, Parts.curveSegs]

theorem curveSegs_mls (ls : List (List Pt)) : (parts (.multiLineString ls)).curveSegs = ls.flatMap segs := by
  simp [parts, Parts.curveSegs]

/-! ### a linear geometry against one segment -/

/-- `Y: Intersects<Line>` for linear `Y`: some segment of `Y` meets the line -/
theorem vsPiece_linear_iff (b : Geom) (hb : isLinear b = true) (x y : Pt) :
    vsPiece b (.line x y) = true ↔ ∃ t ∈ (parts b).curveSegs, ∃ p, SegMem p t.1 t.2 ∧ SegMem p x y := by
  have hline : isLinear (.line x y) = true := rfl
  have hxy : (x, y) ∈ (parts (.line x y)).curveSegs := by rw [curveSegs_line]; simp
  cases b <;> simp only [isLinear, Bool.false_eq_true] at hb
  · rename_i c d
    simp only [vsPiece, isxFlat, lineX, curveSegs_line, List.mem_singleton, exists_eq_left]
    exact lineLine_iff c d x y
  · rename_i ds
    have e : vsPiece (.lineString ds) (.line x y) = lsLine ds x y := by
      simp only [vsPiece, isxFlat, lineX, lsLine]
    rw [e, Geo.Proofs.Loc.lsLine_eq, curveSegs_lineString, List.any_eq_true]
    constructor
    · rintro ⟨t, ht, hl⟩
      exact ⟨t, ht, (lineLine_iff _ _ _ _).mp hl⟩
    · rintro ⟨t, ht, hp⟩
      exact ⟨t, ht, (lineLine_iff _ _ _ _).mpr hp⟩
  · rename_i ls
    rw [curveSegs_mls]
    simp only [vsPiece, isxFlat, lineX]
    constructor
    · intro h
      split at h
      · cases h
      · rw [List.any_eq_true] at h
        obtain ⟨cs, hcs, h⟩ := h
        split at h
        · cases h
        · rw [List.any_eq_true] at h
          obtain ⟨t, ht, hl⟩ := h
          exact ⟨t, List.mem_flatMap.mpr ⟨cs, hcs, ht⟩, (lineLine_iff _ _ _ _).mp hl⟩
    · rintro ⟨t, ht, p, h1, h2⟩
      obtain ⟨cs, hcs, htc⟩ := List.mem_flatMap.mp ht
      have d1 : disjointBB (.multiLineString ls) (.line x y) = false :=
        disjointBB_false_of_meet (a := .multiLineString ls) rfl hline (by rw [curveSegs_mls]; exact ht) hxy h1 h2
      have d2 : disjointBB (.lineString cs) (.line x y) = false :=
        disjointBB_false_of_meet (a := .lineString cs) rfl hline (by rw [curveSegs_lineString]; exact htc) hxy h1 h2
      rw [d1]
      simp only [Bool.false_eq_true, if_false, List.any_eq_true]
      refine ⟨cs, hcs, ?_⟩
      rw [d2]
      simp only [Bool.false_eq_true, if_false, List.any_eq_true]
      exact ⟨t, htc, (lineLine_iff _ _ _ _).mpr ⟨p, h1, h2⟩⟩

/-! ### the nine pairs -/

/-- **Line / LineString / MultiLineString × Line / LineString / MultiLineString**: `intersects` holds
exactly when a segment of the first operand and a segment of the second have a common point. -/
theorem intersectsM_linear_iff (a b : Geom) (ha : isLinear a = true) (hb : isLinear b = true) :
    intersectsM a b = true ↔ SegsMeet a b := by
  unfold SegsMeet
  cases a <;> simp only [isLinear, Bool.false_eq_true] at ha
  · rename_i x y
    rw [intersectsM, vsPiece_linear_iff b hb, curveSegs_line]
    simp only [List.mem_singleton, exists_eq_left]
    constructor
    · rintro ⟨t, ht, p, h1, h2⟩; exact ⟨t, ht, p, h2, h1⟩
    · rintro ⟨t, ht, p, h1, h2⟩; exact ⟨t, ht, p, h2, h1⟩
  · rename_i cs
    rw [intersectsM, curveSegs_lineString]
    constructor
    · intro h
      split at h
      · cases h
      · rw [List.any_eq_true] at h
        obtain ⟨s, hs, h⟩ := h
        obtain ⟨t, ht, p, h1, h2⟩ := (vsPiece_linear_iff b hb s.1 s.2).mp h
        exact ⟨s, hs, t, ht, p, h2, h1⟩
    · rintro ⟨s, hs, t, ht, p, h1, h2⟩
      have d : disjointBB (.lineString cs) b = false :=
        disjointBB_false_of_meet (a := .lineString cs) rfl hb (by rw [curveSegs_lineString]; exact hs) ht h1 h2
      rw [d]
      simp only [Bool.false_eq_true, if_false, List.any_eq_true]
      exact ⟨s, hs, (vsPiece_linear_iff b hb s.1 s.2).mpr ⟨t, ht, p, h2, h1⟩⟩
  · rename_i ls
    rw [intersectsM, curveSegs_mls]
    constructor
    · intro h
      split at h
      · cases h
      · rw [List.any_eq_true] at h
        obtain ⟨cs, hcs, h⟩ := h
        split at h
        · cases h
        · rw [List.any_eq_true] at h
          obtain ⟨s, hs, h⟩ := h
          obtain ⟨t, ht, p, h1, h2⟩ := (vsPiece_linear_iff b hb s.1 s.2).mp h
          exact ⟨s, List.mem_flatMap.mpr ⟨cs, hcs, hs⟩, t, ht, p, h2, h1⟩
    · rintro ⟨s, hs, t, ht, p, h1, h2⟩
      obtain ⟨cs, hcs, hsc⟩ := List.mem_flatMap.mp hs
      have d1 : disjointBB (.multiLineString ls) b = false :=
        disjointBB_false_of_meet (a := .multiLineString ls) rfl hb (by rw [curveSegs_mls]; exact hs) ht h1 h2
      have d2 : disjointBB (.lineString cs) b = false :=
        disjointBB_false_of_meet (a := .lineString cs) rfl hb (by rw [curveSegs_lineString]; exact hsc) ht h1 h2
      rw [d1]
      simp only [Bool.false_eq_true, if_false, List.any_eq_true]
      refine ⟨cs, hcs, ?_⟩
      rw [d2]
      simp only [Bool.false_eq_true, if_false, List.any_eq_true]
      exact ⟨s, hsc, (vsPiece_linear_iff b hb s.1 s.2).mpr ⟨t, ht, p, h2, h1⟩⟩

/-- `intersects` is symmetric on the nine linear pairs -/
theorem intersectsM_linear_symm (a b : Geom) (ha : isLinear a = true) (hb : isLinear b = true) :
    intersectsM a b = intersectsM b a := by
  rw [Bool.eq_iff_iff, intersectsM_linear_iff a b ha hb, intersectsM_linear_iff b a hb ha]
  exact ⟨SegsMeet.symm, SegsMeet.symm⟩

/-! ### the specification -/

theorem linear_parts {g : Geom} (hl : isLinear g = true) : (parts g).areas = [] ∧ (parts g).pts = [] := by
  cases g <;> simp only [isLinear, Bool.false_eq_true] at hl <;> simp [parts]

/-- a point is located non-`Outside` in a linear geometry iff it lies on one of its segments -/
theorem located_linear {g : Geom} (hl : isLinear g = true) (p : Pt) :
    locate g p ≠ .outside ↔ ∃ t ∈ (parts g).curveSegs, SegMem p t.1 t.2 := by
  obtain ⟨ha, hp⟩ := linear_parts hl
  unfold locate
  rw [located_noAreas ha p, hp]
  simp only [List.not_mem_nil, or_false]
  rw [Geo.Proofs.Spec.onAnySeg_iff]
  constructor
  · rintro ⟨t, ht, hl⟩; exact ⟨t, ht, (lineCoord_iff _ _ _).mp hl⟩
  · rintro ⟨t, ht, hl⟩; exact ⟨t, ht, (lineCoord_iff _ _ _).mpr hl⟩

/-- **the nine linear pairs, all inputs: `intersects` is the mask "not `FF*FF****`" on the DE-9IM
specification of the pair** -/
theorem intersectsM_linear_eq_spec (a b : Geom) (ha : isLinear a = true) (hb : isLinear b = true) :
    intersectsM a b = Gen.isIntersects (relateSpec a b) := by
  rw [Bool.eq_iff_iff, intersectsM_linear_iff a b ha hb,
    isIntersects_relate_iff_left (linear_parts ha).1 (closedRings_of_noAreas (linear_parts hb).1)]
  constructor
  · rintro ⟨s, hs, t, ht, p, h1, h2⟩
    exact ⟨p, (located_linear ha p).mpr ⟨s, hs, h1⟩, (located_linear hb p).mpr ⟨t, ht, h2⟩⟩
  · rintro ⟨p, h1, h2⟩
    obtain ⟨s, hs, hs'⟩ := (located_linear ha p).mp h1
    obtain ⟨t, ht, ht'⟩ := (located_linear hb p).mp h2
    exact ⟨s, hs, t, ht, p, hs', ht'⟩

end Geo.Proofs.C02X
