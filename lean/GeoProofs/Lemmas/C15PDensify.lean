/-
  C15 helper definitions/lemmas for `densify` on rings, polygons and the multi-geometries: the
  list of coordinate sequences ("rings") a densifiable geometry is made of, its total length, and
  the closedness invariant of polygon rings (`Polygon::new` closes every ring).
-/
import GeoModel.Interp
import GeoProofs.Lemmas.C15
import Mathlib.Tactic.Linarith
import Mathlib.Tactic.Ring

namespace Geo.Proofs.C15
open Geo Geo.Interp

/-- exterior followed by the interiors -/
def polyRings (p : Poly) : List (List Pt) := p.ext :: p.ints

/-- the type invariant of `geo_types::Polygon` (`Polygon::new` closes every ring). -/
def PolyClosed (p : Poly) : Prop := ∀ r ∈ polyRings p, SM.isClosed r = true

/-- the coordinate sequences whose segments make up a densifiable geometry (`Rect` / `Triangle`
through `to_polygon`, as in the code). -/
def geomRings : Geom → List (List Pt)
  | .line a b => [[a, b]]
  | .lineString cs => [cs]
  | .multiLineString ls => ls
  | .polygon p => polyRings p
  | .multiPolygon ps => ps.flatMap polyRings
  | .rect mn mx => polyRings (rectToPoly mn mx)
  | .triangle a b c => polyRings (triToPoly a b c)
  | _ => []

/-- every polygon ring of the geometry is closed (true of every value built through the geo-types
constructors). -/
def GeomClosed : Geom → Prop
  | .polygon p => PolyClosed p
  | .multiPolygon ps => ∀ p ∈ ps, PolyClosed p
  | _ => True

def sumRat : List Rat → Rat
  | [] => 0
  | x :: xs => x + sumRat xs

theorem sumRat_append (xs ys : List Rat) : sumRat (xs ++ ys) = sumRat xs + sumRat ys := by
  induction xs with
  | nil => simp [sumRat]
  | cons x xs ih => simp only [List.cons_append, sumRat, ih]; ring

/-- total length (perimeter for areal geometries) -/
def geomLength (len : Len) (g : Geom) : Rat := sumRat ((geomRings g).map (lsLength len))

theorem densifyLine_eq_LS (len : Len) (a b : Pt) (mx : Rat) :
    densifyLine len a b mx = densifyLS len [a, b] mx := by
  simp [densifyLine, densifyLS, Interp.segs, densifySegs]

theorem polyClosed_rect (mn mx : Pt) : PolyClosed (rectToPoly mn mx) := by
  intro r hr
  simp only [polyRings, rectToPoly, List.mem_cons, List.not_mem_nil, or_false] at hr
  subst hr; simp [SM.isClosed]

theorem polyClosed_tri (a b c : Pt) : PolyClosed (triToPoly a b c) := by
  intro r hr
  simp only [polyRings, triToPoly, List.mem_cons, List.not_mem_nil, or_false] at hr
  subst hr; simp [SM.isClosed]

theorem flatMap_map_rings (f : Poly → Poly) (g : List Pt → List Pt) (ps : List Poly)
    (h : ∀ p ∈ ps, polyRings (f p) = (polyRings p).map g) :
    (ps.map f).flatMap polyRings = (ps.flatMap polyRings).map g := by
  induction ps with
  | nil => rfl
  | cons p ps ih =>
    simp only [List.map_cons, List.flatMap_cons, List.map_append]
    rw [h p (by simp), ih (fun q hq => h q (by simp [hq]))]

end Geo.Proofs.C15
