/-
  SMLX (C05), part 9: the two tests of `GeoModel/SimpleRing.lean` against the point-set segment.

  * `segsMeet_iff`: the CLRS test `segsMeet a b c d` holds exactly when the closed segments `ab` and `cd` share a
    point.
  * `foldsBack_iff`: two segments `sp`, `sq` of positive length from a common end point overlap beyond `s`
    exactly when `foldsBack s p q` holds.
-/
import GeoModel.SimpleRing
import GeoProofs.Lemmas.LISpec
import GeoProofs.Lemmas.SegmentSpec

set_option linter.unusedSimpArgs false
set_option linter.unusedVariables false

namespace Geo.Proofs.SMLX
open Geo Geo.Proofs.Kernel

/-! ### `inBox` is `point_in_rect` -/

theorem inBox_eq (a b p : Pt) : inBox a b p = pointInRect p a b := by
  rw [Bool.eq_iff_iff, pointInRect_iff]
  unfold inBox rmin rmax
  simp only [Bool.and_eq_true, decide_eq_true_eq]
  constructor
  · rintro ⟨⟨⟨h1, h2⟩, h3⟩, h4⟩
    constructor
    · split_ifs at h1 h2 with hx
      · exact Or.inl ⟨h1, h2⟩
      · exact Or.inr ⟨h1, h2⟩
    · split_ifs at h3 h4 with hy
      · exact Or.inl ⟨h3, h4⟩
      · exact Or.inr ⟨h3, h4⟩
  · rintro ⟨hx, hy⟩
    refine ⟨⟨⟨?_, ?_⟩, ?_⟩, ?_⟩
    · split_ifs with h
      · rcases hx with h' | h' <;> linarith [h'.1, h'.2]
      · rcases hx with h' | h' <;> linarith [h'.1, h'.2]
    · split_ifs with h
      · rcases hx with h' | h' <;> linarith [h'.1, h'.2]
      · rcases hx with h' | h' <;> linarith [h'.1, h'.2]
    · split_ifs with h
      · rcases hy with h' | h' <;> linarith [h'.1, h'.2]
      · rcases hy with h' | h' <;> linarith [h'.1, h'.2]
    · split_ifs with h
      · rcases hy with h' | h' <;> linarith [h'.1, h'.2]
      · rcases hy with h' | h' <;> linarith [h'.1, h'.2]

/-! ### `segsMeet` -/

/-- the straddle condition of `segsMeet` -/
def Opp (x y : Rat) : Prop := (0 < x ∧ y < 0) ∨ (x < 0 ∧ 0 < y)

theorem segsMeet_eq (a b c d : Pt) :
    segsMeet a b c d = true ↔
      (Opp (cross c d a) (cross c d b) ∧ Opp (cross a b c) (cross a b d)) ∨
      (cross c d a = 0 ∧ pointInRect a c d = true) ∨ (cross c d b = 0 ∧ pointInRect b c d = true) ∨
      (cross a b c = 0 ∧ pointInRect c a b = true) ∨ (cross a b d = 0 ∧ pointInRect d a b = true) := by
  unfold segsMeet Opp
  simp only [inBox_eq]
  by_cases h1 : (0 < cross c d a ∧ cross c d b < 0 ∨ cross c d a < 0 ∧ 0 < cross c d b) ∧
      (0 < cross a b c ∧ cross a b d < 0 ∨ cross a b c < 0 ∧ 0 < cross a b d)
  · have : (((decide (cross c d a > 0) && decide (cross c d b < 0)) ||
        (decide (cross c d a < 0) && decide (cross c d b > 0))) &&
        ((decide (cross a b c > 0) && decide (cross a b d < 0)) ||
        (decide (cross a b c < 0) && decide (cross a b d > 0)))) = true := by
      simpa [gt_iff_lt] using h1
    simp only [this, if_true, true_iff]
    exact Or.inl h1
  · have : (((decide (cross c d a > 0) && decide (cross c d b < 0)) ||
        (decide (cross c d a < 0) && decide (cross c d b > 0))) &&
        ((decide (cross a b c > 0) && decide (cross a b d < 0)) ||
        (decide (cross a b c < 0) && decide (cross a b d > 0)))) = false := by
      rw [Bool.eq_false_iff]
      intro hh
      apply h1
      simpa [gt_iff_lt] using hh
    simp only [this, Bool.false_eq_true, if_false]
    by_cases h2 : cross c d a = 0 ∧ pointInRect a c d = true
    · simp [h2.1, h2.2]
    · have e2 : (cross c d a == 0 && pointInRect a c d) = false := by
        rw [Bool.eq_false_iff]; intro hh; apply h2; simpa using hh
      simp only [e2, Bool.false_eq_true, if_false]
      by_cases h3 : cross c d b = 0 ∧ pointInRect b c d = true
      · simp [h3.1, h3.2]
      · have e3 : (cross c d b == 0 && pointInRect b c d) = false := by
          rw [Bool.eq_false_iff]; intro hh; apply h3; simpa using hh
        simp only [e3, Bool.false_eq_true, if_false]
        by_cases h4 : cross a b c = 0 ∧ pointInRect c a b = true
        · simp [h4.1, h4.2]
        · have e4 : (cross a b c == 0 && pointInRect c a b) = false := by
            rw [Bool.eq_false_iff]; intro hh; apply h4; simpa using hh
          simp only [e4, Bool.false_eq_true, if_false]
          by_cases h5 : cross a b d = 0 ∧ pointInRect d a b = true
          · simp [h5.1, h5.2]
          · have e5 : (cross a b d == 0 && pointInRect d a b) = false := by
              rw [Bool.eq_false_iff]; intro hh; apply h5; simpa using hh
            simp only [e5, Bool.false_eq_true, if_false]
            constructor
            · intro hh; cases hh
            · rintro (hh | hh | hh | hh | hh)
              · exact absurd hh h1
              · exact absurd hh h2
              · exact absurd hh h3
              · exact absurd hh h4
              · exact absurd hh h5

theorem opp_of_not_same {x y : Rat} (h : ¬ SameStrict x y) (hx : x ≠ 0) (hy : y ≠ 0) : Opp x y := by
  rcases lt_or_gt_of_ne hx with h1 | h1 <;> rcases lt_or_gt_of_ne hy with h2 | h2
  · exact absurd (Or.inl ⟨h1, h2⟩) h
  · exact Or.inr ⟨h1, h2⟩
  · exact Or.inl ⟨h1, h2⟩
  · exact absurd (Or.inr ⟨h1, h2⟩) h

/-- a common point of `ab` and `cd` when `a` is on the line `cd` and `b` is not: it is `a` -/
theorem common_is_end {a b c d x : Pt} (hx1 : SegMem x a b) (hx2 : SegMem x c d)
    (ha : cross c d a = 0) (hb : cross c d b ≠ 0) : x = a := by
  obtain ⟨t, t0, t1, ex, ey⟩ := hx1
  have hz := hx2.cross_eq_zero
  rw [cross_affine c d a b x t ex ey, ha, mul_zero, zero_add] at hz
  rcases mul_eq_zero.mp hz with h0 | h0
  · apply Pt.ext'
    · rw [ex, h0]; ring
    · rw [ey, h0]; ring
  · exact absurd h0 hb

/-- `a`, `b` on the line `cd` and a common point: `c`, `d` are on the line `ab` -/
theorem collinear_back {a b c d x : Pt} (hx1 : SegMem x a b) (hx2 : SegMem x c d)
    (ha : cross c d a = 0) (hb : cross c d b = 0) : cross a b c = 0 ∧ cross a b d = 0 := by
  by_cases hcd : c = d
  · subst hcd
    rw [SegMem_degenerate] at hx2
    subst hx2
    exact ⟨hx1.cross_eq_zero, hx1.cross_eq_zero⟩
  · obtain ⟨α, ax, ay⟩ := exists_param hcd ha
    obtain ⟨β, bx, by'⟩ := exists_param hcd hb
    constructor
    · unfold cross; rw [ax, ay, bx, by']; ring
    · unfold cross; rw [ax, ay, bx, by']; ring

/-- **`segsMeet` decides whether the two closed segments share a point** -/
theorem segsMeet_iff (a b c d : Pt) :
    segsMeet a b c d = true ↔ ∃ x, SegMem x a b ∧ SegMem x c d := by
  rw [segsMeet_eq]
  constructor
  · rintro (⟨h1, h2⟩ | ⟨h1, h2⟩ | ⟨h1, h2⟩ | ⟨h1, h2⟩ | ⟨h1, h2⟩)
    · -- proper crossing: `Line: Intersects<Line>` says so
      rw [← lineLine_iff, lineLine_def]
      have hab : a ≠ b := by
        rintro rfl
        have : cross a a c = 0 := by unfold cross; ring
        rcases h2 with ⟨h, _⟩ | ⟨h, _⟩ <;> linarith
      have hab' : (a == b) = false := by simp [hab]
      rw [hab', if_neg (by simp)]
      have o1 : orient a b c ≠ orient a b d := by
        rw [orient_oriOf, orient_oriOf]
        rcases h2 with ⟨p, q⟩ | ⟨p, q⟩
        · rw [oriOf_pos p, oriOf_neg q]; decide
        · rw [oriOf_neg p, oriOf_pos q]; decide
      have o2 : orient c d a ≠ orient c d b := by
        rw [orient_oriOf, orient_oriOf]
        rcases h1 with ⟨p, q⟩ | ⟨p, q⟩
        · rw [oriOf_pos p, oriOf_neg q]; decide
        · rw [oriOf_neg p, oriOf_pos q]; decide
      simp [o1, o2]
    · exact ⟨a, SegMem_left _ _, SegMem_of_cross_of_inRect h1 h2⟩
    · exact ⟨b, SegMem_right _ _, SegMem_of_cross_of_inRect h1 h2⟩
    · exact ⟨c, SegMem_of_cross_of_inRect h1 h2, SegMem_left _ _⟩
    · exact ⟨d, SegMem_of_cross_of_inRect h1 h2, SegMem_right _ _⟩
  · rintro ⟨x, hx1, hx2⟩
    have n1 : ¬ SameStrict (cross a b c) (cross a b d) := fun hh =>
      no_common_of_sameStrict hh ⟨x, hx1, hx2⟩
    have n2 : ¬ SameStrict (cross c d a) (cross c d b) := fun hh =>
      no_common_of_sameStrict' hh ⟨x, hx1, hx2⟩
    -- all four end points on one line: one of them is inside the other segment
    have hcol : cross c d a = 0 → cross c d b = 0 → cross a b c = 0 → cross a b d = 0 →
        (cross c d a = 0 ∧ pointInRect a c d = true) ∨ (cross c d b = 0 ∧ pointInRect b c d = true) ∨
        (cross a b c = 0 ∧ pointInRect c a b = true) ∨ (cross a b d = 0 ∧ pointInRect d a b = true) := by
      intro z1 z2 z3 z4
      have := col_two_bits z3 z4 z1 z2 ⟨x, hx1, hx2⟩
      simp only [Bool.or_eq_true, Bool.and_eq_true] at this
      rcases this with ((((⟨p, _⟩ | ⟨p, _⟩) | ⟨p, _⟩) | ⟨p, _⟩) | ⟨p, _⟩) | ⟨p, _⟩
      · exact Or.inr (Or.inr (Or.inl ⟨z3, p⟩))
      · exact Or.inl ⟨z1, p⟩
      · exact Or.inr (Or.inr (Or.inl ⟨z3, p⟩))
      · exact Or.inr (Or.inr (Or.inl ⟨z3, p⟩))
      · exact Or.inr (Or.inr (Or.inr ⟨z4, p⟩))
      · exact Or.inr (Or.inr (Or.inr ⟨z4, p⟩))
    by_cases z1 : cross c d a = 0
    · by_cases z2 : cross c d b = 0
      · obtain ⟨z3, z4⟩ := collinear_back hx1 hx2 z1 z2
        exact Or.inr (hcol z1 z2 z3 z4)
      · have := common_is_end hx1 hx2 z1 z2
        subst this
        exact Or.inr (Or.inl ⟨z1, hx2.inRect⟩)
    · by_cases z2 : cross c d b = 0
      · have := common_is_end (SegMem_symm hx1) hx2 z2 z1
        subst this
        exact Or.inr (Or.inr (Or.inl ⟨z2, hx2.inRect⟩))
      · by_cases z3 : cross a b c = 0
        · by_cases z4 : cross a b d = 0
          · exact absurd (collinear_back hx2 hx1 z3 z4).1 z1
          · have := common_is_end hx2 hx1 z3 z4
            subst this
            exact Or.inr (Or.inr (Or.inr (Or.inl ⟨z3, hx1.inRect⟩)))
        · by_cases z4 : cross a b d = 0
          · have := common_is_end (SegMem_symm hx2) hx1 z4 z3
            subst this
            exact Or.inr (Or.inr (Or.inr (Or.inr ⟨z4, hx1.inRect⟩)))
          · exact Or.inl ⟨opp_of_not_same n2 z1 z2, opp_of_not_same n1 z3 z4⟩

/-! ### `foldsBack` -/

theorem foldsBack_symm (s p q : Pt) : foldsBack s p q = foldsBack s q p := by
  unfold foldsBack
  have h1 : cross s q p = - cross s p q := by unfold cross; ring
  have h2 : (q.x - s.x) * (p.x - s.x) + (q.y - s.y) * (p.y - s.y) =
      (p.x - s.x) * (q.x - s.x) + (p.y - s.y) * (q.y - s.y) := by ring
  rw [h1, h2]
  by_cases hc : cross s p q = 0
  · simp [hc]
  · have hc' : ¬ (- cross s p q = 0) := fun h => hc (by linarith)
    have b1 : (cross s p q == 0) = false := by simpa using hc
    have b2 : (- cross s p q == 0) = false := by simpa using hc'
    rw [b1, b2]

/-- **`foldsBack s p q`: the segments `ps` and `sq` share a point other than `s`** -/
theorem foldsBack_iff (s p q : Pt) (hp : p ≠ s) (hq : s ≠ q) :
    foldsBack s p q = true ↔ ∃ z, z ≠ s ∧ SegMem z p s ∧ SegMem z s q := by
  unfold foldsBack
  simp only [Bool.and_eq_true, beq_iff_eq, decide_eq_true_eq, gt_iff_lt]
  constructor
  · rintro ⟨hc, hdot⟩
    -- `q = s + μ (p - s)` with `μ > 0`
    obtain ⟨μ, qx, qy⟩ := exists_param (Ne.symm hp) hc
    have hn : 0 < (p.x - s.x) * (p.x - s.x) + (p.y - s.y) * (p.y - s.y) := by
      by_contra hh
      have h0 : (p.x - s.x) * (p.x - s.x) + (p.y - s.y) * (p.y - s.y) = 0 :=
        le_antisymm (not_lt.mp hh) (by nlinarith [mul_self_nonneg (p.x - s.x), mul_self_nonneg (p.y - s.y)])
      have hx : p.x - s.x = 0 := by nlinarith [mul_self_nonneg (p.x - s.x), mul_self_nonneg (p.y - s.y)]
      have hy : p.y - s.y = 0 := by nlinarith [mul_self_nonneg (p.x - s.x), mul_self_nonneg (p.y - s.y)]
      exact hp (Pt.ext' (by linarith) (by linarith))
    have hμ : 0 < μ := by
      have : (p.x - s.x) * (q.x - s.x) + (p.y - s.y) * (q.y - s.y) =
          μ * ((p.x - s.x) * (p.x - s.x) + (p.y - s.y) * (p.y - s.y)) := by rw [qx, qy]; ring
      rw [this] at hdot
      by_contra hh
      have := mul_nonpos_of_nonpos_of_nonneg (not_lt.mp hh) (le_of_lt hn)
      linarith
    rcases le_or_gt 1 μ with h1 | h1
    · -- `p` lies on `sq`
      refine ⟨p, hp, SegMem_left _ _, 1 / μ, by positivity, by rw [div_le_one hμ]; exact h1, ?_, ?_⟩
      · rw [qx]; field_simp; ring
      · rw [qy]; field_simp; ring
    · -- `q` lies on `ps`
      refine ⟨q, Ne.symm hq, ⟨1 - μ, by linarith, by linarith, ?_, ?_⟩, SegMem_right _ _⟩
      · rw [qx]; ring
      · rw [qy]; ring
  · rintro ⟨z, hzs, ⟨t, t0, t1, zx, zy⟩, ⟨u, u0, u1, zx', zy'⟩⟩
    -- `z - s = (1 - t) (p - s) = u (q - s)`
    have e1 : (1 - t) * (p.x - s.x) = u * (q.x - s.x) := by linarith
    have e2 : (1 - t) * (p.y - s.y) = u * (q.y - s.y) := by linarith
    have hu : 0 < u := by
      rcases lt_or_eq_of_le u0 with h | h
      · exact h
      · exfalso; apply hzs
        apply Pt.ext'
        · rw [zx', ← h]; ring
        · rw [zy', ← h]; ring
    have ht : 0 < 1 - t := by
      rcases lt_or_eq_of_le (sub_nonneg.mpr t1) with h | h
      · exact h
      · exfalso; apply hzs
        have ht1 : t = 1 := by linarith
        apply Pt.ext'
        · rw [zx, ht1]; ring
        · rw [zy, ht1]; ring
    have hn : 0 < (q.x - s.x) * (q.x - s.x) + (q.y - s.y) * (q.y - s.y) := by
      by_contra hh
      have hx : q.x - s.x = 0 := by nlinarith [mul_self_nonneg (q.x - s.x), mul_self_nonneg (q.y - s.y)]
      have hy : q.y - s.y = 0 := by nlinarith [mul_self_nonneg (q.x - s.x), mul_self_nonneg (q.y - s.y)]
      exact hq (Pt.ext' (by linarith) (by linarith))
    constructor
    · -- collinear
      have : (1 - t) * cross s p q = 0 := by
        unfold cross
        have : (1 - t) * ((p.x - s.x) * (q.y - p.y) - (p.y - s.y) * (q.x - p.x)) =
            ((1 - t) * (p.x - s.x)) * (q.y - s.y) - ((1 - t) * (p.y - s.y)) * (q.x - s.x) := by ring
        rw [this, e1, e2]; ring
      rcases mul_eq_zero.mp this with h0 | h0
      · linarith
      · exact h0
    · -- same direction
      have : (1 - t) * ((p.x - s.x) * (q.x - s.x) + (p.y - s.y) * (q.y - s.y)) =
          u * ((q.x - s.x) * (q.x - s.x) + (q.y - s.y) * (q.y - s.y)) := by
        have : (1 - t) * ((p.x - s.x) * (q.x - s.x) + (p.y - s.y) * (q.y - s.y)) =
            ((1 - t) * (p.x - s.x)) * (q.x - s.x) + ((1 - t) * (p.y - s.y)) * (q.y - s.y) := by ring
        rw [this, e1, e2]; ring
      have hpos := mul_pos hu hn
      rw [← this] at hpos
      by_contra hh
      have := mul_nonpos_of_nonneg_of_nonpos (le_of_lt ht) (not_lt.mp hh)
      linarith

end Geo.Proofs.SMLX
