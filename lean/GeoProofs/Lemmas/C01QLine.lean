/-
  C01Q, part 7: spec adequacy, restricted form — two segments. The cell II of the specification for
  `Line × Line` against the point-set definition (`SegMem`): non-empty iff the open segments share a
  point; `1` iff the segments share more than one point.
-/
import GeoProofs.Lemmas.C01QPoint
import GeoProofs.Props.C11
import Mathlib.Tactic.FieldSimp
import Mathlib.Tactic.LinearCombination

namespace Geo.Proofs.Spec
open Geo Geo.Proofs.Kernel

/-- interior of a (non-degenerate) segment: on it, not an end point -/
def SegInt (p a b : Pt) : Prop := SegMem p a b ∧ p ≠ a ∧ p ≠ b

theorem esum_line (a b p : Pt) (hab : a ≠ b) :
    esum p [[a, b]] = (if p = a then 1 else 0) + (if p = b then 1 else 0) := by
  simp [esum, endC, hab]

theorem locate_line_inside (a b p : Pt) (hab : a ≠ b) :
    locateParts ⟨[], [[a, b]], []⟩ p = .inside ↔ SegInt p a b := by
  have hon : onAnyCurve [[a, b]] p = lineCoord a b p := by simp [onAnyCurve, onAnySeg, segs]
  rw [locateParts_lin rfl]
  simp only [hon, esum_line a b p hab]
  unfold SegInt
  rw [← lineCoord_iff]
  by_cases h : lineCoord a b p = true
  · by_cases h1 : p = a
    · subst h1; simp [h, hab]
    · by_cases h2 : p = b
      · subst h2; simp [h, h1]
      · simp [h, h1, h2]
  · simp [h]

/-! ### an elementary sub-segment between two vertices of a segment -/

/-- in a sorted list, between two members with different keys there are two consecutive members with
different keys -/
theorem sorted_between {a : Pt} {l : List Pt} (h : l.Pairwise (fun u v => dist2 a u ≤ dist2 a v))
    {x y : Pt} (hx : x ∈ l) (hy : y ∈ l) (hlt : dist2 a x < dist2 a y) :
    ∃ u v, (u, v) ∈ segs l ∧ dist2 a x ≤ dist2 a u ∧ dist2 a u < dist2 a v ∧ dist2 a v ≤ dist2 a y := by
  induction l generalizing x with
  | nil => cases hx
  | cons h0 t ih =>
    rw [List.pairwise_cons] at h
    have hmin : ∀ z ∈ h0 :: t, dist2 a h0 ≤ dist2 a z := by
      intro z hz
      rcases List.mem_cons.mp hz with rfl | hz
      · exact le_refl _
      · exact h.1 z hz
    have hyt : y ∈ t := by
      rcases List.mem_cons.mp hy with rfl | hy'
      · exact absurd (hmin x hx) (not_le.mpr hlt)
      · exact hy'
    rcases List.mem_cons.mp hx with rfl | hxt
    · cases t with
      | nil => cases hyt
      | cons h2 rest =>
        by_cases hk : dist2 a x < dist2 a h2
        · refine ⟨x, h2, by simp [segs], le_refl _, hk, ?_⟩
          rcases List.mem_cons.mp hyt with rfl | hy'
          · exact le_refl _
          · exact (List.pairwise_cons.mp h.2).1 y hy'
        · have he : dist2 a h2 = dist2 a x := le_antisymm (not_lt.mp hk) (h.1 h2 (by simp))
          obtain ⟨u, v, huv, h1, h2', h3⟩ := ih h.2 (x := h2) (by simp) hyt (by rw [he]; exact hlt)
          exact ⟨u, v, by simp only [segs, List.mem_cons]; exact Or.inr huv, by rw [← he]; exact h1, h2', h3⟩
    · obtain ⟨u, v, huv, h1, h2', h3⟩ := ih h.2 hxt hyt hlt
      refine ⟨u, v, ?_, h1, h2', h3⟩
      cases t with
      | nil => cases hxt
      | cons h2 rest => simp only [segs, List.mem_cons]; exact Or.inr huv

theorem param_lt {t t' L : Rat} (h0 : 0 ≤ t) (h0' : 0 ≤ t') (hL : 0 < L) (h : t * t * L < t' * t' * L) :
    t < t' := by
  by_contra hc
  have hle : t' ≤ t := not_lt.mp hc
  have : t' * t' ≤ t * t := mul_self_le_mul_self h0' hle
  have := mul_le_mul_of_nonneg_right this hL.le
  linarith

/-- a point of the segment `(a, b)` whose distance from `a` is strictly between those of two other
points of the segment lies between them -/
theorem segMem_of_between {a b x y m : Pt} (hab : a ≠ b) (hx : SegMem x a b) (hy : SegMem y a b)
    (hm : SegMem m a b) (h1 : dist2 a x < dist2 a m) (h2 : dist2 a m < dist2 a y) : SegMem m x y := by
  obtain ⟨tx, tx0, _, xx, xy⟩ := hx
  obtain ⟨ty, ty0, _, yx, yy⟩ := hy
  obtain ⟨tm, tm0, _, mx, my⟩ := hm
  have hL := seg_len_pos hab
  generalize hLd : (b.x - a.x) * (b.x - a.x) + (b.y - a.y) * (b.y - a.y) = L at hL
  have dx : dist2 a x = tx * tx * L := by unfold dist2; rw [xx, xy, ← hLd]; ring
  have dy : dist2 a y = ty * ty * L := by unfold dist2; rw [yx, yy, ← hLd]; ring
  have dm : dist2 a m = tm * tm * L := by unfold dist2; rw [mx, my, ← hLd]; ring
  rw [dx, dm] at h1
  rw [dm, dy] at h2
  have l1 := param_lt tx0 tm0 hL h1
  have l2 := param_lt tm0 ty0 hL h2
  have hpos : 0 < ty - tx := by linarith
  have hs : (tm - tx) / (ty - tx) * (ty - tx) = tm - tx := div_mul_cancel₀ _ (ne_of_gt hpos)
  refine ⟨(tm - tx) / (ty - tx), div_nonneg (by linarith) hpos.le, (div_le_one hpos).mpr (by linarith), ?_, ?_⟩
  · rw [mx, xx, yx]; linear_combination (-(b.x - a.x)) * hs
  · rw [my, xy, yy]; linear_combination (-(b.y - a.y)) * hs

/-- the atoms of a given elementary sub-segment -/
theorem segAtoms_of_pair (pa pb : Parts) {verts : List Pt} {a b u v : Pt} (hab : a ≠ b)
    (huv : (u, v) ∈ segs (sortByDist a (verts.filter (fun w => lineCoord a b w)))) (hne : u ≠ v) :
    SegMem (midpoint u v) a b ∧ midpoint u v ∉ verts ∧
      ∀ x, IsAtomAt pa pb a b (midpoint u v) x → x ∈ segAtoms pa pb verts (a, b) := by
  have hl : ∀ w ∈ verts.filter (fun v => lineCoord a b v), SegMem w a b := by
    intro w hw
    rw [List.mem_filter] at hw
    exact (lineCoord_iff _ _ _).mp hw.2
  obtain ⟨hu, hv⟩ := mem_of_mem_segs huv
  rw [mem_sortByDist] at hu hv
  have hm := SegMem_midpoint (hl u hu) (hl v hv)
  have hnm := midpoint_not_mem hab hl huv hne
  refine ⟨hm, ?_, ?_⟩
  · intro hmv
    exact hnm (List.mem_filter.mpr ⟨hmv, (lineCoord_iff _ _ _).mpr hm⟩)
  · intro x hx
    have hab' : (a == b) = false := by simpa using hab
    have hne' : (u == v) = false := by simpa using hne
    simp only [segAtoms, hab', Bool.false_eq_true, if_false]
    rw [List.mem_flatMap]
    refine ⟨(u, v), huv, ?_⟩
    simp only [hne', Bool.false_eq_true, if_false, List.mem_cons, List.not_mem_nil, or_false]
    exact hx

/-- between two different vertices `x`, `y` on the segment `(a, b)` there is an elementary
sub-segment whose midpoint lies on `[x, y]`, is not a vertex, and carries the atoms of `(a, b)` -/
theorem exists_atom_between (pa pb : Parts) {verts : List Pt} {a b x y : Pt} (hab : a ≠ b)
    (hxv : x ∈ verts) (hyv : y ∈ verts) (hx : SegMem x a b) (hy : SegMem y a b) (hxy : x ≠ y) :
    ∃ m, SegMem m x y ∧ SegMem m a b ∧ m ∉ verts ∧
      ∀ z, IsAtomAt pa pb a b m z → z ∈ segAtoms pa pb verts (a, b) := by
  have key : ∀ x y : Pt, x ∈ verts → y ∈ verts → SegMem x a b → SegMem y a b → dist2 a x < dist2 a y →
      ∃ m, SegMem m x y ∧ SegMem m a b ∧ m ∉ verts ∧
        ∀ z, IsAtomAt pa pb a b m z → z ∈ segAtoms pa pb verts (a, b) := by
    intro x y hxv hyv hx hy hlt
    have hx' : x ∈ sortByDist a (verts.filter (fun w => lineCoord a b w)) := by
      rw [mem_sortByDist, List.mem_filter]; exact ⟨hxv, (lineCoord_iff _ _ _).mpr hx⟩
    have hy' : y ∈ sortByDist a (verts.filter (fun w => lineCoord a b w)) := by
      rw [mem_sortByDist, List.mem_filter]; exact ⟨hyv, (lineCoord_iff _ _ _).mpr hy⟩
    obtain ⟨u, v, huv, h1, h2, h3⟩ := sorted_between (sortByDist_sorted a _) hx' hy' hlt
    have hne : u ≠ v := fun e => by rw [e] at h2; exact lt_irrefl _ h2
    obtain ⟨hm, hnv, hall⟩ := segAtoms_of_pair pa pb hab huv hne
    obtain ⟨hu, hv⟩ := mem_of_mem_segs huv
    rw [mem_sortByDist, List.mem_filter] at hu hv
    obtain ⟨b1, b2⟩ := dist2_midpoint_between hab ((lineCoord_iff _ _ _).mp hu.2)
      ((lineCoord_iff _ _ _).mp hv.2) hne h2.le
    exact ⟨_, segMem_of_between hab hx hy hm (lt_of_le_of_lt h1 b1) (lt_of_lt_of_le b2 h3), hm, hnv, hall⟩
  have hd : dist2 a x ≠ dist2 a y := fun e => hxy (dist2_inj_on_seg hab hx hy e)
  rcases lt_or_gt_of_ne hd with h | h
  · exact key x y hxv hyv hx hy h
  · obtain ⟨m, h1, h2, h3, h4⟩ := key y x hyv hxv hy hx h
    exact ⟨m, SegMem_symm h1, h2, h3, h4⟩

/-! ### two segments -/

theorem li_collinear_endpoints (p1 p2 q1 q2 x y : Pt)
    (h : lineIntersection p1 p2 q1 q2 = some (.collinear x y)) :
    (x = p1 ∨ x = p2 ∨ x = q1 ∨ x = q2) ∧ (y = p1 ∨ y = p2 ∨ y = q1 ∨ y = q2) := by
  revert h
  refine li_cases p1 p2 q1 q2 (fun r => r = some (.collinear x y) →
    (x = p1 ∨ x = p2 ∨ x = q1 ∨ x = q2) ∧ (y = p1 ∨ y = p2 ∨ y = q1 ∨ y = q2)) ?_ ?_ ?_ ?_ ?_ ?_
  · intro _ h; cases h
  · intro _ _ h; cases h
  · intro _ _ h; cases h
  · intro _ _ _ _ _ h
    rw [collinearIntersection_def] at h
    rcases colTable_collinear h with ⟨ex, ey, _, _⟩ | ⟨ex, ey, _, _⟩ | ⟨ex, ey, _, _, _⟩ |
      ⟨ex, ey, _, _, _⟩ | ⟨ex, ey, _, _, _⟩ | ⟨ex, ey, _, _, _⟩ <;> rw [ex, ey] <;> simp
  · intro _ _ _ _ _ h
    injection h with h; cases h
  · intro _ _ _ _ _ _ _ h
    injection h with h; cases h

theorem allSegs_line (a b : Pt) : Parts.allSegs ⟨[], [[a, b]], []⟩ = [(a, b)] := by
  simp [Parts.allSegs, Parts.curveSegs, Parts.areaSegs, segs]

/-- the single intersection point of the two segments is a vertex of the arrangement -/
theorem single_mem_verts {a b c d q : Pt} {f : Bool} (h : lineIntersection a b c d = some (.single q f)) :
    q ∈ vertsOf ⟨[], [[a, b]], []⟩ ⟨[], [[c, d]], []⟩ := by
  unfold vertsOf
  rw [mem_dedupPts, allSegs_line, allSegs_line]
  apply List.mem_append_right
  rw [mem_pairVertices_append]
  right; right
  refine ⟨(a, b), by simp, (c, d), by simp, ?_⟩
  have : segVertex (a, b) (c, d) = [q] := by
    unfold segVertex
    simp only [h]
  rw [this]; simp

theorem ends_line_verts (a b c d : Pt) :
    a ∈ vertsOf ⟨[], [[a, b]], []⟩ ⟨[], [[c, d]], []⟩ ∧ b ∈ vertsOf ⟨[], [[a, b]], []⟩ ⟨[], [[c, d]], []⟩ ∧
    c ∈ vertsOf ⟨[], [[a, b]], []⟩ ⟨[], [[c, d]], []⟩ ∧ d ∈ vertsOf ⟨[], [[a, b]], []⟩ ⟨[], [[c, d]], []⟩ := by
  have h1 := ends_mem_vertsOf (pa := ⟨[], [[a, b]], []⟩) (pb := ⟨[], [[c, d]], []⟩) (s := (a, b))
    (by rw [allSegs_line, allSegs_line]; simp)
  have h2 := ends_mem_vertsOf (pa := ⟨[], [[a, b]], []⟩) (pb := ⟨[], [[c, d]], []⟩) (s := (c, d))
    (by rw [allSegs_line, allSegs_line]; simp)
  exact ⟨h1.1, h1.2, h2.1, h2.2⟩

/-- a collinear overlap of two non-degenerate segments carries a midpoint atom interior to both -/
theorem overlap_atom {a b c d x y : Pt} (hab : a ≠ b) (hcd : c ≠ d)
    (hli : lineIntersection a b c d = some (.collinear x y)) :
    ∃ m, SegInt m a b ∧ SegInt m c d ∧
      (⟨.one, locateParts ⟨[], [[a, b]], []⟩ m, locateParts ⟨[], [[c, d]], []⟩ m⟩ : Atom) ∈
        atomsOf ⟨[], [[a, b]], []⟩ ⟨[], [[c, d]], []⟩ := by
  have hxy := Geo.Proofs.C11.li_collinear_nondegenerate_partial a b c d x y hab hcd hli
  obtain ⟨ex, ey⟩ := li_collinear_endpoints a b c d x y hli
  obtain ⟨va, vb, vc, vd⟩ := ends_line_verts a b c d
  have hxv : x ∈ vertsOf ⟨[], [[a, b]], []⟩ ⟨[], [[c, d]], []⟩ := by
    rcases ex with rfl | rfl | rfl | rfl <;> assumption
  have hyv : y ∈ vertsOf ⟨[], [[a, b]], []⟩ ⟨[], [[c, d]], []⟩ := by
    rcases ey with rfl | rfl | rfl | rfl <;> assumption
  obtain ⟨s1, s2, _, _⟩ := Geo.Proofs.C11.li_collinear_sub a b c d x y hli
  rw [lineCoord_iff] at s1 s2
  obtain ⟨m, hmxy, hmab, hnv, hall⟩ :=
    exists_atom_between ⟨[], [[a, b]], []⟩ ⟨[], [[c, d]], []⟩ hab hxv hyv s1 s2 hxy
  obtain ⟨_, hmcd⟩ := (Geo.Proofs.C11.li_collinear_exact a b c d x y hli m).mpr hmxy
  refine ⟨m, ⟨hmab, fun e => hnv (e ▸ va), fun e => hnv (e ▸ vb)⟩,
    ⟨hmcd, fun e => hnv (e ▸ vc), fun e => hnv (e ▸ vd)⟩, ?_⟩
  unfold atomsOf
  apply List.mem_append_right
  rw [List.mem_flatMap]
  exact ⟨(a, b), by rw [allSegs_line, allSegs_line]; simp, hall _ (Or.inl rfl)⟩

theorem cell_ge_of_atom {pa pb : Parts} {x : Atom} (hx : x ∈ atomsOf pa pb) :
    x.dim.rank ≤ ((relateParts pa pb).get x.posA x.posB).rank := by
  rw [relateParts_eq, get_set]
  split
  · cases x.dim <;> simp [Dim.rank]
  · exact (fold_get _ _ _ _).mpr (Or.inr ⟨x, hx, rfl, rfl, le_refl _⟩)

/-- an atom located interior / interior for two segments is a vertex or a midpoint, at a point
interior to both -/
theorem ii_atom {a b c d : Pt} (hab : a ≠ b) (hcd : c ≠ d) {x : Atom}
    (hx : x ∈ atomsOf ⟨[], [[a, b]], []⟩ ⟨[], [[c, d]], []⟩) (hA : x.posA = .inside) (hB : x.posB = .inside) :
    (x.dim = .zero ∨ x.dim = .one) ∧ ∃ p, SegInt p a b ∧ SegInt p c d ∧
      (x.dim = .one → p ∉ vertsOf ⟨[], [[a, b]], []⟩ ⟨[], [[c, d]], []⟩) := by
  rcases mem_atomsOf_cases hx with ⟨v, _, rfl⟩ | ⟨s, _, _, m, _, hnv, rfl | rfl | rfl⟩
  · exact ⟨Or.inl rfl, v, (locate_line_inside a b v hab).mp hA, (locate_line_inside c d v hcd).mp hB,
      fun h => by cases h⟩
  · exact ⟨Or.inr rfl, m, (locate_line_inside a b m hab).mp hA, (locate_line_inside c d m hcd).mp hB,
      fun _ => hnv⟩
  · simp only [locateFace_noAreas (pa := ⟨[], [[a, b]], []⟩) rfl] at hA; cases hA
  · simp only [locateFace_noAreas (pa := ⟨[], [[a, b]], []⟩) rfl] at hA; cases hA

/-- **Line × Line, cell II is non-empty iff the open segments share a point** -/
theorem line_line_ii_ne_empty (a b c d : Pt) (hab : a ≠ b) (hcd : c ≠ d) :
    (relateParts ⟨[], [[a, b]], []⟩ ⟨[], [[c, d]], []⟩).get .inside .inside ≠ .empty ↔
      ∃ p, SegInt p a b ∧ SegInt p c d := by
  constructor
  · intro h
    have h1 : Dim.zero.rank ≤ ((relateParts ⟨[], [[a, b]], []⟩ ⟨[], [[c, d]], []⟩).get .inside .inside).rank := by
      generalize (relateParts ⟨[], [[a, b]], []⟩ ⟨[], [[c, d]], []⟩).get .inside .inside = e at h
      cases e <;> simp [Dim.rank] at h ⊢
    rw [relateParts_eq, get_set, if_neg (by simp), fold_get] at h1
    rcases h1 with h0 | ⟨x, hx, hA, hB, _⟩
    · cases h0
    · obtain ⟨_, p, h1, h2, _⟩ := ii_atom hab hcd hx hA hB
      exact ⟨p, h1, h2⟩
  · rintro ⟨p, hp1, hp2⟩
    have hge : ∀ x ∈ atomsOf ⟨[], [[a, b]], []⟩ ⟨[], [[c, d]], []⟩, x.posA = .inside → x.posB = .inside →
        x.dim ≠ .empty → (relateParts ⟨[], [[a, b]], []⟩ ⟨[], [[c, d]], []⟩).get .inside .inside ≠ .empty := by
      intro x hx hA hB hd he
      have := cell_ge_of_atom hx
      rw [hA, hB, he] at this
      cases hdim : x.dim <;> simp [hdim, Dim.rank] at this hd
    cases hli : lineIntersection a b c d with
    | none => exact absurd ⟨p, hp1.1, hp2.1⟩ ((Geo.Proofs.C11.li_none_iff a b c d).mp hli)
    | some r =>
      cases r with
      | single q f =>
        have hpq : p = q := (Geo.Proofs.C11.li_single_exact a b c d q f hli p).mp ⟨hp1.1, hp2.1⟩
        subst hpq
        exact hge _ (vertex_atom_mem (single_mem_verts hli)) ((locate_line_inside a b p hab).mpr hp1)
          ((locate_line_inside c d p hcd).mpr hp2) (by simp)
      | collinear x y =>
        obtain ⟨m, h1, h2, hm⟩ := overlap_atom hab hcd hli
        exact hge _ hm ((locate_line_inside a b m hab).mpr h1) ((locate_line_inside c d m hcd).mpr h2) (by simp)

/-- **Line × Line, cell II is `1` iff the segments share more than one point** -/
theorem line_line_ii_one (a b c d : Pt) (hab : a ≠ b) (hcd : c ≠ d) :
    (relateParts ⟨[], [[a, b]], []⟩ ⟨[], [[c, d]], []⟩).get .inside .inside = .one ↔
      ∃ p q, p ≠ q ∧ SegMem p a b ∧ SegMem p c d ∧ SegMem q a b ∧ SegMem q c d := by
  have hle : ((relateParts ⟨[], [[a, b]], []⟩ ⟨[], [[c, d]], []⟩).get .inside .inside).rank ≤ Dim.one.rank := by
    by_contra hc
    have h2 : Dim.two.rank ≤ ((relateParts ⟨[], [[a, b]], []⟩ ⟨[], [[c, d]], []⟩).get .inside .inside).rank := by
      simp only [Dim.rank] at hc ⊢; omega
    rw [relateParts_eq, get_set, if_neg (by simp), fold_get] at h2
    rcases h2 with h0 | ⟨x, hx, hA, hB, hd⟩
    · cases h0
    · rcases (ii_atom hab hcd hx hA hB).1 with e | e <;> rw [e] at hd <;> simp [Dim.rank] at hd
  constructor
  · intro h
    have h1 : Dim.one.rank ≤ ((relateParts ⟨[], [[a, b]], []⟩ ⟨[], [[c, d]], []⟩).get .inside .inside).rank := by
      rw [h]
    rw [relateParts_eq, get_set, if_neg (by simp), fold_get] at h1
    rcases h1 with h0 | ⟨x, hx, hA, hB, hd⟩
    · cases h0
    · obtain ⟨hdim, p, hp1, hp2, hnv⟩ := ii_atom hab hcd hx hA hB
      have hone : x.dim = .one := by
        rcases hdim with e | e
        · rw [e] at hd; simp [Dim.rank] at hd
        · exact e
      cases hli : lineIntersection a b c d with
      | none => exact absurd ⟨p, hp1.1, hp2.1⟩ ((Geo.Proofs.C11.li_none_iff a b c d).mp hli)
      | some r =>
        cases r with
        | single q f =>
          have hpq : p = q := (Geo.Proofs.C11.li_single_exact a b c d q f hli p).mp ⟨hp1.1, hp2.1⟩
          exact absurd (hpq ▸ single_mem_verts hli) (hnv hone)
        | collinear x' y' =>
          have hxy := Geo.Proofs.C11.li_collinear_nondegenerate_partial a b c d x' y' hab hcd hli
          obtain ⟨s1, s2, s3, s4⟩ := Geo.Proofs.C11.li_collinear_sub a b c d x' y' hli
          rw [lineCoord_iff] at s1 s2 s3 s4
          exact ⟨x', y', hxy, s1, s3, s2, s4⟩
  · rintro ⟨p, q, hpq, hp1, hp2, hq1, hq2⟩
    cases hli : lineIntersection a b c d with
    | none => exact absurd ⟨p, hp1, hp2⟩ ((Geo.Proofs.C11.li_none_iff a b c d).mp hli)
    | some r =>
      cases r with
      | single z f =>
        have e1 : p = z := (Geo.Proofs.C11.li_single_exact a b c d z f hli p).mp ⟨hp1, hp2⟩
        have e2 : q = z := (Geo.Proofs.C11.li_single_exact a b c d z f hli q).mp ⟨hq1, hq2⟩
        exact absurd (e1.trans e2.symm) hpq
      | collinear x y =>
        obtain ⟨m, h1, h2, hm⟩ := overlap_atom hab hcd hli
        have := cell_ge_of_atom hm
        simp only at this
        rw [(locate_line_inside a b m hab).mpr h1, (locate_line_inside c d m hcd).mpr h2] at this
        exact Dim.rank_inj (le_antisymm hle this)

end Geo.Proofs.Spec
