/-
  Helper lemmas for C20: insertion sort of keys, and the fold that fills `polygons_idxs`.
-/
import GeoModel.Stitch

namespace Geo.Proofs.Lemmas.C20
open Geo Geo.Stitch

theorem insertKey_perm (k : Nat) (l : List Nat) : (insertKey k l).Perm (k :: l) := by
  induction l with
  | nil => exact List.Perm.refl _
  | cons x xs ih =>
    unfold insertKey
    split
    · exact List.Perm.refl _
    · exact (List.Perm.cons x ih).trans (List.Perm.swap k x xs)

theorem mem_insertKey {k a : Nat} {l : List Nat} : a ∈ insertKey k l ↔ a = k ∨ a ∈ l := by
  rw [(insertKey_perm k l).mem_iff]; simp

theorem insertKey_pairwise (k : Nat) (l : List Nat) (h : l.Pairwise (· ≤ ·)) :
    (insertKey k l).Pairwise (· ≤ ·) := by
  induction l with
  | nil => simp [insertKey]
  | cons x xs ih =>
    unfold insertKey
    have hx := List.pairwise_cons.mp h
    split
    · rename_i hk
      refine List.pairwise_cons.mpr ⟨?_, h⟩
      intro a ha
      rcases List.mem_cons.mp ha with rfl | ha
      · exact hk
      · exact Nat.le_trans hk (hx.1 a ha)
    · rename_i hk
      refine List.pairwise_cons.mpr ⟨?_, ih hx.2⟩
      intro a ha
      rcases mem_insertKey.mp ha with rfl | ha
      · omega
      · exact hx.1 a ha

theorem sortKeys_perm (l : List Nat) : (sortKeys l).Perm l := by
  induction l with
  | nil => exact List.Perm.refl _
  | cons x xs ih =>
    show (insertKey x (sortKeys xs)).Perm (x :: xs)
    exact (insertKey_perm x _).trans (List.Perm.cons x ih)

theorem sortKeys_pairwise (l : List Nat) : (sortKeys l).Pairwise (· ≤ ·) := by
  induction l with
  | nil => simp [sortKeys]
  | cons x xs ih => exact insertKey_pairwise x _ ih

end Geo.Proofs.Lemmas.C20
