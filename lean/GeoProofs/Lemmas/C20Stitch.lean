/-
  Helper lemmas for C20: insertion sort of keys, and the fold that fills `polygons_idxs`.
-/
import GeoModel.Stitch

namespace Geo.Proofs.Lemmas.C20
open Geo Geo.Stitch

theorem insertKey_perm (k : Nat) (l : List Nat) : (insertKey k l).Perm (k :: l) := by
  induction l with
  | nil => exact List.Perm.refl _
  | cons x xs ih =>
    unfold insertKey
    split
    · exact List.Perm.refl _
    · exact (List.Perm.cons x ih).trans (List.Perm.swap k x xs)

theorem mem_insertKey {k a : Nat} {l : List Nat} : a ∈ insertKey k l ↔ a = k ∨ a ∈ l := by
  rw [(insertKey_perm k l).mem_iff]; simp

theorem insertKey_pairwise (k : Nat) (l : List Nat) (h : l.Pairwise (· ≤ ·)) :
    (insertKey k l).Pairwise (· ≤ ·) := by
  induction l with
  | nil => simp [insertKey]
  | cons x xs ih =>
    unfold insertKey
    have hx := List.pairwise_cons.mp h
    split
    · rename_i hk
      refine List.pairwise_cons.mpr ⟨?_, h⟩
      intro a ha
      rcases List.mem_cons.mp ha with rfl | ha
      · exact hk
      · exact Nat.le_trans hk (hx.1 a ha)
    · rename_i hk
      refine List.pairwise_cons.mpr ⟨?_, ih hx.2⟩
      intro a ha
      rcases mem_insertKey.mp ha with rfl | ha
      · omega
      · exact hx.1 a ha

theorem sortKeys_perm (l : List Nat) : (sortKeys l).Perm l := by
  induction l with
  | nil => exact List.Perm.refl _
  | cons x xs ih =>
    show (insertKey x (sortKeys xs)).Perm (x :: xs)
    exact (insertKey_perm x _).trans (List.Perm.cons x ih)

theorem sortKeys_pairwise (l : List Nat) : (sortKeys l).Pairwise (· ≤ ·) := by
  induction l with
  | nil => simp [sortKeys]
  | cons x xs ih => exact insertKey_pairwise x _ ih

/-! ### the fold that fills `polygons_idxs`, for an arbitrary visiting order -/

/-- the key of `polygons_idxs` touched when ring `i` is visited -/
def keyOf (par : Nat → List Nat) (n : Nat) (i : Nat) : Option Nat :=
  if (par i).length % 2 == 0 then some i else findDirectParent par n (par i)

/-- ring `i` is pushed as an interior (odd number of parents) -/
def isChild (par : Nat → List Nat) (i : Nat) : Bool := (par i).length % 2 != 0

theorem mem_ensure_keys {m : IdxMap} {k a : Nat} : a ∈ (m.ensure k).keys ↔ a ∈ m.keys ∨ a = k := by
  unfold IdxMap.ensure
  split
  · rename_i h
    constructor
    · exact Or.inl
    · rintro (h' | rfl)
      · exact h'
      · exact h
  · simp

theorem ensure_nodup {m : IdxMap} {k : Nat} (h : m.keys.Nodup) : (m.ensure k).keys.Nodup := by
  unfold IdxMap.ensure
  split
  · exact h
  · rename_i hk
    show (m.keys ++ [k]).Nodup
    rw [List.nodup_append]
    refine ⟨h, by simp, ?_⟩
    intro a ha b hb
    simp at hb
    subst hb
    intro hab; subst hab; exact hk ha

theorem ensure_val {m : IdxMap} {k : Nat} : (m.ensure k).val = m.val := by
  unfold IdxMap.ensure
  split <;> rfl

theorem mem_step_keys {par : Nat → List Nat} {n : Nat} {m : IdxMap} {i a : Nat} :
    a ∈ (step par n m i).keys ↔ a ∈ m.keys ∨ keyOf par n i = some a := by
  unfold step keyOf
  split
  · rw [mem_ensure_keys]; simp [eq_comm]
  · split
    · rename_i dp hdp
      show a ∈ (m.ensure dp).keys ↔ _
      rw [mem_ensure_keys, hdp]; simp [eq_comm]
    · rename_i hdp
      simp [hdp]

theorem step_nodup {par : Nat → List Nat} {n : Nat} {m : IdxMap} {i : Nat} (h : m.keys.Nodup) :
    (step par n m i).keys.Nodup := by
  unfold step
  split
  · exact ensure_nodup h
  · split
    · exact ensure_nodup h
    · exact h

theorem step_val {par : Nat → List Nat} {n : Nat} {m : IdxMap} {i k : Nat} :
    (step par n m i).val k =
      m.val k ++ (if isChild par i && keyOf par n i == some k then [i] else []) := by
  unfold step keyOf isChild
  split
  · rename_i he
    have h0 : (par i).length % 2 = 0 := by simpa using he
    simp [ensure_val, h0]
  · rename_i he
    have he' : ((par i).length % 2 != 0) = true := by simpa using he
    split
    · rename_i dp hdp
      show (if k = dp then m.val k ++ [i] else m.val k) = _
      by_cases hk : k = dp
      · subst hk; simp [hdp, he']
      · have : dp ≠ k := fun h => hk h.symm
        simp [hdp, hk, this]
    · rename_i hdp
      simp [hdp]

theorem mem_fold_keys {par : Nat → List Nat} {n : Nat} (order : List Nat) (m : IdxMap) (a : Nat) :
    a ∈ (order.foldl (step par n) m).keys ↔ a ∈ m.keys ∨ ∃ i, i ∈ order ∧ keyOf par n i = some a := by
  induction order generalizing m with
  | nil => simp
  | cons x xs ih =>
    rw [List.foldl_cons, ih, mem_step_keys]
    constructor
    · rintro ((h | h) | ⟨i, hi, h⟩)
      · exact Or.inl h
      · exact Or.inr ⟨x, List.mem_cons_self, h⟩
      · exact Or.inr ⟨i, List.mem_cons_of_mem _ hi, h⟩
    · rintro (h | ⟨i, hi, h⟩)
      · exact Or.inl (Or.inl h)
      · rcases List.mem_cons.mp hi with rfl | hi
        · exact Or.inl (Or.inr h)
        · exact Or.inr ⟨i, hi, h⟩

theorem fold_nodup {par : Nat → List Nat} {n : Nat} (order : List Nat) (m : IdxMap) (h : m.keys.Nodup) :
    (order.foldl (step par n) m).keys.Nodup := by
  induction order generalizing m with
  | nil => exact h
  | cons x xs ih => exact ih _ (step_nodup h)

theorem fold_val {par : Nat → List Nat} {n : Nat} (order : List Nat) (m : IdxMap) (k : Nat) :
    (order.foldl (step par n) m).val k =
      m.val k ++ order.filter (fun i => isChild par i && keyOf par n i == some k) := by
  induction order generalizing m with
  | nil => simp
  | cons x xs ih =>
    rw [List.foldl_cons, ih, step_val, List.filter_cons]
    split <;> simp

/-- pointwise relation of two lists of equal length -/
inductive Rel2 {α β : Type} (R : α → β → Prop) : List α → List β → Prop
  | nil : Rel2 R [] []
  | cons {a b as bs} : R a b → Rel2 R as bs → Rel2 R (a :: as) (b :: bs)

theorem rel2_map_same {α β γ : Type} {R : β → γ → Prop} (f : α → β) (g : α → γ) (l : List α)
    (h : ∀ a, a ∈ l → R (f a) (g a)) : Rel2 R (l.map f) (l.map g) := by
  induction l with
  | nil => exact Rel2.nil
  | cons x xs ih =>
    exact Rel2.cons (h x List.mem_cons_self) (ih (fun a ha => h a (List.mem_cons_of_mem _ ha)))

theorem rel2_map {α β γ δ : Type} {R : α → β → Prop} {S : γ → δ → Prop} (f : α → γ) (g : β → δ)
    (h : ∀ a b, R a b → S (f a) (g b)) {l : List α} {l' : List β} (hl : Rel2 R l l') :
    Rel2 S (l.map f) (l'.map g) := by
  induction hl with
  | nil => exact Rel2.nil
  | cons hab _ ih => exact Rel2.cons (h _ _ hab) ih

theorem buildIdxs_keys_perm {par : Nat → List Nat} {n : Nat} {o o' : List Nat} (h : o.Perm o') :
    (buildIdxs par n o).keys.Perm (buildIdxs par n o').keys := by
  unfold buildIdxs
  rw [List.perm_ext_iff_of_nodup (fold_nodup o _ (by simp [IdxMap.empty]))
    (fold_nodup o' _ (by simp [IdxMap.empty]))]
  intro a
  rw [mem_fold_keys, mem_fold_keys]
  constructor
  · rintro (h' | ⟨i, hi, hk⟩)
    · exact Or.inl h'
    · exact Or.inr ⟨i, h.mem_iff.mp hi, hk⟩
  · rintro (h' | ⟨i, hi, hk⟩)
    · exact Or.inl h'
    · exact Or.inr ⟨i, h.mem_iff.mpr hi, hk⟩

theorem buildIdxs_val_perm {par : Nat → List Nat} {n : Nat} {o o' : List Nat} (h : o.Perm o') (k : Nat) :
    ((buildIdxs par n o).val k).Perm ((buildIdxs par n o').val k) := by
  unfold buildIdxs
  rw [fold_val, fold_val]
  exact List.Perm.append_left _ (h.filter _)

/-- exactly which rings become polygons, and with which interiors, for any visiting order -/
theorem buildIdxs_spec (par : Nat → List Nat) (n : Nat) (o : List Nat) (k : Nat) :
    (k ∈ (buildIdxs par n o).keys ↔ ∃ i, i ∈ o ∧ keyOf par n i = some k) ∧
    (buildIdxs par n o).val k = o.filter (fun i => isChild par i && keyOf par n i == some k) := by
  unfold buildIdxs
  rw [mem_fold_keys, fold_val]
  simp [IdxMap.empty]

end Geo.Proofs.Lemmas.C20
