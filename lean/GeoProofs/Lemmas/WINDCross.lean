/-
  WIND, part 5: two simple rings through a common point `P` that is a coordinate of neither.

  If the cell `BB` of their DE-9IM matrix (as hole-free polygons) has dimension ≤ 0, the two edges
  through `P` are not collinear, so the edge of the first ring crosses the edge of the second one
  properly at `P`. The midpoints `m₁`, `m₂` of the two elementary sub-segments of the first ring's
  edge adjacent to `P` lie strictly on opposite sides of the second ring's edge, are off the second
  ring, and the segments `mᵢ P` meet the second ring only at `P` (`crossing_points`). By
  `windingE_cross` the winding numbers of `m₁` and `m₂` about the second ring differ by one.

  Consequences: `II = F` is impossible (both would be `0`: `rings_no_common_nonvertex_ii`), and so is
  `BE = F` when one side of every edge of the second ring is outside (`rings_no_common_nonvertex_be`;
  the hypothesis holds for every simple ring, `WINDJordan.edgeJordan`).
-/
import GeoProofs.Lemmas.WINDLink
import GeoProofs.Lemmas.WINDHoles

set_option linter.unusedSimpArgs false
set_option linter.unusedVariables false

namespace Geo.Proofs.WIND
open Geo Geo.Proofs.Kernel Geo.Proofs.Spec Geo.Proofs.C02Q

/-! ### strictly sorted lists: predecessor and successor -/

theorem exists_pred {α : Type} (k : α → Rat) :
    ∀ {l : List (α)} , l.Pairwise (fun u v => k u < k v) → ∀ {x y : α}, x ∈ l → y ∈ l → k x < k y →
      ∃ u, ∃ t1 t2 : List α, l = t1 ++ u :: y :: t2
  | [], _, _, _, hx, _, _ => by cases hx
  | h :: t, hs, x, y, hx, hy, hlt => by
    rw [List.pairwise_cons] at hs
    have hyt : y ∈ t := by
      rcases List.mem_cons.mp hy with rfl | hy'
      · rcases List.mem_cons.mp hx with rfl | hx'
        · exact absurd hlt (lt_irrefl _)
        · exact absurd (hs.1 x hx') (not_lt.mpr hlt.le)
      · exact hy'
    match t, hs, hyt with
    | h2 :: t2, hs, hyt =>
      by_cases hy2 : y = h2
      · subst hy2
        exact ⟨h, [], t2, rfl⟩
      · have hyt2 : y ∈ t2 := by
          rcases List.mem_cons.mp hyt with e | e
          · exact absurd e hy2
          · exact e
        have hk : k h2 < k y := (List.pairwise_cons.mp hs.2).1 y hyt2
        obtain ⟨u, t1, t3, e⟩ := exists_pred k hs.2 (x := h2) (by simp) hyt hk
        exact ⟨u, h :: t1, t3, by rw [e]; rfl⟩

theorem exists_succ {α : Type} (k : α → Rat) :
    ∀ {l : List (α)} , l.Pairwise (fun u v => k u < k v) → ∀ {x y : α}, x ∈ l → y ∈ l → k y < k x →
      ∃ v, ∃ t1 t2 : List α, l = t1 ++ y :: v :: t2
  | [], _, _, _, hx, _, _ => by cases hx
  | h :: t, hs, x, y, hx, hy, hlt => by
    rw [List.pairwise_cons] at hs
    have hxt : x ∈ t := by
      rcases List.mem_cons.mp hx with rfl | hx'
      · rcases List.mem_cons.mp hy with rfl | hy'
        · exact absurd hlt (lt_irrefl _)
        · exact absurd (hs.1 y hy') (not_lt.mpr hlt.le)
      · exact hx'
    rcases List.mem_cons.mp hy with rfl | hy'
    · match t, hxt with
      | h2 :: t2, _ => exact ⟨h2, [], t2, rfl⟩
    · obtain ⟨v, t1, t3, e⟩ := exists_succ k hs.2 hxt hy' hlt
      exact ⟨v, h :: t1, t3, by rw [e]; rfl⟩

theorem mem_segs_of_split : ∀ (t1 : List Pt) (u v : Pt) (t2 : List Pt),
    (u, v) ∈ segs (t1 ++ u :: v :: t2)
  | [], u, v, t2 => by simp [segs]
  | [a], u, v, t2 => by simp [segs]
  | a :: b :: t1, u, v, t2 => by
    have := mem_segs_of_split (b :: t1) u v t2
    simp only [List.cons_append, segs, List.mem_cons] at this ⊢
    exact Or.inr this

/-! ### geometry on an edge of the arrangement -/

/-- the vertices of the arrangement on a non-degenerate edge, in order, strictly sorted -/
theorem on_strict {verts : List Pt} (hn : verts.Nodup) {a b : Pt} (hab : a ≠ b) :
    (sortByDist a (verts.filter (fun w => lineCoord a b w))).Pairwise
      (fun u v => dist2 a u < dist2 a v) := by
  have hs := sortByDist_sorted a (verts.filter (fun w => lineCoord a b w))
  have hnod : (sortByDist a (verts.filter (fun w => lineCoord a b w))).Nodup :=
    (sortByDist_perm_self a _).nodup_iff.mpr (hn.filter _)
  have hmem : ∀ w ∈ sortByDist a (verts.filter (fun w => lineCoord a b w)), SegMem w a b := by
    intro w hw
    rw [mem_sortByDist, List.mem_filter] at hw
    exact (lineCoord_iff _ _ _).mp hw.2
  generalize sortByDist a (verts.filter (fun w => lineCoord a b w)) = l at hs hnod hmem
  induction l with
  | nil => exact List.Pairwise.nil
  | cons h t ih =>
    rw [List.pairwise_cons] at hs ⊢
    rw [List.nodup_cons] at hnod
    refine ⟨?_, ih hs.2 hnod.2 (fun w hw => hmem w (List.mem_cons_of_mem _ hw))⟩
    intro w hw
    apply lt_of_le_of_ne (hs.1 w hw)
    intro e
    have := dist2_inj_on_seg hab (hmem h (by simp)) (hmem w (List.mem_cons_of_mem _ hw)) e
    exact hnod.1 (this ▸ hw)

/-- a point of the half `[m, P]` of an elementary sub-segment with end `P`, other than `P`, is
strictly inside the sub-segment -/
theorem within_of_half {verts : List Pt} {a b u v P x : Pt} (E : Elem verts a b u v)
    (hPuv : P = u ∨ P = v) (hx : SegMem x (midpoint u v) P) (hxP : x ≠ P) : Within a b u v x := by
  have hab := E.hab
  obtain ⟨⟨_, hum⟩, ⟨_, hvm⟩⟩ := E.mem
  have hle := (sorted_consecutive (sortByDist_sorted a _) E.pair).1
  have hmw := E.midpoint_within
  have hpm : SegMem P a b := by rcases hPuv with e | e <;> rw [e] <;> assumption
  have hxm : SegMem x a b := SegMem_convex hmw.1 hpm hx
  have hdne : dist2 a x ≠ dist2 a P := fun e => hxP (dist2_inj_on_seg hab hxm hpm e)
  rcases hPuv with e | e
  · have hpm' : dist2 a P ≤ dist2 a (midpoint u v) := by rw [e]; exact hmw.2.1.le
    obtain ⟨b1, b2⟩ := dist2_between hab hpm hmw.1 (SegMem_symm hx) hpm'
    refine ⟨hxm, ?_, lt_of_le_of_lt b2 hmw.2.2⟩
    rw [← e]; exact lt_of_le_of_ne b1 (Ne.symm hdne)
  · have hpm' : dist2 a (midpoint u v) ≤ dist2 a P := by rw [e]; exact hmw.2.2.le
    obtain ⟨b1, b2⟩ := dist2_between hab hmw.1 hpm hx hpm'
    refine ⟨hxm, lt_of_lt_of_le hmw.2.1 b1, ?_⟩
    rw [← e]; exact lt_of_le_of_ne b2 hdne

/-- the determinant of a point of the edge `(a₁, b₁)` against a line through `P` -/
theorem cross_along {a1 b1 a2 b2 P x : Pt} {t τ : Rat}
    (hPx : P.x = a1.x + t * (b1.x - a1.x)) (hPy : P.y = a1.y + t * (b1.y - a1.y))
    (hxx : x.x = a1.x + τ * (b1.x - a1.x)) (hxy : x.y = a1.y + τ * (b1.y - a1.y))
    (h0 : cross a2 b2 P = 0) : t * cross a2 b2 x = cross a2 b2 a1 * (t - τ) := by
  have e1 := cross_affine a2 b2 a1 b1 P t hPx hPy
  have e2 := cross_affine a2 b2 a1 b1 x τ hxx hxy
  rw [h0] at e1
  linear_combination t * e2 - τ * e1

/-- the parameter of a point of a segment grows with its distance from the start -/
theorem param_lt_of_dist {a b x y : Pt} {τ t : Rat} (hab : a ≠ b) (τ0 : 0 ≤ τ) (t0 : 0 ≤ t)
    (hxx : x.x = a.x + τ * (b.x - a.x)) (hxy : x.y = a.y + τ * (b.y - a.y))
    (hyx : y.x = a.x + t * (b.x - a.x)) (hyy : y.y = a.y + t * (b.y - a.y))
    (h : dist2 a x < dist2 a y) : τ < t := by
  have hL := seg_len_pos hab
  rw [Geo.Proofs.C02Q.dist2_param hxx hxy, Geo.Proofs.C02Q.dist2_param hyx hyy] at h
  exact param_lt τ0 t0 hL h

/-! ### a common sub-segment puts `1` into `BB` -/

theorem bb_contra {ra rb : List Pt}
    (hbb : dimLe0 (relateParts (polyOf ra) (polyOf rb)).bb = true) {a1 b1 u v : Pt}
    (he1 : (a1, b1) ∈ segs ra) (E : Elem (vertsOf (polyOf ra) (polyOf rb)) a1 b1 u v)
    (hm2 : onAnySeg (midpoint u v) (segs rb) = true) : False := by
  have hs1 : (a1, b1) ∈ (polyOf ra).allSegs ++ (polyOf rb).allSegs := by
    rw [allSegs_polyOf]; exact List.mem_append_left _ he1
  obtain ⟨_, _, hall⟩ := segAtoms_of_pair (polyOf ra) (polyOf rb) E.hab E.pair E.ne
  have hmw := E.midpoint_within
  have hx : (⟨.one, locateParts (polyOf ra) (midpoint u v), locateParts (polyOf rb) (midpoint u v)⟩ : Atom) ∈
      atomsOf (polyOf ra) (polyOf rb) := by
    unfold atomsOf
    exact List.mem_append_right _ (List.mem_flatMap.mpr ⟨(a1, b1), hs1, hall _ (Or.inl rfl)⟩)
  have hA : locateParts (polyOf ra) (midpoint u v) = .onBoundary := by
    apply locate_polyOf_boundary
    rw [Geo.Proofs.Loc.onAnySeg_iff]
    exact ⟨(a1, b1), he1, (lineCoord_iff _ _ _).mpr hmw.1⟩
  have hB : locateParts (polyOf rb) (midpoint u v) = .onBoundary := locate_polyOf_boundary hm2
  have hge := cell_ge_of_atom hx
  simp only [hA, hB] at hge
  have hget : (relateParts (polyOf ra) (polyOf rb)).get .onBoundary .onBoundary =
      (relateParts (polyOf ra) (polyOf rb)).bb := rfl
  rw [hget] at hge
  unfold dimLe0 at hbb
  simp only [decide_eq_true_eq] at hbb
  have h2 : Dim.one.rank = 2 := rfl
  omega

/-! ### the crossing -/

/-- the clearance hypothesis of `windingE_link` -/
def Clear (rb : List Pt) (P m : Pt) : Prop :=
  ∀ se ∈ segs rb, onE P se = false → ¬ ∃ x, SegMem x se.1 se.2 ∧ SegMem x m P

/-- one side: the midpoint of an elementary sub-segment of `(a₁, b₁)` that ends at `P` and is not on
the line of the edge `(a₂, b₂)` (the only edge of `rb` through `P`) is off `rb` and clear -/
theorem sub_clear {ra rb : List Pt} {a1 b1 a2 b2 u v P : Pt}
    (he1 : (a1, b1) ∈ segs ra) (E : Elem (vertsOf (polyOf ra) (polyOf rb)) a1 b1 u v)
    (hPuv : P = u ∨ P = v) (hone : (segs rb).filter (onE P) = [(a2, b2)])
    (hDm : cross a2 b2 (midpoint u v) ≠ 0) :
    onAnySeg (midpoint u v) (segs rb) = false ∧ Clear rb P (midpoint u v) := by
  have hs1 : (a1, b1) ∈ (polyOf ra).allSegs ++ (polyOf rb).allSegs := by
    rw [allSegs_polyOf]; exact List.mem_append_left _ he1
  obtain ⟨⟨_, hum⟩, ⟨_, hvm⟩⟩ := E.mem
  have hle := (sorted_consecutive (sortByDist_sorted a1 _) E.pair).1
  have hmw := E.midpoint_within
  have hpm : SegMem P a1 b1 := by rcases hPuv with e | e <;> rw [e] <;> assumption
  have hpb : dist2 a1 u ≤ dist2 a1 P ∧ dist2 a1 P ≤ dist2 a1 v := by
    rcases hPuv with e | e
    · rw [e]; exact ⟨le_refl _, hle⟩
    · rw [e]; exact ⟨hle, le_refl _⟩
  -- an edge of `rb` through a point strictly inside the sub-segment is `(a₂, b₂)` and contains `m`
  have key : ∀ f ∈ segs rb, ∀ x, Within a1 b1 u v x → ¬ SegMem x f.1 f.2 := by
    intro f hf x hxw hxf
    have ht : (f.1, f.2) ∈ (polyOf ra).allSegs ++ (polyOf rb).allSegs := by
      simp only [allSegs_polyOf]; exact List.mem_append_right _ hf
    have hPf : SegMem P f.1 f.2 := edge_all_closed hs1 ht E hxw hxf hpm hpb.1 hpb.2
    have hmf : SegMem (midpoint u v) f.1 f.2 :=
      edge_all_closed hs1 ht E hxw hxf hmw.1 hmw.2.1.le hmw.2.2.le
    have hfm : f ∈ (segs rb).filter (onE P) := by
      rw [List.mem_filter]; exact ⟨hf, (lineCoord_iff _ _ _).mpr hPf⟩
    rw [hone, List.mem_singleton] at hfm
    rw [hfm] at hmf
    exact hDm hmf.cross_eq_zero
  constructor
  · cases hb' : onAnySeg (midpoint u v) (segs rb) with
    | false => rfl
    | true =>
      rw [Geo.Proofs.Loc.onAnySeg_iff] at hb'
      obtain ⟨s, hs', hl⟩ := hb'
      exact absurd ((lineCoord_iff _ _ _).mp hl) (key s hs' _ hmw)
  · intro se hse hoff ⟨x, hx1, hx2⟩
    by_cases hxP : x = P
    · subst hxP
      have : onE x se = true := (lineCoord_iff _ _ _).mpr hx1
      rw [hoff] at this; cases this
    · exact key se hse x (within_of_half E hPuv hx2 hxP) hx1

/-- **the crossing**: two simple rings through a point `P` that is a coordinate of neither, `BB` of
dimension ≤ 0: points `m₁`, `m₂` of the first ring, off the second ring, strictly on the left and on
the right of the second ring's edge through `P`, both clear. -/
theorem crossing_points {ra rb : List Pt} (hsa : ringSimple ra = true) (hsb : ringSimple rb = true)
    (hbb : dimLe0 (relateParts (polyOf ra) (polyOf rb)).bb = true) {P a1 b1 a2 b2 : Pt}
    (he1 : (a1, b1) ∈ segs ra) (hP1 : SegMem P a1 b1) (hna : P ∉ ra)
    (he2 : (a2, b2) ∈ segs rb) (hP2 : SegMem P a2 b2) (hnb : P ∉ rb) :
    (segs rb).filter (onE P) = [(a2, b2)] ∧ a2 ≠ b2 ∧ P ≠ a2 ∧ P ≠ b2 ∧
    ∃ m₁ m₂, onAnySeg m₁ (segs ra) = true ∧ onAnySeg m₂ (segs ra) = true ∧
      onAnySeg m₁ (segs rb) = false ∧ onAnySeg m₂ (segs rb) = false ∧
      0 < cross a2 b2 m₁ ∧ cross a2 b2 m₂ < 0 ∧ Clear rb P m₁ ∧ Clear rb P m₂ := by
  have hPa1 : P ≠ a1 := fun e => hna (e ▸ (mem_of_mem_segs he1).1)
  have hPb1 : P ≠ b1 := fun e => hna (e ▸ (mem_of_mem_segs he1).2)
  have hPa2 : P ≠ a2 := fun e => hnb (e ▸ (mem_of_mem_segs he2).1)
  have hPb2 : P ≠ b2 := fun e => hnb (e ▸ (mem_of_mem_segs he2).2)
  have hab1 : a1 ≠ b1 := by
    intro e; subst e
    exact hPa1 ((SegMem_degenerate P a1).mp hP1)
  have hab2 : a2 ≠ b2 := by
    intro e; subst e
    exact hPa2 ((SegMem_degenerate P a2).mp hP2)
  have hone := simple_unique_edge hsb he2 hP2 hnb
  refine ⟨hone, hab2, hPa2, hPb2, ?_⟩
  have hs1 : (a1, b1) ∈ (polyOf ra).allSegs ++ (polyOf rb).allSegs := by
    rw [allSegs_polyOf]; exact List.mem_append_left _ he1
  have hs2 : (a2, b2) ∈ (polyOf ra).allSegs ++ (polyOf rb).allSegs := by
    simp only [allSegs_polyOf]; exact List.mem_append_right _ he2
  obtain ⟨ha1v, hb1v⟩ := ends_mem_vertsOf hs1
  obtain ⟨ha2v, hb2v⟩ := ends_mem_vertsOf hs2
  have onra : ∀ z, SegMem z a1 b1 → onAnySeg z (segs ra) = true := by
    intro z hz
    rw [Geo.Proofs.Loc.onAnySeg_iff]
    exact ⟨(a1, b1), he1, (lineCoord_iff _ _ _).mpr hz⟩
  by_cases hv : P ∈ vertsOf (polyOf ra) (polyOf rb)
  swap
  · -- `P` strictly inside an elementary sub-segment: the other edge covers it
    exfalso
    obtain ⟨u, v, E, hw⟩ := exists_elem hab1 ha1v hb1v hP1 hv
    have := edge_all_or_nothing hs1 hs2 E hw hP2 E.midpoint_within
    apply bb_contra hbb he1 E
    rw [Geo.Proofs.Loc.onAnySeg_iff]
    exact ⟨(a2, b2), he2, (lineCoord_iff _ _ _).mpr this⟩
  -- `P` is a vertex of the arrangement: the two adjacent elementary sub-segments
  have hstrict := on_strict (nodup_dedupPts _) (verts := vertsOf (polyOf ra) (polyOf rb)) hab1
  have hmem : ∀ w, w ∈ vertsOf (polyOf ra) (polyOf rb) → SegMem w a1 b1 →
      w ∈ sortByDist a1 ((vertsOf (polyOf ra) (polyOf rb)).filter (fun w => lineCoord a1 b1 w)) := by
    intro w hw hwm
    rw [mem_sortByDist, List.mem_filter]; exact ⟨hw, (lineCoord_iff _ _ _).mpr hwm⟩
  have kP0 : dist2 a1 a1 < dist2 a1 P := by
    rw [Geo.Proofs.C02Q.dist2_self]; exact Geo.Proofs.C02Q.dist2_pos hPa1
  have kPb : dist2 a1 P < dist2 a1 b1 := by
    have hle := (dist2_between hab1 (SegMem_left a1 b1) (SegMem_right a1 b1) hP1
      (by rw [Geo.Proofs.C02Q.dist2_self]; exact (Geo.Proofs.C02Q.dist2_pos (Ne.symm hab1)).le)).2
    exact lt_of_le_of_ne hle (fun e => hPb1 (dist2_inj_on_seg hab1 hP1 (SegMem_right a1 b1) e))
  obtain ⟨u, t1, t2, eu⟩ := exists_pred (dist2 a1) hstrict (hmem a1 ha1v (SegMem_left a1 b1))
    (hmem P hv hP1) kP0
  obtain ⟨v, t3, t4, ev⟩ := exists_succ (dist2 a1) hstrict (hmem b1 hb1v (SegMem_right a1 b1))
    (hmem P hv hP1) kPb
  have huP : (u, P) ∈ segs (sortByDist a1
      ((vertsOf (polyOf ra) (polyOf rb)).filter (fun w => lineCoord a1 b1 w))) := by
    rw [eu]; exact mem_segs_of_split t1 u P t2
  have hPv : (P, v) ∈ segs (sortByDist a1
      ((vertsOf (polyOf ra) (polyOf rb)).filter (fun w => lineCoord a1 b1 w))) := by
    rw [ev]; exact mem_segs_of_split t3 P v t4
  have hnod : (sortByDist a1
      ((vertsOf (polyOf ra) (polyOf rb)).filter (fun w => lineCoord a1 b1 w))).Nodup :=
    (sortByDist_perm_self a1 _).nodup_iff.mpr ((nodup_dedupPts _).filter _)
  have Em : Elem (vertsOf (polyOf ra) (polyOf rb)) a1 b1 u P := ⟨hab1, huP, segs_ne_of_nodup hnod huP⟩
  have Ep : Elem (vertsOf (polyOf ra) (polyOf rb)) a1 b1 P v := ⟨hab1, hPv, segs_ne_of_nodup hnod hPv⟩
  have wm := Em.midpoint_within
  have wp := Ep.midpoint_within
  -- parameters
  obtain ⟨t, t0, t1', hPx, hPy⟩ := strict_param hP1 hPa1 hPb1
  obtain ⟨τm, τm0, _, hmx, hmy⟩ := wm.1
  obtain ⟨τp, τp0, _, hpx, hpy⟩ := wp.1
  have hτm : τm < t := param_lt_of_dist hab1 τm0 t0.le hmx hmy hPx hPy wm.2.2
  have hτp : t < τp := param_lt_of_dist hab1 t0.le τp0 hPx hPy hpx hpy wp.2.1
  have h0 : cross a2 b2 P = 0 := hP2.cross_eq_zero
  have cm := cross_along hPx hPy hmx hmy h0
  have cp := cross_along hPx hPy hpx hpy h0
  -- the two edges are not collinear
  have hDA : cross a2 b2 a1 ≠ 0 := by
    intro hz
    rw [hz] at cm cp
    have zm : cross a2 b2 (midpoint u P) = 0 := by
      have : t * cross a2 b2 (midpoint u P) = 0 := by rw [cm]; ring
      rcases mul_eq_zero.mp this with h | h
      · linarith
      · exact h
    have zp : cross a2 b2 (midpoint P v) = 0 := by
      have : t * cross a2 b2 (midpoint P v) = 0 := by rw [cp]; ring
      rcases mul_eq_zero.mp this with h | h
      · linarith
      · exact h
    have hPmid : SegMem P (midpoint u P) (midpoint P v) :=
      segMem_of_between hab1 wm.1 wp.1 hP1 wm.2.2 wp.2.1
    rcases (collinear_case hab2 zm zp).mpr ⟨P, hP2, hPmid⟩ with h | h | h
    · apply bb_contra hbb he1 Em
      rw [Geo.Proofs.Loc.onAnySeg_iff]
      exact ⟨(a2, b2), he2, (lineCoord_iff _ _ _).mpr (SegMem_of_cross_of_inRect zm h)⟩
    · apply bb_contra hbb he1 Ep
      rw [Geo.Proofs.Loc.onAnySeg_iff]
      exact ⟨(a2, b2), he2, (lineCoord_iff _ _ _).mpr (SegMem_of_cross_of_inRect zp h)⟩
    · have hb2line : cross a2 b2 b2 = 0 := by unfold cross; ring
      have hb2mid : SegMem b2 (midpoint u P) (midpoint P v) :=
        SegMem_of_cross_of_inRect (cross_of_collinear hab2 zm zp b2 hb2line) h
      have hb2e1 : SegMem b2 a1 b1 := SegMem_convex wm.1 wp.1 hb2mid
      have hmle : dist2 a1 (midpoint u P) ≤ dist2 a1 (midpoint P v) := (lt_trans wm.2.2 wp.2.1).le
      obtain ⟨d1, d2⟩ := dist2_between hab1 wm.1 wp.1 hb2mid hmle
      have hb2P : b2 ≠ P := fun e => hPb2 e.symm
      rcases lt_trichotomy (dist2 a1 b2) (dist2 a1 P) with hlt | heq | hgt
      · rcases Em.no_vertex hb2v hb2e1 with h' | h'
        · exact absurd (lt_of_lt_of_le wm.2.1 d1) (not_lt.mpr h')
        · exact absurd hlt (not_lt.mpr h')
      · exact hb2P (dist2_inj_on_seg hab1 hb2e1 hP1 heq)
      · rcases Ep.no_vertex hb2v hb2e1 with h' | h'
        · exact absurd hgt (not_lt.mpr h')
        · exact absurd (lt_of_le_of_lt d2 wp.2.2) (not_lt.mpr h')
  -- signs on the two sides
  have hm_ne : cross a2 b2 (midpoint u P) ≠ 0 := by
    intro hz
    rw [hz] at cm
    have : cross a2 b2 a1 * (t - τm) = 0 := by linarith
    rcases mul_eq_zero.mp this with h | h
    · exact hDA h
    · linarith
  have hp_ne : cross a2 b2 (midpoint P v) ≠ 0 := by
    intro hz
    rw [hz] at cp
    have : cross a2 b2 a1 * (t - τp) = 0 := by linarith
    rcases mul_eq_zero.mp this with h | h
    · exact hDA h
    · linarith
  obtain ⟨offm, clm⟩ := sub_clear he1 Em (Or.inr rfl) hone hm_ne
  obtain ⟨offp, clp⟩ := sub_clear he1 Ep (Or.inl rfl) hone hp_ne
  rcases lt_or_gt_of_ne hDA with hneg | hpos
  · -- `a₁` on the right: the far side is on the left
    refine ⟨midpoint P v, midpoint u P, onra _ wp.1, onra _ wm.1, offp, offm, ?_, ?_, clp, clm⟩
    · have : 0 < t * cross a2 b2 (midpoint P v) := by
        rw [cp]; exact mul_pos_of_neg_of_neg hneg (by linarith)
      exact (mul_pos_iff_of_pos_left t0).mp this
    · have : t * cross a2 b2 (midpoint u P) < 0 := by
        rw [cm]; exact mul_neg_of_neg_of_pos hneg (by linarith)
      by_contra hc
      have := mul_nonneg t0.le (not_lt.mp hc)
      linarith
  · refine ⟨midpoint u P, midpoint P v, onra _ wm.1, onra _ wp.1, offm, offp, ?_, ?_, clm, clp⟩
    · have : 0 < t * cross a2 b2 (midpoint u P) := by
        rw [cm]; exact mul_pos hpos (by linarith)
      exact (mul_pos_iff_of_pos_left t0).mp this
    · have : t * cross a2 b2 (midpoint P v) < 0 := by
        rw [cp]; exact mul_neg_of_pos_of_neg hpos (by linarith)
      by_contra hc
      have := mul_nonneg t0.le (not_lt.mp hc)
      linarith

/-! ### consequences -/

/-- `II = F` and `BB` of dimension ≤ 0: the rings have no common point that is a coordinate of
neither -/
theorem rings_no_common_nonvertex_ii {ra rb : List Pt} (hsa : ringSimple ra = true)
    (hsb : ringSimple rb = true)
    (hii : (relateParts (polyOf ra) (polyOf rb)).ii = .empty)
    (hbb : dimLe0 (relateParts (polyOf ra) (polyOf rb)).bb = true) {P : Pt}
    (h1 : onAnySeg P (segs ra) = true) (hna : P ∉ ra)
    (h2 : onAnySeg P (segs rb) = true) (hnb : P ∉ rb) : False := by
  rw [Geo.Proofs.Loc.onAnySeg_iff] at h1 h2
  obtain ⟨⟨a1, b1⟩, he1, hl1⟩ := h1
  obtain ⟨⟨a2, b2⟩, he2, hl2⟩ := h2
  obtain ⟨hone, hab2, hPa2, hPb2, m₁, m₂, on1, on2, off1, off2, s1, s2, c1, c2⟩ :=
    crossing_points hsa hsb hbb he1 ((lineCoord_iff _ _ _).mp hl1) hna he2 ((lineCoord_iff _ _ _).mp hl2) hnb
  have hokb := ringOK_of_simple hsb
  have hcross := windingE_cross rb hokb.1 hone hab2 ((lineCoord_iff _ _ _).mp hl2) hPa2 hPb2 s1 s2 c1 c2
  have z1 : windingE (EPt.ofPt m₁) rb = 0 := by
    by_contra hw
    exact ii_empty_ring_not_inside hsa hsb hii on1 ((locate_polyOf_inside_iff rb m₁).mpr ⟨off1, hw⟩)
  have z2 : windingE (EPt.ofPt m₂) rb = 0 := by
    by_contra hw
    exact ii_empty_ring_not_inside hsa hsb hii on2 ((locate_polyOf_inside_iff rb m₂).mpr ⟨off2, hw⟩)
  omega

/-- one side of every edge is outside: beside every point of the ring that is not one of its
coordinates, one of the two face samples has winding number `0` (proved for every simple ring in
`WINDJordan.edgeJordan`) -/
def EdgeOuter (r : List Pt) : Prop :=
  ∀ a b P, (a, b) ∈ segs r → SegMem P a b → P ∉ r →
    windingE (faceL a b P) r = 0 ∨ windingE (faceR a b P) r = 0

/-- `BE = F`, `BB` of dimension ≤ 0 and one side of every edge of the second ring outside: no common
point that is a coordinate of neither -/
theorem rings_no_common_nonvertex_be {ra rb : List Pt} (hsa : ringSimple ra = true)
    (hsb : ringSimple rb = true) (hout : EdgeOuter rb)
    (hbe : (relateParts (polyOf ra) (polyOf rb)).be = .empty)
    (hbb : dimLe0 (relateParts (polyOf ra) (polyOf rb)).bb = true) {P : Pt}
    (h1 : onAnySeg P (segs ra) = true) (hna : P ∉ ra)
    (h2 : onAnySeg P (segs rb) = true) (hnb : P ∉ rb) : False := by
  rw [Geo.Proofs.Loc.onAnySeg_iff] at h1 h2
  obtain ⟨⟨a1, b1⟩, he1, hl1⟩ := h1
  obtain ⟨⟨a2, b2⟩, he2, hl2⟩ := h2
  have hP2 : SegMem P a2 b2 := (lineCoord_iff _ _ _).mp hl2
  obtain ⟨hone, hab2, hPa2, hPb2, m₁, m₂, on1, on2, off1, off2, s1, s2, c1, c2⟩ :=
    crossing_points hsa hsb hbb he1 ((lineCoord_iff _ _ _).mp hl1) hna he2 hP2 hnb
  have hokb := ringOK_of_simple hsb
  have l1 := windingE_link rb hokb.1 hone hab2 hP2 hPa2 hPb2 (ne_of_gt s1) c1
  have l2 := windingE_link rb hokb.1 hone hab2 hP2 hPa2 hPb2 (ne_of_lt s2) c2
  rw [if_pos s1] at l1
  rw [if_neg (by linarith)] at l2
  have n1 : windingE (EPt.ofPt m₁) rb ≠ 0 := by
    intro hw
    exact hole_point_not_outside hokb.1 hokb.2 hbe on1
      ((locate_polyOf_outside_iff rb hokb.2 m₁).mpr ⟨off1, hw⟩)
  have n2 : windingE (EPt.ofPt m₂) rb ≠ 0 := by
    intro hw
    exact hole_point_not_outside hokb.1 hokb.2 hbe on2
      ((locate_polyOf_outside_iff rb hokb.2 m₂).mpr ⟨off2, hw⟩)
  rcases hout a2 b2 P he2 hP2 hnb with e | e
  · exact n1 (l1.trans e)
  · exact n2 (l2.trans e)

end Geo.Proofs.WIND
