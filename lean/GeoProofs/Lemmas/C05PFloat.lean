/-
  C05, T3 — rounding-error bound for the shifted shoelace sum under the standard model of
  floating-point arithmetic.

  `fl : Rat → Rat` is an *arbitrary* rounding function with relative error at most `u`
  (`RoundsWithin fl u : ∀ x, |fl x − x| ≤ u·|x|`, i.e. `fl x = x(1+δ)`, `|δ| ≤ u`; for IEEE-754
  binary64 round-to-nearest `u = 2^-53`, in the absence of underflow and overflow). Every arithmetic
  operation of `twice_signed_ring_area` is replaced by "exact operation, then `fl`":

      c − shift  (per coordinate)      fl (c.x − s.x), fl (c.y − s.y)
      Line::determinant                fl (fl (a.x·b.y) − fl (a.y·b.x))
      tmp = tmp + det                  fl (tmp + det)

  The bookkeeping relation `Apx u k M x' x` says: `x'` is a computed value of the exact quantity
  `x`, every exact product term of which went through at most `k` roundings, and `M` bounds the sum
  of the magnitudes of those terms: `|x| ≤ M ∧ |x' − x| ≤ ((1+u)^k − 1)·M`.
-/
import GeoModel.Area
import GeoProofs.Lemmas.C05Area
import Mathlib.Algebra.Order.Ring.Abs
import Mathlib.Tactic.Linarith
import Mathlib.Tactic.Ring
import Mathlib.Tactic.Positivity

namespace Geo.Proofs.C05L
open Geo

/-- the standard model: `fl x = x (1 + δ)` with `|δ| ≤ u` -/
def RoundsWithin (fl : Rat → Rat) (u : Rat) : Prop := ∀ x, |fl x - x| ≤ u * |x|

/-! ### the computation with a rounding after every operation -/

/-- `c - shift` -/
def flSubPt (fl : Rat → Rat) (a s : Pt) : Pt := ⟨fl (a.x - s.x), fl (a.y - s.y)⟩

/-- `Line::determinant` -/
def flDet (fl : Rat → Rat) (a b : Pt) : Rat := fl (fl (a.x * b.y) - fl (a.y * b.x))

def flShiftedDets (fl : Rat → Rat) (s : Pt) : List Pt → List Rat
  | a :: b :: rest => flDet fl (flSubPt fl a s) (flSubPt fl b s) :: flShiftedDets fl s (b :: rest)
  | _ => []

/-- `tmp = tmp + det`, left to right -/
def flSum (fl : Rat → Rat) (acc : Rat) (l : List Rat) : Rat := l.foldl (fun t d => fl (t + d)) acc

/-- `twice_signed_ring_area` with rounded operations (same early returns as the model) -/
def flTwiceSignedRingArea (fl : Rat → Rat) (r : List Pt) : Rat :=
  if r.length < 3 then 0
  else if r.head? ≠ r.getLast? then 0
  else match r with
    | [] => 0
    | s :: _ => flSum fl 0 (flShiftedDets fl s r)

/-- the magnitudes `|a.x−s.x|·|b.y−s.y| + |a.y−s.y|·|b.x−s.x|` of the two products of each shifted
determinant -/
def detMags (s : Pt) : List Pt → List Rat
  | a :: b :: rest =>
    (|a.x - s.x| * |b.y - s.y| + |a.y - s.y| * |b.x - s.x|) :: detMags s (b :: rest)
  | _ => []

/-- with the identity as rounding function the rounded computation is the model -/
theorem flTwice_id (r : List Pt) : flTwiceSignedRingArea id r = twiceSignedRingArea r := by
  have h1 : ∀ s l, flShiftedDets id s l = shiftedDets s l := by
    intro s l
    induction l with
    | nil => rfl
    | cons a t ih =>
      cases t with
      | nil => rfl
      | cons b t' => simp only [flShiftedDets, shiftedDets, ih]; rfl
  unfold flTwiceSignedRingArea twiceSignedRingArea flSum
  split
  · rfl
  · split
    · rfl
    · cases r with
      | nil => rfl
      | cons s t => simp only [h1]; rfl

/-! ### error bookkeeping -/

/-- `x'` approximates `x` after at most `k` roundings per term, `M` bounding the magnitude -/
def Apx (u : Rat) (k : Nat) (M x' x : Rat) : Prop :=
  |x| ≤ M ∧ |x' - x| ≤ ((1 + u) ^ k - 1) * M

theorem one_le_rho_pow {u : Rat} (hu : 0 ≤ u) (k : Nat) : 1 ≤ (1 + u) ^ k :=
  one_le_pow₀ (by linarith)

theorem Apx.mag_nonneg {u : Rat} {k : Nat} {M x' x : Rat} (h : Apx u k M x' x) : 0 ≤ M :=
  le_trans (abs_nonneg x) h.1

theorem apx_exact (u : Rat) (x : Rat) : Apx u 0 |x| x x := by
  refine ⟨le_refl _, ?_⟩
  simp

theorem apx_zero (u : Rat) (k : Nat) : Apx u k 0 0 0 := by
  refine ⟨by simp, by simp⟩

theorem Apx.mono {u : Rat} (hu : 0 ≤ u) {k k' : Nat} (hk : k ≤ k') {M x' x : Rat}
    (h : Apx u k M x' x) : Apx u k' M x' x := by
  refine ⟨h.1, le_trans h.2 ?_⟩
  have hM := h.mag_nonneg
  have : (1 + u) ^ k ≤ (1 + u) ^ k' := pow_le_pow_right₀ (by linarith) hk
  exact mul_le_mul_of_nonneg_right (by linarith) hM

/-- the computed value is at most `(1+u)^k · M` in magnitude -/
theorem Apx.abs_le {u : Rat} {k : Nat} {M x' x : Rat} (h : Apx u k M x' x) :
    |x'| ≤ (1 + u) ^ k * M := by
  have t1 : |x'| ≤ |x| + |x' - x| := by
    have := abs_add_le x (x' - x)
    rwa [add_sub_cancel] at this
  have := h.1
  have := h.2
  linarith

/-- one more rounding -/
theorem Apx.round {fl : Rat → Rat} {u : Rat} (hu : 0 ≤ u) (hfl : RoundsWithin fl u)
    {k : Nat} {M x' x : Rat} (h : Apx u k M x' x) : Apx u (k + 1) M (fl x') x := by
  refine ⟨h.1, ?_⟩
  have t2 : |fl x' - x| ≤ |fl x' - x'| + |x' - x| := abs_sub_le (fl x') x' x
  have r := hfl x'
  have hx' := h.abs_le
  have e := h.2
  have hM := h.mag_nonneg
  have h1 : u * |x'| ≤ u * ((1 + u) ^ k * M) := mul_le_mul_of_nonneg_left hx' hu
  rw [pow_succ]
  generalize (1 + u) ^ k = G at *
  linarith

theorem Apx.add {u : Rat} {k : Nat} {Mx x' x My y' y : Rat} (hx : Apx u k Mx x' x)
    (hy : Apx u k My y' y) : Apx u k (Mx + My) (x' + y') (x + y) := by
  refine ⟨le_trans (abs_add_le x y) (add_le_add hx.1 hy.1), ?_⟩
  have : x' + y' - (x + y) = (x' - x) + (y' - y) := by ring
  rw [this]
  have := abs_add_le (x' - x) (y' - y)
  have := hx.2
  have := hy.2
  linarith

theorem Apx.neg {u : Rat} {k : Nat} {M x' x : Rat} (h : Apx u k M x' x) : Apx u k M (-x') (-x) := by
  refine ⟨by rw [abs_neg]; exact h.1, ?_⟩
  have : -x' - -x = -(x' - x) := by ring
  rw [this, abs_neg]; exact h.2

theorem Apx.sub {u : Rat} {k : Nat} {Mx x' x My y' y : Rat} (hx : Apx u k Mx x' x)
    (hy : Apx u k My y' y) : Apx u k (Mx + My) (x' - y') (x - y) := by
  have := hx.add hy.neg
  simpa [sub_eq_add_neg] using this

theorem Apx.mul {u : Rat} (hu : 0 ≤ u) {j k : Nat} {Mx x' x My y' y : Rat} (hx : Apx u j Mx x' x)
    (hy : Apx u k My y' y) : Apx u (j + k) (Mx * My) (x' * y') (x * y) := by
  have hMx := hx.mag_nonneg
  have hMy := hy.mag_nonneg
  refine ⟨by rw [abs_mul]; exact mul_le_mul hx.1 hy.1 (abs_nonneg _) hMx, ?_⟩
  have hsplit : x' * y' - x * y = (x' - x) * y' + x * (y' - y) := by ring
  have hy' := hy.abs_le
  have hGj := one_le_rho_pow hu j
  have hGk := one_le_rho_pow hu k
  have a1 : |(x' - x) * y'| ≤ (((1 + u) ^ j - 1) * Mx) * ((1 + u) ^ k * My) := by
    rw [abs_mul]
    exact mul_le_mul hx.2 hy' (abs_nonneg _) (mul_nonneg (by linarith) hMx)
  have a2 : |x * (y' - y)| ≤ Mx * (((1 + u) ^ k - 1) * My) := by
    rw [abs_mul]
    exact mul_le_mul hx.1 hy.2 (abs_nonneg _) hMx
  rw [hsplit, pow_add]
  have := abs_add_le ((x' - x) * y') (x * (y' - y))
  generalize (1 + u) ^ j = Gj at *
  generalize (1 + u) ^ k = Gk at *
  nlinarith

/-! ### the operations of `twice_signed_ring_area` -/

section
variable {fl : Rat → Rat} {u : Rat}

/-- one coordinate of `c - shift`: the inputs are exact, one rounding -/
theorem apx_coord (hu : 0 ≤ u) (hfl : RoundsWithin fl u) (a s : Rat) :
    Apx u 1 |a - s| (fl (a - s)) (a - s) := (apx_exact u (a - s)).round hu hfl

/-- one determinant: each of its two products went through at most 4 roundings -/
theorem apx_det (hu : 0 ≤ u) (hfl : RoundsWithin fl u) (a b s : Pt) :
    Apx u 4 (|a.x - s.x| * |b.y - s.y| + |a.y - s.y| * |b.x - s.x|)
      (flDet fl (flSubPt fl a s) (flSubPt fl b s)) (det (a - s) (b - s)) := by
  have p1 := ((apx_coord hu hfl a.x s.x).mul hu (apx_coord hu hfl b.y s.y)).round hu hfl
  have p2 := ((apx_coord hu hfl a.y s.y).mul hu (apx_coord hu hfl b.x s.x)).round hu hfl
  exact (p1.sub p2).round hu hfl

/-- the accumulation loop: each addition is one more rounding for everything summed so far -/
theorem apx_fold (hu : 0 ≤ u) (hfl : RoundsWithin fl u) (s : Pt) (l : List Pt) (k : Nat) (hk : 4 ≤ k)
    (Macc acc' acc : Rat) (h : Apx u k Macc acc' acc) :
    Apx u (k + (l.length - 1)) (Macc + sumRat (detMags s l))
      (flSum fl acc' (flShiftedDets fl s l)) (acc + sumRat (shiftedDets s l)) := by
  induction l generalizing k Macc acc' acc with
  | nil => simpa [flSum, flShiftedDets, detMags, shiftedDets, sumRat] using h
  | cons a t ih =>
    cases t with
    | nil => simpa [flSum, flShiftedDets, detMags, shiftedDets, sumRat] using h
    | cons b t' =>
      have hd := (apx_det hu hfl a b s).mono hu hk
      have hstep := (h.add hd).round hu hfl
      have := ih (k + 1) (by omega) _ _ _ hstep
      simp only [flSum, flShiftedDets, List.foldl_cons, detMags, shiftedDets, sumRat] at this ⊢
      have e1 : k + 1 + ((b :: t').length - 1) = k + ((a :: b :: t').length - 1) := by
        simp only [List.length_cons]; omega
      rw [e1] at this
      convert this using 1 <;> ring

end

/-- **T3.** Under the standard model (`fl` any rounding function with relative error ≤ `u`) the
computed `twice_signed_ring_area` of a ring of `n` coordinates differs from the exact one by at
most `((1+u)^(n+3) − 1) · Σᵢ (|aᵢ.x−s.x|·|aᵢ₊₁.y−s.y| + |aᵢ.y−s.y|·|aᵢ₊₁.x−s.x|)`,
`s` the first coordinate. -/
theorem flTwice_error {fl : Rat → Rat} {u : Rat} (hu : 0 ≤ u) (hfl : RoundsWithin fl u)
    (s : Pt) (t : List Pt) :
    |flTwiceSignedRingArea fl (s :: t) - twiceSignedRingArea (s :: t)| ≤
      ((1 + u) ^ ((s :: t).length + 3) - 1) * sumRat (detMags s (s :: t)) := by
  unfold flTwiceSignedRingArea twiceSignedRingArea
  have hnn : 0 ≤ ((1 + u) ^ ((s :: t).length + 3) - 1) * sumRat (detMags s (s :: t)) := by
    have h0 := apx_fold hu hfl s (s :: t) 4 (le_refl _) 0 0 0 (apx_zero u 4)
    have := h0.mag_nonneg
    have := one_le_rho_pow hu ((s :: t).length + 3)
    rw [zero_add] at *
    exact mul_nonneg (by linarith) (by assumption)
  split
  · simpa using hnn
  · split
    · simpa using hnn
    · have h0 := apx_fold hu hfl s (s :: t) 4 (le_refl _) 0 0 0 (apx_zero u 4)
      simp only [zero_add] at h0
      show |flSum fl 0 (flShiftedDets fl s (s :: t)) -
        (shiftedDets s (s :: t)).foldl (· + ·) 0| ≤ _
      rw [foldl_add, zero_add]
      have hk : 4 + ((s :: t).length - 1) = (s :: t).length + 3 := by
        simp only [List.length_cons]; omega
      rw [hk] at h0
      exact h0.2

/-! ### the constant: `(1+u)^k − 1 ≤ k·u / (1 − k·u)` (Higham's `γ_k`) -/

theorem rho_pow_mul_le_one {u : Rat} (hu : 0 ≤ u) (k : Nat) : (1 + u) ^ k * (1 - k * u) ≤ 1 := by
  induction k with
  | zero => simp
  | succ k ih =>
    have hG : 0 ≤ (1 + u) ^ k := by positivity
    have hstep : (1 + u) * (1 - ((k : Rat) + 1) * u) ≤ 1 - k * u := by
      have : 0 ≤ ((k : Rat) + 1) * (u * u) := by positivity
      nlinarith
    have := mul_le_mul_of_nonneg_left hstep hG
    rw [pow_succ]
    push_cast
    have e : (1 + u) ^ k * (1 + u) * (1 - ((k : Rat) + 1) * u) =
        (1 + u) ^ k * ((1 + u) * (1 - ((k : Rat) + 1) * u)) := by ring
    rw [e]
    linarith

theorem gamma_le {u : Rat} (hu : 0 ≤ u) (k : Nat) (hk : (k : Rat) * u < 1) :
    (1 + u) ^ k - 1 ≤ k * u / (1 - k * u) := by
  have hpos : 0 < 1 - (k : Rat) * u := by linarith
  rw [le_div_iff₀ hpos]
  have := rho_pow_mul_le_one hu k
  have hG := one_le_rho_pow hu k
  nlinarith

/-- **T3, explicit constant.** With `γ = (n+3)u / (1 − (n+3)u)`:
`|fl_area − area| ≤ γ · Σ |products|`. -/
theorem flTwice_error_gamma {fl : Rat → Rat} {u : Rat} (hu : 0 ≤ u) (hfl : RoundsWithin fl u)
    (s : Pt) (t : List Pt) (hk : (((s :: t).length + 3 : Nat) : Rat) * u < 1) :
    |flTwiceSignedRingArea fl (s :: t) - twiceSignedRingArea (s :: t)| ≤
      ((((s :: t).length + 3 : Nat) : Rat) * u / (1 - (((s :: t).length + 3 : Nat) : Rat) * u)) *
        sumRat (detMags s (s :: t)) := by
  refine le_trans (flTwice_error hu hfl s t) ?_
  have h0 := apx_fold hu hfl s (s :: t) 4 (le_refl _) 0 0 0 (apx_zero u 4)
  have hM := h0.mag_nonneg
  rw [zero_add] at hM
  exact mul_le_mul_of_nonneg_right (gamma_le hu _ hk) hM

/-- the rounded summation alone: for *any* list of values (e.g. the determinants as computed),
`|flSum ds − Σ ds| ≤ ((1+u)^n − 1) · Σ|dᵢ|`. -/
theorem flSum_error {fl : Rat → Rat} {u : Rat} (hu : 0 ≤ u) (hfl : RoundsWithin fl u)
    (ds : List Rat) :
    |flSum fl 0 ds - sumRat ds| ≤ ((1 + u) ^ ds.length - 1) * sumRat (ds.map (fun d => |d|)) := by
  have key : ∀ (l : List Rat) (k : Nat) (M acc' acc : Rat), Apx u k M acc' acc →
      Apx u (k + l.length) (M + sumRat (l.map (fun d => |d|))) (flSum fl acc' l) (acc + sumRat l) := by
    intro l
    induction l with
    | nil => intro k M acc' acc h; simpa [flSum, sumRat] using h
    | cons d t ih =>
      intro k M acc' acc h
      have hd : Apx u k |d| d d := (apx_exact u d).mono hu (Nat.zero_le k)
      have := ih (k + 1) _ _ _ ((h.add hd).round hu hfl)
      simp only [flSum, List.foldl_cons, List.map_cons, sumRat, List.length_cons] at this ⊢
      have e1 : k + 1 + t.length = k + (t.length + 1) := by omega
      rw [e1] at this
      convert this using 1 <;> ring
  have := key ds 0 0 0 0 (apx_zero u 0)
  simp only [zero_add] at this
  exact this.2

end Geo.Proofs.C05L
