/-
  C14 helper lemmas (ring level): the all-pairs loop of `linestring_has_self_intersection` against
  the specification's `ringSimple`, and the interplay with `dedupConsecutive`.
-/
import GeoProofs.Lemmas.C14PGeom

namespace Geo.Proofs.C14P
open Geo Geo.V Geo.Proofs.Kernel

/-! ### `segs` -/

theorem segs_getElem? : ∀ (r : List Pt) (i : Nat) (s : Pt × Pt),
    (segs r)[i]? = some s ↔ r[i]? = some s.1 ∧ r[i + 1]? = some s.2
  | [], i, s => by simp [segs]
  | [a], i, s => by simp [segs]
  | a :: b :: t, 0, s => by
      obtain ⟨s1, s2⟩ := s
      simp [segs]
  | a :: b :: t, i + 1, s => by
      simp only [segs, List.getElem?_cons_succ]
      exact segs_getElem? (b :: t) i s

theorem segs_length : ∀ r : List Pt, (segs r).length = r.length - 1
  | [] => rfl
  | [a] => rfl
  | a :: b :: t => by simp [segs, segs_length (b :: t)]

theorem segs_chain (r : List Pt) (i : Nat) (s t : Pt × Pt) (hs : (segs r)[i]? = some s)
    (ht : (segs r)[i + 1]? = some t) : s.2 = t.1 := by
  rw [segs_getElem?] at hs ht
  have := hs.2.symm.trans ht.1
  exact Option.some.inj this

theorem segs_closed (r : List Pt) (hc : r.head? = r.getLast?) (s t : Pt × Pt)
    (hs : (segs r)[0]? = some s) (ht : (segs r)[(segs r).length - 1]? = some t) : t.2 = s.1 := by
  have hlen : 0 < (segs r).length := (List.getElem?_eq_some_iff.mp hs).1
  rw [segs_getElem?] at hs ht
  rw [segs_length] at ht hlen
  rw [List.head?_eq_getElem?, List.getLast?_eq_getElem?] at hc
  have e : r.length - 1 - 1 + 1 = r.length - 1 := by omega
  rw [e] at ht
  have := ht.2.symm.trans (hc.symm.trans hs.1)
  exact Option.some.inj this

theorem segs_mem_pts (r : List Pt) (s : Pt × Pt) (h : s ∈ segs r) : s.1 ∈ r ∧ s.2 ∈ r := by
  obtain ⟨i, hi⟩ := List.mem_iff_getElem?.mp h
  rw [segs_getElem?] at hi
  exact ⟨List.mem_of_getElem? hi.1, List.mem_of_getElem? hi.2⟩

/-! ### `dedupConsecutive` -/

/-- non-degenerate segment -/
def nd (s : Pt × Pt) : Bool := s.1 != s.2

theorem dedup_head : ∀ (b : Pt) (t : List Pt), ∃ t', dedupConsecutive (b :: t) = b :: t'
  | b, [] => ⟨[], rfl⟩
  | b, c :: t => by
      simp only [dedupConsecutive]
      by_cases h : b = c
      · subst h
        simp only [beq_self_eq_true, if_true]
        exact dedup_head b t
      · have : (b == c) = false := by simp [h]
        simp only [this, Bool.false_eq_true, if_false]
        exact ⟨_, rfl⟩

/-- the segments of the deduplicated ring are the non-degenerate segments of the ring, in order -/
theorem segs_dedup : ∀ r : List Pt, segs (dedupConsecutive r) = (segs r).filter nd
  | [] => rfl
  | [a] => rfl
  | a :: b :: t => by
      simp only [dedupConsecutive]
      by_cases h : a = b
      · subst h
        simp only [beq_self_eq_true, if_true]
        rw [segs_dedup (a :: t)]
        simp [segs, nd]
      · have hab : (a == b) = false := by simp [h]
        simp only [hab, Bool.false_eq_true, if_false]
        obtain ⟨t', ht'⟩ := dedup_head b t
        have ih := segs_dedup (b :: t)
        rw [ht'] at ih ⊢
        have hnd : nd (a, b) = true := by simp [nd, h]
        simp only [segs, List.filter_cons, hnd, if_true]
        rw [ih]

theorem segs_dedup_nd (r : List Pt) : ∀ s ∈ segs (dedupConsecutive r), s.1 ≠ s.2 := by
  intro s hs
  rw [segs_dedup, List.mem_filter] at hs
  simpa [nd] using hs.2

theorem dedup_head? (r : List Pt) : (dedupConsecutive r).head? = r.head? := by
  cases r with
  | nil => rfl
  | cons b t =>
    obtain ⟨t', ht'⟩ := dedup_head b t
    rw [ht']; rfl

theorem dedup_getLast? : ∀ r : List Pt, (dedupConsecutive r).getLast? = r.getLast?
  | [] => rfl
  | [a] => rfl
  | a :: b :: t => by
      simp only [dedupConsecutive]
      by_cases h : a = b
      · subst h
        simp only [beq_self_eq_true, if_true]
        rw [dedup_getLast? (a :: t), List.getLast?_cons_cons]
      · have hab : (a == b) = false := by simp [h]
        simp only [hab, Bool.false_eq_true, if_false]
        have ih := dedup_getLast? (b :: t)
        obtain ⟨t', ht'⟩ := dedup_head b t
        rw [ht'] at ih ⊢
        rw [List.getLast?_cons_cons, ih, List.getLast?_cons_cons]

/-! ### the loop, as a statement about index pairs -/

/-- no ordered pair of distinct segments is flagged by the loop body -/
def NoBad (ss : List (Pt × Pt)) : Prop :=
  ∀ (i j : Nat) (l o : Pt × Pt), i ≠ j → ss[i]? = some l → ss[j]? = some o → pairBad l o = false

theorem hsi_false_iff (r : List Pt) : hasSelfIntersection r = false ↔ NoBad (segs r) := by
  rw [← Bool.not_eq_true]
  simp only [hasSelfIntersection, List.any_eq_true, Bool.and_eq_true, bne_iff_ne, ne_eq, NoBad]
  constructor
  · intro h i j l o hne hl ho
    by_contra hb
    have hb : pairBad l o = true := by simpa using hb
    exact h ⟨(l, i), List.mem_zipIdx_iff_getElem?.mpr hl, (o, j), List.mem_zipIdx_iff_getElem?.mpr ho,
      hne, hb⟩
  · rintro h ⟨li, hli, oj, hoj, hne, hb⟩
    rw [List.mem_zipIdx_iff_getElem?] at hli hoj
    have := h li.2 oj.2 li.1 oj.1 hne hli hoj
    rw [hb] at this; cases this

theorem allPairs_iff (ss : List (Pt × Pt)) (ok : Nat → Nat → (Pt × Pt) → (Pt × Pt) → Bool) :
    allPairs ss ok = true ↔
      ∀ i j s t, i < j → ss[i]? = some s → ss[j]? = some t → ok i j s t = true := by
  simp only [allPairs, List.all_eq_true]
  constructor
  · intro h i j s t hij hs ht
    have := h (s, i) (List.mem_zipIdx_iff_getElem?.mpr hs) (t, j) (List.mem_zipIdx_iff_getElem?.mpr ht)
    simpa [hij] using this
  · intro h si hs tj ht
    rw [List.mem_zipIdx_iff_getElem?] at hs ht
    obtain ⟨s, i⟩ := si
    obtain ⟨t, j⟩ := tj
    by_cases hij : i < j
    · simpa [hij] using h i j s t hij hs ht
    · simp [hij]

/-- the per-pair test of `ringSimple` for a ring of `n` segments -/
def okR (n i j : Nat) (s t : Pt × Pt) : Bool :=
  if j == i + 1 then adjacentOk s t s.2
  else if i == 0 && j + 1 == n then adjacentOk t s t.2
  else !lineLine s.1 s.2 t.1 t.2

theorem ringSimple_def (r0 : List Pt) :
    ringSimple r0 =
      (decide ((dedupConsecutive r0).head? = (dedupConsecutive r0).getLast?) &&
        decide ((segs (dedupConsecutive r0)).length ≥ 3) &&
        allPairs (segs (dedupConsecutive r0)) (okR (segs (dedupConsecutive r0)).length)) := rfl

/-- The loop against the specification, on any closed chain of non-degenerate segments:
pair by pair, consecutive pairs (wrap-around pair included) through `adjacent_agree`, the others
through `lineLine` — where a non-consecutive pair that the loop skips because the two segments
happen to be chained by *coordinates* (the ring revisits a vertex) is caught at a neighbouring
pair. -/
theorem noBad_iff_allPairs (ss : List (Pt × Pt)) (hnd : ∀ s ∈ ss, s.1 ≠ s.2)
    (hch : ∀ i s t, ss[i]? = some s → ss[i + 1]? = some t → s.2 = t.1)
    (hcl : ∀ s t, ss[0]? = some s → ss[ss.length - 1]? = some t → t.2 = s.1) :
    NoBad ss ↔ allPairs ss (okR ss.length) = true := by
  rw [allPairs_iff]
  have lt_of_get : ∀ {i : Nat} {s : Pt × Pt}, ss[i]? = some s → i < ss.length :=
    fun h => (List.getElem?_eq_some_iff.mp h).1
  have get_of_lt : ∀ {i : Nat}, i < ss.length → ∃ u, ss[i]? = some u :=
    fun h => ⟨_, List.getElem?_eq_getElem h⟩
  constructor
  · intro hnb i j s t hij hs ht
    have hsn := hnd s (List.mem_of_getElem? hs)
    have htn := hnd t (List.mem_of_getElem? ht)
    have hi := lt_of_get hs
    have hj := lt_of_get ht
    unfold okR
    by_cases h1 : j = i + 1
    · subst h1
      simp only [beq_self_eq_true, if_true]
      have hst := hch i s t hs ht
      rw [(adjacent_agree s t hsn htn hst).1, hnb i (i + 1) s t (by omega) hs ht]; rfl
    · have h1' : (j == i + 1) = false := by simp [h1]
      rw [h1']; simp only [Bool.false_eq_true, if_false]
      cases h2 : (i == 0 && j + 1 == ss.length)
      · simp only [Bool.false_eq_true, if_false]
        have h2' : ¬ (i = 0 ∧ j + 1 = ss.length) := by
          intro ⟨e1, e2⟩; simp [e1, e2] at h2
        cases hl : lineLine s.1 s.2 t.1 t.2
        · rfl
        · exfalso
          by_cases e1 : s.1 = t.2
          · by_cases hj1 : j + 1 < ss.length
            · obtain ⟨u, hu⟩ := get_of_lt hj1
              have hun := hnd u (List.mem_of_getElem? hu)
              have htu := hch j t u ht hu
              have hb := pairBad_start_start s u hsn hun (by rw [e1, htu])
              have := hnb i (j + 1) s u (by omega) hs hu
              rw [hb] at this; cases this
            · have hi0 : 0 < i := by
                rcases Nat.eq_zero_or_pos i with e | e
                · exact absurd ⟨e, by omega⟩ h2'
                · exact e
              obtain ⟨u, hu⟩ := get_of_lt (show i - 1 < ss.length by omega)
              have hun := hnd u (List.mem_of_getElem? hu)
              have hus := hch (i - 1) u s hu (by rw [show i - 1 + 1 = i by omega]; exact hs)
              have hb := pairBad_end_end u t hun htn (by rw [hus, e1])
              have := hnb (i - 1) j u t (by omega) hu ht
              rw [hb] at this; cases this
          · by_cases e2 : s.2 = t.1
            · obtain ⟨u, hu⟩ := get_of_lt (show j - 1 < ss.length by omega)
              have hun := hnd u (List.mem_of_getElem? hu)
              have hut := hch (j - 1) u t hu (by rw [show j - 1 + 1 = j by omega]; exact ht)
              have hb := pairBad_end_end s u hsn hun (by rw [e2, hut])
              have := hnb i (j - 1) s u (by omega) hs hu
              rw [hb] at this; cases this
            · have e1' : (s.1 != t.2) = true := by simp [e1]
              have e2' : (s.2 != t.1) = true := by simp [e2]
              have hb : pairBad s t = true := by simp [pairBad, hl, e1', e2']
              have := hnb i j s t (by omega) hs ht
              rw [hb] at this; cases this
      · simp only [if_true]
        simp only [Bool.and_eq_true, beq_iff_eq] at h2
        obtain ⟨hi0, hjn⟩ := h2
        subst hi0
        have hts := hcl s t hs (by rw [show ss.length - 1 = j by omega]; exact ht)
        rw [(adjacent_agree t s htn hsn hts).1, hnb j 0 t s (by omega) ht hs]; rfl
  · intro hall i j l o hne hl ho
    have hln := hnd l (List.mem_of_getElem? hl)
    have hon := hnd o (List.mem_of_getElem? ho)
    have hi := lt_of_get hl
    have hj := lt_of_get ho
    rcases Nat.lt_or_gt_of_ne hne with hij | hji
    · have hok := hall i j l o hij hl ho
      unfold okR at hok
      by_cases h1 : j = i + 1
      · subst h1
        simp only [beq_self_eq_true, if_true] at hok
        have hst := hch i l o hl ho
        rw [(adjacent_agree l o hln hon hst).1] at hok
        simpa using hok
      · have h1' : (j == i + 1) = false := by simp [h1]
        rw [h1'] at hok; simp only [Bool.false_eq_true, if_false] at hok
        cases h2 : (i == 0 && j + 1 == ss.length)
        · rw [h2] at hok; simp only [Bool.false_eq_true, if_false] at hok
          have : lineLine l.1 l.2 o.1 o.2 = false := by simpa using hok
          simp [pairBad, this]
        · rw [h2] at hok; simp only [if_true] at hok
          simp only [Bool.and_eq_true, beq_iff_eq] at h2
          obtain ⟨hi0, hjn⟩ := h2
          subst hi0
          have hts := hcl l o hl (by rw [show ss.length - 1 = j by omega]; exact ho)
          rw [(adjacent_agree o l hon hln hts).2] at hok
          simpa using hok
    · have hok := hall j i o l hji ho hl
      unfold okR at hok
      by_cases h1 : i = j + 1
      · subst h1
        simp only [beq_self_eq_true, if_true] at hok
        have hst := hch j o l ho hl
        rw [(adjacent_agree o l hon hln hst).2] at hok
        simpa using hok
      · have h1' : (i == j + 1) = false := by simp [h1]
        rw [h1'] at hok; simp only [Bool.false_eq_true, if_false] at hok
        cases h2 : (j == 0 && i + 1 == ss.length)
        · rw [h2] at hok; simp only [Bool.false_eq_true, if_false] at hok
          have : lineLine l.1 l.2 o.1 o.2 = false := by
            rw [lineLine_symm]; simpa using hok
          simp [pairBad, this]
        · rw [h2] at hok; simp only [if_true] at hok
          simp only [Bool.and_eq_true, beq_iff_eq] at h2
          obtain ⟨hj0, hin⟩ := h2
          subst hj0
          have hts := hcl o l ho (by rw [show ss.length - 1 = i by omega]; exact hl)
          rw [(adjacent_agree l o hln hon hts).1] at hok
          simpa using hok

/-! ### repeated coordinates: the loop on the ring and on the deduplicated ring -/

/-- neither order of the pair is flagged -/
def Rel (l o : Pt × Pt) : Prop := pairBad l o = false ∧ pairBad o l = false

theorem Rel_symm (x y : Pt × Pt) (h : Rel x y) : Rel y x := ⟨h.2, h.1⟩

theorem pairwise_forall {α : Type} {R : α → α → Prop} (hR : ∀ x y, R x y → R y x) {l : List α}
    (h : l.Pairwise R) {a b : α} (ha : a ∈ l) (hb : b ∈ l) (hne : a ≠ b) : R a b := by
  rw [List.pairwise_iff_getElem] at h
  obtain ⟨i, hi, rfl⟩ := List.getElem_of_mem ha
  obtain ⟨j, hj, rfl⟩ := List.getElem_of_mem hb
  rcases Nat.lt_trichotomy i j with hij | hij | hij
  · exact h i j hi hj hij
  · subst hij; exact absurd rfl hne
  · exact hR _ _ (h j i hj hi hij)

theorem noBad_iff_pairwise (ss : List (Pt × Pt)) : NoBad ss ↔ ss.Pairwise Rel := by
  rw [List.pairwise_iff_getElem]
  constructor
  · intro h i j hi hj hij
    exact ⟨h i j _ _ (Nat.ne_of_lt hij) (List.getElem?_eq_getElem hi) (List.getElem?_eq_getElem hj),
      h j i _ _ (Nat.ne_of_gt hij) (List.getElem?_eq_getElem hj) (List.getElem?_eq_getElem hi)⟩
  · intro h i j l o hne hl ho
    obtain ⟨hi, rfl⟩ := List.getElem?_eq_some_iff.mp hl
    obtain ⟨hj, rfl⟩ := List.getElem?_eq_some_iff.mp ho
    rcases Nat.lt_or_gt_of_ne hne with hij | hji
    · exact (h i j hi hj hij).1
    · exact (h j i hj hi hji).2

/-- a ring that contains `a` and a coordinate different from `a` has a non-degenerate segment
with an end at `a` -/
theorem exists_nd_seg (a : Pt) : ∀ r : List Pt, a ∈ r → (∃ x ∈ r, x ≠ a) →
    ∃ s ∈ segs r, s.1 ≠ s.2 ∧ (s.1 = a ∨ s.2 = a)
  | [], h, _ => by simp at h
  | [c], h, ⟨x, hx, hxa⟩ => by
      simp only [List.mem_singleton] at h hx
      exact absurd (hx.trans h.symm) hxa
  | c :: d :: t, h, ⟨x, hx, hxa⟩ => by
      by_cases hca : c = a
      · by_cases hda : d = a
        · have ha : a ∈ d :: t := by simp [hda]
          have hx' : x ∈ d :: t := by
            rcases List.mem_cons.mp hx with e | e
            · exact absurd (e.trans hca) hxa
            · exact e
          obtain ⟨s, hs, h1, h2⟩ := exists_nd_seg a (d :: t) ha ⟨x, hx', hxa⟩
          exact ⟨s, by simp [segs, hs], h1, h2⟩
        · refine ⟨(c, d), by simp [segs], ?_, Or.inl hca⟩
          simp only; rw [hca]; exact Ne.symm hda
      · have ha : a ∈ d :: t := by
          rcases List.mem_cons.mp h with e | e
          · exact absurd e.symm hca
          · exact e
        by_cases hda : d = a
        · refine ⟨(c, d), by simp [segs], ?_, Or.inr hda⟩
          simp only; rw [hda]; exact hca
        · obtain ⟨s, hs, h1, h2⟩ := exists_nd_seg a (d :: t) ha ⟨d, by simp, hda⟩
          exact ⟨s, by simp [segs, hs], h1, h2⟩

/-- a degenerate segment `(a, a)` of the ring flagged against a segment `o` of the ring: then a
non-degenerate segment of the ring is flagged against `o` as well -/
theorem bad_of_vertex_inside (r : List Pt) (a : Pt) (o : Pt × Pt) (ha : a ∈ r) (ho : o ∈ segs r)
    (hin : SegMem a o.1 o.2) (h1 : a ≠ o.1) (h2 : a ≠ o.2) :
    ∃ s ∈ segs r, nd s = true ∧ nd o = true ∧ s ≠ o ∧ pairBad s o = true := by
  obtain ⟨s, hs, hsn, hsa⟩ := exists_nd_seg a r ha ⟨o.1, (segs_mem_pts r o ho).1, Ne.symm h1⟩
  have hon : o.1 ≠ o.2 := by
    intro e
    rw [← e, SegMem_degenerate] at hin
    exact h1 hin
  refine ⟨s, hs, by simp [nd, hsn], by simp [nd, hon], ?_, pairBad_of_vertex_inside s o a hsn hsa hin h1 h2⟩
  intro e
  subst e
  rcases hsa with e | e
  · exact h1 e.symm
  · exact h2 e.symm

/-- [dedup interplay] the loop reports a ring exactly when it reports the ring with consecutive
repeats removed (`Vec::dedup`): a zero-length segment is flagged only against a segment through
its coordinate, and then a neighbouring segment of positive length is flagged too. -/
theorem noBad_dedup (r : List Pt) : NoBad (segs r) ↔ NoBad (segs (dedupConsecutive r)) := by
  rw [noBad_iff_pairwise (segs (dedupConsecutive r)), segs_dedup, List.pairwise_filter]
  constructor
  · intro h
    rw [noBad_iff_pairwise] at h
    exact h.imp (fun h _ _ => h)
  · intro H i j l o hne hl ho
    by_contra hb
    have hb : pairBad l o = true := by simpa using hb
    have hlm : l ∈ segs r := List.mem_of_getElem? hl
    have hom : o ∈ segs r := List.mem_of_getElem? ho
    have Hf : ∀ {a b : Pt × Pt}, a ∈ segs r → b ∈ segs r → a ≠ b → nd a = true → nd b = true → Rel a b :=
      fun ha hb hne => pairwise_forall (fun x y h hy hx => Rel_symm _ _ (h hx hy)) H ha hb hne
    by_cases hln : nd l = true
    · by_cases hon : nd o = true
      · -- both of positive length: the pair itself survives the filter
        rw [List.pairwise_iff_getElem] at H
        obtain ⟨hi, rfl⟩ := List.getElem?_eq_some_iff.mp hl
        obtain ⟨hj, rfl⟩ := List.getElem?_eq_some_iff.mp ho
        rcases Nat.lt_or_gt_of_ne hne with hij | hji
        · have := (H i j hi hj hij hln hon).1
          rw [hb] at this; cases this
        · have := (H j i hj hi hji hon hln).2
          rw [hb] at this; cases this
      · -- `o` is a zero-length segment
        obtain ⟨o1, o2⟩ := o
        have e : o1 = o2 := by simpa [nd] using hon
        subst e
        obtain ⟨hin, h1, h2⟩ := pairBad_degenerate_right o1 l hb
        obtain ⟨s, hs, hsn, _, hsl, hbad⟩ :=
          bad_of_vertex_inside r o1 l (segs_mem_pts r _ hom).1 hlm hin h1 h2
        have := (Hf hs hlm hsl hsn hln).1
        rw [hbad] at this; cases this
    · -- `l` is a zero-length segment
      obtain ⟨l1, l2⟩ := l
      have e : l1 = l2 := by simpa [nd] using hln
      subst e
      obtain ⟨hin, h1, h2⟩ := pairBad_degenerate_left l1 o hb
      obtain ⟨s, hs, hsn, hon, hso, hbad⟩ :=
        bad_of_vertex_inside r l1 o (segs_mem_pts r _ hlm).1 hom hin h1 h2
      have := (Hf hs hom hso hsn hon).1
      rw [hbad] at this; cases this

/-! ### the ring-level statements -/

/-- the specification accepts ⇒ the loop does not fire (no hypothesis on the ring) -/
theorem ringSimple_noBad (r : List Pt) (h : ringSimple r = true) : hasSelfIntersection r = false := by
  rw [ringSimple_def] at h
  simp only [Bool.and_eq_true, decide_eq_true_eq] at h
  obtain ⟨⟨hc, _⟩, hall⟩ := h
  rw [hsi_false_iff, noBad_dedup,
    noBad_iff_allPairs _ (segs_dedup_nd r) (segs_chain _) (segs_closed _ hc)]
  exact hall

/-- the loop against the specification on a ring that is closed and keeps at least 4 coordinates
when consecutive repeats are removed -/
theorem hsi_iff_ringSimple (r : List Pt) (hc : r.head? = r.getLast?)
    (h4 : (dedupConsecutive r).length ≥ 4) : hasSelfIntersection r = false ↔ ringSimple r = true := by
  have hc' : (dedupConsecutive r).head? = (dedupConsecutive r).getLast? := by
    rw [dedup_head?, dedup_getLast?]; exact hc
  rw [hsi_false_iff, noBad_dedup,
    noBad_iff_allPairs _ (segs_dedup_nd r) (segs_chain _) (segs_closed _ hc'), ringSimple_def]
  have h3 : (segs (dedupConsecutive r)).length ≥ 3 := by rw [segs_length]; omega
  simp [hc', h3]

end Geo.Proofs.C14P
