/-
  RELM — the mutual phase is symmetric in the operands (exact arithmetic): running
  `compute_edge_intersections` with the graphs exchanged (labels swapped) leaves the same edges (up
  to the swap) and the same two flags.
-/
import GeoProofs.Lemmas.RELMOrder5
import GeoProofs.Lemmas.RELMSwap

namespace Geo.Proofs.RELM
open Geo Geo.GG Geo.RI Geo.Proofs.Kernel

/-! ### events commute with the label swap -/

theorem applyM_map_swap : ∀ (evs : List MEv) (es : List REdge),
    applyM (es.map REdge.swap) evs = (applyM es evs).map REdge.swap
  | [], _ => rfl
  | ev :: evs, es => by
      show applyM (ev.apply (es.map REdge.swap)) evs = (applyM (ev.apply es) evs).map REdge.swap
      rw [← applyM_map_swap evs (ev.apply es)]
      congr 1
      cases ev with
      | uniso i => exact (updAt_map REdge.swap REdge.unisolate REdge.unisolate (fun _ => rfl) es i).symm
      | ins i r =>
        exact (updAt_map REdge.swap (fun e => { e with eis := eiInsert r e.eis })
          (fun e => { e with eis := eiInsert r e.eis }) (fun _ => rfl) es i).symm

theorem allSegs_map_swap (es : List REdge) : allSegs (es.map REdge.swap) = allSegs es :=
  allSegsFrom_swap es 0

/-! ### the events of a pair, seen from either side -/

theorem LIEquiv_cases {motive : Option LI → Option LI → Prop} {r r' : Option LI} (h : LIEquiv r r')
    (hn : motive none none) (hs : ∀ x f, motive (some (.single x f)) (some (.single x f)))
    (hc : ∀ x y, motive (some (.collinear x y)) (some (.collinear x y)))
    (hc' : ∀ x y, motive (some (.collinear x y)) (some (.collinear y x))) : motive r r' := by
  cases r with
  | none =>
    cases r' with
    | none => exact hn
    | some l => exact absurd h (by simp [LIEquiv])
  | some l =>
    cases l with
    | single x f =>
      cases r' with
      | none => exact absurd h (by simp [LIEquiv])
      | some l' =>
        cases l' with
        | single y g => obtain ⟨rfl, rfl⟩ := h; exact hs _ _
        | collinear _ _ => exact absurd h (by simp [LIEquiv])
    | collinear x y =>
      cases r' with
      | none => exact absurd h (by simp [LIEquiv])
      | some l' =>
        cases l' with
        | single _ _ => exact absurd h (by simp [LIEquiv])
        | collinear x' y' =>
          rcases h with ⟨rfl, rfl⟩ | ⟨rfl, rfl⟩
          · exact hc _ _
          · exact hc' _ _

/-- the events on the edges of `t`'s graph are the same whether `t` is visited as the second or
as the first segment of the pair -/
theorem mEvents_symm (s t : Seg) : ∀ ev, ev ∈ mEventsA t s ↔ ev ∈ mEventsB s t := by
  intro ev
  have h := Geo.Proofs.C11.li_symm s.p s.q t.p t.q
  unfold mEventsA mEventsB
  generalize lineIntersection s.p s.q t.p t.q = r at h ⊢
  generalize lineIntersection t.p t.q s.p s.q = r' at h ⊢
  refine LIEquiv_cases (motive := fun r r' =>
    (ev ∈ match r' with
      | none => []
      | some li => MEv.uniso t.edge :: if LI.isProper li = true then [] else (liRecs t li).map (fun r => MEv.ins t.edge r)) ↔
    (ev ∈ match r with
      | none => []
      | some li => MEv.uniso t.edge :: if LI.isProper li = true then [] else (liRecs t li).map (fun r => MEv.ins t.edge r)))
    h ?_ ?_ ?_ ?_
  · exact Iff.rfl
  · intro _ _; exact Iff.rfl
  · intro _ _; exact Iff.rfl
  · intro x y
    simp only [LI.isProper, Bool.false_eq_true, if_false, liRecs, List.map_cons, List.map_nil, List.mem_cons,
      List.not_mem_nil, or_false]
    tauto

theorem mEvents_symm' (s t : Seg) : ∀ ev, ev ∈ mEventsB t s ↔ ev ∈ mEventsA s t := by
  intro ev
  exact (mEvents_symm t s ev).symm

theorem pairProper_symm (s t : Seg) : pairProper t s = pairProper s t := by
  have h := Geo.Proofs.C11.li_symm s.p s.q t.p t.q
  unfold pairProper
  generalize lineIntersection s.p s.q t.p t.q = r at h ⊢
  generalize lineIntersection t.p t.q s.p s.q = r' at h ⊢
  refine LIEquiv_cases (motive := fun r r' =>
    (match r' with | some (.single _ true) => true | _ => false) =
    (match r with | some (.single _ true) => true | _ => false)) h ?_ ?_ ?_ ?_
  · rfl
  · intro _ _; rfl
  · intro _ _; rfl
  · intro _ _; rfl

theorem pairProperInterior_symm (bn bn' : List Pt) (hbn : ∀ p, p ∈ bn ↔ p ∈ bn') (s t : Seg) :
    pairProperInterior bn' t s = pairProperInterior bn s t := by
  have h := Geo.Proofs.C11.li_symm s.p s.q t.p t.q
  have hany : ∀ pt, bn'.any (· == pt) = bn.any (· == pt) := by
    intro pt
    rw [Bool.eq_iff_iff]
    simp only [List.any_eq_true, beq_iff_eq]
    exact ⟨fun ⟨x, hx, he⟩ => ⟨x, (hbn x).2 hx, he⟩, fun ⟨x, hx, he⟩ => ⟨x, (hbn x).1 hx, he⟩⟩
  unfold pairProperInterior
  generalize lineIntersection s.p s.q t.p t.q = r at h ⊢
  generalize lineIntersection t.p t.q s.p s.q = r' at h ⊢
  refine LIEquiv_cases (motive := fun r r' =>
    (match r' with | some (.single pt true) => !(bn'.any (· == pt)) | _ => false) =
    (match r with | some (.single pt true) => !(bn.any (· == pt)) | _ => false)) h ?_ ?_ ?_ ?_
  · rfl
  · intro x f
    cases f
    · rfl
    · simp only [hany]
  · intro _ _; rfl
  · intro _ _; rfl

/-! ### the product of the segment lists, in the other order -/

theorem mem_mutualPairs (sb sa : List Seg) (pr : Seg × Seg) :
    pr ∈ mutualPairs sb sa ↔ pr.1 ∈ sa ∧ pr.2 ∈ sb := by
  unfold mutualPairs
  simp only [List.mem_flatMap, List.mem_map]
  constructor
  · rintro ⟨s0, h0, s1, h1, rfl⟩; exact ⟨h0, h1⟩
  · rintro ⟨h0, h1⟩; exact ⟨pr.1, h0, pr.2, h1, rfl⟩

/-- **the mutual phase with the operands exchanged** -/
theorem mutualRows_swap (bn bn' : List Pt) (hbn : ∀ p, p ∈ bn ↔ p ∈ bn') (ea eb : List REdge)
    (hsa : ∀ e ∈ ea, SortedEI e.eis) (hva : ∀ e ∈ ea, ∀ r ∈ e.eis, ValidRec e.coords r)
    (hsb : ∀ e ∈ eb, SortedEI e.eis) (hvb : ∀ e ∈ eb, ∀ r ∈ e.eis, ValidRec e.coords r) :
    mutualRows Arith.exact bn' (allSegs (ea.map REdge.swap)) (allSegs (eb.map REdge.swap))
        ⟨eb.map REdge.swap, ea.map REdge.swap, false, false⟩ =
      let m := mutualRows Arith.exact bn (allSegs eb) (allSegs ea) ⟨ea, eb, false, false⟩
      ⟨m.eb.map REdge.swap, m.ea.map REdge.swap, m.hasProper, m.hasProperInterior⟩ := by
  simp only
  have hsegA : ∀ pr ∈ mutualPairs (allSegs eb) (allSegs ea), SegIn ea pr.1 ∧ SegIn eb pr.2 := by
    intro pr hpr
    rw [mem_mutualPairs] at hpr
    exact ⟨allSegs_segIn ea _ hpr.1, allSegs_segIn eb _ hpr.2⟩
  have segSwap : ∀ (es : List REdge) (s : Seg), SegIn es s → SegIn (es.map REdge.swap) s := by
    intro es s ⟨e, he, hs⟩
    exact ⟨e.swap, by rw [List.getElem?_map, he]; rfl, hs⟩
  have hsegB : ∀ pr ∈ mutualPairs (allSegs ea) (allSegs eb),
      SegIn (eb.map REdge.swap) pr.1 ∧ SegIn (ea.map REdge.swap) pr.2 := by
    intro pr hpr
    rw [mem_mutualPairs] at hpr
    exact ⟨segSwap eb _ (allSegs_segIn eb _ hpr.1), segSwap ea _ (allSegs_segIn ea _ hpr.2)⟩
  rw [allSegs_map_swap, allSegs_map_swap, mutualRows_eq_fold, mutualRows_eq_fold,
    mutualFold_eq bn' _ _ hsegB, mutualFold_eq bn _ _ hsegA]
  simp only [applyM_map_swap, Bool.false_or]
  -- events
  have hEb : applyM eb ((mutualPairs (allSegs ea) (allSegs eb)).flatMap (fun pr => mEventsA pr.1 pr.2)) =
      applyM eb ((mutualPairs (allSegs eb) (allSegs ea)).flatMap (fun pr => mEventsB pr.1 pr.2)) := by
    apply applyM_congr hsb hvb
    · intro i r hir
      simp only [List.mem_flatMap] at hir
      obtain ⟨pr, hpr, hev⟩ := hir
      rw [mem_mutualPairs] at hpr
      exact (mEvents_valid (allSegs_segIn eb _ hpr.1) (allSegs_segIn ea _ hpr.2)).1 i r hev
    · intro ev
      simp only [List.mem_flatMap]
      constructor
      · rintro ⟨pr, hpr, hev⟩
        rw [mem_mutualPairs] at hpr
        exact ⟨(pr.2, pr.1), (mem_mutualPairs _ _ _).2 ⟨hpr.2, hpr.1⟩, (mEvents_symm pr.2 pr.1 ev).1 hev⟩
      · rintro ⟨pr, hpr, hev⟩
        rw [mem_mutualPairs] at hpr
        exact ⟨(pr.2, pr.1), (mem_mutualPairs _ _ _).2 ⟨hpr.2, hpr.1⟩, (mEvents_symm pr.1 pr.2 ev).2 hev⟩
  have hEa : applyM ea ((mutualPairs (allSegs ea) (allSegs eb)).flatMap (fun pr => mEventsB pr.1 pr.2)) =
      applyM ea ((mutualPairs (allSegs eb) (allSegs ea)).flatMap (fun pr => mEventsA pr.1 pr.2)) := by
    apply applyM_congr hsa hva
    · intro i r hir
      simp only [List.mem_flatMap] at hir
      obtain ⟨pr, hpr, hev⟩ := hir
      rw [mem_mutualPairs] at hpr
      exact (mEvents_valid (allSegs_segIn eb _ hpr.1) (allSegs_segIn ea _ hpr.2)).2 i r hev
    · intro ev
      simp only [List.mem_flatMap]
      constructor
      · rintro ⟨pr, hpr, hev⟩
        rw [mem_mutualPairs] at hpr
        exact ⟨(pr.2, pr.1), (mem_mutualPairs _ _ _).2 ⟨hpr.2, hpr.1⟩, (mEvents_symm' pr.2 pr.1 ev).1 hev⟩
      · rintro ⟨pr, hpr, hev⟩
        rw [mem_mutualPairs] at hpr
        exact ⟨(pr.2, pr.1), (mem_mutualPairs _ _ _).2 ⟨hpr.2, hpr.1⟩, (mEvents_symm' pr.1 pr.2 ev).2 hev⟩
  have hP : (mutualPairs (allSegs ea) (allSegs eb)).any (fun pr => pairProper pr.1 pr.2) =
      (mutualPairs (allSegs eb) (allSegs ea)).any (fun pr => pairProper pr.1 pr.2) := by
    rw [Bool.eq_iff_iff]
    simp only [List.any_eq_true]
    constructor
    · rintro ⟨pr, hpr, h⟩
      rw [mem_mutualPairs] at hpr
      exact ⟨(pr.2, pr.1), (mem_mutualPairs _ _ _).2 ⟨hpr.2, hpr.1⟩, by rw [← pairProper_symm]; exact h⟩
    · rintro ⟨pr, hpr, h⟩
      rw [mem_mutualPairs] at hpr
      exact ⟨(pr.2, pr.1), (mem_mutualPairs _ _ _).2 ⟨hpr.2, hpr.1⟩, by rw [pairProper_symm]; exact h⟩
  have hPI : (mutualPairs (allSegs ea) (allSegs eb)).any (fun pr => pairProperInterior bn' pr.1 pr.2) =
      (mutualPairs (allSegs eb) (allSegs ea)).any (fun pr => pairProperInterior bn pr.1 pr.2) := by
    rw [Bool.eq_iff_iff]
    simp only [List.any_eq_true]
    constructor
    · rintro ⟨pr, hpr, h⟩
      rw [mem_mutualPairs] at hpr
      exact ⟨(pr.2, pr.1), (mem_mutualPairs _ _ _).2 ⟨hpr.2, hpr.1⟩,
        by rw [← pairProperInterior_symm bn bn' hbn]; exact h⟩
    · rintro ⟨pr, hpr, h⟩
      rw [mem_mutualPairs] at hpr
      exact ⟨(pr.2, pr.1), (mem_mutualPairs _ _ _).2 ⟨hpr.2, hpr.1⟩,
        by rw [pairProperInterior_symm bn bn' hbn]; exact h⟩
  rw [hEb, hEa, hP, hPI]

end Geo.Proofs.RELM
