/-
  C08 helper lemmas (quick-hull, what `is_strict_ccw_hull` establishes) — the geometric core.

  A closed polygon, given as a periodic sequence of points `p : Nat → Pt` (period `n`), that turns
  strictly left at every vertex and whose edges, going around once, are lexicographically
  increasing on one run and decreasing on the complementary run (the direction changes exactly
  twice: it winds once), is convex: every vertex is left of or on every edge.

  Proof: for a fixed edge `i` the signed distance of the vertex `i + 1 + m` from the edge is the
  partial sum of `cD i s = d_i × d_s` over the following edge vectors. Inside one run the edge
  vectors lie in a half-plane, where "`×` positive" is a strict order (the lemmas `hp_trans_*`), so
  going around from `i` the terms `d_i × d_s` are positive on the rest of `i`'s run, change sign at most
  once on the opposite run and are negative on the part of `i`'s run before `i`. Partial sums of a
  sequence that is positive and then non-positive and sums to 0 (the polygon closes) are `≥ 0`.
-/
import GeoModel.Orient
import GeoProofs.Lemmas.C08QAlg
import Mathlib.Tactic.Linarith
import Mathlib.Tactic.Ring

namespace Geo.Proofs.C08
open Geo

/-- partial sums `F` of a sequence `g` that, once non-positive, stays non-positive, and that sums
to `0` over `[0, N)`, are non-negative -/
theorem unimodal_nonneg (F g : Nat → Rat) (N : Nat) (h0 : F 0 = 0) (hN : F N = 0)
    (hstep : ∀ m, m < N → F (m + 1) = F m + g m)
    (hmono : ∀ m, m + 1 < N → g m ≤ 0 → g (m + 1) ≤ 0) : ∀ m, m ≤ N → 0 ≤ F m := by
  have hA : ∀ m, m < N → g m ≤ 0 → ∀ k, m + k < N → g (m + k) ≤ 0 := by
    intro m _ hg k
    induction k with
    | zero => intro _; simpa using hg
    | succ k ih =>
      intro hk
      have := ih (by omega)
      exact hmono (m + k) (by omega) this
  have hB : ∀ k m, m + k = N → (∀ t, m ≤ t → t < N → g t ≤ 0) → 0 ≤ F m := by
    intro k
    induction k with
    | zero =>
      intro m hm _
      have : m = N := by omega
      rw [this, hN]
    | succ k ih =>
      intro m hm hg
      have h1 := ih (m + 1) (by omega) (fun t ht htN => hg t (by omega) htN)
      have h2 := hstep m (by omega)
      have h3 := hg m (le_refl _) (by omega)
      linarith
  have hC : ∀ m, m ≤ N → (∀ t, t < m → 0 < g t) → 0 ≤ F m := by
    intro m
    induction m with
    | zero => intro _ _; rw [h0]
    | succ m ih =>
      intro hm hg
      have h1 := ih (by omega) (fun t ht => hg t (by omega))
      have h2 := hstep m (by omega)
      have h3 := hg m (by omega)
      linarith
  intro m hm
  by_cases hall : ∀ t, t < m → 0 < g t
  · exact hC m hm hall
  · have : ∃ t, t < m ∧ g t ≤ 0 := by
      by_contra hne
      apply hall
      intro t ht
      by_contra hg
      exact hne ⟨t, ht, not_lt.1 hg⟩
    obtain ⟨t, ht, hgt⟩ := this
    apply hB (N - m) m (by omega)
    intro s hs hsN
    have := hA t (by omega) hgt (s - t) (by omega)
    rwa [show t + (s - t) = s by omega] at this

/-! ### edge vectors of a point sequence -/

def dX (p : Nat → Pt) (k : Nat) : Rat := (p (k + 1)).x - (p k).x
def dY (p : Nat → Pt) (k : Nat) : Rat := (p (k + 1)).y - (p k).y

/-- `d_i × d_s` -/
def cD (p : Nat → Pt) (i s : Nat) : Rat := dX p i * dY p s - dY p i * dX p s

theorem cD_turn (p : Nat → Pt) (k : Nat) : cD p k (k + 1) = cross (p k) (p (k + 1)) (p (k + 1 + 1)) := by
  unfold cD dX dY cross; ring

theorem cD_antisymm (p : Nat → Pt) (i s : Nat) : cD p i s = - cD p s i := by
  unfold cD; ring

theorem cross_step (p : Nat → Pt) (i j : Nat) :
    cross (p i) (p (i + 1)) (p (j + 1)) = cross (p i) (p (i + 1)) (p j) + cD p i j := by
  unfold cD dX dY cross; ring

theorem sg_cross {sg : Rat} (hsg : sg * sg = 1) (a b c d : Rat) :
    (sg * a) * (sg * d) - (sg * b) * (sg * c) = a * d - b * c := by
  have : (sg * a) * (sg * d) - (sg * b) * (sg * c) = (sg * sg) * (a * d - b * c) := by ring
  rw [this, hsg, one_mul]

theorem sg_cross_opp {sg : Rat} (hsg : sg * sg = 1) (a b c d : Rat) :
    (sg * a) * (-sg * d) - (sg * b) * (-sg * c) = -(a * d - b * c) := by
  have : (sg * a) * (-sg * d) - (sg * b) * (-sg * c) = -((sg * sg) * (a * d - b * c)) := by ring
  rw [this, hsg, one_mul]

theorem sg_neg {sg : Rat} (hsg : sg * sg = 1) : (-sg) * (-sg) = 1 := by
  rw [neg_mul_neg]; exact hsg

/-- inside one run (all edge vectors in the half-plane `sg · HP`) a later edge is strictly
counter-clockwise of an earlier one -/
theorem same_run_pos (p : Nat → Pt) (sg : Rat) (hsg : sg * sg = 1) (lo hi : Nat)
    (hrun : ∀ k, lo ≤ k → k < hi → HP (sg * dX p k) (sg * dY p k))
    (hturn : ∀ k, 0 < cD p k (k + 1)) :
    ∀ s i, lo ≤ i → i < s → s < hi → 0 < cD p i s := by
  intro s
  induction s with
  | zero => intro i _ h _; omega
  | succ s ih =>
    intro i hlo his hshi
    by_cases hi' : i = s
    · subst hi'; exact hturn i
    · have h1 := ih i hlo (by omega) (by omega)
      have h2 := hturn s
      have key := hp_trans_pos_right (hrun i hlo (by omega)) (hrun s (by omega) (by omega))
        (hrun (s + 1) (by omega) hshi)
        (by rw [sg_cross hsg]; exact le_of_lt h1) (by rw [sg_cross hsg]; exact h2)
      rw [sg_cross hsg] at key
      exact key

/-- across the two runs: seen from an edge `i` of one run, the sign of `d_i × d_s` can only go
from positive to non-positive along the opposite run -/
theorem opp_run_mono (p : Nat → Pt) (sg : Rat) (hsg : sg * sg = 1) (i s : Nat)
    (hi : HP (sg * dX p i) (sg * dY p i))
    (hs : HP (-sg * dX p s) (-sg * dY p s)) (hs1 : HP (-sg * dX p (s + 1)) (-sg * dY p (s + 1)))
    (hturn : 0 < cD p s (s + 1)) (h : cD p i s ≤ 0) : cD p i (s + 1) < 0 := by
  have key := hp_trans_pos_right hi hs hs1
    (by rw [sg_cross_opp hsg]; unfold cD at h; linarith)
    (by rw [sg_cross (sg_neg hsg)]; exact hturn)
  rw [sg_cross_opp hsg] at key
  unfold cD; linarith

theorem dX_per (p : Nat → Pt) (n : Nat) (hper : ∀ k, p (k + n) = p k) (k : Nat) :
    dX p (k + n) = dX p k := by
  unfold dX
  rw [show k + n + 1 = k + 1 + n by omega, hper, hper]

theorem dY_per (p : Nat → Pt) (n : Nat) (hper : ∀ k, p (k + n) = p k) (k : Nat) :
    dY p (k + n) = dY p k := by
  unfold dY
  rw [show k + n + 1 = k + 1 + n by omega, hper, hper]

theorem cD_per_right (p : Nat → Pt) (n : Nat) (hper : ∀ k, p (k + n) = p k) (i k : Nat) :
    cD p i (k + n) = cD p i k := by
  unfold cD; rw [dX_per p n hper, dY_per p n hper]

/-- **two runs, edge in the first run**: every vertex reached going once around from the edge
`i → i + 1` is left of or on it -/
theorem two_runs_left (p : Nat → Pt) (n b : Nat) (sg : Rat) (hsg : sg * sg = 1)
    (hbn : b < n) (hper : ∀ k, p (k + n) = p k)
    (hturn : ∀ k, 0 < cD p k (k + 1))
    (h1 : ∀ k, k < b → HP (sg * dX p k) (sg * dY p k))
    (h2 : ∀ k, b ≤ k → k < n → HP (-sg * dX p k) (-sg * dY p k)) :
    ∀ i, i < b → ∀ m, m ≤ n - 1 → 0 ≤ cross (p i) (p (i + 1)) (p (i + 1 + m)) := by
  intro i hi
  have hrun1 : ∀ k, 0 ≤ k → k < b → HP (sg * dX p k) (sg * dY p k) := fun k _ hk => h1 k hk
  apply unimodal_nonneg (fun m => cross (p i) (p (i + 1)) (p (i + 1 + m))) (fun m => cD p i (i + 1 + m))
    (n - 1)
  · show cross (p i) (p (i + 1)) (p (i + 1 + 0)) = 0
    rw [Nat.add_zero, cross_self_right]
  · show cross (p i) (p (i + 1)) (p (i + 1 + (n - 1))) = 0
    rw [show i + 1 + (n - 1) = i + n by omega, hper, cross_self_outer]
  · intro m _
    exact cross_step p i (i + 1 + m)
  · intro m hm hg
    show cD p i (i + 1 + (m + 1)) ≤ 0
    have hg' : cD p i (i + 1 + m) ≤ 0 := hg
    by_cases hsb : i + 1 + m < b
    · have := same_run_pos p sg hsg 0 b hrun1 hturn (i + 1 + m) i (Nat.zero_le _) (by omega) hsb
      linarith
    · by_cases hsn : i + 1 + m + 1 < n
      · exact le_of_lt (opp_run_mono p sg hsg i (i + 1 + m) (h1 i hi) (h2 _ (by omega) (by omega))
          (h2 _ (by omega) hsn) (hturn _) hg')
      · have hj : i + 1 + (m + 1) = (i + 1 + (m + 1) - n) + n := by omega
        rw [hj, cD_per_right p n hper]
        have := same_run_pos p sg hsg 0 b hrun1 hturn i (i + 1 + (m + 1) - n) (Nat.zero_le _)
          (by omega) hi
        rw [cD_antisymm]
        linarith

theorem per_mul (p : Nat → Pt) (n : Nat) (hper : ∀ k, p (k + n) = p k) (k t : Nat) :
    p (k + n * t) = p k := by
  induction t with
  | zero => simp
  | succ t ih => rw [Nat.mul_succ, ← Nat.add_assoc, hper, ih]

theorem per_mod (p : Nat → Pt) (n : Nat) (hper : ∀ k, p (k + n) = p k) (k : Nat) :
    p (k % n) = p k := by
  have := per_mul p n hper (k % n) (k / n)
  rw [Nat.mod_add_div] at this
  exact this.symm

/-- … and every vertex at all -/
theorem two_runs_left_all (p : Nat → Pt) (n b : Nat) (sg : Rat) (hsg : sg * sg = 1)
    (hbn : b < n) (hper : ∀ k, p (k + n) = p k)
    (hturn : ∀ k, 0 < cD p k (k + 1))
    (h1 : ∀ k, k < b → HP (sg * dX p k) (sg * dY p k))
    (h2 : ∀ k, b ≤ k → k < n → HP (-sg * dX p k) (-sg * dY p k)) :
    ∀ i, i < b → ∀ j, 0 ≤ cross (p i) (p (i + 1)) (p j) := by
  intro i hi j
  have hn : 0 < n := by omega
  have hj := Nat.mod_lt j hn
  have key := two_runs_left p n b sg hsg hbn hper hturn h1 h2 i hi
  rw [← per_mod p n hper j]
  by_cases hc : i + 1 ≤ j % n
  · have := key (j % n - (i + 1)) (by omega)
    rwa [show i + 1 + (j % n - (i + 1)) = j % n by omega] at this
  · have := key (j % n + n - (i + 1)) (by omega)
    rwa [show i + 1 + (j % n + n - (i + 1)) = j % n + n by omega, hper] at this

theorem dX_shift (p : Nat → Pt) (b k : Nat) : dX (fun k => p (k + b)) k = dX p (k + b) := by
  unfold dX
  show (p (k + 1 + b)).x - (p (k + b)).x = _
  rw [show k + 1 + b = k + b + 1 by omega]

theorem dY_shift (p : Nat → Pt) (b k : Nat) : dY (fun k => p (k + b)) k = dY p (k + b) := by
  unfold dY
  show (p (k + 1 + b)).y - (p (k + b)).y = _
  rw [show k + 1 + b = k + b + 1 by omega]

/-- **a closed polygon with left turns whose edges form two lexicographically monotone runs is
convex**: every vertex is left of or on every edge. `[0, b)` is one run (edge vectors in
`sg · HP`), `[b, n)` the other (edge vectors in `-sg · HP`). -/
theorem two_runs_convex (p : Nat → Pt) (n b : Nat) (sg : Rat) (hsg : sg * sg = 1)
    (hb0 : 0 < b) (hbn : b < n) (hper : ∀ k, p (k + n) = p k)
    (hturn : ∀ k, 0 < cD p k (k + 1))
    (h1 : ∀ k, k < b → HP (sg * dX p k) (sg * dY p k))
    (h2 : ∀ k, b ≤ k → k < n → HP (-sg * dX p k) (-sg * dY p k)) :
    ∀ i j, 0 ≤ cross (p i) (p (i + 1)) (p j) := by
  have hn : 0 < n := by omega
  -- reduce to `i < n`
  suffices hmain : ∀ i, i < n → ∀ j, 0 ≤ cross (p i) (p (i + 1)) (p j) by
    intro i j
    have h := hmain (i % n) (Nat.mod_lt i hn) j
    have e1 : p (i % n + 1) = p (i + 1) := by
      have := per_mul p n hper (i % n + 1) (i / n)
      rw [show i % n + 1 + n * (i / n) = i % n + n * (i / n) + 1 by omega, Nat.mod_add_div] at this
      exact this.symm
    rwa [per_mod p n hper i, e1] at h
  intro i hi j
  by_cases hib : i < b
  · exact two_runs_left_all p n b sg hsg hbn hper hturn h1 h2 i hib j
  · -- shift by `b`: the second run comes first
    let q : Nat → Pt := fun k => p (k + b)
    have hperq : ∀ k, q (k + n) = q k := by
      intro k
      show p (k + n + b) = p (k + b)
      rw [show k + n + b = k + b + n by omega, hper]
    have hturnq : ∀ k, 0 < cD q k (k + 1) := by
      intro k
      have := hturn (k + b)
      unfold cD at this ⊢
      rw [dX_shift, dY_shift, dX_shift, dY_shift, show k + 1 + b = k + b + 1 by omega]
      exact this
    have h1q : ∀ k, k < n - b → HP (-sg * dX q k) (-sg * dY q k) := by
      intro k hk
      rw [dX_shift, dY_shift]
      exact h2 (k + b) (by omega) (by omega)
    have h2q : ∀ k, n - b ≤ k → k < n → HP (-(-sg) * dX q k) (-(-sg) * dY q k) := by
      intro k hk hkn
      rw [dX_shift, dY_shift, neg_neg, show k + b = (k + b - n) + n by omega, dX_per p n hper,
        dY_per p n hper]
      exact h1 _ (by omega)
    have := two_runs_left_all q n (n - b) (-sg) (sg_neg hsg) (by omega) hperq hturnq h1q h2q (i - b)
      (by omega) (j + (n - b))
    have e0 : q (i - b) = p i := by show p (i - b + b) = p i; rw [show i - b + b = i by omega]
    have e1 : q (i - b + 1) = p (i + 1) := by
      show p (i - b + 1 + b) = p (i + 1); rw [show i - b + 1 + b = i + 1 by omega]
    have e2 : q (j + (n - b)) = p j := by
      show p (j + (n - b) + b) = p j; rw [show j + (n - b) + b = j + n by omega, hper]
    rwa [e0, e1, e2] at this

end Geo.Proofs.C08
