/-
  C08 helper lemmas (Graham scan, global correctness) — the pivot, the output ring, assembly.
-/
import GeoModel.Hull
import GeoProofs.Lemmas.C08Mem
import GeoProofs.Lemmas.C08QScan
import Mathlib.Tactic.Linarith
import Mathlib.Tactic.Ring

namespace Geo.Proofs.C08
open Geo Geo.Hull
open scoped List

/-! ### the pivot: `least_index` + `swap_with_first_and_remove` -/

theorem leastIndexGo_spec : ∀ (l : List Pt) (i bi : Nat) (b : Pt),
    ∃ m, ((leastIndexGo l i bi b = bi ∧ m = b) ∨
          (∃ k, leastIndexGo l i bi b = i + k ∧ l[k]? = some m)) ∧
      (m = b ∨ lexLt m b = true) ∧ ∀ q ∈ l, ¬ lexLt q m = true := by
  intro l
  induction l with
  | nil => intro i bi b; exact ⟨b, Or.inl ⟨rfl, rfl⟩, Or.inl rfl, by simp⟩
  | cons q t ih =>
    intro i bi b
    simp only [leastIndexGo]
    by_cases hq : lexLt q b = true
    · rw [if_pos hq]
      obtain ⟨m, hidx, hmb, hall⟩ := ih (i + 1) i q
      refine ⟨m, Or.inr ?_, ?_, ?_⟩
      · rcases hidx with ⟨h1, h2⟩ | ⟨k, h1, h2⟩
        · exact ⟨0, by rw [h1]; rfl, by rw [h2]; rfl⟩
        · exact ⟨k + 1, by rw [h1]; omega, by simpa using h2⟩
      · rcases hmb with h | h
        · right; rw [h]; exact hq
        · right; exact lexLt_trans h hq
      · intro x hx
        rcases List.mem_cons.1 hx with hx | hx
        · subst hx
          rcases hmb with h | h
          · rw [h]; exact lexLt_irrefl _
          · exact lexLt_asymm h
        · exact hall x hx
    · rw [if_neg hq]
      obtain ⟨m, hidx, hmb, hall⟩ := ih (i + 1) bi b
      refine ⟨m, ?_, hmb, ?_⟩
      · rcases hidx with ⟨h1, h2⟩ | ⟨k, h1, h2⟩
        · exact Or.inl ⟨h1, h2⟩
        · exact Or.inr ⟨k + 1, by rw [h1]; omega, by simpa using h2⟩
      · intro x hx
        rcases List.mem_cons.1 hx with hx | hx
        · subst hx
          rcases hmb with h | h
          · rw [h]; exact hq
          · exact fun hxm => hq (lexLt_trans hxm h)
        · exact hall x hx

/-- the pivot taken by `graham_hull` is lexicographically least -/
theorem pivot_least (pts : List Pt) :
    ∀ q ∈ pts, ¬ lexLt q (swapRemove pts (leastIndex pts)).1 = true := by
  cases pts with
  | nil => simp
  | cons p t =>
    obtain ⟨m, hidx, hmb, hall⟩ := leastIndexGo_spec t 1 0 p
    have hm : (swapRemove (p :: t) (leastIndex (p :: t))).1 = m := by
      have hli : leastIndex (p :: t) = leastIndexGo t 1 0 p := rfl
      rw [hli]
      simp only [swapRemove]
      rcases hidx with ⟨h1, h2⟩ | ⟨k, h1, h2⟩
      · rw [if_pos h1]; exact h2.symm
      · rw [if_neg (by omega)]
        have : leastIndexGo t 1 0 p - 1 = k := by omega
        simp only [this, List.getD_eq_getElem?_getD, h2, Option.getD_some]
    rw [hm]
    intro q hq
    rcases List.mem_cons.1 hq with hq | hq
    · subst hq
      rcases hmb with h | h
      · rw [h]; exact lexLt_irrefl _
      · exact lexLt_asymm h
    · exact hall q hq

/-- `swap_with_first_and_remove` loses no coordinate -/
theorem swapRemove_cover (l : List Pt) (idx : Nat) :
    ∀ q ∈ l, q = (swapRemove l idx).1 ∨ q ∈ (swapRemove l idx).2 := by
  intro q hq
  cases l with
  | nil => simp at hq
  | cons h t =>
    simp only [swapRemove]
    split
    · rcases List.mem_cons.1 hq with hq | hq
      · exact Or.inl hq
      · exact Or.inr hq
    · by_cases hlt : idx - 1 < t.length
      · rcases List.mem_cons.1 hq with hq | hq
        · right; subst hq
          exact List.mem_iff_getElem.2 ⟨idx - 1, by simpa using hlt, by simp⟩
        · obtain ⟨j, hj, hjq⟩ := List.mem_iff_getElem.1 hq
          by_cases hji : j = idx - 1
          · left
            subst hji
            simp [List.getD_eq_getElem?_getD, hj, hjq]
          · right
            refine List.mem_iff_getElem.2 ⟨j, by simpa using hj, ?_⟩
            rw [List.getElem_set_ne (Ne.symm hji)]
            exact hjq
      · have hge : t.length ≤ idx - 1 := not_lt.1 hlt
        rw [List.set_eq_of_length_le hge]
        rcases List.mem_cons.1 hq with hq | hq
        · left; subst hq
          simp [List.getD_eq_getElem?_getD, List.getElem?_eq_none hge]
        · exact Or.inr hq

/-! ### edges and turns of the output ring -/

/-- every ordered triple of the list (as a subsequence) turns strictly left -/
def TriB (L : List Pt) : Prop := ∀ a b c, [a, b, c] <+ L → 0 < cross a b c

theorem triB_of_upOk {o : Pt} {up : List Pt} (h : UpOk o up) : TriB (o :: up.reverse) := by
  intro a b c habc
  rcases List.sublist_cons_iff.1 habc with h' | ⟨r, hr, h'⟩
  · have : [c, b, a] <+ up := by
      have := List.reverse_sublist.2 h'
      simpa using this
    exact h.tri c b a this
  · injection hr with h1 h2
    subst h1 h2
    have : [c, b] <+ up := by
      have := List.reverse_sublist.2 h'
      simpa using this
    exact h.pair c b this

theorem mem_edges_split : ∀ (L : List Pt) (e : Pt × Pt), e ∈ edges L →
    ∃ L1 L2, L = L1 ++ e.1 :: e.2 :: L2
  | [], e, h => by simp [edges] at h
  | [_], e, h => by simp [edges] at h
  | a :: b :: t, e, h => by
    simp only [edges, List.mem_cons] at h
    rcases h with h | h
    · subst h; exact ⟨[], t, rfl⟩
    · obtain ⟨L1, L2, hL⟩ := mem_edges_split (b :: t) e h
      exact ⟨a :: L1, L2, by rw [hL]; rfl⟩

theorem edges_snoc : ∀ (L : List Pt) (x : Pt) (e : Pt × Pt), e ∈ edges (L ++ [x]) →
    e ∈ edges L ∨ ∃ z, L.getLast? = some z ∧ e = (z, x)
  | [], x, e, h => by simp [edges] at h
  | [a], x, e, h => by
    simp only [List.cons_append, List.nil_append, edges, List.mem_cons, List.not_mem_nil, or_false] at h
    exact Or.inr ⟨a, rfl, h⟩
  | a :: b :: t, x, e, h => by
    simp only [List.cons_append, edges, List.mem_cons] at h
    rcases h with h | h
    · left; simp only [edges, List.mem_cons]; exact Or.inl h
    · rcases edges_snoc (b :: t) x e (by simpa using h) with h' | ⟨z, hz, he⟩
      · left; simp only [edges, List.mem_cons]; exact Or.inr h'
      · right; exact ⟨z, by simpa using hz, he⟩

/-- in strictly convex position every vertex is left of or on every edge of the open chain -/
theorem triB_edge {L : List Pt} (h : TriB L) (e : Pt × Pt) (he : e ∈ edges L) :
    ∀ s ∈ L, 0 ≤ cross e.1 e.2 s := by
  obtain ⟨L1, L2, hL⟩ := mem_edges_split L e he
  intro s hs
  rw [hL] at hs
  rcases List.mem_append.1 hs with hs | hs
  · have hsub : [s, e.1, e.2] <+ L := by
      rw [hL]
      exact (List.singleton_sublist.2 hs).append
        (((List.nil_sublist L2).cons_cons e.2).cons_cons e.1)
    have := h _ _ _ hsub
    rw [cross_cyc] at this
    exact le_of_lt this
  · rcases List.mem_cons.1 hs with hs | hs
    · subst hs; rw [cross_self_outer]
    · rcases List.mem_cons.1 hs with hs | hs
      · subst hs; rw [cross_self_right]
      · have hsub : [e.1, e.2, s] <+ L := by
          rw [hL]
          exact (((List.singleton_sublist.2 hs).cons_cons e.2).cons_cons e.1).trans
            (List.sublist_append_right _ _)
        exact le_of_lt (h _ _ _ hsub)

/-- … and of the closing edge back to the first vertex -/
theorem triB_closing {o z : Pt} {M : List Pt} (h : TriB (o :: (M ++ [z]))) :
    ∀ s ∈ o :: (M ++ [z]), 0 ≤ cross z o s := by
  intro s hs
  rcases List.mem_cons.1 hs with hs | hs
  · subst hs; rw [cross_self_right]
  · rcases List.mem_append.1 hs with hs | hs
    · have hsub : [o, s, z] <+ o :: (M ++ [z]) :=
        ((List.singleton_sublist.2 hs).append (List.Sublist.refl [z])).cons_cons o
      have := h _ _ _ hsub
      rw [cross_cyc, cross_cyc] at this
      exact le_of_lt this
    · simp at hs; subst hs; rw [cross_self_outer]

theorem triplesCcw_of_triB : ∀ L : List Pt, TriB L → triplesCcw L = true
  | [], _ => rfl
  | [_], _ => rfl
  | [_, _], _ => rfl
  | a :: b :: c :: t, h => by
    simp only [triplesCcw, Bool.and_eq_true, beq_iff_eq]
    refine ⟨(orient_ccw_iff' _ _ _).2 (h a b c (by simp)), ?_⟩
    exact triplesCcw_of_triB (b :: c :: t) (fun x y z hs => h x y z (hs.cons a))

theorem triplesCcw_snoc (a b c : Pt) (hc : 0 < cross a b c) : ∀ X : List Pt,
    triplesCcw (X ++ [a, b]) = true → triplesCcw (X ++ [a, b, c]) = true := by
  intro X
  induction X with
  | nil =>
    intro _
    simp only [List.nil_append, triplesCcw, Bool.and_eq_true, beq_iff_eq, and_true]
    exact (orient_ccw_iff' _ _ _).2 hc
  | cons x T ih =>
    intro h
    cases T with
    | nil =>
      simp only [List.cons_append, List.nil_append, triplesCcw, Bool.and_eq_true, beq_iff_eq,
        and_true] at h ⊢
      exact ⟨h, (orient_ccw_iff' _ _ _).2 hc⟩
    | cons y T' =>
      cases T' with
      | nil =>
        simp only [List.cons_append, List.nil_append, triplesCcw, Bool.and_eq_true, beq_iff_eq,
          and_true] at h ⊢
        exact ⟨h.1, h.2, (orient_ccw_iff' _ _ _).2 hc⟩
      | cons w T'' =>
        simp only [List.cons_append, triplesCcw, Bool.and_eq_true, beq_iff_eq] at h ⊢
        refine ⟨h.1, ?_⟩
        have := ih (by simpa using h.2)
        simpa using this

/-! ### degenerate outcomes: a stack of at most two points means collinear input -/

theorem inside_point {o q : Pt} (h : Inside [o] q) : q = o := by
  have h1 := h o ⟨o.x, o.y + 1⟩ (by intro s hs; simp at hs; subst hs; unfold cross; simp)
  have h2 := h ⟨o.x, o.y + 1⟩ o (by intro s hs; simp at hs; subst hs; unfold cross; simp)
  have h3 := h o ⟨o.x + 1, o.y⟩ (by intro s hs; simp at hs; subst hs; unfold cross; simp)
  have h4 := h ⟨o.x + 1, o.y⟩ o (by intro s hs; simp at hs; subst hs; unfold cross; simp)
  unfold cross at h1 h2 h3 h4
  simp at h1 h2 h3 h4
  cases q; cases o
  simp only [Pt.mk.injEq] at *
  constructor <;> linarith

theorem inside_pair {o s q : Pt} (h : Inside [s, o] q) : cross o s q = 0 := by
  have h1 := h o s (by
    intro x hx; simp at hx
    rcases hx with hx | hx <;> subst hx
    · rw [cross_self_right]
    · rw [cross_self_outer])
  have h2 := h s o (by
    intro x hx; simp at hx
    rcases hx with hx | hx <;> subst hx
    · rw [cross_self_outer]
    · rw [cross_self_right])
  have : cross s o q = - cross o s q := by unfold cross; ring
  linarith

theorem collinear_of_line {o s a b c : Pt} (hs : InH o s) (ha : cross o s a = 0)
    (hb : cross o s b = 0) (hc : cross o s c = 0) : cross a b c = 0 := by
  have hpos := dist2_pos hs
  have key : dist2 o s * cross a b c =
      ((s.x - o.x) * (a.x - o.x) + (s.y - o.y) * (a.y - o.y)) * cross o s b
      - ((s.x - o.x) * (b.x - o.x) + (s.y - o.y) * (b.y - o.y)) * cross o s a
      + ((s.x - o.x) * (b.x - o.x) + (s.y - o.y) * (b.y - o.y)) * cross o s c
      - ((s.x - o.x) * (c.x - o.x) + (s.y - o.y) * (c.y - o.y)) * cross o s b
      - ((s.x - o.x) * (a.x - o.x) + (s.y - o.y) * (a.y - o.y)) * cross o s c
      + ((s.x - o.x) * (c.x - o.x) + (s.y - o.y) * (c.y - o.y)) * cross o s a := by
    unfold dist2 cross; ring
  rw [ha, hb, hc] at key
  simp only [mul_zero, sub_zero, add_zero] at key
  rcases mul_eq_zero.1 key with h | h
  · linarith
  · exact h

theorem hasTriangle_witness {pts : List Pt} (h : hasTriangle pts = true) :
    ∃ a ∈ pts, ∃ b ∈ pts, ∃ c ∈ pts, cross a b c ≠ 0 := by
  unfold hasTriangle at h
  simp only [List.any_eq_true, bne_iff_ne, ne_eq] at h
  obtain ⟨a, ha, b, hb, c, hc, hne⟩ := h
  exact ⟨a, ha, b, hb, c, hc, hne⟩

/-! ### assembly -/

/-- **Graham scan, global correctness on a sorted list.** For a pivot `o` and a list `l` of points
equal to or lexicographically greater than `o`, sorted around `o`, containing three non-collinear
points together with `o`: the closed ring built from the stack pass is accepted by the checker
`isStrictHull` for the coordinates `o :: l`. -/
theorem graham_scan_correct {o : Pt} {l pts : List Pt} (hH : ∀ x ∈ l, InH0 o x)
    (hs : SortedAround o l) (hcov : ∀ q ∈ pts, q = o ∨ q ∈ l) (ht : hasTriangle pts = true) :
    ∃ z y rest, l.foldl (grahamStep false) [o] = z :: y :: rest ++ [o] ∧
      UpOk o (z :: y :: rest) ∧
      (∀ q ∈ pts, Inside (z :: y :: rest ++ [o]) q) := by
  obtain ⟨upF, hfold, hok, _, hall⟩ := grahamFold_main l [] (hs.pairwise hH) hH (UpOk.nil o)
    (by simp)
  have hins : ∀ q ∈ pts, Inside (upF ++ [o]) q := by
    intro q hq
    rcases hcov q hq with h | h
    · subst h; exact Inside.of_mem (by simp)
    · exact hall q h
  obtain ⟨a, ha, b, hb, c, hc, hne⟩ := hasTriangle_witness ht
  cases upF with
  | nil =>
    exfalso
    have ea := inside_point (hins a ha)
    have eb := inside_point (hins b hb)
    have ec := inside_point (hins c hc)
    subst ea eb ec
    exact hne (cross_self_left _ _)
  | cons z up' =>
    cases up' with
    | nil =>
      exfalso
      exact hne (collinear_of_line (hok.inH z (by simp)) (inside_pair (hins a ha))
        (inside_pair (hins b hb)) (inside_pair (hins c hc)))
    | cons y rest =>
      exact ⟨z, y, rest, hfold, hok, hins⟩

/-- the ring `o, …, y, z, o` of a final stack `z :: y :: rest ++ [o]` in strictly convex position
containing all coordinates passes the checker -/
theorem ring_isStrictHull {o z y : Pt} {rest pts : List Pt} (hok : UpOk o (z :: y :: rest))
    (hins : ∀ q ∈ pts, Inside (z :: y :: rest ++ [o]) q)
    (hsub : ∀ v ∈ z :: y :: rest ++ [o], v ∈ pts) :
    isStrictHull (close ((z :: y :: rest ++ [o]).reverse)) pts = true := by
  have hrev : (z :: y :: rest ++ [o]).reverse = o :: (rest.reverse ++ [y] ++ [z]) := by simp
  have hzo : z ≠ o := (hok.inH z (by simp)).ne
  have hclose : close ((z :: y :: rest ++ [o]).reverse) = (o :: (rest.reverse ++ [y] ++ [z])) ++ [o] := by
    rw [hrev]
    simp only [close]
    rw [if_neg]
    simp only [List.cons_append, List.append_assoc]
    intro h
    rw [List.getLast?_cons, List.getLast?_append] at h
    simp at h
    exact hzo h
  have htri : TriB (o :: (rest.reverse ++ [y] ++ [z])) := by
    have := triB_of_upOk hok
    simpa using this
  rw [hclose]
  unfold isStrictHull
  simp only [Bool.and_eq_true, List.all_eq_true, List.contains_eq_mem, decide_eq_true_eq, beq_iff_eq]
  refine ⟨⟨⟨⟨?_, ?_⟩, ?_⟩, ?_⟩, ?_⟩
  · simp
  · rw [List.getLast?_concat]; rfl
  · -- turns
    rw [List.dropLast_concat]
    unfold cycTriplesCcw
    simp only [Bool.and_eq_true, decide_eq_true_eq]
    refine ⟨by simp, ?_⟩
    obtain ⟨b1, M, hM⟩ : ∃ b1 M, rest.reverse ++ [y] = b1 :: M := by
      cases rest.reverse <;> simp
    have hb1 : b1 ∈ y :: rest := by
      have : b1 ∈ rest.reverse ++ [y] := by rw [hM]; simp
      simp at this ⊢; tauto
    have h0 : triplesCcw ((o :: rest.reverse) ++ [y, z]) = true := by
      have := triplesCcw_of_triB _ htri
      simpa using this
    have c1 : 0 < cross y z o := by
      rw [← cross_cyc]; exact hok.pair z y (by simp)
    have h1 := triplesCcw_snoc y z o c1 _ h0
    have h1' : triplesCcw ((o :: (rest.reverse ++ [y])) ++ [z, o]) = true := by simpa using h1
    have c2 : 0 < cross z o b1 := by
      rw [← cross_cyc, ← cross_cyc]
      exact hok.pair z b1 ((List.singleton_sublist.2 hb1).cons_cons z)
    have h2 := triplesCcw_snoc z o b1 c2 _ h1'
    have heq : (o :: (rest.reverse ++ [y] ++ [z])) ++ List.take 2 (o :: (rest.reverse ++ [y] ++ [z]))
        = (o :: (rest.reverse ++ [y])) ++ [z, o, b1] := by
      rw [hM]; simp
    rw [heq]; exact h2
  · intro v hv
    apply hsub
    have : v ∈ (z :: y :: rest ++ [o]).reverse ∨ v = o := by
      rw [hrev]
      rcases List.mem_append.1 hv with h | h
      · exact Or.inl h
      · simp at h; exact Or.inr h
    rcases this with h | h
    · exact List.mem_reverse.1 h
    · subst h; simp
  · intro p hp e he
    apply hins p hp
    intro s hs
    have hs' : s ∈ o :: (rest.reverse ++ [y] ++ [z]) := by
      rw [← hrev]; exact List.mem_reverse.2 hs
    rcases edges_snoc _ _ _ he with h | ⟨z', hz', hez⟩
    · exact triB_edge htri e h s hs'
    · have : z' = z := by
        rw [List.getLast?_cons, List.getLast?_append] at hz'
        simp at hz'; exact hz'.symm
      subst this
      rw [hez]
      have := triB_closing (M := rest.reverse ++ [y]) htri s hs'
      exact this

/-- **`graham_hull(.., false)` for four or more coordinates** is accepted by the checker, when the
rounded distances order the points collinear with the pivot like the exact distances -/
theorem grahamHull_correct_of_distExact (rnd : Rat → Rat) (pts : List Pt) (h4 : ¬ pts.length < 4)
    (ht : hasTriangle pts = true)
    (hd : DistExact rnd (swapRemove pts (leastIndex pts)).1 (swapRemove pts (leastIndex pts)).2) :
    isStrictHull (grahamHull rnd pts false) pts = true := by
  unfold grahamHull
  rw [if_neg h4]
  dsimp only
  have hne : pts ≠ [] := by intro h; simp [h] at h4
  have hmin := pivot_least pts
  have hcov := swapRemove_cover pts (leastIndex pts)
  have hrest := swapRemove_snd_subset pts (leastIndex pts)
  have ho := swapRemove_fst_mem pts (leastIndex pts) hne
  generalize (swapRemove pts (leastIndex pts)).1 = o at *
  generalize (swapRemove pts (leastIndex pts)).2 = rest at *
  have hH : ∀ x ∈ grahamSort rnd o rest, InH0 o x := by
    intro x hx
    rw [grahamSort_mem] at hx
    rcases lexLt_tricho x o (hmin x (hrest x hx)) with h | h
    · exact Or.inl h
    · exact Or.inr ((inH_iff_lexLt o x).2 h)
  have hs := grahamSort_sortedAround rnd o rest hd
  have hcov' : ∀ q ∈ pts, q = o ∨ q ∈ grahamSort rnd o rest := by
    intro q hq
    rcases hcov q hq with h | h
    · exact Or.inl h
    · exact Or.inr ((grahamSort_mem rnd o rest q).2 h)
  obtain ⟨z, y, rest', hfold, hok, hins⟩ := graham_scan_correct hH hs hcov' ht
  have hsub : ∀ v ∈ z :: y :: rest' ++ [o], v ∈ pts := by
    intro v hv
    rw [← hfold] at hv
    rcases grahamFold_subset false _ _ v hv with h | h
    · rw [grahamSort_mem] at h; exact hrest v h
    · simp at h; subst h; exact ho
  rw [hfold]
  exact ring_isStrictHull hok hins hsub

end Geo.Proofs.C08
