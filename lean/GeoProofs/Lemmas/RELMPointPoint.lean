/-
  RELM — `Point × Point`: the model of the implementation returns the specification's matrix, on
  both paths (equal points: graph path; different points: disjoint-envelope shortcut).
-/
import GeoProofs.Lemmas.RELMPoint4
import GeoProofs.Lemmas.C01QPoint

namespace Geo.Proofs.RELM
open Geo Geo.GG Geo.RI Geo.Proofs.Spec

theorem boundingRect_point (p : Pt) : boundingRect (.point p) = some (p, p) := by
  simp [boundingRect, rectNewPts, SM.rectNew]

theorem envelopesMeet_point_point (p q : Pt) : envelopesMeet (.point p) (.point q) = decide (p = q) := by
  unfold envelopesMeet
  rw [boundingRect_point, boundingRect_point]
  simp only [rectRect]
  by_cases h : p = q
  · subst h; simp
  · simp only [h, decide_false]
    have : p.x ≠ q.x ∨ p.y ≠ q.y := by
      by_contra hc
      simp only [not_or, not_not] at hc
      apply h; cases p; cases q; simp_all
    rcases this with hx | hy
    · rcases lt_or_gt_of_ne hx with h1 | h1
      · simp [h1]
      · by_cases h2 : p.y < q.y
        · simp [h2, not_lt.2 (le_of_lt h1)]
        · simp [h2, not_lt.2 (le_of_lt h1), h1]
    · rcases lt_or_gt_of_ne hy with h1 | h1
      · by_cases h2 : p.x < q.x
        · simp [h2]
        · simp [h2, h1]
      · by_cases h2 : p.x < q.x
        · simp [h2]
        · by_cases h3 : p.x > q.x
          · simp [h2, not_lt.2 (le_of_lt h1), h3]
          · simp [h2, not_lt.2 (le_of_lt h1), h3, h1]

/-- graph path for two equal points: `0FFFFFFF2` -/
theorem relateGraph_point_self (ar : Arith) (p : Pt) :
    relateGraph ar (.point p) (.point p) = some ⟨.zero, .empty, .empty, .empty, .empty, .empty, .empty, .empty, .two⟩ := by
  unfold relateGraph relateGraphs
  have hA : freshGraph ar 0 (.point p) = ⟨0, .point p, [⟨p, Label.emptyLine.setOn 0 .inside⟩], true, []⟩ := rfl
  have hB : freshGraph ar 1 (.point p) = ⟨1, .point p, [⟨p, Label.emptyLine.setOn 1 .inside⟩], true, []⟩ := rfl
  rw [hA, hB]
  simp [mutualGraphs, edgeIntersections, allSegs, allSegsFrom, mutualRows, labeledNodes, intersectionNodes,
    sortNodes, insertNodeSorted, copyNodes, upsertR, Label.setOn, Label.set, Label.get, Label.onPos, TopoPos.on,
    Label.emptyLine, TopoPos.emptyLine, TopoPos.setOn, RNode.new, labelIsolatedNode, Label.geometryCount,
    TopoPos.isEmpty, endsForEdges, insertEdgeEnds, labelIsolatedEdges, updateNodes, starLabels,
    propagateSideLabels, startPosition, collapseFlag, nodeUpdateIM, setAtLeastIfBoth, properIM, dims,
    computeDisjoint, IM.set, IM.setAtLeast, IM.get, IM.empty, Dim.rank]

/-- **Point × Point**: the model of the implementation (any arithmetic) returns the
specification's matrix. -/
theorem relateImplWith_point_point (ar : Arith) (p q : Pt) :
    relateImplWith ar (.point p) (.point q) = some (relateSpec (.point p) (.point q)) := by
  unfold relateImplWith
  rw [envelopesMeet_point_point, relateParts_point_point_spec]
  by_cases h : p = q
  · subst h
    simp only [decide_true, if_true, relateGraph_point_self]
  · simp only [h, decide_false, if_false, Bool.false_eq_true]
    rfl
where
  relateParts_point_point_spec : relateSpec (.point p) (.point q) =
      if p = q then ⟨.zero, .empty, .empty, .empty, .empty, .empty, .empty, .empty, .two⟩
      else ⟨.empty, .empty, .zero, .empty, .empty, .empty, .zero, .empty, .two⟩ :=
    Spec.relateParts_point_point p q

end Geo.Proofs.RELM
