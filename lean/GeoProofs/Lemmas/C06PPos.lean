/-
  C06P helper layer 6: when is the final weight non-zero? Every contribution has positive weight
  when lengths of non-degenerate segments are positive, no polygon's holes outweigh its shell and
  rectangles are stored min ≤ max (as `Rect::new` guarantees). Then the accumulated weight is
  positive and the model's division is a real division.
-/
import GeoProofs.Lemmas.C06PPoly

namespace Geo.Proofs.C06
open Geo Geo.Cen

/-- the interiors with area do not outweigh an exterior with area -/
def polyWF (p : Poly) : Prop :=
  twiceAreaText p.ext ≠ 0 →
    sumR ((p.ints.filter (fun h => twiceAreaText h ≠ 0)).map (fun h => rabs (twiceAreaText h / 2))) ≤
      rabs (twiceAreaText p.ext / 2)

mutual
/-- domain on which no weight can cancel: holes do not outweigh shells, rectangles are min ≤ max -/
def WF : Geom → Prop
  | .polygon p => polyWF p
  | .multiPolygon ps => ∀ p ∈ ps, polyWF p
  | .rect mn mx => mn.x ≤ mx.x ∧ mn.y ≤ mx.y
  | .collection gs => WFList gs
  | _ => True
def WFList : List Geom → Prop
  | [] => True
  | g :: gs => WF g ∧ WFList gs
end

theorem exists_mem_mDim (l : List WC) (h : l ≠ []) : ∃ w ∈ l, w.dim = mDim l := by
  induction l with
  | nil => exact absurd rfl h
  | cons a t ih =>
    by_cases ht : t = []
    · subst ht; exact ⟨a, by simp, by simp [mDim]⟩
    · obtain ⟨b, hb, hbd⟩ := ih ht
      by_cases hle : mDim t ≤ a.dim
      · exact ⟨a, by simp, by simp only [mDim]; omega⟩
      · exact ⟨b, by simp [hb], by simp only [mDim]; omega⟩

/-- the summary of positively weighted contributions has positive weight -/
theorem dominant_weight_pos (l : List WC) (hl : ∀ w ∈ l, 0 < w.weight) (e : WC) (h : dominant l = some e) :
    0 < e.weight := by
  obtain ⟨hne, rfl⟩ := (dominant_some_iff l e).1 h
  show 0 < wSum (mDim l) l
  rw [wSum_eq_filter]
  apply sumR_pos_of_pos
  · obtain ⟨w, hw, hd⟩ := exists_mem_mDim l hne
    intro h0
    have : w ∈ l.filter (fun c => c.dim = mDim l) := List.mem_filter.2 ⟨hw, by simpa using hd⟩
    rw [h0] at this; simp at this
  · intro x hx; exact hl x (List.mem_filter.1 hx).1

theorem coordC_pos (c : Pt) : 0 < (coordC c).weight := by simp [coordC]

theorem lineC_pos (len : Pt → Pt → Rat) (hpos : ∀ a b, a ≠ b → 0 < len a b) (a b : Pt) :
    0 < (lineC len a b).weight := by
  unfold lineC
  by_cases h : a = b
  · rw [if_pos h]; exact coordC_pos a
  · rw [if_neg h]; exact hpos a b h

theorem lineStringC_pos (len : Pt → Pt → Rat) (hpos : ∀ a b, a ≠ b → 0 < len a b) (cs : List Pt) :
    ∀ w ∈ lineStringC len cs, 0 < w.weight := by
  intro w hw
  unfold lineStringC at hw
  split at hw
  · simp at hw; subst hw; exact coordC_pos _
  · rcases List.mem_map.1 hw with ⟨l, _, rfl⟩
    exact lineC_pos len hpos _ _

theorem ringC_pos (len : Pt → Pt → Rat) (hpos : ∀ a b, a ≠ b → 0 < len a b) (r : List Pt) :
    ∀ w ∈ ringC len r, 0 < w.weight := by
  intro w hw
  by_cases h : twiceAreaText r = 0
  · have hA : ringArea r = 0 := by rw [ringArea_eq_text, h]; simp
    unfold ringC at hw
    rw [if_pos hA] at hw
    split at hw
    · simp at hw
    · split at hw
      · simp at hw; subst hw; exact coordC_pos _
      · simp at hw
    · exact lineStringC_pos len hpos r w hw
  · rw [ringC_area len r h] at hw
    simp at hw; subst hw
    show 0 < rabs (twiceAreaText r / 2)
    apply rabs_pos
    intro h0; apply h; linarith

theorem intC_pos (len : Pt → Pt → Rat) (hpos : ∀ a b, a ≠ b → 0 < len a b) (rs : List (List Pt)) :
    ∀ w ∈ intC len rs, 0 < w.weight := by
  intro w hw
  simp only [intC, List.mem_flatten, List.mem_map] at hw
  obtain ⟨_, ⟨r, _, rfl⟩, hwr⟩ := hw
  exact ringC_pos len hpos r w hwr

theorem polyC_pos (len : Pt → Pt → Rat) (hpos : ∀ a b, a ≠ b → 0 < len a b) (p : Poly) (hp : polyWF p) :
    ∀ w ∈ polyC len p, 0 < w.weight := by
  intro w hw
  unfold polyC at hw
  rw [addRing_eq, foldWC_none, foldl_addRing_eq, foldWC_none] at hw
  change w ∈ (match dominant (ringC len p.ext) with
    | none => []
    | some e =>
      match dominant (intC len p.ints) with
      | some i =>
        if i.dim = 3 then
          (if (e.subAssign i).weight = 0 then lineStringC len p.ext else [e.subAssign i])
        else [e]
      | none => [e]) at hw
  cases he : dominant (ringC len p.ext) with
  | none => rw [he] at hw; simp at hw
  | some e =>
    rw [he] at hw
    have hepos : 0 < e.weight := dominant_weight_pos _ (ringC_pos len hpos p.ext) e he
    cases hi : dominant (intC len p.ints) with
    | none => rw [hi] at hw; simp at hw; subst hw; exact hepos
    | some i =>
      rw [hi] at hw
      simp only at hw
      have hipos : 0 < i.weight := dominant_weight_pos _ (intC_pos len hpos p.ints) i hi
      by_cases h3 : i.dim = 3
      · rw [if_pos h3] at hw
        by_cases h0 : (e.subAssign i).weight = 0
        · rw [if_pos h0] at hw; exact lineStringC_pos len hpos p.ext w hw
        · rw [if_neg h0] at hw
          simp at hw; subst hw
          by_cases h1 : e.dim < i.dim
          · have : e.subAssign i = i := by simp [WC.subAssign, h1]
            rw [this]; exact hipos
          · by_cases h2 : i.dim < e.dim
            · have : e.subAssign i = e := by simp [WC.subAssign, h1, h2]
              rw [this]; exact hepos
            · have hsub : e.subAssign i = ⟨e.dim, e.weight - i.weight, e.acc - i.acc⟩ := by
                simp [WC.subAssign, h1, h2]
              rw [hsub] at h0 ⊢
              have hed : e.dim = 3 := by omega
              -- the exterior has area, the interior weight is the total hole area
              have hA : twiceAreaText p.ext ≠ 0 := by
                intro hA0
                have h1' := ((dominant_some_iff _ e).1 he).2
                have h2' := mDim_le 2 _ (ringC_flat_dim_le len p.ext hA0)
                rw [h1'] at hed
                have : mDim (ringC len p.ext) = 3 := hed
                omega
              have heq : e = (areaAtom p.ext).toWC := by
                have := he
                rw [ringC_area len p.ext hA, dominant_singleton] at this
                exact (Option.some.inj this).symm
              have hival := ((dominant_some_iff _ i).1 hi).2
              have hH3 : mDim (intC len p.ints) = 3 := by
                rw [hival] at h3; exact h3
              rw [hH3, intC_wSum] at hival
              have hle := hp hA
              have hew : e.weight = rabs (twiceAreaText p.ext / 2) := by rw [heq]; rfl
              have hiw : i.weight = sumR ((p.ints.filter (fun h => twiceAreaText h ≠ 0)).map
                  (fun h => rabs (twiceAreaText h / 2))) := by rw [hival]
              have hge : 0 ≤ e.weight - i.weight := by rw [hew, hiw]; linarith
              exact lt_of_le_of_ne hge (fun h => h0 h.symm)
      · rw [if_neg h3] at hw
        simp at hw; subst hw; exact hepos

theorem rectC_pos (len : Pt → Pt → Rat) (hpos : ∀ a b, a ≠ b → 0 < len a b) (mn mx : Pt)
    (hwf : mn.x ≤ mx.x ∧ mn.y ≤ mx.y) : ∀ w ∈ rectC len mn mx, 0 < w.weight := by
  intro w hw
  unfold rectC rectDims at hw
  by_cases h1 : mn = mx
  · rw [if_pos h1] at hw; simp at hw; subst hw; exact coordC_pos _
  · rw [if_neg h1] at hw
    by_cases h2 : mn.x = mx.x ∨ mn.y = mx.y
    · rw [if_pos h2] at hw
      simp only [List.mem_cons, List.not_mem_nil, or_false] at hw
      rcases hw with rfl | rfl | rfl | rfl <;> exact lineC_pos len hpos _ _
    · rw [if_neg h2] at hw
      simp at hw; subst hw
      have hx : mn.x ≠ mx.x := fun h => h2 (Or.inl h)
      have hy : mn.y ≠ mx.y := fun h => h2 (Or.inr h)
      have hx' : 0 < mx.x - mn.x := by
        have := lt_of_le_of_ne hwf.1 hx; linarith
      have hy' : 0 < mx.y - mn.y := by
        have := lt_of_le_of_ne hwf.2 hy; linarith
      exact mul_pos hx' hy'

theorem triC_pos (len : Pt → Pt → Rat) (hpos : ∀ a b, a ≠ b → 0 < len a b) (a b c : Pt) :
    ∀ w ∈ triC len a b c, 0 < w.weight := by
  intro w hw
  unfold triC triDims at hw
  by_cases h0 : crossProd a b c = 0
  · rw [if_pos h0] at hw
    by_cases h1 : a = b ∧ b = c
    · rw [if_pos h1] at hw; simp at hw; subst hw; exact coordC_pos _
    · rw [if_neg h1] at hw
      simp only [List.mem_cons, List.not_mem_nil, or_false] at hw
      rcases hw with rfl | rfl | rfl <;> exact lineC_pos len hpos _ _
  · rw [if_neg h0] at hw
    simp at hw; subst hw
    show 0 < rabs (triArea a b c)
    apply rabs_pos
    have : det (b - a) (c - a) = crossProd a b c := by
      simp only [det, crossProd, sub_x, sub_y]
    rw [triArea, this]
    intro h; apply h0; linarith

mutual
theorem contribs_pos (len : Pt → Pt → Rat) (hpos : ∀ a b, a ≠ b → 0 < len a b) :
    ∀ g : Geom, WF g → ∀ w ∈ contribs len g, 0 < w.weight
  | .point p, _ => by
      intro w hw; simp [contribs] at hw; subst hw; exact coordC_pos p
  | .line a b, _ => by
      intro w hw; simp [contribs] at hw; subst hw; exact lineC_pos len hpos a b
  | .lineString cs, _ => by
      intro w hw; simp only [contribs] at hw; exact lineStringC_pos len hpos cs w hw
  | .polygon p, h => by
      intro w hw; simp only [contribs] at hw
      simp only [WF] at h
      exact polyC_pos len hpos p h w hw
  | .multiPoint ps, _ => by
      intro w hw; simp only [contribs] at hw
      rcases List.mem_map.1 hw with ⟨p, _, rfl⟩
      exact coordC_pos p
  | .multiLineString ls, _ => by
      intro w hw
      simp only [contribs, List.mem_flatten, List.mem_map] at hw
      obtain ⟨_, ⟨l, _, rfl⟩, hwl⟩ := hw
      exact lineStringC_pos len hpos l w hwl
  | .multiPolygon ps, h => by
      intro w hw
      simp only [contribs, List.mem_flatten, List.mem_map] at hw
      obtain ⟨_, ⟨p, hp, rfl⟩, hwp⟩ := hw
      simp only [WF] at h
      exact polyC_pos len hpos p (h p hp) w hwp
  | .rect mn mx, h => by
      intro w hw; simp only [contribs] at hw
      simp only [WF] at h
      exact rectC_pos len hpos mn mx h w hw
  | .triangle a b c, _ => by
      intro w hw; simp only [contribs] at hw
      exact triC_pos len hpos a b c w hw
  | .collection gs, h => by
      intro w hw; simp only [contribs] at hw
      simp only [WF] at h
      exact contribsList_pos len hpos gs h w hw
theorem contribsList_pos (len : Pt → Pt → Rat) (hpos : ∀ a b, a ≠ b → 0 < len a b) :
    ∀ gs : List Geom, WFList gs → ∀ w ∈ contribsList len gs, 0 < w.weight
  | [], _ => by intro w hw; simp [contribsList] at hw
  | g :: gs, h => by
      intro w hw
      simp only [contribsList, List.mem_append] at hw
      simp only [WFList] at h
      rcases hw with h' | h'
      · exact contribs_pos len hpos g h.1 w h'
      · exact contribsList_pos len hpos gs h.2 w h'
end

/-- [T] on the domain `WF` the final accumulated weight is positive -/
theorem final_weight_pos (len : Pt → Pt → Rat) (hpos : ∀ a b, a ≠ b → 0 < len a b) (g : Geom) (hg : WF g)
    (w : WC) (h : addGeom len none g = some w) : 0 < w.weight := by
  rw [addGeom_eq, foldWC_none] at h
  exact dominant_weight_pos _ (contribs_pos len hpos g hg) w h

end Geo.Proofs.C06
