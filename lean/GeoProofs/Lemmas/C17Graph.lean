/-
  Helper lemmas for C17 (concrete geometry graph): label algebra, the node association list,
  every construction step commutes with `swapLabels`, `dedup` and reversal.
-/
import GeoModel.GeomGraph

namespace Geo.Proofs.C17L
open Geo Geo.GG

/-! ### labels -/

theorem label_swap_swap (l : Label) : l.swap.swap = l := by cases l; rfl

theorem emptyLine_swap : Label.emptyLine.swap = Label.emptyLine := rfl
theorem emptyArea_swap : Label.emptyArea.swap = Label.emptyArea := rfl

theorem get_swap01 (l : Label) : l.swap.get 1 = l.get 0 := by cases l; rfl
theorem get_swap10 (l : Label) : l.swap.get 0 = l.get 1 := by cases l; rfl

theorem set_swap01 (l : Label) (t : TopoPos) : (l.set 0 t).swap = l.swap.set 1 t := by cases l; rfl
theorem set_swap10 (l : Label) (t : TopoPos) : (l.set 1 t).swap = l.swap.set 0 t := by cases l; rfl

theorem new_swap01 (t : TopoPos) : (Label.new 0 t).swap = Label.new 1 t := by cases t <;> rfl
theorem new_swap10 (t : TopoPos) : (Label.new 1 t).swap = Label.new 0 t := by cases t <;> rfl

theorem onPos_swap01 (l : Label) : l.swap.onPos 1 = l.onPos 0 := by cases l; rfl

theorem setOn_swap01 (l : Label) (p : Pos) : (l.setOn 0 p).swap = l.swap.setOn 1 p := by cases l; rfl

theorem boundaryUpdate_swap01 (l : Label) : (boundaryUpdate 0 l).swap = boundaryUpdate 1 l.swap := by
  unfold boundaryUpdate
  rw [setOn_swap01, onPos_swap01]

theorem lineLabel_swap01 : (lineLabel 0).swap = lineLabel 1 := rfl

theorem onPos_setOn (l : Label) (idx : Nat) (p : Pos) : (l.setOn idx p).onPos idx = some p := by
  cases l with
  | mk a b =>
    by_cases h : idx = 0
    · subst h; cases a <;> rfl
    · have e : (Label.mk a b).setOn idx p = ⟨a, b.setOn p⟩ := by
        simp only [Label.setOn, Label.set, Label.get, h, if_false]
      rw [e]
      simp only [Label.onPos, Label.get, h, if_false]
      cases b <;> rfl

theorem onPos_emptyLine (idx : Nat) : Label.emptyLine.onPos idx = none := by
  unfold Label.onPos Label.get
  split <;> rfl

/-! ### node list -/

theorem upsert_map_swap (c : Pt) (f f' : Label → Label) (hf : ∀ l, (f l).swap = f' l.swap)
    (ns : List Node) :
    (upsertNode c f ns).map Node.swap = upsertNode c f' (ns.map Node.swap) := by
  induction ns with
  | nil => simp [upsertNode, Node.swap, hf, emptyLine_swap]
  | cons n ns ih =>
    by_cases h : n.coord = c
    · simp [upsertNode, Node.swap, h, hf]
    · have h' : ¬ (Node.swap n).coord = c := h
      simp only [upsertNode, h, h', if_false, List.map_cons]
      rw [ih]

theorem findNode_map_swap (c : Pt) (ns : List Node) :
    findNode c (ns.map Node.swap) = (findNode c ns).map Node.swap := by
  induction ns with
  | nil => rfl
  | cons n ns ih =>
    by_cases h : n.coord = c
    · simp [findNode, Node.swap, h]
    · simp only [List.map_cons, findNode, Node.swap, h, if_false]
      simpa [Node.swap] using ih

/-- the label a look-up sees, `Label::empty_line_or_point()` standing for "no node yet" -/
def labelAt (c : Pt) (ns : List Node) : Label :=
  match findNode c ns with
  | some n => n.label
  | none => Label.emptyLine

theorem findNode_upsert (c c' : Pt) (f : Label → Label) (ns : List Node) :
    findNode c' (upsertNode c f ns) =
      if c = c' then some ⟨c, f (labelAt c ns)⟩ else findNode c' ns := by
  induction ns with
  | nil =>
    by_cases h : c = c'
    · simp [upsertNode, findNode, labelAt, h]
    · simp [upsertNode, findNode, h]
  | cons n ns ih =>
    by_cases hn : n.coord = c
    · by_cases h : c = c'
      · subst h; subst hn
        simp [upsertNode, findNode, labelAt]
      · have hn' : ¬ n.coord = c' := by rw [hn]; exact h
        simp [upsertNode, findNode, hn, h]
    · by_cases h : c = c'
      · subst h
        simp only [upsertNode, hn, if_false, findNode, if_true] at ih ⊢
        rw [ih]; simp [labelAt, findNode, hn]
      · simp only [upsertNode, hn, if_false, findNode, h] at ih ⊢
        rw [ih]

/-! ### every construction step commutes with `swapLabels` -/

theorem swap_empty : Graph.empty.swapLabels = Graph.empty := rfl

theorem swap_insertEdge (e : Edge) (G : Graph) :
    (insertEdge e G).swapLabels = insertEdge e.swap G.swapLabels := by
  simp [insertEdge, Graph.swapLabels]

theorem swap_insertPoint (c : Pt) (p : Pos) (G : Graph) :
    (insertPoint 0 c p G).swapLabels = insertPoint 1 c p G.swapLabels := by
  simp only [insertPoint, Graph.swapLabels]
  rw [upsert_map_swap c _ (fun l => l.setOn 1 p) (fun l => setOn_swap01 l p)]

theorem swap_insertBoundaryPoint (c : Pt) (G : Graph) :
    (insertBoundaryPoint 0 c G).swapLabels = insertBoundaryPoint 1 c G.swapLabels := by
  simp only [insertBoundaryPoint, Graph.swapLabels]
  rw [upsert_map_swap c _ (boundaryUpdate 1) boundaryUpdate_swap01]

theorem swap_addPoint (p : Pt) (G : Graph) :
    (addPoint 0 p G).swapLabels = addPoint 1 p G.swapLabels := swap_insertPoint p .inside G

theorem swap_addLine (a b : Pt) (G : Graph) :
    (addLine 0 a b G).swapLabels = addLine 1 a b G.swapLabels := by
  simp only [addLine, swap_insertEdge, swap_insertBoundaryPoint]; rfl

theorem swap_addLineString (cs : List Pt) (G : Graph) :
    (addLineString 0 cs G).swapLabels = addLineString 1 cs G.swapLabels := by
  unfold addLineString
  split
  · rfl
  · exact swap_addPoint _ G
  · simp only [swap_insertEdge, swap_insertBoundaryPoint]; rfl

theorem ringEdge_swap (ring : List Pt) (l r : Pos) :
    (GG.ringEdge 0 ring l r).swap = GG.ringEdge 1 ring l r := by
  simp only [GG.ringEdge, Edge.swap, new_swap01]

theorem swap_addPolygonRing (ring : List Pt) (l r : Pos) (G : Graph) :
    (addPolygonRing 0 ring l r G).swapLabels = addPolygonRing 1 ring l r G.swapLabels := by
  unfold addPolygonRing
  split
  · rfl
  · rw [swap_insertPoint, swap_insertEdge, ringEdge_swap]

theorem swap_addHoles (hs : List (List Pt)) (G : Graph) :
    (addHoles 0 hs G).swapLabels = addHoles 1 hs G.swapLabels := by
  induction hs generalizing G with
  | nil => rfl
  | cons h hs ih => simp only [addHoles]; rw [ih, swap_addPolygonRing]

theorem swap_addPolygon (p : Poly) (G : Graph) :
    (addPolygon 0 p G).swapLabels = addPolygon 1 p G.swapLabels := by
  simp only [addPolygon]; rw [swap_addHoles, swap_addPolygonRing]

theorem swap_addPoints (ps : List Pt) (G : Graph) :
    (addPoints 0 ps G).swapLabels = addPoints 1 ps G.swapLabels := by
  induction ps generalizing G with
  | nil => rfl
  | cons p ps ih => simp only [addPoints]; rw [ih, swap_addPoint]

theorem swap_addLineStrings (ls : List (List Pt)) (G : Graph) :
    (addLineStrings 0 ls G).swapLabels = addLineStrings 1 ls G.swapLabels := by
  induction ls generalizing G with
  | nil => rfl
  | cons l ls ih => simp only [addLineStrings]; rw [ih, swap_addLineString]

theorem swap_addPolygons (ps : List Poly) (G : Graph) :
    (addPolygons 0 ps G).swapLabels = addPolygons 1 ps G.swapLabels := by
  induction ps generalizing G with
  | nil => rfl
  | cons p ps ih => simp only [addPolygons]; rw [ih, swap_addPolygon]

theorem swap_setRule (G : Graph) (b : Bool) :
    ({ G with useRule := b } : Graph).swapLabels = { G.swapLabels with useRule := b } := rfl

mutual
theorem swap_addGeometry : ∀ (g : Geom) (G : Graph),
    (addGeometry 0 g G).swapLabels = addGeometry 1 g G.swapLabels
  | .point p, G => by simp only [addGeometry]; exact swap_addPoint p G
  | .line a b, G => by simp only [addGeometry]; exact swap_addLine a b G
  | .lineString cs, G => by
    simp only [addGeometry]; split
    · rfl
    · exact swap_addLineString cs G
  | .polygon p, G => by
    simp only [addGeometry]; split
    · rfl
    · exact swap_addPolygon p G
  | .multiPoint ps, G => by
    simp only [addGeometry]; split
    · rfl
    · exact swap_addPoints ps G
  | .multiLineString ls, G => by
    simp only [addGeometry]; split
    · rfl
    · exact swap_addLineStrings ls G
  | .multiPolygon ps, G => by
    simp only [addGeometry]; split
    · rfl
    · rw [swap_addPolygons, swap_setRule]
  | .rect mn mx, G => by simp only [addGeometry]; exact swap_addPolygon _ G
  | .triangle a b c, G => by simp only [addGeometry]; exact swap_addPolygon _ G
  | .collection gs, G => by
    simp only [addGeometry]; split
    · rfl
    · exact swap_addGeometries gs G
theorem swap_addGeometries : ∀ (gs : List Geom) (G : Graph),
    (addGeometries 0 gs G).swapLabels = addGeometries 1 gs G.swapLabels
  | [], G => by simp only [addGeometries]
  | g :: gs, G => by
    simp only [addGeometries]
    rw [swap_addGeometries gs, swap_addGeometry g]
end

/-! ### self-intersection nodes commute with `swapLabels` -/

theorem isBoundaryNode_swap (c : Pt) (G : Graph) :
    isBoundaryNode 1 c G.swapLabels = isBoundaryNode 0 c G := by
  simp only [isBoundaryNode, Graph.swapLabels, findNode_map_swap]
  cases findNode c G.nodes with
  | none => rfl
  | some n => simp [Node.swap, onPos_swap01]

theorem swap_useRule (G : Graph) : G.swapLabels.useRule = G.useRule := rfl

theorem swap_addSelfIntersectionNode (c : Pt) (p : Pos) (G : Graph) :
    (addSelfIntersectionNode 0 c p G).swapLabels = addSelfIntersectionNode 1 c p G.swapLabels := by
  unfold addSelfIntersectionNode
  rw [isBoundaryNode_swap, swap_useRule]
  split
  · rfl
  · split
    · exact swap_insertBoundaryPoint c G
    · exact swap_insertPoint c p G

theorem swap_addSelfIntersectionCoords (p : Pos) (cs : List Pt) (G : Graph) :
    (addSelfIntersectionCoords 0 p cs G).swapLabels = addSelfIntersectionCoords 1 p cs G.swapLabels := by
  induction cs generalizing G with
  | nil => rfl
  | cons c cs ih => simp only [addSelfIntersectionCoords]; rw [ih, swap_addSelfIntersectionNode]

theorem swap_addSelfIntersectionItems (items : List (Option Pos × List Pt)) (G : Graph) :
    (addSelfIntersectionItems 0 items G).swapLabels = addSelfIntersectionItems 1 items G.swapLabels := by
  induction items generalizing G with
  | nil => rfl
  | cons it items ih =>
    obtain ⟨o, cs⟩ := it
    cases o with
    | none => simp only [addSelfIntersectionItems]; exact ih G
    | some p => simp only [addSelfIntersectionItems]; rw [ih, swap_addSelfIntersectionCoords]

theorem items_swap (ixs : List (List Pt)) (es : List Edge) :
    ((es.map Edge.swap).zip ixs).map (fun (x : Edge × List Pt) => (x.1.label.onPos 1, x.2)) =
      (es.zip ixs).map (fun (x : Edge × List Pt) => (x.1.label.onPos 0, x.2)) := by
  induction es generalizing ixs with
  | nil => rfl
  | cons e es ih =>
    cases ixs with
    | nil => rfl
    | cons i ixs => simp [Edge.swap, onPos_swap01, ih]

/-! ### `dedup` and reversal -/

theorem dedupFrom_append (prev : Pt) (l : List Pt) (x : Pt) :
    dedupFrom prev (l ++ [x]) =
      if (dedupFrom prev l).getLast?.getD prev = x then dedupFrom prev l else dedupFrom prev l ++ [x] := by
  induction l generalizing prev with
  | nil =>
    by_cases h : x = prev
    · simp [dedupFrom, h]
    · have h' : ¬ prev = x := fun e => h e.symm
      simp [dedupFrom, h, h']
  | cons c rest ih =>
    by_cases hc : c = prev
    · simp only [List.cons_append, dedupFrom, hc, if_true]
      rw [ih]
    · simp only [List.cons_append, dedupFrom, hc, if_false]
      rw [ih, List.getLast?_cons, Option.getD_some]
      by_cases h : (dedupFrom c rest).getLast?.getD c = x <;> simp [h]

theorem dedup_append (l : List Pt) (x : Pt) :
    dedup (l ++ [x]) = if (dedup l).getLast? = some x then dedup l else dedup l ++ [x] := by
  cases l with
  | nil => simp [dedup, dedupFrom]
  | cons c rest =>
    have e1 : dedup (c :: rest) = c :: dedupFrom c rest := rfl
    have e2 : dedup (c :: rest ++ [x]) = c :: dedupFrom c (rest ++ [x]) := rfl
    rw [e1, e2, dedupFrom_append, List.getLast?_cons]
    by_cases h : (dedupFrom c rest).getLast?.getD c = x <;> simp [h]

/-- the first element of a deduplicated list is the first element -/
theorem dedup_head? (l : List Pt) : (dedup l).head? = l.head? := by
  cases l <;> rfl

theorem dedupFrom_ne_head (prev : Pt) (l : List Pt) : (dedupFrom prev l).head? ≠ some prev := by
  induction l generalizing prev with
  | nil => simp [dedupFrom]
  | cons c rest ih =>
    by_cases hc : c = prev
    · simp only [dedupFrom, hc, if_true]; exact ih prev
    · simp only [dedupFrom, hc, if_false, List.head?_cons]
      intro h; exact hc (Option.some.inj h)

/-- prepending: the new coordinate is kept unless it repeats the current first one -/
theorem dedup_cons (x : Pt) (l : List Pt) :
    dedup (x :: l) = if l.head? = some x then dedup l else x :: dedup l := by
  cases l with
  | nil => simp [dedup, dedupFrom]
  | cons c rest =>
    by_cases h : c = x
    · subst h; simp [dedup, dedupFrom]
    · have h' : ¬ some c = some x := fun e => h (Option.some.inj e)
      simp [dedup, dedupFrom, h, h']

theorem dedup_reverse (l : List Pt) : dedup l.reverse = (dedup l).reverse := by
  induction l with
  | nil => rfl
  | cons x l ih =>
    rw [List.reverse_cons, dedup_append, ih, dedup_cons]
    rw [List.getLast?_reverse, dedup_head?]
    by_cases h : l.head? = some x <;> simp [h]

/-! ### what a node look-up sees after each step (for the mod-2 rule) -/

/-- the effect of `insert_boundary_point` on the `on` position of its node -/
def toggle (o : Option Pos) : Option Pos := some (if o = some .onBoundary then .inside else .onBoundary)

def toggleN : Nat → Option Pos → Option Pos
  | 0, o => o
  | n + 1, o => toggleN n (toggle o)

theorem onPos_labelAt (idx : Nat) (c : Pt) (G : Graph) : (labelAt c G.nodes).onPos idx = G.nodeOn idx c := by
  unfold labelAt Graph.nodeOn
  cases findNode c G.nodes with
  | none => exact onPos_emptyLine idx
  | some n => rfl

theorem onPos_boundaryUpdate (idx : Nat) (l : Label) : (boundaryUpdate idx l).onPos idx = toggle (l.onPos idx) := by
  unfold boundaryUpdate toggle determineBoundary
  rw [onPos_setOn]
  by_cases h : l.onPos idx = some .onBoundary <;> simp [h]

theorem nodeOn_insertBoundaryPoint (idx : Nat) (c p : Pt) (G : Graph) :
    (insertBoundaryPoint idx c G).nodeOn idx p = if c = p then toggle (G.nodeOn idx p) else G.nodeOn idx p := by
  unfold insertBoundaryPoint
  show (match findNode p (upsertNode c (boundaryUpdate idx) G.nodes) with
        | some n => n.label.onPos idx | none => none) = _
  rw [findNode_upsert]
  by_cases h : c = p
  · subst h; simp only [if_true]; rw [onPos_boundaryUpdate, onPos_labelAt]
  · simp only [h, if_false]; rfl

theorem nodeOn_insertPoint (idx : Nat) (c p : Pt) (q : Pos) (G : Graph) :
    (insertPoint idx c q G).nodeOn idx p = if c = p then some q else G.nodeOn idx p := by
  unfold insertPoint
  show (match findNode p (upsertNode c (fun l => l.setOn idx q) G.nodes) with
        | some n => n.label.onPos idx | none => none) = _
  rw [findNode_upsert]
  by_cases h : c = p
  · subst h; simp only [if_true]; rw [onPos_setOn]
  · simp only [h, if_false]; rfl

theorem nodeOn_insertEdge (idx : Nat) (e : Edge) (p : Pt) (G : Graph) :
    (insertEdge e G).nodeOn idx p = G.nodeOn idx p := rfl

theorem toggleN_add (a b : Nat) (o : Option Pos) : toggleN (a + b) o = toggleN b (toggleN a o) := by
  induction a generalizing o with
  | zero => simp [toggleN]
  | succ a ih => rw [Nat.succ_add]; simp only [toggleN]; exact ih _

theorem toggleN_some (n : Nat) :
    toggleN n (some .inside) = (if n % 2 = 1 then some .onBoundary else some .inside) ∧
    toggleN n (some .onBoundary) = (if n % 2 = 1 then some .inside else some .onBoundary) := by
  induction n with
  | zero => simp [toggleN]
  | succ n ih =>
    have t1 : toggle (some Pos.inside) = some .onBoundary := rfl
    have t2 : toggle (some Pos.onBoundary) = some .inside := rfl
    simp only [toggleN, t1, t2, ih.1, ih.2]
    rcases Nat.mod_two_eq_zero_or_one n with h | h
    · have h' : (n + 1) % 2 = 1 := by omega
      simp [h, h']
    · have h' : (n + 1) % 2 = 0 := by omega
      simp [h, h']

theorem toggleN_none (n : Nat) :
    toggleN n none = if n = 0 then none else if n % 2 = 1 then some .onBoundary else some .inside := by
  cases n with
  | zero => rfl
  | succ n =>
    have t : toggle none = some .onBoundary := rfl
    simp only [toggleN, t, (toggleN_some n).2]
    rcases Nat.mod_two_eq_zero_or_one n with h | h
    · have h' : (n + 1) % 2 = 1 := by omega
      simp [h, h']
    · have h' : (n + 1) % 2 = 0 := by omega
      simp [h, h']

theorem nodeOn_addLineString (idx : Nat) (l : List Pt) (p : Pt) (G : Graph)
    (h : collapsesTo p l = false) :
    (addLineString idx l G).nodeOn idx p = toggleN (endpointCount1 p l) (G.nodeOn idx p) := by
  unfold addLineString endpointCount1
  unfold collapsesTo at h
  cases hd : dedup l with
  | nil => rfl
  | cons first rest =>
    cases rest with
    | nil =>
      have hne : ¬ first = p := by
        intro e; rw [hd, e] at h; simp at h
      simp only [addPoint, nodeOn_insertPoint, hne, if_false]; rfl
    | cons second rest' =>
      simp only [nodeOn_insertEdge, nodeOn_insertBoundaryPoint]
      generalize (first :: second :: rest').getLast?.getD first = last
      by_cases h1 : first = p <;> by_cases h2 : last = p <;>
        simp only [h1, h2, if_true, if_false] <;> rfl

theorem nodeOn_addLineString_collapsed (idx : Nat) (l : List Pt) (p : Pt) (G : Graph)
    (h : collapsesTo p l = true) :
    (addLineString idx l G).nodeOn idx p = some .inside := by
  unfold addLineString
  unfold collapsesTo at h
  have hd : dedup l = [p] := by simpa using h
  rw [hd]
  simp only [addPoint, nodeOn_insertPoint, if_true]

theorem nodeOn_addLineStrings (idx : Nat) (ls : List (List Pt)) (p : Pt) (G : Graph)
    (h : ∀ l ∈ ls, collapsesTo p l = false) :
    (addLineStrings idx ls G).nodeOn idx p = toggleN (endpointCount p ls) (G.nodeOn idx p) := by
  induction ls generalizing G with
  | nil => rfl
  | cons l ls ih =>
    simp only [addLineStrings, endpointCount]
    rw [ih _ (fun l' hl' => h l' (List.mem_cons_of_mem _ hl')), toggleN_add,
      nodeOn_addLineString idx l p G (h l List.mem_cons_self)]

theorem addLineStrings_append (idx : Nat) (xs ys : List (List Pt)) (G : Graph) :
    addLineStrings idx (xs ++ ys) G = addLineStrings idx ys (addLineStrings idx xs G) := by
  induction xs generalizing G with
  | nil => rfl
  | cons x xs ih => simp only [List.cons_append, addLineStrings]; exact ih _

theorem addLineString_empty (idx : Nat) (G : Graph) : addLineString idx [] G = G := rfl

theorem addLineStrings_allEmpty (idx : Nat) (ls : List (List Pt)) (G : Graph)
    (h : ls.all List.isEmpty = true) : addLineStrings idx ls G = G := by
  induction ls generalizing G with
  | nil => rfl
  | cons l ls ih =>
    simp only [List.all_cons, Bool.and_eq_true] at h
    have hl : l = [] := by simpa using h.1
    subst hl
    simp only [addLineStrings, addLineString_empty]
    exact ih G h.2

/-- the `is_empty` shortcut of `add_geometry` changes nothing for a `MultiLineString` -/
theorem addGeometry_multiLineString (idx : Nat) (ls : List (List Pt)) (G : Graph) :
    addGeometry idx (.multiLineString ls) G = addLineStrings idx ls G := by
  simp only [addGeometry]
  split
  · rename_i h; exact (addLineStrings_allEmpty idx ls G h).symm
  · rfl

theorem nodeOn_empty (idx : Nat) (p : Pt) : Graph.empty.nodeOn idx p = none := rfl

/-! ### node-map order is label-blind -/

theorem insertNodeSorted_swap (n : Node) (ns : List Node) :
    insertNodeSorted n.swap (ns.map Node.swap) = (insertNodeSorted n ns).map Node.swap := by
  induction ns with
  | nil => rfl
  | cons m ms ih =>
    have hm : (Node.swap m).coord = m.coord := rfl
    have hn : (Node.swap n).coord = n.coord := rfl
    by_cases h : lexLt m.coord n.coord = true
    · simp only [List.map_cons, insertNodeSorted, hm, hn, h, if_true]; rw [ih]
    · simp only [List.map_cons, insertNodeSorted, hm, hn, h]; rfl

theorem sortNodes_swap (ns : List Node) : sortNodes (ns.map Node.swap) = (sortNodes ns).map Node.swap := by
  induction ns with
  | nil => rfl
  | cons n ns ih =>
    simp only [sortNodes, List.map_cons, List.foldr_cons] at ih ⊢
    rw [ih, insertNodeSorted_swap]

/-! ### building for index 0 leaves slot 1 unset -/

/-- slot `b` (argument index 1) of the label is unset -/
def BEmpty (l : Label) : Prop := l.b = .emptyLine ∨ l.b = .emptyArea

def GraphBEmpty (G : Graph) : Prop := (∀ n ∈ G.nodes, BEmpty n.label) ∧ (∀ e ∈ G.edges, BEmpty e.label)

theorem bEmpty_new0 (t : TopoPos) : BEmpty (Label.new 0 t) := by
  cases t with
  | area _ _ _ => exact Or.inr rfl
  | lineOrPoint _ => exact Or.inl rfl

theorem bEmpty_setOn0 (l : Label) (p : Pos) (h : BEmpty l) : BEmpty (l.setOn 0 p) := by
  cases l; exact h

theorem bEmpty_boundaryUpdate0 (l : Label) (h : BEmpty l) : BEmpty (boundaryUpdate 0 l) :=
  bEmpty_setOn0 _ _ h

theorem bEmpty_emptyLine : BEmpty Label.emptyLine := Or.inl rfl

theorem upsert_bEmpty (c : Pt) (f : Label → Label) (hf : ∀ l, BEmpty l → BEmpty (f l)) (ns : List Node)
    (h : ∀ n ∈ ns, BEmpty n.label) : ∀ n ∈ upsertNode c f ns, BEmpty n.label := by
  induction ns with
  | nil =>
    intro n hn
    simp only [upsertNode, List.mem_singleton] at hn
    subst hn; exact hf _ bEmpty_emptyLine
  | cons m ms ih =>
    intro n hn
    by_cases hc : m.coord = c
    · simp only [upsertNode, hc, if_true, List.mem_cons] at hn
      rcases hn with rfl | hn
      · exact hf _ (h m List.mem_cons_self)
      · exact h n (List.mem_cons_of_mem _ hn)
    · simp only [upsertNode, hc, if_false, List.mem_cons] at hn
      rcases hn with rfl | hn
      · exact h _ List.mem_cons_self
      · exact ih (fun n hn => h n (List.mem_cons_of_mem _ hn)) n hn

theorem inv_empty : GraphBEmpty Graph.empty := ⟨by simp [Graph.empty], by simp [Graph.empty]⟩

theorem inv_insertEdge (e : Edge) (G : Graph) (he : BEmpty e.label) (h : GraphBEmpty G) :
    GraphBEmpty (insertEdge e G) := by
  refine ⟨h.1, ?_⟩
  intro e' he'
  simp only [insertEdge, List.mem_append, List.mem_singleton] at he'
  rcases he' with he' | rfl
  · exact h.2 _ he'
  · exact he

theorem inv_insertPoint (c : Pt) (p : Pos) (G : Graph) (h : GraphBEmpty G) :
    GraphBEmpty (insertPoint 0 c p G) :=
  ⟨upsert_bEmpty c _ (fun l hl => bEmpty_setOn0 l p hl) _ h.1, h.2⟩

theorem inv_insertBoundaryPoint (c : Pt) (G : Graph) (h : GraphBEmpty G) :
    GraphBEmpty (insertBoundaryPoint 0 c G) :=
  ⟨upsert_bEmpty c _ (fun l hl => bEmpty_boundaryUpdate0 l hl) _ h.1, h.2⟩

theorem inv_addLineString (cs : List Pt) (G : Graph) (h : GraphBEmpty G) :
    GraphBEmpty (addLineString 0 cs G) := by
  unfold addLineString
  split
  · exact h
  · exact inv_insertPoint _ _ _ h
  · exact inv_insertEdge _ _ (bEmpty_new0 _) (inv_insertBoundaryPoint _ _ (inv_insertBoundaryPoint _ _ h))

theorem inv_addPolygonRing (ring : List Pt) (l r : Pos) (G : Graph) (h : GraphBEmpty G) :
    GraphBEmpty (addPolygonRing 0 ring l r G) := by
  unfold addPolygonRing
  split
  · exact h
  · exact inv_insertPoint _ _ _ (inv_insertEdge _ _ (bEmpty_new0 _) h)

theorem inv_addHoles (hs : List (List Pt)) (G : Graph) (h : GraphBEmpty G) : GraphBEmpty (addHoles 0 hs G) := by
  induction hs generalizing G with
  | nil => exact h
  | cons x xs ih => exact ih _ (inv_addPolygonRing _ _ _ _ h)

theorem inv_addPolygon (p : Poly) (G : Graph) (h : GraphBEmpty G) : GraphBEmpty (addPolygon 0 p G) :=
  inv_addHoles _ _ (inv_addPolygonRing _ _ _ _ h)

theorem inv_addPoints (ps : List Pt) (G : Graph) (h : GraphBEmpty G) : GraphBEmpty (addPoints 0 ps G) := by
  induction ps generalizing G with
  | nil => exact h
  | cons x xs ih => exact ih _ (inv_insertPoint _ _ _ h)

theorem inv_addLineStrings (ls : List (List Pt)) (G : Graph) (h : GraphBEmpty G) :
    GraphBEmpty (addLineStrings 0 ls G) := by
  induction ls generalizing G with
  | nil => exact h
  | cons x xs ih => exact ih _ (inv_addLineString _ _ h)

theorem inv_addPolygons (ps : List Poly) (G : Graph) (h : GraphBEmpty G) : GraphBEmpty (addPolygons 0 ps G) := by
  induction ps generalizing G with
  | nil => exact h
  | cons x xs ih => exact ih _ (inv_addPolygon _ _ h)

mutual
theorem inv_addGeometry : ∀ (g : Geom) (G : Graph), GraphBEmpty G → GraphBEmpty (addGeometry 0 g G)
  | .point p, G, h => by simp only [addGeometry]; exact inv_insertPoint _ _ _ h
  | .line a b, G, h => by
    simp only [addGeometry, addLine]
    exact inv_insertEdge _ _ (bEmpty_new0 _) (inv_insertBoundaryPoint _ _ (inv_insertBoundaryPoint _ _ h))
  | .lineString cs, G, h => by
    simp only [addGeometry]; split
    · exact h
    · exact inv_addLineString _ _ h
  | .polygon p, G, h => by
    simp only [addGeometry]; split
    · exact h
    · exact inv_addPolygon _ _ h
  | .multiPoint ps, G, h => by
    simp only [addGeometry]; split
    · exact h
    · exact inv_addPoints _ _ h
  | .multiLineString ls, G, h => by
    simp only [addGeometry]; split
    · exact h
    · exact inv_addLineStrings _ _ h
  | .multiPolygon ps, G, h => by
    simp only [addGeometry]; split
    · exact h
    · exact inv_addPolygons _ _ h
  | .rect mn mx, G, h => by simp only [addGeometry]; exact inv_addPolygon _ _ h
  | .triangle a b c, G, h => by simp only [addGeometry]; exact inv_addPolygon _ _ h
  | .collection gs, G, h => by
    simp only [addGeometry]; split
    · exact h
    · exact inv_addGeometries gs G h
theorem inv_addGeometries : ∀ (gs : List Geom) (G : Graph), GraphBEmpty G → GraphBEmpty (addGeometries 0 gs G)
  | [], G, h => by simp only [addGeometries]; exact h
  | g :: gs, G, h => by
    simp only [addGeometries]
    exact inv_addGeometries gs _ (inv_addGeometry g G h)
end

end Geo.Proofs.C17L
