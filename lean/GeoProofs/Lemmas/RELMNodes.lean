/-
  RELM — the node map of the relate operation (`upsertR`): it stays sorted by `lex_cmp`, holds at
  most one node per coordinate, look-ups after an insertion, invariants carried through insertions;
  slot independence of the label operations (what is written for one operand never changes what
  is recorded for the other).
-/
import GeoModel.RelateImplTop
import GeoProofs.Lemmas.C05Winding

namespace Geo.Proofs.RELM
open Geo Geo.GG Geo.RI Geo.Proofs.C05L

/-! ### labels: the two slots are independent -/

@[simp] theorem get0 (l : Label) : l.get 0 = l.a := rfl
@[simp] theorem get1 (l : Label) : l.get 1 = l.b := rfl
@[simp] theorem set0_a (l : Label) (t : TopoPos) : (l.set 0 t).a = t := rfl
@[simp] theorem set0_b (l : Label) (t : TopoPos) : (l.set 0 t).b = l.b := rfl
@[simp] theorem set1_a (l : Label) (t : TopoPos) : (l.set 1 t).a = l.a := rfl
@[simp] theorem set1_b (l : Label) (t : TopoPos) : (l.set 1 t).b = t := rfl

@[simp] theorem setOn0_b (l : Label) (p : Pos) : (l.setOn 0 p).b = l.b := rfl
@[simp] theorem setOn1_a (l : Label) (p : Pos) : (l.setOn 1 p).a = l.a := rfl
@[simp] theorem setOn0_a (l : Label) (p : Pos) : (l.setOn 0 p).a = l.a.setOn p := rfl
@[simp] theorem setOn1_b (l : Label) (p : Pos) : (l.setOn 1 p).b = l.b.setOn p := rfl
@[simp] theorem setLeft1_a (l : Label) (p : Pos) : (l.setLeft 1 p).a = l.a := rfl
@[simp] theorem setRight1_a (l : Label) (p : Pos) : (l.setRight 1 p).a = l.a := rfl
@[simp] theorem setLeft0_b (l : Label) (p : Pos) : (l.setLeft 0 p).b = l.b := rfl
@[simp] theorem setRight0_b (l : Label) (p : Pos) : (l.setRight 0 p).b = l.b := rfl
@[simp] theorem setAll1_a (l : Label) (p : Pos) : (l.setAll 1 p).a = l.a := rfl
@[simp] theorem setAll0_b (l : Label) (p : Pos) : (l.setAll 0 p).b = l.b := rfl
@[simp] theorem setAll0_a (l : Label) (p : Pos) : (l.setAll 0 p).a = l.a.setAll p := rfl
@[simp] theorem setAll1_b (l : Label) (p : Pos) : (l.setAll 1 p).b = l.b.setAll p := rfl
@[simp] theorem setAllIfEmpty1_a (l : Label) (p : Pos) : (l.setAllIfEmpty 1 p).a = l.a := rfl
@[simp] theorem setAllIfEmpty0_b (l : Label) (p : Pos) : (l.setAllIfEmpty 0 p).b = l.b := rfl
@[simp] theorem setAllIfEmpty0_a (l : Label) (p : Pos) : (l.setAllIfEmpty 0 p).a = l.a.setAllIfEmpty p := rfl
@[simp] theorem setAllIfEmpty1_b (l : Label) (p : Pos) : (l.setAllIfEmpty 1 p).b = l.b.setAllIfEmpty p := rfl
@[simp] theorem onPos0 (l : Label) : l.onPos 0 = l.a.on := rfl
@[simp] theorem onPos1 (l : Label) : l.onPos 1 = l.b.on := rfl
@[simp] theorem leftPos0 (l : Label) : l.leftPos 0 = l.a.left := rfl
@[simp] theorem leftPos1 (l : Label) : l.leftPos 1 = l.b.left := rfl
@[simp] theorem rightPos0 (l : Label) : l.rightPos 0 = l.a.right := rfl
@[simp] theorem rightPos1 (l : Label) : l.rightPos 1 = l.b.right := rfl
@[simp] theorem flip_a (l : Label) : l.flip.a = l.a.flip := rfl
@[simp] theorem flip_b (l : Label) : l.flip.b = l.b.flip := rfl

/-- a slot nothing has been written to: `empty_line_or_point()` or `empty_area()` -/
def SlotEmpty (t : TopoPos) : Prop := t = .emptyLine ∨ t = .emptyArea

theorem SlotEmpty.on {t : TopoPos} (h : SlotEmpty t) : t.on = none := by
  rcases h with rfl | rfl <;> rfl
theorem SlotEmpty.left {t : TopoPos} (h : SlotEmpty t) : t.left = none := by
  rcases h with rfl | rfl <;> rfl
theorem SlotEmpty.right {t : TopoPos} (h : SlotEmpty t) : t.right = none := by
  rcases h with rfl | rfl <;> rfl
theorem SlotEmpty.flip {t : TopoPos} (h : SlotEmpty t) : SlotEmpty t.flip := by
  rcases h with rfl | rfl
  · exact Or.inl rfl
  · exact Or.inr rfl
theorem SlotEmpty.isAnyEmpty {t : TopoPos} (h : SlotEmpty t) : t.isAnyEmpty = true := by
  rcases h with rfl | rfl <;> rfl
theorem SlotEmpty.isEmpty {t : TopoPos} (h : SlotEmpty t) : t.isEmpty = true := by
  rcases h with rfl | rfl <;> rfl

/-- a slot in which every position is `Outside` -/
def SlotOutside (t : TopoPos) : Prop :=
  t = .lineOrPoint (some .outside) ∨ t = .area (some .outside) (some .outside) (some .outside)

theorem SlotEmpty.setAllIfEmpty {t : TopoPos} (h : SlotEmpty t) (p : Pos) :
    t.setAllIfEmpty p = .lineOrPoint (some p) ∨ t.setAllIfEmpty p = .area (some p) (some p) (some p) := by
  rcases h with rfl | rfl
  · exact Or.inl rfl
  · exact Or.inr rfl

theorem SlotEmpty.setAll {t : TopoPos} (h : SlotEmpty t) (p : Pos) :
    t.setAll p = .lineOrPoint (some p) ∨ t.setAll p = .area (some p) (some p) (some p) := by
  rcases h with rfl | rfl
  · exact Or.inl rfl
  · exact Or.inr rfl

/-! ### the sorted node map -/

/-- first node at coordinate `c` -/
def findR (c : Pt) : List RNode → Option RNode
  | [] => none
  | n :: ns => if n.coord = c then some n else findR c ns

/-- strictly increasing in `lex_cmp` order -/
def SortedR (ns : List RNode) : Prop := ns.Pairwise (fun x y => lexLt x.coord y.coord = true)

theorem sortedR_nil : SortedR [] := List.Pairwise.nil

theorem lexLt_of_ne_of_not {a b : Pt} (hne : a ≠ b) (h : lexLt a b = false) : lexLt b a = true := by
  cases hb : lexLt b a with
  | true => rfl
  | false => exact absurd (lex_antisymm h hb) hne

/-- an invariant of all nodes survives an insertion -/
theorem upsertR_forall {P : RNode → Prop} (c : Pt) (f : RNode → RNode) :
    ∀ (ns : List RNode), (∀ n ∈ ns, P n) → (∀ n, P n → n.coord = c → P (f n)) → P (f (RNode.new c)) →
      ∀ n ∈ upsertR c f ns, P n
  | [], _, _, hnew => by
      intro n hn
      simp only [upsertR, List.mem_singleton] at hn
      subst hn; exact hnew
  | x :: xs, h, hf, hnew => by
      intro n hn
      simp only [upsertR] at hn
      split at hn
      · rename_i hc
        have hc' : c = x.coord := by simpa using hc
        simp only [List.mem_cons] at hn
        rcases hn with rfl | hn
        · exact hf x (h x (List.mem_cons_self ..)) hc'.symm
        · exact h n (List.mem_cons_of_mem _ hn)
      · split at hn
        · simp only [List.mem_cons] at hn
          rcases hn with rfl | rfl | hn
          · exact hnew
          · exact h _ (List.mem_cons_self ..)
          · exact h n (List.mem_cons_of_mem _ hn)
        · simp only [List.mem_cons] at hn
          rcases hn with rfl | hn
          · exact h _ (List.mem_cons_self ..)
          · exact upsertR_forall c f xs (fun n hn => h n (List.mem_cons_of_mem _ hn)) hf hnew n hn

theorem upsertR_sorted (c : Pt) (f : RNode → RNode) (hf : ∀ n, (f n).coord = n.coord) :
    ∀ (ns : List RNode), SortedR ns → SortedR (upsertR c f ns)
  | [], _ => by
      simp only [upsertR]; exact List.pairwise_singleton _ _
  | x :: xs, h => by
      have hx := List.pairwise_cons.1 h
      simp only [upsertR]
      split
      · refine List.pairwise_cons.2 ⟨?_, hx.2⟩
        intro y hy; rw [hf]; exact hx.1 y hy
      · rename_i hc
        split
        · rename_i hlt
          refine List.pairwise_cons.2 ⟨?_, h⟩
          intro y hy
          rw [hf]
          simp only [List.mem_cons] at hy
          rcases hy with rfl | hy
          · exact hlt
          · exact lexLt_trans hlt (hx.1 y hy)
        · rename_i hlt
          have hne : c ≠ x.coord := by simpa using hc
          have hxc : lexLt x.coord c = true := lexLt_of_ne_of_not hne (by simpa using hlt)
          refine List.pairwise_cons.2 ⟨?_, upsertR_sorted c f hf xs hx.2⟩
          exact upsertR_forall (P := fun y => lexLt x.coord y.coord = true) c f xs hx.1
            (fun n hn _ => by rw [hf]; exact hn) (by rw [hf]; exact hxc)

theorem findR_none_of_lt {c : Pt} : ∀ {ns : List RNode}, (∀ y ∈ ns, lexLt c y.coord = true) → findR c ns = none
  | [], _ => rfl
  | x :: xs, h => by
      simp only [findR]
      have hx := h x (List.mem_cons_self ..)
      have : x.coord ≠ c := by
        intro he; rw [he, lexLt_irrefl] at hx; cases hx
      rw [if_neg this]
      exact findR_none_of_lt fun y hy => h y (List.mem_cons_of_mem _ hy)

/-- look-up after an insertion into a sorted map -/
theorem findR_upsertR (c c' : Pt) (f : RNode → RNode) (hf : ∀ n, (f n).coord = n.coord) :
    ∀ (ns : List RNode), SortedR ns →
      findR c' (upsertR c f ns) =
        if c' = c then some (f ((findR c ns).getD (RNode.new c))) else findR c' ns
  | [], _ => by
      simp only [upsertR, findR, hf, RNode.new, Option.getD_none]
      by_cases h : c' = c
      · simp [h]
      · simp [h, Ne.symm h]
  | x :: xs, h => by
      have hx := List.pairwise_cons.1 h
      simp only [upsertR]
      split
      · rename_i hc
        have hc' : c = x.coord := by simpa using hc
        simp only [findR, hf]
        by_cases h1 : c' = c
        · subst h1; simp [hc'.symm]
        · have : x.coord ≠ c' := by rw [← hc']; exact Ne.symm h1
          simp [h1, this]
      · rename_i hc
        have hne : c ≠ x.coord := by simpa using hc
        split
        · rename_i hlt
          have hnone : findR c (x :: xs) = none := by
            apply findR_none_of_lt
            intro y hy
            simp only [List.mem_cons] at hy
            rcases hy with rfl | hy
            · exact hlt
            · exact lexLt_trans hlt (hx.1 y hy)
          by_cases h1 : c' = c
          · subst h1
            rw [hnone]
            simp only [findR, hf, RNode.new, if_true, Option.getD_none]
          · have : (f (RNode.new c)).coord ≠ c' := by rw [hf]; exact Ne.symm h1
            rw [if_neg h1]
            conv_lhs => rw [findR, if_neg this]
        · simp only [findR]
          by_cases h2 : x.coord = c'
          · have h1 : c' ≠ c := by rw [← h2]; exact Ne.symm hne
            simp [h2, h1]
          · rw [if_neg h2, if_neg h2, findR_upsertR c c' f hf xs hx.2]
            by_cases h1 : c' = c
            · subst h1
              simp only [if_true]
              rw [if_neg (Ne.symm hne)]
            · simp [h1]

theorem findR_mem {c : Pt} {n : RNode} : ∀ {ns : List RNode}, findR c ns = some n → n ∈ ns ∧ n.coord = c
  | [], h => by simp [findR] at h
  | x :: xs, h => by
      simp only [findR] at h
      split at h
      · cases h; exact ⟨List.mem_cons_self .., by assumption⟩
      · have := findR_mem h
        exact ⟨List.mem_cons_of_mem _ this.1, this.2⟩

/-- a sorted map has one node per coordinate -/
theorem findR_of_mem : ∀ {ns : List RNode}, SortedR ns → ∀ {n : RNode}, n ∈ ns → findR n.coord ns = some n
  | [], _, _, hn => by cases hn
  | x :: xs, h, n, hn => by
      have hx := List.pairwise_cons.1 h
      simp only [List.mem_cons] at hn
      simp only [findR]
      rcases hn with rfl | hn
      · simp
      · have : x.coord ≠ n.coord := by
          intro he
          have := hx.1 n hn
          rw [he, lexLt_irrefl] at this; cases this
        rw [if_neg this]
        exact findR_of_mem hx.2 hn

theorem findR_map (g : RNode → RNode) (hg : ∀ n, (g n).coord = n.coord) (c : Pt) :
    ∀ ns : List RNode, findR c (ns.map g) = (findR c ns).map g
  | [] => rfl
  | x :: xs => by
      simp only [List.map_cons, findR, hg]
      split
      · rfl
      · exact findR_map g hg c xs

theorem sortedR_map (g : RNode → RNode) (hg : ∀ n, (g n).coord = n.coord) {ns : List RNode}
    (h : SortedR ns) : SortedR (ns.map g) := by
  unfold SortedR at *
  rw [List.pairwise_map]
  simpa only [hg] using h

end Geo.Proofs.RELM
