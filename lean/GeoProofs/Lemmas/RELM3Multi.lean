/-
  RELM3 — `NodesLocate` for a MultiLineString whose members all have two distinct consecutive coordinates (every
  member of a valid one): the nodes of the built graph carry the mod-2 label of C17 (`mod2_rule`), which is the
  specification's location (the end-point count of the specification and the insertion count of the graph have the
  same parity: a closed member counts 0 there and 2 here); self-noding (exact arithmetic: every record lies on its
  edge) then only re-labels non-boundary nodes / adds nodes `Inside`, at points of the curves that are not end points.
  No hypothesis on how the members meet each other is needed.
-/
import GeoProofs.Lemmas.RELM3Nodes
import GeoProofs.Props.C17

namespace Geo.Proofs.RELM3
open Geo Geo.GG Geo.RI Geo.Proofs.Spec Geo.Proofs.RELM Geo.Proofs.RELM2 Geo.Proofs.Kernel

/-- the member has at least two distinct consecutive coordinates (`add_line_string` makes an edge of it) -/
def Long (l : List Pt) : Prop := ∃ f s r, dedup l = f :: s :: r

theorem long_length {l : List Pt} (h : Long l) : 2 ≤ l.length := by
  obtain ⟨f, s, r, hd⟩ := h
  have : (dedup l).length ≤ l.length := by
    rw [dedup_eq_dedupConsecutive]; exact Geo.Proofs.C02Q.dedup_length_le l
  rw [hd] at this
  simp at this
  omega

/-- the member is empty or has two distinct consecutive coordinates: it does not collapse to a single point -/
def NoCollapse (l : List Pt) : Prop := l = [] ∨ Long l

/-! ### the edges `add_line_string` makes -/

theorem onPos_lineLabel (idx : Nat) : (lineLabel idx).onPos idx = some .inside := by
  unfold lineLabel Label.new Label.emptyLine Label.set Label.onPos Label.get
  by_cases h : idx = 0 <;> simp [h, TopoPos.on]

theorem edges_addLineString (idx : Nat) (l : List Pt) (G : Graph) :
    ∀ e ∈ (addLineString idx l G).edges, e ∈ G.edges ∨ (e.label = lineLabel idx ∧ e.coords = dedup l ∧ Long l) := by
  intro e he
  unfold addLineString at he
  split at he
  · exact Or.inl he
  · exact Or.inl he
  · rename_i first rest hne hd
    have he' : e ∈ G.edges ++ [⟨first :: rest, lineLabel idx⟩] := he
    rcases List.mem_append.1 he' with h | h
    · exact Or.inl h
    · simp only [List.mem_singleton] at h
      subst h
      refine Or.inr ⟨rfl, hd.symm, ?_⟩
      cases rest with
      | nil => exact absurd rfl hne
      | cons s r => exact ⟨first, s, r, hd⟩

theorem edges_addLineStrings (idx : Nat) : ∀ (ls : List (List Pt)) (G : Graph),
    ∀ e ∈ (addLineStrings idx ls G).edges,
      e ∈ G.edges ∨ (e.label = lineLabel idx ∧ ∃ l ∈ ls, e.coords = dedup l ∧ Long l)
  | [], _, e, he => Or.inl he
  | l :: ls, G, e, he => by
      rcases edges_addLineStrings idx ls _ e he with h | ⟨h1, l', hl', h2⟩
      · rcases edges_addLineString idx l G e h with h | ⟨h1, h2, h3⟩
        · exact Or.inl h
        · exact Or.inr ⟨h1, l, List.mem_cons_self .., h2, h3⟩
      · exact Or.inr ⟨h1, l', List.mem_cons_of_mem _ hl', h2⟩

/-! ### the two end-point counts -/

theorem count1_vs_endC (p : Pt) (l : List Pt) (h : NoCollapse l) :
    endC p l % 2 = GG.endpointCount1 p l % 2 ∧ (GG.endpointCount1 p l = 0 → endC p l = 0) ∧
      (GG.endpointCount1 p l ≠ 0 → p ∈ l ∧ Long l) := by
  rcases h with rfl | h
  · exact ⟨rfl, fun _ => rfl, fun h => absurd rfl h⟩
  have hlong := h
  obtain ⟨f, s, r, hd⟩ := h
  have hhead : l.head? = some f := by rw [← Geo.Proofs.C17L.dedup_head?, hd]; rfl
  obtain ⟨last, hlast⟩ : ∃ last, (f :: s :: r).getLast? = some last := by
    cases h : (f :: s :: r).getLast? with
    | none => simp at h
    | some x => exact ⟨x, rfl⟩
  have hl : l.getLast? = some last := by rw [← Geo.Proofs.RELM.dedup_getLast?, hd, hlast]
  have hfm : f ∈ l := List.mem_of_mem_head? hhead
  have hlm : last ∈ l := List.mem_of_getLast? hl
  unfold GG.endpointCount1 endC
  rw [hd, hhead, hl]
  simp only [hlast, Option.getD_some]
  simp only [beq_iff_eq]
  by_cases h2 : p = f
  · subst h2
    by_cases h3 : p = last
    · subst h3; simp [hfm, hlong]
    · have h3' : ¬ last = p := fun e => h3 e.symm
      simp [h3, h3', hfm, hlong]
  · have h2' : ¬ f = p := fun e => h2 e.symm
    by_cases h3 : p = last
    · subst h3; simp [h2, h2', hlm, hlong]
    · have h3' : ¬ last = p := fun e => h3 e.symm
      simp [h2, h2', h3, h3']

theorem count_vs_esum (p : Pt) : ∀ (ls : List (List Pt)), (∀ l ∈ ls, NoCollapse l) →
    esum p ls % 2 = GG.endpointCount p ls % 2 ∧ (GG.endpointCount p ls = 0 → esum p ls = 0) ∧
      (GG.endpointCount p ls ≠ 0 → ∃ l ∈ ls, p ∈ l ∧ Long l)
  | [], _ => ⟨rfl, fun _ => rfl, fun h => absurd rfl h⟩
  | l :: ls, h => by
      obtain ⟨a1, a2, a3⟩ := count1_vs_endC p l (h l (List.mem_cons_self ..))
      obtain ⟨b1, b2, b3⟩ := count_vs_esum p ls (fun x hx => h x (List.mem_cons_of_mem _ hx))
      simp only [esum, GG.endpointCount]
      refine ⟨by omega, fun h0 => by rw [a2 (by omega), b2 (by omega)], fun h0 => ?_⟩
      by_cases hc : GG.endpointCount1 p l = 0
      · obtain ⟨l', hl', hp⟩ := b3 (by omega)
        exact ⟨l', List.mem_cons_of_mem _ hl', hp⟩
      · exact ⟨l, List.mem_cons_self .., a3 hc⟩

/-! ### the specification's location on a MultiLineString -/

theorem locate_mls (ls : List (List Pt)) (p : Pt) :
    locate (.multiLineString ls) p =
      if onAnySeg p (ls.flatMap segs) then (if esum p ls % 2 = 1 then .onBoundary else .inside) else .outside := by
  show locateParts ⟨[], ls, []⟩ p = _
  rw [locateParts_linear _ _ rfl rfl, endpointCount_eq_esum]
  rfl

theorem onAnySeg_mls {ls : List (List Pt)} {l : List Pt} (hl : l ∈ ls) (h2 : 2 ≤ l.length) {p : Pt} (hp : p ∈ l) :
    onAnySeg p (ls.flatMap segs) = true := onAnySeg_flatMap hl (onAnySeg_of_mem l p hp h2)

/-! ### the built graph -/

theorem not_collapses_of_long {l : List Pt} (h : NoCollapse l) (p : Pt) : GG.collapsesTo p l = false := by
  rcases h with rfl | h
  · rfl
  obtain ⟨f, s, r, hd⟩ := h
  unfold GG.collapsesTo
  rw [hd]
  simp

theorem buildGraph_mls_nodes (idx : Nat) (ls : List (List Pt)) :
    (buildGraph idx (.multiLineString ls)).nodes = (addLineStrings idx ls Graph.empty).nodes := by
  unfold buildGraph
  rw [Geo.Proofs.C17L.addGeometry_multiLineString]

theorem buildGraph_mls_edges (idx : Nat) (ls : List (List Pt)) :
    (buildGraph idx (.multiLineString ls)).edges = (addLineStrings idx ls Graph.empty).edges := by
  unfold buildGraph
  rw [Geo.Proofs.C17L.addGeometry_multiLineString]

/-- **the nodes of the built graph of a MultiLineString carry the specification's location; every other point of
the curves is located `Inside`** -/
theorem locInv_buildGraph_mls (idx : Nat) (ls : List (List Pt)) (hall : ∀ l ∈ ls, NoCollapse l) :
    LocInv idx (locate (.multiLineString ls)) (fun c => onAnySeg c (ls.flatMap segs) = true)
      (buildGraph idx (.multiLineString ls)).nodes := by
  have hni : NInv idx (buildGraph idx (.multiLineString ls)).nodes := by
    rw [buildGraph_mls_nodes]; exact ninv_addLineStrings ls (ninv_nil idx)
  have hmod := fun p => Geo.Proofs.C17.mod2_rule idx ls p (fun l hl => not_collapses_of_long (hall l hl) p)
  refine ⟨?_, ?_⟩
  · intro n hn
    have hfind := findNode_of_mem hni.1 hn
    have hsome := hni.2 n hn
    have hm := hmod n.coord
    unfold Graph.nodeOn at hm
    rw [hfind] at hm
    simp only at hm
    obtain ⟨c1, _, c3⟩ := count_vs_esum n.coord ls hall
    by_cases h0 : GG.endpointCount n.coord ls = 0
    · rw [if_pos h0] at hm; rw [hm] at hsome; cases hsome
    · rw [if_neg h0] at hm
      obtain ⟨l, hl, hp, hlong⟩ := c3 h0
      rw [hm, locate_mls, onAnySeg_mls hl (long_length hlong) hp, if_pos rfl, c1]
      split <;> rfl
  · intro c hR hc
    have hm := hmod c
    unfold Graph.nodeOn at hm
    rw [findNode_none_of_not_mem hc] at hm
    simp only at hm
    obtain ⟨_, c2, _⟩ := count_vs_esum c ls hall
    by_cases h0 : GG.endpointCount c ls = 0
    · rw [locate_mls, hR, if_pos rfl, c2 h0]; rfl
    · rw [if_neg h0] at hm
      split at hm <;> cases hm

/-! ### the self-noded graph -/

theorem fresh_mls_edge (ar : Arith) (idx : Nat) (g : Geom) (ls : List (List Pt))
    (hB : buildGraph idx g = buildGraph idx (.multiLineString ls)) {e : REdge}
    (he : e ∈ (freshGraph ar idx g).edges) :
    e.label = lineLabel idx ∧ ∃ l ∈ ls, e.coords = dedup l ∧ Long l := by
  have hb := fresh_edge_built ar idx _ he
  rw [hB, buildGraph_mls_edges] at hb
  rcases edges_addLineStrings idx ls _ _ hb with h | h
  · cases h
  · exact h

/-- the operand is a linear geometry whose graph and parts are those of the MultiLineString `ls` (a MultiLineString,
or a collection of linear members) -/
structure LinearAs (g : Geom) (ls : List (List Pt)) : Prop where
  graph : ∀ idx, buildGraph idx g = buildGraph idx (.multiLineString ls)
  parts : parts g = ⟨[], ls, []⟩
  ok : ∀ l ∈ ls, NoCollapse l

theorem locate_linearAs {g : Geom} {ls : List (List Pt)} (h : LinearAs g ls) (p : Pt) :
    locate g p = locate (.multiLineString ls) p := by
  unfold locate; rw [h.parts]; rfl

/-- **`NodesLocate` for a linear operand none of whose curves collapses to a point** (exact arithmetic; any mutual
position of the curves) -/
theorem nodesLocate_linear {g : Geom} {ls : List (List Pt)} (h : LinearAs g ls) : NodesLocate Arith.exact g := by
  have hloc : locate g = locate (.multiLineString ls) := funext (locate_linearAs h)
  have hbase : LocInv 1 (locate g) (fun c => onAnySeg c (ls.flatMap segs) = true) (selfNodeBase Arith.exact 1 g).nodes := by
    rw [selfNodeBase_nodes, h.graph 1, hloc]
    exact locInv_buildGraph_mls 1 ls h.ok
  have := locInv_addSelfIntersectionItems (idx := 1)
    (((freshGraph Arith.exact 1 g).edges).map (fun e => (e.label.onPos 1, e.eis.map (·.coord))))
    (G := selfNodeBase Arith.exact 1 g) hbase (by
      intro it hit
      obtain ⟨e, he, rfl⟩ := List.mem_map.1 hit
      obtain ⟨hlab, l, hl, hco, hlong⟩ := fresh_mls_edge _ 1 g ls (h.graph 1) he
      refine ⟨by rw [hlab]; exact onPos_lineLabel 1, ?_⟩
      intro c hc
      obtain ⟨rec, hrec, rfl⟩ := List.mem_map.1 hc
      have hv := (freshGraph_wf 1 _ e he).2 rec hrec
      rw [hco] at hv
      have hon : onAnySeg rec.coord (ls.flatMap segs) = true := by
        rcases onRing_of_validRec hv with h | h
        · exact onAnySeg_flatMap hl h
        · have := long_length hlong
          rw [h] at this
          simp at this
      refine ⟨hon, ?_⟩
      rw [hloc, locate_mls, hon, if_pos rfl]
      split <;> simp)
  rw [← fresh_nodes] at this
  exact this.1

theorem eisAreNodes_linear (ar : Arith) {g : Geom} {ls : List (List Pt)} (h : LinearAs g ls) : EisAreNodes ar g :=
  fresh_eis_sub_nodes ar 1 _ (fun e he => by rw [(fresh_mls_edge ar 1 g ls (h.graph 1) he).1, onPos_lineLabel]; rfl)

/-- a point that is not a node of the graph is not an end point of any curve -/
theorem esum_zero_of_not_node (ar : Arith) {g : Geom} {ls : List (List Pt)} (h : LinearAs g ls) (p : Pt)
    (hp : p ∉ (freshGraph ar 1 g).nodes.map (·.coord)) : endpointCount p ls = 0 := by
  have hb : p ∉ (buildGraph 1 (.multiLineString ls)).nodes.map (·.coord) := by
    rw [← h.graph 1]; exact fun h' => hp (fresh_nodes_of_built ar 1 _ p h')
  have hm := Geo.Proofs.C17.mod2_rule 1 ls p (fun l hl => not_collapses_of_long (h.ok l hl) p)
  unfold Graph.nodeOn at hm
  rw [findNode_none_of_not_mem hb] at hm
  simp only at hm
  rw [endpointCount_eq_esum]
  by_cases h0 : GG.endpointCount p ls = 0
  · exact (count_vs_esum p ls h.ok).2.1 h0
  · rw [if_neg h0] at hm
    split at hm <;> cases hm

theorem long_of_mls_dom {ls : List (List Pt)} (hd : inDomain (.multiLineString ls) = true) : ∀ l ∈ ls, Long l := by
  intro l hl
  have hv : multiLineValid ls = true := by simpa [inDomain, validGeom] using hd
  unfold multiLineValid at hv
  rw [Bool.and_eq_true, List.all_eq_true] at hv
  exact simple_dedup_long (hv.1 l hl)

theorem linearAs_mls {ls : List (List Pt)} (hd : inDomain (.multiLineString ls) = true) :
    LinearAs (.multiLineString ls) ls :=
  ⟨fun _ => rfl, rfl, fun l hl => Or.inr (long_of_mls_dom hd l hl)⟩

end Geo.Proofs.RELM3
