/-
  Lemmas about the executable DE-9IM specification (GeoModel/RelateSpec.lean), part 2:
  point location does not depend on how the point set is written (segment direction, ring start
  vertex, ring direction, order of members / holes).
-/
import GeoModel.RelateSpec
import GeoProofs.Lemmas.SegmentSpec
import Mathlib.Data.List.Perm.Basic
import Mathlib.Tactic.Linarith
import Mathlib.Tactic.Ring

namespace Geo.Proofs.Spec
open Geo Geo.Proofs.Kernel

/-! ### segments -/

/-- A segment contains the same points in either direction. -/
theorem lineCoord_symm (a b p : Pt) : lineCoord a b p = lineCoord b a p := by
  rw [Bool.eq_iff_iff, lineCoord_iff, lineCoord_iff]
  exact SegMem_comm p a b

theorem onAnySeg_iff (p : Pt) (ss : List (Pt × Pt)) :
    onAnySeg p ss = true ↔ ∃ s ∈ ss, lineCoord s.1 s.2 p = true := by
  unfold onAnySeg
  rw [List.any_eq_true]

theorem onAnySeg_append (p : Pt) (a b : List (Pt × Pt)) :
    onAnySeg p (a ++ b) = (onAnySeg p a || onAnySeg p b) := by
  unfold onAnySeg; rw [List.any_append]

theorem onAnySeg_flatMap {α : Type} (p : Pt) (l : List α) (f : α → List (Pt × Pt)) :
    onAnySeg p (l.flatMap f) = l.any (fun x => onAnySeg p (f x)) := by
  unfold onAnySeg; rw [List.any_flatMap]

/-- `onAnySeg` depends only on the *set* of *undirected* segments. -/
theorem onAnySeg_congr (p : Pt) {ss ss' : List (Pt × Pt)}
    (h : ∀ s ∈ ss, s ∈ ss' ∨ s.swap ∈ ss') (h' : ∀ s ∈ ss', s ∈ ss ∨ s.swap ∈ ss) :
    onAnySeg p ss = onAnySeg p ss' := by
  rw [Bool.eq_iff_iff, onAnySeg_iff, onAnySeg_iff]
  constructor
  · rintro ⟨s, hs, hl⟩
    rcases h s hs with h1 | h1
    · exact ⟨s, h1, hl⟩
    · exact ⟨s.swap, h1, by rw [lineCoord_symm]; exact hl⟩
  · rintro ⟨s, hs, hl⟩
    rcases h' s hs with h1 | h1
    · exact ⟨s, h1, hl⟩
    · exact ⟨s.swap, h1, by rw [lineCoord_symm]; exact hl⟩

/-! ### consecutive pairs -/

theorem segs_append_mid (l1 : List Pt) (a : Pt) (l2 : List Pt) :
    segs (l1 ++ a :: l2) = segs (l1 ++ [a]) ++ segs (a :: l2) := by
  induction l1 with
  | nil => simp [segs]
  | cons x t ih =>
    cases t with
    | nil => simp [segs]
    | cons y t' =>
      have e1 : (x :: y :: t') ++ a :: l2 = x :: y :: (t' ++ a :: l2) := rfl
      have e2 : (x :: y :: t') ++ [a] = x :: y :: (t' ++ [a]) := rfl
      rw [e1, e2]
      simp only [segs]
      have := ih
      simp only [List.cons_append] at this
      rw [this]
      rfl

theorem segs_reverse (l : List Pt) : segs l.reverse = ((segs l).map Prod.swap).reverse := by
  induction l with
  | nil => rfl
  | cons a t ih =>
    cases t with
    | nil => rfl
    | cons b t' =>
      have e : (a :: b :: t').reverse = (b :: t').reverse ++ [a] := by simp
      have e' : (b :: t').reverse = t'.reverse ++ [b] := by simp
      rw [e]
      conv_lhs => rw [e', List.append_assoc]
      rw [show [b] ++ [a] = b :: [a] from rfl, segs_append_mid, ← e', ih]
      simp [segs]

theorem mem_segs_reverse (l : List Pt) (s : Pt × Pt) : s ∈ segs l.reverse ↔ s.swap ∈ segs l := by
  rw [segs_reverse, List.mem_reverse, List.mem_map]
  constructor
  · rintro ⟨t, ht, rfl⟩; simpa using ht
  · intro h; exact ⟨s.swap, h, by simp⟩

/-! ### the winding number as a sum of edge contributions -/

/-- contribution of one edge to `windingE` -/
def edgeW (p : EPt) (se : Pt × Pt) : Int :=
  if eLe se.1.y 0 p.y0 p.y1 then
    (if eLt p.y0 p.y1 se.2.y 0 then (if eCrossSign se.1 se.2 p > 0 then 1 else 0) else 0)
  else
    (if eLe se.2.y 0 p.y0 p.y1 then (if eCrossSign se.1 se.2 p < 0 then -1 else 0) else 0)

def wsum (p : EPt) : List (Pt × Pt) → Int
  | [] => 0
  | x :: l => edgeW p x + wsum p l

theorem windingE_foldl (p : EPt) (l : List (Pt × Pt)) (w : Int) :
    l.foldl (fun w (s, e) =>
      if eLe s.y 0 p.y0 p.y1 then
        if eLt p.y0 p.y1 e.y 0 then (if eCrossSign s e p > 0 then w + 1 else w) else w
      else
        if eLe e.y 0 p.y0 p.y1 then (if eCrossSign s e p < 0 then w - 1 else w) else w) w
      = w + wsum p l := by
  induction l generalizing w with
  | nil => simp [wsum]
  | cons x t ih =>
    obtain ⟨s, e⟩ := x
    rw [List.foldl_cons, ih]
    simp only [wsum, edgeW]
    split_ifs <;> omega

theorem windingE_eq_wsum (p : EPt) (ring : List Pt) : windingE p ring = wsum p (segs ring) := by
  unfold windingE
  rw [windingE_foldl]
  omega

theorem wsum_append (p : EPt) (a b : List (Pt × Pt)) : wsum p (a ++ b) = wsum p a + wsum p b := by
  induction a with
  | nil => simp [wsum]
  | cons x t ih => simp only [List.cons_append, wsum, ih]; omega

theorem wsum_reverse (p : EPt) (a : List (Pt × Pt)) : wsum p a.reverse = wsum p a := by
  induction a with
  | nil => rfl
  | cons x t ih => rw [List.reverse_cons, wsum_append, ih]; simp only [wsum]; omega

theorem wsum_perm (p : EPt) {a b : List (Pt × Pt)} (h : a.Perm b) : wsum p a = wsum p b := by
  induction h with
  | nil => rfl
  | cons x _ ih => simp only [wsum, ih]
  | swap x y l => simp only [wsum]; omega
  | trans _ _ ih1 ih2 => rw [ih1, ih2]

theorem eLe_iff (a0 a1 b0 b1 : Rat) : eLe a0 a1 b0 b1 = true ↔ a0 < b0 ∨ (a0 = b0 ∧ a1 ≤ b1) := by
  simp [eLe]

theorem eLt_iff (a0 a1 b0 b1 : Rat) : eLt a0 a1 b0 b1 = true ↔ a0 < b0 ∨ (a0 = b0 ∧ a1 < b1) := by
  simp [eLt]

theorem eLt_iff_not_eLe (a0 a1 b0 b1 : Rat) : eLt a0 a1 b0 b1 = true ↔ ¬ eLe b0 b1 a0 a1 = true := by
  rw [eLe_iff, eLt_iff]
  constructor
  · rintro (h | ⟨h, h'⟩) (g | ⟨g, g'⟩)
    · exact absurd (lt_trans h g) (lt_irrefl _)
    · rw [g] at h; exact lt_irrefl _ h
    · rw [h] at g; exact lt_irrefl _ g
    · exact absurd (lt_of_lt_of_le h' g') (lt_irrefl _)
  · intro h
    rcases lt_trichotomy a0 b0 with g | g | g
    · exact Or.inl g
    · refine Or.inr ⟨g, ?_⟩
      by_contra hc
      exact h (Or.inr ⟨g.symm, not_lt.mp hc⟩)
    · exact absurd (Or.inl g) h

theorem eCrossSign_swap (s e : Pt) (p : EPt) : eCrossSign e s p = - eCrossSign s e p := by
  have h0 : (s.x - e.x) * (p.y0 - s.y) - (s.y - e.y) * (p.x0 - s.x)
      = -((e.x - s.x) * (p.y0 - e.y) - (e.y - s.y) * (p.x0 - e.x)) := by ring
  have h1 : (s.x - e.x) * p.y1 - (s.y - e.y) * p.x1 = -((e.x - s.x) * p.y1 - (e.y - s.y) * p.x1) := by ring
  simp only [eCrossSign, h0, h1]
  generalize (e.x - s.x) * (p.y0 - e.y) - (e.y - s.y) * (p.x0 - e.x) = a
  generalize (e.x - s.x) * p.y1 - (e.y - s.y) * p.x1 = b
  split_ifs <;> first | rfl | (exfalso; linarith)

/-- Reversing an edge negates its contribution. -/
theorem edgeW_swap (p : EPt) (s e : Pt) : edgeW p (e, s) = - edgeW p (s, e) := by
  simp only [edgeW]
  rw [eCrossSign_swap]
  generalize eCrossSign s e p = c
  have k1 : eLt p.y0 p.y1 e.y 0 = !eLe e.y 0 p.y0 p.y1 := by
    rw [Bool.eq_iff_iff, eLt_iff_not_eLe]; simp
  have k2 : eLt p.y0 p.y1 s.y 0 = !eLe s.y 0 p.y0 p.y1 := by
    rw [Bool.eq_iff_iff, eLt_iff_not_eLe]; simp
  rw [k1, k2]
  cases eLe s.y 0 p.y0 p.y1 <;> cases eLe e.y 0 p.y0 p.y1 <;>
    simp only [Bool.not_true, Bool.not_false, Bool.false_eq_true, if_true, if_false] <;>
    (try split_ifs) <;> omega

theorem wsum_map_swap (p : EPt) (l : List (Pt × Pt)) : wsum p (l.map Prod.swap) = - wsum p l := by
  induction l with
  | nil => rfl
  | cons x t ih =>
    obtain ⟨s, e⟩ := x
    simp only [List.map_cons, wsum, ih, Prod.swap, edgeW_swap p s e]
    omega

/-- Reversing the direction of a ring negates the winding number. -/
theorem windingE_reverse (p : EPt) (ring : List Pt) : windingE p ring.reverse = - windingE p ring := by
  rw [windingE_eq_wsum, windingE_eq_wsum, segs_reverse, wsum_reverse, wsum_map_swap]

/-- Starting a closed ring at another vertex (same cyclic edge list) keeps the winding number. -/
theorem windingE_rotate (p : EPt) (a b : Pt) (l1 l2 : List Pt) :
    windingE p (a :: l1 ++ b :: (l2 ++ [a])) = windingE p (b :: l2 ++ a :: (l1 ++ [b])) := by
  rw [windingE_eq_wsum, windingE_eq_wsum, segs_append_mid, segs_append_mid (b :: l2), wsum_append,
    wsum_append]
  simp only [List.cons_append]
  omega

/-! ### rings written differently -/

/-- Two coordinate lists describing the same ring: same points on the ring, winding numbers vanish
together, same single-coordinate status. -/
structure RingEquiv (r r' : List Pt) : Prop where
  seg : ∀ p, onAnySeg p (segs r) = onAnySeg p (segs r')
  wind : ∀ e, windingE e r = 0 ↔ windingE e r' = 0
  single : ∀ p, r = [p] ↔ r' = [p]

theorem RingEquiv.refl (r : List Pt) : RingEquiv r r := ⟨fun _ => rfl, fun _ => Iff.rfl, fun _ => Iff.rfl⟩

theorem RingEquiv.symm {r r' : List Pt} (h : RingEquiv r r') : RingEquiv r' r :=
  ⟨fun p => (h.seg p).symm, fun e => (h.wind e).symm, fun p => (h.single p).symm⟩

theorem RingEquiv.trans {r r' r'' : List Pt} (h : RingEquiv r r') (h' : RingEquiv r' r'') : RingEquiv r r'' :=
  ⟨fun p => (h.seg p).trans (h'.seg p), fun e => (h.wind e).trans (h'.wind e),
   fun p => (h.single p).trans (h'.single p)⟩

/-- ring direction -/
theorem RingEquiv.reverse (r : List Pt) : RingEquiv r r.reverse := by
  refine ⟨fun p => ?_, fun e => ?_, fun p => ?_⟩
  · apply onAnySeg_congr
    · intro s hs; right; rw [mem_segs_reverse]; simpa using hs
    · intro s hs; right; rw [mem_segs_reverse] at hs; exact hs
  · rw [windingE_reverse]; omega
  · constructor
    · intro h; rw [h]; rfl
    · intro h
      have := congrArg List.reverse h
      simpa using this

/-- ring start vertex (closed ring) -/
theorem RingEquiv.rotate (a b : Pt) (l1 l2 : List Pt) :
    RingEquiv (a :: l1 ++ b :: (l2 ++ [a])) (b :: l2 ++ a :: (l1 ++ [b])) := by
  refine ⟨fun p => ?_, fun e => ?_, fun p => ?_⟩
  · rw [segs_append_mid, segs_append_mid (b :: l2), onAnySeg_append, onAnySeg_append, Bool.or_comm]
    rfl
  · rw [windingE_rotate]
  · constructor <;> intro h <;> simp at h

/-! ### polygons written differently -/

structure PolyEquiv (q q' : Poly) : Prop where
  seg : ∀ p, onAnySeg p (q.rings.flatMap segs) = onAnySeg p (q'.rings.flatMap segs)
  inside : ∀ e, insidePolyE e q = insidePolyE e q'
  single : ∀ p, q.rings.any (fun r => r == [p]) = q'.rings.any (fun r => r == [p])

theorem PolyEquiv.refl (q : Poly) : PolyEquiv q q := ⟨fun _ => rfl, fun _ => rfl, fun _ => rfl⟩

theorem PolyEquiv.symm {q q' : Poly} (h : PolyEquiv q q') : PolyEquiv q' q :=
  ⟨fun p => (h.seg p).symm, fun e => (h.inside e).symm, fun p => (h.single p).symm⟩

theorem PolyEquiv.trans {q q' q'' : Poly} (h : PolyEquiv q q') (h' : PolyEquiv q' q'') : PolyEquiv q q'' :=
  ⟨fun p => (h.seg p).trans (h'.seg p), fun e => (h.inside e).trans (h'.inside e),
   fun p => (h.single p).trans (h'.single p)⟩

theorem windingE_ne_congr {e : EPt} {r r' : List Pt} (h : windingE e r = 0 ↔ windingE e r' = 0) :
    (windingE e r != 0) = (windingE e r' != 0) := by
  rw [Bool.eq_iff_iff]; simp [h]

theorem windingE_eq_congr {e : EPt} {r r' : List Pt} (h : windingE e r = 0 ↔ windingE e r' = 0) :
    (windingE e r == 0) = (windingE e r' == 0) := by
  rw [Bool.eq_iff_iff]; simp [h]

theorem beq_single_congr {r r' : List Pt} {p : Pt} (h : r = [p] ↔ r' = [p]) : (r == [p]) = (r' == [p]) := by
  rw [Bool.eq_iff_iff]; simp [h]

/-- the exterior ring re-written -/
theorem PolyEquiv.of_ext {r r' : List Pt} (h : RingEquiv r r') (ints : List (List Pt)) :
    PolyEquiv ⟨r, ints⟩ ⟨r', ints⟩ := by
  refine ⟨fun p => ?_, fun e => ?_, fun p => ?_⟩
  · simp only [Poly.rings, List.flatMap_cons, onAnySeg_append, h.seg p]
  · simp only [insidePolyE, windingE_ne_congr (h.wind e)]
  · simp only [Poly.rings, List.any_cons, beq_single_congr (h.single p)]

/-- one hole re-written -/
theorem PolyEquiv.of_hole {r r' : List Pt} (h : RingEquiv r r') (ext : List Pt) (h1 h2 : List (List Pt)) :
    PolyEquiv ⟨ext, h1 ++ r :: h2⟩ ⟨ext, h1 ++ r' :: h2⟩ := by
  refine ⟨fun p => ?_, fun e => ?_, fun p => ?_⟩
  · simp only [Poly.rings, List.flatMap_cons, List.flatMap_append, onAnySeg_append, h.seg p]
  · simp only [insidePolyE, List.all_append, List.all_cons, windingE_eq_congr (h.wind e)]
  · simp only [Poly.rings, List.any_cons, List.any_append, beq_single_congr (h.single p)]

theorem any_perm {α : Type} {l l' : List α} (h : l.Perm l') (f : α → Bool) : l.any f = l'.any f := by
  rw [Bool.eq_iff_iff, List.any_eq_true, List.any_eq_true]
  constructor <;> rintro ⟨x, hx, hf⟩
  · exact ⟨x, h.mem_iff.mp hx, hf⟩
  · exact ⟨x, h.mem_iff.mpr hx, hf⟩

theorem all_perm {α : Type} {l l' : List α} (h : l.Perm l') (f : α → Bool) : l.all f = l'.all f := by
  rw [Bool.eq_iff_iff, List.all_eq_true, List.all_eq_true]
  constructor <;> intro g x hx
  · exact g x (h.mem_iff.mpr hx)
  · exact g x (h.mem_iff.mp hx)

/-- the holes listed in another order -/
theorem PolyEquiv.of_ints_perm (ext : List Pt) {ints ints' : List (List Pt)} (h : ints.Perm ints') :
    PolyEquiv ⟨ext, ints⟩ ⟨ext, ints'⟩ := by
  refine ⟨fun p => ?_, fun e => ?_, fun p => ?_⟩
  · simp only [Poly.rings, List.flatMap_cons, onAnySeg_append, onAnySeg_flatMap, any_perm h]
  · simp only [insidePolyE, all_perm h]
  · simp only [Poly.rings, List.any_cons, any_perm h]

theorem any_forall₂ {α β : Type} {R : α → β → Prop} {l : List α} {l' : List β} (h : List.Forall₂ R l l')
    {f : α → Bool} {g : β → Bool} (hf : ∀ a b, R a b → f a = g b) : l.any f = l'.any g := by
  induction h with
  | nil => rfl
  | cons hab _ ih => simp only [List.any_cons, hf _ _ hab, ih]

/-! ### curves written differently -/

/-- contribution of one curve to `endpointCount` -/
def endC (p : Pt) (c : List Pt) : Nat :=
  match c.head?, c.getLast? with
  | some f, some l => if f == l then 0 else (if p == f then 1 else 0) + (if p == l then 1 else 0)
  | _, _ => 0

def esum (p : Pt) : List (List Pt) → Nat
  | [] => 0
  | c :: cs => endC p c + esum p cs

theorem foldl_add {α : Type} (f : Nat → α → Nat) (g : α → Nat) (h : ∀ n c, f n c = n + g c)
    (cs : List α) (n : Nat) : cs.foldl f n = n + (cs.map g).sum := by
  induction cs generalizing n with
  | nil => simp
  | cons c t ih => rw [List.foldl_cons, ih, h]; simp; omega

theorem esum_eq (p : Pt) (cs : List (List Pt)) : esum p cs = (cs.map (endC p)).sum := by
  induction cs with
  | nil => rfl
  | cons c t ih => simp [esum, ih]

theorem endpointCount_eq_esum (p : Pt) (cs : List (List Pt)) : endpointCount p cs = esum p cs := by
  unfold endpointCount
  rw [foldl_add _ (endC p), esum_eq]
  · omega
  · intro n c
    simp only [endC]
    cases c.head? <;> cases c.getLast? <;> simp only [] <;> (try split_ifs) <;> omega

theorem esum_perm (p : Pt) {a b : List (List Pt)} (h : a.Perm b) : esum p a = esum p b := by
  induction h with
  | nil => rfl
  | cons x _ ih => simp only [esum, ih]
  | swap x y l => simp only [esum]; omega
  | trans _ _ ih1 ih2 => rw [ih1, ih2]

structure CurveEquiv (c c' : List Pt) : Prop where
  seg : ∀ p, onAnySeg p (segs c) = onAnySeg p (segs c')
  ends : ∀ p, endC p c = endC p c'

theorem CurveEquiv.refl (c : List Pt) : CurveEquiv c c := ⟨fun _ => rfl, fun _ => rfl⟩

theorem CurveEquiv.symm {c c' : List Pt} (h : CurveEquiv c c') : CurveEquiv c' c :=
  ⟨fun p => (h.seg p).symm, fun p => (h.ends p).symm⟩

theorem CurveEquiv.trans {c c' c'' : List Pt} (h : CurveEquiv c c') (h' : CurveEquiv c' c'') : CurveEquiv c c'' :=
  ⟨fun p => (h.seg p).trans (h'.seg p), fun p => (h.ends p).trans (h'.ends p)⟩

/-- curve direction -/
theorem CurveEquiv.reverse (c : List Pt) : CurveEquiv c c.reverse := by
  refine ⟨fun p => (RingEquiv.reverse c).seg p, fun p => ?_⟩
  simp only [endC, List.head?_reverse, List.getLast?_reverse]
  cases h1 : c.head? <;> cases h2 : c.getLast? <;> simp only []
  rename_i f l
  rw [show (l == f) = (f == l) from BEq.comm]
  split_ifs <;> omega

/-- start vertex of a closed curve -/
theorem CurveEquiv.rotate (a b : Pt) (l1 l2 : List Pt) :
    CurveEquiv (a :: l1 ++ b :: (l2 ++ [a])) (b :: l2 ++ a :: (l1 ++ [b])) := by
  refine ⟨fun p => (RingEquiv.rotate a b l1 l2).seg p, fun p => ?_⟩
  have e1 : (a :: l1 ++ b :: (l2 ++ [a])) = (a :: (l1 ++ b :: l2)) ++ [a] := by simp
  have e2 : (b :: l2 ++ a :: (l1 ++ [b])) = (b :: (l2 ++ a :: l1)) ++ [b] := by simp
  simp only [endC, e1, e2, List.getLast?_concat]
  simp

/-! ### normal form of `locateParts` -/

def inAnyPoly (as : List Poly) (p : Pt) : Bool :=
  as.any (fun q => !(onAnySeg p (q.rings.flatMap segs)) && insidePolyE (EPt.ofPt p) q)

def onAnyRing (as : List Poly) (p : Pt) : Bool :=
  as.any (fun q => onAnySeg p (q.rings.flatMap segs)) || as.any (fun q => q.rings.any (fun r => r == [p]))

def onAnyCurve (cs : List (List Pt)) (p : Pt) : Bool := cs.any (fun c => onAnySeg p (segs c))

theorem areaSegs_eq (ps : Parts) : ps.areaSegs = ps.areas.flatMap (fun q => q.rings.flatMap segs) := by
  unfold Parts.areaSegs; rw [List.flatMap_assoc]

theorem onAnySeg_areaSegs (ps : Parts) (p : Pt) :
    onAnySeg p ps.areaSegs = ps.areas.any (fun q => onAnySeg p (q.rings.flatMap segs)) := by
  rw [areaSegs_eq, onAnySeg_flatMap]

theorem onAnySeg_curveSegs (ps : Parts) (p : Pt) : onAnySeg p ps.curveSegs = onAnyCurve ps.curves p := by
  unfold Parts.curveSegs onAnyCurve; rw [onAnySeg_flatMap]

theorem locateParts_eq (ps : Parts) (p : Pt) : locateParts ps p =
    if inAnyPoly ps.areas p then .inside
    else if onAnyRing ps.areas p then .onBoundary
    else if onAnyCurve ps.curves p then (if esum p ps.curves % 2 == 1 then .onBoundary else .inside)
    else if ps.pts.any (· == p) then .inside
    else .outside := by
  unfold locateParts
  rw [onAnySeg_areaSegs, onAnySeg_curveSegs, endpointCount_eq_esum]
  rfl

theorem locateFace_eq (ps : Parts) (e : EPt) :
    locateFace ps e = if ps.areas.any (insidePolyE e) then .inside else .outside := rfl

/-! ### congruence of point location -/

theorem esum_forall₂ (p : Pt) {cs cs' : List (List Pt)} (h : List.Forall₂ CurveEquiv cs cs') :
    esum p cs = esum p cs' := by
  induction h with
  | nil => rfl
  | cons hab _ ih => simp only [esum, hab.ends p, ih]

/-- **Point location depends only on the point sets written**: members may be re-written
(`CurveEquiv`: direction, start vertex of a closed curve; `PolyEquiv`: ring start vertex, ring
direction, order of holes) and isolated points listed in any order / multiplicity. -/
theorem locateParts_congr {pts pts' : List Pt} {cs cs' : List (List Pt)} {as as' : List Poly} (p : Pt)
    (hp : ∀ x, x ∈ pts ↔ x ∈ pts') (hc : List.Forall₂ CurveEquiv cs cs')
    (ha : List.Forall₂ PolyEquiv as as') :
    locateParts ⟨pts, cs, as⟩ p = locateParts ⟨pts', cs', as'⟩ p := by
  rw [locateParts_eq, locateParts_eq]
  have e1 : inAnyPoly as p = inAnyPoly as' p :=
    any_forall₂ ha (fun a b hab => by rw [hab.seg p, hab.inside])
  have e2 : onAnyRing as p = onAnyRing as' p := by
    unfold onAnyRing
    rw [any_forall₂ ha (fun a b hab => hab.seg p), any_forall₂ ha (fun a b hab => hab.single p)]
  have e3 : onAnyCurve cs p = onAnyCurve cs' p := any_forall₂ hc (fun a b hab => hab.seg p)
  have e4 : esum p cs = esum p cs' := esum_forall₂ p hc
  have e5 : pts.any (· == p) = pts'.any (· == p) := by
    rw [Bool.eq_iff_iff, List.any_eq_true, List.any_eq_true]
    constructor <;> rintro ⟨x, hx, hf⟩
    · exact ⟨x, (hp x).mp hx, hf⟩
    · exact ⟨x, (hp x).mpr hx, hf⟩
  simp only [e1, e2, e3, e4, e5]

theorem locateFace_congr {pts pts' : List Pt} {cs cs' : List (List Pt)} {as as' : List Poly} (e : EPt)
    (ha : List.Forall₂ PolyEquiv as as') :
    locateFace ⟨pts, cs, as⟩ e = locateFace ⟨pts', cs', as'⟩ e := by
  rw [locateFace_eq, locateFace_eq]
  simp only [any_forall₂ ha (fun a b hab => hab.inside e)]

/-- Members / holes / points listed in another order. -/
theorem locateParts_perm {pts pts' : List Pt} {cs cs' : List (List Pt)} {as as' : List Poly} (p : Pt)
    (hp : pts.Perm pts') (hc : cs.Perm cs') (ha : as.Perm as') :
    locateParts ⟨pts, cs, as⟩ p = locateParts ⟨pts', cs', as'⟩ p := by
  rw [locateParts_eq, locateParts_eq]
  have e1 : inAnyPoly as p = inAnyPoly as' p := any_perm ha _
  have e2 : onAnyRing as p = onAnyRing as' p := by
    unfold onAnyRing; rw [any_perm ha, any_perm ha]
  have e3 : onAnyCurve cs p = onAnyCurve cs' p := any_perm hc _
  have e4 : esum p cs = esum p cs' := esum_perm p hc
  have e5 : pts.any (· == p) = pts'.any (· == p) := any_perm hp _
  simp only [e1, e2, e3, e4, e5]

theorem locateFace_perm {pts pts' : List Pt} {cs cs' : List (List Pt)} {as as' : List Poly} (e : EPt)
    (ha : as.Perm as') :
    locateFace ⟨pts, cs, as⟩ e = locateFace ⟨pts', cs', as'⟩ e := by
  rw [locateFace_eq, locateFace_eq]
  simp only [any_perm ha]

theorem forall₂_refl_of {α : Type} {R : α → α → Prop} (h : ∀ a, R a a) (l : List α) : List.Forall₂ R l l := by
  induction l with
  | nil => exact List.Forall₂.nil
  | cons a t ih => exact List.Forall₂.cons (h a) ih

/-- one member polygon re-written, anywhere in the list -/
theorem forall₂_poly_at {q q' : Poly} (h : PolyEquiv q q') (pre post : List Poly) :
    List.Forall₂ PolyEquiv (pre ++ q :: post) (pre ++ q' :: post) := by
  induction pre with
  | nil => exact List.Forall₂.cons h (forall₂_refl_of PolyEquiv.refl post)
  | cons a t ih => exact List.Forall₂.cons (PolyEquiv.refl a) ih

theorem forall₂_curve_at {c c' : List Pt} (h : CurveEquiv c c') (pre post : List (List Pt)) :
    List.Forall₂ CurveEquiv (pre ++ c :: post) (pre ++ c' :: post) := by
  induction pre with
  | nil => exact List.Forall₂.cons h (forall₂_refl_of CurveEquiv.refl post)
  | cons a t ih => exact List.Forall₂.cons (CurveEquiv.refl a) ih

end Geo.Proofs.Spec
