/-
  MONO3 (C10): helper facts for the ownership step — step 3a keeps the chain indices of the payloads (it only clears
  `help` cells of ending segments), the segment below the point lies strictly across it, `drain` splits a vector.
-/
import GeoProofs.Lemmas.MONO3StepsB

namespace Geo.Proofs.MONO3
open Geo Geo.Mono Geo.MonoBuild Geo.Proofs.C10 Geo.Proofs.MONO Geo.Proofs.MONO2

/-- Step 3a writes nothing but `help := None` and keeps the number of chain slots -/
theorem reduceIncoming_isub (pt : Pt) : ∀ (l : List Nat) (st st' : St), reduceIncoming pt l st = some st' →
    InfoSub st st' ∧ st'.chains.length = st.chains.length
  | [], st, st', h => by
    simp only [reduceIncoming] at h; cases h; exact ⟨InfoSub.refl _, rfl⟩
  | [_], st, st', h => by
    simp only [reduceIncoming] at h; cases h
  | first :: second :: rest, st, st', h => by
    simp only [reduceIncoming] at h
    osplit h
    osplit h
    rename_i fc st1 h1
    obtain ⟨a1, b1⟩ := takeChain_sl h1
    osplit h
    rename_i sc st2 h2
    obtain ⟨a2, b2⟩ := takeChain_sl h2
    have i2 : InfoSub st st2 := infoSub_of_segs (by rw [a2, a1])
    osplit h
    · osplit h
      rename_i st3 h3
      obtain ⟨i3, _, c3, _⟩ := setInfo_help_none h3
      osplit h
      rename_i fhc st4 h4
      obtain ⟨a4, b4⟩ := takeChain_sl h4
      osplit h
      rename_i shc st5 h5
      obtain ⟨a5, b5⟩ := takeChain_sl h5
      osplit h
      obtain ⟨r1, r2⟩ := reduceIncoming_isub pt rest _ _ h
      have i5 : InfoSub st st5 := (i2.trans i3).trans (infoSub_of_segs (by rw [a5, a4]))
      refine ⟨i5.trans (InfoSub.trans (infoSub_of_segs (st := st5) rfl) r1), ?_⟩
      rw [r2]; simp only
      rw [b5, b4, c3, b2, b1]
    · osplit h
      obtain ⟨r1, r2⟩ := reduceIncoming_isub pt rest _ _ h
      refine ⟨i2.trans (InfoSub.trans (infoSub_of_segs (st := st2) rfl) r1), ?_⟩
      rw [r2]; simp only
      rw [b2, b1]

/-- the segment below `pt` lies strictly across `pt`: its left end before, its right end after -/
theorem prevActive_across {st : St} {pt : Pt} {b : Nat} (hi : SInv st) (h : st.prevActive pt = some b) :
    ∃ s : Seg, st.segs[b]? = some s ∧ lexLt s.line.left pt = true ∧ lexLt pt s.line.right = true := by
  obtain ⟨l, hl, hlt⟩ := prevActive_lt h
  obtain ⟨s, hs, hsl⟩ := lineOf_seg hl
  have hok : LineOk l := by rw [← hsl]; exact hi.lines s (mem_of_getElem? hs)
  refine ⟨s, hs, ?_⟩
  rw [hsl]
  have nl : l.left ≠ pt := fun e => by rw [not_lt_endpoint hok (Or.inl e)] at hlt; cases hlt
  have nr : l.right ≠ pt := fun e => by rw [not_lt_endpoint hok (Or.inr e)] at hlt; cases hlt
  obtain ⟨a, c, rfl, hac⟩ := hok
  simp only [LoP.left, LoP.right] at nl nr ⊢
  simp only [LoP.lt, LoP.cmp?, linePointCmp] at hlt
  split at hlt
  · simp at hlt
  · rename_i hc
    simp only [Bool.or_eq_true, not_or, Bool.not_eq_true] at hc
    refine ⟨?_, ?_⟩
    · cases hx : lexLt a pt with
      | true => rfl
      | false => exact absurd (lex_antisymm hx hc.2) nl
    · cases hx : lexLt pt c with
      | true => rfl
      | false => exact absurd (lex_antisymm hc.1 hx) nr

/-- `drain(start..ub)` splits the vector -/
theorem drainRange_mem (v : List Nat) (a b : Nat) (hab : a ≤ b) {x : Nat} (hx : x ∈ v) :
    x ∈ (drainRange v a b).1 ∨ x ∈ (drainRange v a b).2 := by
  unfold drainRange
  simp only
  have h1 : v = v.take b ++ v.drop b := (List.take_append_drop b v).symm
  have h2 : v.take b = (v.take b).take a ++ (v.take b).drop a := (List.take_append_drop a _).symm
  have h3 : (v.take b).take a = v.take a := by rw [List.take_take]; congr 1; omega
  rw [h1] at hx
  rcases List.mem_append.1 hx with g | g
  · rw [h2] at g
    rcases List.mem_append.1 g with g | g
    · right; rw [h3] at g; exact List.mem_append_left _ g
    · left; exact g
  · right; exact List.mem_append_right _ g

end Geo.Proofs.MONO3
