/-
  C04X, part 7: two members of a valid MultiPolygon (polygons with holes, `II = F`, `dim BB ≤ 0`)
  never both contain a point — on a level that avoids every vertex of their common arrangement.

  Scan to the left of the point `(x, y)` to the nearest crossing `T` of any ring of the two members.
  `T` is not a vertex of the arrangement, so it lies strictly inside an elementary sub-segment of an
  edge `(a, b)` of a ring `R` of (say) the first member. No ring of the second member passes through
  `T` (it would contain the whole sub-segment: `BB` of dimension 1), no other ring of the first member
  does (WIND). So at the midpoint of the sub-segment every other ring winds as it does at `(x, y)`,
  and one of the two face samples beside it has the winding number of `(x, y)` about `R` as well
  (`simple_faces`: the faces carry `L` and `L − 1`, the only two values a simple ring takes): an atom
  located in the interior of both members — `II ≠ F`.
-/
import GeoProofs.Lemmas.C04XMulti
import GeoProofs.Lemmas.C02XCommon

set_option linter.unusedSimpArgs false
set_option linter.unusedVariables false

namespace Geo.Proofs.C04X
open Geo Geo.IP Geo.Proofs.Kernel Geo.Proofs.Spec Geo.Proofs.C02Q Geo.Proofs.C12 Geo.Proofs.WIND
open Geo.Proofs.SMLX

/-- the winding number of a simple ring on a coordinate-avoiding level is one of the two values
carried by the face samples beside the ring -/
theorem simple_wind_LL {r0 : List Pt} (h : ringSimple r0 = true) {L : Int} (hL01 : L = 0 ∨ L = 1)
    (hL : ∀ a b P, (a, b) ∈ segs r0 → SegMem P a b → P ∉ r0 →
      windingE (faceL a b P) r0 = L ∧ windingE (faceR a b P) r0 = L - 1)
    (x y : Rat) (hy : ∀ v ∈ r0, v.y ≠ y) :
    windingE (EPt.ofPt ⟨x, y⟩) r0 = L ∨ windingE (EPt.ofPt ⟨x, y⟩) r0 = L - 1 := by
  have hc := closed_of_simple h
  rw [winding_level_right x y r0 hc hy]
  by_cases hex : ∃ t ∈ (segs r0).flatMap (crossXs y), x < t
  · obtain ⟨t1, ht1, hlt, hmin⟩ := exists_min_above x _ hex
    obtain ⟨⟨a, b⟩, he, hsg, rfl⟩ := mem_crossXs ht1
    have hsge : psum y (fun t => !decide (t ≤ x)) (segs r0) = sge y (xAt y (a, b)) (segs r0) := by
      unfold sge
      apply psum_congr
      intro t ht
      by_cases hle : t ≤ x
      · have : ¬ xAt y (a, b) ≤ t := by intro h'; linarith
        simp [hle, this]
      · have : xAt y (a, b) ≤ t := hmin t ht (not_le.1 hle)
        simp [hle, this]
    rw [hsge, crossing_suffix h hL hy he hsg]
    by_cases h1 : sgnE y (a, b) = 1
    · rw [if_pos h1]; exact Or.inl rfl
    · rw [if_neg h1]; exact Or.inr rfl
  · have hz : psum y (fun t => !decide (t ≤ x)) (segs r0) = 0 := by
      apply psum_zero
      intro t ht
      have : t ≤ x := by
        by_contra hn
        exact hex ⟨t, ht, not_le.1 hn⟩
      simp [this]
    rw [hz]
    rcases hL01 with rfl | rfl
    · exact Or.inl rfl
    · exact Or.inr rfl

/-- the winding number about a ring of the arrangement is constant on an elementary sub-segment
that the ring does not pass through -/
theorem winding_const_elem {pa pb : Parts} {R : List Pt} (hc : R.head? = R.getLast?)
    (hR : ∀ s ∈ segs R, s ∈ pa.allSegs ++ pb.allSegs)
    {a b u v : Pt} (hs : (a, b) ∈ pa.allSegs ++ pb.allSegs) (E : Elem (vertsOf pa pb) a b u v)
    {z m : Pt} (hz : Within a b u v z) (hm : Within a b u v m) (hoff : onAnySeg z (segs R) = false) :
    onAnySeg m (segs R) = false ∧ windingE (EPt.ofPt m) R = windingE (EPt.ofPt z) R := by
  have hoff' : ∀ w, Within a b u v w → ∀ s ∈ segs R, ¬ SegMem w s.1 s.2 := by
    intro w hw s hs' hws
    have ht : (s.1, s.2) ∈ pa.allSegs ++ pb.allSegs := hR s hs'
    have := edge_all_or_nothing hs ht E hw hws hz
    have hon' : onAnySeg z (segs R) = true := by
      rw [Geo.Proofs.Loc.onAnySeg_iff]
      exact ⟨s, hs', (lineCoord_iff _ _ _).mpr this⟩
    rw [hoff] at hon'; cases hon'
  constructor
  · cases hb : onAnySeg m (segs R) with
    | false => rfl
    | true =>
      rw [Geo.Proofs.Loc.onAnySeg_iff] at hb
      obtain ⟨s, hs', hl⟩ := hb
      exact absurd ((lineCoord_iff _ _ _).mp hl) (hoff' m hm s hs')
  · apply windingE_const R hc m z
    intro s hs' ⟨x, hx1, hx2⟩
    exact hoff' x (Within.convex E.hab hm hz hx2) s hs' hx1

theorem segs_mem_partsOfPoly {m : Poly} {R : List Pt} (hR : R ∈ m.rings) :
    ∀ s ∈ segs R, s ∈ (partsOfPoly m).allSegs := by
  intro s hs
  simp only [partsOfPoly, Parts.allSegs, Parts.curveSegs, Parts.areaSegs, List.flatMap_nil,
    List.nil_append, List.flatMap_cons, List.append_nil]
  exact List.mem_flatMap.2 ⟨R, hR, hs⟩

theorem locateParts_partsOfPoly_boundary {m : Poly} {R : List Pt} (hR : R ∈ m.rings) {z : Pt}
    (hz : onAnySeg z (segs R) = true) : locateParts (partsOfPoly m) z = .onBoundary := by
  have hon : onAnySeg z (m.rings.flatMap segs) = true := by
    rw [Geo.Proofs.Loc.onAnySeg_iff] at hz ⊢
    obtain ⟨s, hs, hl⟩ := hz
    exact ⟨s, List.mem_flatMap.2 ⟨R, hR, hs⟩, hl⟩
  have hon2 : onAnySeg z (partsOfPoly m).areaSegs = true := by
    simpa [partsOfPoly, Parts.areaSegs] using hon
  unfold locateParts
  simp only [partsOfPoly, List.any_cons, List.any_nil, Bool.or_false, hon, Bool.not_true,
    Bool.false_and, Bool.false_eq_true, if_false]
  simp only [partsOfPoly] at hon2
  simp [hon2]

theorem locateFace_partsOfPoly (m : Poly) (q : EPt) :
    locateFace (partsOfPoly m) q = if insidePolyE q m = true then .inside else .outside := by
  simp [locateFace, partsOfPoly]

/-- the crossings of two different rings of a valid polygon are disjoint -/
theorem valid_rings_crossings {q : Poly} (hv : polyValid q = true) {y : Rat}
    (hy : ∀ v ∈ q.coords, v.y ≠ y) {R R' : List Pt} (hR : R ∈ q.rings) (hR' : R' ∈ q.rings)
    (hne : R ≠ R') {t : Rat} (ht : t ∈ (segs R).flatMap (crossXs y)) :
    t ∉ (segs R').flatMap (crossXs y) := by
  have hsym : ∀ h1 h2 : List Pt, (∀ t ∈ (segs h1).flatMap (crossXs y), t ∉ (segs h2).flatMap (crossXs y)) →
      (∀ t ∈ (segs h2).flatMap (crossXs y), t ∉ (segs h1).flatMap (crossXs y)) :=
    fun h1 h2 H t h2' h1' => H t h1' h2'
  have hholes := valid_hole_crossings_disjoint hv hy
  have hshell := valid_hole_shell_disjoint hv hy
  unfold Poly.rings at hR hR'
  rcases List.mem_cons.1 hR with rfl | hR
  · rcases List.mem_cons.1 hR' with rfl | hR'
    · exact absurd rfl hne
    · exact fun h' => hshell R' hR' t h' ht
  · rcases List.mem_cons.1 hR' with rfl | hR'
    · exact hshell R hR t ht
    · rw [List.pairwise_iff_getElem] at hholes
      obtain ⟨i, hi, rfl⟩ := List.getElem_of_mem hR
      obtain ⟨j, hj, rfl⟩ := List.getElem_of_mem hR'
      rcases lt_trichotomy i j with hij | hij | hij
      · exact hholes i j hi hj hij t ht
      · subst hij; exact absurd rfl hne
      · exact fun h' => hholes j i hj hi hij t h' ht

/-- **the core**: the nearest crossing on the left belongs to a ring of the first member -/
theorem members_apart_core {m1 m2 : Poly} (hv1 : polyValid m1 = true) (hv2 : polyValid m2 = true)
    (hii : (relateParts (partsOfPoly m1) (partsOfPoly m2)).ii = .empty)
    (hbb : dimLe0 (relateParts (partsOfPoly m1) (partsOfPoly m2)).bb = true)
    (x y : Rat) (hy : ∀ v ∈ vertsOf (partsOfPoly m1) (partsOfPoly m2), v.y ≠ y)
    (h1 : insidePolyE (EPt.ofPt ⟨x, y⟩) m1 = true) (h2 : insidePolyE (EPt.ofPt ⟨x, y⟩) m2 = true)
    {t0 : Rat} {R : List Pt} (hR : R ∈ m1.rings) (ht0 : t0 ∈ (segs R).flatMap (crossXs y))
    (ht0x : t0 ≤ x)
    (hmax : ∀ R' ∈ m1.rings ++ m2.rings, ∀ t ∈ (segs R').flatMap (crossXs y), t ≤ x → t ≤ t0) :
    False := by
  set pa := partsOfPoly m1 with hpa
  set pb := partsOfPoly m2 with hpb
  -- rings are simple, closed, and their coordinates are vertices of the arrangement
  have hsimple : ∀ (m : Poly), polyValid m = true → ∀ R' ∈ m.rings, ringSimple R' = true := by
    intro m hv R' hR'
    obtain ⟨hse, hs, _⟩ := polyValid_unpack hv
    unfold Poly.rings at hR'
    rcases List.mem_cons.1 hR' with rfl | h
    · exact hse
    · exact hs R' h
  have hsegsA : ∀ R' ∈ m1.rings, ∀ s ∈ segs R', s ∈ pa.allSegs ++ pb.allSegs :=
    fun R' hR' s hs => List.mem_append_left _ (segs_mem_partsOfPoly hR' s hs)
  have hsegsB : ∀ R' ∈ m2.rings, ∀ s ∈ segs R', s ∈ pa.allSegs ++ pb.allSegs :=
    fun R' hR' s hs => List.mem_append_right _ (segs_mem_partsOfPoly hR' s hs)
  have hcoord : ∀ R', (∀ s ∈ segs R', s ∈ pa.allSegs ++ pb.allSegs) → ringSimple R' = true →
      ∀ w ∈ R', w ∈ vertsOf pa pb := by
    intro R' hseg hs w hw
    obtain ⟨s, hs1, hs2⟩ := mem_segs_end R' w (ringOK_of_simple hs).2 hw
    obtain ⟨e1, e2⟩ := ends_mem_vertsOf (hseg s hs1)
    rcases hs2 with h | h
    · rw [h]; exact e1
    · rw [h]; exact e2
  have hlevA : ∀ R' ∈ m1.rings, ∀ w ∈ R', w.y ≠ y := fun R' hR' w hw =>
    hy w (hcoord R' (hsegsA R' hR') (hsimple m1 hv1 R' hR') w hw)
  have hlevB : ∀ R' ∈ m2.rings, ∀ w ∈ R', w.y ≠ y := fun R' hR' w hw =>
    hy w (hcoord R' (hsegsB R' hR') (hsimple m2 hv2 R' hR') w hw)
  have hy1 : ∀ w ∈ m1.coords, w.y ≠ y := by
    intro w hw
    unfold Poly.coords at hw
    rcases List.mem_append.1 hw with h | h
    · exact hlevA m1.ext (by simp [Poly.rings]) w h
    · obtain ⟨r, hr, hwr⟩ := List.mem_flatten.1 h
      exact hlevA r (by simp [Poly.rings, hr]) w hwr
  -- the crossing
  obtain ⟨⟨a, b⟩, hab, hsg, rfl⟩ := mem_crossXs ht0
  have hPT : SegMem ⟨xAt y (a, b), y⟩ a b := xAt_segMem hsg
  have habne : a ≠ b := by
    intro e
    have := sgnE_ne_zero_ne hsg
    simp only at this
    rw [e] at this
    exact this (sub_self _)
  have hs : (a, b) ∈ pa.allSegs ++ pb.allSegs := hsegsA R hR (a, b) hab
  have hTnv : (⟨xAt y (a, b), y⟩ : Pt) ∉ vertsOf pa pb := fun hm => hy _ hm rfl
  obtain ⟨ha, hb⟩ := ends_mem_vertsOf hs
  obtain ⟨u, v, E, hTw⟩ := exists_elem habne ha hb hPT hTnv
  have hmw := E.midpoint_within
  obtain ⟨_, hnv, hall⟩ := segAtoms_of_pair pa pb habne E.pair E.ne
  have hmemA : ∀ z, IsAtomAt pa pb a b (midpoint u v) z → z ∈ atomsOf pa pb := by
    intro z hz
    unfold atomsOf
    exact List.mem_append_right _ (List.mem_flatMap.mpr ⟨(a, b), hs, hall z hz⟩)
  have hsR := hsimple m1 hv1 R hR
  have hmidR : onAnySeg (midpoint u v) (segs R) = true := by
    rw [Geo.Proofs.Loc.onAnySeg_iff]
    exact ⟨(a, b), hab, (lineCoord_iff _ _ _).mpr hmw.1⟩
  -- rings of the second member do not pass through `T`
  have hoffB : ∀ R' ∈ m2.rings, onAnySeg ⟨xAt y (a, b), y⟩ (segs R') = false := by
    intro R' hR'
    cases hon : onAnySeg ⟨xAt y (a, b), y⟩ (segs R') with
    | false => rfl
    | true =>
      exfalso
      rw [Geo.Proofs.Loc.onAnySeg_iff] at hon
      obtain ⟨s, hs', hl⟩ := hon
      have ht : (s.1, s.2) ∈ pa.allSegs ++ pb.allSegs := hsegsB R' hR' s hs'
      have hmid := edge_all_or_nothing hs ht E hTw ((lineCoord_iff _ _ _).mp hl) hmw
      have hmidR' : onAnySeg (midpoint u v) (segs R') = true := by
        rw [Geo.Proofs.Loc.onAnySeg_iff]
        exact ⟨s, hs', (lineCoord_iff _ _ _).mpr hmid⟩
      have hA : locateParts pa (midpoint u v) = .onBoundary := locateParts_partsOfPoly_boundary hR hmidR
      have hB : locateParts pb (midpoint u v) = .onBoundary := locateParts_partsOfPoly_boundary hR' hmidR'
      have hatom := cell_ge_of_atom (hmemA ⟨.one, locateParts pa (midpoint u v), locateParts pb (midpoint u v)⟩
        (Or.inl rfl))
      simp only [hA, hB] at hatom
      have hr : 2 ≤ ((relateParts pa pb).bb).rank := hatom
      have hr2 : ((relateParts pa pb).bb).rank ≤ 1 := by simpa [dimLe0] using hbb
      omega
  -- other rings of the first member do not pass through `T`
  have hoffA : ∀ R' ∈ m1.rings, R' ≠ R → onAnySeg ⟨xAt y (a, b), y⟩ (segs R') = false := by
    intro R' hR' hne
    cases hon : onAnySeg ⟨xAt y (a, b), y⟩ (segs R') with
    | false => rfl
    | true =>
      exfalso
      have hcr := on_ring_crossing (hlevA R' hR') hon
      exact valid_rings_crossings hv1 hy1 hR hR' (Ne.symm hne) ht0 hcr
  -- a ring that does not pass through `T` winds at the face samples as at `(x, y)`
  have hsame : ∀ R', (∀ s ∈ segs R', s ∈ pa.allSegs ++ pb.allSegs) → ringSimple R' = true →
      (∀ w ∈ R', w.y ≠ y) → R' ∈ m1.rings ++ m2.rings →
      onAnySeg ⟨xAt y (a, b), y⟩ (segs R') = false → ∀ x1 y1 : Rat,
      windingE ⟨(midpoint u v).x, x1, (midpoint u v).y, y1⟩ R' = windingE (EPt.ofPt ⟨x, y⟩) R' := by
    intro R' hseg hsim hlev hmemR hoff x1 y1
    have hc := closed_of_simple hsim
    obtain ⟨hoffm, hwm⟩ := winding_const_elem hc hseg hs E hTw hmw hoff
    rw [windingE_perturb R' hc (midpoint u v) x1 y1 hoffm, hwm]
    apply winding_same_level _ _ y R' hc hlev
    intro t ht
    constructor
    · intro h; exact le_trans h ht0x
    · intro h
      have hle := hmax R' hmemR t ht h
      exact hle
  -- the second member: both faces are inside
  have hB : ∀ x1 y1 : Rat, insidePolyE ⟨(midpoint u v).x, x1, (midpoint u v).y, y1⟩ m2 = true := by
    intro x1 y1
    rw [← h2]
    apply Geo.Proofs.C02X.insidePolyE_congr
    intro R' hR'
    exact hsame R' (hsegsB R' hR') (hsimple m2 hv2 R' hR') (hlevB R' hR') (List.mem_append_right _ hR')
      (hoffB R' hR') x1 y1
  -- the ring `R` itself: one of the faces carries the winding number of `(x, y)`
  obtain ⟨L, hL01, hL⟩ := simple_faces hsR
  have hmidnR : midpoint u v ∉ R := fun hm =>
    hnv (hcoord R (hsegsA R hR) hsR _ hm)
  obtain ⟨fL, fR⟩ := hL a b (midpoint u v) hab hmw.1 hmidnR
  have hwR := simple_wind_LL hsR hL01 hL x y (hlevA R hR)
  have hA : ∀ x1 y1 : Rat,
      windingE ⟨(midpoint u v).x, x1, (midpoint u v).y, y1⟩ R = windingE (EPt.ofPt ⟨x, y⟩) R →
      insidePolyE ⟨(midpoint u v).x, x1, (midpoint u v).y, y1⟩ m1 = true := by
    intro x1 y1 hRw
    rw [← h1]
    apply Geo.Proofs.C02X.insidePolyE_congr
    intro R' hR'
    by_cases hne : R' = R
    · rw [hne]; exact hRw
    · exact hsame R' (hsegsA R' hR') (hsimple m1 hv1 R' hR') (hlevA R' hR') (List.mem_append_left _ hR')
        (hoffA R' hR' hne) x1 y1
  have hcell : (relateParts pa pb).get .inside .inside = .empty := hii
  rcases hwR with hw | hw
  · have hAin : insidePolyE (faceL a b (midpoint u v)) m1 = true := hA _ _ (by rw [hw]; exact fL)
    have hBin : insidePolyE (faceL a b (midpoint u v)) m2 = true := hB _ _
    exact cell_empty_no_atom hcell (hmemA _ (Or.inr (Or.inl rfl)))
      (by show locateFace (partsOfPoly m1) _ = _; rw [locateFace_partsOfPoly, if_pos hAin])
      (by show locateFace (partsOfPoly m2) _ = _; rw [locateFace_partsOfPoly, if_pos hBin])
  · have hAin : insidePolyE (faceR a b (midpoint u v)) m1 = true := hA _ _ (by rw [hw]; exact fR)
    have hBin : insidePolyE (faceR a b (midpoint u v)) m2 = true := hB _ _
    exact cell_empty_no_atom hcell (hmemA _ (Or.inr (Or.inr rfl)))
      (by show locateFace (partsOfPoly m1) _ = _; rw [locateFace_partsOfPoly, if_pos hAin])
      (by show locateFace (partsOfPoly m2) _ = _; rw [locateFace_partsOfPoly, if_pos hBin])

/-- the coordinates of a ring of a valid polygon are vertices of the arrangement -/
theorem coords_vertsOf {pa pb : Parts} {R : List Pt} (hs : ringSimple R = true)
    (hseg : ∀ s ∈ segs R, s ∈ pa.allSegs ++ pb.allSegs) : ∀ w ∈ R, w ∈ vertsOf pa pb := by
  intro w hw
  obtain ⟨s, hs1, hs2⟩ := mem_segs_end R w (ringOK_of_simple hs).2 hw
  obtain ⟨e1, e2⟩ := ends_mem_vertsOf (hseg s hs1)
  rcases hs2 with h | h
  · rw [h]; exact e1
  · rw [h]; exact e2

/-- **two valid polygons with `II = F`, `dim BB ≤ 0` never both contain a point** whose level avoids
the vertices of their arrangement -/
theorem members_apart_level {m1 m2 : Poly} (hv1 : polyValid m1 = true) (hv2 : polyValid m2 = true)
    (hii : (relateParts (partsOfPoly m1) (partsOfPoly m2)).ii = .empty)
    (hbb : dimLe0 (relateParts (partsOfPoly m1) (partsOfPoly m2)).bb = true)
    (x y : Rat) (hy : ∀ v ∈ vertsOf (partsOfPoly m1) (partsOfPoly m2), v.y ≠ y)
    (h1 : insidePolyE (EPt.ofPt ⟨x, y⟩) m1 = true) (h2 : insidePolyE (EPt.ofPt ⟨x, y⟩) m2 = true) :
    False := by
  have hse := (polyValid_unpack hv1).1
  have hc := closed_of_simple hse
  have hlev : ∀ w ∈ m1.ext, w.y ≠ y := fun w hw =>
    hy w (coords_vertsOf hse (fun s hs => List.mem_append_left _
      (segs_mem_partsOfPoly (m := m1) (by simp [Poly.rings]) s hs)) w hw)
  have hext : windingE (EPt.ofPt ⟨x, y⟩) m1.ext ≠ 0 := by
    unfold insidePolyE at h1
    simp only [Bool.and_eq_true, bne_iff_ne, ne_eq] at h1
    exact h1.1
  obtain ⟨ta, hta, htax⟩ := exists_crossing_le_of_winding x y m1.ext hc hlev hext
  obtain ⟨t0, ht0, ht0x, hmax⟩ := exists_max_le x
    ((m1.rings ++ m2.rings).flatMap (fun R => (segs R).flatMap (crossXs y)))
    ⟨ta, List.mem_flatMap.2 ⟨m1.ext, by simp [Poly.rings], hta⟩, htax⟩
  obtain ⟨R, hRmem, htR⟩ := List.mem_flatMap.1 ht0
  have hmax' : ∀ R' ∈ m1.rings ++ m2.rings, ∀ t ∈ (segs R').flatMap (crossXs y), t ≤ x → t ≤ t0 :=
    fun R' hR' t ht htx => hmax t (List.mem_flatMap.2 ⟨R', hR', ht⟩) htx
  rcases List.mem_append.1 hRmem with hR | hR
  · exact members_apart_core hv1 hv2 hii hbb x y hy h1 h2 hR htR ht0x hmax'
  · have hii' : (relateParts (partsOfPoly m2) (partsOfPoly m1)).ii = .empty := by
      rw [relateParts_transpose (partsOfPoly m1) (partsOfPoly m2)]
      generalize relateParts (partsOfPoly m1) (partsOfPoly m2) = M at hii ⊢
      exact hii
    have hbb' : dimLe0 (relateParts (partsOfPoly m2) (partsOfPoly m1)).bb = true := by
      rw [relateParts_transpose (partsOfPoly m1) (partsOfPoly m2)]
      generalize relateParts (partsOfPoly m1) (partsOfPoly m2) = M at hbb ⊢
      exact hbb
    have hy' : ∀ v ∈ vertsOf (partsOfPoly m2) (partsOfPoly m1), v.y ≠ y :=
      fun v hv => hy v ((mem_vertsOf_comm _ _ v).1 hv)
    have hmax'' : ∀ R' ∈ m2.rings ++ m1.rings, ∀ t ∈ (segs R').flatMap (crossXs y), t ≤ x → t ≤ t0 := by
      intro R' hR'
      apply hmax' R'
      rcases List.mem_append.1 hR' with h | h
      · exact List.mem_append_right _ h
      · exact List.mem_append_left _ h
    exact members_apart_core hv2 hv1 hii' hbb' x y hy' h2 h1 hR htR ht0x hmax''

/-! ### every point off the rings -/

open Geo.BoolSpec Geo.Proofs.C04L in
theorem exists_generic_verts (p : Pt) (R : List (List Pt)) (vs : List Pt)
    (hoff : ∀ r ∈ R, onAnySeg p (segs r) = false) :
    ∃ p' : Pt, (∀ r ∈ R, windRing p' r = windRing p r) ∧ ∀ v ∈ vs, v.y ≠ p'.y := by
  obtain ⟨d1, hd1, g1⟩ := rings_up_stable p R hoff
  obtain ⟨d2, hd2, g2⟩ := level_up_free p.y vs
  have hm : 0 < min d1 d2 := lt_min hd1 hd2
  exact ⟨⟨p.x, p.y + min d1 d2⟩, g1 _ hm (min_le_left _ _), g2 _ hm (min_le_right _ _)⟩

open Geo.BoolSpec Geo.Proofs.C04L in
theorem insidePolyE_of_windRing {m : Poly} {p p' : Pt} (h : ∀ r ∈ m.rings, windRing p' r = windRing p r) :
    insidePolyE (EPt.ofPt p') m = polyInside p m := by
  rw [← insidePolyE_eq]
  apply Geo.Proofs.C02X.insidePolyE_congr
  intro r hr
  rw [windingE_eq, windingE_eq, h r hr]

open Geo.BoolSpec Geo.Proofs.C04L Geo.BoolGlue in
/-- **two valid polygons with `II = F`, `dim BB ≤ 0` never both contain a point off their rings** -/
theorem members_apart_off {m1 m2 : Poly} (hv1 : polyValid m1 = true) (hv2 : polyValid m2 = true)
    (hii : (relateParts (partsOfPoly m1) (partsOfPoly m2)).ii = .empty)
    (hbb : dimLe0 (relateParts (partsOfPoly m1) (partsOfPoly m2)).bb = true) (p : Pt)
    (ho1 : ∀ r ∈ m1.rings, onAnySeg p (segs r) = false)
    (ho2 : ∀ r ∈ m2.rings, onAnySeg p (segs r) = false) :
    polyInside p m1 = false ∨ polyInside p m2 = false := by
  by_contra hcon
  have h1 : polyInside p m1 = true := by
    cases h : polyInside p m1 with
    | true => rfl
    | false => exact absurd (Or.inl h) hcon
  have h2 : polyInside p m2 = true := by
    cases h : polyInside p m2 with
    | true => rfl
    | false => exact absurd (Or.inr h) hcon
  obtain ⟨p', hw, hlev⟩ := exists_generic_verts p (m1.rings ++ m2.rings)
    (vertsOf (partsOfPoly m1) (partsOfPoly m2)) (by
      intro r hr
      rcases List.mem_append.1 hr with h | h
      · exact ho1 r h
      · exact ho2 r h)
  obtain ⟨x, y⟩ := p'
  have e1 := insidePolyE_of_windRing (m := m1) (p := p) (p' := ⟨x, y⟩)
    (fun r hr => hw r (List.mem_append_left _ hr))
  have e2 := insidePolyE_of_windRing (m := m2) (p := p) (p' := ⟨x, y⟩)
    (fun r hr => hw r (List.mem_append_right _ hr))
  exact members_apart_level hv1 hv2 hii hbb x y hlev (by rw [e1, h1]) (by rw [e2, h2])

open Geo.BoolSpec Geo.Proofs.C04L Geo.BoolGlue in
/-- **at most one member of a valid MultiPolygon contains a point off the rings** -/
theorem members_apart {ps : List Poly} (hv : multiPolyValid ps = true) (p : Pt)
    (hoff : ∀ r ∈ rings ps, onAnySeg p (segs r) = false) :
    ps.Pairwise (fun m1 m2 => polyInside p m1 = false ∨ polyInside p m2 = false) := by
  rw [List.pairwise_iff_getElem]
  intro i j hi hj hij
  have m1 : ps[i] ∈ ps := List.getElem_mem hi
  have m2 : ps[j] ∈ ps := List.getElem_mem hj
  obtain ⟨hii, hbb⟩ := multiPolyValid_pairs hv hij (List.getElem?_eq_getElem hi) (List.getElem?_eq_getElem hj)
  exact members_apart_off (multiPolyValid_members hv _ m1) (multiPolyValid_members hv _ m2) hii hbb p
    (fun r hr => hoff r (List.mem_flatMap.2 ⟨ps[i], m1, hr⟩))
    (fun r hr => hoff r (List.mem_flatMap.2 ⟨ps[j], m2, hr⟩))

end Geo.Proofs.C04X
