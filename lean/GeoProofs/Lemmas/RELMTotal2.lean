/-
  RELM — the implementation does not panic, part 2: what `GeometryGraph::new` and
  `compute_self_nodes` guarantee — every node is labelled for the graph's own operand, every edge has
  coordinates, starts and ends at a node, and carries side positions on both sides or on none.
  (Polygon rings are closed: an invariant of geo-types' `Polygon`, a hypothesis on the model's type.)
-/
import GeoProofs.Lemmas.RELMTotal1
import GeoProofs.Lemmas.RELMMultiPoint

namespace Geo.Proofs.RELM
open Geo Geo.GG Geo.RI

/-- both slots of an edge label have consistent sides -/
def LabelOK (l : Label) : Prop := SidesOK l.a ∧ SidesOK l.b

theorem sidesOK_flip {t : TopoPos} (h : SidesOK t) : SidesOK t.flip := by
  cases t with
  | lineOrPoint _ => exact h
  | area on l r => exact ⟨h.2, h.1⟩

theorem labelOK_flip {l : Label} (h : LabelOK l) : LabelOK l.flip := ⟨sidesOK_flip h.1, sidesOK_flip h.2⟩

theorem labelOK_lineLabel (idx : Nat) : LabelOK (lineLabel idx) := by
  unfold lineLabel Label.new Label.emptyLine Label.set LabelOK SidesOK IsIO
  by_cases h : idx = 0 <;> simp [h, TopoPos.left, TopoPos.right, TopoPos.emptyLine]

theorem labelOK_ringEdge (idx : Nat) (ring : List Pt) (cl cr : Pos) (hl : cl = .inside ∨ cl = .outside)
    (hr : cr = .inside ∨ cr = .outside) : LabelOK (GG.ringEdge idx ring cl cr).label := by
  unfold GG.ringEdge ringSides Label.new Label.emptyArea Label.set LabelOK SidesOK IsIO
  simp only
  cases windingOrder ring with
  | none => by_cases h : idx = 0 <;> rcases hl with rfl | rfl <;> rcases hr with rfl | rfl <;>
      simp [h, TopoPos.left, TopoPos.right, TopoPos.emptyArea]
  | some w =>
    cases w <;> by_cases h : idx = 0 <;> rcases hl with rfl | rfl <;> rcases hr with rfl | rfl <;>
      simp [h, TopoPos.left, TopoPos.right, TopoPos.emptyArea]

/-- the invariant of a graph built for operand `idx` -/
structure GInv (idx : Nat) (G : Graph) : Prop where
  nodes : ∀ n ∈ G.nodes, (n.label.onPos idx).isSome
  edges : ∀ e ∈ G.edges, LabelOK e.label ∧
    (∃ f, e.coords.head? = some f ∧ f ∈ G.nodes.map (·.coord)) ∧
    (∃ l, e.coords.getLast? = some l ∧ l ∈ G.nodes.map (·.coord))

theorem ginv_empty (idx : Nat) : GInv idx Graph.empty := ⟨fun n hn => (by cases hn), fun e he => (by cases he)⟩

theorem ginv_upsert {idx : Nat} {G : Graph} (h : GInv idx G) (c : Pt) (f : Label → Label)
    (hf : ∀ l, ((f l).onPos idx).isSome) : GInv idx { G with nodes := upsertNode c f G.nodes } := by
  refine ⟨?_, ?_⟩
  · exact upsertNode_forall (P := fun n => (n.label.onPos idx).isSome) c f G.nodes h.nodes
      (fun n _ _ => hf _) (hf _)
  · intro e he
    obtain ⟨h1, ⟨a, ha, ha'⟩, ⟨b, hb, hb'⟩⟩ := h.edges e he
    exact ⟨h1, ⟨a, ha, (upsertNode_coords c f a G.nodes).2 (Or.inr ha')⟩,
      ⟨b, hb, (upsertNode_coords c f b G.nodes).2 (Or.inr hb')⟩⟩

theorem isSome_setOn (l : Label) (idx : Nat) (p : Pos) : ((l.setOn idx p).onPos idx).isSome := by
  rw [Geo.Proofs.C17L.onPos_setOn]; rfl

theorem ginv_insertPoint {idx : Nat} {G : Graph} (h : GInv idx G) (c : Pt) (p : Pos) : GInv idx (insertPoint idx c p G) :=
  ginv_upsert h c _ (fun l => isSome_setOn l idx p)

theorem ginv_insertBoundaryPoint {idx : Nat} {G : Graph} (h : GInv idx G) (c : Pt) :
    GInv idx (insertBoundaryPoint idx c G) :=
  ginv_upsert h c _ (fun l => isSome_setOn l idx _)

theorem mem_coords_insertPoint (idx : Nat) (c : Pt) (p : Pos) (G : Graph) :
    c ∈ (insertPoint idx c p G).nodes.map (·.coord) :=
  (upsertNode_coords c _ c G.nodes).2 (Or.inl rfl)

theorem mem_coords_insertBoundaryPoint (idx : Nat) (c : Pt) (G : Graph) :
    c ∈ (insertBoundaryPoint idx c G).nodes.map (·.coord) :=
  (upsertNode_coords c _ c G.nodes).2 (Or.inl rfl)

theorem coords_mono_insertBoundaryPoint (idx : Nat) (c x : Pt) (G : Graph) (h : x ∈ G.nodes.map (·.coord)) :
    x ∈ (insertBoundaryPoint idx c G).nodes.map (·.coord) :=
  (upsertNode_coords c _ x G.nodes).2 (Or.inr h)

theorem ginv_insertEdge {idx : Nat} {G : Graph} (h : GInv idx G) (e : Edge) (hl : LabelOK e.label)
    (hf : ∃ f, e.coords.head? = some f ∧ f ∈ G.nodes.map (·.coord))
    (hlast : ∃ l, e.coords.getLast? = some l ∧ l ∈ G.nodes.map (·.coord)) : GInv idx (insertEdge e G) := by
  refine ⟨h.nodes, ?_⟩
  intro e' he'
  simp only [insertEdge, List.mem_append, List.mem_singleton] at he'
  rcases he' with he' | rfl
  · exact h.edges e' he'
  · exact ⟨hl, hf, hlast⟩

theorem ginv_addLine {idx : Nat} {G : Graph} (h : GInv idx G) (a b : Pt) : GInv idx (addLine idx a b G) := by
  unfold addLine
  apply ginv_insertEdge (ginv_insertBoundaryPoint (ginv_insertBoundaryPoint h a) b) _ (labelOK_lineLabel idx)
  · exact ⟨a, rfl, coords_mono_insertBoundaryPoint idx b a _ (mem_coords_insertBoundaryPoint idx a G)⟩
  · exact ⟨b, rfl, mem_coords_insertBoundaryPoint idx b _⟩

theorem ginv_addLineString {idx : Nat} {G : Graph} (h : GInv idx G) (cs : List Pt) : GInv idx (addLineString idx cs G) := by
  unfold addLineString
  cases hdd : dedup cs with
  | nil => exact h
  | cons first rest =>
    cases rest with
    | nil => exact ginv_insertPoint h first .inside
    | cons second rest' =>
      simp only
      apply ginv_insertEdge (ginv_insertBoundaryPoint (ginv_insertBoundaryPoint h first) _) _ (labelOK_lineLabel idx)
      · exact ⟨first, rfl, coords_mono_insertBoundaryPoint idx _ first _ (mem_coords_insertBoundaryPoint idx first G)⟩
      · refine ⟨(first :: second :: rest').getLast?.getD first, ?_, mem_coords_insertBoundaryPoint idx _ _⟩
        cases hl : (first :: second :: rest').getLast? with
        | none => simp at hl
        | some l => rfl

theorem dedupFrom_getLast? (prev : Pt) : ∀ (l : List Pt), (prev :: dedupFrom prev l).getLast? = (prev :: l).getLast?
  | [] => rfl
  | c :: rest => by
      simp only [dedupFrom]
      split
      · rename_i hc
        subst hc
        rw [dedupFrom_getLast? c rest]
        simp [List.getLast?_cons_cons]
      · rw [List.getLast?_cons_cons, dedupFrom_getLast? c rest, List.getLast?_cons_cons]

theorem dedup_getLast? : ∀ (l : List Pt), (dedup l).getLast? = l.getLast?
  | [] => rfl
  | c :: rest => dedupFrom_getLast? c rest

theorem ginv_addPolygonRing {idx : Nat} {G : Graph} (h : GInv idx G) (ring : List Pt) (cl cr : Pos)
    (hl : cl = .inside ∨ cl = .outside) (hr : cr = .inside ∨ cr = .outside)
    (hclosed : ring.head? = ring.getLast?) : GInv idx (addPolygonRing idx ring cl cr G) := by
  unfold addPolygonRing
  cases hdd : dedup ring with
  | nil => exact h
  | cons first rest =>
    simp only
    have hhead : (dedup ring).head? = some first := by rw [hdd]; rfl
    have hlast : (dedup ring).getLast? = some first := by
      rw [dedup_getLast?, ← hclosed, ← Geo.Proofs.C17L.dedup_head?, hhead]
    -- the edge goes in first, then the node of the first coordinate
    have hG1 : GInv idx (insertPoint idx first .onBoundary G) := ginv_insertPoint h first .onBoundary
    have hmem := mem_coords_insertPoint idx first .onBoundary G
    refine ⟨?_, ?_⟩
    · exact hG1.nodes
    · intro e he
      have he' : e ∈ G.edges ++ [GG.ringEdge idx ring cl cr] := he
      simp only [List.mem_append, List.mem_singleton] at he'
      rcases he' with he' | rfl
      · exact hG1.edges e he'
      · exact ⟨labelOK_ringEdge idx ring cl cr hl hr, ⟨first, hhead, hmem⟩, ⟨first, hlast, hmem⟩⟩

theorem ginv_addHoles {idx : Nat} : ∀ (hs : List (List Pt)) {G : Graph}, GInv idx G →
    (∀ r ∈ hs, r.head? = r.getLast?) → GInv idx (addHoles idx hs G)
  | [], _, h, _ => h
  | x :: xs, _, h, hc =>
      ginv_addHoles xs (ginv_addPolygonRing h x _ _ (Or.inl rfl) (Or.inr rfl) (hc x (List.mem_cons_self ..)))
        (fun r hr => hc r (List.mem_cons_of_mem _ hr))

/-- the rings of the polygon are closed -/
def polyClosed (p : Poly) : Bool := decide (p.ext.head? = p.ext.getLast?) && p.ints.all (fun r => decide (r.head? = r.getLast?))

theorem ginv_addPolygon {idx : Nat} {G : Graph} (h : GInv idx G) (p : Poly) (hc : polyClosed p = true) :
    GInv idx (addPolygon idx p G) := by
  unfold polyClosed at hc
  simp only [Bool.and_eq_true, decide_eq_true_eq, List.all_eq_true] at hc
  exact ginv_addHoles p.ints (ginv_addPolygonRing h p.ext _ _ (Or.inr rfl) (Or.inl rfl) hc.1) hc.2

theorem ginv_addPoints {idx : Nat} : ∀ (ps : List Pt) {G : Graph}, GInv idx G → GInv idx (addPoints idx ps G)
  | [], _, h => h
  | p :: ps, _, h => ginv_addPoints ps (ginv_insertPoint h p .inside)

theorem ginv_addLineStrings {idx : Nat} : ∀ (ls : List (List Pt)) {G : Graph}, GInv idx G → GInv idx (addLineStrings idx ls G)
  | [], _, h => h
  | l :: ls, _, h => ginv_addLineStrings ls (ginv_addLineString h l)

theorem ginv_addPolygons {idx : Nat} : ∀ (ps : List Poly) {G : Graph}, GInv idx G → (∀ p ∈ ps, polyClosed p = true) →
    GInv idx (addPolygons idx ps G)
  | [], _, h, _ => h
  | p :: ps, _, h, hc =>
      ginv_addPolygons ps (ginv_addPolygon h p (hc p (List.mem_cons_self ..))) (fun q hq => hc q (List.mem_cons_of_mem _ hq))

mutual
/-- every polygon ring in the geometry is closed (the invariant of `geo_types::Polygon`) -/
def ringsClosed : Geom → Bool
  | .polygon p => polyClosed p
  | .multiPolygon ps => ps.all polyClosed
  | .collection gs => ringsClosedList gs
  | _ => true
def ringsClosedList : List Geom → Bool
  | [] => true
  | g :: gs => ringsClosed g && ringsClosedList gs
end

theorem polyClosed_rect (mn mx : Pt) : polyClosed (rectPolygon mn mx) = true := by
  simp [polyClosed, rectPolygon]

theorem polyClosed_triangle (a b c : Pt) : polyClosed (trianglePolygon a b c) = true := by
  simp [polyClosed, trianglePolygon]

mutual
theorem ginv_addGeometry (idx : Nat) : ∀ (g : Geom) (G : Graph), ringsClosed g = true → GInv idx G →
    GInv idx (addGeometry idx g G)
  | .point p, G, _, h => by simp only [addGeometry]; exact ginv_insertPoint h p .inside
  | .line a b, G, _, h => by simp only [addGeometry]; exact ginv_addLine h a b
  | .lineString cs, G, _, h => by
    simp only [addGeometry]; split
    · exact h
    · exact ginv_addLineString h cs
  | .polygon p, G, hc, h => by
    simp only [addGeometry]; split
    · exact h
    · exact ginv_addPolygon h p (by simpa [ringsClosed] using hc)
  | .multiPoint ps, G, _, h => by
    simp only [addGeometry]; split
    · exact h
    · exact ginv_addPoints ps h
  | .multiLineString ls, G, _, h => by
    simp only [addGeometry]; split
    · exact h
    · exact ginv_addLineStrings ls h
  | .multiPolygon ps, G, hc, h => by
    simp only [addGeometry]; split
    · exact h
    · refine ginv_addPolygons ps (G := { G with useRule := false }) ⟨h.nodes, h.edges⟩ ?_
      simpa [ringsClosed, List.all_eq_true] using hc
  | .rect mn mx, G, _, h => by simp only [addGeometry]; exact ginv_addPolygon h _ (polyClosed_rect mn mx)
  | .triangle a b c, G, _, h => by simp only [addGeometry]; exact ginv_addPolygon h _ (polyClosed_triangle a b c)
  | .collection gs, G, hc, h => by
    simp only [addGeometry]; split
    · exact h
    · exact ginv_addGeometries idx gs G (by simpa [ringsClosed] using hc) h
theorem ginv_addGeometries (idx : Nat) : ∀ (gs : List Geom) (G : Graph), ringsClosedList gs = true → GInv idx G →
    GInv idx (addGeometries idx gs G)
  | [], G, _, h => by simp only [addGeometries]; exact h
  | g :: gs, G, hc, h => by
    simp only [addGeometries]
    simp only [ringsClosedList, Bool.and_eq_true] at hc
    exact ginv_addGeometries idx gs _ hc.2 (ginv_addGeometry idx g G hc.1 h)
end

theorem ginv_buildGraph (idx : Nat) (g : Geom) (hc : ringsClosed g = true) : GInv idx (buildGraph idx g) :=
  ginv_addGeometry idx g Graph.empty hc (ginv_empty idx)

/-! ### self-noding keeps the invariant -/

theorem ginv_addSelfIntersectionNode {idx : Nat} {G : Graph} (h : GInv idx G) (c : Pt) (p : Pos) :
    GInv idx (addSelfIntersectionNode idx c p G) := by
  unfold addSelfIntersectionNode
  split
  · exact h
  · split
    · exact ginv_insertBoundaryPoint h c
    · exact ginv_insertPoint h c p

theorem ginv_addSelfIntersectionCoords {idx : Nat} (p : Pos) : ∀ (cs : List Pt) {G : Graph}, GInv idx G →
    GInv idx (addSelfIntersectionCoords idx p cs G)
  | [], _, h => h
  | c :: cs, _, h => ginv_addSelfIntersectionCoords p cs (ginv_addSelfIntersectionNode h c p)

theorem ginv_addSelfIntersectionItems {idx : Nat} : ∀ (items : List (Option Pos × List Pt)) {G : Graph}, GInv idx G →
    GInv idx (addSelfIntersectionItems idx items G)
  | [], _, h => h
  | (none, _) :: rest, _, h => ginv_addSelfIntersectionItems rest h
  | (some p, cs) :: rest, _, h => ginv_addSelfIntersectionItems rest (ginv_addSelfIntersectionCoords p cs h)

theorem ginv_addSelfIntersectionNodes {idx : Nat} {G : Graph} (h : GInv idx G) (ixs : List (List Pt)) :
    GInv idx (addSelfIntersectionNodes idx ixs G) :=
  ginv_addSelfIntersectionItems _ h

/-- the self-noded graph of an operand, as a `GG.Graph` -/
theorem freshGraph_ginv (ar : Arith) (idx : Nat) (g : Geom) (hc : ringsClosed g = true) :
    GInv idx ⟨(freshGraph ar idx g).nodes, (freshGraph ar idx g).edges.map toEdge, (freshGraph ar idx g).useRule⟩ := by
  unfold freshGraph RGraph.selfNode RGraph.new
  simp only
  have hE : (selfIntersections ar (!isRings g) ((buildGraph idx g).edges.map REdge.ofEdge)).map toEdge =
      (buildGraph idx g).edges := by
    rw [selfIntersections_toEdge, map_toEdge_ofEdge]
  have hE' : (selfIntersections ar (!isRings g) ((buildGraph idx g).edges.map REdge.ofEdge)).map
      (fun e => (⟨e.coords, e.label⟩ : Edge)) = (buildGraph idx g).edges := hE
  rw [hE, hE']
  have hG : (⟨(buildGraph idx g).nodes, (buildGraph idx g).edges, (buildGraph idx g).useRule⟩ : Graph) =
      buildGraph idx g := rfl
  rw [hG]
  have h := ginv_addSelfIntersectionNodes (ginv_buildGraph idx g hc)
    ((selfIntersections ar (!isRings g) ((buildGraph idx g).edges.map REdge.ofEdge)).map (fun e => e.eis.map (·.coord)))
  -- `add_self_intersection_nodes` does not change the edges
  have hedges : ∀ (items : List (Option Pos × List Pt)) (G : Graph),
      (addSelfIntersectionItems idx items G).edges = G.edges := by
    intro items
    induction items with
    | nil => intro G; rfl
    | cons it rest ih =>
      intro G
      obtain ⟨o, cs⟩ := it
      cases o with
      | none => exact ih G
      | some p =>
        simp only [addSelfIntersectionItems]
        rw [ih]
        induction cs generalizing G with
        | nil => rfl
        | cons c cs ihc =>
          simp only [addSelfIntersectionCoords]
          rw [ihc]
          unfold addSelfIntersectionNode
          split
          · rfl
          · split <;> rfl
  refine ⟨h.nodes, ?_⟩
  intro e he
  have := h.edges e (by
    unfold addSelfIntersectionNodes
    rw [hedges]
    exact he)
  exact this

end Geo.Proofs.RELM
