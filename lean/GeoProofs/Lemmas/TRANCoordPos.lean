/-
  Translator tie for `CoordinatePosition` (geo/src/algorithm/coordinate_position.rs): every clause of the hand-written
  accumulator model in GeoModel/Locate.lean, and `ringPos` of GeoModel/Segment.lean, equals the definition regenerated
  from the Rust body on this run (GeoModel/Gen/CoordPosGen.lean, statement fragment of translator/rsexpr.py).
-/
import GeoModel.Locate
import GeoModel.Gen.CoordPosGen
import GeoProofs.Lemmas.GenKernel

namespace Geo.Proofs.TRANCoordPos
open Geo Geo.Proofs.GenKernel

/-- a loop whose body is, pointwise, the model's `ringEdge` step computes the model's `ringWinding` -/
theorem loop_ringWinding (p : Pt) (body : Pt × Pt → Int → Gen.Step Int Pos)
    (hb : ∀ l w, body l w = match ringEdge p l.1 l.2 with
      | none => .ret .onBoundary
      | some d => .next (w + d)) :
    ∀ es w, Gen.loop es body w = match ringWinding p es w with
      | none => .ret .onBoundary
      | some w' => .next w' := by
  intro es
  induction es with
  | nil => intro w; simp [Gen.loop, ringWinding]
  | cons e es ih =>
    intro w
    obtain ⟨s, t⟩ := e
    simp only [Gen.loop, ringWinding, hb]
    cases h : ringEdge p s t with
    | none => simp
    | some d => simp [ih]

theorem ringPos_eq (p : Pt) (ring : List Pt) : ringPos p ring = Gen.coordPosRelativeToRing p ring := by
  unfold Gen.coordPosRelativeToRing
  match ring with
  | [] => simp [ringPos]
  | [c] => simp [ringPos, Gen.idx]
  | a :: b :: rest =>
    simp only [List.isEmpty_cons, Bool.false_eq_true, if_false, List.length_cons]
    rw [if_neg (by simp)]
    rw [loop_ringWinding p _ (by
      intro l w
      unfold ringEdge
      by_cases h1 : l.1.y ≤ p.y <;> by_cases h2 : l.2.y ≥ p.y <;> by_cases h3 : l.2.y ≤ p.y <;>
        simp [h1, h2, h3, valueInBetween_eq] <;> split <;> simp_all <;>
        first | omega | (split <;> simp_all))]
    simp only [ringPos]
    cases ringWinding p (segs (a :: b :: rest)) 0 <;> simp


theorem calcPoint_eq (q p : Pt) (acc : PosAcc) : calcPoint q p acc = Gen.coordCalc q p acc := by
  unfold calcPoint Gen.coordCalc
  by_cases h : q = p <;> simp [h]

theorem calcPoint_eq_point (q p : Pt) (acc : PosAcc) : calcPoint q p acc = Gen.pointCalc q p acc := by
  unfold calcPoint Gen.pointCalc
  by_cases h : q = p <;> simp [h]

theorem calcLine_eq (a b p : Pt) (acc : PosAcc) : calcLine a b p acc = Gen.lineCalc a b p acc := by
  unfold calcLine Gen.lineCalc
  by_cases h : a = b
  · simp [h, calcPoint_eq]
  · by_cases h2 : p = a <;> by_cases h3 : p = b <;> by_cases h4 : lineCoord a b p <;>
      simp_all [← lineCoord_eq]

theorem getBoundingRect_cons (a : Pt) (rest : List Pt) : ∃ r, getBoundingRect (a :: rest) = some r := by
  simp [getBoundingRect]

theorem calcLineString_eq (cs : List Pt) (p : Pt) (acc : PosAcc) :
    calcLineString cs p acc = Gen.lineStringCalc cs p acc := by
  unfold Gen.lineStringCalc
  match cs with
  | [] => simp [calcLineString]
  | [_] => simp [calcLineString]
  | [a, b] => simp [calcLineString, Gen.idx, calcLine_eq]
  | a :: b :: c :: rest =>
    obtain ⟨r, hr⟩ := getBoundingRect_cons a (b :: c :: rest)
    obtain ⟨mn, mx⟩ := r
    have e1 : decide (rest.length + 1 + 1 + 1 < 2) = false := by simp
    have e2 : (rest.length + 1 + 1 + 1 == 2) = false := by simp
    cases hl : (a :: b :: c :: rest).getLast? with
    | none => simp at hl
    | some l =>
      simp only [calcLineString, hr, Gen.unwrap, List.length_cons, e1, e2, hl, List.head?_cons, ← rectCoord_eq]
      by_cases h1 : rectCoord mn mx p <;> by_cases h2 : isClosedLS (a :: b :: c :: rest) <;>
        by_cases h3 : lineStringCoord (a :: b :: c :: rest) p <;> by_cases h4 : p = a <;> by_cases h5 : p = l <;>
        simp [h1, h2, h3, h4, h5]

theorem calcTriangle_eq (a b c p : Pt) (acc : PosAcc) : calcTriangle a b c p acc = Gen.triangleCalc a b c p acc := by
  unfold calcTriangle Gen.triangleCalc
  simp only [← pointInRect_eq]
  by_cases h1 : (orient a b p = .col ∧ pointInRect p a b = true) <;>
    by_cases h2 : (orient b c p = .col ∧ pointInRect p b c = true) <;>
    by_cases h3 : (orient c a p = .col ∧ pointInRect p c a = true) <;> simp [h1, h2, h3]

theorem prop_cases (P : Prop) : P = True ∨ P = False := by
  by_cases h : P <;> simp [h]

theorem calcRect_eq (mn mx p : Pt) (acc : PosAcc) : calcRect mn mx p acc = Gen.rectCalc mn mx p acc := by
  unfold calcRect Gen.rectCalc
  simp only [Gen.unwrap, Gen.partialCmp?]
  rcases prop_cases (p.x < mn.x) with a1 | a1 <;> rcases prop_cases (p.x = mn.x) with b1 | b1 <;>
  rcases prop_cases (p.y < mn.y) with a2 | a2 <;> rcases prop_cases (p.y = mn.y) with b2 | b2 <;>
  rcases prop_cases (mx.x < p.x) with a3 | a3 <;> rcases prop_cases (mx.x = p.x) with b3 | b3 <;>
  rcases prop_cases (mx.y < p.y) with a4 | a4 <;> rcases prop_cases (mx.y = p.y) with b4 | b4 <;>
    simp [a1, b1, a2, b2, a3, b3, a4, b4]

theorem calcMultiPoint_eq (qs : List Pt) (p : Pt) (acc : PosAcc) :
    (if qs.any (· == p) then { acc with inside := true } else acc) = Gen.multiPointCalc qs p acc := by
  unfold Gen.multiPointCalc
  by_cases h : qs.any (· == p) <;> simp_all

/-- the holes loop of the Polygon impl -/
theorem calcHoles_eq (p : Pt) (hs : List (List Pt)) (ins : Bool) (bc : Nat) :
    (match Gen.loop (σ := Bool × Nat) (ρ := PosAcc) hs (fun hole s =>
        match ringPos p hole with
        | .outside => .next (s.1, s.2)
        | .onBoundary => .ret ⟨s.1, s.2 + 1⟩
        | .inside => .ret ⟨s.1, s.2⟩) (ins, bc) with
      | .ret r => r
      | .next s => ⟨true, s.2⟩) = calcHoles p hs ⟨ins, bc⟩ := by
  induction hs with
  | nil => simp [Gen.loop, calcHoles]
  | cons h hs ih =>
    simp only [Gen.loop, calcHoles]
    cases ringPos p h <;> simp [ih]

theorem calcPolygon_eq (poly : Poly) (p : Pt) (acc : PosAcc) : calcPolygon poly p acc = Gen.polygonCalc poly p acc := by
  unfold calcPolygon Gen.polygonCalc
  by_cases h : poly.ext.isEmpty
  · simp [h]
  · simp only [h, Bool.false_eq_true, if_false, ← ringPos_eq]
    cases ringPos p poly.ext with
    | outside => simp
    | onBoundary => simp
    | inside => exact (calcHoles_eq p poly.ints acc.inside acc.bcount).symm

theorem calcMultiLineString_eq (ls : List (List Pt)) (p : Pt) (acc : PosAcc) :
    ls.foldl (fun a cs => calcLineString cs p a) acc = Gen.multiLineStringCalc ls p acc := by
  unfold Gen.multiLineStringCalc
  induction ls generalizing acc with
  | nil => simp
  | cons l ls ih => simp only [List.foldl_cons, ih, ← calcLineString_eq]

theorem calcMultiPolygon_eq (ps : List Poly) (p : Pt) (acc : PosAcc) :
    calcMultiPolygon ps p acc = Gen.multiPolygonCalc ps p acc := by
  unfold calcMultiPolygon Gen.multiPolygonCalc
  have key : ∀ (ps : List Poly) (i : Bool) (b m : Nat),
      List.foldl (fun (s : Bool × Nat × Nat) polygon =>
        ((Gen.polygonCalc polygon p ⟨s.1, s.2.2⟩).inside, s.2.1, (Gen.polygonCalc polygon p ⟨s.1, s.2.2⟩).bcount)) (i, b, m) ps
      = ((ps.foldl (fun a poly => calcPolygon poly p a) ⟨i, m⟩).inside, b,
         (ps.foldl (fun a poly => calcPolygon poly p a) ⟨i, m⟩).bcount) := by
    intro ps
    induction ps with
    | nil => intros; rfl
    | cons q qs ih => intro i b m; simp only [List.foldl_cons, ih, calcPolygon_eq]
  simp only [key]
  by_cases h : (ps.foldl (fun a poly => calcPolygon poly p a) ⟨acc.inside, 0⟩).bcount > 0 <;> simp [h]

/-- `GeometryCollection`: the members in order, the recursive call through the `Geometry` enum being `calcPos` itself -/
theorem calcPosList_eq (gs : List Geom) (p : Pt) (acc : PosAcc) :
    calcPosList gs p acc = Gen.geometryCollectionCalc calcPos gs p acc := by
  unfold Gen.geometryCollectionCalc
  induction gs generalizing acc with
  | nil => simp [calcPosList]
  | cons g gs ih => simp only [calcPosList, List.foldl_cons, ih]

/-- the provided trait method `coordinate_position` on top of the accumulator -/
theorem coordPos_eq (g : Geom) (p : Pt) : coordPos g p = Gen.coordinatePosition (calcPos g) p := by
  unfold coordPos Gen.coordinatePosition PosAcc.result
  rfl

end Geo.Proofs.TRANCoordPos
