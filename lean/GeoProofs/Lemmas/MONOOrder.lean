/-
  MONO (C10, builder of the monotone pieces): the sweep order of events is a total preorder.

  `Ev.keyLt` (point lexicographically, then the event type in declaration order) is the strict part of a
  total preorder on events; `Event::cmp` of the Rust code is its reverse (`Ev.le`, `Ev.lt`).
-/
import GeoModel.MonoBuildSweep
import GeoProofs.Lemmas.C10Mono
import Mathlib.Order.Basic
import Mathlib.Tactic.Linarith

namespace Geo.Proofs.MONO
open Geo Geo.Mono Geo.MonoBuild Geo.Proofs.C10

theorem pt_beq_iff (a b : Pt) : (a == b) = true ↔ a = b := by simp

/-- `keyLt` spelled out on the coordinates and the rank -/
theorem keyLt_iff (a b : Ev) : a.keyLt b = true ↔
    a.pt.x < b.pt.x ∨ (a.pt.x = b.pt.x ∧ (a.pt.y < b.pt.y ∨ (a.pt.y = b.pt.y ∧ a.ty.rank < b.ty.rank))) := by
  unfold Ev.keyLt
  simp only [Bool.or_eq_true, Bool.and_eq_true, lexLt_iff, pt_beq_iff, decide_eq_true_eq]
  constructor
  · rintro ((h | h) | ⟨h1, h2⟩)
    · exact Or.inl h
    · exact Or.inr ⟨h.1, Or.inl h.2⟩
    · rw [h1]; exact Or.inr ⟨rfl, Or.inr ⟨rfl, h2⟩⟩
  · rintro (h | ⟨h1, h2 | ⟨h2, h3⟩⟩)
    · exact Or.inl (Or.inl h)
    · exact Or.inl (Or.inr ⟨h1, h2⟩)
    · exact Or.inr ⟨pt_ext h1 h2, h3⟩

theorem keyLt_false_iff (a b : Ev) : a.keyLt b = false ↔ ¬ (a.keyLt b = true) := by simp

/-- the sweep order: `a ≤ b` iff `b` does not come strictly before `a` -/
instance : Preorder Ev where
  le a b := b.keyLt a = false
  le_refl a := by
    rw [keyLt_false_iff, keyLt_iff]
    rintro (h | ⟨_, h | ⟨_, h⟩⟩) <;> exact lt_irrefl _ h
  le_trans a b c := by
    intro h1 h2
    rw [keyLt_false_iff, keyLt_iff] at *
    rintro (h | ⟨e1, h | ⟨e2, h⟩⟩)
    · rcases lt_trichotomy b.pt.x a.pt.x with g | g | g
      · exact h1 (Or.inl g)
      · exact h2 (Or.inl (by rw [g]; exact h))
      · exact h2 (Or.inl (lt_trans h g))
    · rcases lt_trichotomy b.pt.x a.pt.x with g | g | g
      · exact h1 (Or.inl g)
      · rcases lt_trichotomy b.pt.y a.pt.y with k | k | k
        · exact h1 (Or.inr ⟨g, Or.inl k⟩)
        · exact h2 (Or.inr ⟨by rw [e1, g], Or.inl (by rw [k]; exact h)⟩)
        · exact h2 (Or.inr ⟨by rw [e1, g], Or.inl (lt_trans h k)⟩)
      · exact h2 (Or.inl (by rw [e1]; exact g))
    · rcases lt_trichotomy b.pt.x a.pt.x with g | g | g
      · exact h1 (Or.inl g)
      · rcases lt_trichotomy b.pt.y a.pt.y with k | k | k
        · exact h1 (Or.inr ⟨g, Or.inl k⟩)
        · rcases Nat.lt_or_ge b.ty.rank a.ty.rank with r | r
          · exact h1 (Or.inr ⟨g, Or.inr ⟨k, r⟩⟩)
          · exact h2 (Or.inr ⟨by rw [e1, g], Or.inr ⟨by rw [e2, k], by omega⟩⟩)
        · exact h2 (Or.inr ⟨by rw [e1, g], Or.inl (by rw [e2]; exact k)⟩)
      · exact h2 (Or.inl (by rw [e1]; exact g))

theorem ev_le_def (a b : Ev) : a ≤ b ↔ b.keyLt a = false := Iff.rfl

theorem ev_le_total (a b : Ev) : a ≤ b ∨ b ≤ a := by
  rw [ev_le_def, ev_le_def, keyLt_false_iff, keyLt_false_iff, keyLt_iff, keyLt_iff]
  by_contra h
  rw [not_or, not_not, not_not] at h
  obtain ⟨h1, h2⟩ := h
  rcases h1 with h1 | ⟨e1, h1 | ⟨e2, h1⟩⟩ <;> rcases h2 with h2 | ⟨f1, h2 | ⟨f2, h2⟩⟩ <;>
    linarith

theorem ev_lt_iff (a b : Ev) : a < b ↔ a.keyLt b = true := by
  rw [lt_iff_le_not_ge, ev_le_def, ev_le_def]
  constructor
  · rintro ⟨_, h⟩; simpa using h
  · intro h
    refine ⟨?_, by simp [h]⟩
    rcases ev_le_total a b with g | g
    · exact g
    · rw [ev_le_def] at g; rw [g] at h; exact absurd h (by simp)

theorem ev_not_le {a b : Ev} : ¬ a ≤ b ↔ b < a := by
  rw [ev_lt_iff, ev_le_def]; simp

theorem ev_not_lt {a b : Ev} : ¬ a < b ↔ b ≤ a := by
  rw [ev_lt_iff, ev_le_def]; simp

/-- `Event::cmp` is the reverse of the sweep order -/
theorem le_iff (a b : Ev) : a.le b = true ↔ b ≤ a := by
  rw [ev_le_def]; simp [Ev.le]

theorem lt_iff (a b : Ev) : a.lt b = true ↔ b < a := by
  rw [ev_lt_iff]; simp [Ev.lt]

/-- events at lexicographically smaller points come first -/
theorem ev_lt_of_pt {a b : Ev} (h : lexLt a.pt b.pt = true) : a < b := by
  rw [ev_lt_iff]; simp [Ev.keyLt, h]

/-- `a ≤ b` in the sweep order implies the point of `a` is not after the point of `b` -/
theorem pt_le_of_ev_le {a b : Ev} (h : a ≤ b) : lexLt b.pt a.pt = false := by
  rw [ev_le_def] at h
  unfold Ev.keyLt at h
  simp only [Bool.or_eq_false_iff] at h
  exact h.1

end Geo.Proofs.MONO
