/-
  RELM — after self-noding (from `GeometryGraph::new`) every edge carries a strictly sorted list
  of valid records: what the mutual phase (`mutual_order_independent`) needs to start from.
-/
import GeoProofs.Lemmas.RELMOrder4

namespace Geo.Proofs.RELM
open Geo Geo.GG Geo.RI Geo.Proofs.Kernel

theorem mem_insertAll_subset : ∀ (rs l : List EI) (x : EI), x ∈ insertAll rs l → x ∈ l ∨ x ∈ rs
  | [], _, _, h => Or.inl h
  | r :: rs, l, x, h => by
      have := mem_insertAll_subset rs (eiInsert r l) x h
      rcases this with h1 | h1
      · rcases eiInsert_mem_subset r x l h1 with rfl | h2
        · exact Or.inr (List.mem_cons_self ..)
        · exact Or.inl h2
      · exact Or.inr (List.mem_cons_of_mem _ h1)

/-- the edges self-noding leaves: sorted lists of valid records (exact arithmetic) -/
theorem selfNoded_wf (check : Bool) (es : List REdge) (hes : ∀ e ∈ es, e.eis = []) :
    ∀ e ∈ selfIntersections Arith.exact check es,
      SortedEI e.eis ∧ ∀ r ∈ e.eis, ValidRec e.coords r := by
  have hseg : ∀ pr ∈ selfPairs check (allSegs es) (allSegs es), SegIn es pr.1 ∧ SegIn es pr.2 := by
    intro pr hpr
    simp only [selfPairs, List.mem_flatMap, List.mem_map, List.mem_filter] at hpr
    obtain ⟨s0, hs0, s1, ⟨hs1, _⟩, rfl⟩ := hpr
    exact ⟨allSegs_segIn es s0 hs0, allSegs_segIn es s1 hs1⟩
  intro e he
  unfold selfIntersections at he
  simp only at he
  rw [selfRows_eq_fold, selfFold_eq_events _ es es (SameShape.refl es) hseg] at he
  obtain ⟨i, hi⟩ := List.getElem?_of_mem he
  rw [getElem?_applyEvents] at hi
  cases he0 : es[i]? with
  | none => rw [he0] at hi; cases hi
  | some e0 =>
    rw [he0] at hi
    simp only [Option.map_some, Option.some.injEq] at hi
    subst hi
    have h0 := hes e0 (List.mem_of_getElem? he0)
    simp only [h0]
    refine ⟨insertAll_sorted _ [] List.Pairwise.nil, ?_⟩
    intro r hr
    rcases mem_insertAll_subset _ _ r hr with h | h
    · cases h
    · simp only [recsFor, List.mem_map, List.mem_filter, List.mem_flatMap] at h
      obtain ⟨ev, ⟨⟨pr, hpr, hev⟩, hi'⟩, rfl⟩ := h
      have hsg := hseg pr hpr
      obtain ⟨e', he', hv⟩ := pairEvents_valid hsg.1 hsg.2 ev hev
      have : ev.1 = i := by simpa using hi'
      rw [this, he0] at he'
      cases he'
      exact hv

/-- the edges of a fresh graph carry no intersections -/
theorem new_edges_eis (idx : Nat) (g : Geom) : ∀ e ∈ (RGraph.new idx g).edges, e.eis = [] := by
  intro e he
  simp only [RGraph.new, List.mem_map] at he
  obtain ⟨e0, _, rfl⟩ := he
  rfl

/-- … hence the edges of the self-noded graph of an operand are well-formed -/
theorem freshGraph_wf (idx : Nat) (g : Geom) :
    ∀ e ∈ (freshGraph Arith.exact idx g).edges, SortedEI e.eis ∧ ∀ r ∈ e.eis, ValidRec e.coords r :=
  selfNoded_wf _ _ (new_edges_eis idx g)

end Geo.Proofs.RELM
