/-
  GeoProofs.Lemmas.C12Closest — the per-type dispatch of `closest_point` satisfies `Spec` for every
  geometry (every nesting of collections).
-/
import GeoProofs.Lemmas.C12Fold

namespace Geo.Proofs.C12
open Geo Geo.CP Geo.Proofs.Kernel

/-- the candidate locus of a geometry: its isolated points and its non-degenerate segments
(linework and ring edges) -/
def Locus (g : Geom) (q : Pt) : Prop := q ∈ ptSet g ∨ SegsLocus (segSet g) q

theorem SegsLocus_nil (q : Pt) : SegsLocus [] q ↔ False := by simp [SegsLocus]

theorem SegsLocus_single (a b q : Pt) : SegsLocus [(a, b)] q ↔ OnSeg a b q := by
  simp [SegsLocus]

theorem closestList_eq_map (p : Pt) : ∀ gs : List Geom, closestList gs p = gs.map (fun g => closest g p)
  | [] => by simp [closestList]
  | g :: gs => by simp [closestList, closestList_eq_map p gs]

theorem hitsList_iff (p : Pt) : ∀ gs : List Geom, hitsList gs p = true ↔ ∃ g ∈ gs, hits g p = true
  | [] => by simp [hitsList]
  | g :: gs => by simp [hitsList, hitsList_iff p gs]

theorem mem_ptSetList (q : Pt) : ∀ gs : List Geom, q ∈ ptSetList gs ↔ ∃ g ∈ gs, q ∈ ptSet g
  | [] => by simp [ptSetList]
  | g :: gs => by simp [ptSetList, mem_ptSetList q gs]

theorem segsLocus_segSetList (q : Pt) :
    ∀ gs : List Geom, SegsLocus (segSetList gs) q ↔ ∃ g ∈ gs, SegsLocus (segSet g) q
  | [] => by simp [segSetList, SegsLocus]
  | g :: gs => by
    simp only [segSetList, SegsLocus_append, segsLocus_segSetList q gs, List.mem_cons,
      exists_eq_or_imp]

theorem locus_collection (gs : List Geom) (q : Pt) :
    Locus (.collection gs) q ↔ ∃ g ∈ gs, Locus g q := by
  simp only [Locus, ptSet, segSet, mem_ptSetList, segsLocus_segSetList]
  constructor
  · rintro (⟨g, hg, h⟩ | ⟨g, hg, h⟩)
    · exact ⟨g, hg, Or.inl h⟩
    · exact ⟨g, hg, Or.inr h⟩
  · rintro ⟨g, hg, h | h⟩
    · exact Or.inl ⟨g, hg, h⟩
    · exact Or.inr ⟨g, hg, h⟩

theorem closest_spec_leaf_rect (mn mx p : Pt) :
    Spec p (hits (.rect mn mx) p = true) (Locus (.rect mn mx)) (closest (.rect mn mx) p) := by
  have := arealClosest_spec (rectCoord mn mx p) _ p _ (segsClosest_spec (SM.rectToLines ⟨mn, mx⟩) p)
  simp only [closest, rectClosest]
  refine this.congr ?_ ?_
  · simp only [hits, Bool.or_eq_true, onSegsNZ_iff]
  · intro q; simp [Locus, ptSet, segSet]

theorem closest_spec_leaf_tri (a b c p : Pt) :
    Spec p (hits (.triangle a b c) p = true) (Locus (.triangle a b c)) (closest (.triangle a b c) p) := by
  have := arealClosest_spec (triCoord a b c p) _ p _ (segsClosest_spec (triLines a b c) p)
  simp only [closest, triClosest]
  refine this.congr ?_ ?_
  · simp only [hits, Bool.or_eq_true, onSegsNZ_iff]
  · intro q; simp [Locus, ptSet, segSet]

mutual
/-- the whole dispatch, for every geometry -/
theorem closest_spec_all : ∀ (g : Geom) (p : Pt), Spec p (hits g p = true) (Locus g) (closest g p)
  | .point q, p => by
    simp only [closest]
    refine (pointClosest_spec q p).congr ?_ ?_
    · simp [hits]
    · intro x; simp [Locus, ptSet, segSet, SegsLocus]
  | .line a b, p => by
    simp only [closest]
    refine (line_closest_spec a b p).congr ?_ ?_
    · simp only [hits, Bool.and_eq_true, bne_iff_ne, ne_eq, OnSeg, lineCoord_iff]
    · intro x; simp [Locus, ptSet, segSet, SegsLocus]
  | .lineString cs, p => by
    simp only [closest]
    refine (lsClosest_spec cs p).congr ?_ ?_
    · simp only [hits, onSegsNZ_iff]
    · intro x; simp [Locus, ptSet, segSet]
  | .polygon poly, p => by
    simp only [closest]
    refine (polyClosest_spec poly p).congr ?_ ?_
    · simp only [hits]
    · intro x; simp [Locus, ptSet, segSet]
  | .multiPoint qs, p => by
    simp only [closest]
    have := closestOf_spec p (fun q => pointClosest q p) (fun q => q = p) (fun q x => x = q) qs
      (fun q _ => pointClosest_spec q p)
    refine this.congr ?_ ?_
    · simp [hits]
    · intro x; simp [Locus, ptSet, segSet, SegsLocus]
  | .multiLineString ls, p => by
    simp only [closest]
    have := closestOf_spec p (fun cs => lsClosest cs p) (fun cs => SegsLocus (segs cs) p)
      (fun cs => SegsLocus (segs cs)) ls (fun cs _ => lsClosest_spec cs p)
    refine this.congr ?_ ?_
    · simp only [hits, List.any_eq_true, onSegsNZ_iff]
    · intro x; simp [Locus, ptSet, segSet, SegsLocus_flatMap]
  | .multiPolygon ps, p => by
    simp only [closest]
    have := closestOf_spec p (fun poly => polyClosest poly p) (fun poly => polyHits poly p = true)
      (fun poly => SegsLocus (Poly.ringSegs poly)) ps (fun poly _ => polyClosest_spec poly p)
    refine this.congr ?_ ?_
    · simp only [hits, List.any_eq_true]
    · intro x; simp [Locus, ptSet, segSet, SegsLocus_flatMap]
  | .rect mn mx, p => closest_spec_leaf_rect mn mx p
  | .triangle a b c, p => closest_spec_leaf_tri a b c p
  | .collection gs, p => by
    simp only [closest, closestList_eq_map]
    have h0 : Spec p False (fun _ => False) Closest.indeterminate := ⟨id, fun _ => id⟩
    have := closestFold_spec p (fun g => closest g p) (fun g => hits g p = true) Locus gs _ _ _
      (closest_spec_list gs p) h0
    refine this.congr ?_ ?_
    · simp only [hits, hitsList_iff, false_or]
    · intro x; simp only [locus_collection, false_or]
theorem closest_spec_list : ∀ (gs : List Geom) (p : Pt),
    ∀ g ∈ gs, Spec p (hits g p = true) (Locus g) (closest g p)
  | [], _ => by simp
  | g :: gs, p => by
    intro g' hg'
    rcases List.mem_cons.1 hg' with h | h
    · rw [h]; exact closest_spec_all g p
    · exact closest_spec_list gs p g' h
end

end Geo.Proofs.C12
