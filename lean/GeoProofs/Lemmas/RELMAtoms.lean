/-
  RELM — the result of the model of the implementation as a cell-wise maximum: every update of
  the matrix (`set_at_least_from_string`, `Edge::update_intersection_matrix`,
  `CoordNode::update_intersection_matrix`) is a fold of `set_at_least` over a list of *atoms*
  `(dimension, position w.r.t. A, position w.r.t. B)`, the same shape as the specification's
  accumulation loop (`Spec.foldFrom`). Hence a cell of the result is at least `d` iff the start
  matrix `empty_disjoint()` says so or some component contributed it (`foldFrom_get`).
-/
import GeoProofs.Lemmas.RELMMono

namespace Geo.Proofs.RELM
open Geo Geo.GG Geo.RI Geo.Proofs.Spec

theorem foldFrom_append (m : IM) (l1 l2 : List Atom) :
    foldFrom m (l1 ++ l2) = foldFrom (foldFrom m l1) l2 := by
  unfold foldFrom; rw [List.foldl_append]

theorem foldFrom_nil (m : IM) : foldFrom m [] = m := rfl

/-- the atom `set_at_least_if_in_both(pa, pb, d)` contributes, if any -/
def optAtom (d : Dim) (pa pb : Option Pos) : List Atom :=
  match pa, pb with
  | some x, some y => [⟨d, x, y⟩]
  | _, _ => []

theorem setAtLeastIfBoth_eq (m : IM) (pa pb : Option Pos) (d : Dim) :
    setAtLeastIfBoth m pa pb d = foldFrom m (optAtom d pa pb) := by
  cases pa <;> cases pb <;> rfl

/-- the contributions of `Edge::update_intersection_matrix(label)` -/
def labelAtoms (l : Label) : List Atom :=
  optAtom .one (l.onPos 0) (l.onPos 1) ++
    (if l.isArea then optAtom .two (l.leftPos 0) (l.leftPos 1) ++ optAtom .two (l.rightPos 0) (l.rightPos 1) else [])

theorem edgeUpdateIM_eq (l : Label) (m : IM) : edgeUpdateIM l m = foldFrom m (labelAtoms l) := by
  unfold edgeUpdateIM labelAtoms
  simp only
  split
  · rw [foldFrom_append, foldFrom_append, ← setAtLeastIfBoth_eq, ← setAtLeastIfBoth_eq, ← setAtLeastIfBoth_eq]
  · rw [List.append_nil, ← setAtLeastIfBoth_eq]

theorem foldl_edgeUpdateIM_eq (ls : List Label) (m : IM) :
    ls.foldl (fun m l => edgeUpdateIM l m) m = foldFrom m (ls.flatMap labelAtoms) := by
  induction ls generalizing m with
  | nil => rfl
  | cons l ls ih =>
    rw [List.foldl_cons, ih, List.flatMap_cons, foldFrom_append, edgeUpdateIM_eq]

/-- the contribution of `CoordNode::update_intersection_matrix` -/
def nodeAtoms (l : Label) : List Atom := optAtom .zero (l.onPos 0) (l.onPos 1)

/-- the contributions of the node loop of `update_intersection_matrix` (`none`: a panic) -/
def nodesAtoms (a b : Geom) : List RNode → Option (List Atom)
  | [] => some []
  | n :: ns =>
    match starLabels a b n.coord n.star with
    | none => none
    | some ls =>
      if n.label.geometryCount ≥ 2 then
        (nodesAtoms a b ns).map (fun rest => nodeAtoms n.label ++ ls.flatMap labelAtoms ++ rest)
      else none

theorem updateNodes_eq (a b : Geom) : ∀ (ns : List RNode) (m : IM),
    updateNodes a b ns m = (nodesAtoms a b ns).map (foldFrom m)
  | [], m => rfl
  | n :: ns, m => by
      simp only [updateNodes, nodesAtoms]
      cases hs : starLabels a b n.coord n.star with
      | none => rfl
      | some ls =>
        simp only [nodeUpdateIM]
        by_cases hc : n.label.geometryCount ≥ 2
        · simp only [hc, if_true]
          rw [updateNodes_eq a b ns, Option.map_map]
          congr 1
          funext rest
          simp only [Function.comp, foldFrom_append, foldl_edgeUpdateIM_eq, setAtLeastIfBoth_eq, nodeAtoms]
        · simp only [hc, if_false, Option.map_none]

/-! ### `set_at_least_from_string` -/

def stringAtoms (s : String) : List Atom :=
  match s.toList.map dimOfChar with
  | [a, b, c, d, e, f, g, h, i] =>
    [⟨a, .inside, .inside⟩, ⟨b, .inside, .onBoundary⟩, ⟨c, .inside, .outside⟩,
     ⟨d, .onBoundary, .inside⟩, ⟨e, .onBoundary, .onBoundary⟩, ⟨f, .onBoundary, .outside⟩,
     ⟨g, .outside, .inside⟩, ⟨h, .outside, .onBoundary⟩, ⟨i, .outside, .outside⟩]
  | _ => []

theorem max_eq_setAtLeast (x d : Dim) : x.max d = if x.rank < d.rank then d else x := by
  unfold Dim.max
  by_cases h : x.rank < d.rank
  · rw [if_pos h, if_neg (by omega)]
  · rw [if_neg h, if_pos (by omega)]

theorem setAtLeastFromString_eq (m : IM) (s : String) :
    setAtLeastFromString m s = foldFrom m (stringAtoms s) := by
  unfold setAtLeastFromString stringAtoms
  split
  · rename_i a b c d e f g h i heq
    simp only [heq, foldFrom, List.foldl_cons, List.foldl_nil]
    apply IM.ext_get
    intro x y
    simp only [get_setAtLeast]
    cases m
    cases x <;> cases y <;> simp only [IM.get, max_eq_setAtLeast, and_self, and_true, and_false, true_and, false_and,
      if_true, if_false, reduceCtorEq] <;> rfl
  · rename_i hne
    split
    · rename_i a b c d e f g h i heq
      exact absurd heq (hne a b c d e f g h i)
    · rfl

/-- the atoms `compute_proper_intersection_im` contributes -/
def properAtoms (da db : Dim) (hasProper hasProperInterior : Bool) : List Atom :=
  match da, db with
  | .two, .two => if hasProper then stringAtoms "212101212" else []
  | .two, .one =>
    (if hasProper then stringAtoms "FFF0FFFF2" else []) ++ (if hasProperInterior then stringAtoms "1FFFFF1FF" else [])
  | .one, .two =>
    (if hasProper then stringAtoms "F0FFFFFF2" else []) ++ (if hasProperInterior then stringAtoms "1F1FFFFFF" else [])
  | .one, .one => if hasProperInterior then stringAtoms "0FFFFFFFF" else []
  | _, _ => []

theorem properIM_eq (da db : Dim) (p q : Bool) (m : IM) :
    properIM da db p q m = foldFrom m (properAtoms da db p q) := by
  cases da <;> cases db <;> cases p <;> cases q <;>
    simp [properIM, properAtoms, setAtLeastFromString_eq, foldFrom_nil, foldFrom_append]

/-! ### the whole graph path -/

/-- all contributions to the matrix on the graph path, in the order the code applies them
(`none`: the code panics) -/
def graphAtoms (ar : Arith) (a b : Geom) (ga0 gb0 : RGraph) : Option (List Atom) :=
  let (ga, gb, hasProper, hasProperInterior) := mutualGraphs ar ga0 gb0
  match labeledNodes a b ga gb with
  | none => none
  | some ns =>
    match endsForEdges ga.edges with
    | none => none
    | some endsA =>
      match endsForEdges gb.edges with
      | none => none
      | some endsB =>
        match labelIsolatedEdges b 1 ga.edges, labelIsolatedEdges a 0 gb.edges with
        | some isoA, some isoB =>
          (nodesAtoms a b (insertEdgeEnds ar endsB (insertEdgeEnds ar endsA ns))).map (fun na =>
            properAtoms (dims a) (dims b) hasProper hasProperInterior ++ (isoA ++ isoB).flatMap labelAtoms ++ na)
        | _, _ => none

/-- **the matrix of the graph path is the cell-wise maximum of `empty_disjoint()` and the
contributions of the proper-intersection shortcut, the isolated edges, the nodes and the edge-end
bundles** -/
theorem relateGraphs_eq_fold (ar : Arith) (a b : Geom) (ga0 gb0 : RGraph) :
    relateGraphs ar a b ga0 gb0 = (graphAtoms ar a b ga0 gb0).map (foldFrom emptyDisjoint) := by
  unfold relateGraphs graphAtoms
  simp only
  cases labeledNodes a b (mutualGraphs ar ga0 gb0).1 (mutualGraphs ar ga0 gb0).2.1 with
  | none => rfl
  | some ns =>
    simp only
    cases endsForEdges (mutualGraphs ar ga0 gb0).1.edges with
    | none => rfl
    | some endsA =>
      simp only
      cases endsForEdges (mutualGraphs ar ga0 gb0).2.1.edges with
      | none => rfl
      | some endsB =>
        simp only
        cases labelIsolatedEdges b 1 (mutualGraphs ar ga0 gb0).1.edges with
        | none => rfl
        | some isoA =>
          cases labelIsolatedEdges a 0 (mutualGraphs ar ga0 gb0).2.1.edges with
          | none => rfl
          | some isoB =>
            simp only
            rw [updateNodes_eq, Option.map_map]
            congr 1
            funext na
            simp only [Function.comp, foldFrom_append, foldl_edgeUpdateIM_eq, properIM_eq, emptyDisjoint]

/-- cell-level reading of the result: a cell is at least `d` iff `empty_disjoint()` has it or some
contribution located there has dimension at least `d` -/
theorem relateGraphs_get (ar : Arith) (a b : Geom) (ga0 gb0 : RGraph) {m : IM} {atoms : List Atom}
    (ha : graphAtoms ar a b ga0 gb0 = some atoms) (hm : relateGraphs ar a b ga0 gb0 = some m)
    (x y : Pos) (d : Dim) :
    d.rank ≤ (m.get x y).rank ↔
      d.rank ≤ (emptyDisjoint.get x y).rank ∨ ∃ t ∈ atoms, t.posA = x ∧ t.posB = y ∧ d.rank ≤ t.dim.rank := by
  rw [relateGraphs_eq_fold, ha] at hm
  simp only [Option.map_some, Option.some.injEq] at hm
  rw [← hm, foldFrom_get]

end Geo.Proofs.RELM
