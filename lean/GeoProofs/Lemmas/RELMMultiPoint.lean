/-
  RELM — `MultiPoint × MultiPoint`: the model of the implementation returns the specification's
  matrix (graph path: the node map holds exactly the coordinates of the two operands, each labelled
  Inside / Outside per operand; disjoint-envelope path: RELMDisjoint).
-/
import GeoProofs.Lemmas.RELMPoint4
import GeoProofs.Lemmas.RELMDisjoint
import GeoProofs.Lemmas.RelateSpecSwap

namespace Geo.Proofs.RELM
open Geo Geo.GG Geo.RI Geo.Proofs.Spec

/-! ### the graph of a `MultiPoint` -/

theorem upsertNode_forall {P : Node → Prop} (c : Pt) (f : Label → Label) :
    ∀ (ns : List Node), (∀ n ∈ ns, P n) → (∀ n, P n → n.coord = c → P ⟨n.coord, f n.label⟩) →
      P ⟨c, f Label.emptyLine⟩ → ∀ n ∈ upsertNode c f ns, P n
  | [], _, _, hnew => by
      intro n hn
      simp only [upsertNode, List.mem_singleton] at hn
      subst hn; exact hnew
  | x :: xs, h, hf, hnew => by
      intro n hn
      simp only [upsertNode] at hn
      split at hn
      · rename_i hc
        simp only [List.mem_cons] at hn
        rcases hn with rfl | hn
        · exact hf x (h x (List.mem_cons_self ..)) hc
        · exact h n (List.mem_cons_of_mem _ hn)
      · simp only [List.mem_cons] at hn
        rcases hn with rfl | hn
        · exact h _ (List.mem_cons_self ..)
        · exact upsertNode_forall c f xs (fun n hn => h n (List.mem_cons_of_mem _ hn)) hf hnew n hn

theorem upsertNode_coords (c : Pt) (f : Label → Label) (x : Pt) :
    ∀ (ns : List Node), x ∈ (upsertNode c f ns).map (·.coord) ↔ x = c ∨ x ∈ ns.map (·.coord)
  | [] => by simp [upsertNode]
  | n :: ns => by
      simp only [upsertNode]
      split
      · rename_i hc
        simp only [List.map_cons, List.mem_cons, hc]
        tauto
      · simp only [List.map_cons, List.mem_cons, upsertNode_coords c f x ns]
        tauto

theorem addPoints_spec (idx : Nat) : ∀ (ps : List Pt) (G : Graph),
    (addPoints idx ps G).edges = G.edges ∧ (addPoints idx ps G).useRule = G.useRule ∧
    ((∀ n ∈ G.nodes, n.label.onPos idx = some .inside) →
      ∀ n ∈ (addPoints idx ps G).nodes, n.label.onPos idx = some .inside) ∧
    (∀ x, x ∈ (addPoints idx ps G).nodes.map (·.coord) ↔ x ∈ ps ∨ x ∈ G.nodes.map (·.coord))
  | [], G => by simp [addPoints]
  | p :: ps, G => by
      obtain ⟨h1, h2, h3, h4⟩ := addPoints_spec idx ps (addPoint idx p G)
      simp only [addPoints]
      refine ⟨h1, h2, ?_, ?_⟩
      · intro hG
        apply h3
        exact upsertNode_forall (P := fun n => n.label.onPos idx = some .inside) p _ G.nodes hG
          (fun n _ _ => Geo.Proofs.C17L.onPos_setOn _ _ _) (Geo.Proofs.C17L.onPos_setOn _ _ _)
      · intro x
        rw [h4]
        simp only [addPoint, insertPoint, upsertNode_coords, List.mem_cons]
        tauto

theorem buildGraph_multiPoint (idx : Nat) (ps : List Pt) :
    buildGraph idx (.multiPoint ps) = addPoints idx ps Graph.empty := by
  cases ps <;> rfl

theorem fresh_multiPoint (ar : Arith) (idx : Nat) (ps : List Pt) :
    freshGraph ar idx (.multiPoint ps) =
      ⟨idx, .multiPoint ps, (addPoints idx ps Graph.empty).nodes, true, []⟩ := by
  obtain ⟨h1, h2, _, _⟩ := addPoints_spec idx ps Graph.empty
  unfold freshGraph RGraph.selfNode RGraph.new
  simp only [buildGraph_multiPoint, h1, h2]
  rfl

/-! ### copying nodes that all carry the same position -/

theorem setOn_setOn (l : Label) (idx : Nat) (p : Pos) : (l.setOn idx p).setOn idx p = l.setOn idx p := by
  cases l with | mk a b =>
  unfold Label.setOn Label.set Label.get
  by_cases h : idx = 0
  · simp only [h, if_true]; cases a <;> rfl
  · simp only [h, if_false]; cases b <;> rfl

theorem copyNodes_const (idx : Nat) (q0 : Pos) : ∀ (gs : List Node) (ns : List RNode),
    (∀ g ∈ gs, g.label.onPos idx = some q0) → SortedR ns →
    ∃ ns', copyNodes idx gs ns = some ns' ∧ SortedR ns' ∧
      ∀ c, findR c ns' =
        if c ∈ gs.map (·.coord) then
          some ((fun n : RNode => { n with label := n.label.setOn idx q0 }) ((findR c ns).getD (RNode.new c)))
        else findR c ns
  | [], ns, _, hs => ⟨ns, rfl, hs, fun c => by simp⟩
  | g :: gs, ns, hg, hs => by
      have hg0 := hg g (List.mem_cons_self ..)
      have hs1 := upsertR_sorted g.coord (fun n : RNode => { n with label := n.label.setOn idx q0 }) (fun _ => rfl) ns hs
      obtain ⟨ns', h1, h2, h3⟩ := copyNodes_const idx q0 gs _ (fun x hx => hg x (List.mem_cons_of_mem _ hx)) hs1
      refine ⟨ns', ?_, h2, ?_⟩
      · simp only [copyNodes, hg0]
        exact h1
      · intro c
        have hfu := findR_upsertR g.coord c (fun n : RNode => { n with label := n.label.setOn idx q0 })
          (fun _ => rfl) ns hs
        rw [h3 c, hfu]
        simp only [List.map_cons, List.mem_cons]
        by_cases hc : c = g.coord
        · subst hc
          simp only [if_true, true_or, Option.getD_some]
          split
          · simp only [setOn_setOn]
          · rfl
        · simp only [hc, if_false, false_or]

/-! ### positions w.r.t. a `MultiPoint` -/

def posIn (xs : List Pt) (c : Pt) : Pos := if c ∈ xs then .inside else .outside

theorem coordPos_multiPoint (xs : List Pt) (c : Pt) : coordPos (.multiPoint xs) c = posIn xs c := by
  unfold posIn
  by_cases h : c ∈ xs
  · have : xs.any (· == c) = true := by
      rw [List.any_eq_true]; exact ⟨c, h, by simp⟩
    simp [coordPos, calcPos, PosAcc.result, this, h]
  · have : xs.any (· == c) = false := by
      rw [List.any_eq_false]; intro x hx
      simp only [beq_iff_eq]; intro he; subst he; exact h hx
    simp [coordPos, calcPos, PosAcc.result, this, h]

theorem locateParts_points (xs : List Pt) (c : Pt) : locateParts ⟨xs, [], []⟩ c = posIn xs c := by
  unfold posIn locateParts
  by_cases h : c ∈ xs
  · have : xs.any (· == c) = true := by
      rw [List.any_eq_true]; exact ⟨c, h, by simp⟩
    simp [Parts.areaSegs, Parts.curveSegs, onAnySeg, this, h]
  · have : xs.any (· == c) = false := by
      rw [List.any_eq_false]; intro x hx
      simp only [beq_iff_eq]; intro he; subst he; exact h hx
    simp [Parts.areaSegs, Parts.curveSegs, onAnySeg, this, h]

/-! ### the node loop when no node has edge ends -/

theorem starLabels_nil (a b : Geom) (c : Pt) : starLabels a b c [] = some [] := rfl

theorem nodesAtoms_of_bare (a b : Geom) : ∀ (ns : List RNode),
    (∀ n ∈ ns, n.star = [] ∧ n.label.geometryCount ≥ 2) →
      nodesAtoms a b ns = some (ns.flatMap (fun n => nodeAtoms n.label))
  | [], _ => rfl
  | n :: ns, h => by
      obtain ⟨hs, hc⟩ := h n (List.mem_cons_self ..)
      simp only [nodesAtoms, hs, starLabels_nil, hc, if_true,
        nodesAtoms_of_bare a b ns (fun x hx => h x (List.mem_cons_of_mem _ hx)), Option.map_some,
        List.flatMap_cons, List.flatMap_nil, List.append_nil]

/-! ### two folds with the same atoms -/

theorem foldFrom_emptyDisjoint_eq {l l' : List Atom} (h : ∀ t, t ∈ l ↔ t ∈ l') :
    foldFrom emptyDisjoint l = (fold l').set .outside .outside .two := by
  apply IM.ext_get
  intro x y
  apply Dim.eq_of_le_iff
  intro d
  rw [foldFrom_get, get_set]
  by_cases hxy : x = .outside ∧ y = .outside
  · obtain ⟨rfl, rfl⟩ := hxy
    simp only [and_self, if_true]
    have : (emptyDisjoint.get .outside .outside) = .two := rfl
    rw [this]
    constructor
    · intro _; cases d <;> simp [Dim.rank]
    · intro hd; exact Or.inl hd
  · have hne : ¬ (Pos.outside = x ∧ Pos.outside = y) := fun hc => hxy ⟨hc.1.symm, hc.2.symm⟩
    rw [if_neg hne, fold_get]
    have he : emptyDisjoint.get x y = .empty := by
      cases x <;> cases y <;> first | rfl | exact absurd ⟨rfl, rfl⟩ hxy
    have h0 : Dim.empty.rank = 0 := rfl
    rw [he, h0, Dim.rank_le_zero]
    simp only [h]

/-! ### the graph path -/

/-- the label every node ends up with -/
def mpLabel (ps qs : List Pt) (c : Pt) : Label :=
  ⟨.lineOrPoint (some (posIn ps c)), .lineOrPoint (some (posIn qs c))⟩

theorem iso_both (ps qs : List Pt) (c : Pt) (hp : c ∈ ps) (hq : c ∈ qs) :
    labelIsolatedNode (.multiPoint ps) (.multiPoint qs)
        ((fun n : RNode => { n with label := n.label.setOn 1 .inside })
          ((fun n : RNode => { n with label := n.label.setOn 0 .inside }) (RNode.new c))) =
      ⟨c, mpLabel ps qs c, []⟩ := by
  simp [labelIsolatedNode, RNode.new, Label.geometryCount, Label.emptyLine, TopoPos.emptyLine, Label.setOn,
    Label.set, Label.get, TopoPos.setOn, TopoPos.isEmpty, mpLabel, posIn, hp, hq]

theorem iso_a (ps qs : List Pt) (c : Pt) (hp : c ∈ ps) (hq : c ∉ qs) :
    labelIsolatedNode (.multiPoint ps) (.multiPoint qs)
        ((fun n : RNode => { n with label := n.label.setOn 0 .inside }) (RNode.new c)) =
      ⟨c, mpLabel ps qs c, []⟩ := by
  have h1 : coordPos (.multiPoint qs) c = .outside := by rw [coordPos_multiPoint]; simp [posIn, hq]
  simp [labelIsolatedNode, RNode.new, Label.geometryCount, Label.emptyLine, TopoPos.emptyLine, Label.setOn,
    Label.set, Label.get, TopoPos.setOn, TopoPos.isEmpty, Label.isEmptyAt, Label.setAll, TopoPos.setAll,
    mpLabel, posIn, hp, hq, h1]

theorem iso_b (ps qs : List Pt) (c : Pt) (hp : c ∉ ps) (hq : c ∈ qs) :
    labelIsolatedNode (.multiPoint ps) (.multiPoint qs)
        ((fun n : RNode => { n with label := n.label.setOn 1 .inside }) (RNode.new c)) =
      ⟨c, mpLabel ps qs c, []⟩ := by
  have h1 : coordPos (.multiPoint ps) c = .outside := by rw [coordPos_multiPoint]; simp [posIn, hp]
  simp [labelIsolatedNode, RNode.new, Label.geometryCount, Label.emptyLine, TopoPos.emptyLine, Label.setOn,
    Label.set, Label.get, TopoPos.setOn, TopoPos.isEmpty, Label.isEmptyAt, Label.setAll, TopoPos.setAll,
    mpLabel, posIn, hp, hq, h1]

theorem labeledNodes_multiPoint (ar : Arith) (ps qs : List Pt) :
    ∃ labeled,
      labeledNodes (.multiPoint ps) (.multiPoint qs) (freshGraph ar 0 (.multiPoint ps))
        (freshGraph ar 1 (.multiPoint qs)) = some labeled ∧ SortedR labeled ∧
      ∀ c, findR c labeled = if c ∈ ps ∨ c ∈ qs then some ⟨c, mpLabel ps qs c, []⟩ else none := by
  obtain ⟨_, _, ha3, ha4⟩ := addPoints_spec 0 ps Graph.empty
  obtain ⟨_, _, hb3, hb4⟩ := addPoints_spec 1 qs Graph.empty
  have hA : ∀ g ∈ sortNodes (addPoints 0 ps Graph.empty).nodes, g.label.onPos 0 = some .inside := by
    intro g hg
    exact ha3 (fun n hn => by cases hn) g ((mem_sortNodes g _).1 hg)
  have hB : ∀ g ∈ sortNodes (addPoints 1 qs Graph.empty).nodes, g.label.onPos 1 = some .inside := by
    intro g hg
    exact hb3 (fun n hn => by cases hn) g ((mem_sortNodes g _).1 hg)
  have hAc : ∀ c, c ∈ (sortNodes (addPoints 0 ps Graph.empty).nodes).map (·.coord) ↔ c ∈ ps := by
    intro c
    have := ha4 c
    have hnil : Graph.empty.nodes = [] := rfl
    rw [hnil] at this
    simp only [List.map_nil, List.not_mem_nil, or_false] at this
    rw [← this]
    simp only [List.mem_map, mem_sortNodes]
  have hBc : ∀ c, c ∈ (sortNodes (addPoints 1 qs Graph.empty).nodes).map (·.coord) ↔ c ∈ qs := by
    intro c
    have := hb4 c
    have hnil : Graph.empty.nodes = [] := rfl
    rw [hnil] at this
    simp only [List.map_nil, List.not_mem_nil, or_false] at this
    rw [← this]
    simp only [List.mem_map, mem_sortNodes]
  obtain ⟨ns1, h1, s1, f1⟩ := copyNodes_const 0 .inside _ [] hA sortedR_nil
  obtain ⟨ns2, h2, s2, f2⟩ := copyNodes_const 1 .inside _ ns1 hB s1
  refine ⟨ns2.map (labelIsolatedNode (.multiPoint ps) (.multiPoint qs)), ?_, ?_, ?_⟩
  · unfold labeledNodes
    simp only [fresh_multiPoint, intersectionNodes, h1, h2]
  · exact sortedR_map _ (fun n => by unfold labelIsolatedNode; split <;> [split <;> rfl; rfl]) s2
  · intro c
    rw [findR_map _ (fun n => by unfold labelIsolatedNode; split <;> [split <;> rfl; rfl]), f2 c, f1 c]
    simp only [hAc, hBc, findR, Option.getD_none]
    by_cases hp : c ∈ ps <;> by_cases hq : c ∈ qs
    · simp only [hp, hq, if_true, true_or, Option.getD_some, Option.map_some]
      exact congrArg some (iso_both ps qs c hp hq)
    · simp only [hp, hq, if_true, if_false, true_or, Option.map_some]
      exact congrArg some (iso_a ps qs c hp hq)
    · simp only [hp, hq, if_true, if_false, or_true, Option.getD_none, Option.map_some]
      exact congrArg some (iso_b ps qs c hp hq)
    · simp only [hp, hq, if_false, or_self, Option.map_none]

/-- graph path of `MultiPoint × MultiPoint` -/
theorem relateGraph_multiPoint (ar : Arith) (ps qs : List Pt) :
    relateGraph ar (.multiPoint ps) (.multiPoint qs) = some (relateSpec (.multiPoint ps) (.multiPoint qs)) := by
  obtain ⟨labeled, hl, hs, hf⟩ := labeledNodes_multiPoint ar ps qs
  have hstar := labeledNodes_star hl
  -- every node: its coordinate is one of the points, its label is `mpLabel`
  have hnode : ∀ n ∈ labeled, (n.coord ∈ ps ∨ n.coord ∈ qs) ∧ n = ⟨n.coord, mpLabel ps qs n.coord, []⟩ := by
    intro n hn
    have := findR_of_mem hs hn
    rw [hf] at this
    split at this
    · rename_i hc
      exact ⟨hc, (Option.some.inj this).symm⟩
    · cases this
  have hbare : ∀ n ∈ labeled, n.star = [] ∧ n.label.geometryCount ≥ 2 := by
    intro n hn
    refine ⟨hstar n hn, ?_⟩
    rw [(hnode n hn).2]
    simp [mpLabel, Label.geometryCount, TopoPos.isEmpty]
  unfold relateGraph
  rw [relateGraphs_eq_fold]
  rw [fresh_multiPoint, fresh_multiPoint] at hl ⊢
  unfold graphAtoms
  simp only [mutualGraphs, edgeIntersections, allSegs, allSegsFrom, mutualRows, hl, endsForEdges,
    labelIsolatedEdges, insertEdgeEnds, nodesAtoms_of_bare _ _ labeled hbare,
    Option.map_some, List.append_nil, List.flatMap_nil]
  have hpa : properAtoms (dims (.multiPoint ps)) (dims (.multiPoint qs)) false false = [] := by
    unfold properAtoms
    cases dims (.multiPoint ps) <;> cases dims (.multiPoint qs) <;> rfl
  rw [hpa, List.nil_append]
  have hspec : relateSpec (.multiPoint ps) (.multiPoint qs) =
      (fold (Spec.atomsOf ⟨ps, [], []⟩ ⟨qs, [], []⟩)).set .outside .outside .two :=
    Spec.relateParts_eq ⟨ps, [], []⟩ ⟨qs, [], []⟩
  rw [hspec]
  refine congrArg some (foldFrom_emptyDisjoint_eq ?_)
  intro t
  simp only [List.mem_flatMap, Spec.atomsOf, Parts.allSegs, Parts.curveSegs, Parts.areaSegs,
    List.flatMap_nil, List.append_nil, List.mem_map]
  constructor
  · rintro ⟨n, hn, ht⟩
    obtain ⟨hc, hn'⟩ := hnode n hn
    refine ⟨n.coord, ?_, ?_⟩
    · unfold Spec.vertsOf
      rw [Spec.mem_dedupPts]
      simp [Spec.endsOf, Parts.allSegs, Parts.curveSegs, Parts.areaSegs, pairVertices, hc]
    · rw [hn'] at ht
      simp only [nodeAtoms, optAtom, mpLabel, onPos0, onPos1, TopoPos.on, List.mem_singleton] at ht
      rw [ht, locateParts_points, locateParts_points]
  · rintro ⟨c, hc, rfl⟩
    unfold Spec.vertsOf at hc
    rw [Spec.mem_dedupPts] at hc
    simp [Spec.endsOf, Parts.allSegs, Parts.curveSegs, Parts.areaSegs, pairVertices] at hc
    have hfc := hf c
    rw [if_pos hc] at hfc
    obtain ⟨hmem, _⟩ := findR_mem hfc
    refine ⟨_, hmem, ?_⟩
    simp only [nodeAtoms, optAtom, mpLabel, onPos0, onPos1, TopoPos.on, List.mem_singleton, locateParts_points]

/-- **MultiPoint × MultiPoint**: the model of the implementation (any arithmetic) returns the
specification's matrix, for all coordinate lists (empty, repeated points, … included). -/
theorem relateImplWith_multiPoint (ar : Arith) (ps qs : List Pt) :
    relateImplWith ar (.multiPoint ps) (.multiPoint qs) = some (relateSpec (.multiPoint ps) (.multiPoint qs)) := by
  cases h : envelopesMeet (.multiPoint ps) (.multiPoint qs) with
  | true =>
    unfold relateImplWith
    rw [h, if_pos rfl]
    exact relateGraph_multiPoint ar ps qs
  | false =>
    apply relateImplWith_disjoint_eq_spec_noInteriors ar h rfl rfl rfl rfl
    · intro q hq; simp [parts] at hq
    · intro q hq; simp [parts] at hq
    · exact dimsSpec_multiPoint ps
    · exact dimsSpec_multiPoint qs

end Geo.Proofs.RELM
