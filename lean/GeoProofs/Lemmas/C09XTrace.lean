/-
  C09X helper layer 2 (Visvalingam-Whyatt): the removal trace of `visvalingam_indices`.

  `vwLoop` only returns the final `adjacent` vector. `vwLoop_trace` reads the sequence of removals off the
  loop: there is a list `tr` of popped queue entries such that the final vector is `adjInit` with the entries
  of `tr` unlinked one after the other (`replay`), and at every step (`StepsOK`), in the state *at that time*:
  * the entry names the removed vertex's current neighbours (`adj s.current = (s.left, s.right)`),
  * its area is the exact area of that triangle and is at most the tolerance,
  * it is minimal: no live vertex with two proper neighbours spans a smaller triangle with its current
    neighbours (heap order respected — stale entries are skipped, they never cause a removal).
  Same invariants as `vwLoop_exit` (queue coverage, heap order); no fuel assumption.
-/
import GeoProofs.Lemmas.C09PExit

namespace Geo.Proofs.C09
open Geo Geo.Simp

/-- the three writes of one removal -/
def stepAdj (adj : Adj) (s : VScore) : Adj :=
  unlink adj s.left s.current s.right (adj s.left).1 (adj s.right).2

/-- unlink the entries one after the other -/
def replay (adj : Adj) : List VScore → Adj
  | [] => adj
  | s :: t => replay (stepAdj adj s) t

/-- every removal, in the state in which it happens, is of a current triangle of area `≤ ε` that is minimal
among the current triangles of all live interior vertices -/
def StepsOK (cs : List Pt) (eps : Rat) (n : Nat) : Adj → List VScore → Prop
  | _, [] => True
  | adj, s :: t =>
    adj s.current = ((s.left : Int), (s.right : Int)) ∧ adj s.current ≠ (0, 0) ∧
    s.left < s.current ∧ s.current < s.right ∧ s.right < n ∧
    s.area = triArea (coordAt cs s.left) (coordAt cs s.current) (coordAt cs s.right) ∧
    s.area ≤ eps ∧
    (∀ v l r : Nat, v < n → adj v ≠ (0, 0) → adj v = ((l : Int), (r : Int)) → r < n →
      s.area ≤ triArea (coordAt cs l) (coordAt cs v) (coordAt cs r)) ∧
    StepsOK cs eps n (stepAdj adj s) t

theorem vwLoop_trace (cs : List Pt) (eps : Rat) (n : Nat) : ∀ (fuel : Nat) (adj : Adj) (pq : Heap),
    AInv n adj → AInv2 n adj → AllP (EP cs n) pq → HeapInv pq → Covered n adj pq →
    ∃ tr : List VScore, vwLoop cs eps n fuel adj pq = replay adj tr ∧ StepsOK cs eps n adj tr
  | 0, adj, pq, _, _, _, _, _ => ⟨[], by simp [vwLoop, replay], trivial⟩
  | fuel + 1, adj, pq, hi, hi2, hq, hh, hcov => by
    simp only [vwLoop]
    split
    · exact ⟨[], rfl, trivial⟩
    · rename_i s pq' hpop
      obtain ⟨hs, hq'⟩ := heapPop_allP hq hpop
      obtain ⟨hlen, hh', hmin⟩ := heapPop_heap hh hpop
      have hperm := heapPop_perm hpop
      have hcov' : Covered n adj (s :: pq') := by
        intro v l r hv hlive hav hr
        obtain ⟨e, he, f⟩ := hcov v l r hv hlive hav hr
        exact ⟨e, hperm.mem_iff.1 he, f⟩
      split
      · exact ⟨[], rfl, trivial⟩
      · rename_i hle
        generalize hadj : adj s.current = a
        obtain ⟨left, right⟩ := a
        simp only
        split
        · rename_i hst
          refine vwLoop_trace cs eps n fuel adj pq' hi hi2 hq' hh' ?_
          intro v l r hv hlive hav hr
          obtain ⟨e, he, f1, f2, f3⟩ := hcov' v l r hv hlive hav hr
          rcases List.mem_cons.1 he with h0 | h'
          · exfalso
            rw [h0] at f1 f2 f3
            rw [← f2, hadj] at hav
            simp only [Prod.mk.injEq] at hav
            rcases hst with hx | hx
            · exact hx (by rw [hav.1, f1])
            · exact hx (by rw [hav.2, f3])
          · exact ⟨e, h', f1, f2, f3⟩
        · rename_i hne
          have hl : left = (s.left : Int) := by
            by_contra hx; exact hne (Or.inl hx)
          have hr : right = (s.right : Int) := by
            by_contra hx; exact hne (Or.inr hx)
          subst hl hr
          obtain ⟨⟨h1, h2, h3⟩, hint, harea⟩ := hs
          obtain ⟨hinv', b1, b2, _, _⟩ := unlink_inv hi h1 h2 h3 hadj
          have hinv2' := unlink_inv2 hi hi2 h1 h2 h3 hadj
          obtain ⟨tr, htr, hok⟩ := vwLoop_trace cs eps n fuel _ _ hinv' hinv2'
            (recompute_EP s cs pq' _ _ _ _ eps hq' hint b1 (by omega) b2)
            (recomputeOne_heapInv s cs _ _ _ _ n eps (recomputeOne_heapInv s cs _ _ _ _ n eps hh'))
            (covered_unlink eps hi h1 h2 h3 hadj hcov')
          refine ⟨s :: tr, htr, hadj, ?_, h1, h2, h3, harea, not_lt.1 hle, ?_, hok⟩
          · rw [hadj]
            intro h0
            simp only [Prod.mk.injEq] at h0
            have : (s.right : Int) = 0 := h0.2
            omega
          · intro v l r hv hlive hav hr
            obtain ⟨e, he, f1, f2, f3⟩ := hcov v l r hv hlive hav hr
            have ha := (hq e he).2.2
            rw [f1, f2, f3] at ha
            rw [← ha]
            exact hmin e he

/-- the removal trace of `visvalingam_indices` on an input with at least three coordinates -/
theorem visIdx_trace (cs : List Pt) (eps : Rat) (hn : 3 ≤ cs.length) :
    ∃ tr : List VScore,
      visvalingamIndices cs eps =
        (List.range cs.length).filter (fun i => replay adjInit tr i != (0, 0)) ∧
      StepsOK cs eps cs.length adjInit tr := by
  obtain ⟨tr, htr, hok⟩ := vwLoop_trace cs eps cs.length (vwFuel cs.length) adjInit (heapFrom (initScores cs))
    (adjInit_inv _ hn) (adjInit_inv2 _) (heapFrom_allP (initScores_EP cs)) (heapFrom_heap _).2
    (initScores_covered cs)
  refine ⟨tr, ?_, hok⟩
  unfold visvalingamIndices
  rw [if_neg (by omega)]
  simp only [htr]

end Geo.Proofs.C09
