/-
  RELM — the model of the implementation of `relate` (GeoModel/RelateImpl*.lean):
  the matrix only ever grows (`set_at_least*` are monotone), hence `EE = 2` and every lower bound
  set on the way survives; the disjoint-envelope shortcut.
-/
import GeoModel.RelateImplTop
import GeoProofs.Lemmas.RelateSpecLemmas

namespace Geo.Proofs.RELM
open Geo Geo.GG Geo.RI Geo.Proofs.Spec

/-- cell-wise order on matrices (by `Dimensions` rank: `F < 0 < 1 < 2`) -/
def IMLe (m n : IM) : Prop := ∀ a b, (m.get a b).rank ≤ (n.get a b).rank

theorem IMLe.refl (m : IM) : IMLe m m := fun _ _ => Nat.le_refl _

theorem IMLe.trans {m n k : IM} (h1 : IMLe m n) (h2 : IMLe n k) : IMLe m k :=
  fun a b => Nat.le_trans (h1 a b) (h2 a b)

theorem le_setAtLeast (m : IM) (a b : Pos) (d : Dim) : IMLe m (m.setAtLeast a b d) := by
  intro x y
  rw [get_setAtLeast]
  by_cases h : a = x ∧ b = y
  · obtain ⟨rfl, rfl⟩ := h
    simp only [and_self, if_true]
    split
    · omega
    · exact Nat.le_refl _
  · simp [h]

theorem le_setAtLeastIfBoth (m : IM) (pa pb : Option Pos) (d : Dim) : IMLe m (setAtLeastIfBoth m pa pb d) := by
  unfold setAtLeastIfBoth
  split
  · exact le_setAtLeast _ _ _ _
  · exact IMLe.refl _

theorem le_edgeUpdateIM (l : Label) (m : IM) : IMLe m (edgeUpdateIM l m) := by
  unfold edgeUpdateIM
  simp only
  split
  · exact (le_setAtLeastIfBoth _ _ _ _).trans ((le_setAtLeastIfBoth _ _ _ _).trans (le_setAtLeastIfBoth _ _ _ _))
  · exact le_setAtLeastIfBoth _ _ _ _

theorem le_foldl_edgeUpdateIM (ls : List Label) (m : IM) :
    IMLe m (ls.foldl (fun m l => edgeUpdateIM l m) m) := by
  induction ls generalizing m with
  | nil => exact IMLe.refl _
  | cons l ls ih => exact (le_edgeUpdateIM l m).trans (ih _)

theorem le_nodeUpdateIM {l : Label} {m m' : IM} (h : nodeUpdateIM l m = some m') : IMLe m m' := by
  unfold nodeUpdateIM at h
  split at h
  · cases h; exact le_setAtLeastIfBoth _ _ _ _
  · cases h

theorem le_updateNodes (a b : Geom) : ∀ (ns : List RNode) (m m' : IM), updateNodes a b ns m = some m' → IMLe m m'
  | [], m, m', h => by
      simp only [updateNodes] at h; cases h; exact IMLe.refl _
  | n :: ns, m, m', h => by
      simp only [updateNodes] at h
      split at h
      · cases h
      · split at h
        · cases h
        · rename_i m1 hn
          exact (le_nodeUpdateIM hn).trans ((le_foldl_edgeUpdateIM _ m1).trans (le_updateNodes a b ns _ _ h))

theorem Dim.le_max_left (a b : Dim) : a.rank ≤ (a.max b).rank := by
  unfold Dim.max; split
  · exact Nat.le_refl _
  · omega

theorem le_setAtLeastFromString (m : IM) (s : String) : IMLe m (setAtLeastFromString m s) := by
  unfold setAtLeastFromString
  split
  · intro a b
    cases a <;> cases b <;> exact Dim.le_max_left _ _
  · exact IMLe.refl _

theorem le_properIM (da db : Dim) (p q : Bool) (m : IM) : IMLe m (properIM da db p q m) := by
  unfold properIM
  split
  · split
    · exact le_setAtLeastFromString _ _
    · exact IMLe.refl _
  · simp only
    split <;> split <;>
      first
        | exact IMLe.refl _
        | exact le_setAtLeastFromString _ _
        | exact (le_setAtLeastFromString _ _).trans (le_setAtLeastFromString _ _)
  · simp only
    split <;> split <;>
      first
        | exact IMLe.refl _
        | exact le_setAtLeastFromString _ _
        | exact (le_setAtLeastFromString _ _).trans (le_setAtLeastFromString _ _)
  · split
    · exact le_setAtLeastFromString _ _
    · exact IMLe.refl _
  · exact IMLe.refl _

/-- the matrix `IntersectionMatrix::empty_disjoint()` -/
def emptyDisjoint : IM := computeDisjoint .empty .empty .empty .empty

/-- what `compute_intersection_matrix` returns on the graph path dominates every intermediate
matrix, in particular the lower bound of `compute_proper_intersection_im`. -/
theorem relateGraph_ge (ar : Arith) (a b : Geom) {m : IM} (h : relateGraph ar a b = some m) :
    IMLe (properIM (dims a) (dims b) (nodedGraphs ar a b).2.2.1 (nodedGraphs ar a b).2.2.2 emptyDisjoint) m := by
  unfold relateGraph relateGraphs at h
  simp only at h
  split at h
  · cases h
  · split at h
    · cases h
    · split at h
      · cases h
      · split at h
        · exact (le_foldl_edgeUpdateIM _ _).trans (le_updateNodes a b _ _ _ h)
        · cases h

theorem emptyDisjoint_ee : emptyDisjoint.ee = .two := rfl

theorem ee_of_le {m n : IM} (h : IMLe m n) (hm : m.ee = .two) : n.ee = .two := by
  have := h .outside .outside
  simp only [IM.get, hm] at this
  revert this
  cases n.ee <;> simp [Dim.rank]

theorem computeDisjoint_ee (da ba db bb : Dim) : (computeDisjoint da ba db bb).ee = .two := by
  unfold computeDisjoint
  simp only [IM.set]

/-- **EE = 2** for every result of the model, in any arithmetic. -/
theorem relateImplWith_ee (ar : Arith) (a b : Geom) {m : IM} (h : relateImplWith ar a b = some m) :
    m.ee = .two := by
  unfold relateImplWith at h
  split at h
  · exact ee_of_le ((le_properIM _ _ _ _ _).trans (relateGraph_ge ar a b h)) emptyDisjoint_ee
  · cases h; exact computeDisjoint_ee _ _ _ _

/-- the disjoint-envelope shortcut of the model, as a rewrite rule -/
theorem relateImplWith_of_disjoint (ar : Arith) (a b : Geom) (h : envelopesMeet a b = false) :
    relateImplWith ar a b = some (computeDisjoint (dims a) (boundaryDims a) (dims b) (boundaryDims b)) := by
  unfold relateImplWith
  rw [h]
  rfl

end Geo.Proofs.RELM
