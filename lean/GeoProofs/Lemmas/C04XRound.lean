/-
  C04X, part 1: the glue round trip. `polygon_from_shape` applied to the paths that
  `ring_to_shape_path` makes of a polygon's rings gives back the rings — exterior first, holes after,
  each ring reversed (the engine's shapes are wound the other way round) and without the extra copies
  of the closing coordinate that `ring_to_shape_path` drops.
-/
import GeoModel.BoolGlue
import GeoModel.BoolSpec
import GeoProofs.Lemmas.C04Wind
import GeoProofs.Props.C18

namespace Geo.Proofs.C04X
open Geo Geo.BoolGlue Geo.BoolSpec Geo.Proofs.C04L

/-- the ring without the extra copies of its closing coordinate: the path, closed once -/
def coreRing (r : List Pt) : List Pt := SM.close (ringToShapePath r)

theorem ringFromPath_eq (q : Path) : ringFromPath q = (SM.close q).reverse := rfl

theorem ringFromPath_closed' (q : Path) : SM.isClosed (ringFromPath q) = true := by
  have h := Geo.Proofs.C18.close_closed q
  unfold ringFromPath lineStringFromPath
  simp only [SM.isClosed, decide_eq_true_eq] at h ⊢
  rw [List.head?_reverse, List.getLast?_reverse]
  exact h.symm

theorem close_ringFromPath' (q : Path) : SM.close (ringFromPath q) = ringFromPath q :=
  Geo.Proofs.C18.close_of_closed _ (ringFromPath_closed' q)

/-- **the polygon rebuilt from the paths of a polygon's own rings**: one ring per ring, in the order
exterior, holes; each the reversed, once-closed path. For every polygon. -/
theorem roundTrip_poly (q : Poly) :
    polygonFromShape (q.rings.map ringToShapePath) =
      ⟨(coreRing q.ext).reverse, q.ints.map (fun h => (coreRing h).reverse)⟩ := by
  simp only [Poly.rings, List.map_cons, polygonFromShape, close_ringFromPath', List.map_map]
  congr 1
  apply List.map_congr_left
  intro h _
  simp only [Function.comp, close_ringFromPath']
  rfl

/-- a path that starts with `a`, has a further coordinate and does not end in `a` is closed by one `a` -/
theorem close_of_pathOk (a : Pt) (d : List Pt) (hd : d ≠ []) (hx : ∀ x, d.getLast? = some x → x ≠ a) :
    SM.close (a :: d) = a :: d ++ [a] := by
  unfold SM.close SM.isClosed
  have hl : (a :: d).getLast? = d.getLast? := by
    cases d with
    | nil => exact absurd rfl hd
    | cons y t => exact List.getLast?_cons_cons
  have hne : ¬ (a :: d).head? = (a :: d).getLast? := by
    rw [hl, List.head?_cons]
    intro h
    exact hx a h.symm rfl
  have hdec : decide ((a :: d).head? = (a :: d).getLast?) = false := decide_eq_false hne
  rw [hdec]
  simp

/-- a closed ring with a coordinate different from its first one: the stripped middle part is not empty -/
theorem dropTrailing_ne_nil (a : Pt) : ∀ (l : List Pt), (∃ v ∈ l, v ≠ a) → dropTrailing a l ≠ [] := by
  intro l
  induction l with
  | nil => rintro ⟨v, hv, _⟩; simp at hv
  | cons b t ih =>
    rintro ⟨v, hv, hne⟩
    rw [dropTrailing_cons]
    by_cases hc : ((dropTrailing a t).isEmpty && b == a) = true
    · exfalso
      simp only [Bool.and_eq_true, List.isEmpty_iff, beq_iff_eq] at hc
      obtain ⟨he, hb⟩ := hc
      rcases List.mem_cons.1 hv with h | h
      · exact hne (h.trans hb)
      · exact ih ⟨v, h, hne⟩ he
    · rw [if_neg hc]; simp

/-- **the ring is its core plus the dropped copies of the closing coordinate** — for every closed
ring with at least two different coordinates (in particular every simple ring). -/
theorem coreRing_decomp (r : List Pt) (hc : ringClosed r = true) (h2 : ∃ v ∈ r, v ≠ r.headD ⟨0, 0⟩) :
    ∃ k : Nat, r = coreRing r ++ List.replicate k (r.headD ⟨0, 0⟩) ∧
      coreRing r = ringToShapePath r ++ [r.headD ⟨0, 0⟩] := by
  cases r with
  | nil => obtain ⟨v, hv, _⟩ := h2; simp at hv
  | cons a t =>
    simp only [List.headD_cons] at h2 ⊢
    have ht : t ≠ [] := by
      rintro rfl
      obtain ⟨v, hv, hne⟩ := h2
      simp only [List.mem_singleton] at hv
      exact hne hv
    have hd := closed_decomp ht hc
    have e1 : (a :: t).dropLast = a :: t.dropLast := List.dropLast_cons_of_ne_nil ht
    obtain ⟨k, hk⟩ := dropTrailing_decomp a t.dropLast
    have hmid : ∃ v ∈ t.dropLast, v ≠ a := by
      obtain ⟨v, hv, hne⟩ := h2
      rcases List.mem_cons.1 hv with h | h
      · exact absurd h hne
      · rw [hd] at h
        rcases List.mem_append.1 h with h | h
        · exact ⟨v, h, hne⟩
        · simp only [List.mem_singleton] at h; exact absurd h hne
    have hnn := dropTrailing_ne_nil a t.dropLast hmid
    have hpath : ringToShapePath (a :: t) = a :: dropTrailing a t.dropLast := by
      simp [ringToShapePath, e1, stripClosing]
    have hcore : coreRing (a :: t) = a :: dropTrailing a t.dropLast ++ [a] := by
      unfold coreRing
      rw [hpath]
      exact close_of_pathOk a _ hnn (dropTrailing_getLast a t.dropLast)
    refine ⟨k, ?_, ?_⟩
    · rw [hcore]
      conv => lhs; rw [hd, hk]
      simp only [List.cons_append, List.append_assoc, List.cons.injEq, true_and]
      congr 1
      rw [← List.replicate_succ', List.replicate_succ]
      rfl
    · rw [hcore, hpath]

/-- a ring whose last-but-one coordinate is not the closing coordinate loses nothing -/
theorem coreRing_eq_self (r : List Pt) (hc : ringClosed r = true) (h2 : ∃ v ∈ r, v ≠ r.headD ⟨0, 0⟩)
    (hl : r.dropLast.getLast? ≠ r.head?) : coreRing r = r := by
  obtain ⟨k, hk, hcore⟩ := coreRing_decomp r hc h2
  cases k with
  | zero => simpa using hk.symm
  | succ n =>
    exfalso
    apply hl
    have hr : r = (coreRing r ++ List.replicate n (r.headD ⟨0, 0⟩)) ++ [r.headD ⟨0, 0⟩] := by
      conv => lhs; rw [hk]
      rw [List.replicate_succ', List.append_assoc]
    have hdl : r.dropLast = coreRing r ++ List.replicate n (r.headD ⟨0, 0⟩) := by
      conv => lhs; rw [hr]
      exact List.dropLast_concat
    rw [hdl]
    have hh : r.head? = some (r.headD ⟨0, 0⟩) := by
      cases r with
      | nil => obtain ⟨v, hv, _⟩ := h2; simp at hv
      | cons a t => rfl
    rw [hh]
    cases n with
    | zero =>
      rw [List.replicate_zero, List.append_nil, hcore]
      simp
    | succ m =>
      rw [List.replicate_succ', ← List.append_assoc]
      simp

end Geo.Proofs.C04X
