/-
  C14 helper lemmas (ring-versus-ring clauses with the relate oracle instantiated by the DE-9IM
  specification `relateSpec`): what can be said by looking at the atoms of `relateParts` only.
-/
import GeoModel.ValidationSpec
import GeoProofs.Lemmas.RelateSpecSwap

namespace Geo.Proofs.C14P
open Geo Geo.V Geo.Proofs.Spec

/-! ### cells that involve a boundary never have dimension 2 -/

theorem locateFace_ne_boundary (ps : Parts) (p : EPt) : locateFace ps p ≠ .onBoundary := by
  unfold locateFace; split <;> simp

/-- an atom of dimension two is a face sample: located inside or outside, never on a boundary -/
theorem segAtoms_two (pa pb : Parts) (verts : List Pt) (s : Pt × Pt) (a : Atom)
    (ha : a ∈ segAtoms pa pb verts s) (h2 : a.dim = .two) :
    a.posA ≠ .onBoundary ∧ a.posB ≠ .onBoundary := by
  obtain ⟨p, q⟩ := s
  simp only [segAtoms] at ha
  by_cases hpq : (p == q) = true
  · simp [hpq] at ha
  · rw [Bool.not_eq_true] at hpq
    simp only [hpq, Bool.false_eq_true, if_false, List.mem_flatMap] at ha
    obtain ⟨⟨u, v⟩, _, hm⟩ := ha
    by_cases huv : (u == v) = true
    · simp [huv] at hm
    · rw [Bool.not_eq_true] at huv
      simp only [huv, Bool.false_eq_true, if_false, List.mem_cons, List.not_mem_nil, or_false] at hm
      rcases hm with rfl | rfl | rfl
      · cases h2
      · exact ⟨locateFace_ne_boundary _ _, locateFace_ne_boundary _ _⟩
      · exact ⟨locateFace_ne_boundary _ _, locateFace_ne_boundary _ _⟩

theorem atomsOf_two (pa pb : Parts) (a : Atom) (ha : a ∈ atomsOf pa pb) (h2 : Dim.two.rank ≤ a.dim.rank) :
    a.posA ≠ .onBoundary ∧ a.posB ≠ .onBoundary := by
  unfold atomsOf at ha
  rw [List.mem_append] at ha
  rcases ha with ha | ha
  · obtain ⟨v, _, rfl⟩ := List.mem_map.mp ha
    simp [Dim.rank] at h2
  · obtain ⟨s, _, hs⟩ := List.mem_flatMap.mp ha
    have hd : a.dim = .two := by
      cases hdim : a.dim <;> rw [hdim] at h2 <;> simp [Dim.rank] at h2 ⊢
    exact segAtoms_two pa pb _ s a hs hd

/-- [structural] in the DE-9IM specification a cell whose row or column is a *boundary* never has
dimension 2 (dimension-2 atoms are face samples, which are never located on a boundary) -/
theorem relateParts_boundary_ne_two (pa pb : Parts) (x y : Pos) (h : x = .onBoundary ∨ y = .onBoundary) :
    (relateParts pa pb).get x y ≠ .two := by
  intro e
  rw [relateParts_eq, get_set] at e
  have hne : ¬ (Pos.outside = x ∧ Pos.outside = y) := by
    rcases h with rfl | rfl <;> simp
  rw [if_neg hne] at e
  have := (fold_get (atomsOf pa pb) x y .two).mp (by rw [e])
  rcases this with h0 | ⟨a, ha, hx, hy, hr⟩
  · cases h0
  · have h2 := atomsOf_two pa pb a ha hr
    rcases h with rfl | rfl
    · exact h2.1 hx
    · exact h2.2 hy

theorem relateParts_bb_ne_two (pa pb : Parts) : (relateParts pa pb).bb ≠ .two :=
  relateParts_boundary_ne_two pa pb .onBoundary .onBoundary (Or.inl rfl)

theorem relateParts_bi_ne_two (pa pb : Parts) : (relateParts pa pb).bi ≠ .two :=
  relateParts_boundary_ne_two pa pb .onBoundary .inside (Or.inl rfl)

/-- "the boundaries meet in points at most" (`dimLe0 BB`, the specification's wording) is the
negation of "the boundaries share a line" (`BB = 1`, the test the code performs) -/
theorem dimLe0_bb_iff (pa pb : Parts) :
    dimLe0 (relateParts pa pb).bb = true ↔ (relateParts pa pb).bb ≠ .one := by
  have h2 := relateParts_bb_ne_two pa pb
  cases hbb : (relateParts pa pb).bb <;> simp [dimLe0, Dim.rank, hbb] at h2 ⊢

/-! ### the hole-versus-hole clause -/

theorem relateSpec_poly_poly (a b : List Pt) :
    relateSpec (.polygon ⟨a, []⟩) (.polygon ⟨b, []⟩) = relateParts (polyOf a) (polyOf b) := rfl

theorem relateSpec_poly_line (a b : List Pt) :
    relateSpec (.polygon ⟨a, []⟩) (.lineString b) = relateParts (polyOf a) ⟨[], [b], []⟩ := rfl

/-- the model's two tests on a pair of holes, with `relate` = the specification -/
theorem holePairErrs_nil_iff (f : XRing → Bool) (h1 h2 : List Pt) (i j : Nat) :
    holePairErrs ⟨relateSpec, f⟩ h1 i h2 j = [] ↔
      (relateParts (polyOf h1) (polyOf h2)).ii ≠ .two ∧ (relateParts (polyOf h1) (polyOf h2)).bb ≠ .one := by
  unfold holePairErrs
  simp only [relateSpec_poly_poly, List.append_eq_nil_iff]
  constructor
  · rintro ⟨ha, hb⟩
    constructor
    · intro e; simp [e] at ha
    · intro e; simp [e] at hb
  · rintro ⟨ha, hb⟩
    constructor
    · have : ((relateParts (polyOf h1) (polyOf h2)).ii == Dim.two) = false := by simp [ha]
      simp [this]
    · have : ((relateParts (polyOf h1) (polyOf h2)).bb == Dim.one) = false := by simp [hb]
      simp [this]

/-- the specification's clause for a pair of holes (`polyValidRings`) -/
def holePairSpec (h1 h2 : List Pt) : Bool :=
  (relateParts (polyOf h1) (polyOf h2)).ii == .empty && dimLe0 (relateParts (polyOf h1) (polyOf h2)).bb

theorem holePair_spec_imp (f : XRing → Bool) (h1 h2 : List Pt) (i j : Nat)
    (h : holePairSpec h1 h2 = true) : holePairErrs ⟨relateSpec, f⟩ h1 i h2 j = [] := by
  rw [holePairErrs_nil_iff]
  simp only [holePairSpec, Bool.and_eq_true, beq_iff_eq] at h
  refine ⟨?_, (dimLe0_bb_iff _ _).mp h.2⟩
  rw [h.1]; simp

theorem holePair_iff_of_area (f : XRing → Bool) (h1 h2 : List Pt) (i j : Nat)
    (hS1 : (relateParts (polyOf h1) (polyOf h2)).ii = .empty ∨ (relateParts (polyOf h1) (polyOf h2)).ii = .two) :
    holePairErrs ⟨relateSpec, f⟩ h1 i h2 j = [] ↔ holePairSpec h1 h2 = true := by
  constructor
  · rw [holePairErrs_nil_iff]
    rintro ⟨ha, hb⟩
    simp only [holePairSpec, Bool.and_eq_true, beq_iff_eq]
    refine ⟨?_, (dimLe0_bb_iff _ _).mpr hb⟩
    rcases hS1 with e | e
    · exact e
    · exact absurd e ha
  · exact holePair_spec_imp f h1 h2 i j

/-! ### the whole ring-versus-ring pass, unfolded -/

theorem mem_zipIdx_drop {α : Type} (l : List α) (k : Nat) (x : α) (j : Nat) :
    (x, j) ∈ l.zipIdx.drop k ↔ l[j]? = some x ∧ k ≤ j := by
  rw [List.mem_iff_getElem?]
  constructor
  · rintro ⟨m, hm⟩
    rw [List.getElem?_drop, List.getElem?_zipIdx] at hm
    cases hl : l[k + m]? with
    | none => rw [hl] at hm; simp at hm
    | some y =>
      rw [hl] at hm
      simp only [Option.map_some, Option.some.injEq, Prod.mk.injEq, Nat.zero_add] at hm
      obtain ⟨rfl, rfl⟩ := hm
      exact ⟨hl, Nat.le_add_right _ _⟩
  · rintro ⟨hl, hk⟩
    refine ⟨j - k, ?_⟩
    rw [List.getElem?_drop, List.getElem?_zipIdx, show k + (j - k) = j by omega, hl]
    simp

/-- with `relate` = the specification, the ring-versus-ring pass of the Polygon visitor lists no
error exactly when: every non-empty hole, *as a LineString*, is contained in the shell polygon
(`T*****FF*`) with `BI ≠ 1`, and every later hole, as a polygon, has `II ≠ 2` and `BB ≠ 1` with it -/
theorem ringPairErrs_nil_iff (f : XRing → Bool) (q : Poly) :
    ringPairErrs ⟨relateSpec, f⟩ q = [] ↔
      ∀ (i : Nat) (hi : List Pt), q.ints[i]? = some hi → hi ≠ [] →
        isContains (relateParts (polyOf q.ext) ⟨[], [hi], []⟩) = true ∧
        (relateParts (polyOf q.ext) ⟨[], [hi], []⟩).bi ≠ .one ∧
        ∀ (j : Nat) (hj : List Pt), i < j → q.ints[j]? = some hj →
          (relateParts (polyOf hi) (polyOf hj)).ii ≠ .two ∧ (relateParts (polyOf hi) (polyOf hj)).bb ≠ .one := by
  unfold ringPairErrs
  rw [List.flatMap_eq_nil_iff]
  constructor
  · intro h i hi hget hne
    have h1 := h (hi, i) (List.mem_zipIdx_iff_getElem?.mpr hget)
    have hemp : hi.isEmpty = false := by
      cases hi with
      | nil => exact absurd rfl hne
      | cons _ _ => rfl
    simp only [hemp, Bool.false_eq_true, if_false, relateSpec_poly_line, List.append_eq_nil_iff,
      List.flatMap_eq_nil_iff] at h1
    obtain ⟨⟨ha, hb⟩, hc⟩ := h1
    refine ⟨?_, ?_, ?_⟩
    · cases hcont : isContains (relateParts (polyOf q.ext) ⟨[], [hi], []⟩)
      · simp [hcont] at ha
      · rfl
    · intro e; simp [e] at hb
    · intro j hj hij hgetj
      have := hc (hj, j) ((mem_zipIdx_drop _ _ _ _).mpr ⟨hgetj, hij⟩)
      exact (holePairErrs_nil_iff f hi hj i j).mp this
  · intro h ⟨hi, i⟩ hmem
    rw [List.mem_zipIdx_iff_getElem?] at hmem
    by_cases hemp : hi.isEmpty = true
    · simp [hemp]
    · have hne : hi ≠ [] := fun e => hemp (by simp [e])
      obtain ⟨ha, hb, hc⟩ := h i hi hmem hne
      have hb' : ((relateParts (polyOf q.ext) ⟨[], [hi], []⟩).bi == Dim.one) = false := by simp [hb]
      simp only [hemp, Bool.false_eq_true, if_false, relateSpec_poly_line, ha, hb', Bool.not_true,
        List.nil_append, List.flatMap_eq_nil_iff]
      intro ⟨hj, j⟩ hm
      obtain ⟨hgetj, hij⟩ := (mem_zipIdx_drop _ _ _ _).mp hm
      exact (holePairErrs_nil_iff f hi hj i j).mpr (hc j hj hij hgetj)

/-! ### an empty ring as the second operand: every cell outside the last column is `F` -/

theorem locateParts_polyOf_nil (p : Pt) : locateParts (polyOf []) p = .outside := by
  simp [locateParts, polyOf, Poly.rings, segs, onAnySeg, insidePolyE, windingE, Parts.areaSegs,
    Parts.curveSegs]

theorem locateFace_polyOf_nil (p : EPt) : locateFace (polyOf []) p = .outside := by
  simp [locateFace, polyOf, segs, insidePolyE, windingE]

theorem segAtoms_posB_nil (pa : Parts) (verts : List Pt) (s : Pt × Pt) (a : Atom)
    (ha : a ∈ segAtoms pa (polyOf []) verts s) : a.posB = .outside := by
  obtain ⟨p, q⟩ := s
  simp only [segAtoms] at ha
  by_cases hpq : (p == q) = true
  · simp [hpq] at ha
  · rw [Bool.not_eq_true] at hpq
    simp only [hpq, Bool.false_eq_true, if_false, List.mem_flatMap] at ha
    obtain ⟨⟨u, v⟩, _, hm⟩ := ha
    by_cases huv : (u == v) = true
    · simp [huv] at hm
    · rw [Bool.not_eq_true] at huv
      simp only [huv, Bool.false_eq_true, if_false, List.mem_cons, List.not_mem_nil, or_false] at hm
      rcases hm with rfl | rfl | rfl
      · simp only [locateParts_polyOf_nil]
      · simp only [locateFace_polyOf_nil]
      · simp only [locateFace_polyOf_nil]

theorem atomsOf_posB_nil (pa : Parts) (a : Atom) (ha : a ∈ atomsOf pa (polyOf [])) : a.posB = .outside := by
  unfold atomsOf at ha
  rw [List.mem_append] at ha
  rcases ha with ha | ha
  · obtain ⟨v, _, rfl⟩ := List.mem_map.mp ha
    simp only [locateParts_polyOf_nil]
  · obtain ⟨s, _, hs⟩ := List.mem_flatMap.mp ha
    exact segAtoms_posB_nil pa _ s a hs

theorem relateParts_nil_right (pa : Parts) (x y : Pos) (hy : y ≠ .outside) :
    (relateParts pa (polyOf [])).get x y = .empty := by
  rw [relateParts_eq, get_set, if_neg (by rintro ⟨_, rfl⟩; exact hy rfl)]
  have := (fold_get (atomsOf pa (polyOf [])) x y ((fold (atomsOf pa (polyOf []))).get x y)).mp (Nat.le_refl _)
  rcases this with h | ⟨a, ha, _, hyb, _⟩
  · exact h
  · exact absurd (hyb.symm.trans (atomsOf_posB_nil pa a ha)) hy

/-! ### where an `IntersectingRingsOnAnArea` / hole-hole `IntersectingRingsOnALine` entry comes from -/

theorem mem_ite_singleton {α : Type} (c : Bool) (x e : α) :
    x ∈ (if c = true then [e] else []) ↔ c = true ∧ x = e := by
  cases c <;> simp

theorem holePairErrs_relateSpec (f : XRing → Bool) (h1 h2 : List Pt) (i j : Nat) :
    holePairErrs ⟨relateSpec, f⟩ h1 i h2 j =
      (if (relateParts (polyOf h1) (polyOf h2)).ii == .two then [PolyErr.onArea (.int i) (.int j)] else []) ++
      (if (relateParts (polyOf h1) (polyOf h2)).bb == .one then [PolyErr.onLine (.int i) (.int j)] else []) := rfl

theorem onArea_mem_holePairErrs (f : XRing → Bool) (h1 h2 : List Pt) (i j : Nat) (a b : Role) :
    PolyErr.onArea a b ∈ holePairErrs ⟨relateSpec, f⟩ h1 i h2 j ↔
      a = .int i ∧ b = .int j ∧ (relateParts (polyOf h1) (polyOf h2)).ii = .two := by
  rw [holePairErrs_relateSpec]
  simp only [List.mem_append, mem_ite_singleton]
  simp only [beq_iff_eq, PolyErr.onArea.injEq, reduceCtorEq, and_false, or_false]
  constructor
  · rintro ⟨e, e1, e2⟩; exact ⟨e1, e2, e⟩
  · rintro ⟨e1, e2, e⟩; exact ⟨e, e1, e2⟩

theorem onLine_mem_holePairErrs (f : XRing → Bool) (h1 h2 : List Pt) (i j : Nat) (a b : Role) :
    PolyErr.onLine a b ∈ holePairErrs ⟨relateSpec, f⟩ h1 i h2 j ↔
      a = .int i ∧ b = .int j ∧ (relateParts (polyOf h1) (polyOf h2)).bb = .one := by
  rw [holePairErrs_relateSpec]
  simp only [List.mem_append, mem_ite_singleton]
  simp only [beq_iff_eq, PolyErr.onLine.injEq, reduceCtorEq, and_false, false_or]
  constructor
  · rintro ⟨e, e1, e2⟩; exact ⟨e1, e2, e⟩
  · rintro ⟨e1, e2, e⟩; exact ⟨e, e1, e2⟩

/-- an entry of the ring-versus-ring pass that comes from the hole-versus-hole loop -/
theorem holePair_mem_ringPairErrs (f : XRing → Bool) (q : Poly) (e : PolyErr)
    (hne : ∀ r, e ≠ .notContained r) (hne' : ∀ r, e ≠ .onLine .ext r)
    (he : e ∈ ringPairErrs ⟨relateSpec, f⟩ q) :
    ∃ (i j : Nat) (hi hj : List Pt), i < j ∧ q.ints[i]? = some hi ∧ q.ints[j]? = some hj ∧ hi ≠ [] ∧
      e ∈ holePairErrs ⟨relateSpec, f⟩ hi i hj j := by
  unfold ringPairErrs at he
  rw [List.mem_flatMap] at he
  obtain ⟨⟨hi, i⟩, hmem, hm⟩ := he
  rw [List.mem_zipIdx_iff_getElem?] at hmem
  by_cases hemp : hi.isEmpty = true
  · simp [hemp] at hm
  · have hnil : hi ≠ [] := fun e => hemp (by simp [e])
    simp only [hemp, Bool.false_eq_true, if_false, List.mem_append, List.mem_flatMap] at hm
    rcases hm with (hm | hm) | ⟨⟨hj, j⟩, hjm, hm⟩
    · rw [mem_ite_singleton] at hm; exact absurd hm.2 (hne _)
    · rw [mem_ite_singleton] at hm; exact absurd hm.2 (hne' _)
    · obtain ⟨hgetj, hij⟩ := (mem_zipIdx_drop _ _ _ _).mp hjm
      exact ⟨i, j, hi, hj, hij, hmem, hgetj, hnil, hm⟩


/-- the per-ring pass lists only `TooFewPointsInRing`, `SelfIntersection`, `NonFiniteCoord` -/
theorem ringErrs_kind (o : Oracle) (role : Role) (ring : XRing) (e : PolyErr) (he : e ∈ ringErrs o role ring) :
    e = .tooFew role ∨ e = .selfInt role ∨ ∃ i, e = .nonFinite role i := by
  unfold ringErrs at he
  split at he
  · simp at he
  · rw [List.mem_append, List.mem_flatMap] at he
    rcases he with he | ⟨ci, _, he⟩
    · by_cases h1 : tooFew ring true = true
      · rw [if_pos h1] at he; left; simpa using he
      · rw [if_neg h1] at he
        by_cases h2 : selfInt o ring = true
        · rw [if_pos h2] at he; right; left; simpa using he
        · rw [if_neg h2] at he; simp at he
    · by_cases h1 : notFinite ci.1 = true
      · rw [if_pos h1] at he; right; right; exact ⟨ci.2, by simpa using he⟩
      · rw [if_neg h1] at he; simp at he

/-- a ring-versus-ring entry of a polygon's error list, other than `InteriorRingNotContained…` and
shell-versus-hole `IntersectingRingsOnALine`, comes from the hole-versus-hole loop on the finite
polygon -/
theorem holePair_mem_polyErrs (f : XRing → Bool) (p : XPoly) (e : PolyErr)
    (h1 : ∀ r, e ≠ .tooFew r) (h2 : ∀ r, e ≠ .selfInt r) (h3 : ∀ r i, e ≠ .nonFinite r i)
    (hne : ∀ r, e ≠ .notContained r) (hne' : ∀ r, e ≠ .onLine .ext r)
    (he : e ∈ polyErrs ⟨relateSpec, f⟩ p) :
    ∃ q, p.toPoly? = some q ∧ ∃ (i j : Nat) (hi hj : List Pt), i < j ∧ q.ints[i]? = some hi ∧
      q.ints[j]? = some hj ∧ hi ≠ [] ∧ e ∈ holePairErrs ⟨relateSpec, f⟩ hi i hj j := by
  unfold polyErrs at he
  split at he
  · simp at he
  · rw [List.mem_append] at he
    rcases he with he | he
    · obtain ⟨ri, _, hm⟩ := List.mem_flatMap.mp he
      rcases ringErrs_kind _ _ _ e hm with e1 | e1 | ⟨i, e1⟩
      · exact absurd e1 (h1 _)
      · exact absurd e1 (h2 _)
      · exact absurd e1 (h3 _ _)
    · cases hq : p.toPoly? with
      | none => rw [hq] at he; simp at he
      | some q =>
        rw [hq] at he
        exact ⟨q, rfl, holePair_mem_ringPairErrs f q e hne hne' he⟩


end Geo.Proofs.C14P
