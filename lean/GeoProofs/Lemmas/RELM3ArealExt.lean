/-
  RELM3 — the Exterior row of `relate(Point p, B)` for an AREAL `B` (Polygon, MultiPolygon, Rect, Triangle, collections
  of them; valid or not) in the model of the implementation: every edge of `B` is a ring edge labelled
  `area(OnBoundary, l, r)` with `{l, r} = {Inside, Outside}` (`add_polygon_ring`), stays isolated from the point and is
  labelled `Outside` of it — contributions (1, E, B), (2, E, I), (2, E, E); the bundles of the stars are built from
  such edge ends, so their slot-1 labels are full area labels whose SIDES are `Inside` / `Outside`
  (`compute_label_side` only ever returns these), nothing is left for `fillEmpty`; nodes contribute dimension 0.
  Hence `EI = 2` and `EB = 1` as soon as `B` has an edge.
-/
import GeoProofs.Lemmas.RELM3Full

namespace Geo.Proofs.RELM3
open Geo Geo.GG Geo.RI Geo.Proofs.Spec Geo.Proofs.RELM Geo.Proofs.RELM2 Geo.Proofs.Kernel

/-- slot 1 is a ring edge's: `OnBoundary`, one side `Inside`, the other `Outside` -/
def AreaLbl (l : Label) : Prop :=
  l.a = .emptyArea ∧ ∃ x y, l.b = .area (some .onBoundary) (some x) (some y) ∧
    ((x = .inside ∧ y = .outside) ∨ (x = .outside ∧ y = .inside))

theorem areaLbl_flip {l : Label} (h : AreaLbl l) : AreaLbl l.flip := by
  obtain ⟨ha, x, y, hb, hxy⟩ := h
  exact ⟨by rw [flip_a, ha]; rfl, y, x, by rw [flip_b, hb]; rfl,
    hxy.symm.imp (fun h => ⟨h.2, h.1⟩) (fun h => ⟨h.2, h.1⟩)⟩

theorem AreaLbl.aEmpty {l : Label} (h : AreaLbl l) : AEmpty l := Or.inr h.1

/-! ### the edges of the built graph -/

def EdgesArea (G : Graph) : Prop := ∀ e ∈ G.edges, AreaLbl e.label

theorem areaLbl_ringEdge (ring : List Pt) (cl cr : Pos)
    (h : (cl = .inside ∧ cr = .outside) ∨ (cl = .outside ∧ cr = .inside)) :
    AreaLbl (GG.ringEdge 1 ring cl cr).label := by
  unfold GG.ringEdge ringSides
  simp only
  split
  · exact ⟨rfl, cl, cr, rfl, h⟩
  · exact ⟨rfl, cr, cl, rfl, h.symm.imp (fun h => ⟨h.2, h.1⟩) (fun h => ⟨h.2, h.1⟩)⟩
  · exact ⟨rfl, cl, cr, rfl, h⟩

theorem edgesArea_addPolygonRing {G : Graph} (h : EdgesArea G) (ring : List Pt) (cl cr : Pos)
    (hs : (cl = .inside ∧ cr = .outside) ∨ (cl = .outside ∧ cr = .inside)) :
    EdgesArea (addPolygonRing 1 ring cl cr G) := by
  unfold addPolygonRing
  split
  · exact h
  · intro e he
    have he' : e ∈ G.edges ++ [GG.ringEdge 1 ring cl cr] := he
    rcases List.mem_append.1 he' with he' | he'
    · exact h e he'
    · simp only [List.mem_singleton] at he'
      subst he'
      exact areaLbl_ringEdge ring cl cr hs

theorem edgesArea_addHoles : ∀ (hs : List (List Pt)) {G : Graph}, EdgesArea G → EdgesArea (addHoles 1 hs G)
  | [], _, h => h
  | r :: hs, _, h => edgesArea_addHoles hs (edgesArea_addPolygonRing h r _ _ (Or.inl ⟨rfl, rfl⟩))

theorem edgesArea_addPolygon {G : Graph} (h : EdgesArea G) (q : Poly) : EdgesArea (addPolygon 1 q G) :=
  edgesArea_addHoles q.ints (edgesArea_addPolygonRing h q.ext _ _ (Or.inr ⟨rfl, rfl⟩))

theorem edgesArea_addPolygons : ∀ (ps : List Poly) {G : Graph}, EdgesArea G → EdgesArea (addPolygons 1 ps G)
  | [], _, h => h
  | q :: ps, _, h => edgesArea_addPolygons ps (edgesArea_addPolygon h q)

mutual
theorem edgesArea_addGeometry : ∀ (g : Geom) (G : Graph), arOk g = true → EdgesArea G → EdgesArea (addGeometry 1 g G)
  | .polygon q, G, _, h => by
      simp only [addGeometry]
      split
      · exact h
      · exact edgesArea_addPolygon h q
  | .multiPolygon ps, G, _, h => by
      simp only [addGeometry]
      split
      · exact h
      · exact edgesArea_addPolygons ps (G := { G with useRule := false }) h
  | .rect mn mx, G, _, h => by simp only [addGeometry]; exact edgesArea_addPolygon h _
  | .triangle a b c, G, _, h => by simp only [addGeometry]; exact edgesArea_addPolygon h _
  | .collection gs, G, ha, h => by
      have hl : arOkList gs = true := by simpa [arOk] using ha
      simp only [addGeometry]
      split
      · exact h
      · exact edgesArea_addGeometries gs G hl h
  | .point _, _, ha, _ => by simp [arOk] at ha
  | .line _ _, _, ha, _ => by simp [arOk] at ha
  | .lineString _, _, ha, _ => by simp [arOk] at ha
  | .multiPoint _, _, ha, _ => by simp [arOk] at ha
  | .multiLineString _, _, ha, _ => by simp [arOk] at ha
theorem edgesArea_addGeometries : ∀ (gs : List Geom) (G : Graph), arOkList gs = true → EdgesArea G →
    EdgesArea (addGeometries 1 gs G)
  | [], _, _, h => h
  | g :: gs, G, ha, h => by
      simp only [arOkList, Bool.and_eq_true] at ha
      simp only [addGeometries]
      exact edgesArea_addGeometries gs _ ha.2 (edgesArea_addGeometry g G ha.1 h)
end

theorem fresh_edges_area (ar : Arith) (g : Geom) (ha : arOk g = true) :
    ∀ e ∈ (freshGraph ar 1 g).edges, AreaLbl e.label := by
  intro e he
  have := edgesArea_addGeometry g Graph.empty ha (fun e he => by cases he) _ (fresh_edge_built ar 1 g he)
  exact this

/-! ### isolated ring edges against a point -/

theorem labelAtoms_isolated_area {l : Label} (hb : AreaLbl l) :
    (⟨.one, .outside, .onBoundary⟩ : Atom) ∈ labelAtoms (l.setAll 0 .outside) ∧
    (⟨.two, .outside, .inside⟩ : Atom) ∈ labelAtoms (l.setAll 0 .outside) ∧
    ∀ t ∈ labelAtoms (l.setAll 0 .outside), t.posA = .outside ∧ (t.posB = .onBoundary → t.dim = .one) := by
  obtain ⟨ha, x, y, hb, hxy⟩ := hb
  obtain ⟨la, lb⟩ := l
  simp only at hb ha
  subst hb ha
  rcases hxy with ⟨rfl, rfl⟩ | ⟨rfl, rfl⟩ <;>
    simp [labelAtoms, optAtom, Label.setAll, Label.set, Label.get, Label.onPos, Label.leftPos, Label.rightPos,
      Label.isArea, TopoPos.setAll, TopoPos.on, TopoPos.left, TopoPos.right, TopoPos.isArea,
      TopoPos.emptyArea]

theorem labelIsolatedEdges_area (p : Pt) : ∀ (es : List REdge) (ls : List Label),
    labelIsolatedEdges (.point p) 0 es = some ls → (∀ e ∈ es, e.isolated = true) →
    (∀ l ∈ ls, ∃ e ∈ es, l = e.label.setAll 0 .outside) ∧ (∀ e ∈ es, e.label.setAll 0 .outside ∈ ls)
  | [], ls, h, _ => by
      simp only [labelIsolatedEdges] at h; cases h
      exact ⟨fun l hl => (by cases hl), fun e he => (by cases he)⟩
  | e :: es, ls, h, hes => by
      have hiso := hes e (List.mem_cons_self ..)
      simp only [labelIsolatedEdges, hiso, if_true] at h
      split at h
      · rename_i l1 ls1 hl1 hls1
        cases h
        have ih := labelIsolatedEdges_area p es ls1 hls1 (fun x hx => hes x (List.mem_cons_of_mem _ hx))
        have h1 : l1 = e.label.setAll 0 .outside := by
          unfold labelIsolatedEdge at hl1
          have : ¬ (dims (.point p)).rank > Dim.zero.rank := Nat.lt_irrefl _
          rw [if_neg this] at hl1
          exact (Option.some.inj hl1).symm
        refine ⟨?_, ?_⟩
        · intro l hl
          rcases List.mem_cons.1 hl with rfl | hl
          · exact ⟨e, List.mem_cons_self .., h1⟩
          · obtain ⟨e', he', h'⟩ := ih.1 l hl
            exact ⟨e', List.mem_cons_of_mem _ he', h'⟩
        · intro e' he'
          rcases List.mem_cons.1 he' with rfl | he'
          · rw [← h1]; exact List.mem_cons_self ..
          · exact List.mem_cons_of_mem _ (ih.2 e' he')
      · cases h

/-! ### stars of ring edge ends -/

/-- a full area slot whose sides are not `OnBoundary`, or a line slot -/
def FullArea : TopoPos → Prop
  | .area on l r => on.isSome = true ∧ (∃ x, l = some x ∧ x ≠ .onBoundary) ∧ (∃ y, r = some y ∧ y ≠ .onBoundary)
  | .lineOrPoint _ => True

theorem AreaLbl.full {l : Label} (h : AreaLbl l) : FullArea l.b := by
  obtain ⟨_, x, y, hb, hxy⟩ := h
  rw [hb]
  rcases hxy with ⟨rfl, rfl⟩ | ⟨rfl, rfl⟩ <;> exact ⟨rfl, ⟨_, rfl, by decide⟩, ⟨_, rfl, by decide⟩⟩

/-- `compute_label_side` over ring edge ends: `Inside` or `Outside`, never nothing -/
theorem sideLoop_area (side : Label → Nat → Option Pos)
    (hside : ∀ l, AreaLbl l → side l 1 = some .inside ∨ side l 1 = some .outside) :
    ∀ (ends : List EdgeEnd) (acc : Option Pos), (∀ e ∈ ends, AreaLbl e.label) →
      (acc = some .inside ∨ acc = some .outside ∨ (acc = none ∧ ends ≠ [])) →
      sideLoop side 1 ends acc = some .inside ∨ sideLoop side 1 ends acc = some .outside
  | [], acc, _, hacc => by
      simp only [sideLoop]
      rcases hacc with h | h | ⟨_, h⟩
      · exact Or.inl h
      · exact Or.inr h
      · exact absurd rfl h
  | e :: es, acc, h, _ => by
      have he := h e (List.mem_cons_self ..)
      have hrest : ∀ x ∈ es, AreaLbl x.label := fun x hx => h x (List.mem_cons_of_mem _ hx)
      have hA : e.label.isArea = true := by
        obtain ⟨_, x, y, hb, _⟩ := he
        simp [Label.isArea, hb, TopoPos.isArea]
      simp only [sideLoop, hA, if_true]
      rcases hside e.label he with hs | hs <;> rw [hs]
      · exact Or.inl rfl
      · exact sideLoop_area side hside es (some .outside) hrest (Or.inr (Or.inl rfl))

theorem bundleLabelStep0_b (ends : List EdgeEnd) (isArea : Bool) (l : Label) :
    (bundleLabelStep ends isArea l 0).b = l.b := by
  unfold bundleLabelStep computeLabelOn
  simp only
  split <;> split <;> (try split) <;> (try split) <;> simp [Label.setOn, Label.setLeft, Label.setRight, Label.set]

/-- the label of a bundle of ring edge ends: a full area label in slot 1 (a line label for an empty bundle) -/
theorem bundleLabel_area {ends : List EdgeEnd} (h : ∀ e ∈ ends, AreaLbl e.label) : FullArea (bundleLabel ends).b := by
  cases ends with
  | nil => exact trivial
  | cons e es =>
    have hA : (e :: es).any (fun e => e.label.isArea) = true := by
      obtain ⟨_, x, y, hb, _⟩ := h e (List.mem_cons_self ..)
      simp [Label.isArea, hb, TopoPos.isArea]
    have hl : sideLoop Label.leftPos 1 (e :: es) none = some .inside ∨
        sideLoop Label.leftPos 1 (e :: es) none = some .outside :=
      sideLoop_area Label.leftPos (fun l hl => by
        obtain ⟨_, x, y, hb, hxy⟩ := hl
        rw [leftPos1, hb]
        rcases hxy with ⟨rfl, _⟩ | ⟨rfl, _⟩
        · exact Or.inl rfl
        · exact Or.inr rfl) _ none h (Or.inr (Or.inr ⟨rfl, by simp⟩))
    have hr : sideLoop Label.rightPos 1 (e :: es) none = some .inside ∨
        sideLoop Label.rightPos 1 (e :: es) none = some .outside :=
      sideLoop_area Label.rightPos (fun l hl => by
        obtain ⟨_, x, y, hb, hxy⟩ := hl
        rw [rightPos1, hb]
        rcases hxy with ⟨_, rfl⟩ | ⟨_, rfl⟩
        · exact Or.inr rfl
        · exact Or.inl rfl) _ none h (Or.inr (Or.inr ⟨rfl, by simp⟩))
    have hbc : ((e :: es).filter (fun e => e.label.onPos 1 == some .onBoundary)).length > 0 := by
      have : (e.label.onPos 1 == some .onBoundary) = true := by
        obtain ⟨_, x, y, hb, _⟩ := h e (List.mem_cons_self ..)
        rw [onPos1, hb]; rfl
      rw [List.filter_cons, if_pos this]
      simp
    unfold bundleLabel
    simp only [hA, if_true]
    generalize hl0 : bundleLabelStep (e :: es) true Label.emptyArea 0 = l0
    have hl0b : l0.b = .emptyArea := by rw [← hl0, bundleLabelStep0_b]; rfl
    unfold bundleLabelStep computeLabelOn
    simp only [hbc, if_true]
    obtain ⟨la, lb⟩ := l0
    simp only at hl0b
    subst hl0b
    rcases hl with hl | hl <;> rcases hr with hr | hr <;> rw [hl, hr] <;>
      simp [FullArea, Label.setOn, Label.setLeft, Label.setRight, Label.set, Label.get, TopoPos.setOn,
        TopoPos.setLeft, TopoPos.setRight, TopoPos.emptyArea]

theorem propagateLoop1_full : ∀ (ls : List Label) (cur : Pos) (ls' : List Label),
    propagateLoop 1 ls cur = some ls' → (∀ l ∈ ls, FullArea l.b) → ∀ l ∈ ls', FullArea l.b
  | [], _, ls', h, _ => by
      simp only [propagateLoop] at h; cases h; intro l hl; cases hl
  | l :: ls, cur, ls', h, hP => by
      have hl := hP l (List.mem_cons_self ..)
      have hrest : ∀ x ∈ ls, FullArea x.b := fun x hx => hP x (List.mem_cons_of_mem _ hx)
      simp only [propagateLoop] at h
      have tail : ∀ (x : Label) (c : Pos), FullArea x.b → (propagateLoop 1 ls c).map (x :: ·) = some ls' →
          ∀ y ∈ ls', FullArea y.b := by
        intro x c hx hm
        cases hr : propagateLoop 1 ls c with
        | none => rw [hr] at hm; cases hm
        | some r =>
          rw [hr] at hm
          simp only [Option.map_some, Option.some.injEq] at hm
          subst hm
          intro y hy
          simp only [List.mem_cons] at hy
          rcases hy with rfl | hy
          · exact hx
          · exact propagateLoop1_full ls c r hr hrest y hy
      obtain ⟨la, lb⟩ := l
      simp only at hl
      cases lb with
      | lineOrPoint o =>
        -- not an area slot: at most the `on` position is written
        have hna : ∀ (q : Label), q.b = .lineOrPoint o → (q.isGeomArea 1) = false := by
          intro q hq; simp [Label.isGeomArea, hq, TopoPos.isArea]
        generalize hl0 : (if ((⟨la, .lineOrPoint o⟩ : Label).onPos 1).isNone = true
            then (⟨la, .lineOrPoint o⟩ : Label).setOn 1 cur else ⟨la, .lineOrPoint o⟩) = l0 at h
        have hl0b : ∃ o', l0.b = .lineOrPoint o' := by
          rw [← hl0]; split
          · exact ⟨some cur, rfl⟩
          · exact ⟨o, rfl⟩
        obtain ⟨o', ho'⟩ := hl0b
        have : l0.isGeomArea 1 = false := by simp [Label.isGeomArea, ho', TopoPos.isArea]
        rw [this] at h
        simp only [Bool.false_eq_true, if_false] at h
        exact tail l0 cur (by rw [ho']; trivial) h
      | area on lft rgt =>
        obtain ⟨hon, ⟨x, hx, hxb⟩, ⟨y, hy, hyb⟩⟩ := hl
        subst hx hy
        obtain ⟨o, rfl⟩ := Option.isSome_iff_exists.1 hon
        have e1 : ((⟨la, .area (some o) (some x) (some y)⟩ : Label).onPos 1).isNone = false := rfl
        rw [e1] at h
        simp only [Bool.false_eq_true, if_false] at h
        have e2 : (⟨la, .area (some o) (some x) (some y)⟩ : Label).isGeomArea 1 = true := rfl
        have e3 : (⟨la, .area (some o) (some x) (some y)⟩ : Label).rightPos 1 = some y := rfl
        have e4 : (⟨la, .area (some o) (some x) (some y)⟩ : Label).leftPos 1 = some x := rfl
        rw [e2, if_pos rfl, e3] at h
        simp only [e4] at h
        exact tail (⟨la, .area (some o) (some x) (some y)⟩ : Label) x
          (show FullArea (TopoPos.area (some o) (some x) (some y)) from ⟨rfl, ⟨x, rfl, hxb⟩, ⟨y, rfl, hyb⟩⟩) h

theorem propagate1_full {ls ls' : List Label} (h : propagateSideLabels 1 ls = some ls')
    (hP : ∀ l ∈ ls, FullArea l.b) : ∀ l ∈ ls', FullArea l.b := by
  unfold propagateSideLabels at h
  split at h
  · cases h; exact hP
  · exact propagateLoop1_full ls _ ls' h hP

theorem fillEmpty1_full (g : Geom) (c : Bool) (pt : Pt) (l : Label) (h : FullArea l.b) :
    FullArea (fillEmpty g c pt l 1).b := by
  obtain ⟨la, lb⟩ := l
  simp only at h
  cases lb with
  | lineOrPoint o =>
    unfold fillEmpty
    split
    · simp [Label.setAllIfEmpty, Label.set, Label.get, TopoPos.setAllIfEmpty, FullArea]
    · trivial
  | area on lft rgt =>
    obtain ⟨hon, ⟨x, hx, hxb⟩, ⟨y, hy, hyb⟩⟩ := h
    subst hx hy
    obtain ⟨o, rfl⟩ := Option.isSome_iff_exists.1 hon
    have : (⟨la, .area (some o) (some x) (some y)⟩ : Label).isAnyEmptyAt 1 = false := rfl
    unfold fillEmpty
    rw [this]
    exact ⟨rfl, ⟨x, rfl, hxb⟩, ⟨y, rfl, hyb⟩⟩

/-- every edge end of every bundle is a ring edge end -/
def StarArea (star : List Bundle) : Prop := ∀ bd ∈ star, ∀ e ∈ bd.ends, AreaLbl e.label

/-- **the labels of a star of ring edge ends of `B`**: slot 1 is a full area label whose sides are not `OnBoundary` -/
theorem starLabels_area {a b : Geom} {c : Pt} {star : List Bundle} {ls : List Label}
    (h : starLabels a b c star = some ls) (hs : StarArea star) : ∀ l ∈ ls, FullArea l.b := by
  unfold starLabels at h
  simp only at h
  have h0a : ∀ l ∈ star.map (fun bd => bundleLabel bd.ends), AEmpty l := by
    intro l hl
    simp only [List.mem_map] at hl
    obtain ⟨bd, hbd, rfl⟩ := hl
    exact bundleLabel_aEmpty (fun e he => (hs bd hbd e he).aEmpty)
  have h0 : ∀ l ∈ star.map (fun bd => bundleLabel bd.ends), FullArea l.b := by
    intro l hl
    simp only [List.mem_map] at hl
    obtain ⟨bd, hbd, rfl⟩ := hl
    exact bundleLabel_area (fun e he => hs bd hbd e he)
  rw [propagate0_of_aEmpty h0a] at h
  simp only at h
  split at h
  · cases h
  · rename_i ls1 h1
    have h1' := propagate1_full h1 h0
    cases h
    intro l hl
    simp only [List.mem_map] at hl
    obtain ⟨l1, hl1, rfl⟩ := hl
    apply fillEmpty1_full
    rw [fillEmpty0_b]
    exact h1' l1 hl1

/-- the contributions of such a label: no two-dimensional one on the boundary of `B` -/
theorem labelAtoms_fullArea {l : Label} (hb : FullArea l.b) :
    ∀ t ∈ labelAtoms l, t.posB = .onBoundary → t.dim = .one := by
  intro t ht htb
  unfold labelAtoms at ht
  simp only [List.mem_append] at ht
  rcases ht with ht | ht
  · exact (mem_optAtom ht).2.2
  · exfalso
    split at ht
    · simp only [List.mem_append] at ht
      rcases ht with ht | ht
      · have := (mem_optAtom ht).2.1
        rw [leftPos1, htb] at this
        cases hlb : l.b with
        | lineOrPoint o => rw [hlb] at this; cases this
        | area on lft rgt =>
          rw [hlb] at hb this
          obtain ⟨_, ⟨x, hx, hxb⟩, _⟩ := hb
          simp only [TopoPos.left] at this
          rw [hx] at this
          exact hxb (Option.some.inj this)
      · have := (mem_optAtom ht).2.1
        rw [rightPos1, htb] at this
        cases hlb : l.b with
        | lineOrPoint o => rw [hlb] at this; cases this
        | area on lft rgt =>
          rw [hlb] at hb this
          obtain ⟨_, _, ⟨y, hy, hyb⟩⟩ := hb
          simp only [TopoPos.right] at this
          rw [hy] at this
          exact hyb (Option.some.inj this)
    · cases ht

end Geo.Proofs.RELM3
