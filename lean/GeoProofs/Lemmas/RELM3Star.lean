/-
  RELM3 — the Exterior row of `relate(Point p, B)` for a LINEAR `B`, part 1: what the pipeline does to slot 1 of the
  labels when every edge of `B` is a line edge (`Label::new(1, line_or_point(Inside))`):
  * every edge stays isolated (self-noding does not touch `is_isolated`, the point has no edge to meet) and is
    labelled `Outside` of the point: its contribution is the single atom (1, Exterior, Interior);
  * every edge end carries the edge's label, so every bundle of every star is labelled `Inside` in slot 1
    (`compute_label_on`: no boundary edge, an interior one found), there is no side to propagate, no dimensional
    collapse, nothing left to fill: its contributions are atoms (1, Exterior, Interior) again.
-/
import GeoProofs.Lemmas.RELM3Areal
import GeoProofs.Lemmas.RELMPoint4

namespace Geo.Proofs.RELM3
open Geo Geo.GG Geo.RI Geo.Proofs.Spec Geo.Proofs.RELM Geo.Proofs.RELM2 Geo.Proofs.Kernel

/-! ### self-noding keeps `is_isolated` -/

theorem isolated_addIntersections (ar : Arith) (e : REdge) (li : LI) (a b : Pt) (i : Nat) :
    (e.addIntersections ar li a b i).isolated = e.isolated := by
  unfold REdge.addIntersections
  cases li <;> rfl

theorem selfAdd_isolated (ar : Arith) (es : List REdge) (s0 s1 : Seg) :
    (selfAdd ar es s0 s1).map (·.isolated) = es.map (·.isolated) := by
  unfold selfAdd
  split
  · rfl
  · split
    · rfl
    · split
      · rfl
      · split
        · rfl
        · rename_i li _ _ _ _ _
          rw [updAt_map (·.isolated) _ id (fun x => isolated_addIntersections ar x li s1.p s1.q s1.idx),
            updAt_map (·.isolated) _ id (fun x => isolated_addIntersections ar x li s0.p s0.q s0.idx)]
          have hid : ∀ (l : List Bool) (i : Nat), updAt l i id = l := by
            intro l; induction l with
            | nil => intro i; rfl
            | cons x xs ih => intro i; cases i <;> simp [updAt, ih]
          rw [hid, hid]

theorem selfRow_isolated (ar : Arith) (check : Bool) (s0 : Seg) :
    ∀ (l : List Seg) (es : List REdge), (selfRow ar check s0 l es).map (·.isolated) = es.map (·.isolated)
  | [], _ => rfl
  | s1 :: rest, es => by
      simp only [selfRow]
      rw [selfRow_isolated ar check s0 rest]
      split
      · rw [selfAdd_isolated]
      · rfl

theorem selfRows_isolated (ar : Arith) (check : Bool) (all : List Seg) :
    ∀ (l : List Seg) (es : List REdge), (selfRows ar check all l es).map (·.isolated) = es.map (·.isolated)
  | [], _ => rfl
  | s0 :: rest, es => by
      simp only [selfRows]
      rw [selfRows_isolated ar check all rest, selfRow_isolated]

/-- every edge of a self-noded graph is still isolated -/
theorem fresh_edges_isolated (ar : Arith) (idx : Nat) (g : Geom) :
    ∀ e ∈ (freshGraph ar idx g).edges, e.isolated = true := by
  intro e he
  rw [fresh_edges] at he
  have h1 := List.mem_map_of_mem (f := (·.isolated)) he
  have h2 : (selfIntersections ar (!isRings g) ((buildGraph idx g).edges.map REdge.ofEdge)).map (·.isolated) =
      ((buildGraph idx g).edges.map REdge.ofEdge).map (·.isolated) := selfRows_isolated ar _ _ _ _
  rw [h2] at h1
  simp only [List.map_map, List.mem_map] at h1
  obtain ⟨_, _, h⟩ := h1
  exact h.symm

/-! ### isolated line edges against a point -/

theorem labelAtoms_isolated_line :
    labelAtoms ((lineLabel 1).setAll 0 .outside) = [⟨.one, .outside, .inside⟩] := rfl

theorem labelIsolatedEdges_line (p : Pt) : ∀ (es : List REdge) (ls : List Label),
    labelIsolatedEdges (.point p) 0 es = some ls → (∀ e ∈ es, e.label = lineLabel 1 ∧ e.isolated = true) →
    (∀ l ∈ ls, l = (lineLabel 1).setAll 0 .outside) ∧ (es ≠ [] → ls ≠ [])
  | [], ls, h, _ => by
      simp only [labelIsolatedEdges] at h; cases h
      exact ⟨fun l hl => (by cases hl), fun h => absurd rfl h⟩
  | e :: es, ls, h, hes => by
      obtain ⟨hlab, hiso⟩ := hes e (List.mem_cons_self ..)
      simp only [labelIsolatedEdges, hiso, if_true] at h
      split at h
      · rename_i l1 ls1 hl1 hls1
        cases h
        have ih := labelIsolatedEdges_line p es ls1 hls1 (fun x hx => hes x (List.mem_cons_of_mem _ hx))
        refine ⟨?_, fun _ => by simp⟩
        intro l hl
        rcases List.mem_cons.1 hl with rfl | hl
        · unfold labelIsolatedEdge at hl1
          have : ¬ (dims (.point p)).rank > Dim.zero.rank := Nat.lt_irrefl _
          rw [if_neg this] at hl1
          cases hl1
          rw [hlab]
        · exact ih.1 l hl
      · cases h

/-! ### stars of line edge ends -/

theorem starInsert_forall (ar : Arith) {P : EdgeEnd → Prop} (e : EdgeEnd) (he : P e) :
    ∀ (s : List Bundle), (∀ bd ∈ s, ∀ x ∈ bd.ends, P x) → ∀ bd ∈ starInsert ar e s, ∀ x ∈ bd.ends, P x
  | [], _ => by
      intro bd hbd x hx
      simp only [starInsert, List.mem_singleton] at hbd
      subst hbd
      simp only [List.mem_singleton] at hx
      subst hx; exact he
  | b :: bs, hs => by
      intro bd hbd x hx
      simp only [starInsert] at hbd
      split at hbd
      · simp only [List.mem_cons] at hbd
        rcases hbd with rfl | hbd
        · exact hs _ (List.mem_cons_self ..) x hx
        · exact starInsert_forall ar e he bs (fun bd hbd => hs bd (List.mem_cons_of_mem _ hbd)) bd hbd x hx
      · simp only [List.mem_cons] at hbd
        rcases hbd with rfl | hbd
        · simp only [List.mem_append, List.mem_singleton] at hx
          rcases hx with hx | rfl
          · exact hs _ (List.mem_cons_self ..) x hx
          · exact he
        · exact hs bd (List.mem_cons_of_mem _ hbd) x hx
      · simp only [List.mem_cons] at hbd
        rcases hbd with rfl | rfl | hbd
        · simp only [List.mem_singleton] at hx
          subst hx; exact he
        · exact hs _ (List.mem_cons_self ..) x hx
        · exact hs bd (List.mem_cons_of_mem _ hbd) x hx

/-- every edge end of every bundle carries the label of a line edge of operand 1 -/
def StarLine (star : List Bundle) : Prop := ∀ bd ∈ star, ∀ e ∈ bd.ends, e.label = lineLabel 1

theorem final_stars_line (ar : Arith) {ends : List EdgeEnd} (hends : ∀ e ∈ ends, e.label = lineLabel 1)
    {ns : List RNode} (hns : ∀ n ∈ ns, n.star = []) :
    ∀ n ∈ insertEdgeEnds ar ends ns, StarLine n.star := by
  apply insertEdgeEnds_forall' (P := fun n => StarLine n.star) ar
  · intro c bd hbd; cases hbd
  · intro n hn; rw [hns n hn]; intro bd hbd; cases hbd
  · intro n e he hn
    exact starInsert_forall ar e (hends e he) n.star hn

theorem flip_lineLabel : (lineLabel 1).flip = lineLabel 1 := rfl

theorem endsForEdges_line {es : List REdge} {l : List EdgeEnd} (h : endsForEdges es = some l)
    (hes : ∀ e ∈ es, e.label = lineLabel 1) : ∀ x ∈ l, x.label = lineLabel 1 := by
  intro x hx
  obtain ⟨e, he, h'⟩ := endsForEdges_label es l h x hx
  rcases h' with h' | h'
  · rw [h', hes e he]
  · rw [h', hes e he, flip_lineLabel]

/-- the label of a bundle of line edge ends: `Inside` in slot 1 (unset for an empty bundle), slot 0 unset -/
theorem bundleLabel_line {ends : List EdgeEnd} (h : ∀ e ∈ ends, e.label = lineLabel 1) :
    bundleLabel ends = lineLabel 1 ∨ bundleLabel ends = Label.emptyLine := by
  have hA : ends.any (fun e => e.label.isArea) = false := by
    rw [List.any_eq_false]
    intro e he
    rw [h e he]
    decide
  have hae : ∀ e ∈ ends, AEmpty e.label := by
    intro e he
    rw [h e he]
    exact Or.inl rfl
  unfold bundleLabel
  simp only [hA, Bool.false_eq_true, if_false]
  rw [bundleLabelStep0_of_aEmpty hae]
  unfold bundleLabelStep
  simp only [Bool.false_eq_true, if_false]
  unfold computeLabelOn
  have hf : ends.filter (fun e => e.label.onPos 1 == some .onBoundary) = [] := by
    rw [List.filter_eq_nil_iff]
    intro e he
    rw [h e he]
    decide
  simp only [hf, List.length_nil, Nat.lt_irrefl, if_false]
  cases ends with
  | nil => right; rfl
  | cons e es =>
    left
    have : (e :: es).any (fun e => e.label.onPos 1 == some .inside) = true := by
      rw [List.any_cons, h e (List.mem_cons_self ..)]
      rfl
    rw [this]
    rfl

theorem startPosition1_none : ∀ (ls : List Label), (∀ l ∈ ls, l.isGeomArea 1 = false) → startPosition 1 ls none = none
  | [], _ => rfl
  | l :: ls, h => by
      simp only [startPosition, h l (List.mem_cons_self ..), Bool.false_eq_true, if_false]
      exact startPosition1_none ls fun x hx => h x (List.mem_cons_of_mem _ hx)

theorem fillEmpty0_b (g : Geom) (c : Bool) (pt : Pt) (l : Label) : (fillEmpty g c pt l 0).b = l.b := by
  unfold fillEmpty
  split <;> simp

/-- **the labels of a star of line edge ends of `B`, next to a `B` that is not areal**: slot 1 is `Inside` (or
`Outside` for an empty bundle) -/
theorem starLabels_line {a b : Geom} (hb : (dims b == .two) = false) {c : Pt} {star : List Bundle}
    {ls : List Label} (h : starLabels a b c star = some ls) (hs : StarLine star) :
    ∀ l ∈ ls, l.b = .lineOrPoint (some .inside) ∨ l.b = .lineOrPoint (some .outside) := by
  unfold starLabels at h
  simp only at h
  have hsa : StarAEmpty star := by
    intro bd hbd e he
    rw [hs bd hbd e he]
    exact Or.inl rfl
  have h0a : ∀ l ∈ star.map (fun bd => bundleLabel bd.ends), AEmpty l := by
    intro l hl
    simp only [List.mem_map] at hl
    obtain ⟨bd, hbd, rfl⟩ := hl
    exact bundleLabel_aEmpty (hsa bd hbd)
  have h0 : ∀ l ∈ star.map (fun bd => bundleLabel bd.ends), l = lineLabel 1 ∨ l = Label.emptyLine := by
    intro l hl
    simp only [List.mem_map] at hl
    obtain ⟨bd, hbd, rfl⟩ := hl
    exact bundleLabel_line (hs bd hbd)
  rw [propagate0_of_aEmpty h0a] at h
  simp only at h
  have hp1 : propagateSideLabels 1 (star.map (fun bd => bundleLabel bd.ends)) =
      some (star.map (fun bd => bundleLabel bd.ends)) := by
    unfold propagateSideLabels
    rw [startPosition1_none]
    intro l hl
    rcases h0 l hl with rfl | rfl <;> rfl
  rw [hp1] at h
  simp only at h
  have hc1 : collapseFlag 1 (star.map (fun bd => bundleLabel bd.ends)) = false := by
    unfold collapseFlag
    split
    · rename_i l hl
      rcases h0 l (List.mem_of_getLast? hl) with rfl | rfl <;> rfl
    · rfl
  cases h
  intro l hl
  simp only [List.mem_map] at hl
  obtain ⟨l1, hl1, rfl⟩ := hl
  obtain ⟨bd, hbd, rfl⟩ := hl1
  rw [hc1]
  generalize hin : fillEmpty a (collapseFlag 0 (star.map (fun bd => bundleLabel bd.ends))) c (bundleLabel bd.ends) 0 = l'
  have hb' : l'.b = (bundleLabel bd.ends).b := by rw [← hin, fillEmpty0_b]
  unfold fillEmpty
  rcases bundleLabel_line (hs bd hbd) with hbl | hbl
  · left
    have : l'.b = .lineOrPoint (some .inside) := by rw [hb', hbl]; rfl
    have he : l'.isAnyEmptyAt 1 = false := by simp [Label.isAnyEmptyAt, this, TopoPos.isAnyEmpty]
    rw [he]
    simpa using this
  · right
    have : l'.b = .lineOrPoint none := by rw [hb', hbl]; rfl
    have he : l'.isAnyEmptyAt 1 = true := by simp [Label.isAnyEmptyAt, this, TopoPos.isAnyEmpty]
    rw [he]
    simp [this, hb, TopoPos.setAllIfEmpty]

/-- the contributions of such a label -/
theorem labelAtoms_line {l : Label} (ha : SlotOutside l.a)
    (hb : l.b = .lineOrPoint (some .inside) ∨ l.b = .lineOrPoint (some .outside)) :
    ∀ t ∈ labelAtoms l, t.posA = .outside ∧ t.dim = .one ∧ (t.posB = .inside ∨ t.posB = .outside) := by
  intro t ht
  refine ⟨labelAtoms_outside ha t ht, ?_⟩
  unfold labelAtoms at ht
  simp only [List.mem_append] at ht
  rcases ht with ht | ht
  · obtain ⟨_, h2, h3⟩ := mem_optAtom ht
    refine ⟨h3, ?_⟩
    rw [onPos1] at h2
    rcases hb with hb | hb <;> rw [hb] at h2
    · left; exact (Option.some.inj h2).symm
    · right; exact (Option.some.inj h2).symm
  · exfalso
    split at ht
    · simp only [List.mem_append] at ht
      rcases ht with ht | ht
      · have := (mem_optAtom ht).2.1
        rw [leftPos1] at this
        rcases hb with hb | hb <;> rw [hb] at this <;> cases this
      · have := (mem_optAtom ht).2.1
        rw [rightPos1] at this
        rcases hb with hb | hb <;> rw [hb] at this <;> cases this
    · cases ht

end Geo.Proofs.RELM3
