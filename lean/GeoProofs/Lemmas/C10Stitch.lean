/-
  C10 helper lemmas: `find_boundary_lines` keeps exactly the lines that occur an odd number of
  times (up to direction).
-/
import GeoModel.Triangulate

namespace Geo.Proofs.C10
open Geo Geo.Tri

abbrev Ln := Pt × Pt

theorem sameLine_refl (l : Ln) : sameLine l l = true := by
  simp [sameLine]

theorem sameLine_symm (a b : Ln) : sameLine a b = sameLine b a := by
  rw [Bool.eq_iff_iff]
  simp only [sameLine, Bool.or_eq_true, Bool.and_eq_true, beq_iff_eq]
  constructor <;> rintro (⟨h1, h2⟩ | ⟨h1, h2⟩) <;> simp [h1, h2]

theorem sameLine_trans {a b c : Ln} (h1 : sameLine a b = true) (h2 : sameLine b c = true) :
    sameLine a c = true := by
  obtain ⟨a1, a2⟩ := a
  obtain ⟨b1, b2⟩ := b
  obtain ⟨c1, c2⟩ := c
  simp only [sameLine, Bool.or_eq_true, Bool.and_eq_true, beq_iff_eq] at h1 h2 ⊢
  rcases h1 with ⟨p, q⟩ | ⟨p, q⟩ <;> rcases h2 with ⟨r, s⟩ | ⟨r, s⟩ <;> subst_vars <;> simp

/-- number of lines of `ls` that are `l` or its inverse -/
def cnt (l : Ln) (ls : List Ln) : Nat := ls.countP (fun x => sameLine x l)

theorem cnt_nil (l : Ln) : cnt l [] = 0 := rfl

theorem cnt_cons (l x : Ln) (ls : List Ln) :
    cnt l (x :: ls) = cnt l ls + (if sameLine x l then 1 else 0) := by
  simp [cnt, List.countP_cons]

theorem cnt_append (l : Ln) (a b : List Ln) : cnt l (a ++ b) = cnt l a + cnt l b := by
  simp [cnt, List.countP_append]

theorem eraseFirst_none {pred : Ln → Bool} {ls : List Ln} (h : eraseFirst pred ls = none) :
    ∀ x ∈ ls, pred x = false := by
  induction ls with
  | nil => simp
  | cons a t ih =>
    unfold eraseFirst at h
    by_cases hp : pred a = true
    · simp [hp] at h
    · simp only [hp, Bool.false_eq_true, if_false, Option.map_eq_none_iff] at h
      intro x hx
      rcases List.mem_cons.1 hx with rfl | hx
      · simpa using hp
      · exact ih h x hx

theorem eraseFirst_some {pred : Ln → Bool} {ls r : List Ln} (h : eraseFirst pred ls = some r) :
    ∃ x, pred x = true ∧ ∀ l, cnt l ls = cnt l r + (if sameLine x l then 1 else 0) := by
  induction ls generalizing r with
  | nil => simp [eraseFirst] at h
  | cons a t ih =>
    unfold eraseFirst at h
    by_cases hp : pred a = true
    · simp only [hp, if_true, Option.some.injEq] at h
      subst h
      exact ⟨a, hp, fun l => cnt_cons l a t⟩
    · simp only [hp, Bool.false_eq_true, if_false, Option.map_eq_some_iff] at h
      obtain ⟨r', hr', rfl⟩ := h
      obtain ⟨x, hx, hc⟩ := ih hr'
      refine ⟨x, hx, fun l => ?_⟩
      rw [cnt_cons, cnt_cons, hc l]; omega

/-- one step of the fold keeps the parity invariant -/
theorem boundaryStep_parity (acc pre : List Ln) (nl : Ln)
    (inv : ∀ l, cnt l acc = cnt l pre % 2) :
    ∀ l, cnt l (boundaryStep acc nl) = cnt l (pre ++ [nl]) % 2 := by
  intro l
  have hpre : cnt l (pre ++ [nl]) = cnt l pre + (if sameLine nl l then 1 else 0) := by
    rw [cnt_append, cnt_cons, cnt_nil]; simp
  unfold boundaryStep
  cases he : eraseFirst (fun x => sameLine x nl) acc with
  | none =>
    have hnone := eraseFirst_none he
    simp only
    rw [cnt_append, cnt_cons, cnt_nil, hpre, inv l]
    by_cases hs : sameLine nl l = true
    · -- nothing in acc is the same line as `l`
      have h0 : cnt l acc = 0 := by
        unfold cnt
        rw [List.countP_eq_zero]
        intro x hx hxl
        have : sameLine x nl = true := sameLine_trans hxl (by rw [sameLine_symm]; exact hs)
        have := hnone x hx
        simp_all
      have := inv l
      rw [h0] at this
      simp only [hs, if_true]; omega
    · simp only [hs, Bool.false_eq_true, if_false]; have := inv l; omega
  | some r =>
    obtain ⟨x, hx, hc⟩ := eraseFirst_some he
    simp only
    have hxl := hc l
    rw [hpre]
    by_cases hs : sameLine nl l = true
    · have hxs : sameLine x l = true := sameLine_trans hx hs
      simp only [hxs, if_true] at hxl
      simp only [hs, if_true]
      have := inv l
      omega
    · have hxs : ¬ sameLine x l = true := by
        intro hxs
        apply hs
        exact sameLine_trans (by rw [sameLine_symm]; exact hx) hxs
      simp only [hxs, Bool.false_eq_true, if_false] at hxl
      simp only [hs, Bool.false_eq_true, if_false]
      have := inv l
      omega

theorem foldl_boundary_parity (rest acc pre : List Ln)
    (inv : ∀ l, cnt l acc = cnt l pre % 2) :
    ∀ l, cnt l (rest.foldl boundaryStep acc) = cnt l (pre ++ rest) % 2 := by
  induction rest generalizing acc pre with
  | nil => simpa using inv
  | cons nl rest ih =>
    intro l
    rw [List.foldl_cons]
    have := ih (boundaryStep acc nl) (pre ++ [nl]) (boundaryStep_parity acc pre nl inv) l
    simpa using this

end Geo.Proofs.C10
