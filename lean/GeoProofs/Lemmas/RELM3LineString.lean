/-
  RELM3 — `NodesLocate` for every LineString of the validity domain.  Open simple line string: self-noding
  records nothing (RELM3Simple), so the nodes are the two end points `add_line_string` inserts as boundary
  points (distinct: the line string is open), each `OnBoundary` — the specification's location of an end
  point of an open curve.  Closed: RELM2Ring.  Empty: no nodes.
-/
import GeoProofs.Lemmas.RELM3Simple

namespace Geo.Proofs.RELM3
open Geo Geo.GG Geo.RI Geo.Proofs.Spec Geo.Proofs.RELM Geo.Proofs.RELM2 Geo.Proofs.Kernel

/-- the graph `add_line_string` builds from a line string with at least two distinct consecutive coordinates -/
theorem buildGraph_lineString_long (idx : Nat) (cs : List Pt) (first second : Pt) (rest : List Pt)
    (hd : dedup cs = first :: second :: rest) :
    buildGraph idx (.lineString cs) =
      insertEdge ⟨dedup cs, lineLabel idx⟩
        (insertBoundaryPoint idx ((dedup cs).getLast?.getD first) (insertBoundaryPoint idx first Graph.empty)) := by
  have hne : cs.isEmpty = false := by
    cases cs with
    | nil => simp [dedup] at hd
    | cons _ _ => rfl
  unfold buildGraph
  simp only [addGeometry, hne, Bool.false_eq_true, if_false]
  unfold addLineString
  rw [hd]

theorem simple_dedup_long {cs : List Pt} (hs : lineStringSimple cs = true) :
    ∃ first second rest, dedup cs = first :: second :: rest := by
  unfold lineStringSimple at hs
  simp only [Bool.and_eq_true, decide_eq_true_eq] at hs
  have h1 := hs.1.1
  rw [← dedup_eq_dedupConsecutive] at h1
  match hd : dedup cs, h1 with
  | [], h1 => simp [segs] at h1
  | [_], h1 => simp [segs] at h1
  | a :: b :: r, _ => exact ⟨a, b, r, rfl⟩

theorem fresh_openLineString_no_eis (ar : Arith) (idx : Nat) (cs : List Pt) (hs : lineStringSimple cs = true)
    (hop : isClosedLS cs = false) : ∀ e ∈ (freshGraph ar idx (.lineString cs)).edges, e.eis = [] := by
  intro e he
  rw [fresh_edges] at he
  obtain ⟨first, second, rest, hd⟩ := simple_dedup_long hs
  rw [buildGraph_lineString_long idx cs first second rest hd] at he
  simp only [insertEdge, insertBoundaryPoint, Graph.empty, List.nil_append, List.map_cons, List.map_nil] at he
  rw [selfIntersections_simple_open ar _ hs hop _ rfl] at he
  simp only [List.mem_singleton] at he
  subst he
  rfl

theorem locate_openLineString_end (cs : List Pt) (hop : isClosedLS cs = false) (hl2 : 2 ≤ cs.length) (c : Pt)
    (hc : cs.head? = some c ∨ cs.getLast? = some c) : locate (.lineString cs) c = .onBoundary := by
  show locateParts ⟨[], [cs], []⟩ c = .onBoundary
  rw [locateParts_linear_boundary _ _ rfl rfl]
  have hmem : c ∈ cs := by
    rcases hc with h | h
    · exact List.mem_of_mem_head? h
    · exact List.mem_of_getLast? h
  refine ⟨by simpa [Parts.curveSegs] using onAnySeg_of_mem cs c hmem hl2, ?_⟩
  have hne : cs.head? ≠ cs.getLast? := by simpa [isClosedLS] using hop
  simp only [Geo.endpointCount, List.foldl_cons, List.foldl_nil]
  cases hh : cs.head? with
  | none => rw [hh] at hc; rcases hc with h | h; · cases h
            · cases cs with
              | nil => cases h
              | cons _ _ => cases hh
  | some f =>
    cases hlast : cs.getLast? with
    | none =>
      cases cs with
      | nil => cases hh
      | cons a t => simp at hlast
    | some l =>
      rw [hh, hlast] at hne hc
      have hfl : f ≠ l := fun e => hne (by rw [e])
      simp only [beq_iff_eq, hfl, if_false, Nat.zero_add]
      rcases hc with h | h
      · cases h
        simp [hfl]
      · cases h
        simp [Ne.symm hfl]

/-- **`NodesLocate` for an open simple line string** (any arithmetic) -/
theorem nodesLocate_openLineString (ar : Arith) (cs : List Pt) (hs : lineStringSimple cs = true)
    (hop : isClosedLS cs = false) : NodesLocate ar (.lineString cs) := by
  intro n hn
  rw [fresh_nodes_of_no_eis ar 1 _ (fresh_openLineString_no_eis ar 1 cs hs hop)] at hn
  obtain ⟨first, second, rest, hd⟩ := simple_dedup_long hs
  rw [buildGraph_lineString_long 1 cs first second rest hd] at hn
  have hfirst : cs.head? = some first := by rw [← Geo.Proofs.C17L.dedup_head?, hd]; rfl
  have hlastEq : (dedup cs).getLast? = cs.getLast? := Geo.Proofs.RELM.dedup_getLast? cs
  have hl2 : 2 ≤ cs.length := by
    have : (dedup cs).length ≤ cs.length := by
      rw [dedup_eq_dedupConsecutive]; exact Geo.Proofs.C02Q.dedup_length_le cs
    rw [hd] at this
    simp at this
    omega
  obtain ⟨l, hl⟩ : ∃ l, cs.getLast? = some l := by
    cases h : cs.getLast? with
    | none => rw [List.getLast?_eq_none_iff] at h; subst h; simp at hl2
    | some l => exact ⟨l, rfl⟩
  have hne : first ≠ l := by
    intro e
    have : cs.head? = cs.getLast? := by rw [hfirst, hl, e]
    simp [isClosedLS, this] at hop
  rw [hlastEq, hl] at hn
  simp only [Option.getD_some, insertEdge, insertBoundaryPoint, Graph.empty, upsertNode, if_neg hne] at hn
  have hB : (boundaryUpdate 1 Label.emptyLine).onPos 1 = some .onBoundary := rfl
  simp only [List.mem_cons, List.not_mem_nil, or_false] at hn
  rcases hn with rfl | rfl
  · rw [locate_openLineString_end cs hop hl2 first (Or.inl hfirst)]; exact hB
  · rw [locate_openLineString_end cs hop hl2 l (Or.inr hl)]; exact hB

theorem eisAreNodes_openLineString (ar : Arith) (cs : List Pt) (hs : lineStringSimple cs = true)
    (hop : isClosedLS cs = false) : EisAreNodes ar (.lineString cs) := by
  intro e he r hr
  rw [fresh_openLineString_no_eis ar 1 cs hs hop e he] at hr
  cases hr

/-- **every LineString of the validity domain** (empty, open simple, closed simple) -/
theorem nodesLocate_lineString_dom (ar : Arith) (cs : List Pt) (hd : inDomain (.lineString cs) = true) :
    NodesLocate ar (.lineString cs) ∧ EisAreNodes ar (.lineString cs) := by
  cases hcl : isClosedLS cs with
  | true =>
    have hlen : cs.length ≠ 1 := by
      rcases Geo.Proofs.C02X.lineString_dom_length hd with rfl | h
      · simp
      · omega
    exact ⟨nodesLocate_closedLineString ar cs hcl hlen, eisAreNodes_closedLineString ar cs hcl⟩
  | false =>
    have hs : lineStringSimple cs = true := by
      have hv : cs.isEmpty = true ∨ lineStringSimple cs = true := by simpa [inDomain, validGeom] using hd
      rcases hv with he | hs
      · rw [List.isEmpty_iff] at he; subst he; simp [isClosedLS] at hcl
      · exact hs
    exact ⟨nodesLocate_openLineString ar cs hs hcl, eisAreNodes_openLineString ar cs hs hcl⟩

end Geo.Proofs.RELM3
