/-
  C01Q, part 3: `HasDimensions` against the specification, type by type (no areal members):
  `dims g` / `boundaryDims g` are the row maxima Interior / Boundary of the specification.
-/
import GeoProofs.Lemmas.C01QDisjoint

namespace Geo.Proofs.Spec
open Geo Geo.Proofs.Kernel

/-- the dimensions reported by `HasDimensions` are the row maxima of the specification, whatever
the other operand is -/
structure DimsSpec (g : Geom) : Prop where
  inside : ∀ pb, RowMax (parts g) pb .inside (dims g)
  boundary : ∀ pb, RowMax (parts g) pb .onBoundary (boundaryDims g)
  ne : boundaryDims g ≠ .empty → dims g ≠ .empty

/-- **Disjoint-envelope shortcut, full equality**, for operands whose `HasDimensions` answers are the
row maxima of the specification. -/
theorem relateSpec_disjoint_of_dimsSpec {a b : Geom} (h : Sep (parts a) (parts b))
    (ca : ClosedExt (parts a)) (cb : ClosedExt (parts b)) (ha : DimsSpec a) (hb : DimsSpec b) :
    relateSpec a b = computeDisjoint (dims a) (boundaryDims a) (dims b) (boundaryDims b) :=
  relateParts_disjoint_eq h ca cb (ha.inside _) (ha.boundary _) (hb.inside _) (hb.boundary _) ha.ne hb.ne

/-! ### `lsDims` -/

theorem all_eq_head_of_deg {f : Pt} {t : List Pt} (h : ∀ s ∈ segs (f :: t), s.1 = s.2) :
    ∀ x ∈ f :: t, x = f := by
  induction t generalizing f with
  | nil => intro x hx; simpa using hx
  | cons b rest ih =>
    have hab : f = b := h (f, b) (by simp [segs])
    intro x hx
    rcases List.mem_cons.mp hx with rfl | hx
    · rfl
    · rw [hab]
      exact ih (fun s hs => h s (by simp only [segs, List.mem_cons]; exact Or.inr hs)) x hx

theorem lsDims_nil : lsDims [] = .empty := rfl

theorem lsDims_of_deg {cs : List Pt} (hne : cs ≠ []) (h : ∀ s ∈ segs cs, s.1 = s.2) : lsDims cs = .zero := by
  cases cs with
  | nil => exact absurd rfl hne
  | cons f t =>
    have hall := all_eq_head_of_deg h
    have : (f :: t).any (· != f) = false := by
      rw [List.any_eq_false]
      intro x hx
      simp [hall x hx]
    simp only [lsDims, this]
    simp

theorem lsDims_of_seg {cs : List Pt} {s : Pt × Pt} (hs : s ∈ segs cs) (hne : s.1 ≠ s.2) : lsDims cs = .one := by
  cases cs with
  | nil => simp [segs] at hs
  | cons f t =>
    obtain ⟨h1, h2⟩ := mem_of_mem_segs hs
    have : (f :: t).any (· != f) = true := by
      rw [List.any_eq_true]
      by_cases e : s.1 = f
      · refine ⟨s.2, h2, ?_⟩
        simp only [bne_iff_ne, ne_eq]
        intro e2
        exact hne (e.trans e2.symm)
      · exact ⟨s.1, h1, by simpa using e⟩
    simp only [lsDims, this]
    simp

theorem seg_of_length {cs : List Pt} (h : 2 ≤ cs.length) : ∃ s, s ∈ segs cs := by
  match cs, h with
  | a :: b :: _, _ => exact ⟨(a, b), by simp [segs]⟩

theorem lsDims_one_of_open {cs : List Pt} (hc : cs.head? ≠ cs.getLast?) : ∃ s ∈ segs cs, s.1 ≠ s.2 := by
  cases hf : cs.head? with
  | none =>
    have : cs = [] := by simpa using hf
    subst this; simp at hc
  | some f =>
    cases hl : cs.getLast? with
    | none =>
      have : cs = [] := by simpa using hl
      subst this; simp at hf
    | some l =>
      have hfl : f ≠ l := by
        intro e; apply hc; rw [hf, hl, e]
      obtain ⟨u, v, huv, hne⟩ := exists_consecutive_ne (List.mem_of_mem_head? hf) (List.mem_of_mem_getLast? hl) hfl
      exact ⟨(u, v), huv, hne⟩

/-! ### one curve -/

theorem curveSegs_single (cs : List Pt) : Parts.curveSegs ⟨[], [cs], []⟩ = segs cs := by
  simp [Parts.curveSegs]

theorem rowMax_curve_inside (cs : List Pt) (hlen : cs.length ≠ 1) (pb : Parts) :
    RowMax ⟨[], [cs], []⟩ pb .inside (lsDims cs) := by
  by_cases hdeg : ∀ s ∈ segs cs, s.1 = s.2
  · by_cases hnil : cs = []
    · subst hnil
      exact rowMax_inside_lin_empty pb rfl rfl (by simp [Parts.curveSegs, segs])
    · rw [lsDims_of_deg hnil hdeg]
      have h2 : 2 ≤ cs.length := by
        have : cs.length ≠ 0 := fun e => hnil (List.length_eq_zero_iff.mp e)
        omega
      obtain ⟨s, hs⟩ := seg_of_length h2
      exact rowMax_inside_lin_zero pb rfl (by rw [curveSegs_single]; exact hdeg)
        (Or.inr ⟨s, by rw [curveSegs_single]; exact hs⟩)
  · push Not at hdeg
    obtain ⟨s, hs, hne⟩ := hdeg
    rw [lsDims_of_seg hs hne]
    exact rowMax_inside_lin_one pb rfl (by rw [curveSegs_single]; exact hs) hne

theorem endC_head {cs : List Pt} {f l : Pt} (hf : cs.head? = some f) (hl : cs.getLast? = some l) (hfl : f ≠ l) :
    endC f cs = 1 := by
  unfold endC
  simp [hf, hl, hfl]

theorem rowMax_curve_boundary (cs : List Pt) (pb : Parts) :
    RowMax ⟨[], [cs], []⟩ pb .onBoundary (lsBoundaryDims cs) := by
  unfold lsBoundaryDims isClosedLS
  by_cases hc : cs.head? = cs.getLast?
  · simp only [hc, decide_true, if_true]
    apply rowMax_boundary_lin_empty pb rfl
    intro p
    simp [esum, endC_closed hc]
  · simp only [hc, decide_false, Bool.false_eq_true, if_false]
    obtain ⟨s, hs, hne⟩ := lsDims_one_of_open hc
    rw [lsDims_of_seg hs hne]
    cases hf : cs.head? with
    | none =>
      have : cs = [] := by simpa using hf
      subst this; simp at hc
    | some f =>
      cases hl : cs.getLast? with
      | none =>
        have : cs = [] := by simpa using hl
        subst this; simp at hf
      | some l =>
        have hfl : f ≠ l := by
          intro e; apply hc; rw [hf, hl, e]
        apply rowMax_boundary_lin_zero pb rfl (p := f)
        simp [esum, endC_head hf hl hfl]

theorem lsBoundaryDims_ne {cs : List Pt} (h : lsBoundaryDims cs ≠ .empty) : lsDims cs ≠ .empty := by
  unfold lsBoundaryDims at h
  split at h
  · exact absurd rfl h
  · cases hd : lsDims cs <;> simp [hd] at h ⊢

/-- LineString (any number of coordinates except one; open or closed, degenerate or not) -/
theorem dimsSpec_lineString (cs : List Pt) (hlen : cs.length ≠ 1) : DimsSpec (.lineString cs) where
  inside := rowMax_curve_inside cs hlen
  boundary := rowMax_curve_boundary cs
  ne := lsBoundaryDims_ne

theorem dims_line (a b : Pt) : dims (.line a b) = lsDims [a, b] := by
  by_cases h : a = b
  · subst h; simp [dims, lsDims]
  · have h' : ¬ b = a := fun e => h e.symm
    simp [dims, lsDims, h, h']

theorem boundaryDims_line (a b : Pt) : boundaryDims (.line a b) = lsBoundaryDims [a, b] := by
  by_cases h : a = b
  · subst h; simp [boundaryDims, lsBoundaryDims, isClosedLS]
  · have h' : ¬ b = a := fun e => h e.symm
    simp [boundaryDims, lsBoundaryDims, isClosedLS, lsDims, h, h']

/-- Line (degenerate or not) -/
theorem dimsSpec_line (a b : Pt) : DimsSpec (.line a b) where
  inside := by
    intro pb
    rw [dims_line]
    exact rowMax_curve_inside [a, b] (by simp) pb
  boundary := by
    intro pb
    rw [boundaryDims_line]
    exact rowMax_curve_boundary [a, b] pb
  ne := by
    rw [dims_line, boundaryDims_line]
    exact lsBoundaryDims_ne

/-! ### points -/

theorem rowMax_points_boundary (ps : List Pt) (pb : Parts) : RowMax ⟨ps, [], []⟩ pb .onBoundary .empty :=
  rowMax_boundary_lin_empty pb rfl (fun _ => rfl)

theorem dimsSpec_point (p : Pt) : DimsSpec (.point p) where
  inside := fun pb =>
    rowMax_inside_lin_zero (pa := ⟨[p], [], []⟩) pb rfl (by simp [Parts.curveSegs]) (Or.inl ⟨p, by simp⟩)
  boundary := rowMax_points_boundary [p]
  ne := fun h => absurd rfl h

theorem dimsSpec_multiPoint (ps : List Pt) : DimsSpec (.multiPoint ps) where
  inside := by
    intro pb
    cases ps with
    | nil => exact rowMax_inside_lin_empty (pa := ⟨[], [], []⟩) pb rfl rfl rfl
    | cons p t =>
      exact rowMax_inside_lin_zero (pa := ⟨p :: t, [], []⟩) pb rfl (by simp [Parts.curveSegs])
        (Or.inl ⟨p, by simp⟩)
  boundary := rowMax_points_boundary ps
  ne := fun h => absurd rfl h

/-! ### MultiLineString (mod-2 rule across the members) -/

/-- the end points of the open members, as `MultiLineString::boundary_dimensions` collects them -/
def mlsEnds (ls : List (List Pt)) : List Pt :=
  (ls.filter (fun cs => !isClosedLS cs)).flatMap (fun cs =>
    match cs.head?, cs.getLast? with | some f, some l => [f, l] | _, _ => [])

theorem boundaryDims_mls (ls : List (List Pt)) : boundaryDims (.multiLineString ls) =
    if ls.all isClosedLS then .empty else
      if (mlsEnds ls).any (fun e => ((mlsEnds ls).filter (· == e)).length % 2 == 1) then .zero else .empty := by
  simp only [boundaryDims, mlsEnds]
  rfl

/-- the number of collected end points equal to `e` is the end point count of the specification -/
theorem count_mlsEnds (e : Pt) (ls : List (List Pt)) : ((mlsEnds ls).filter (· == e)).length = esum e ls := by
  induction ls with
  | nil => rfl
  | cons c t ih =>
    by_cases hc : c.head? = c.getLast?
    · have h1 : mlsEnds (c :: t) = mlsEnds t := by
        simp [mlsEnds, List.filter_cons, isClosedLS, hc]
      rw [h1, ih, esum, endC_closed hc]; omega
    · have h1 : mlsEnds (c :: t) =
          (match c.head?, c.getLast? with | some f, some l => [f, l] | _, _ => []) ++ mlsEnds t := by
        simp [mlsEnds, List.filter_cons, isClosedLS, hc]
      rw [h1, List.filter_append, List.length_append, ih, esum]
      congr 1
      unfold endC
      cases hf : c.head? with
      | none => simp
      | some f =>
        cases hl : c.getLast? with
        | none => simp
        | some l =>
          have hfl : f ≠ l := by
            intro e'; apply hc; rw [hf, hl, e']
          by_cases h1 : e = f <;> by_cases h2 : e = l
          · exact absurd (h1.symm.trans h2) hfl
          · subst h1
            have : ¬ l = e := fun e' => h2 e'.symm
            simp [List.filter_cons, hfl, this]
          · subst h2
            have : ¬ f = e := fun e' => h1 e'.symm
            simp [hfl, this, h1]
          · have h1' : ¬ f = e := fun e' => h1 e'.symm
            have h2' : ¬ l = e := fun e' => h2 e'.symm
            simp [List.filter_cons, hfl, h1, h2, h1', h2']

theorem mem_mlsEnds_of_esum {e : Pt} {ls : List (List Pt)} (h : esum e ls ≠ 0) : e ∈ mlsEnds ls := by
  rw [← count_mlsEnds] at h
  have : (mlsEnds ls).filter (· == e) ≠ [] := fun e' => h (by rw [e']; rfl)
  obtain ⟨x, hx⟩ := List.exists_mem_of_ne_nil _ this
  rw [List.mem_filter, beq_iff_eq] at hx
  exact hx.2 ▸ hx.1

theorem rowMax_mls_boundary (ls : List (List Pt)) (pb : Parts) :
    RowMax ⟨[], ls, []⟩ pb .onBoundary (boundaryDims (.multiLineString ls)) := by
  rw [boundaryDims_mls]
  by_cases hany : (mlsEnds ls).any (fun e => ((mlsEnds ls).filter (· == e)).length % 2 == 1) = true
  · by_cases hall : ls.all isClosedLS = true
    · -- then there are no collected end points at all
      exfalso
      rw [List.any_eq_true] at hany
      obtain ⟨e, he, _⟩ := hany
      have : mlsEnds ls = [] := by
        unfold mlsEnds
        rw [List.all_eq_true] at hall
        have : ls.filter (fun cs => !isClosedLS cs) = [] := by
          rw [List.filter_eq_nil_iff]
          intro c hc
          simp [hall c hc]
        rw [this]; rfl
      rw [this] at he; cases he
    · rw [if_neg hall, if_pos hany]
      rw [List.any_eq_true] at hany
      obtain ⟨e, _, hodd⟩ := hany
      rw [count_mlsEnds] at hodd
      exact rowMax_boundary_lin_zero pb rfl (p := e) (by simpa using hodd)
  · have hev : ∀ p, esum p ls % 2 = 0 := by
      intro p
      by_contra hp
      apply hany
      rw [List.any_eq_true]
      refine ⟨p, mem_mlsEnds_of_esum (by omega), ?_⟩
      rw [count_mlsEnds]
      simp; omega
    have : (if ls.all isClosedLS = true then Dim.empty else
        if (mlsEnds ls).any (fun e => ((mlsEnds ls).filter (· == e)).length % 2 == 1) = true then Dim.zero
        else Dim.empty) = .empty := by
      split
      · rfl
      · first | rfl | rw [if_neg hany]
    rw [this]
    exact rowMax_boundary_lin_empty pb rfl hev

theorem mlsDims_of_seg {ls : List (List Pt)} {c : List Pt} (hc : c ∈ ls) {s : Pt × Pt} (hs : s ∈ segs c)
    (hne : s.1 ≠ s.2) : mlsDims ls = .one := by
  unfold mlsDims
  have : ls.any (fun l => lsDims l == .one) = true :=
    List.any_eq_true.mpr ⟨c, hc, by rw [lsDims_of_seg hs hne]; rfl⟩
  simp [this]

theorem rowMax_mls_inside (ls : List (List Pt)) (hlen : ∀ l ∈ ls, l.length ≠ 1) (pb : Parts) :
    RowMax ⟨[], ls, []⟩ pb .inside (mlsDims ls) := by
  by_cases hdeg : ∀ s ∈ Parts.curveSegs ⟨[], ls, []⟩, s.1 = s.2
  · have hd : ∀ l ∈ ls, ∀ s ∈ segs l, s.1 = s.2 := fun l hl s hs => hdeg s (mem_curveSegs (pa := ⟨[], ls, []⟩) hl hs)
    have h1 : ls.any (fun l => lsDims l == .one) = false := by
      rw [List.any_eq_false]
      intro l hl
      by_cases hnil : l = []
      · subst hnil; simp [lsDims]
      · rw [lsDims_of_deg hnil (hd l hl)]; simp
    by_cases hne : ∃ l ∈ ls, l ≠ []
    · obtain ⟨l, hl, hnil⟩ := hne
      have h2 : ls.any (fun l => lsDims l == .zero) = true :=
        List.any_eq_true.mpr ⟨l, hl, by rw [lsDims_of_deg hnil (hd l hl)]; rfl⟩
      have : mlsDims ls = .zero := by simp [mlsDims, h1, h2]
      rw [this]
      have hl2 : 2 ≤ l.length := by
        have : l.length ≠ 0 := fun e => hnil (List.length_eq_zero_iff.mp e)
        have := hlen l hl
        omega
      obtain ⟨s, hs⟩ := seg_of_length hl2
      exact rowMax_inside_lin_zero pb rfl hdeg (Or.inr ⟨s, mem_curveSegs (pa := ⟨[], ls, []⟩) hl hs⟩)
    · push Not at hne
      have h2 : ls.any (fun l => lsDims l == .zero) = false := by
        rw [List.any_eq_false]
        intro l hl
        rw [hne l hl]; simp [lsDims]
      have : mlsDims ls = .empty := by simp [mlsDims, h1, h2]
      rw [this]
      apply rowMax_inside_lin_empty pb rfl rfl
      simp only [Parts.curveSegs]
      rw [List.flatMap_eq_nil_iff]
      intro l hl
      rw [hne l hl]; rfl
  · push Not at hdeg
    obtain ⟨s, hs, hne⟩ := hdeg
    have hs' := hs
    simp only [Parts.curveSegs, List.mem_flatMap] at hs'
    obtain ⟨c, hc, hsc⟩ := hs'
    rw [mlsDims_of_seg hc hsc hne]
    exact rowMax_inside_lin_one pb rfl hs hne

/-- MultiLineString without one-coordinate members: dimension, and boundary by the mod-2 rule
across the members -/
theorem dimsSpec_multiLineString (ls : List (List Pt)) (hlen : ∀ l ∈ ls, l.length ≠ 1) :
    DimsSpec (.multiLineString ls) where
  inside := rowMax_mls_inside ls hlen
  boundary := rowMax_mls_boundary ls
  ne := by
    intro h
    rw [boundaryDims_mls] at h
    split at h
    · exact absurd rfl h
    · split at h
      · rename_i hany
        rw [List.any_eq_true] at hany
        obtain ⟨e, _, hodd⟩ := hany
        rw [count_mlsEnds] at hodd
        have hne : esum e ls ≠ 0 := by
          intro e0; rw [e0] at hodd; simp at hodd
        obtain ⟨c, hc, hec⟩ := exists_endC_of_esum hne
        obtain ⟨s, hs, hsne⟩ := lsDims_one_of_open (endC_ne_zero hec).1
        change mlsDims ls ≠ .empty
        rw [mlsDims_of_seg hc hs hsne]
        decide
      · exact absurd rfl h

end Geo.Proofs.Spec
