/-
  SMLX (C05), part 6: edges of a simple ring inside a slab without coordinates.

  * `no_cross`: two different edges of a simple ring that both cross every level between `y₁` and `y₂`
    (none of which is the ordinate of a coordinate) keep their left-to-right order: otherwise the two
    crossing abscissae, both linear in the level, would coincide at an intermediate level, at a point of the
    ring that is on two edges without being a coordinate.
  * `leftmost_side`: the left-most crossing of a level has the exterior on its left, which fixes the side
    constant `L`: an upward left-most crossing means `L = 0`, a downward one `L = 1`.
  * `pedge_left_of_others`: in a slab that has the ordinate of the left-most coordinate `p` of the ring as
    one of its two bounding levels, an edge ending at `p` is to the left of every edge that does not.
-/
import GeoProofs.Lemmas.SMLXSign
import GeoProofs.Lemmas.SMLXSimple

set_option linter.unusedSimpArgs false
set_option linter.unusedVariables false

namespace Geo.Proofs.SMLX
open Geo Geo.IP Geo.Proofs.Kernel Geo.Proofs.Spec Geo.Proofs.C02Q Geo.Proofs.C12 Geo.Proofs.WIND
open Geo.Proofs.C05L

/-! ### the crossing abscissa as a function of the level -/

theorem xAt_lerp (y1 y2 t : Rat) (e : Pt × Pt) :
    xAt (y1 + t * (y2 - y1)) e = xAt y1 e + t * (xAt y2 e - xAt y1 e) := by
  simp only [xAt]; ring

theorem xAt_first (a b : Pt) : xAt a.y (a, b) = a.x := by simp [xAt]

theorem xAt_second (a b : Pt) (h : a.y ≠ b.y) : xAt b.y (a, b) = b.x := by
  have : b.y - a.y ≠ 0 := fun h0 => h (by linarith)
  simp only [xAt]; field_simp; ring

/-- the point of the supporting line at a level inside the closed ordinate range is on the edge -/
theorem xAt_segMem_closed {y : Rat} {c d : Pt} (hne : c.y ≠ d.y)
    (hr : (c.y ≤ y ∧ y ≤ d.y) ∨ (d.y ≤ y ∧ y ≤ c.y)) : SegMem ⟨xAt y (c, d), y⟩ c d := by
  have hd : d.y - c.y ≠ 0 := fun h0 => hne (by linarith)
  refine ⟨(y - c.y) / (d.y - c.y), ?_, ?_, ?_, ?_⟩
  · rcases hr with ⟨a, b⟩ | ⟨a, b⟩
    · exact div_nonneg (by linarith) (by linarith)
    · exact div_nonneg_of_nonpos (by linarith) (by linarith)
  · rcases hr with ⟨a, b⟩ | ⟨a, b⟩
    · have : 0 < d.y - c.y := lt_of_le_of_ne (by linarith) (Ne.symm hd)
      rw [div_le_one this]; linarith
    · have : d.y - c.y < 0 := lt_of_le_of_ne (by linarith) hd
      rw [div_le_one_of_neg this]; linarith
  · simp only [xAt]; field_simp
  · simp only; field_simp; ring

theorem segMem_x_ge {z c d : Pt} {x0 : Rat} (hz : SegMem z c d) (hc : x0 ≤ c.x) (hd : x0 ≤ d.x) :
    x0 ≤ z.x := by
  obtain ⟨t, t0, t1, hx, _⟩ := hz
  rw [hx]
  nlinarith [mul_nonneg t0 (sub_nonneg.mpr hd), mul_nonneg (sub_nonneg.mpr t1) (sub_nonneg.mpr hc)]

/-! ### two edges of a simple ring do not cross inside a slab -/

theorem no_cross {r0 : List Pt} (h : ringSimple r0 = true) {e e' : Pt × Pt} (he : e ∈ segs r0)
    (he' : e' ∈ segs r0) (hne : e ≠ e') {y1 y2 : Rat}
    (hspan : ∀ t : Rat, 0 < t → t ≤ 1 → sgnE (y1 + t * (y2 - y1)) e ≠ 0 ∧
      sgnE (y1 + t * (y2 - y1)) e' ≠ 0 ∧ ∀ w ∈ r0, w.y ≠ y1 + t * (y2 - y1))
    (h1 : xAt y1 e < xAt y1 e') : xAt y2 e < xAt y2 e' := by
  by_contra hle
  have hle' : xAt y2 e' ≤ xAt y2 e := not_lt.mp hle
  set d1 := xAt y1 e' - xAt y1 e with hd1
  set d2 := xAt y2 e - xAt y2 e' with hd2
  have d1pos : 0 < d1 := by rw [hd1]; linarith
  have d2nn : 0 ≤ d2 := by rw [hd2]; linarith
  have hsum : 0 < d1 + d2 := by linarith
  set t := d1 / (d1 + d2) with ht
  have t0 : 0 < t := div_pos d1pos hsum
  have t1 : t ≤ 1 := by rw [ht, div_le_one hsum]; linarith
  have htd : t * (d1 + d2) = d1 := div_mul_cancel₀ d1 (ne_of_gt hsum)
  obtain ⟨s1, s2, hw⟩ := hspan t t0 t1
  have hx : xAt (y1 + t * (y2 - y1)) e = xAt (y1 + t * (y2 - y1)) e' := by
    rw [xAt_lerp, xAt_lerp]
    have : t * (xAt y2 e - xAt y1 e) - t * (xAt y2 e' - xAt y1 e') = t * (d1 + d2) := by
      rw [hd1, hd2]; ring
    rw [htd] at this
    rw [hd1] at this
    linarith
  obtain ⟨a, b⟩ := e
  obtain ⟨c, d⟩ := e'
  have hP : SegMem ⟨xAt (y1 + t * (y2 - y1)) (a, b), y1 + t * (y2 - y1)⟩ a b := xAt_segMem s1
  have hP' : SegMem ⟨xAt (y1 + t * (y2 - y1)) (a, b), y1 + t * (y2 - y1)⟩ c d := by
    rw [hx]; exact xAt_segMem s2
  have hnv : (⟨xAt (y1 + t * (y2 - y1)) (a, b), y1 + t * (y2 - y1)⟩ : Pt) ∉ r0 :=
    fun hm => hw _ hm rfl
  have u1 := simple_unique_edge h he hP hnv
  have u2 := simple_unique_edge h he' hP' hnv
  rw [u1] at u2
  exact hne (List.cons.inj u2).1

/-! ### the left-most crossing -/

theorem psum_true (y : Rat) (es : List (Pt × Pt)) :
    psum y (fun _ => true) es = (es.map (sgnE y)).sum := by
  have h2 := psum_split y (fun _ => true) es
  have h3 : psum y (fun t => !(fun _ => true) t) es = 0 := psum_zero y _ _ (fun _ _ => rfl)
  rw [h3] at h2
  omega

/-- **the left-most crossing of a level fixes the side constant** -/
theorem leftmost_side {r0 : List Pt} (h : ringSimple r0 = true) {L : Int}
    (hL : ∀ a b P, (a, b) ∈ segs r0 → SegMem P a b → P ∉ r0 →
      windingE (faceL a b P) r0 = L ∧ windingE (faceR a b P) r0 = L - 1)
    {y : Rat} (hy : ∀ v ∈ r0, v.y ≠ y) {a b : Pt} (hab : (a, b) ∈ segs r0)
    (hsg : sgnE y (a, b) ≠ 0)
    (hmin : ∀ t ∈ (segs r0).flatMap (crossXs y), xAt y (a, b) ≤ t) :
    (if sgnE y (a, b) = 1 then L else L - 1) = 0 := by
  have hc := closed_of_simple h
  rw [← crossing_suffix h hL hy hab hsg]
  unfold sge
  rw [psum_congr y _ (fun _ => true) (segs r0) (fun t ht => by simpa using hmin t ht), psum_true,
    sum_sgnE_closed y r0 hc hy]

/-! ### common points of two edges -/

/-- a common point of two different edges of positive length of a simple ring is an end point of both -/
theorem common_point_endpoint {r0 : List Pt} (h : ringSimple r0 = true) {e e' : Pt × Pt}
    (he : e ∈ segs r0) (he' : e' ∈ segs r0) (hd : e.1 ≠ e.2) (hd' : e'.1 ≠ e'.2) (hne : e ≠ e')
    {z : Pt} (hz : SegMem z e.1 e.2) (hz' : SegMem z e'.1 e'.2) :
    (z = e.1 ∨ z = e.2) ∧ (z = e'.1 ∨ z = e'.2) := by
  have hcl := (ringSimple_spec h).1
  have m1 : e ∈ segs (dedupConsecutive r0) := by
    obtain ⟨a, b⟩ := e; exact (mem_segs_dedup_iff r0 a b).mpr ⟨he, hd⟩
  have m2 : e' ∈ segs (dedupConsecutive r0) := by
    obtain ⟨a, b⟩ := e'; exact (mem_segs_dedup_iff r0 a b).mpr ⟨he', hd'⟩
  obtain ⟨i, hi⟩ := List.getElem?_of_mem m1
  obtain ⟨j, hj⟩ := List.getElem?_of_mem m2
  have hij : i ≠ j := by
    intro e0; subst e0
    rw [hi] at hj
    exact hne (Option.some.inj hj)
  rcases lt_or_gt_of_ne hij with hlt | hgt
  · rcases simple_pos h hlt hi hj hz hz' with ⟨e1, hz2⟩ | ⟨e0, e1, hz2⟩
    · subst e1
      exact ⟨Or.inr hz2, Or.inl (hz2.trans (segs_adjacent hi hj))⟩
    · subst e0
      have : j = (segs (dedupConsecutive r0)).length - 1 := by omega
      subst this
      exact ⟨Or.inl (hz2.trans (segs_wrap hcl hi hj)), Or.inr hz2⟩
  · rcases simple_pos h hgt hj hi hz' hz with ⟨e1, hz2⟩ | ⟨e0, e1, hz2⟩
    · subst e1
      exact ⟨Or.inl (hz2.trans (segs_adjacent hj hi)), Or.inr hz2⟩
    · subst e0
      have : i = (segs (dedupConsecutive r0)).length - 1 := by omega
      subst this
      exact ⟨Or.inr hz2, Or.inl (hz2.trans (segs_wrap hcl hj hi))⟩

/-! ### slabs -/

/-- an edge that crosses the middle level of a slab without coordinates crosses every level of the slab,
in the same direction -/
theorem slab_cross_all {r0 : List Pt} {lo hi : Rat} (hgap : ∀ v ∈ r0, ¬ (lo < v.y ∧ v.y < hi))
    {e : Pt × Pt} (he : e ∈ segs r0) (hs : sgnE ((lo + hi) / 2) e ≠ 0) :
    ((e.1.y ≤ lo ∧ hi ≤ e.2.y) ∨ (e.2.y ≤ lo ∧ hi ≤ e.1.y)) ∧
      ∀ y, lo < y → y < hi → sgnE y e = sgnE ((lo + hi) / 2) e := by
  obtain ⟨m1, m2⟩ := mem_of_mem_segs he
  have g1 := hgap _ m1
  have g2 := hgap _ m2
  rcases (sgnE_ne_zero_iff _ e).1 hs with ⟨a, b⟩ | ⟨a, b⟩
  · have h1 : e.1.y ≤ lo := by
      by_contra hh; exact g1 ⟨not_le.mp hh, by linarith⟩
    have h2 : hi ≤ e.2.y := by
      by_contra hh; exact g2 ⟨by linarith, not_le.mp hh⟩
    refine ⟨Or.inl ⟨h1, h2⟩, ?_⟩
    intro y hy1 hy2
    have c1 : e.1.y < y ∧ y < e.2.y := ⟨by linarith, by linarith⟩
    have c2 : e.1.y < (lo + hi) / 2 ∧ (lo + hi) / 2 < e.2.y := ⟨a, b⟩
    unfold sgnE; simp [c1, c2]
  · have h1 : e.2.y ≤ lo := by
      by_contra hh; exact g2 ⟨not_le.mp hh, by linarith⟩
    have h2 : hi ≤ e.1.y := by
      by_contra hh; exact g1 ⟨by linarith, not_le.mp hh⟩
    refine ⟨Or.inr ⟨h1, h2⟩, ?_⟩
    intro y hy1 hy2
    have c1 : e.2.y < y ∧ y < e.1.y := ⟨by linarith, by linarith⟩
    have c2 : e.2.y < (lo + hi) / 2 ∧ (lo + hi) / 2 < e.1.y := ⟨a, b⟩
    have n1 : ¬ (e.1.y < y ∧ y < e.2.y) := fun hh => by linarith [hh.1, hh.2]
    have n2 : ¬ (e.1.y < (lo + hi) / 2 ∧ (lo + hi) / 2 < e.2.y) := fun hh => by linarith [hh.1, hh.2]
    unfold sgnE; simp [c1, c2, n1, n2]

/-- **an edge ending at the left-most coordinate `p` is to the left of every edge that does not**, on the
middle level of a slab without coordinates one of whose bounding levels is the ordinate of `p` -/
theorem pedge_left_of_others {r0 : List Pt} (h : ringSimple r0 = true) {p : Pt}
    (hpx : ∀ q ∈ r0, p.x ≤ q.x) {lo hi : Rat} (hlh : lo < hi)
    (hgap : ∀ v ∈ r0, ¬ (lo < v.y ∧ v.y < hi)) (hpy : p.y = lo ∨ p.y = hi)
    {e e' : Pt × Pt} (he : e ∈ segs r0) (he' : e' ∈ segs r0) (hpe : p = e.1 ∨ p = e.2)
    (hpe' : p ≠ e'.1 ∧ p ≠ e'.2)
    (hs : sgnE ((lo + hi) / 2) e ≠ 0) (hs' : sgnE ((lo + hi) / 2) e' ≠ 0) :
    xAt ((lo + hi) / 2) e < xAt ((lo + hi) / 2) e' := by
  obtain ⟨r1, c1⟩ := slab_cross_all hgap he hs
  obtain ⟨r2, c2⟩ := slab_cross_all hgap he' hs'
  have hne : e ≠ e' := by
    intro e0; subst e0
    rcases hpe with e1 | e1
    · exact hpe'.1 e1
    · exact hpe'.2 e1
  have hd : e.1.y ≠ e.2.y := fun h0 => sgnE_ne_zero_ne hs (by linarith)
  have hd' : e'.1.y ≠ e'.2.y := fun h0 => sgnE_ne_zero_ne hs' (by linarith)
  have hdp : e.1 ≠ e.2 := fun h0 => hd (by rw [h0])
  have hdp' : e'.1 ≠ e'.2 := fun h0 => hd' (by rw [h0])
  have hplo : lo ≤ p.y ∧ p.y ≤ hi := by rcases hpy with e0 | e0 <;> rw [e0] <;> exact ⟨by linarith, by linarith⟩
  apply no_cross h he he' hne (y1 := p.y)
  · intro t t0 t1
    have hin : lo < p.y + t * ((lo + hi) / 2 - p.y) ∧ p.y + t * ((lo + hi) / 2 - p.y) < hi := by
      rcases hpy with e0 | e0
      · rw [e0]; constructor <;> nlinarith
      · rw [e0]; constructor <;> nlinarith
    refine ⟨?_, ?_, ?_⟩
    · rw [c1 _ hin.1 hin.2]; exact hs
    · rw [c2 _ hin.1 hin.2]; exact hs'
    · intro w hw e0
      exact hgap w hw ⟨by rw [e0]; exact hin.1, by rw [e0]; exact hin.2⟩
  · -- at the level of `p`: `e` is at `p`, `e'` strictly to the right
    have hxe : xAt p.y e = p.x := by
      obtain ⟨a, b⟩ := e
      rcases hpe with e1 | e1
      · simp only at e1; subst e1; exact xAt_first _ _
      · simp only at e1; subst e1; exact xAt_second _ _ hd
    rw [hxe]
    obtain ⟨c, d⟩ := e'
    simp only at r2 hd' hpe' hdp'
    have hz : SegMem ⟨xAt p.y (c, d), p.y⟩ c d := by
      apply xAt_segMem_closed hd'
      rcases r2 with ⟨a1, a2⟩ | ⟨a1, a2⟩
      · exact Or.inl ⟨by linarith [hplo.1], by linarith [hplo.2]⟩
      · exact Or.inr ⟨by linarith [hplo.1], by linarith [hplo.2]⟩
    obtain ⟨mc, md⟩ := mem_of_mem_segs he'
    have hge : p.x ≤ xAt p.y (c, d) := segMem_x_ge hz (hpx _ mc) (hpx _ md)
    rcases lt_or_eq_of_le hge with hlt | heq
    · exact hlt
    · exfalso
      have hzp : (⟨xAt p.y (c, d), p.y⟩ : Pt) = p := Pt.ext' heq.symm rfl
      rw [hzp] at hz
      have hpon : SegMem p e.1 e.2 := by
        rcases hpe with e1 | e1
        · rw [e1]; exact SegMem_left _ _
        · rw [e1]; exact SegMem_right _ _
      have := (common_point_endpoint h he he' hdp hdp' hne hpon hz).2
      rcases this with e1 | e1
      · exact hpe'.1 e1
      · exact hpe'.2 e1

end Geo.Proofs.SMLX
