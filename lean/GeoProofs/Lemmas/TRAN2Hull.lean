/-
  Translator tie for geo/src/utils.rs `lex_cmp` and the comparator closure of `graham_hull`
  (geo/src/algorithm/convex_hull/graham.rs): `lexLt` and `grahamLe` of the hand-written model (`GeoModel/Orient.lean`,
  `GeoModel/Hull.lean`) are the regenerated terms (`GeoModel/Gen/HullGen.lean`) read as "less" / "not greater".
-/
import GeoModel.Hull
import GeoModel.Gen.HullGen

namespace Geo.Proofs.TRAN2Hull
open Geo Geo.Hull

theorem lexCmp_lt (p q : Pt) : (Gen.lexCmp p q == .lt) = lexLt p q := by
  unfold Gen.lexCmp Gen.partialCmp? Gen.unwrap lexLt
  by_cases hx : p.x < q.x
  · simp [hx, Ordering.then]
  · by_cases hxe : p.x = q.x
    · by_cases hy : p.y < q.y
      · simp [hxe, hy, Ordering.then]
      · by_cases hye : p.y = q.y <;> simp [hxe, hy, hye, Ordering.then]
    · simp [hx, hxe, Ordering.then]

theorem grahamCmp_le (rnd : Rat → Rat) (head q r : Pt) :
    (Gen.grahamCmp (dist2r rnd) head q r != .gt) = grahamLe rnd head q r := by
  unfold Gen.grahamCmp grahamLe Gen.partialCmp? Gen.unwrap
  cases orient q head r
  · rfl
  · rfl
  · simp only
    by_cases h1 : dist2r rnd head q < dist2r rnd head r
    · have : dist2r rnd head q ≤ dist2r rnd head r := Rat.le_of_lt h1
      simp [h1, this]
    · by_cases h2 : dist2r rnd head q = dist2r rnd head r
      · simp [h2]
      · have : ¬ dist2r rnd head q ≤ dist2r rnd head r := fun hle => h1 (Rat.lt_of_le_of_ne hle h2)
        simp [h1, h2, this]

end Geo.Proofs.TRAN2Hull
