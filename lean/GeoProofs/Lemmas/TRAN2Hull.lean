/-
  Translator tie for geo/src/utils.rs `lex_cmp` and the comparator closure of `graham_hull`
  (geo/src/algorithm/convex_hull/graham.rs): `lexLt` and `grahamLe` of the hand-written model (`GeoModel/Orient.lean`,
  `GeoModel/Hull.lean`) are the regenerated terms (`GeoModel/Gen/HullGen.lean`) read as "less" / "not greater".
-/
import GeoModel.Hull
import GeoModel.Gen.HullGen
import Mathlib.Tactic.Linarith

namespace Geo.Proofs.TRAN2Hull
open Geo Geo.Hull

theorem lexCmp_lt (p q : Pt) : (Gen.lexCmp p q == .lt) = lexLt p q := by
  unfold Gen.lexCmp Gen.partialCmp? Gen.unwrap lexLt
  by_cases hx : p.x < q.x
  · simp [hx, Ordering.then]
  · by_cases hxe : p.x = q.x
    · by_cases hy : p.y < q.y
      · simp [hxe, hy, Ordering.then]
      · by_cases hye : p.y = q.y <;> simp [hxe, hy, hye, Ordering.then]
    · simp [hx, hxe, Ordering.then]

theorem grahamCmp_le (rnd : Rat → Rat) (head q r : Pt) :
    (Gen.grahamCmp (dist2r rnd) head q r != .gt) = grahamLe rnd head q r := by
  unfold Gen.grahamCmp grahamLe Gen.partialCmp? Gen.unwrap
  cases orient q head r
  · rfl
  · rfl
  · simp only
    by_cases h1 : dist2r rnd head q < dist2r rnd head r
    · have : dist2r rnd head q ≤ dist2r rnd head r := Rat.le_of_lt h1
      simp [h1, this]
    · by_cases h2 : dist2r rnd head q = dist2r rnd head r
      · simp [h2]
      · have : ¬ dist2r rnd head q ≤ dist2r rnd head r := fun hle => h1 (Rat.lt_of_le_of_ne hle h2)
        simp [h1, h2, this]

theorem lexCmp_gt (b q : Pt) : (Gen.lexCmp b q == .gt) = lexLt q b := by
  unfold Gen.lexCmp Gen.partialCmp? Gen.unwrap lexLt
  rcases lt_trichotomy b.x q.x with hx | hx | hx
  · have h1 : ¬ q.x < b.x := not_lt.2 (le_of_lt hx)
    have h2 : ¬ q.x = b.x := fun h => absurd hx (by rw [h]; exact lt_irrefl _)
    simp [hx, h1, h2, Ordering.then]
  · rcases lt_trichotomy b.y q.y with hy | hy | hy
    · have h1 : ¬ q.y < b.y := not_lt.2 (le_of_lt hy)
      simp [hx, hy, h1, Ordering.then]
    · simp [hx, hy, Ordering.then]
    · have h1 : ¬ b.y < q.y := not_lt.2 (le_of_lt hy)
      have h2 : ¬ b.y = q.y := fun h => absurd hy (by rw [h]; exact lt_irrefl _)
      simp [hx, hy, h1, h2, Ordering.then]
  · have h1 : ¬ b.x < q.x := not_lt.2 (le_of_lt hx)
    have h2 : ¬ b.x = q.x := fun h => absurd hx (by rw [h]; exact lt_irrefl _)
    simp [hx, h1, h2, Ordering.then]

theorem leastIndexGo_eq (t : List Pt) (i bi : Nat) (b : Pt) :
    (List.foldl (fun (best : Nat × Pt) (y : Nat × Pt) => if lexLt y.2 best.2 = true then y else best) (bi, b)
      ((t.zipIdx i).map (fun q => (q.2, q.1)))).1 = leastIndexGo t i bi b := by
  induction t generalizing i bi b with
  | nil => rfl
  | cons q t ih =>
    simp only [List.zipIdx_cons, List.map_cons, List.foldl_cons, leastIndexGo]
    by_cases h : lexLt q b = true
    · simp only [h, if_true]; exact ih _ _ _
    · simp only [h, Bool.false_eq_true, if_false]; exact ih _ _ _

theorem leastIndex_eq (pts : List Pt) : Gen.leastIndex pts = leastIndex pts := by
  unfold Gen.leastIndex Gen.enumerate
  cases pts with
  | nil => rfl
  | cons p t =>
    simp only [List.zipIdx_cons, List.map_cons, Gen.minBy?, Gen.unwrap, leastIndex, lexCmp_gt]
    exact leastIndexGo_eq t 1 0 p


theorem rev2 (top snd : Pt) (rest : List Pt) :
    (top :: snd :: rest).reverse = rest.reverse ++ [snd, top] := by simp

theorem idx_top (top snd : Pt) (rest : List Pt) :
    Gen.idx (rest.reverse ++ [snd, top]) ((rest.reverse ++ [snd, top]).length - 1) = top := by
  simp [Gen.idx]

theorem idx_snd (top snd : Pt) (rest : List Pt) :
    Gen.idx (rest.reverse ++ [snd, top]) ((rest.reverse ++ [snd, top]).length - 2) = snd := by
  simp [Gen.idx]

theorem dropLast2 (top snd : Pt) (rest : List Pt) :
    (rest.reverse ++ [snd, top]).dropLast = (snd :: rest).reverse := by
  simp [List.dropLast_append_of_ne_nil]

/-- the `while output.len() > 1` loop on the stack `st` (top first; the Vec is `st.reverse`) is `popWhile`, and
`st.length` iterations suffice -/
theorem while_eq (incl : Bool) (pt : Pt) (cond : List Pt → Bool) (body : List Pt → Gen.WStep (List Pt) (Option (List Pt)))
    (hcond : ∀ s, cond s = decide (s.length > 1))
    (hbody : ∀ s, body s = match orient (Gen.idx s (s.length - 2)) (Gen.idx s (s.length - 1)) pt with
      | .ccw => .brk s
      | .cw => .cont s.dropLast
      | .col => if incl then .brk s else .cont s.dropLast) :
    ∀ (st : List Pt) (fuel : Nat), st.length ≤ fuel →
      Gen.whileFuel fuel cond body st.reverse = some (.next (popWhile incl pt st).reverse) := by
  intro st
  induction st with
  | nil => intro fuel _; cases fuel <;> simp [Gen.whileFuel, hcond, popWhile]
  | cons top t ih =>
    intro fuel hf
    cases t with
    | nil => cases fuel <;> simp [Gen.whileFuel, hcond, popWhile]
    | cons snd rest =>
      cases fuel with
      | zero => simp at hf
      | succ n =>
        have hc : cond (top :: snd :: rest).reverse = true := by simp [hcond]
        rw [Gen.whileFuel, hc, if_pos rfl, hbody, rev2, idx_top, idx_snd, dropLast2, popWhile]
        have hn : (snd :: rest).length ≤ n := by simpa using hf
        cases orient snd top pt with
        | ccw => simp
        | cw => simpa using ih n hn
        | col =>
          cases incl
          · simpa using ih n hn
          · simp

theorem popWhile_ne_nil (incl : Bool) (pt : Pt) : ∀ st : List Pt, st ≠ [] → popWhile incl pt st ≠ [] := by
  intro st
  induction st with
  | nil => intro h; exact absurd rfl h
  | cons top t ih =>
    intro _
    cases t with
    | nil => simp [popWhile]
    | cons snd rest =>
      rw [popWhile]
      cases orient snd top pt with
      | ccw => simp
      | cw => exact ih (by simp)
      | col => cases incl <;> simp [ih]

/-- the body of `for pt in points.iter()` of `graham_hull` on a non-empty stack (the Vec is the reversed stack) -/
theorem grahamLoopBody_eq (incl : Bool) (st : List Pt) (pt : Pt) (hne : st ≠ []) :
    Gen.grahamLoopBody incl st.reverse pt = some ((grahamStep incl st pt).reverse) := by
  unfold Gen.grahamLoopBody
  simp only [List.length_reverse]
  rw [while_eq incl pt _ _ ?_ ?_ st st.length (le_refl _)]
  rotate_left
  · intro s; rfl
  · intro s; rfl
  have hp := popWhile_ne_nil incl pt st hne
  unfold grahamStep
  cases hq : popWhile incl pt st with
  | nil => exact absurd hq hp
  | cons a r =>
    simp only [List.getLast?_reverse, List.head?_cons, Gen.unwrap, id]
    have hb : (some a != some pt) = (pt != a) := by
      by_cases e : a = pt
      · subst e; simp
      · have e' : ¬ pt = a := fun h => e h.symm
        have h1 : (some a != some pt) = true := by simp [e]
        have h2 : (pt != a) = true := by simp [e']
        rw [h1, h2]
    simp only [hb]
    by_cases h : (incl || pt != a) = true
    · simp only [h, if_true, List.reverse_cons]
    · simp only [h, if_false, Bool.false_eq_true]

end Geo.Proofs.TRAN2Hull
