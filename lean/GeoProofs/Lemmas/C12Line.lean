/-
  GeoProofs.Lemmas.C12Line — the `Line` kernel of `closest_point`: the clamped projection is on the
  segment, is the minimiser of the squared distance over the segment, and is reported as
  `Intersection` exactly when the query point is on the segment.
-/
import GeoModel.Closest
import GeoProofs.Lemmas.SegmentSpec
import Mathlib.Tactic.Linarith
import Mathlib.Tactic.Ring
import Mathlib.Tactic.FieldSimp
import Mathlib.Tactic.Positivity
import Mathlib.Tactic.NormNum

namespace Geo.Proofs.C12
open Geo Geo.CP Geo.Proofs.Kernel

/-- What a `Closest` value must satisfy w.r.t. a *hit* condition `H` ("the query point intersects")
and a candidate *locus* `L` (the points among which the nearest one is sought). -/
def Spec (p : Pt) (H : Prop) (L : Pt → Prop) : Closest → Prop
  | .intersection x => x = p ∧ H
  | .single x => L x ∧ ¬ H ∧ ∀ q, L q → dist2 x p ≤ dist2 q p
  | .indeterminate => ¬ H ∧ ∀ q, ¬ L q

/-- the point set of a non-degenerate segment -/
def OnSeg (a b : Pt) (q : Pt) : Prop := a ≠ b ∧ SegMem q a b

@[simp] theorem sub_x (a b : Pt) : (a - b).x = a.x - b.x := rfl
@[simp] theorem sub_y (a b : Pt) : (a - b).y = a.y - b.y := rfl

theorem dot_self_pos {a b : Pt} (h : a ≠ b) : 0 < dot (b - a) (b - a) := by
  simp only [dot, sub_x, sub_y]
  have hne : b.x - a.x ≠ 0 ∨ b.y - a.y ≠ 0 := by
    by_contra hc
    push Not at hc
    apply h
    apply Pt.ext'
    · linarith [hc.1]
    · linarith [hc.2]
  rcases hne with hx | hy
  · have := mul_self_pos.2 hx
    nlinarith [mul_self_nonneg (b.y - a.y)]
  · have := mul_self_pos.2 hy
    nlinarith [mul_self_nonneg (b.x - a.x)]

/-- `t · |d|² = (p − a)·d` -/
theorem lineParam_mul {a b : Pt} (h : a ≠ b) (p : Pt) :
    lineParam a b p * dot (b - a) (b - a) = dot (p - a) (b - a) := by
  unfold lineParam
  have := dot_self_pos h
  field_simp

/-- a point of the segment with parameter `s` has projection parameter `s` -/
theorem lineParam_of_param {a b p : Pt} (h : a ≠ b) {s : Rat}
    (hx : p.x = a.x + s * (b.x - a.x)) (hy : p.y = a.y + s * (b.y - a.y)) :
    lineParam a b p = s := by
  have hD := dot_self_pos h
  have hm := lineParam_mul h p
  have : dot (p - a) (b - a) = s * dot (b - a) (b - a) := by
    simp only [dot, sub_x, sub_y, hx, hy]; ring
  rw [this] at hm
  exact mul_right_cancel₀ (ne_of_gt hD) hm

/-- squared distance from a point of the supporting line (parameter `s`) to `p`, relative to the
one of the projection (parameter `t`) -/
theorem dist2_param {a b p : Pt} (h : a ≠ b) (s : Rat) :
    dist2 (lineAt a b s) p =
      dist2 (lineAt a b (lineParam a b p)) p + (s - lineParam a b p) ^ 2 * dot (b - a) (b - a) := by
  have hm := lineParam_mul h p
  simp only [dot, sub_x, sub_y] at hm
  simp only [dist2, lineAt, dot, sub_x, sub_y]
  generalize lineParam a b p = t at hm
  have e : ∀ u : Rat, (a.x + u * (b.x - a.x) - p.x) * (a.x + u * (b.x - a.x) - p.x) +
      (a.y + u * (b.y - a.y) - p.y) * (a.y + u * (b.y - a.y) - p.y) =
      (a.x - p.x) ^ 2 + (a.y - p.y) ^ 2
        - 2 * u * ((p.x - a.x) * (b.x - a.x) + (p.y - a.y) * (b.y - a.y))
        + u ^ 2 * ((b.x - a.x) * (b.x - a.x) + (b.y - a.y) * (b.y - a.y)) := by
    intro u; ring
  rw [e s, e t, ← hm]; ring

theorem segMem_lineAt {a b : Pt} {t : Rat} (h0 : 0 ≤ t) (h1 : t ≤ 1) : SegMem (lineAt a b t) a b :=
  ⟨t, h0, h1, rfl, rfl⟩

theorem lineAt_of_segMem {a b q : Pt} (hq : SegMem q a b) : ∃ s, 0 ≤ s ∧ s ≤ 1 ∧ q = lineAt a b s := by
  rcases hq with ⟨s, h0, h1, hx, hy⟩
  exact ⟨s, h0, h1, Pt.ext' hx hy⟩

theorem lineAt_zero (a b : Pt) : lineAt a b 0 = a := by
  apply Pt.ext' <;> simp [lineAt]

theorem lineAt_one (a b : Pt) : lineAt a b 1 = b := by
  apply Pt.ext' <;> simp [lineAt]

/-- [T] `line_closest_spec`: the `Line` impl, for every segment and every query point: zero length ⇒
`Indeterminate`; otherwise the answer is a point of the segment at minimal squared distance among
all points of the segment, and it is `Intersection(p)` exactly when `p` is on the segment. -/
theorem line_closest_spec (a b p : Pt) : Spec p (OnSeg a b p) (OnSeg a b) (lineClosest a b p) := by
  unfold lineClosest
  by_cases hab : a = b
  · simp only [hab, if_true, Spec, OnSeg]
    exact ⟨fun h => h.1 rfl, fun q h => h.1 rfl⟩
  · simp only [hab, if_false]
    have hD := dot_self_pos hab
    have notOn : ∀ {t : Rat}, lineParam a b p = t → (t < 0 ∨ 1 < t) → ¬ OnSeg a b p := by
      intro t ht hlt hon
      rcases hon.2 with ⟨s, h0, h1, hx, hy⟩
      have := lineParam_of_param hab hx hy
      rcases hlt with h | h <;> linarith
    by_cases ht0 : lineParam a b p < 0
    · simp only [ht0, if_true, Spec]
      refine ⟨⟨hab, SegMem_left a b⟩, notOn rfl (Or.inl ht0), ?_⟩
      intro q hq
      rcases lineAt_of_segMem hq.2 with ⟨s, h0, h1, rfl⟩
      have e0 := dist2_param hab (p := p) 0
      have es := dist2_param hab (p := p) s
      rw [lineAt_zero] at e0
      rw [e0, es]
      nlinarith [mul_nonneg h0 hD.le, mul_nonneg (mul_nonneg h0 (neg_nonneg.2 ht0.le)) hD.le,
        mul_nonneg (mul_self_nonneg s) hD.le]
    · simp only [ht0, if_false]
      by_cases ht1 : lineParam a b p > 1
      · simp only [ht1, if_true, Spec]
        refine ⟨⟨hab, SegMem_right a b⟩, notOn rfl (Or.inr ht1), ?_⟩
        intro q hq
        rcases lineAt_of_segMem hq.2 with ⟨s, h0, h1, rfl⟩
        have e1 := dist2_param hab (p := p) 1
        have es := dist2_param hab (p := p) s
        rw [lineAt_one] at e1
        rw [e1, es]
        have hts : 0 ≤ (1 - s) * (lineParam a b p - 1) := mul_nonneg (by linarith) (by linarith)
        nlinarith [mul_nonneg hts hD.le, mul_nonneg (mul_self_nonneg (1 - s)) hD.le]
      · simp only [ht1, if_false]
        have h0 : 0 ≤ lineParam a b p := not_lt.1 ht0
        have h1 : lineParam a b p ≤ 1 := not_lt.1 ht1
        have hmin : ∀ q, OnSeg a b q → dist2 (lineAt a b (lineParam a b p)) p ≤ dist2 q p := by
          intro q hq
          rcases lineAt_of_segMem hq.2 with ⟨s, _, _, rfl⟩
          rw [dist2_param hab (p := p) s]
          nlinarith [mul_nonneg (sq_nonneg (s - lineParam a b p)) hD.le]
        by_cases hon : lineCoord a b p = true
        · simp only [hon, if_true, Spec]
          have hm := (lineCoord_iff a b p).1 hon
          rcases hm with ⟨s, hs0, hs1, hx, hy⟩
          have := lineParam_of_param hab hx hy
          refine ⟨?_, hab, ⟨s, hs0, hs1, hx, hy⟩⟩
          rw [this]
          exact (Pt.ext' hx hy).symm
        · simp only [hon, Spec]
          refine ⟨⟨hab, segMem_lineAt h0 h1⟩, ?_, hmin⟩
          intro h
          exact hon ((lineCoord_iff a b p).2 h.2)

end Geo.Proofs.C12
