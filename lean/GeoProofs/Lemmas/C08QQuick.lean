/-
  C08 helper lemmas — the slice permuted by `quick_hull` loses no coordinate (the converse of
  `quickHullRaw_subset`), so the Graham fallback of `quick_hull` sees exactly the input coordinates;
  the checker and `hasTriangle` only depend on the set of coordinates.
-/
import GeoModel.Hull
import GeoProofs.Lemmas.C08Mem
import GeoProofs.Lemmas.C08QHull

namespace Geo.Proofs.C08
open Geo Geo.Hull

theorem partitionSlice_cover (pred : Pt → Bool) (fuel : Nat) :
    ∀ xs : List Pt, ∀ x ∈ xs,
      x ∈ (partitionSlice pred fuel xs).1 ∨ x ∈ (partitionSlice pred fuel xs).2 := by
  induction fuel with
  | zero => intro xs x h; right; simpa [partitionSlice] using h
  | succ n ih =>
    intro xs x hx
    have hsplit : xs.takeWhile pred ++ xs.dropWhile pred = xs := List.takeWhile_append_dropWhile
    have hrr : (xs.dropWhile pred).reverse.takeWhile (fun p => !pred p) ++
        (xs.dropWhile pred).reverse.dropWhile (fun p => !pred p) = (xs.dropWhile pred).reverse :=
      List.takeWhile_append_dropWhile
    have hrest : xs.dropWhile pred =
        ((xs.dropWhile pred).reverse.dropWhile (fun p => !pred p)).reverse ++
          ((xs.dropWhile pred).reverse.takeWhile (fun p => !pred p)).reverse := by
      have := congrArg List.reverse hrr
      rw [List.reverse_append, List.reverse_reverse] at this
      exact this.symm
    rw [← hsplit] at hx
    simp only [partitionSlice]
    rcases List.mem_append.1 hx with hpre | hre
    · split
      · exact Or.inl hpre
      · split
        · exact Or.inl hpre
        · exact Or.inl (List.mem_append_left _ hpre)
    · split
      · exact Or.inr hre
      · rename_i f body' hb
        split
        · exact Or.inr hre
        · rename_i t innerRev hrev
          have hb' : body' = innerRev.reverse ++ [t] := by
            have := congrArg List.reverse hrev
            simpa using this
          rw [hrest, hb, hb'] at hre
          rcases List.mem_append.1 hre with h | h
          · rcases List.mem_cons.1 h with h | h
            · right; subst h; simp
            · rcases List.mem_append.1 h with h | h
              · rcases ih _ x h with h' | h'
                · left; simp [h']
                · right; simp [h']
              · left; simp at h; subst h; simp
          · right; simp [h]

theorem partition_cover (pred : Pt → Bool) (xs : List Pt) :
    ∀ x ∈ xs, x ∈ (partition pred xs).1 ∨ x ∈ (partition pred xs).2 :=
  partitionSlice_cover pred _ xs

/-- `hull_set` leaves a slice with all the coordinates it was given -/
theorem hullSet_cover (rnd : Rat → Rat) (fuel : Nat) : ∀ (a b : Pt) (set : List Pt),
    ∀ x ∈ set, x ∈ (hullSet rnd fuel a b set).1 := by
  induction fuel with
  | zero => intro a b set x hx; simpa [hullSet] using hx
  | succ n ih =>
    intro a b set x hx
    unfold hullSet
    split
    · simp at hx
    · exact hx
    · dsimp only
      have hc := swapRemove_cover set (argmaxLast (set.map (score rnd a b))) x hx
      generalize swapRemove set (argmaxLast (set.map (score rnd a b))) = sr at *
      have hp1 := partition_cover (isCcw sr.1 b) sr.2
      generalize partition (isCcw sr.1 b) sr.2 = p1 at *
      have ih1 := ih sr.1 b p1.1
      generalize hullSet rnd n sr.1 b p1.1 = r1 at *
      have hp2 := partition_cover (isCcw a sr.1) (r1.1 ++ p1.2)
      generalize partition (isCcw a sr.1) (r1.1 ++ p1.2) = p2 at *
      have ih2 := ih a sr.1 p2.1
      generalize hullSet rnd n a sr.1 p2.1 = r2 at *
      rcases hc with h | h
      · simp [h]
      · have hmid : x ∈ r1.1 ++ p1.2 := by
          rcases hp1 x h with h' | h'
          · exact List.mem_append_left _ (ih1 x h')
          · exact List.mem_append_right _ h'
        rcases hp2 x hmid with h' | h'
        · exact List.mem_cons_of_mem _ (List.mem_append_left _ (ih2 x h'))
        · exact List.mem_cons_of_mem _ (List.mem_append_right _ h')

/-- the slice as permuted by `quick_hull` contains every input coordinate -/
theorem quickHullRaw_cover (rnd : Rat → Rat) (pts : List Pt) :
    ∀ x ∈ pts, x ∈ (quickHullRaw rnd pts).1 := by
  intro x hx
  unfold quickHullRaw
  dsimp only
  have hc1 := swapRemove_cover pts (leastGreatest pts).1 x hx
  generalize swapRemove pts (leastGreatest pts).1 = s1 at *
  have hc2 := swapRemove_cover s1.2
    ((if (leastGreatest pts).2 = 0 then (leastGreatest pts).1 else (leastGreatest pts).2) - 1)
  generalize swapRemove s1.2
    ((if (leastGreatest pts).2 = 0 then (leastGreatest pts).1 else (leastGreatest pts).2) - 1) = s2 at *
  have hp1 := partition_cover (isCcw s2.1 s1.1) s2.2
  generalize partition (isCcw s2.1 s1.1) s2.2 = p1 at *
  have ih1 := hullSet_cover rnd p1.1.length s2.1 s1.1 p1.1
  generalize hullSet rnd p1.1.length s2.1 s1.1 p1.1 = r1 at *
  have hp2 := partition_cover (isCcw s1.1 s2.1) (r1.1 ++ p1.2)
  generalize partition (isCcw s1.1 s2.1) (r1.1 ++ p1.2) = p2 at *
  have ih2 := hullSet_cover rnd p2.1.length s1.1 s2.1 p2.1
  generalize hullSet rnd p2.1.length s1.1 s2.1 p2.1 = r2 at *
  rcases hc1 with h | h
  · simp [h]
  · rcases hc2 x h with h | h
    · simp [h]
    · have hmid : x ∈ r1.1 ++ p1.2 := by
        rcases hp1 x h with h' | h'
        · exact List.mem_append_left _ (ih1 x h')
        · exact List.mem_append_right _ h'
      rcases hp2 x hmid with h' | h'
      · exact List.mem_cons_of_mem _ (List.mem_cons_of_mem _ (List.mem_append_left _ (ih2 x h')))
      · exact List.mem_cons_of_mem _ (List.mem_cons_of_mem _ (List.mem_append_right _ h'))

/-- the checker only depends on the set of input coordinates -/
theorem isStrictHull_congr (h pts pts' : List Pt) (hm : ∀ x, x ∈ pts ↔ x ∈ pts') :
    isStrictHull h pts = isStrictHull h pts' := by
  unfold isStrictHull
  have h1 : (h.all fun v => pts.contains v) = (h.all fun v => pts'.contains v) := by
    rw [Bool.eq_iff_iff]
    simp only [List.all_eq_true, List.contains_eq_mem, decide_eq_true_eq]
    exact ⟨fun hh v hv => (hm v).1 (hh v hv), fun hh v hv => (hm v).2 (hh v hv)⟩
  have h2 : (pts.all fun p => (edges h).all fun e => decide (cross e.1 e.2 p ≥ 0)) =
      (pts'.all fun p => (edges h).all fun e => decide (cross e.1 e.2 p ≥ 0)) := by
    rw [Bool.eq_iff_iff]
    simp only [List.all_eq_true]
    exact ⟨fun hh p hp => hh p ((hm p).2 hp), fun hh p hp => hh p ((hm p).1 hp)⟩
  rw [h1, h2]

theorem hasTriangle_congr (pts pts' : List Pt) (hm : ∀ x, x ∈ pts ↔ x ∈ pts') :
    hasTriangle pts = hasTriangle pts' := by
  unfold hasTriangle
  rw [Bool.eq_iff_iff]
  simp only [List.any_eq_true]
  constructor
  · rintro ⟨a, ha, b, hb, c, hc, h⟩
    exact ⟨a, (hm a).1 ha, b, (hm b).1 hb, c, (hm c).1 hc, h⟩
  · rintro ⟨a, ha, b, hb, c, hc, h⟩
    exact ⟨a, (hm a).2 ha, b, (hm b).2 hb, c, (hm c).2 hc, h⟩

end Geo.Proofs.C08
