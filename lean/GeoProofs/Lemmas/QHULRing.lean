/-
  C08 helper lemmas (quick-hull) — what `is_strict_ccw_hull` establishes, on lists.

  The vertex list `v` of a ring is read as the periodic sequence `cyc v`. From the two tests of
  `isStrictCcwHull` (every cyclic triple turns strictly left; the lexicographic direction of the
  edges changes exactly twice going around) the hypotheses of `two_runs_convex` (QHULCyc.lean) are
  derived, hence: **every vertex of an accepted ring is left of or on every edge of it.**
-/
import GeoModel.Hull
import GeoProofs.Lemmas.C08QSort
import GeoProofs.Lemmas.C08QHull
import GeoProofs.Lemmas.QHULCyc

namespace Geo.Proofs.C08
open Geo Geo.Hull

/-! ### the flags: a cyclic Boolean sequence with exactly two changes is two runs -/

theorem cc_cons (a b : Bool) (t : List Bool) :
    countChanges (a :: b :: t) = (if a != b then 1 else 0) + countChanges (b :: t) := rfl

theorem cc_zero : ∀ (l : List Bool) (x : Bool), countChanges (x :: l ++ [x]) = 0 →
    ∀ k, k < l.length → l[k]? = some x
  | [], _, _, k, hk => by simp at hk
  | z :: t, x, h, k, hk => by
    rw [List.cons_append, List.cons_append, cc_cons] at h
    have hz : z = x := by
      by_contra hne
      have : (x != z) = true := by cases x <;> cases z <;> simp at hne ⊢
      rw [this] at h
      simp at h
    subst hz
    have h' : countChanges (z :: t ++ [z]) = 0 := by
      rw [List.cons_append]; omega
    cases k with
    | zero => simp
    | succ k =>
      have := cc_zero t z h' k (by simpa using hk)
      simpa using this

theorem cc_one : ∀ (l : List Bool) (x : Bool), countChanges ((!x) :: l ++ [x]) = 1 →
    ∃ b, b ≤ l.length ∧ (∀ k, k < b → l[k]? = some (!x)) ∧
      (∀ k, b ≤ k → k < l.length → l[k]? = some x)
  | [], _, _ => ⟨0, by simp, by intro k hk; omega, by intro k _ hk; simp at hk⟩
  | z :: t, x, h => by
    rw [List.cons_append, List.cons_append, cc_cons] at h
    by_cases hz : z = x
    · subst hz
      have h1 : ((!z) != z) = true := by cases z <;> rfl
      rw [h1] at h
      have h' : countChanges (z :: t ++ [z]) = 0 := by
        rw [List.cons_append]; simp only [if_true] at h; omega
      have hall := cc_zero t z h'
      refine ⟨0, by simp, by intro k hk; omega, ?_⟩
      intro k _ hk
      cases k with
      | zero => simp
      | succ k => simpa using hall k (by simpa using hk)
    · have hz' : z = !x := by cases x <;> cases z <;> simp at hz ⊢
      subst hz'
      have h1 : ((!x) != (!x)) = false := by cases x <;> rfl
      rw [h1] at h
      have h' : countChanges ((!x) :: t ++ [x]) = 1 := by
        rw [List.cons_append]; simpa using h
      obtain ⟨b, hb, h1', h2'⟩ := cc_one t x h'
      refine ⟨b + 1, by simpa using hb, ?_, ?_⟩
      · intro k hk
        cases k with
        | zero => simp
        | succ k => simpa using h1' k (by omega)
      · intro k hk hkl
        cases k with
        | zero => omega
        | succ k => simpa using h2' k (by omega) (by simpa using hkl)

theorem cc_two : ∀ (l : List Bool) (x : Bool), countChanges (x :: l ++ [x]) = 2 →
    ∃ a b, 0 < b ∧ a + b ≤ l.length ∧ (∀ k, k < a → l[k]? = some x) ∧
      (∀ k, a ≤ k → k < a + b → l[k]? = some (!x)) ∧
      (∀ k, a + b ≤ k → k < l.length → l[k]? = some x)
  | [], x, h => by
    exfalso
    have : countChanges [x, x] = 0 := by cases x <;> rfl
    simp only [List.cons_append, List.nil_append] at h
    omega
  | z :: t, x, h => by
    rw [List.cons_append, List.cons_append, cc_cons] at h
    by_cases hz : z = x
    · subst hz
      have h1 : (z != z) = false := by cases z <;> rfl
      rw [h1] at h
      have h' : countChanges (z :: t ++ [z]) = 2 := by
        rw [List.cons_append]; simpa using h
      obtain ⟨a, b, hb, hab, r1, r2, r3⟩ := cc_two t z h'
      refine ⟨a + 1, b, hb, by simp only [List.length_cons]; omega, ?_, ?_, ?_⟩
      · intro k hk
        cases k with
        | zero => simp
        | succ k => simpa using r1 k (by omega)
      · intro k hk hkl
        cases k with
        | zero => omega
        | succ k => simpa using r2 k (by omega) (by omega)
      · intro k hk hkl
        cases k with
        | zero => omega
        | succ k => simpa using r3 k (by omega) (by simpa using hkl)
    · have hz' : z = !x := by cases x <;> cases z <;> simp at hz ⊢
      subst hz'
      have h1 : (x != (!x)) = true := by cases x <;> rfl
      rw [h1] at h
      have h' : countChanges ((!x) :: t ++ [x]) = 1 := by
        rw [List.cons_append]; simp only [if_true] at h; omega
      obtain ⟨b, hb, r1, r2⟩ := cc_one t x h'
      refine ⟨0, b + 1, by omega, by simp only [List.length_cons]; omega, by intro k hk; omega, ?_, ?_⟩
      · intro k _ hkl
        cases k with
        | zero => simp
        | succ k => simpa using r1 k (by omega)
      · intro k hk hkl
        cases k with
        | zero => omega
        | succ k => simpa using r2 k (by omega) (by simpa using hkl)

/-! ### the vertex list as a periodic sequence -/

def cyc (v : List Pt) (k : Nat) : Pt := v.getD (k % v.length) default

theorem cyc_per (v : List Pt) (k : Nat) : cyc v (k + v.length) = cyc v k := by
  unfold cyc; rw [Nat.add_mod_right]

theorem cyc_lt (v : List Pt) (k : Nat) (h : k < v.length) : v[k]? = some (cyc v k) := by
  unfold cyc
  rw [Nat.mod_eq_of_lt h, List.getD_eq_getElem?_getD, List.getElem?_eq_getElem h]
  rfl

theorem cyc_succ_mod (v : List Pt) (k c : Nat) : cyc v (k % v.length + c) = cyc v (k + c) := by
  unfold cyc; rw [Nat.mod_add_mod]

/-- `v ++ v.take j` lists `cyc v 0 … cyc v (n + j - 1)` -/
theorem cyc_append_take (v : List Pt) (j : Nat) (hj : j ≤ v.length) (k : Nat)
    (hk : k < v.length + j) : (v ++ v.take j)[k]? = some (cyc v k) := by
  by_cases hlt : k < v.length
  · rw [List.getElem?_append_left hlt]; exact cyc_lt v k hlt
  · have hge : v.length ≤ k := not_lt.1 hlt
    rw [List.getElem?_append_right hge, List.getElem?_take, if_pos (by omega),
      cyc_lt v _ (by omega)]
    have := cyc_per v (k - v.length)
    rw [show k - v.length + v.length = k by omega] at this
    rw [this]

theorem triplesCcw_get' (l : List Pt) (h : triplesCcw l = true) :
    ∀ (i : Nat) (a b c : Pt), l[i]? = some a → l[i + 1]? = some b → l[i + 2]? = some c →
      0 < cross a b c := by
  induction l with
  | nil => intro i a b c ha; simp at ha
  | cons x t ih =>
    intro i a b c ha hb hc
    cases t with
    | nil => simp at hb
    | cons y u =>
      cases u with
      | nil => simp at hc
      | cons z w =>
        simp only [triplesCcw, Bool.and_eq_true, beq_iff_eq] at h
        cases i with
        | zero =>
          simp at ha hb hc
          subst ha hb hc
          exact (orient_ccw_iff' _ _ _).1 h.1
        | succ j =>
          exact ih h.2 j a b c (by simpa using ha) (by simpa using hb) (by simpa using hc)

/-- the turn test of `isStrictCcwHull`, for the periodic sequence -/
theorem cyc_turn (v : List Pt) (h : cycTriplesCcw v = true) :
    2 ≤ v.length ∧ ∀ k, 0 < cD (cyc v) k (k + 1) := by
  unfold cycTriplesCcw at h
  simp only [Bool.and_eq_true, decide_eq_true_eq] at h
  refine ⟨h.1, ?_⟩
  intro k
  rw [cD_turn]
  have hn : 0 < v.length := by omega
  have hk := Nat.mod_lt k hn
  have e0 : cyc v (k % v.length) = cyc v k := by simpa using cyc_succ_mod v k 0
  rw [← e0, ← cyc_succ_mod v k 1, show k + 1 + 1 = k + 2 by rfl, ← cyc_succ_mod v k 2]
  exact triplesCcw_get' _ h.2 (k % v.length) _ _ _
    (cyc_append_take v 2 h.1 _ (by omega)) (cyc_append_take v 2 h.1 _ (by omega))
    (cyc_append_take v 2 h.1 _ (by omega))

/-- a ring whose cyclic triples all turn strictly left has at least three vertices -/
theorem cyc_turn_three (v : List Pt) (h : cycTriplesCcw v = true) : 3 ≤ v.length := by
  obtain ⟨h2, ht⟩ := cyc_turn v h
  by_contra hlt
  have hn : v.length = 2 := by omega
  have := ht 0
  rw [cD_turn] at this
  have e : cyc v (0 + 1 + 1) = cyc v 0 := by
    have := cyc_per v 0
    rw [hn] at this
    exact this
  rw [e, cross_self_outer] at this
  exact lt_irrefl _ this

/-! ### edges by index -/

theorem edges_get : ∀ (L : List Pt) (k : Nat) (a b : Pt), L[k]? = some a → L[k + 1]? = some b →
    (edges L)[k]? = some (a, b)
  | [], _, _, _, h, _ => by simp at h
  | [_], _, _, _, _, h => by simp at h
  | x :: y :: t, k, a, b, ha, hb => by
    cases k with
    | zero =>
      simp at ha hb
      subst ha hb
      simp [edges]
    | succ k =>
      simp only [edges, List.getElem?_cons_succ]
      exact edges_get (y :: t) k a b (by simpa using ha) (by simpa using hb)

theorem edges_length : ∀ L : List Pt, (edges L).length = L.length - 1
  | [] => rfl
  | [_] => rfl
  | _ :: y :: t => by
    simp only [edges, List.length_cons]
    rw [edges_length (y :: t)]
    simp

theorem edges_mem_get (L : List Pt) (e : Pt × Pt) (h : e ∈ edges L) :
    ∃ k, L[k]? = some e.1 ∧ L[k + 1]? = some e.2 := by
  obtain ⟨L1, L2, hL⟩ := mem_edges_split L e h
  refine ⟨L1.length, ?_, ?_⟩
  · rw [hL]; simp
  · rw [hL, List.getElem?_append_right (by omega)]; simp

/-! ### directions -/

/-- `1` for a lexicographically increasing edge, `-1` for a decreasing one -/
def sgOf (f : Bool) : Rat := if f then 1 else -1

theorem sgOf_sq (f : Bool) : sgOf f * sgOf f = 1 := by cases f <;> simp [sgOf]

theorem sgOf_not (f : Bool) : sgOf (!f) = - sgOf f := by cases f <;> simp [sgOf]

theorem flag_dir (p : Nat → Pt) (k : Nat) (hne : p k ≠ p (k + 1)) :
    HP (sgOf (lexLt (p k) (p (k + 1))) * dX p k) (sgOf (lexLt (p k) (p (k + 1))) * dY p k) := by
  cases hf : lexLt (p k) (p (k + 1)) with
  | true =>
    have := (inH_iff_lexLt _ _).2 hf
    unfold InH at this
    simpa [sgOf, dX, dY] using this
  | false =>
    have hgt : lexLt (p (k + 1)) (p k) = true := by
      rcases lexLt_tricho (p k) (p (k + 1)) (by rw [hf]; exact Bool.false_ne_true) with h | h
      · exact absurd h hne
      · exact h
    have := (inH_iff_lexLt _ _).2 hgt
    unfold InH at this
    have e1 : sgOf false * dX p k = (p k).x - (p (k + 1)).x := by unfold sgOf dX; simp
    have e2 : sgOf false * dY p k = (p k).y - (p (k + 1)).y := by unfold sgOf dY; simp
    rw [e1, e2]; exact this

theorem cD_shift (p : Nat → Pt) (b i s : Nat) :
    cD (fun k => p (k + b)) i s = cD p (i + b) (s + b) := by
  unfold cD; rw [dX_shift, dY_shift, dX_shift, dY_shift]

/-! ### the theorem -/

/-- the flags of `isStrictCcwHull` -/
def upFlags (v : List Pt) : List Bool := (edges (v ++ v.take 1)).map (fun e => lexLt e.1 e.2)

theorem upFlags_get (v : List Pt) (hn : 1 ≤ v.length) (k : Nat) (hk : k < v.length) :
    (upFlags v)[k]? = some (lexLt (cyc v k) (cyc v (k + 1))) := by
  unfold upFlags
  rw [List.getElem?_map, edges_get _ k _ _ (cyc_append_take v 1 hn k (by omega))
    (cyc_append_take v 1 hn (k + 1) (by omega))]
  rfl

theorem upFlags_length (v : List Pt) (hn : 1 ≤ v.length) : (upFlags v).length = v.length := by
  unfold upFlags
  rw [List.length_map, edges_length, List.length_append, List.length_take]
  omega

/-- **strictly left turns + two direction changes ⇒ convex**, for the periodic vertex sequence -/
theorem strictCcw_convex_cyc (v : List Pt) (h1 : cycTriplesCcw v = true)
    (h2 : countChanges (upFlags v ++ (upFlags v).take 1) = 2) :
    ∀ i j, 0 ≤ cross (cyc v i) (cyc v (i + 1)) (cyc v j) := by
  obtain ⟨hn2, hturn⟩ := cyc_turn v h1
  have hn1 : 1 ≤ v.length := by omega
  have hne : ∀ k, cyc v k ≠ cyc v (k + 1) := by
    intro k he
    have := hturn k
    rw [cD_turn, he, cross_self_left] at this
    exact lt_irrefl _ this
  have hper := cyc_per v
  have hlen := upFlags_length v hn1
  have hget := upFlags_get v hn1
  -- split the flags into head and tail
  generalize hu : upFlags v = ups at h2 hlen hget
  match ups, hlen with
  | [], hlen => simp at hlen; omega
  | x :: l, hlen =>
    have h2' : countChanges (x :: l ++ [x]) = 2 := by simpa using h2
    obtain ⟨a, b, hb, hab, r1, r2, r3⟩ := cc_two l x h2'
    have hl : l.length + 1 = v.length := by simpa using hlen
    -- flags by index
    have f1 : ∀ k, k < a + 1 → lexLt (cyc v k) (cyc v (k + 1)) = x := by
      intro k hk
      have := hget k (by omega)
      cases k with
      | zero => simpa using this.symm
      | succ k =>
        rw [List.getElem?_cons_succ, r1 k (by omega)] at this
        exact (Option.some.inj this).symm
    have f2 : ∀ k, a + 1 ≤ k → k < a + 1 + b → lexLt (cyc v k) (cyc v (k + 1)) = !x := by
      intro k hk hk2
      have := hget k (by omega)
      obtain ⟨k', rfl⟩ : ∃ k', k = k' + 1 := ⟨k - 1, by omega⟩
      rw [List.getElem?_cons_succ, r2 k' (by omega) (by omega)] at this
      exact (Option.some.inj this).symm
    have f3 : ∀ k, a + 1 + b ≤ k → k < v.length → lexLt (cyc v k) (cyc v (k + 1)) = x := by
      intro k hk hk2
      have := hget k hk2
      obtain ⟨k', rfl⟩ : ∃ k', k = k' + 1 := ⟨k - 1, by omega⟩
      rw [List.getElem?_cons_succ, r3 k' (by omega) (by omega)] at this
      exact (Option.some.inj this).symm
    -- shift so that the `!x` run comes first
    let q : Nat → Pt := fun k => cyc v (k + (a + 1))
    have hperq : ∀ k, q (k + v.length) = q k := by
      intro k
      show cyc v (k + v.length + (a + 1)) = cyc v (k + (a + 1))
      rw [show k + v.length + (a + 1) = k + (a + 1) + v.length by omega, hper]
    have hturnq : ∀ k, 0 < cD q k (k + 1) := by
      intro k
      rw [cD_shift, show k + 1 + (a + 1) = k + (a + 1) + 1 by omega]
      exact hturn _
    have h1q : ∀ k, k < b → HP (sgOf (!x) * dX q k) (sgOf (!x) * dY q k) := by
      intro k hk
      rw [dX_shift, dY_shift]
      have := flag_dir (cyc v) (k + (a + 1)) (hne _)
      rwa [f2 _ (by omega) (by omega)] at this
    have h2q : ∀ k, b ≤ k → k < v.length → HP (-sgOf (!x) * dX q k) (-sgOf (!x) * dY q k) := by
      intro k hk hkn
      rw [dX_shift, dY_shift, sgOf_not, neg_neg]
      by_cases hw : k + (a + 1) < v.length
      · have := flag_dir (cyc v) (k + (a + 1)) (hne _)
        rwa [f3 _ (by omega) hw] at this
      · rw [show k + (a + 1) = (k + (a + 1) - v.length) + v.length by omega, dX_per _ _ hper,
          dY_per _ _ hper]
        have := flag_dir (cyc v) (k + (a + 1) - v.length) (hne _)
        rwa [f1 _ (by omega)] at this
    have key := two_runs_convex q v.length b (sgOf (!x)) (sgOf_sq _) hb (by omega) hperq hturnq h1q h2q
    intro i j
    have := key (i + (v.length - (a + 1))) (j + (v.length - (a + 1)))
    have e0 : q (i + (v.length - (a + 1))) = cyc v i := by
      show cyc v (i + (v.length - (a + 1)) + (a + 1)) = cyc v i
      rw [show i + (v.length - (a + 1)) + (a + 1) = i + v.length by omega, hper]
    have e1 : q (i + (v.length - (a + 1)) + 1) = cyc v (i + 1) := by
      show cyc v (i + (v.length - (a + 1)) + 1 + (a + 1)) = cyc v (i + 1)
      rw [show i + (v.length - (a + 1)) + 1 + (a + 1) = i + 1 + v.length by omega, hper]
    have e2 : q (j + (v.length - (a + 1))) = cyc v j := by
      show cyc v (j + (v.length - (a + 1)) + (a + 1)) = cyc v j
      rw [show j + (v.length - (a + 1)) + (a + 1) = j + v.length by omega, hper]
    rwa [e0, e1, e2] at this

/-- a closed ring is its vertex list followed by the first vertex -/
theorem closed_ring_eq (ring : List Pt) (hc : ring.head? = ring.getLast?)
    (hl : 1 ≤ ring.dropLast.length) : ring = ring.dropLast ++ ring.dropLast.take 1 := by
  cases ring with
  | nil => simp at hl
  | cons a t =>
    have htne : t ≠ [] := by
      intro h0; rw [h0] at hl; simp at hl
    rw [List.dropLast_cons_of_ne_nil htne]
    have hlast : t.getLast? = some a := by
      rw [List.getLast?_cons_of_ne_nil htne] at hc  -- getLast? (a :: t) = getLast? t
      simpa using hc.symm
    have ht : t = t.dropLast ++ [a] := by
      have h1 := List.dropLast_append_getLast htne
      have h2 : t.getLast htne = a := by
        rw [List.getLast?_eq_some_getLast htne] at hlast
        exact Option.some.inj hlast
      rw [h2] at h1
      exact h1.symm
    simp only [List.take_succ_cons, List.take_zero, List.cons_append]
    exact congrArg (List.cons a) ht

/-- **what `is_strict_ccw_hull` establishes**: every vertex of an accepted closed ring is left of
or on every edge of the ring — the ring is a convex polygon, traversed counter-clockwise once. -/
theorem isStrictCcwHull_convex (ring : List Pt) (hc : ring.head? = ring.getLast?)
    (h : isStrictCcwHull ring = true) : ∀ e ∈ edges ring, ∀ w ∈ ring, 0 ≤ cross e.1 e.2 w := by
  unfold isStrictCcwHull at h
  simp only [Bool.and_eq_true, beq_iff_eq] at h
  obtain ⟨h1, h2⟩ := h
  have hn2 := (cyc_turn _ h1).1
  have hconv := strictCcw_convex_cyc ring.dropLast h1 h2
  have hring := closed_ring_eq ring hc (by omega)
  generalize ring.dropLast = v at *
  intro e he w hw
  rw [hring] at he hw
  obtain ⟨k, hk1, hk2⟩ := edges_mem_get _ e he
  obtain ⟨j, hj⟩ := List.getElem?_of_mem hw
  have hlen : (v ++ v.take 1).length = v.length + 1 := by
    rw [List.length_append, List.length_take]; omega
  have hkl : k + 1 < v.length + 1 := by
    rw [← hlen]; exact (List.getElem?_eq_some_iff.1 hk2).1
  have hjl : j < v.length + 1 := by
    rw [← hlen]; exact (List.getElem?_eq_some_iff.1 hj).1
  rw [cyc_append_take v 1 (by omega) k (by omega)] at hk1
  rw [cyc_append_take v 1 (by omega) (k + 1) hkl] at hk2
  rw [cyc_append_take v 1 (by omega) j hjl] at hj
  rw [← Option.some.inj hk1, ← Option.some.inj hk2, ← Option.some.inj hj]
  exact hconv k j

end Geo.Proofs.C08
