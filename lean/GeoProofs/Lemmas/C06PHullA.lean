/-
  C06P helper layer 7: hull membership for areal results when every areal member is convex:
  polygons without holes whose ring is in convex position, rectangles (min ≤ max), triangles —
  alone, in multi-polygons, or nested in collections with anything else.
-/
import GeoProofs.Lemmas.C06PHull

namespace Geo.Proofs.C06
open Geo Geo.Cen

/-- a polygon without interiors whose exterior is in convex position (either orientation) -/
def polyConvex (p : Poly) : Prop := p.ints = [] ∧ (ConvexCCW p.ext ∨ ConvexCW p.ext)

mutual
/-- every areal member is convex: hole-free convex polygons, min ≤ max rectangles, triangles -/
def ConvexG : Geom → Prop
  | .polygon p => polyConvex p
  | .multiPolygon ps => ∀ p ∈ ps, polyConvex p
  | .rect mn mx => mn.x ≤ mx.x ∧ mn.y ≤ mx.y
  | .collection gs => ConvexGList gs
  | _ => True
def ConvexGList : List Geom → Prop
  | [] => True
  | g :: gs => ConvexG g ∧ ConvexGList gs
end

theorem segAtom_dim_le (len : Pt → Pt → Rat) (a b : Pt) : (segAtom len a b).dim ≤ 2 := by
  unfold segAtom; split <;> simp

theorem ringAtoms_ok_convex (len : Pt → Pt → Rat) (hpos : ∀ a b, a ≠ b → 0 < len a b) (r : List Pt)
    (hconv : ConvexCCW r ∨ ConvexCW r) : ∀ a ∈ ringAtoms len r, LowOK r a := by
  intro a ha
  by_cases h : twiceAreaText r = 0
  · have hw : a.toWC ∈ ringC len r := by
      rw [ringC_eq_atoms]; exact List.mem_map_of_mem ha
    have := ringC_flat_dim_le len r h _ hw
    exact ringAtoms_ok len hpos r a ha this
  · unfold ringAtoms at ha
    rw [if_neg h] at ha
    simp at ha; subst ha
    have hA : ringArea r ≠ 0 := by
      intro h0; apply h
      have := ringArea_eq_text r; rw [h0] at this; linarith
    refine ⟨rabs_pos (fun h0 => h (by linarith)), ?_⟩
    cases r with
    | nil => exact absurd (by simp [ringArea, twiceArea_nil]) hA
    | cons s t =>
      show InHull (s :: t) (ringCentroidText (s :: t))
      rw [← ringCentroid_shift s t hA]
      exact convex_ring_centroid_in_hull s t hconv hA

theorem polyAtoms_ok_convex (len : Pt → Pt → Rat) (hpos : ∀ a b, a ≠ b → 0 < len a b) (p : Poly)
    (hp : polyConvex p) : ∀ a ∈ polyAtoms len p, LowOK p.coords a := by
  intro a ha
  have hsub : ∀ q ∈ p.ext, q ∈ p.coords := fun q hq => by simp [Poly.coords, hq]
  unfold polyAtoms at ha
  rw [hp.1] at ha
  by_cases he : p.ext.isEmpty = true
  · rw [if_pos he] at ha; simp at ha
  · rw [if_neg he] at ha
    simp only [List.filter_nil, List.isEmpty_nil, if_true] at ha
    exact lowOK_mono hsub (ringAtoms_ok_convex len hpos p.ext hp.2 a ha)

theorem rectAtoms_ok_convex (len : Pt → Pt → Rat) (hpos : ∀ a b, a ≠ b → 0 < len a b) (mn mx : Pt)
    (hwf : mn.x ≤ mx.x ∧ mn.y ≤ mx.y) : ∀ a ∈ rectAtoms len mn mx, LowOK (rectCoords mn mx) a := by
  intro a ha
  by_cases hd : a.dim ≤ 2
  · exact rectAtoms_ok len hpos mn mx a ha hd
  · have hmn : mn ∈ rectCoords mn mx := by
      have : mn = ⟨mn.x, mn.y⟩ := rfl
      simp only [rectCoords]; rw [this]; simp
    have hmx : mx ∈ rectCoords mn mx := by
      have : mx = ⟨mx.x, mx.y⟩ := rfl
      simp only [rectCoords]; rw [this]; simp
    unfold rectAtoms at ha
    by_cases h1 : mn = mx
    · rw [if_pos h1] at ha; simp at ha; subst ha; exact absurd (by simp) hd
    · rw [if_neg h1] at ha
      by_cases h2 : mn.x = mx.x ∨ mn.y = mx.y
      · rw [if_pos h2] at ha
        simp only [List.mem_cons, List.not_mem_nil, or_false] at ha
        rcases ha with rfl | rfl <;> exact absurd (segAtom_dim_le len _ _) hd
      · rw [if_neg h2] at ha
        simp at ha; subst ha
        have hx : mn.x ≠ mx.x := fun h => h2 (Or.inl h)
        have hy : mn.y ≠ mx.y := fun h => h2 (Or.inr h)
        have hx' : 0 < mx.x - mn.x := by
          have := lt_of_le_of_ne hwf.1 hx; linarith
        have hy' : 0 < mx.y - mn.y := by
          have := lt_of_le_of_ne hwf.2 hy; linarith
        refine ⟨mul_pos hx' hy', ?_⟩
        have : rectCenter mn mx = mid mn mx := by
          apply Pt.ext' <;> simp [rectCenter, mid] <;> ring
        show InHull _ (rectCenter mn mx)
        rw [this]
        exact mid_in_hull hmn hmx

theorem triAtoms_ok_convex (len : Pt → Pt → Rat) (hpos : ∀ a b, a ≠ b → 0 < len a b) (a b c : Pt) :
    ∀ x ∈ triAtoms len a b c, LowOK [a, b, c] x := by
  intro x hx
  by_cases hd : x.dim ≤ 2
  · exact triAtoms_ok len hpos a b c x hx hd
  · unfold triAtoms at hx
    by_cases h0 : crossProd a b c = 0
    · rw [if_pos h0] at hx
      by_cases h1 : a = b ∧ b = c
      · rw [if_pos h1] at hx; simp at hx; subst hx; exact absurd (by simp) hd
      · rw [if_neg h1] at hx
        simp only [List.mem_cons, List.not_mem_nil, or_false] at hx
        rcases hx with rfl | rfl | rfl <;> exact absurd (segAtom_dim_le len _ _) hd
    · rw [if_neg h0] at hx
      simp at hx; subst hx
      refine ⟨?_, tri_centroid_in_hull (by simp) (by simp) (by simp)⟩
      show 0 < rabs (crossProd a b c) / 2
      have := rabs_pos h0
      linarith

mutual
theorem atoms_ok_convex (len : Pt → Pt → Rat) (hpos : ∀ a b, a ≠ b → 0 < len a b) :
    ∀ (g : Geom), ConvexG g → ∀ a ∈ atoms len g, LowOK (coordsIter g) a
  | .point p, _ => by
      intro a ha
      simp [atoms] at ha; subst ha
      exact ⟨by norm_num, inHull_mem (by simp [coordsIter])⟩
  | .line p q, _ => by
      intro a ha
      simp [atoms] at ha; subst ha
      exact segAtom_ok len hpos (by simp [coordsIter]) (by simp [coordsIter])
  | .lineString cs, _ => by
      intro a ha
      simp only [atoms] at ha
      exact lineStringAtoms_ok len hpos cs a ha
  | .polygon p, h => by
      intro a ha
      simp only [atoms] at ha
      simp only [ConvexG] at h
      exact polyAtoms_ok_convex len hpos p h a ha
  | .multiPoint ps, _ => by
      intro a ha
      simp only [atoms] at ha
      rcases List.mem_map.1 ha with ⟨p, hp, rfl⟩
      exact ⟨by norm_num, inHull_mem (by simpa [coordsIter] using hp)⟩
  | .multiLineString ls, _ => by
      intro a ha
      simp only [atoms, List.mem_flatten, List.mem_map] at ha
      obtain ⟨_, ⟨l, hl, rfl⟩, hal⟩ := ha
      refine lowOK_mono ?_ (lineStringAtoms_ok len hpos l a hal)
      intro q hq
      simp only [coordsIter, List.mem_flatten]
      exact ⟨l, hl, hq⟩
  | .multiPolygon ps, h => by
      intro a ha
      simp only [atoms, List.mem_flatten, List.mem_map] at ha
      obtain ⟨_, ⟨p, hp, rfl⟩, hap⟩ := ha
      simp only [ConvexG] at h
      refine lowOK_mono ?_ (polyAtoms_ok_convex len hpos p (h p hp) a hap)
      intro q hq
      simp only [coordsIter, List.mem_flatten, List.mem_map]
      exact ⟨p.coords, ⟨p, hp, rfl⟩, hq⟩
  | .rect mn mx, h => by
      intro a ha
      simp only [atoms] at ha
      simp only [ConvexG] at h
      exact rectAtoms_ok_convex len hpos mn mx h a ha
  | .triangle p q r, _ => by
      intro a ha
      simp only [atoms] at ha
      exact triAtoms_ok_convex len hpos p q r a ha
  | .collection gs, h => by
      intro a ha
      simp only [atoms] at ha
      simp only [coordsIter]
      simp only [ConvexG] at h
      exact atomsList_ok_convex len hpos gs h a ha
theorem atomsList_ok_convex (len : Pt → Pt → Rat) (hpos : ∀ a b, a ≠ b → 0 < len a b) :
    ∀ (gs : List Geom), ConvexGList gs → ∀ a ∈ atomsList len gs, LowOK (coordsIterList gs) a
  | [], _ => by intro a ha; simp [atomsList] at ha
  | g :: gs, h => by
      intro a ha
      simp only [atomsList, List.mem_append] at ha
      simp only [coordsIterList]
      simp only [ConvexGList] at h
      rcases ha with h' | h'
      · exact lowOK_mono (fun q hq => List.mem_append_left _ hq) (atoms_ok_convex len hpos g h.1 a h')
      · exact lowOK_mono (fun q hq => List.mem_append_right _ hq) (atomsList_ok_convex len hpos gs h.2 a h')
end

/-- the specification's centroid is in the hull as soon as every counted atom has positive weight
and its centre in the hull -/
theorem spec_in_hull_of_ok (len : Pt → Pt → Rat) (g : Geom)
    (hall : ∀ a ∈ topAtoms (atoms len g), LowOK (coordsIter g) a) (c : Pt)
    (h : centroidSpec len g = some c) : InHull (coordsIter g) c := by
  unfold centroidSpec at h
  simp only at h
  by_cases he : (atoms len g).isEmpty = true
  · rw [if_pos he] at h; cases h
  · rw [if_neg he] at h
    have hc : c = weightedMean (topAtoms (atoms len g)) := (Option.some.inj h).symm
    rw [hc]
    have hne : atoms len g ≠ [] := by
      intro h0; rw [h0] at he; simp at he
    have htop : topAtoms (atoms len g) ≠ [] := by
      obtain ⟨a, ha, had⟩ := exists_mem_maxDim _ hne
      intro h0
      have : a ∈ topAtoms (atoms len g) := List.mem_filter.2 ⟨ha, by simpa using had⟩
      rw [h0] at this; simp at this
    apply mean_in_hull
    · intro a ha; exact le_of_lt (hall a ha).1
    · intro a ha; exact (hall a ha).2
    · exact sumR_pos_of_pos _ _ htop (fun a ha => (hall a ha).1)

/-- [T] hull membership of the specification's centroid for geometries whose areal members are all
convex -/
theorem spec_in_hull_convex (len : Pt → Pt → Rat) (hpos : ∀ a b, a ≠ b → 0 < len a b) (g : Geom)
    (hg : ConvexG g) (c : Pt) (h : centroidSpec len g = some c) : InHull (coordsIter g) c :=
  spec_in_hull_of_ok len g
    (fun a ha => atoms_ok_convex len hpos g hg a (List.mem_filter.1 ha).1) c h

end Geo.Proofs.C06
