/-
  C02Y, part 3: the mask `T*****FF*` (`is_contains`) on the DE-9IM specification as a point-set statement, when the
  second operand has no areal member (points and curves only) and the first has closed rings:

      is_contains (relateParts pa pb)  ⇔  some point is interior to both  ∧  every point of B is a point of A

  (`isContains_iff_thin_right`). Every atom located non-`Outside` in `B` is a point atom (the face samples beside a
  segment are outside parts without areas), and every point of `B` is on the arrangement, hence represented by an atom
  with the same pair of locations (`atom_of_located`, C02XConst).

  Also: a written coordinate of `B` that is located in `B` and outside `A` refutes the mask, for arbitrary `B` with
  closed rings (`isContains_false_of_coord`).
-/
import GeoProofs.Lemmas.C02XCommon

set_option linter.unusedSimpArgs false
set_option linter.unusedVariables false

namespace Geo.Proofs.C02Y
open Geo Geo.Proofs.Kernel Geo.Proofs.Spec Geo.Proofs.C02X

theorem isContains_cells (m : IM) :
    Gen.isContains m = true ↔ m.get .inside .inside ≠ .empty ∧ m.get .outside .inside = .empty ∧
      m.get .outside .onBoundary = .empty := by
  simp [Gen.isContains, IM.get, and_assoc]

/-- `atom_of_cell` for a cell whose column is not `Outside` -/
theorem atom_of_cell_right {pa pb : Parts} {X Y : Pos} (hY : Y ≠ .outside)
    (h : (relateParts pa pb).get X Y ≠ .empty) : ∃ a ∈ atomsOf pa pb, a.posA = X ∧ a.posB = Y := by
  rw [relateParts_eq, get_set, if_neg (fun e => hY e.2.symm)] at h
  have h1 : Dim.zero.rank ≤ ((fold (atomsOf pa pb)).get X Y).rank := by
    generalize (fold (atomsOf pa pb)).get X Y = d at h
    cases d <;> simp [Dim.rank] at h ⊢
  rcases (fold_get _ X Y .zero).mp h1 with h0 | ⟨a, ha, hax, hay, _⟩
  · cases h0
  · exact ⟨a, ha, hax, hay⟩

theorem locateFace_noAreas {ps : Parts} (h : ps.areas = []) (e : EPt) : locateFace ps e = .outside := by
  simp [locateFace, h]

/-- an atom located non-`Outside` in parts without areas is a point atom -/
theorem point_of_atom_right {pa pb : Parts} (hb : pb.areas = []) {x : Atom} (hx : x ∈ atomsOf pa pb)
    (hY : x.posB ≠ .outside) : ∃ m : Pt, x.posA = locateParts pa m ∧ x.posB = locateParts pb m := by
  rcases mem_atomsOf_cases hx with ⟨v, _, rfl⟩ | ⟨s, _, _, m, _, _, rfl | rfl | rfl⟩
  · exact ⟨v, rfl, rfl⟩
  · exact ⟨m, rfl, rfl⟩
  · exact absurd (locateFace_noAreas hb _) hY
  · exact absurd (locateFace_noAreas hb _) hY

/-- **`is_contains` on the specification, second operand without areal member** -/
theorem isContains_iff_thin_right {pa pb : Parts} (ca : ClosedRings pa) (hb : pb.areas = []) :
    Gen.isContains (relateParts pa pb) = true ↔
      (∃ x, locateParts pa x = .inside ∧ locateParts pb x = .inside) ∧
      (∀ x, locateParts pb x ≠ .outside → locateParts pa x ≠ .outside) := by
  have cb : ClosedRings pb := closedRings_of_noAreas hb
  rw [isContains_cells]
  constructor
  · rintro ⟨hii, hei, heb⟩
    constructor
    · obtain ⟨x, hx, hA, hB⟩ := atom_of_cell (by intro e; cases e) hii
      obtain ⟨m, h1, h2⟩ := point_of_atom_right hb hx (by rw [hB]; intro e; cases e)
      exact ⟨m, h1 ▸ hA, h2 ▸ hB⟩
    · intro x hxb hxa
      have hc := cell_of_located ca cb (on_arrangement_right (pa := pa) hb hxb)
      rw [hxa] at hc
      cases hl : locateParts pb x with
      | inside => rw [hl] at hc; exact hc hei
      | onBoundary => rw [hl] at hc; exact hc heb
      | outside => exact hxb hl
  · rintro ⟨⟨x, hxa, hxb⟩, hsub⟩
    refine ⟨?_, ?_, ?_⟩
    · have hc := cell_of_located ca cb (on_arrangement_right (pa := pa) hb (p := x) (by rw [hxb]; intro e; cases e))
      rwa [hxa, hxb] at hc
    · by_contra hne
      obtain ⟨a, ha, hA, hB⟩ := atom_of_cell_right (by intro e; cases e) hne
      obtain ⟨m, h1, h2⟩ := point_of_atom_right hb ha (by rw [hB]; intro e; cases e)
      exact hsub m (by rw [← h2, hB]; intro e; cases e) (by rw [← h1, hA])
    · by_contra hne
      obtain ⟨a, ha, hA, hB⟩ := atom_of_cell_right (by intro e; cases e) hne
      obtain ⟨m, h1, h2⟩ := point_of_atom_right hb ha (by rw [hB]; intro e; cases e)
      exact hsub m (by rw [← h2, hB]; intro e; cases e) (by rw [← h1, hA])

/-- a vertex of the arrangement located in `B` and outside `A` refutes `is_contains` -/
theorem isContains_false_of_vertex {pa pb : Parts} (ca : ClosedRings pa) (cb : ClosedRings pb) {c : Pt}
    (hc : c ∈ vertsOf pa pb) (hb : locateParts pb c ≠ .outside) (ha : locateParts pa c = .outside) :
    Gen.isContains (relateParts pa pb) = false := by
  cases h : Gen.isContains (relateParts pa pb) with
  | false => rfl
  | true =>
    obtain ⟨_, hei, heb⟩ := (isContains_cells _).mp h
    have hcell := cell_of_located ca cb (Or.inl hc)
    rw [ha] at hcell
    cases hl : locateParts pb c with
    | inside => rw [hl] at hcell; exact absurd hei hcell
    | onBoundary => rw [hl] at hcell; exact absurd heb hcell
    | outside => exact absurd hl hb

/-- no point interior to both refutes `is_contains` (second operand without areal member) -/
theorem isContains_false_of_no_ii {pa pb : Parts} (ca : ClosedRings pa) (hb : pb.areas = [])
    (h : ∀ x, locateParts pb x = .inside → locateParts pa x ≠ .inside) :
    Gen.isContains (relateParts pa pb) = false := by
  cases hc : Gen.isContains (relateParts pa pb) with
  | false => rfl
  | true =>
    obtain ⟨⟨x, h1, h2⟩, _⟩ := (isContains_iff_thin_right ca hb).mp hc
    exact absurd h1 (h x h2)

end Geo.Proofs.C02Y
