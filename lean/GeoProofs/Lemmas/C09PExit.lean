/-
  Helper lemmas for C09 (exit invariant of Visvalingam-Whyatt): the loop of `visvalingam_indices`
  keeps, for every live interior vertex `v` with current neighbours `(l, r)`, an entry
  `(l, v, r, area l v r)` in the priority queue (stale entries may sit beside it and are skipped);
  it can therefore only stop (queue empty, or the popped minimum is above `ε`) when every live
  interior vertex spans a triangle of area `> ε` with its live neighbours.

  Uses the heap correctness lemmas of GeoProofs/Lemmas/C09PHeap.lean (pop returns a minimum,
  push/pop/from only add/remove/permute entries) and the linked-list invariant `AInv` of
  GeoProofs/Lemmas/C09Vw.lean, extended here by `AInv2` (no live vertex strictly between a live
  vertex and its right neighbour; only vertex `0` has left neighbour `-1`).
-/
import GeoModel.Simplify
import GeoProofs.Lemmas.C09Vw
import GeoProofs.Lemmas.C09PHeap
import Mathlib.Tactic.Linarith

namespace Geo.Proofs.C09
open Geo Geo.Simp

/-! ### the linked list skips exactly the dead vertices -/

structure AInv2 (n : Nat) (adj : Adj) : Prop where
  Gap : ∀ i m : Nat, i < n → adj i ≠ (0, 0) → i < m → (m : Int) < (adj i).2 → adj m = (0, 0)
  L0 : ∀ i : Nat, i < n → adj i ≠ (0, 0) → (adj i).1 < 0 → i = 0

theorem adjInit_inv2 (n : Nat) : AInv2 n adjInit := by
  constructor
  · intro i m _ _ him hm
    unfold adjInit at hm
    split at hm <;> simp at hm <;> omega
  · intro i _ _ h
    by_contra hne
    have hval : adjInit i = ((i : Int) - 1, (i : Int) + 1) := by simp [adjInit, hne]
    rw [hval] at h
    simp only at h
    omega

theorem unlink_inv2 {n : Nat} {adj : Adj} {l c r : Nat} (hinv : AInv n adj) (h2 : AInv2 n adj)
    (hlc : l < c) (hcr : c < r) (hrn : r < n) (hadj : adj c = ((l : Int), (r : Int))) :
    AInv2 n (unlink adj l c r (adj l).1 (adj r).2) := by
  have hcl : adj c ≠ (0, 0) := live_of_snd (by rw [hadj]; simp; omega)
  have hc1 : (adj c).1 = (l : Int) := by rw [hadj]
  have hc2 : (adj c).2 = (r : Int) := by rw [hadj]
  obtain ⟨hll, hl2⟩ := hinv.DL c l (by omega) hcl hc1
  obtain ⟨hrl, hr1⟩ := hinv.DR c r (by omega) hcl hc2 hrn
  have nlc : l ≠ c := by omega
  have nlr : l ≠ r := by omega
  have nrc : r ≠ c := by omega
  have dead : ∀ m : Nat, adj m = (0, 0) → unlink adj l c r (adj l).1 (adj r).2 m = (0, 0) := by
    intro m hm
    by_cases e1 : m = c
    · rw [e1, unlink_c]
    · by_cases e2 : m = r
      · rw [e2] at hm; exact absurd hm hrl
      · by_cases e3 : m = l
        · rw [e3] at hm; exact absurd hm hll
        · rw [unlink_o _ _ _ _ _ _ m e1 e2 e3]; exact hm
  constructor
  · intro i m hi hlive him hm
    by_cases e1 : i = c
    · rw [e1, unlink_c] at hlive; exact absurd rfl hlive
    · by_cases e2 : i = r
      · rw [e2, unlink_r _ _ _ _ _ _ nrc] at hm
        simp only at hm
        exact dead m (h2.Gap r m hrn hrl (by omega) hm)
      · by_cases e3 : i = l
        · rw [e3, unlink_l _ _ _ _ _ _ nlc nlr] at hm
          simp only at hm
          by_cases f1 : m = c
          · rw [f1, unlink_c]
          · by_cases f2 : m < c
            · exact dead m (h2.Gap l m (by omega) hll (by omega) (by rw [hl2]; omega))
            · exact dead m (h2.Gap c m (by omega) hcl (by omega) (by rw [hc2]; omega))
        · rw [unlink_o _ _ _ _ _ _ i e1 e2 e3] at hlive hm
          exact dead m (h2.Gap i m hi hlive him hm)
  · intro i hi hlive h1
    by_cases e1 : i = c
    · rw [e1, unlink_c] at hlive; exact absurd rfl hlive
    · by_cases e2 : i = r
      · rw [e2, unlink_r _ _ _ _ _ _ nrc] at h1
        simp only at h1
        omega
      · by_cases e3 : i = l
        · rw [e3, unlink_l _ _ _ _ _ _ nlc nlr] at h1
          simp only at h1
          rw [e3]
          exact h2.L0 l (by omega) hll h1
        · rw [unlink_o _ _ _ _ _ _ i e1 e2 e3] at hlive h1
          exact h2.L0 i hi hlive h1

/-- consecutive elements of a filtered range: everything between them fails the filter -/
theorem filter_range_consec (n : Nat) (p : Nat → Bool) (pre post : List Nat) (i j : Nat)
    (h : (List.range n).filter p = pre ++ i :: j :: post) :
    i < j ∧ j < n ∧ p i = true ∧ p j = true ∧ ∀ m, i < m → m < j → p m = false := by
  have hpw : ((List.range n).filter p).Pairwise (· < ·) :=
    List.Pairwise.filter _ List.pairwise_lt_range
  have hmem : ∀ m, m ∈ (List.range n).filter p ↔ m < n ∧ p m = true := by
    intro m; simp [List.mem_filter]
  rw [h] at hpw hmem
  rw [List.pairwise_append] at hpw
  obtain ⟨_, hp2, hp3⟩ := hpw
  rw [List.pairwise_cons] at hp2
  obtain ⟨hi, hp4⟩ := hp2
  rw [List.pairwise_cons] at hp4
  obtain ⟨hj, _⟩ := hp4
  have hij : i < j := hi j List.mem_cons_self
  have hjm := (hmem j).1 (by simp)
  have him := (hmem i).1 (by simp)
  refine ⟨hij, hjm.1, him.2, hjm.2, ?_⟩
  intro m h1 h2
  by_contra hne
  have hpm : p m = true := by simpa using hne
  have hm := (hmem m).2 ⟨by omega, hpm⟩
  rcases List.mem_append.1 hm with hm | hm
  · have := hp3 m hm i List.mem_cons_self
    omega
  · rcases List.mem_cons.1 hm with e | hm
    · omega
    · rcases List.mem_cons.1 hm with e | hm
      · omega
      · have := hj m hm
        omega

/-- three consecutive live vertices are linked to each other -/
theorem adj_of_consec {n : Nat} {adj : Adj} (hinv : AInv n adj) (h2 : AInv2 n adj) {i j k : Nat}
    (hij : i < j) (hjk : j < k) (hkn : k < n)
    (hi : adj i ≠ (0, 0)) (hj : adj j ≠ (0, 0)) (hk : adj k ≠ (0, 0))
    (g1 : ∀ m, i < m → m < j → adj m = (0, 0)) (g2 : ∀ m, j < m → m < k → adj m = (0, 0)) :
    adj j = ((i : Int), (k : Int)) := by
  obtain ⟨a1, a2, a3, a4⟩ := hinv.A j (by omega) hj
  have hr : (adj j).2 = (k : Int) := by
    by_contra hne
    by_cases hlt : (adj j).2 < (k : Int)
    · obtain ⟨r, hr⟩ : ∃ r : Nat, (adj j).2 = (r : Int) := ⟨(adj j).2.toNat, by omega⟩
      have := hinv.DR j r (by omega) hj hr (by omega)
      exact this.1 (g2 r (by omega) (by omega))
    · exact hk (h2.Gap j k (by omega) hj hjk (by omega))
  have hl : (adj j).1 = (i : Int) := by
    have hnn : 0 ≤ (adj j).1 := by
      by_contra hneg
      have := h2.L0 j (by omega) hj (by omega)
      omega
    obtain ⟨l, hl⟩ : ∃ l : Nat, (adj j).1 = (l : Int) := ⟨(adj j).1.toNat, by omega⟩
    obtain ⟨hll, hl2⟩ := hinv.DL j l (by omega) hj hl
    by_contra hne
    by_cases hlt : l < i
    · exact hi (h2.Gap l i (by omega) hll hlt (by rw [hl2]; omega))
    · exact hll (g1 l (by omega) (by omega))
  exact Prod.ext hl hr

/-! ### queue entries -/

/-- a well-formed queue entry of `visvalingam_indices`: ordered valid indices, never an
"intersector", and its area is the area of its triangle -/
def EP (cs : List Pt) (n : Nat) (e : VScore) : Prop :=
  EOK n e ∧ e.intersector = false ∧
    e.area = triArea (coordAt cs e.left) (coordAt cs e.current) (coordAt cs e.right)

/-- every live vertex with two proper neighbours has its current triangle in the queue -/
def Covered (n : Nat) (adj : Adj) (pq : Heap) : Prop :=
  ∀ v l r : Nat, v < n → adj v ≠ (0, 0) → adj v = ((l : Int), (r : Int)) → r < n →
    ∃ e ∈ pq, e.left = l ∧ e.current = v ∧ e.right = r

/-- what holds when the loop stops: every live vertex with two proper neighbours spans a
triangle of area above the tolerance -/
def ExitOK (cs : List Pt) (eps : Rat) (n : Nat) (adj : Adj) : Prop :=
  ∀ v l r : Nat, v < n → adj v ≠ (0, 0) → adj v = ((l : Int), (r : Int)) → r < n →
    eps < triArea (coordAt cs l) (coordAt cs v) (coordAt cs r)

theorem exit_of_empty {cs : List Pt} {eps : Rat} {n : Nat} {adj : Adj} (h : Covered n adj []) :
    ExitOK cs eps n adj := by
  intro v l r hv hlive hadj hr
  obtain ⟨e, he, _⟩ := h v l r hv hlive hadj hr
  simp at he

theorem recomputeOne_mono (s : VScore) (cs : List Pt) (pq : Heap) (ai : Int) (cur : Nat) (bi : Int)
    (max : Nat) (eps : Rat) {e : VScore} (he : e ∈ pq) :
    e ∈ recomputeOne s cs pq ai cur bi max eps := by
  unfold recomputeOne
  split
  · exact he
  · exact (heapPush_perm _ _).mem_iff.2 (List.mem_cons_of_mem _ he)

theorem recomputeOne_new (s : VScore) (cs : List Pt) (pq : Heap) (ai : Int) (cur : Nat) (bi : Int)
    (max : Nat) (eps : Rat) (h1 : 0 ≤ ai) (h2 : ai < (max : Int)) (h3 : 0 ≤ bi) (h4 : bi < (max : Int)) :
    ∃ e ∈ recomputeOne s cs pq ai cur bi max eps,
      e.left = ai.toNat ∧ e.current = cur ∧ e.right = bi.toNat := by
  unfold recomputeOne
  have hc : ¬ (ai < 0 ∨ ai ≥ (max : Int) ∨ bi < 0 ∨ bi ≥ (max : Int)) := by omega
  rw [if_neg hc]
  exact ⟨_, (heapPush_perm _ _).mem_iff.2 List.mem_cons_self, rfl, rfl, rfl⟩

theorem recomputeOne_heapInv (s : VScore) (cs : List Pt) (pq : Heap) (ai : Int) (cur : Nat) (bi : Int)
    (max : Nat) (eps : Rat) (h : HeapInv pq) : HeapInv (recomputeOne s cs pq ai cur bi max eps) := by
  unfold recomputeOne
  split
  · exact h
  · exact (heapPush_heap _ _ h).2

theorem recomputeOne_len (s : VScore) (cs : List Pt) (pq : Heap) (ai : Int) (cur : Nat) (bi : Int)
    (max : Nat) (eps : Rat) : (recomputeOne s cs pq ai cur bi max eps).length ≤ pq.length + 1 := by
  unfold recomputeOne
  split
  · omega
  · have := (heapPush_perm pq
      { left := ai.toNat, current := cur, right := bi.toNat,
        area := (if s.intersector && decide (cur < s.current) then -eps
          else triArea (coordAt cs ai.toNat) (coordAt cs cur) (coordAt cs bi.toNat)),
        intersector := false }).length_eq
    simp only [List.length_cons] at this
    exact le_of_eq this

theorem recomputeOne_EP {n : Nat} (s : VScore) (cs : List Pt) (pq : Heap) (ai : Int) (cur : Nat)
    (bi : Int) (eps : Rat) (h : AllP (EP cs n) pq) (hint : s.intersector = false)
    (h1 : ai < (cur : Int)) (h2 : (cur : Int) < bi) :
    AllP (EP cs n) (recomputeOne s cs pq ai cur bi n eps) := by
  unfold recomputeOne
  split
  · exact h
  · rename_i hc
    apply heapPush_allP h
    refine ⟨?_, rfl, ?_⟩
    · simp only [EOK]; omega
    · simp [hint]

theorem recompute_EP {n : Nat} (s : VScore) (cs : List Pt) (pq : Heap) (ll : Int) (l r : Nat)
    (rr : Int) (eps : Rat) (h : AllP (EP cs n) pq) (hint : s.intersector = false)
    (h1 : ll < (l : Int)) (h2 : l < r) (h3 : (r : Int) < rr) :
    AllP (EP cs n) (recompute s cs pq ll l r rr n eps) := by
  unfold recompute
  exact recomputeOne_EP s cs _ _ _ _ eps
    (recomputeOne_EP s cs pq _ _ _ eps h hint h1 (by omega)) hint (by omega) h3

/-- one removal keeps every live vertex covered: the two affected neighbours get fresh entries -/
theorem covered_unlink {cs : List Pt} {n : Nat} {adj : Adj} {pq' : Heap} {s : VScore} (eps : Rat)
    (hi : AInv n adj) (h1 : s.left < s.current) (h2 : s.current < s.right) (h3 : s.right < n)
    (hadj : adj s.current = ((s.left : Int), (s.right : Int)))
    (hcov : Covered n adj (s :: pq')) :
    Covered n (unlink adj s.left s.current s.right (adj s.left).1 (adj s.right).2)
      (recompute s cs pq' (adj s.left).1 s.left s.right (adj s.right).2 n eps) := by
  obtain ⟨_, b1, b2, b3, b4⟩ := unlink_inv hi h1 h2 h3 hadj
  have nlc : s.left ≠ s.current := by omega
  have nlr : s.left ≠ s.right := by omega
  have nrc : s.right ≠ s.current := by omega
  intro v l r hv hlive hav hr
  by_cases e1 : v = s.current
  · rw [e1, unlink_c] at hlive; exact absurd rfl hlive
  · by_cases e2 : v = s.right
    · rw [e2, unlink_r _ _ _ _ _ _ nrc] at hav
      simp only [Prod.mk.injEq] at hav
      obtain ⟨e, he, f1, f2, f3⟩ := recomputeOne_new s cs
        (recomputeOne s cs pq' (adj s.left).1 s.left s.right n eps) s.left s.right (adj s.right).2 n eps
        (by omega) (by omega) (by omega) (by omega)
      refine ⟨e, he, ?_, ?_, ?_⟩
      · rw [f1]; omega
      · rw [f2, e2]
      · rw [f3]; omega
    · by_cases e3 : v = s.left
      · rw [e3, unlink_l _ _ _ _ _ _ nlc nlr] at hav
        simp only [Prod.mk.injEq] at hav
        obtain ⟨e, he, f1, f2, f3⟩ := recomputeOne_new s cs pq' (adj s.left).1 s.left s.right n eps
          (by omega) (by omega) (by omega) (by omega)
        refine ⟨e, recomputeOne_mono s cs _ _ _ _ n eps he, ?_, ?_, ?_⟩
        · rw [f1]; omega
        · rw [f2, e3]
        · rw [f3]; omega
      · rw [unlink_o _ _ _ _ _ _ v e1 e2 e3] at hlive hav
        obtain ⟨e, he, f1, f2, f3⟩ := hcov v l r hv hlive hav hr
        rcases List.mem_cons.1 he with h0 | h'
        · rw [h0] at f2; exact absurd f2.symm e1
        · exact ⟨e, recomputeOne_mono s cs _ _ _ _ n eps (recomputeOne_mono s cs _ _ _ _ n eps h'),
            f1, f2, f3⟩

/-! ### the loop -/

theorem vwLoop_exit (cs : List Pt) (eps : Rat) (n : Nat) : ∀ (fuel : Nat) (adj : Adj) (pq : Heap),
    AInv n adj → AInv2 n adj → AllP (EP cs n) pq → HeapInv pq → Covered n adj pq →
    pq.length + 2 * liveCount n adj ≤ fuel →
    AInv2 n (vwLoop cs eps n fuel adj pq) ∧ ExitOK cs eps n (vwLoop cs eps n fuel adj pq)
  | 0, adj, pq, _, hi2, _, _, hcov, hm => by
    have hnil : pq = [] := List.length_eq_zero_iff.1 (by omega)
    subst hnil
    simp only [vwLoop]
    exact ⟨hi2, exit_of_empty hcov⟩
  | fuel + 1, adj, pq, hi, hi2, hq, hh, hcov, hm => by
    simp only [vwLoop]
    split
    · rename_i hpop
      have hnil := heapPop_none hpop
      subst hnil
      exact ⟨hi2, exit_of_empty hcov⟩
    · rename_i s pq' hpop
      obtain ⟨hs, hq'⟩ := heapPop_allP hq hpop
      obtain ⟨hlen, hh', hmin⟩ := heapPop_heap hh hpop
      have hperm := heapPop_perm hpop
      have hcov' : Covered n adj (s :: pq') := by
        intro v l r hv hlive hav hr
        obtain ⟨e, he, f⟩ := hcov v l r hv hlive hav hr
        exact ⟨e, hperm.mem_iff.1 he, f⟩
      split
      · rename_i hgt
        refine ⟨hi2, ?_⟩
        intro v l r hv hlive hav hr
        obtain ⟨e, he, f1, f2, f3⟩ := hcov v l r hv hlive hav hr
        have hse := hmin e he
        have ha := (hq e he).2.2
        rw [f1, f2, f3] at ha
        rw [← ha]
        have hgt' : eps < s.area := hgt
        linarith
      · generalize hadj : adj s.current = a
        obtain ⟨left, right⟩ := a
        simp only
        split
        · rename_i hst
          refine vwLoop_exit cs eps n fuel adj pq' hi hi2 hq' hh' ?_ (by omega)
          intro v l r hv hlive hav hr
          obtain ⟨e, he, f1, f2, f3⟩ := hcov' v l r hv hlive hav hr
          rcases List.mem_cons.1 he with h0 | h'
          · exfalso
            rw [h0] at f1 f2 f3
            rw [← f2, hadj] at hav
            simp only [Prod.mk.injEq] at hav
            rcases hst with hx | hx
            · exact hx (by rw [hav.1, f1])
            · exact hx (by rw [hav.2, f3])
          · exact ⟨e, h', f1, f2, f3⟩
        · rename_i hne
          have hl : left = (s.left : Int) := by
            by_contra hx; exact hne (Or.inl hx)
          have hr : right = (s.right : Int) := by
            by_contra hx; exact hne (Or.inr hx)
          subst hl hr
          obtain ⟨⟨h1, h2, h3⟩, hint, _⟩ := hs
          obtain ⟨hinv', b1, b2, _, _⟩ := unlink_inv hi h1 h2 h3 hadj
          have hinv2' := unlink_inv2 hi hi2 h1 h2 h3 hadj
          have hlc := liveCount_unlink hi h1 h2 h3 hadj
          have hl1 := recomputeOne_len s cs pq' (adj s.left).1 s.left s.right n eps
          have hl2 := recomputeOne_len s cs
            (recomputeOne s cs pq' (adj s.left).1 s.left s.right n eps) s.left s.right (adj s.right).2 n eps
          refine vwLoop_exit cs eps n fuel _ _ hinv' hinv2'
            (recompute_EP s cs pq' _ _ _ _ eps hq' hint b1 (by omega) b2)
            (recomputeOne_heapInv s cs _ _ _ _ n eps (recomputeOne_heapInv s cs _ _ _ _ n eps hh'))
            (covered_unlink eps hi h1 h2 h3 hadj hcov') ?_
          show (recomputeOne s cs (recomputeOne s cs pq' (adj s.left).1 s.left s.right n eps)
            s.left s.right (adj s.right).2 n eps).length +
            2 * liveCount n (unlink adj s.left s.current s.right (adj s.left).1 (adj s.right).2) ≤ fuel
          omega

/-! ### the initial state -/

theorem initScores_EP (cs : List Pt) : AllP (EP cs cs.length) (initScores cs) := by
  intro x hx
  simp only [initScores, List.mem_map, List.mem_range] at hx
  obtain ⟨i, hi, rfl⟩ := hx
  refine ⟨?_, rfl, rfl⟩
  simp only [EOK]; omega

theorem initScores_covered (cs : List Pt) : Covered cs.length adjInit (heapFrom (initScores cs)) := by
  intro v l r hv _ hav hr
  have hv0 : v ≠ 0 := by
    intro e
    rw [e] at hav
    simp [adjInit] at hav
  have hval : adjInit v = ((v : Int) - 1, (v : Int) + 1) := by simp [adjInit, hv0]
  rw [hval] at hav
  simp only [Prod.mk.injEq] at hav
  refine ⟨{ left := v - 1, current := v - 1 + 1, right := v - 1 + 2,
            area := triArea (coordAt cs (v - 1)) (coordAt cs (v - 1 + 1)) (coordAt cs (v - 1 + 2)),
            intersector := false }, ?_, ?_, ?_, ?_⟩
  · apply (heapFrom_perm _).mem_iff.2
    simp only [initScores, List.mem_map, List.mem_range]
    exact ⟨v - 1, by omega, rfl⟩
  · show v - 1 = l; omega
  · show v - 1 + 1 = v; omega
  · show v - 1 + 2 = r; omega

/-- the final `adjacent` vector of `visvalingam_indices` -/
theorem visIdx_exit (cs : List Pt) (eps : Rat) (hn : 3 ≤ cs.length) :
    AInv cs.length (vwLoop cs eps cs.length (vwFuel cs.length) adjInit (heapFrom (initScores cs))) ∧
    AInv2 cs.length (vwLoop cs eps cs.length (vwFuel cs.length) adjInit (heapFrom (initScores cs))) ∧
    ExitOK cs eps cs.length
      (vwLoop cs eps cs.length (vwFuel cs.length) adjInit (heapFrom (initScores cs))) := by
  have hinv := vwLoop_inv cs eps cs.length (vwFuel cs.length) adjInit (heapFrom (initScores cs))
    (adjInit_inv _ hn) (heapFrom_allP (initScores_allP cs))
  have hlen : (heapFrom (initScores cs)).length = cs.length - 2 := by
    rw [(heapFrom_heap _).1]; simp [initScores]
  have := vwLoop_exit cs eps cs.length (vwFuel cs.length) adjInit (heapFrom (initScores cs))
    (adjInit_inv _ hn) (adjInit_inv2 _) (heapFrom_allP (initScores_EP cs)) (heapFrom_heap _).2
    (initScores_covered cs) (by rw [hlen, liveCount_init]; unfold vwFuel; omega)
  exact ⟨hinv, this.1, this.2⟩

/-- three consecutive kept positions span a triangle of area above the tolerance -/
theorem visIdx_triple (cs : List Pt) (eps : Rat) (pre post : List Nat) (i j k : Nat)
    (h : visvalingamIndices cs eps = pre ++ i :: j :: k :: post) :
    eps < triArea (coordAt cs i) (coordAt cs j) (coordAt cs k) := by
  unfold visvalingamIndices at h
  split at h
  · have := congrArg List.length h
    simp at this
    omega
  · obtain ⟨hinv, hinv2, hex⟩ := visIdx_exit cs eps (by omega)
    generalize vwLoop cs eps cs.length (vwFuel cs.length) adjInit (heapFrom (initScores cs)) = adj
      at h hinv hinv2 hex
    simp only at h
    obtain ⟨hij, _, pi, pj, g1⟩ := filter_range_consec _ _ pre (k :: post) i j h
    obtain ⟨hjk, hkn, _, pk, g2⟩ := filter_range_consec _ _ (pre ++ [i]) post j k (by simpa using h)
    have li : adj i ≠ (0, 0) := by simpa using pi
    have lj : adj j ≠ (0, 0) := by simpa using pj
    have lk : adj k ≠ (0, 0) := by simpa using pk
    have hadj := adj_of_consec hinv hinv2 hij hjk hkn li lj lk
      (fun m a b => by simpa using g1 m a b) (fun m a b => by simpa using g2 m a b)
    exact hex j i k (by omega) lj hadj hkn

end Geo.Proofs.C09
