/-
  MONO3 (C10, builder of the monotone pieces): what `next_point` does to the payloads. While the events of the point `pt`
  are handled, relative to the state `st0` in which `next_point` was called:
  the payload of a segment whose left end lies before `pt` is not written (the only writes are the clearing of `help` /
  `helper_chain` at a segment's own `LineLeft` event, at its left end); right ends only move to the left; a segment
  created by `split_at` has its left end at or after `pt`; every segment whose left end is `pt` and whose `LineLeft` event
  is no longer queued has been reported as starting; a segment reported as starting has no `help` and no `helper_chain`;
  the number of chain slots does not change.
-/
import GeoProofs.Lemmas.MONO3Once

namespace Geo.Proofs.MONO3
open Geo Geo.Mono Geo.MonoBuild Geo.Proofs.C10 Geo.Proofs.MONO Geo.Proofs.MONO2

structure AInv (pt : Pt) (st0 : St) (P : Nat → Prop) (st : St) : Prop where
  keep : ∀ (j : Nat) (s0 : Seg), st0.segs[j]? = some s0 → ∃ s : Seg, st.segs[j]? = some s ∧ s.line.left = s0.line.left ∧
    lexLt s0.line.right s.line.right = false ∧ (lexLt s0.line.left pt = true → s.info = s0.info)
  new : ∀ (j : Nat) (s : Seg), st.segs[j]? = some s → st0.segs.length ≤ j → lexLt s.line.left pt = false
  lefts : ∀ (j : Nat) (s : Seg), st.segs[j]? = some s →
    (⟨s.line.left, .lineLeft, j⟩ : Ev) ∈ st.events ∨ lexLt s.line.left pt = true ∨ j ∈ st.outgoing ∨ P j
  outs : ∀ o ∈ st.outgoing, ∀ s : Seg, st.segs[o]? = some s → s.info.help = none ∧ s.info.helperChain = none
  len : st.chains.length = st0.chains.length

variable {pt : Pt} {st0 : St} {P : Nat → Prop}

theorem AInv.congr {st st' : St} (h : AInv pt st0 P st) (hs : st'.segs = st.segs)
    (he : ∀ e ∈ st.events, e ∈ st'.events) (ho : st'.outgoing = st.outgoing)
    (hc : st'.chains.length = st.chains.length) : AInv pt st0 P st' := by
  refine ⟨?_, ?_, ?_, ?_, hc ▸ h.len⟩
  · intro j s0 h0; rw [hs]; exact h.keep j s0 h0
  · intro j s hj; rw [hs] at hj; exact h.new j s hj
  · intro j s hj
    rw [hs] at hj
    rcases h.lefts j s hj with g | g | g | g
    · exact Or.inl (he _ g)
    · exact Or.inr (Or.inl g)
    · exact Or.inr (Or.inr (Or.inl (ho ▸ g)))
    · exact Or.inr (Or.inr (Or.inr g))
  · intro o hm s hj
    rw [ho] at hm; rw [hs] at hj
    exact h.outs o hm s hj

theorem AInv.weaken {st : St} {Q : Nat → Prop} (h : AInv pt st0 P st) (hpq : ∀ j, P j → Q j) : AInv pt st0 Q st :=
  ⟨h.keep, h.new, fun j s hj => by
    rcases h.lefts j s hj with g | g | g | g
    · exact Or.inl g
    · exact Or.inr (Or.inl g)
    · exact Or.inr (Or.inr (Or.inl g))
    · exact Or.inr (Or.inr (Or.inr (hpq j g))), h.outs, h.len⟩

theorem from_left {a b : Pt} (h : lexLt a b = true) : (LoP.from a b).left = a := by rw [from_of_lt h]; rfl

/-- `split_at` of segment `i` at `p` (not before `pt`, strictly inside the segment), with the events it queues -/
theorem split_ainv {st : St} {i : Nat} {s : Seg} {p : Pt} (hn : AInv pt st0 P st)
    (hout : ∀ o ∈ st.outgoing, o < st.segs.length)
    (hs : st.segs[i]? = some s) (h1 : lexLt s.line.left p = true) (h2 : lexLt p s.line.right = true)
    (hp : lexLt p pt = false) (evs' : Heap)
    (hevs : evs'.Perm (⟨p, .lineLeft, st.segs.length⟩ :: ⟨s.line.right, .lineRight, st.segs.length⟩ ::
      ⟨p, .lineRight, i⟩ :: st.events)) :
    AInv pt st0 P { st with segs := st.segs.set i { s with line := LoP.from s.line.left p } ++
        [{ line := LoP.from p s.line.right, info := s.info }], events := evs' } := by
  have hil : i < st.segs.length := (List.getElem?_eq_some_iff.1 hs).1
  have hmem : ∀ e ∈ st.events, e ∈ evs' := fun e he =>
    hevs.mem_iff.2 (List.mem_cons_of_mem _ (List.mem_cons_of_mem _ (List.mem_cons_of_mem _ he)))
  refine ⟨?_, ?_, ?_, ?_, hn.len⟩
  · intro j s0 h0
    obtain ⟨sj, hj, e1, e2, e3⟩ := hn.keep j s0 h0
    simp only
    rw [getElem?_set_append _ _ _ _ _ _ hj]
    by_cases e : i = j
    · subst e
      rw [hs] at hj; cases hj
      rw [if_pos rfl]
      refine ⟨_, rfl, by simp only; rw [from_left h1]; exact e1, ?_, e3⟩
      simp only
      rw [from_right h1]
      cases hx : lexLt s0.line.right p with
      | false => rfl
      | true => rw [lexLt_trans hx h2] at e2; cases e2
    · rw [if_neg e]
      exact ⟨sj, rfl, e1, e2, e3⟩
  · intro j s' hj hge
    simp only at hj
    rcases getElem?_set_append_back _ _ _ _ _ _ hj with ⟨g1, _, g⟩ | ⟨_, g⟩ | ⟨_, g⟩
    · rw [g]; simp only; rw [from_left h1]
      exact hn.new i s hs (g1 ▸ hge)
    · rw [g]; simp only; rw [from_left h2]; exact hp
    · exact hn.new j s' g hge
  · intro j s' hj
    simp only at hj ⊢
    rcases getElem?_set_append_back _ _ _ _ _ _ hj with ⟨g1, _, g⟩ | ⟨g1, g⟩ | ⟨_, g⟩
    · have : s'.line.left = s.line.left := by rw [g]; simp only; rw [from_left h1]
      rw [this, g1]
      rcases hn.lefts i s hs with q | q | q | q
      · exact Or.inl (hmem _ q)
      · exact Or.inr (Or.inl q)
      · exact Or.inr (Or.inr (Or.inl q))
      · exact Or.inr (Or.inr (Or.inr q))
    · left
      have : s'.line.left = p := by rw [g]; simp only; rw [from_left h2]
      rw [this, g1]
      exact hevs.mem_iff.2 (List.mem_cons_self ..)
    · rcases hn.lefts j s' g with q | q | q | q
      · exact Or.inl (hmem _ q)
      · exact Or.inr (Or.inl q)
      · exact Or.inr (Or.inr (Or.inl q))
      · exact Or.inr (Or.inr (Or.inr q))
  · intro o hm s' hj
    simp only at hj hm
    have hol := hout o hm
    rcases getElem?_set_append_back _ _ _ _ _ _ hj with ⟨g1, _, g⟩ | ⟨g1, _⟩ | ⟨_, g⟩
    · rw [g]; simp only
      exact hn.outs o hm s (g1 ▸ hs)
    · omega
    · exact hn.outs o hm s' g

theorem out_lt {st : St} {pt : Pt} (hio : IO pt st) : ∀ j ∈ st.outgoing, j < st.segs.length := by
  intro j hj
  obtain ⟨l, hl, _⟩ := hio.out j hj
  obtain ⟨s, hs, _⟩ := lineOf_seg hl
  exact (List.getElem?_eq_some_iff.1 hs).1

/-- the split made for a `LineLeft` event at `pt = lb.left` keeps `AInv` -/
theorem applySplit_ainv {st st' : St} {act seg : Nat} {la lb : LoP} (hi : SInv st) (hio : IO lb.left st)
    (hn : AInv lb.left st0 P st)
    (hla : st.lineOf act = some la) (hlb : st.lineOf seg = some lb)
    (h : st.applySplit act seg (checkInterior la lb) = some st') : AInv lb.left st0 P st' := by
  obtain ⟨sa, hsa, hsal⟩ := lineOf_seg hla
  obtain ⟨sb, hsb, hsbl⟩ := lineOf_seg hlb
  subst hsal hsbl
  have okb : LineOk sb.line := hi.lines sb (mem_of_getElem? hsb)
  have hblt := lineOk_lt okb
  unfold St.applySplit at h
  split at h
  · cases h; exact hn
  · rename_i p hck
    obtain ⟨c1, c2, c3⟩ := checkInterior_spec_a hck
    osplit h
    rename_i st1 nw h1
    obtain ⟨_, _, _, s, hs, l1, l2⟩ := splitAt_sinv hi h1 (by
      intro s hs; rw [hsa] at hs; cases hs; exact ⟨c1, c2⟩)
    rw [hsa] at hs; cases hs
    rw [eventsOf_line l1, eventsOf_line l2] at h
    simp only [Option.some.injEq] at h
    subst h
    have hge : lexLt p sb.line.left = false := by
      rcases c3 with e | e
      · rw [e]; exact lexLt_irrefl _
      · rw [e]; exact lexLt_asymm hblt
    obtain ⟨s', hs', hnw, hst⟩ := splitAt_spec h1
    rw [hsa] at hs'; cases hs'
    subst hst hnw
    exact split_ainv hn (out_lt hio) hsa c1 c2 hge _
      ((heapExtend2_perm _ _ _).trans (((heapPush_perm _ _).cons _).cons _))
  · rename_i p hck
    obtain ⟨c1, c2⟩ := checkInterior_spec_b hck
    osplit h
    rename_i st1 nw h1
    obtain ⟨_, _, _, s, hs, l1, l2⟩ := splitAt_sinv hi h1 (by
      intro s hs; rw [hsb] at hs; cases hs; exact ⟨c1, c2⟩)
    rw [hsb] at hs; cases hs
    rw [eventsOf_line l1, eventsOf_line l2] at h
    simp only [Option.some.injEq] at h
    subst h
    obtain ⟨s', hs', hnw, hst⟩ := splitAt_spec h1
    rw [hsb] at hs'; cases hs'
    subst hst hnw
    exact split_ainv hn (out_lt hio) hsb c1 c2 (lexLt_asymm c1) _
      ((heapExtend2_perm _ _ _).trans (((heapPush_perm _ _).cons _).cons _))

end Geo.Proofs.MONO3
