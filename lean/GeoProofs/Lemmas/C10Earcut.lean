/-
  C10 helper lemmas: the ear-cut glue (`polygon_to_earcutr_input`, `Iter::next`).
-/
import GeoModel.Triangulate
import GeoModel.Traverse

namespace Geo.Proofs.C10
open Geo Geo.Tri

/-- the flat `[x0, y0, x1, y1, …]` vector of a coordinate list (specification) -/
def flat (cs : List Pt) : List Rat := cs.flatMap (fun c => [c.x, c.y])

theorem flat_nil : flat [] = [] := rfl

theorem flat_cons (c : Pt) (cs : List Pt) : flat (c :: cs) = c.x :: c.y :: flat cs := by
  simp [flat]

theorem flat_append (a b : List Pt) : flat (a ++ b) = flat a ++ flat b := by
  simp [flat]

theorem flat_length (cs : List Pt) : (flat cs).length = 2 * cs.length := by
  induction cs with
  | nil => rfl
  | cons c cs ih => rw [flat_cons]; simp [ih]; omega

theorem flatInto_eq (v : List Rat) (ls : List Pt) : flatInto v ls = v ++ flat ls := by
  unfold flatInto
  induction ls generalizing v with
  | nil => simp [flat]
  | cons c cs ih => rw [List.foldl_cons, ih, flat_cons]; simp

/-- state of the loop over the interiors after a prefix of them has been processed -/
theorem earcut_fold (e : List Pt) (done rest : List (List Pt)) (idx : List Nat) :
    (rest.foldl earcutStep ⟨flat (e ++ done.flatten), idx⟩) =
      ⟨flat (e ++ (done ++ rest).flatten),
        idx ++ (List.range rest.length).map
          (fun k => e.length + (done.map List.length).sum + ((rest.take k).map List.length).sum)⟩ := by
  induction rest generalizing done idx with
  | nil => simp
  | cons r rest ih =>
    rw [List.foldl_cons]
    have h1 : earcutStep ⟨flat (e ++ done.flatten), idx⟩ r =
        ⟨flat (e ++ (done ++ [r]).flatten), idx ++ [e.length + (done.map List.length).sum]⟩ := by
      simp only [earcutStep, flatInto_eq, flat_length]
      congr 1
      · simp [flat_append]
      · congr 1
        simp [List.length_flatten]
    rw [h1, ih]
    congr 1
    · simp
    · rw [List.length_cons, List.range_succ_eq_map, List.map_cons, List.map_map]
      simp only [List.append_assoc, List.singleton_append, List.take_zero, List.map_nil, List.sum_nil,
        Nat.add_zero]
      congr 2
      apply List.map_congr_left
      intro k _
      simp [List.take_succ_cons, Nat.add_assoc]

theorem indexToCoord_flat (cs : List Pt) (i : Nat) : indexToCoord (flat cs) i = cs[i]? := by
  induction cs generalizing i with
  | nil => simp [indexToCoord, flat]
  | cons c cs ih =>
    cases i with
    | zero => simp [indexToCoord, flat_cons]
    | succ i =>
      have := ih i
      unfold indexToCoord at this ⊢
      rw [flat_cons]
      have e1 : (i + 1) * 2 = i * 2 + 1 + 1 := by omega
      have e2 : (i + 1) * 2 + 1 = (i * 2 + 1) + 1 + 1 := by omega
      rw [e1]
      simpa using this

theorem decodeRev_spec (cs : List Pt) :
    ∀ (n : Nat) (idx : List Nat), idx.length ≤ n → (∀ i ∈ idx, i < cs.length) →
      ∃ ts, decodeRev (flat cs) idx = some ts ∧ ts.length = idx.length / 3 ∧
        ∀ t ∈ ts, t.1 ∈ cs ∧ t.2.1 ∈ cs ∧ t.2.2 ∈ cs := by
  intro n
  induction n with
  | zero =>
    intro idx hl _
    have : idx = [] := List.eq_nil_of_length_eq_zero (Nat.le_zero.1 hl)
    subst this
    exact ⟨[], by simp [decodeRev]⟩
  | succ n ih =>
    intro idx hl hr
    match idx, hl, hr with
    | [], _, _ => exact ⟨[], by simp [decodeRev]⟩
    | [_], _, _ => exact ⟨[], by simp [decodeRev]⟩
    | [_, _], _, _ => exact ⟨[], by simp [decodeRev]⟩
    | i1 :: i2 :: i3 :: rest, hl, hr =>
      have h1 : i1 < cs.length := hr i1 (by simp)
      have h2 : i2 < cs.length := hr i2 (by simp)
      have h3 : i3 < cs.length := hr i3 (by simp)
      obtain ⟨ts, hts, hlen, hmem⟩ := ih rest (by simp at hl; omega) (fun i hi => hr i (by simp [hi]))
      refine ⟨(cs[i1], cs[i2], cs[i3]) :: ts, ?_, ?_, ?_⟩
      · simp [decodeRev, indexToCoord_flat, h1, h2, h3, hts]
      · simp [hlen]; omega
      · intro t ht
        rcases List.mem_cons.1 ht with rfl | ht
        · exact ⟨List.getElem_mem _, List.getElem_mem _, List.getElem_mem _⟩
        · exact hmem t ht

end Geo.Proofs.C10
