/-
  GeoProofs.Lemmas.C07Psd — the point–segment kernel `psd2` (= `line_segment_distance²`):
  minimality over the segment, attainment, non-negativity, zero ⇔ on the segment.
-/
import GeoModel.Distance
import GeoProofs.Lemmas.SegmentSpec
import Mathlib.Tactic.Linarith
import Mathlib.Tactic.Ring
import Mathlib.Tactic.FieldSimp
import Mathlib.Tactic.Positivity
import Mathlib.Tactic.NormNum

namespace Geo.Proofs.C07
open Geo Geo.Proofs.Kernel

/-- the point `a + t·(b − a)` -/
def segPt (a b : Pt) (t : Rat) : Pt := ⟨a.x + t * (b.x - a.x), a.y + t * (b.y - a.y)⟩

theorem SegMem_iff_segPt (p a b : Pt) : SegMem p a b ↔ ∃ t : Rat, 0 ≤ t ∧ t ≤ 1 ∧ p = segPt a b t := by
  constructor
  · rintro ⟨t, h0, h1, hx, hy⟩
    exact ⟨t, h0, h1, Pt.ext' hx hy⟩
  · rintro ⟨t, h0, h1, rfl⟩
    exact ⟨t, h0, h1, rfl, rfl⟩

theorem dist2_nonneg (p q : Pt) : 0 ≤ dist2 p q := by
  unfold dist2; nlinarith [mul_self_nonneg (p.x - q.x), mul_self_nonneg (p.y - q.y)]

theorem dist2_symm (p q : Pt) : dist2 p q = dist2 q p := by
  unfold dist2; ring

theorem dist2_eq_zero_iff (p q : Pt) : dist2 p q = 0 ↔ p = q := by
  unfold dist2
  constructor
  · intro h
    have hx : (p.x - q.x) * (p.x - q.x) = 0 := by
      nlinarith [mul_self_nonneg (p.x - q.x), mul_self_nonneg (p.y - q.y)]
    have hy : (p.y - q.y) * (p.y - q.y) = 0 := by
      nlinarith [mul_self_nonneg (p.x - q.x), mul_self_nonneg (p.y - q.y)]
    have hx' : p.x - q.x = 0 := by simpa using mul_self_eq_zero.mp hx
    have hy' : p.y - q.y = 0 := by simpa using mul_self_eq_zero.mp hy
    exact Pt.ext' (by linarith) (by linarith)
  · rintro rfl; ring

/-- squared length of the segment -/
def len2 (a b : Pt) : Rat := (b.x - a.x) * (b.x - a.x) + (b.y - a.y) * (b.y - a.y)

/-- `(p − a)·(b − a)` -/
def dotN (p a b : Pt) : Rat := (p.x - a.x) * (b.x - a.x) + (p.y - a.y) * (b.y - a.y)

/-- the numerator of `s` in `line_segment_distance` -/
def crossN (p a b : Pt) : Rat := (a.y - p.y) * (b.x - a.x) - (a.x - p.x) * (b.y - a.y)

theorem len2_pos {a b : Pt} (h : a ≠ b) : 0 < len2 a b := by
  unfold len2
  by_cases hx : b.x - a.x = 0
  · have hy : b.y - a.y ≠ 0 := by
      intro hy; exact h (Pt.ext' (by linarith) (by linarith))
    have := mul_self_pos.mpr hy
    nlinarith [mul_self_nonneg (b.x - a.x)]
  · have := mul_self_pos.mpr hx
    nlinarith [mul_self_nonneg (b.y - a.y)]

/-- `psd2` with the branch conditions cleared of the division -/
theorem psd2_eq (p a b : Pt) :
    psd2 p a b =
      if a = b then dist2 p a
      else if dotN p a b ≤ 0 then dist2 p a
      else if len2 a b ≤ dotN p a b then dist2 p b
      else crossN p a b * crossN p a b / len2 a b := by
  unfold psd2
  by_cases hab : a = b
  · simp [hab]
  · have hd := len2_pos hab
    have hbeq : (a == b) = false := by simp [hab]
    simp only [hbeq, if_neg hab, Bool.false_eq_true, if_false]
    have hd' : (b.x - a.x) * (b.x - a.x) + (b.y - a.y) * (b.y - a.y) = len2 a b := rfl
    have hn' : (p.x - a.x) * (b.x - a.x) + (p.y - a.y) * (b.y - a.y) = dotN p a b := rfl
    have hc' : (a.y - p.y) * (b.x - a.x) - (a.x - p.x) * (b.y - a.y) = crossN p a b := rfl
    rw [hd', hn', hc']
    have h1 : dotN p a b / len2 a b ≤ 0 ↔ dotN p a b ≤ 0 := by
      rw [div_le_iff₀ hd]; simp
    have h2 : dotN p a b / len2 a b ≥ 1 ↔ len2 a b ≤ dotN p a b := by
      rw [ge_iff_le, le_div_iff₀ hd]; simp
    simp only [h1, h2]
    split
    · rfl
    · split
      · rfl
      · field_simp

/-- Lagrange: `|p − a|²·|b − a|² = ((p − a)·(b − a))² + cross²` -/
theorem lagrange (p a b : Pt) :
    dist2 p a * len2 a b = dotN p a b * dotN p a b + crossN p a b * crossN p a b := by
  unfold dist2 len2 dotN crossN; ring

theorem dist2_segPt (p a b : Pt) (t : Rat) :
    dist2 p (segPt a b t) = dist2 p a - 2 * t * dotN p a b + t * t * len2 a b := by
  unfold dist2 segPt dotN len2; ring

theorem dist2_end (p a b : Pt) : dist2 p b = dist2 p a - 2 * dotN p a b + len2 a b := by
  unfold dist2 dotN len2; ring

theorem segPt_zero (a b : Pt) : segPt a b 0 = a := by
  unfold segPt; exact Pt.ext' (by ring) (by ring)

theorem segPt_one (a b : Pt) : segPt a b 1 = b := by
  unfold segPt; exact Pt.ext' (by ring) (by ring)

theorem segPt_self (a : Pt) (t : Rat) : segPt a a t = a := by
  unfold segPt; exact Pt.ext' (by ring) (by ring)

/-- **T1** `line_segment_distance` is a lower bound for the distance to every point of the segment -/
theorem psd2_le_segPt (p a b : Pt) (t : Rat) (h0 : 0 ≤ t) (h1 : t ≤ 1) :
    psd2 p a b ≤ dist2 p (segPt a b t) := by
  rw [psd2_eq]
  by_cases hab : a = b
  · subst hab; simp [segPt_self]
  · rw [if_neg hab]
    have hd := len2_pos hab
    rw [dist2_segPt]
    split
    · rename_i hN
      nlinarith [mul_nonneg h0 (neg_nonneg.mpr hN), mul_nonneg (mul_self_nonneg t) hd.le]
    · split
      · rename_i _ hN
        rw [dist2_end]
        have h1t : 0 ≤ 1 - t := by linarith
        nlinarith [mul_nonneg h1t (sub_nonneg.mpr hN), mul_nonneg (mul_nonneg h1t h1t) hd.le]
      · rw [div_le_iff₀ hd]
        have hl := lagrange p a b
        nlinarith [mul_self_nonneg (dotN p a b - t * len2 a b)]

/-- the parameter of the closest point: the clamped projection -/
def projT (p a b : Pt) : Rat :=
  if a = b then 0
  else if dotN p a b ≤ 0 then 0
  else if len2 a b ≤ dotN p a b then 1
  else dotN p a b / len2 a b

theorem projT_mem (p a b : Pt) : 0 ≤ projT p a b ∧ projT p a b ≤ 1 := by
  unfold projT
  split
  · exact ⟨le_refl _, by norm_num⟩
  · rename_i hab
    have hd := len2_pos hab
    split
    · exact ⟨le_refl _, by norm_num⟩
    · split
      · exact ⟨by norm_num, le_refl _⟩
      · rename_i h1 h2
        push Not at h1 h2
        exact ⟨(div_pos h1 hd).le, by rw [div_le_one hd]; exact h2.le⟩

/-- **T1** the bound is attained at the clamped projection -/
theorem psd2_eq_projT (p a b : Pt) : psd2 p a b = dist2 p (segPt a b (projT p a b)) := by
  rw [psd2_eq]
  unfold projT
  by_cases hab : a = b
  · subst hab; simp [segPt_self]
  · rw [if_neg hab, if_neg hab]
    have hd := len2_pos hab
    split
    · rw [segPt_zero]
    · split
      · rw [segPt_one]
      · rw [dist2_segPt]
        have hl := lagrange p a b
        have hne : len2 a b ≠ 0 := ne_of_gt hd
        field_simp
        nlinarith [hl]

theorem psd2_nonneg (p a b : Pt) : 0 ≤ psd2 p a b := by
  rw [psd2_eq_projT]; exact dist2_nonneg _ _

/-- **T1** `psd2 p a b` is the minimum of `|p − x|²` over the points `x` of the closed segment -/
theorem psd2_le_of_SegMem {p a b x : Pt} (hx : SegMem x a b) : psd2 p a b ≤ dist2 p x := by
  obtain ⟨t, h0, h1, rfl⟩ := (SegMem_iff_segPt x a b).mp hx
  exact psd2_le_segPt p a b t h0 h1

theorem psd2_attained (p a b : Pt) : ∃ x, SegMem x a b ∧ psd2 p a b = dist2 p x := by
  refine ⟨segPt a b (projT p a b), ?_, psd2_eq_projT p a b⟩
  rw [SegMem_iff_segPt]
  exact ⟨_, (projT_mem p a b).1, (projT_mem p a b).2, rfl⟩

/-- **T1** zero exactly for the points of the segment -/
theorem psd2_eq_zero_iff_SegMem (p a b : Pt) : psd2 p a b = 0 ↔ SegMem p a b := by
  constructor
  · intro h
    obtain ⟨x, hx, he⟩ := psd2_attained p a b
    rw [h] at he
    have : p = x := (dist2_eq_zero_iff p x).mp he.symm
    rw [this]; exact hx
  · intro h
    have h1 := psd2_le_of_SegMem (p := p) h
    have h2 : dist2 p p = 0 := (dist2_eq_zero_iff p p).mpr rfl
    have h3 := psd2_nonneg p a b
    linarith

theorem psd2_eq_zero_iff (p a b : Pt) : psd2 p a b = 0 ↔ lineCoord a b p = true := by
  rw [psd2_eq_zero_iff_SegMem, lineCoord_iff]

/-- the segment may be traversed in either direction -/
theorem psd2_rev (p a b : Pt) : psd2 p a b = psd2 p b a := by
  apply le_antisymm
  · obtain ⟨x, hx, he⟩ := psd2_attained p b a
    rw [he]; exact psd2_le_of_SegMem (SegMem_symm hx)
  · obtain ⟨x, hx, he⟩ := psd2_attained p a b
    rw [he]; exact psd2_le_of_SegMem (SegMem_symm hx)

end Geo.Proofs.C07
