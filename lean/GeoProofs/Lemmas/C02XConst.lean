/-
  C02X, part 5: the specification's point location is constant on every elementary sub-segment of
  the arrangement, for arbitrary operands with closed rings (`locate_const`); hence every point that
  is a vertex of the arrangement or lies on one of its segments is represented by an atom with the
  same pair of locations (`atom_of_located`), and the corresponding cell of the DE-9IM specification
  is not `F` (`cell_of_located`).

  (`C02QHoles.ring_location_const` is the special case of one hole-free ring.)
-/
import GeoProofs.Lemmas.C02XAdj
import GeoProofs.Lemmas.C02XBox
import GeoProofs.Lemmas.C01QDisjoint

set_option linter.unusedSimpArgs false
set_option linter.unusedVariables false

namespace Geo.Proofs.C02X
open Geo Geo.Proofs.Kernel Geo.Proofs.Spec Geo.Proofs.C02Q Geo.Proofs.WIND

/-! ### every written coordinate is a vertex of the arrangement -/

theorem single_mem_vertsOf {pa pb : Parts} {x : Pt}
    (h : [x] ∈ pa.curves ++ pb.curves ++ (pa.areas ++ pb.areas).flatMap Poly.rings) :
    x ∈ vertsOf pa pb := by
  unfold vertsOf
  rw [Geo.Proofs.Spec.mem_dedupPts]
  apply List.mem_append_left
  apply List.mem_append_left
  apply List.mem_append_left
  apply List.mem_append_right
  rw [List.mem_flatMap]
  exact ⟨[x], h, by simp [singleOf]⟩

theorem list_coord_mem_verts {pa pb : Parts} {l : List Pt}
    (hsub : ∀ s ∈ segs l, s ∈ pa.allSegs ++ pb.allSegs)
    (hmem : l ∈ pa.curves ++ pb.curves ++ (pa.areas ++ pb.areas).flatMap Poly.rings)
    {x : Pt} (hx : x ∈ l) : x ∈ vertsOf pa pb := by
  match l, hx with
  | [y], hx =>
    have : x = y := by simpa using hx
    subst this
    exact single_mem_vertsOf hmem
  | y :: z :: t, hx =>
    obtain ⟨s, hs, he⟩ := mem_seg_end (c := y :: z :: t) (by simp) hx
    obtain ⟨e1, e2⟩ := ends_mem_vertsOf (hsub s hs)
    rcases he with e | e
    · rw [e]; exact e1
    · rw [e]; exact e2

theorem areaSegs_sub_allSegs {ps : Parts} {q : Poly} {r : List Pt} (hq : q ∈ ps.areas) (hr : r ∈ q.rings)
    {s : Pt × Pt} (hs : s ∈ segs r) : s ∈ ps.allSegs := by
  unfold Parts.allSegs Parts.areaSegs
  apply List.mem_append_right
  exact List.mem_flatMap.mpr ⟨r, List.mem_flatMap.mpr ⟨q, hq, hr⟩, hs⟩

theorem curveSegs_sub_allSegs' {ps : Parts} {c : List Pt} (hc : c ∈ ps.curves)
    {s : Pt × Pt} (hs : s ∈ segs c) : s ∈ ps.allSegs := by
  unfold Parts.allSegs Parts.curveSegs
  apply List.mem_append_left
  exact List.mem_flatMap.mpr ⟨c, hc, hs⟩

theorem allCoords_mem_verts_left {pa pb : Parts} {c : Pt} (hc : c ∈ allCoords pa) : c ∈ vertsOf pa pb := by
  simp only [allCoords, List.mem_append, List.mem_flatten, List.mem_flatMap] at hc
  rcases hc with (hc | ⟨l, hl, hcl⟩) | ⟨r, ⟨q, hq, hr⟩, hcr⟩
  · exact pts_mem_vertsOf hc
  · apply list_coord_mem_verts (l := l) _ _ hcl
    · intro s hs; exact List.mem_append_left _ (curveSegs_sub_allSegs' hl hs)
    · exact List.mem_append_left _ (List.mem_append_left _ hl)
  · apply list_coord_mem_verts (l := r) _ _ hcr
    · intro s hs; exact List.mem_append_left _ (areaSegs_sub_allSegs hq hr hs)
    · apply List.mem_append_right
      rw [List.mem_flatMap]
      exact ⟨q, List.mem_append_left _ hq, hr⟩

theorem allCoords_mem_verts_right {pa pb : Parts} {c : Pt} (hc : c ∈ allCoords pb) : c ∈ vertsOf pa pb :=
  (mem_vertsOf_comm pb pa c).mp (allCoords_mem_verts_left hc)

/-! ### location is constant on an elementary sub-segment -/

/-- **the specification's location relative to `ps` is constant on every elementary sub-segment** of
the arrangement `(pa, pb)`, for any parts `ps` made of edges and coordinates of the arrangement
with closed rings (in particular `ps = pa` and `ps = pb`). -/
theorem locate_const {pa pb ps : Parts} (hsub : ∀ s ∈ ps.allSegs, s ∈ pa.allSegs ++ pb.allSegs)
    (hco : ∀ c ∈ allCoords ps, c ∈ vertsOf pa pb) (hcl : ClosedRings ps)
    {a b u v : Pt} (hs : (a, b) ∈ pa.allSegs ++ pb.allSegs) (E : Elem (vertsOf pa pb) a b u v)
    {p m : Pt} (hp : Within a b u v p) (hm : Within a b u v m) :
    locateParts ps m = locateParts ps p := by
  have nv : ∀ z, Within a b u v z → z ∉ vertsOf pa pb := by
    intro z hz hv
    rcases E.no_vertex hv hz.1 with h | h
    · exact absurd hz.2.1 (not_lt.mpr h)
    · exact absurd hz.2.2 (not_lt.mpr h)
  have nco : ∀ z, Within a b u v z → z ∉ allCoords ps := fun z hz hc => nv z hz (hco z hc)
  have segiff : ∀ x y, Within a b u v x → Within a b u v y → ∀ s ∈ ps.allSegs,
      SegMem x s.1 s.2 → SegMem y s.1 s.2 :=
    fun x y hx hy s hs' hxs => edge_all_or_nothing hs (show (s.1, s.2) ∈ _ from hsub s hs') E hx hxs hy
  -- on the rings of one member
  have onq : ∀ x y, Within a b u v x → Within a b u v y → ∀ q ∈ ps.areas,
      onAnySeg x (q.rings.flatMap segs) = true → onAnySeg y (q.rings.flatMap segs) = true := by
    intro x y hx hy q hq hon
    rw [Geo.Proofs.Spec.onAnySeg_iff] at hon ⊢
    obtain ⟨s, hs', hl⟩ := hon
    refine ⟨s, hs', (lineCoord_iff _ _ _).mpr ?_⟩
    obtain ⟨r, hr, hsr⟩ := List.mem_flatMap.mp hs'
    exact segiff x y hx hy s (areaSegs_sub_allSegs hq hr hsr) ((lineCoord_iff _ _ _).mp hl)
  have inq : ∀ x y, Within a b u v x → Within a b u v y → inAnyPoly ps.areas x = true →
      inAnyPoly ps.areas y = true := by
    intro x y hx hy hin
    unfold inAnyPoly at hin ⊢
    rw [List.any_eq_true] at hin ⊢
    obtain ⟨q, hq, hc⟩ := hin
    rw [Bool.and_eq_true, Bool.not_eq_true'] at hc
    obtain ⟨hoff, hins⟩ := hc
    refine ⟨q, hq, ?_⟩
    rw [Bool.and_eq_true, Bool.not_eq_true']
    have hoffy : onAnySeg y (q.rings.flatMap segs) = false := by
      cases hc : onAnySeg y (q.rings.flatMap segs) with
      | false => rfl
      | true => rw [onq y x hy hx q hq hc] at hoff; cases hoff
    refine ⟨hoffy, ?_⟩
    have hw : ∀ r ∈ q.rings, windingE (EPt.ofPt y) r = windingE (EPt.ofPt x) r := by
      intro r hr
      apply windingE_const r (hcl q hq r hr) y x
      intro s hs' ⟨z, hz1, hz2⟩
      have hzw : Within a b u v z := Within.convex E.hab hy hx hz2
      have hxs := segiff z x hzw hx s (areaSegs_sub_allSegs hq hr hs') hz1
      have : onAnySeg x (q.rings.flatMap segs) = true := by
        rw [Geo.Proofs.Spec.onAnySeg_iff]
        exact ⟨s, List.mem_flatMap.mpr ⟨r, hr, hs'⟩, (lineCoord_iff _ _ _).mpr hxs⟩
      rw [hoff] at this; cases this
    unfold insidePolyE at hins ⊢
    rw [Bool.and_eq_true, List.all_eq_true] at hins ⊢
    refine ⟨?_, ?_⟩
    · rw [hw q.ext (by simp [Poly.rings])]; exact hins.1
    · intro h hh
      rw [hw h (by simp [Poly.rings, hh])]; exact hins.2 h hh
  have nosingle : ∀ z, Within a b u v z → (ps.areas.any fun q => q.rings.any fun r => r == [z]) = false := by
    intro z hz
    rw [List.any_eq_false]
    intro q hq
    rw [Bool.not_eq_true, List.any_eq_false]
    intro r hr hrz
    rw [beq_iff_eq] at hrz
    exact nco z hz (mem_allCoords_ring hq hr (by rw [hrz]; simp))
  have ringq : ∀ x y, Within a b u v x → Within a b u v y → onAnyRing ps.areas x = true →
      onAnyRing ps.areas y = true := by
    intro x y hx hy hon
    unfold onAnyRing at hon ⊢
    rw [nosingle x hx, Bool.or_false, List.any_eq_true] at hon
    obtain ⟨q, hq, h⟩ := hon
    rw [Bool.or_eq_true, List.any_eq_true]
    exact Or.inl ⟨q, hq, onq x y hx hy q hq h⟩
  have curveq : ∀ x y, Within a b u v x → Within a b u v y → onAnyCurve ps.curves x = true →
      onAnyCurve ps.curves y = true := by
    intro x y hx hy hon
    unfold onAnyCurve at hon ⊢
    rw [List.any_eq_true] at hon ⊢
    obtain ⟨c, hc, h⟩ := hon
    refine ⟨c, hc, ?_⟩
    rw [Geo.Proofs.Spec.onAnySeg_iff] at h ⊢
    obtain ⟨s, hs', hl⟩ := h
    exact ⟨s, hs', (lineCoord_iff _ _ _).mpr
      (segiff x y hx hy s (curveSegs_sub_allSegs' hc hs') ((lineCoord_iff _ _ _).mp hl))⟩
  have noend : ∀ z, Within a b u v z → esum z ps.curves = 0 := by
    intro z hz
    by_contra hne
    obtain ⟨c, hc, hec⟩ := exists_endC_of_esum hne
    obtain ⟨_, he⟩ := endC_ne_zero hec
    have hzc : z ∈ c := by
      rcases he with e | e
      · exact List.mem_of_mem_head? e
      · exact List.mem_of_mem_getLast? e
    exact nco z hz (mem_allCoords_curve hc hzc)
  have nopt : ∀ z, Within a b u v z → ps.pts.any (· == z) = false := by
    intro z hz
    rw [List.any_eq_false]
    intro x hx hxz
    rw [beq_iff_eq] at hxz
    exact nco z hz (mem_allCoords_pts (hxz ▸ hx))
  have h1 : inAnyPoly ps.areas m = inAnyPoly ps.areas p :=
    Bool.eq_iff_iff.mpr ⟨inq m p hm hp, inq p m hp hm⟩
  have h2 : onAnyRing ps.areas m = onAnyRing ps.areas p :=
    Bool.eq_iff_iff.mpr ⟨ringq m p hm hp, ringq p m hp hm⟩
  have h3 : onAnyCurve ps.curves m = onAnyCurve ps.curves p :=
    Bool.eq_iff_iff.mpr ⟨curveq m p hm hp, curveq p m hp hm⟩
  rw [locateParts_eq, locateParts_eq, h1, h2, h3, noend m hm, noend p hp, nopt m hm, nopt p hp]

/-! ### atoms for located points -/

/-- **every vertex of the arrangement and every point of one of its segments is represented by an
atom with the same pair of locations** (operands with closed rings). -/
theorem atom_of_located {pa pb : Parts} (ca : ClosedRings pa) (cb : ClosedRings pb) {p : Pt}
    (hp : p ∈ vertsOf pa pb ∨ ∃ s ∈ pa.allSegs ++ pb.allSegs, SegMem p s.1 s.2) :
    ∃ x ∈ atomsOf pa pb, x.posA = locateParts pa p ∧ x.posB = locateParts pb p ∧
      (x.dim = .zero ∨ x.dim = .one) := by
  by_cases hv : p ∈ vertsOf pa pb
  · exact ⟨_, vertex_atom_mem hv, rfl, rfl, Or.inl rfl⟩
  · rcases hp with hp | ⟨⟨a, b⟩, hs, hpm⟩
    · exact absurd hp hv
    · obtain ⟨ha, hb⟩ := ends_mem_vertsOf hs
      have hab : a ≠ b := by
        intro e
        subst e
        rw [SegMem_degenerate] at hpm
        exact hv (hpm ▸ ha)
      obtain ⟨u, v, E, hw⟩ := exists_elem hab ha hb hpm hv
      have hmw := E.midpoint_within
      obtain ⟨_, _, hall⟩ := segAtoms_of_pair pa pb hab E.pair E.ne
      refine ⟨⟨.one, locateParts pa (midpoint u v), locateParts pb (midpoint u v)⟩, ?_, ?_, ?_, Or.inr rfl⟩
      · unfold atomsOf
        exact List.mem_append_right _ (List.mem_flatMap.mpr ⟨(a, b), hs, hall _ (Or.inl rfl)⟩)
      · exact locate_const (fun s hs' => List.mem_append_left _ hs') (fun c hc => allCoords_mem_verts_left hc)
          ca hs E hw hmw
      · exact locate_const (fun s hs' => List.mem_append_right _ hs') (fun c hc => allCoords_mem_verts_right hc)
          cb hs E hw hmw

/-- … so the cell of the DE-9IM specification at the two locations of such a point is not `F`. -/
theorem cell_of_located {pa pb : Parts} (ca : ClosedRings pa) (cb : ClosedRings pb) {p : Pt}
    (hp : p ∈ vertsOf pa pb ∨ ∃ s ∈ pa.allSegs ++ pb.allSegs, SegMem p s.1 s.2) :
    (relateParts pa pb).get (locateParts pa p) (locateParts pb p) ≠ .empty := by
  obtain ⟨x, hx, hA, hB, _⟩ := atom_of_located ca cb hp
  intro he
  exact cell_empty_no_atom he hx hA hB

end Geo.Proofs.C02X
