/-
  Helper lemmas for C05 (winding order / orient).
-/
import GeoModel.Winding

namespace Geo.Proofs.C05L
open Geo

end Geo.Proofs.C05L
