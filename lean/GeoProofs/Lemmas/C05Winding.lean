/-
  Helper lemmas for C05 (winding order / orient): the lexicographic order, `least_index`,
  the pivot triple.
-/
import GeoModel.Winding
import Mathlib.Tactic.Linarith

namespace Geo.Proofs.C05L
open Geo

theorem lexLt_iff (a b : Pt) : lexLt a b = true ↔ a.x < b.x ∨ (a.x = b.x ∧ a.y < b.y) := by
  simp [lexLt]

theorem lexLt_irrefl (a : Pt) : lexLt a a = false := by
  rw [Bool.eq_false_iff]; intro h; rw [lexLt_iff] at h
  rcases h with h | ⟨_, h⟩ <;> exact absurd h (lt_irrefl _)

theorem lexLt_trans {a b c : Pt} (h1 : lexLt a b = true) (h2 : lexLt b c = true) : lexLt a c = true := by
  rw [lexLt_iff] at *
  rcases h1 with h1 | ⟨e1, h1⟩ <;> rcases h2 with h2 | ⟨e2, h2⟩
  · left; linarith
  · left; linarith
  · left; linarith
  · right; exact ⟨by linarith, by linarith⟩

/-- `a < b` and `¬ c < b` (i.e. `b ≤ c`) give `a < c` -/
theorem lexLt_of_lt_of_not_lt {a b c : Pt} (h1 : lexLt a b = true) (h2 : lexLt c b = false) :
    lexLt a c = true := by
  rw [Bool.eq_false_iff, Ne, lexLt_iff] at h2
  rw [lexLt_iff] at h1 ⊢
  have h2' : ¬ (c.x < b.x) ∧ ¬ (c.x = b.x ∧ c.y < b.y) := by
    constructor
    · intro h; exact h2 (Or.inl h)
    · intro h; exact h2 (Or.inr h)
  obtain ⟨hx, hy⟩ := h2'
  have hx' : b.x ≤ c.x := not_lt.1 hx
  rcases h1 with h1 | ⟨e1, h1⟩
  · left; linarith
  · rcases lt_or_eq_of_le hx' with h | h
    · left; linarith
    · right
      refine ⟨by linarith, ?_⟩
      have : ¬ c.y < b.y := fun hh => hy ⟨h.symm, hh⟩
      have := not_lt.1 this
      linarith

/-- what `least_index` guarantees: the returned point sits at the returned index and nothing in
the list is lexicographically smaller. -/
theorem leastIndexGo_spec (rest pre : List Pt) (j bi : Nat) (bp : Pt)
    (hj : pre.length = j) (hb : pre[bi]? = some bp) (hmin : ∀ q ∈ pre, lexLt q bp = false) :
    let res := leastIndexGo rest j bi bp
    (pre ++ rest)[res.1]? = some res.2 ∧ ∀ q ∈ pre ++ rest, lexLt q res.2 = false := by
  induction rest generalizing pre j bi bp with
  | nil => simpa [leastIndexGo] using ⟨hb, hmin⟩
  | cons p t ih =>
    simp only [leastIndexGo]
    by_cases hlt : lexLt p bp = true
    · rw [if_pos hlt]
      have := ih (pre ++ [p]) (j + 1) j p (by simp [hj]) (by simp [← hj]) (by
        intro q hq
        rcases List.mem_append.1 hq with hq | hq
        · -- q ≥ bp > p
          cases hqp : lexLt q p with
          | false => rfl
          | true => have := lexLt_trans hqp hlt; rw [hmin q hq] at this; exact absurd this (by decide)
        · have : q = p := by simpa using hq
          subst this; exact lexLt_irrefl q)
      simpa using this
    · rw [if_neg hlt]
      have hlt' : lexLt p bp = false := by simpa using hlt
      have := ih (pre ++ [p]) (j + 1) bi bp (by simp [hj]) (by
        have hbi : bi < pre.length := by
          rcases List.getElem?_eq_some_iff.1 hb with ⟨h, _⟩; exact h
        rw [List.getElem?_append_left hbi]; exact hb) (by
        intro q hq
        rcases List.mem_append.1 hq with hq | hq
        · exact hmin q hq
        · have : q = p := by simpa using hq
          subst this; exact hlt')
      simpa using this

theorem leastIndex_spec {r : List Pt} {i : Nat} {p : Pt} (h : leastIndex r = some (i, p)) :
    r[i]? = some p ∧ ∀ q ∈ r, lexLt q p = false := by
  cases r with
  | nil => simp [leastIndex] at h
  | cons a t =>
    simp only [leastIndex, Option.some.injEq] at h
    have := leastIndexGo_spec t [a] 1 0 a rfl rfl (by
      intro q hq
      have : q = a := by simpa using hq
      subst this; exact lexLt_irrefl q)
    simp only [h] at this
    simpa using this

theorem leastIndex_isSome {r : List Pt} (h : r ≠ []) : ∃ i p, leastIndex r = some (i, p) := by
  cases r with
  | nil => exact absurd rfl h
  | cons a t => exact ⟨_, _, rfl⟩

/-- the list splits at the pivot index -/
theorem split_at {r : List Pt} {i : Nat} {p : Pt} (h : r[i]? = some p) :
    r = r.take i ++ p :: r.drop (i + 1) := by
  rcases List.getElem?_eq_some_iff.1 h with ⟨hi, hp⟩
  rw [← hp]
  exact (List.take_append_drop i r).symm.trans (by rw [List.drop_eq_getElem_cons hi])

theorem mem_cyc {r : List Pt} {i : Nat} {p : Pt} (h : r[i]? = some p) (q : Pt) :
    q ∈ r ↔ q = p ∨ q ∈ cycAfter r i := by
  unfold cycAfter
  conv_lhs => rw [split_at h]
  simp only [List.mem_append, List.mem_cons]
  tauto

theorem mem_cycBefore (r : List Pt) (i : Nat) (q : Pt) : q ∈ cycBefore r i ↔ q ∈ cycAfter r i := by
  unfold cycBefore cycAfter
  simp only [List.mem_append, List.mem_reverse]
  tauto

/-- unfolding of `pivotTriple`, success case -/
theorem pivotTriple_some_iff (r : List Pt) (pv p nx : Pt) :
    pivotTriple r = some (pv, p, nx) ↔
      ∃ i, leastIndex r = some (i, p) ∧ (cycAfter r i).find? (· ≠ p) = some nx ∧
        (cycBefore r i).find? (· ≠ p) = some pv := by
  unfold pivotTriple
  split
  · rename_i hl
    constructor
    · intro h; cases h
    · rintro ⟨i, hl', _⟩; rw [hl] at hl'; cases hl'
  · rename_i i p0 hl
    split
    · rename_i nx0 pv0 hn hv
      constructor
      · intro h
        simp only [Option.some.injEq, Prod.mk.injEq] at h
        obtain ⟨rfl, rfl, rfl⟩ := h
        exact ⟨i, hl, hn, hv⟩
      · rintro ⟨i', hl', hn', hv'⟩
        rw [hl] at hl'
        simp only [Option.some.injEq, Prod.mk.injEq] at hl'
        obtain ⟨rfl, rfl⟩ := hl'
        rw [hn] at hn'; rw [hv] at hv'
        cases hn'; cases hv'; rfl
    · rename_i hno
      constructor
      · intro h; cases h
      · rintro ⟨i', hl', hn', hv'⟩
        rw [hl] at hl'
        simp only [Option.some.injEq, Prod.mk.injEq] at hl'
        obtain ⟨rfl, rfl⟩ := hl'
        exact absurd hv' (hno _ _ hn')

/-- unfolding of `pivotTriple`, failure case -/
theorem pivotTriple_none_cases {r : List Pt} (h : pivotTriple r = none) {i : Nat} {p : Pt}
    (hl : leastIndex r = some (i, p)) :
    (cycAfter r i).find? (· ≠ p) = none ∨ (cycBefore r i).find? (· ≠ p) = none := by
  cases hn : (cycAfter r i).find? (· ≠ p) with
  | none => exact Or.inl rfl
  | some nx =>
    cases hv : (cycBefore r i).find? (· ≠ p) with
    | none => exact Or.inr rfl
    | some pv =>
      have := (pivotTriple_some_iff r pv p nx).2 ⟨i, hl, hn, hv⟩
      rw [h] at this; cases this

end Geo.Proofs.C05L
