/-
  Helper lemmas for C05 (winding order / orient): the lexicographic order, `least_index`,
  the pivot triple.
-/
import GeoModel.Winding
import Mathlib.Tactic.Linarith
import Mathlib.Tactic.Ring

namespace Geo.Proofs.C05L
open Geo

theorem lexLt_iff (a b : Pt) : lexLt a b = true ↔ a.x < b.x ∨ (a.x = b.x ∧ a.y < b.y) := by
  simp [lexLt]

theorem lexLt_irrefl (a : Pt) : lexLt a a = false := by
  rw [Bool.eq_false_iff]; intro h; rw [lexLt_iff] at h
  rcases h with h | ⟨_, h⟩ <;> exact absurd h (lt_irrefl _)

theorem lexLt_trans {a b c : Pt} (h1 : lexLt a b = true) (h2 : lexLt b c = true) : lexLt a c = true := by
  rw [lexLt_iff] at *
  rcases h1 with h1 | ⟨e1, h1⟩ <;> rcases h2 with h2 | ⟨e2, h2⟩
  · left; linarith
  · left; linarith
  · left; linarith
  · right; exact ⟨by linarith, by linarith⟩

/-- `a < b` and `¬ c < b` (i.e. `b ≤ c`) give `a < c` -/
theorem lexLt_of_lt_of_not_lt {a b c : Pt} (h1 : lexLt a b = true) (h2 : lexLt c b = false) :
    lexLt a c = true := by
  rw [Bool.eq_false_iff, Ne, lexLt_iff] at h2
  rw [lexLt_iff] at h1 ⊢
  have h2' : ¬ (c.x < b.x) ∧ ¬ (c.x = b.x ∧ c.y < b.y) := by
    constructor
    · intro h; exact h2 (Or.inl h)
    · intro h; exact h2 (Or.inr h)
  obtain ⟨hx, hy⟩ := h2'
  have hx' : b.x ≤ c.x := not_lt.1 hx
  rcases h1 with h1 | ⟨e1, h1⟩
  · left; linarith
  · rcases lt_or_eq_of_le hx' with h | h
    · left; linarith
    · right
      refine ⟨by linarith, ?_⟩
      have : ¬ c.y < b.y := fun hh => hy ⟨h.symm, hh⟩
      have := not_lt.1 this
      linarith

/-- what `least_index` guarantees: the returned point sits at the returned index and nothing in
the list is lexicographically smaller. -/
theorem leastIndexGo_spec (rest pre : List Pt) (j bi : Nat) (bp : Pt)
    (hj : pre.length = j) (hb : pre[bi]? = some bp) (hmin : ∀ q ∈ pre, lexLt q bp = false) :
    let res := leastIndexGo rest j bi bp
    (pre ++ rest)[res.1]? = some res.2 ∧ ∀ q ∈ pre ++ rest, lexLt q res.2 = false := by
  induction rest generalizing pre j bi bp with
  | nil => simpa [leastIndexGo] using ⟨hb, hmin⟩
  | cons p t ih =>
    simp only [leastIndexGo]
    by_cases hlt : lexLt p bp = true
    · rw [if_pos hlt]
      have := ih (pre ++ [p]) (j + 1) j p (by simp [hj]) (by simp [← hj]) (by
        intro q hq
        rcases List.mem_append.1 hq with hq | hq
        · -- q ≥ bp > p
          cases hqp : lexLt q p with
          | false => rfl
          | true => have := lexLt_trans hqp hlt; rw [hmin q hq] at this; exact absurd this (by decide)
        · have : q = p := by simpa using hq
          subst this; exact lexLt_irrefl q)
      simpa using this
    · rw [if_neg hlt]
      have hlt' : lexLt p bp = false := by simpa using hlt
      have := ih (pre ++ [p]) (j + 1) bi bp (by simp [hj]) (by
        have hbi : bi < pre.length := by
          rcases List.getElem?_eq_some_iff.1 hb with ⟨h, _⟩; exact h
        rw [List.getElem?_append_left hbi]; exact hb) (by
        intro q hq
        rcases List.mem_append.1 hq with hq | hq
        · exact hmin q hq
        · have : q = p := by simpa using hq
          subst this; exact hlt')
      simpa using this

theorem leastIndex_spec {r : List Pt} {i : Nat} {p : Pt} (h : leastIndex r = some (i, p)) :
    r[i]? = some p ∧ ∀ q ∈ r, lexLt q p = false := by
  cases r with
  | nil => simp [leastIndex] at h
  | cons a t =>
    simp only [leastIndex, Option.some.injEq] at h
    have := leastIndexGo_spec t [a] 1 0 a rfl rfl (by
      intro q hq
      have : q = a := by simpa using hq
      subst this; exact lexLt_irrefl q)
    simp only [h] at this
    simpa using this

theorem leastIndex_isSome {r : List Pt} (h : r ≠ []) : ∃ i p, leastIndex r = some (i, p) := by
  cases r with
  | nil => exact absurd rfl h
  | cons a t => exact ⟨_, _, rfl⟩

/-- the list splits at the pivot index -/
theorem split_at {r : List Pt} {i : Nat} {p : Pt} (h : r[i]? = some p) :
    r = r.take i ++ p :: r.drop (i + 1) := by
  rcases List.getElem?_eq_some_iff.1 h with ⟨hi, hp⟩
  rw [← hp]
  exact (List.take_append_drop i r).symm.trans (by rw [List.drop_eq_getElem_cons hi])

theorem mem_cyc {r : List Pt} {i : Nat} {p : Pt} (h : r[i]? = some p) (q : Pt) :
    q ∈ r ↔ q = p ∨ q ∈ cycAfter r i := by
  unfold cycAfter
  conv_lhs => rw [split_at h]
  simp only [List.mem_append, List.mem_cons]
  tauto

theorem mem_cycBefore (r : List Pt) (i : Nat) (q : Pt) : q ∈ cycBefore r i ↔ q ∈ cycAfter r i := by
  unfold cycBefore cycAfter
  simp only [List.mem_append, List.mem_reverse]
  tauto

/-- unfolding of `pivotTriple`, success case -/
theorem pivotTriple_some_iff (r : List Pt) (pv p nx : Pt) :
    pivotTriple r = some (pv, p, nx) ↔
      ∃ i, leastIndex r = some (i, p) ∧ (cycAfter r i).find? (· ≠ p) = some nx ∧
        (cycBefore r i).find? (· ≠ p) = some pv := by
  unfold pivotTriple
  split
  · rename_i hl
    constructor
    · intro h; cases h
    · rintro ⟨i, hl', _⟩; rw [hl] at hl'; cases hl'
  · rename_i i p0 hl
    split
    · rename_i nx0 pv0 hn hv
      constructor
      · intro h
        simp only [Option.some.injEq, Prod.mk.injEq] at h
        obtain ⟨rfl, rfl, rfl⟩ := h
        exact ⟨i, hl, hn, hv⟩
      · rintro ⟨i', hl', hn', hv'⟩
        rw [hl] at hl'
        simp only [Option.some.injEq, Prod.mk.injEq] at hl'
        obtain ⟨rfl, rfl⟩ := hl'
        rw [hn] at hn'; rw [hv] at hv'
        cases hn'; cases hv'; rfl
    · rename_i hno
      constructor
      · intro h; cases h
      · rintro ⟨i', hl', hn', hv'⟩
        rw [hl] at hl'
        simp only [Option.some.injEq, Prod.mk.injEq] at hl'
        obtain ⟨rfl, rfl⟩ := hl'
        exact absurd hv' (hno _ _ hn')

/-- unfolding of `pivotTriple`, failure case -/
theorem pivotTriple_none_cases {r : List Pt} (h : pivotTriple r = none) {i : Nat} {p : Pt}
    (hl : leastIndex r = some (i, p)) :
    (cycAfter r i).find? (· ≠ p) = none ∨ (cycBefore r i).find? (· ≠ p) = none := by
  cases hn : (cycAfter r i).find? (· ≠ p) with
  | none => exact Or.inl rfl
  | some nx =>
    cases hv : (cycBefore r i).find? (· ≠ p) with
    | none => exact Or.inr rfl
    | some pv =>
      have := (pivotTriple_some_iff r pv p nx).2 ⟨i, hl, hn, hv⟩
      rw [h] at this; cases this

theorem lex_antisymm {a b : Pt} (h1 : lexLt a b = false) (h2 : lexLt b a = false) : a = b := by
  rw [Bool.eq_false_iff, Ne, lexLt_iff] at h1 h2
  have hx1 : ¬ a.x < b.x := fun h => h1 (Or.inl h)
  have hx2 : ¬ b.x < a.x := fun h => h2 (Or.inl h)
  have hx : a.x = b.x := le_antisymm (not_lt.1 hx2) (not_lt.1 hx1)
  have hy1 : ¬ a.y < b.y := fun h => h1 (Or.inr ⟨hx, h⟩)
  have hy2 : ¬ b.y < a.y := fun h => h2 (Or.inr ⟨hx.symm, h⟩)
  have hy : a.y = b.y := le_antisymm (not_lt.1 hy2) (not_lt.1 hy1)
  cases a; cases b; simp_all

theorem find_ne_of_not_mem {p : Pt} {l : List Pt} (h : p ∉ l) : l.find? (· ≠ p) = l.head? := by
  cases l with
  | nil => rfl
  | cons x t =>
    have : x ≠ p := fun e => h (e ▸ List.mem_cons_self)
    simp [this]

/-- the triple read off the cyclic sequence `c` of the coordinates other than the pivot -/
def tripleOf (p : Pt) (c : List Pt) : Option (Pt × Pt × Pt) :=
  match c.head?, c.getLast? with
  | some nx, some pv => some (pv, p, nx)
  | _, _ => none

theorem tripleOf_reverse (p : Pt) (c : List Pt) :
    tripleOf p c.reverse = (tripleOf p c).map (fun t => (t.2.2, t.2.1, t.1)) := by
  unfold tripleOf
  rw [List.head?_reverse, List.getLast?_reverse]
  cases c.head? <;> cases c.getLast? <;> rfl

/-- the least point found by `least_index` is *the* minimum: any minimal coordinate of the list
equals it -/
theorem leastIndex_of_min {r : List Pt} {p : Pt} (hp : p ∈ r) (hmin : ∀ q ∈ r, lexLt q p = false) :
    ∃ i, leastIndex r = some (i, p) := by
  obtain ⟨i, p', hl⟩ := leastIndex_isSome (r := r) (by intro e; rw [e] at hp; cases hp)
  obtain ⟨hidx, hmin'⟩ := leastIndex_spec hl
  have hp' : p' ∈ r := List.mem_of_getElem? hidx
  have : p' = p := lex_antisymm (hmin p' hp') (hmin' p hp)
  exact ⟨i, this ▸ hl⟩

theorem pivotTriple_of_finds {r : List Pt} {i : Nat} {p : Pt} {c : List Pt}
    (hl : leastIndex r = some (i, p))
    (hA : (cycAfter r i).find? (· ≠ p) = c.head?) (hB : (cycBefore r i).find? (· ≠ p) = c.getLast?) :
    pivotTriple r = tripleOf p c := by
  unfold pivotTriple tripleOf
  rw [hl]
  simp only [hA, hB]
  cases c.head? <;> cases c.getLast? <;> rfl

/-- shape 2: the pivot occurs exactly once -/
theorem pivotTriple_shape2 (a b : List Pt) (p : Pt) (ha : p ∉ a) (hb : p ∉ b)
    (hmin : ∀ q ∈ a ++ p :: b, lexLt q p = false) :
    pivotTriple (a ++ p :: b) = tripleOf p (b ++ a) := by
  obtain ⟨i, hl⟩ := leastIndex_of_min (r := a ++ p :: b) (by simp) hmin
  have hidx := (leastIndex_spec hl).1
  have hi : i = a.length := by
    rcases Nat.lt_trichotomy i a.length with h | h | h
    · rw [List.getElem?_append_left h] at hidx
      exact absurd (List.mem_of_getElem? hidx) ha
    · exact h
    · rw [List.getElem?_append_right (by omega)] at hidx
      obtain ⟨k, hk⟩ : ∃ k, i - a.length = k + 1 := ⟨i - a.length - 1, by omega⟩
      rw [hk, List.getElem?_cons_succ] at hidx
      exact absurd (List.mem_of_getElem? hidx) hb
  subst hi
  have hc : p ∉ b ++ a := by simp [ha, hb]
  apply pivotTriple_of_finds hl
  · have : cycAfter (a ++ p :: b) a.length = b ++ a := by simp [cycAfter]
    rw [this, find_ne_of_not_mem hc]
  · have : cycBefore (a ++ p :: b) a.length = (b ++ a).reverse := by simp [cycBefore]
    rw [this, find_ne_of_not_mem (fun h => hc (List.mem_reverse.1 h)), List.head?_reverse]

/-- shape 1: the pivot is the first and the closing coordinate and occurs nowhere else -/
theorem pivotTriple_shape1 (m : List Pt) (p : Pt) (hm : p ∉ m)
    (hmin : ∀ q ∈ p :: m ++ [p], lexLt q p = false) :
    pivotTriple (p :: m ++ [p]) = tripleOf p m := by
  obtain ⟨i, hl⟩ := leastIndex_of_min (r := p :: m ++ [p]) (by simp) hmin
  have hidx := (leastIndex_spec hl).1
  have hi : i = 0 ∨ i = m.length + 1 := by
    rcases Nat.eq_zero_or_pos i with h | h
    · exact Or.inl h
    · right
      obtain ⟨k, rfl⟩ : ∃ k, i = k + 1 := ⟨i - 1, by omega⟩
      rw [List.cons_append, List.getElem?_cons_succ] at hidx
      rcases Nat.lt_trichotomy k m.length with h' | h' | h'
      · rw [List.getElem?_append_left h'] at hidx
        exact absurd (List.mem_of_getElem? hidx) hm
      · omega
      · rw [List.getElem?_append_right (by omega)] at hidx
        have : k - m.length ≠ 0 := by omega
        obtain ⟨j, hj⟩ : ∃ j, k - m.length = j + 1 := ⟨k - m.length - 1, by omega⟩
        rw [hj] at hidx; simp at hidx
  have hmr : p ∉ m.reverse := by simpa using hm
  apply pivotTriple_of_finds hl
  · rcases hi with rfl | rfl
    · have : cycAfter (p :: m ++ [p]) 0 = m ++ [p] := by simp [cycAfter]
      rw [this, List.find?_append, find_ne_of_not_mem hm]; simp
    · have : cycAfter (p :: m ++ [p]) (m.length + 1) = p :: m := by simp [cycAfter]
      rw [this, List.find?_cons_of_neg (by simp), find_ne_of_not_mem hm]
  · rcases hi with rfl | rfl
    · have : cycBefore (p :: m ++ [p]) 0 = p :: m.reverse := by simp [cycBefore]
      rw [this, List.find?_cons_of_neg (by simp), find_ne_of_not_mem hmr, List.head?_reverse]
    · have : cycBefore (p :: m ++ [p]) (m.length + 1) = m.reverse ++ [p] := by simp [cycBefore]
      rw [this, List.find?_append, find_ne_of_not_mem hmr, List.head?_reverse]; simp


/-- Domain hypothesis of the reversal theorems: the lexicographically least point `p` of the list
occurs exactly once, or exactly twice as the first and the closing coordinate. Every simple closed
ring without repeated points satisfies it; a ring that passes through its least point twice (a
pinched, non-simple ring) does not. -/
def PivotOnce (r : List Pt) : Prop :=
  ∃ p, (∀ q ∈ r, lexLt q p = false) ∧
    ((∃ a b, r = a ++ p :: b ∧ p ∉ a ∧ p ∉ b) ∨ (∃ m, r = p :: m ++ [p] ∧ p ∉ m))

theorem PivotOnce.reverse {r : List Pt} (h : PivotOnce r) : PivotOnce r.reverse := by
  obtain ⟨p, hmin, hs⟩ := h
  refine ⟨p, fun q hq => hmin q (List.mem_reverse.1 hq), ?_⟩
  rcases hs with ⟨a, b, rfl, ha, hb⟩ | ⟨m, rfl, hm⟩
  · exact Or.inl ⟨b.reverse, a.reverse, by simp, by simpa using hb, by simpa using ha⟩
  · exact Or.inr ⟨m.reverse, by simp, by simpa using hm⟩

def swapTriple (t : Pt × Pt × Pt) : Pt × Pt × Pt := (t.2.2, t.2.1, t.1)

theorem pivotTriple_reverse {r : List Pt} (h : PivotOnce r) :
    pivotTriple r.reverse = (pivotTriple r).map swapTriple := by
  obtain ⟨p, hmin, hs⟩ := h
  rcases hs with ⟨a, b, rfl, ha, hb⟩ | ⟨m, rfl, hm⟩
  · have hr : (a ++ p :: b).reverse = b.reverse ++ p :: a.reverse := by simp
    rw [pivotTriple_shape2 a b p ha hb hmin, hr,
      pivotTriple_shape2 b.reverse a.reverse p (by simpa using hb) (by simpa using ha)
        (fun q hq => hmin q (by rw [← hr] at hq; exact List.mem_reverse.1 hq))]
    have : a.reverse ++ b.reverse = (b ++ a).reverse := by simp
    rw [this, tripleOf_reverse]; rfl
  · have hr : (p :: m ++ [p]).reverse = p :: m.reverse ++ [p] := by simp
    rw [pivotTriple_shape1 m p hm hmin, hr,
      pivotTriple_shape1 m.reverse p (by simpa using hm)
        (fun q hq => hmin q (by rw [← hr] at hq; exact List.mem_reverse.1 hq))]
    rw [tripleOf_reverse]; rfl

theorem cross_swap (a b c : Pt) : cross c b a = - cross a b c := by
  simp only [cross]; ring

def WO.flip : WO → WO
  | .cw => .ccw
  | .ccw => .cw

theorem ringClosed_reverse (r : List Pt) : ringClosed r.reverse = ringClosed r := by
  simp only [ringClosed, List.head?_reverse, List.getLast?_reverse]
  exact decide_eq_decide.2 eq_comm

/-- reversing a ring (under `PivotOnce`) flips its winding order -/
theorem windingOrder_reverse' {r : List Pt} (h : PivotOnce r) :
    windingOrder r.reverse = (windingOrder r).map WO.flip := by
  unfold windingOrder
  rw [List.length_reverse, ringClosed_reverse, pivotTriple_reverse h]
  split
  · rfl
  · cases pivotTriple r with
    | none => rfl
    | some t =>
      obtain ⟨pv, p, nx⟩ := t
      simp only [Option.map, swapTriple, orient, cross_swap pv p nx]
      rcases lt_trichotomy (cross pv p nx) 0 with c | c | c
      · have h1 : ¬ cross pv p nx > 0 := by linarith
        have h2 : -cross pv p nx > 0 := by linarith
        simp [h1, h2, c, WO.flip]
      · simp [c]
      · have h1 : ¬ cross pv p nx < 0 := by linarith
        have h2 : ¬ -cross pv p nx > 0 := by linarith
        have h3 : -cross pv p nx < 0 := by linarith
        simp [h2, h3, c, WO.flip]

end Geo.Proofs.C05L
