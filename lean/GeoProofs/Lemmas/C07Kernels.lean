/-
  GeoProofs.Lemmas.C07Kernels — the kernels of distance.rs over the point–segment kernel:
  non-negativity (and absence of panics on non-empty operands), zero ⇔ the short-circuit or a
  vertex on a segment, symmetry, the minimum over vertex–segment pairs.
-/
import GeoProofs.Lemmas.C07Psd
import GeoProofs.Lemmas.C07Fold

namespace Geo.Proofs.C07
open Geo Geo.Proofs.Kernel

/-! ### values of the point kernels -/

theorem fin_Ge0 {q : Rat} (h : 0 ≤ q) : (DV.fin q).Ge0 := h

theorem segD_Ge0 (p : Pt) (se : Pt × Pt) : (segD p se).Ge0 := psd2_nonneg p se.1 se.2

theorem segs_ne_nil_not_empty {cs : List Pt} (h : segs cs ≠ []) : cs.isEmpty = false := by
  cases cs with
  | nil => exact (h rfl).elim
  | cons _ _ => rfl


theorem ptPt2_Ge0 (p q : Pt) : (ptPt2 p q).Ge0 := dist2_nonneg p q
theorem ptLine2_Ge0 (p a b : Pt) : (ptLine2 p a b).Ge0 := psd2_nonneg p a b

theorem segFold_Ge0 (p : Pt) (ss : List (Pt × Pt)) :
    (foldMin (segD p) ss).Ge0 :=
  foldMin_Ge0 (fun se _ => segD_Ge0 p se)

theorem ptLs2_Ge0 (p : Pt) (cs : List Pt) : (ptLs2 p cs).Ge0 := by
  unfold ptLs2
  split
  · exact le_refl (0 : Rat)
  · exact segFold_Ge0 p (segs cs)

/-- a point is on the line string: on one of its segments -/
def OnLs (p : Pt) (cs : List Pt) : Prop := ∃ se ∈ segs cs, lineCoord se.1 se.2 p = true

theorem segFold_zero_iff (p : Pt) (ss : List (Pt × Pt)) :
    foldMin (segD p) ss = .fin 0 ↔
      ∃ se ∈ ss, lineCoord se.1 se.2 p = true := by
  rw [foldMin_eq_zero_iff (fun se _ => segD_Ge0 p se)]
  constructor
  · rintro ⟨se, hs, h⟩
    refine ⟨se, hs, ?_⟩
    rw [← psd2_eq_zero_iff]; exact DV.fin.inj h
  · rintro ⟨se, hs, h⟩
    exact ⟨se, hs, by unfold segD; rw [(psd2_eq_zero_iff p se.1 se.2).mpr h]⟩

/-- `Point × LineString` is zero for every point of the line string (whatever the tolerance test
says) -/
theorem ptLs2_zero_of_on {p : Pt} {cs : List Pt} (h : OnLs p cs) : ptLs2 p cs = .fin 0 := by
  unfold ptLs2
  split
  · rfl
  · exact (segFold_zero_iff p (segs cs)).mpr h

/-- …and for no other point, *provided* the tolerance test of `line_string_contains_point` has no
false positive on this input (finding K4: it has, off the grid) -/
theorem ptLs2_zero_imp_on {p : Pt} {cs : List Pt} (hne : cs ≠ [])
    (hT : lsContainsPointTol cs p = true → OnLs p cs) (h : ptLs2 p cs = .fin 0) : OnLs p cs := by
  unfold ptLs2 at h
  by_cases hc : lsContainsPointTol cs p = true
  · exact hT hc
  · have he : cs.isEmpty = false := by
      cases cs with
      | nil => exact (hne rfl).elim
      | cons _ _ => rfl
    simp only [hc, he, Bool.or_self, Bool.false_eq_true, if_false] at h
    exact (segFold_zero_iff p (segs cs)).mp h

/-! ### Line × Line -/

theorem lineLine2_Ge0 (a b c d : Pt) : (lineLine2 a b c d).Ge0 := by
  unfold lineLine2
  split
  · exact le_refl (0 : Rat)
  · exact DV.Ge0_min (DV.Ge0_min (DV.Ge0_min (ptLine2_Ge0 _ _ _) (ptLine2_Ge0 _ _ _)) (ptLine2_Ge0 _ _ _))
      (ptLine2_Ge0 _ _ _)

/-- **T1** `Line × Line` is zero exactly when the code's `intersects` says so, i.e. (by
`lineLine_iff`) exactly when the two closed segments share a point -/
theorem lineLine2_zero_iff (a b c d : Pt) : lineLine2 a b c d = .fin 0 ↔ lineLine a b c d = true := by
  unfold lineLine2
  by_cases h : lineLine a b c d = true
  · simp [h]
  · simp only [h, Bool.false_eq_true, if_false, iff_false]
    intro h0
    have g1 := ptLine2_Ge0 a c d; have g2 := ptLine2_Ge0 b c d
    have g3 := ptLine2_Ge0 c a b; have g4 := ptLine2_Ge0 d a b
    rw [DV.min_eq_zero_iff (DV.Ge0_min (DV.Ge0_min g1 g2) g3) g4,
      DV.min_eq_zero_iff (DV.Ge0_min g1 g2) g3, DV.min_eq_zero_iff g1 g2] at h0
    apply h
    rw [lineLine_iff]
    unfold ptLine2 at h0
    rcases h0 with ((h0 | h0) | h0) | h0
    · exact ⟨a, SegMem_left a b, (psd2_eq_zero_iff_SegMem a c d).mp (DV.fin.inj h0)⟩
    · exact ⟨b, SegMem_right a b, (psd2_eq_zero_iff_SegMem b c d).mp (DV.fin.inj h0)⟩
    · exact ⟨c, (psd2_eq_zero_iff_SegMem c a b).mp (DV.fin.inj h0), SegMem_left c d⟩
    · exact ⟨d, (psd2_eq_zero_iff_SegMem d a b).mp (DV.fin.inj h0), SegMem_right c d⟩

theorem lineLine2_zero_iff_common (a b c d : Pt) :
    lineLine2 a b c d = .fin 0 ↔ ∃ x, SegMem x a b ∧ SegMem x c d := by
  rw [lineLine2_zero_iff, lineLine_iff]

/-- **T1** `Line × Line` is symmetric, although neither `intersects` nor the `min` chain is
written symmetrically -/
theorem lineLine2_symm (a b c d : Pt) : lineLine2 a b c d = lineLine2 c d a b := by
  unfold lineLine2
  rw [lineLine_symm a b c d]
  split
  · rfl
  · -- ((A ∧ B) ∧ C) ∧ D  =  ((C ∧ D) ∧ A) ∧ B
    generalize ptLine2 a c d = A
    generalize ptLine2 b c d = B
    generalize ptLine2 c a b = C
    generalize ptLine2 d a b = D
    rw [DV.min_assoc (A.min B) C D, DV.min_comm (A.min B) (C.min D), ← DV.min_assoc (C.min D) A B]

/-- every value the `min` chain looks at is the distance from an end point to a point of the other
segment, so the result bounds `|x − y|²` from below only through `psd2` (see `psd2_le_of_SegMem`):
when the segments do not intersect, the result is one of the four end-point distances -/
theorem lineLine2_cases (a b c d : Pt) (h : lineLine a b c d = false) :
    lineLine2 a b c d = .fin (psd2 a c d) ∨ lineLine2 a b c d = .fin (psd2 b c d) ∨
    lineLine2 a b c d = .fin (psd2 c a b) ∨ lineLine2 a b c d = .fin (psd2 d a b) := by
  unfold lineLine2 ptLine2
  simp only [h, Bool.false_eq_true, if_false]
  rcases DV.min_cases (((DV.fin (psd2 a c d)).min (.fin (psd2 b c d))).min (.fin (psd2 c a b))) (.fin (psd2 d a b)) with h1 | h1
  · rw [h1]
    rcases DV.min_cases ((DV.fin (psd2 a c d)).min (.fin (psd2 b c d))) (.fin (psd2 c a b)) with h2 | h2
    · rw [h2]
      rcases DV.min_cases (DV.fin (psd2 a c d)) (.fin (psd2 b c d)) with h3 | h3
      · rw [h3]; exact Or.inl rfl
      · rw [h3]; exact Or.inr (Or.inl rfl)
    · rw [h2]; exact Or.inr (Or.inr (Or.inl rfl))
  · rw [h1]; exact Or.inr (Or.inr (Or.inr rfl))

/-- the result never exceeds any of the four end-point distances -/
theorem lineLine2_Lb_inv (a b c d : Pt) {m : Rat} (h : DV.Lb m (lineLine2 a b c d))
    (hx : lineLine a b c d = false) :
    m ≤ psd2 a c d ∧ m ≤ psd2 b c d ∧ m ≤ psd2 c a b ∧ m ≤ psd2 d a b := by
  unfold lineLine2 at h
  simp only [hx, Bool.false_eq_true, if_false] at h
  have g1 := ptLine2_Ge0 a c d; have g2 := ptLine2_Ge0 b c d
  have g3 := ptLine2_Ge0 c a b; have g4 := ptLine2_Ge0 d a b
  obtain ⟨h123, h4⟩ := DV.Lb_min_inv (DV.Ge0_min (DV.Ge0_min g1 g2) g3) g4 h
  obtain ⟨h12, h3⟩ := DV.Lb_min_inv (DV.Ge0_min g1 g2) g3 h123
  obtain ⟨h1, h2⟩ := DV.Lb_min_inv g1 g2 h12
  exact ⟨h1, h2, h3, h4⟩

/-! ### Line × LineString, Line × Polygon -/

theorem lineSegD_Ge0 (a b : Pt) (se : Pt × Pt) : (lineSegD a b se).Ge0 := lineLine2_Ge0 a b se.1 se.2

theorem lineLs2_Ge0 (a b : Pt) (cs : List Pt) : (lineLs2 a b cs).Ge0 :=
  foldMin_Ge0 (fun se _ => lineSegD_Ge0 a b se)

theorem lineLs2_zero_iff (a b : Pt) (cs : List Pt) :
    lineLs2 a b cs = .fin 0 ↔ ∃ se ∈ segs cs, lineLine a b se.1 se.2 = true := by
  unfold lineLs2
  rw [foldMin_eq_zero_iff (fun se _ => lineSegD_Ge0 a b se)]
  simp only [lineSegD, lineLine2_zero_iff]

theorem linePoly2_Ge0 (a b : Pt) (poly : Poly) : (linePoly2 a b poly).Ge0 := by
  unfold linePoly2
  split
  · exact le_refl (0 : Rat)
  · exact foldMin_Ge0 (fun r _ => lineLs2_Ge0 a b r)

/-- `Line × Polygon` is zero exactly when the code's own `intersects` short-circuit fires or the
line meets a ring segment (which `intersects` already covers: its first two disjuncts are the
ring tests up to the bounding-box rejection) -/
theorem linePoly2_zero_iff (a b : Pt) (poly : Poly) :
    linePoly2 a b poly = .fin 0 ↔
      polyLineIntersects poly a b = true ∨
        ∃ r ∈ poly.ext :: poly.ints, ∃ se ∈ segs r, lineLine a b se.1 se.2 = true := by
  unfold linePoly2
  by_cases h : polyLineIntersects poly a b = true
  · simp [h]
  · simp only [h, Bool.false_eq_true, if_false, false_or]
    rw [foldMin_eq_zero_iff (fun r _ => lineLs2_Ge0 a b r)]
    simp only [lineLs2_zero_iff]

/-! ### nearest_neighbour_distance -/

theorem nnOneWay_Ge0 {cs : List Pt} (qs : List Pt) (h : qs = [] ∨ segs cs ≠ []) : (nnOneWay cs qs).Ge0 := by
  unfold nnOneWay
  apply foldMin_Ge0
  intro q hq
  rcases h with rfl | h
  · cases hq
  · have : (segs cs).isEmpty = false := by
      cases hs : segs cs with
      | nil => exact (h hs).elim
      | cons _ _ => rfl
    simp only [this, Bool.false_eq_true, if_false]
    exact segFold_Ge0 q (segs cs)

/-- `nearest_neighbour_distance` does not depend on the order of its arguments -/
theorem nnDist2_symm (g1 g2 : List Pt) : nnDist2 g1 g2 = nnDist2 g2 g1 := DV.min_comm _ _

theorem nnDist2_Ge0 {g1 g2 : List Pt} (h1 : segs g1 ≠ []) (h2 : segs g2 ≠ []) : (nnDist2 g1 g2).Ge0 :=
  DV.Ge0_min (nnOneWay_Ge0 g2 (Or.inr h1)) (nnOneWay_Ge0 g1 (Or.inr h2))

theorem nnOneWay_eq {cs : List Pt} (qs : List Pt) (h : segs cs ≠ []) :
    nnOneWay cs qs = foldMin (fun q => foldMin (segD q) (segs cs)) qs := by
  unfold nnOneWay
  have : (segs cs).isEmpty = false := by
    cases hs : segs cs with
    | nil => exact (h hs).elim
    | cons _ _ => rfl
  simp only [this, Bool.false_eq_true, if_false]

/-- zero exactly when a vertex of one lies on a segment of the other -/
theorem nnDist2_zero_iff {g1 g2 : List Pt} (h1 : segs g1 ≠ []) (h2 : segs g2 ≠ []) :
    nnDist2 g1 g2 = .fin 0 ↔ (∃ q ∈ g2, OnLs q g1) ∨ (∃ q ∈ g1, OnLs q g2) := by
  unfold nnDist2
  rw [DV.min_eq_zero_iff (nnOneWay_Ge0 g2 (Or.inr h1)) (nnOneWay_Ge0 g1 (Or.inr h2)),
    nnOneWay_eq g2 h1, nnOneWay_eq g1 h2,
    foldMin_eq_zero_iff (fun q _ => segFold_Ge0 q (segs g1)),
    foldMin_eq_zero_iff (fun q _ => segFold_Ge0 q (segs g2))]
  simp only [segFold_zero_iff, OnLs]

/-- **min over all vertex–segment pairs**: a finite result `m` is a lower bound for the distance
from every vertex of one operand to every point of every segment of the other -/
theorem nnDist2_le {g1 g2 : List Pt} (h1 : segs g1 ≠ []) (h2 : segs g2 ≠ []) {m : Rat}
    (hm : nnDist2 g1 g2 = .fin m) :
    (∀ q ∈ g2, ∀ se ∈ segs g1, ∀ x, SegMem x se.1 se.2 → m ≤ dist2 q x) ∧
    (∀ q ∈ g1, ∀ se ∈ segs g2, ∀ x, SegMem x se.1 se.2 → m ≤ dist2 q x) := by
  unfold nnDist2 at hm
  have hL : DV.Lb m ((nnOneWay g1 g2).min (nnOneWay g2 g1)) := by rw [hm]; exact le_refl m
  obtain ⟨hA, hB⟩ := DV.Lb_min_inv (nnOneWay_Ge0 g2 (Or.inr h1)) (nnOneWay_Ge0 g1 (Or.inr h2)) hL
  rw [nnOneWay_eq g2 h1] at hA
  rw [nnOneWay_eq g1 h2] at hB
  constructor
  · intro q hq se hse x hx
    have := foldMin_Lb_inv (fun q _ => segFold_Ge0 q (segs g1)) hA q hq
    have := foldMin_Lb_inv (fun se _ => segD_Ge0 q se) this se hse
    exact le_trans this (psd2_le_of_SegMem hx)
  · intro q hq se hse x hx
    have := foldMin_Lb_inv (fun q _ => segFold_Ge0 q (segs g2)) hB q hq
    have := foldMin_Lb_inv (fun se _ => segD_Ge0 q se) this se hse
    exact le_trans this (psd2_le_of_SegMem hx)

/-- …and it is attained: `m` is the distance from some vertex to some point of a segment of the
other operand -/
theorem nnDist2_attained {g1 g2 : List Pt} (h1 : segs g1 ≠ []) (h2 : segs g2 ≠ []) {m : Rat}
    (hm : nnDist2 g1 g2 = .fin m) :
    (∃ q ∈ g2, ∃ se ∈ segs g1, ∃ x, SegMem x se.1 se.2 ∧ m = dist2 q x) ∨
    (∃ q ∈ g1, ∃ se ∈ segs g2, ∃ x, SegMem x se.1 se.2 ∧ m = dist2 q x) := by
  unfold nnDist2 at hm
  have key : ∀ (cs qs : List Pt), segs cs ≠ [] → nnOneWay cs qs = .fin m →
      ∃ q ∈ qs, ∃ se ∈ segs cs, ∃ x, SegMem x se.1 se.2 ∧ m = dist2 q x := by
    intro cs qs hcs h
    rw [nnOneWay_eq qs hcs] at h
    obtain ⟨⟨q, hq, hq'⟩, _⟩ := foldMin_fin (fun q _ => segFold_Ge0 q (segs cs)) h
    obtain ⟨⟨se, hse, hse'⟩, _⟩ := foldMin_fin (fun se _ => segD_Ge0 q se) hq'
    obtain ⟨x, hx, hx'⟩ := psd2_attained q se.1 se.2
    exact ⟨q, hq, se, hse, x, hx, by rw [← hx']; exact (DV.fin.inj hse').symm⟩
  rcases DV.min_cases (nnOneWay g1 g2) (nnOneWay g2 g1) with h | h
  · rw [h] at hm; exact Or.inl (key g1 g2 h1 hm)
  · rw [h] at hm; exact Or.inr (key g2 g1 h2 hm)

/-! ### LineString × LineString, LineString × Polygon, Polygon × Polygon, Point × Polygon -/

theorem lsLs2_zero_of_intersects {as bs : List Pt} (h : lsLsIntersects as bs = true) : lsLs2 as bs = .fin 0 := by
  unfold lsLs2; simp [h]

theorem lsLs2_Ge0 {as bs : List Pt} (h1 : segs as ≠ []) (h2 : segs bs ≠ []) : (lsLs2 as bs).Ge0 := by
  unfold lsLs2
  split
  · exact le_refl (0 : Rat)
  · exact nnDist2_Ge0 h1 h2

/-- zero exactly when `intersects` fires or a vertex of one lies on the other (which, for segments
that do not cross, is the only way two line strings can meet) -/
theorem lsLs2_zero_iff {as bs : List Pt} (h1 : segs as ≠ []) (h2 : segs bs ≠ []) :
    lsLs2 as bs = .fin 0 ↔ lsLsIntersects as bs = true ∨ (∃ q ∈ bs, OnLs q as) ∨ (∃ q ∈ as, OnLs q bs) := by
  unfold lsLs2
  by_cases h : lsLsIntersects as bs = true
  · simp [h]
  · simp only [h, Bool.false_eq_true, if_false, false_or]
    exact nnDist2_zero_iff h1 h2

theorem ptPoly2_Ge0 (p : Pt) (poly : Poly) : (ptPoly2 p poly).Ge0 := by
  unfold ptPoly2
  split
  · exact le_refl (0 : Rat)
  · exact DV.Ge0_min (foldMin_Ge0 (fun r _ => ptLs2_Ge0 p r)) (segFold_Ge0 p (segs poly.ext))

theorem ptPoly2_zero_of_intersects {p : Pt} {poly : Poly} (h : polyCoordIntersects poly p = true) :
    ptPoly2 p poly = .fin 0 := by
  unfold ptPoly2; simp [h]

theorem lsPoly2_zero_of_intersects {cs : List Pt} {poly : Poly} (h : lsPolyIntersects cs poly = true) :
    lsPoly2 cs poly = .fin 0 := by
  unfold lsPoly2; simp [h]

theorem polyPoly2_zero_of_intersects {a b : Poly} (h : polyPolyIntersects a b = true) :
    polyPoly2 a b = .fin 0 := by
  unfold polyPoly2; simp [h]

/-- ring lists all of whose members have a segment -/
def RingsOk (rs : List (List Pt)) : Prop := ∀ r ∈ rs, segs r ≠ []

theorem ringFold_Ge0 {cs : List Pt} {rs : List (List Pt)} (hc : segs cs ≠ []) (hr : RingsOk rs) :
    (foldMin (fun r => nnDist2 cs r) rs).Ge0 :=
  foldMin_Ge0 (fun r hr' => nnDist2_Ge0 hc (hr r hr'))

theorem lsPoly2_Ge0 {cs : List Pt} {poly : Poly} (hc : segs cs ≠ []) (he : segs poly.ext ≠ [])
    (hi : RingsOk poly.ints) : (lsPoly2 cs poly).Ge0 := by
  unfold lsPoly2
  rw [segs_ne_nil_not_empty hc]
  simp only [Bool.and_false, Bool.false_eq_true, if_false]
  split
  · exact le_refl (0 : Rat)
  · split
    · exact ringFold_Ge0 hc hi
    · exact nnDist2_Ge0 hc he

theorem polyPoly2_Ge0 {a b : Poly} (ha : segs a.ext ≠ []) (hb : segs b.ext ≠ [])
    (hai : RingsOk a.ints) (hbi : RingsOk b.ints) : (polyPoly2 a b).Ge0 := by
  unfold polyPoly2
  rw [segs_ne_nil_not_empty ha, segs_ne_nil_not_empty hb]
  simp only [Bool.and_false, Bool.false_eq_true, if_false]
  split
  · exact le_refl (0 : Rat)
  · split
    · exact ringFold_Ge0 hb hai
    · split
      · exact ringFold_Ge0 ha hbi
      · exact nnDist2_Ge0 ha hb

end Geo.Proofs.C07
