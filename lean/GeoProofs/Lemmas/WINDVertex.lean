/-
  WIND, part 7: the local statement at a vertex of a ring.

  Two consecutive edges `(a, v)`, `(v, b)` that share only `v`; `P` strictly inside the first, `Q`
  strictly inside the second. `vertex_local` is the identity between the quantities that enter the
  winding numbers of the left face samples beside `P` and beside `Q`: the increments of the two edges
  at the other point, the direction-dependent parts `lam`, and the potential differences picked up
  by the remaining edges along `P → v → Q`. It is a statement about five points only and is proved by
  cases on the directions of the two edges and on the turn at `v` (one lemma per case, generated).
-/
import GeoProofs.Lemmas.WINDLink

set_option linter.unusedSimpArgs false
set_option linter.unusedVariables false
set_option linter.unreachableTactic false
set_option linter.unusedTactic false

namespace Geo.Proofs.WIND
open Geo Geo.Proofs.Kernel Geo.Proofs.Loc Geo.Proofs.C02Q Geo.Proofs.Spec

/-- `lam` in coordinates -/
def lamR (ay by' ax bx : Rat) : Int :=
  if ay < by' then 1 else if by' < ay then 0 else if bx < ax then 1 else 0

theorem lam_eq (a b : Pt) : lam a b = lamR a.y b.y a.x b.x := rfl

/-- the statement of `vertex_local` in coordinates (`T` the turn determinant at `v`) -/
def VGoal (ay vy by' py qy ax vx bx t t' T : Rat) : Prop :=
  incR vy by' py ((1 - t) * T) + lamR ay vy ax vx =
    (if py < vy then inR py vy by' ((1 - t) * T) - inR py vy ay 0
     else if vy < py then -(inR vy py by' (-((1 - t) * T)) - inR vy py ay 0) else 0)
    + (if vy < qy then inR vy qy by' 0 - inR vy qy ay (t' * T)
       else if qy < vy then -(inR qy vy by' 0 - inR qy vy ay (-(t' * T))) else 0)
    + incR ay vy qy (t' * T) + lamR vy by' vx bx

/-- parallel edges in the same direction: the ordinate differences have the same sign -/
theorem par_contra {x1 y1 x2 y2 : Rat} (hT : x1 * y2 - y1 * x2 = 0) (hd : 0 < x1 * x2 + y1 * y2)
    (h : (y1 < 0 ∧ 0 < y2) ∨ (0 < y1 ∧ y2 < 0)) : False := by
  have hyy : y1 * y2 < 0 := by
    rcases h with ⟨h1, h2⟩ | ⟨h1, h2⟩
    · exact mul_neg_of_neg_of_pos h1 h2
    · exact mul_neg_of_pos_of_neg h1 h2
  have hxx : 0 < x1 * x2 := by linarith
  have e : (x1 * y2) * (y1 * x2) = (x1 * x2) * (y1 * y2) := by ring
  have e2 : x1 * y2 = y1 * x2 := by linarith
  rw [e2] at e
  have h1 := mul_self_nonneg (y1 * x2)
  have h2 := mul_neg_of_pos_of_neg hxx hyy
  linarith


theorem vleaf_nnn {ay vy by' py qy ax vx bx t t' T : Rat} (t0 : 0 < t) (t1 : t < 1) (t0' : 0 < t')
    (t1' : t' < 1) (hPy : py = ay + t * (vy - ay)) (hQy : qy = vy + t' * (by' - vy))
    (hTe : T = (vx - ax) * (by' - vy) - (vy - ay) * (bx - vx))
    (hav : ¬ (ax = vx ∧ ay = vy)) (hvb : ¬ (vx = bx ∧ vy = by'))
    (hU : T = 0 → 0 < (vx - ax) * (bx - vx) + (vy - ay) * (by' - vy))
    (d1 : vy - ay < 0) (d2 : by' - vy < 0) (sg : T < 0) :
    VGoal ay vy by' py qy ax vx bx t t' T := by
  have h1t : 0 < 1 - t := by linarith
  have hb1 : py < ay := by rw [hPy]; nlinarith
  have hb2 : vy < py := by rw [hPy]; nlinarith
  have hb3 : qy < vy := by rw [hQy]; nlinarith
  have hb4 : by' < qy := by rw [hQy]; nlinarith
  have g0 : ¬ ay < py := by linarith
  have g1 : ¬ ay ≤ py := by linarith
  have g2 : ¬ ay < vy := by linarith
  have g3 : ¬ ay ≤ vy := by linarith
  have g4 : py < ay := by linarith
  have g5 : py ≤ ay := by linarith
  have g6 : ¬ py < vy := by linarith
  have g7 : ¬ py ≤ vy := by linarith
  have g8 : vy < ay := by linarith
  have g9 : vy ≤ ay := by linarith
  have g10 : vy < py := by linarith
  have g11 : vy ≤ py := by linarith
  have k0 : ¬ vy < qy := by linarith
  have k1 : ¬ vy ≤ qy := by linarith
  have k2 : ¬ vy < by' := by linarith
  have k3 : ¬ vy ≤ by' := by linarith
  have k4 : qy < vy := by linarith
  have k5 : qy ≤ vy := by linarith
  have k6 : ¬ qy < by' := by linarith
  have k7 : ¬ qy ≤ by' := by linarith
  have k8 : by' < vy := by linarith
  have k9 : by' ≤ vy := by linarith
  have k10 : by' < qy := by linarith
  have k11 : by' ≤ qy := by linarith
  have f1 : ¬ 0 < (1 - t) * T := not_lt.mpr (mul_neg_of_pos_of_neg h1t sg).le
  have f2 : (1 - t) * T < 0 := mul_neg_of_pos_of_neg h1t sg
  have f3 : ¬ -((1 - t) * T) < 0 := by have := mul_neg_of_pos_of_neg h1t sg; linarith
  have f4 : ¬ 0 < t' * T := not_lt.mpr (mul_neg_of_pos_of_neg t0' sg).le
  have f5 : t' * T < 0 := mul_neg_of_pos_of_neg t0' sg
  have f6 : ¬ -(t' * T) < 0 := by have := mul_neg_of_pos_of_neg t0' sg; linarith
  unfold VGoal incR lamR
  simp only [inR_eq]
  simp only [g0, g1, g2, g3, g4, g5, g6, g7, g8, g9, g10, g11, k0, k1, k2, k3, k4, k5, k6, k7, k8, k9, k10, k11, f1, f2, f3, f4, f5, f6, lt_irrefl, ↓reduceIte]
  all_goals link_finish

theorem vleaf_nnz {ay vy by' py qy ax vx bx t t' T : Rat} (t0 : 0 < t) (t1 : t < 1) (t0' : 0 < t')
    (t1' : t' < 1) (hPy : py = ay + t * (vy - ay)) (hQy : qy = vy + t' * (by' - vy))
    (hTe : T = (vx - ax) * (by' - vy) - (vy - ay) * (bx - vx))
    (hav : ¬ (ax = vx ∧ ay = vy)) (hvb : ¬ (vx = bx ∧ vy = by'))
    (hU : T = 0 → 0 < (vx - ax) * (bx - vx) + (vy - ay) * (by' - vy))
    (d1 : vy - ay < 0) (d2 : by' - vy < 0) (sg : T = 0) :
    VGoal ay vy by' py qy ax vx bx t t' T := by
  have h1t : 0 < 1 - t := by linarith
  subst sg
  have hb1 : py < ay := by rw [hPy]; nlinarith
  have hb2 : vy < py := by rw [hPy]; nlinarith
  have hb3 : qy < vy := by rw [hQy]; nlinarith
  have hb4 : by' < qy := by rw [hQy]; nlinarith
  have g0 : ¬ ay < py := by linarith
  have g1 : ¬ ay ≤ py := by linarith
  have g2 : ¬ ay < vy := by linarith
  have g3 : ¬ ay ≤ vy := by linarith
  have g4 : py < ay := by linarith
  have g5 : py ≤ ay := by linarith
  have g6 : ¬ py < vy := by linarith
  have g7 : ¬ py ≤ vy := by linarith
  have g8 : vy < ay := by linarith
  have g9 : vy ≤ ay := by linarith
  have g10 : vy < py := by linarith
  have g11 : vy ≤ py := by linarith
  have k0 : ¬ vy < qy := by linarith
  have k1 : ¬ vy ≤ qy := by linarith
  have k2 : ¬ vy < by' := by linarith
  have k3 : ¬ vy ≤ by' := by linarith
  have k4 : qy < vy := by linarith
  have k5 : qy ≤ vy := by linarith
  have k6 : ¬ qy < by' := by linarith
  have k7 : ¬ qy ≤ by' := by linarith
  have k8 : by' < vy := by linarith
  have k9 : by' ≤ vy := by linarith
  have k10 : by' < qy := by linarith
  have k11 : by' ≤ qy := by linarith
  unfold VGoal incR lamR
  simp only [inR_eq]
  simp only [g0, g1, g2, g3, g4, g5, g6, g7, g8, g9, g10, g11, k0, k1, k2, k3, k4, k5, k6, k7, k8, k9, k10, k11, mul_zero, neg_zero, lt_irrefl, ↓reduceIte]
  all_goals link_finish

theorem vleaf_nnp {ay vy by' py qy ax vx bx t t' T : Rat} (t0 : 0 < t) (t1 : t < 1) (t0' : 0 < t')
    (t1' : t' < 1) (hPy : py = ay + t * (vy - ay)) (hQy : qy = vy + t' * (by' - vy))
    (hTe : T = (vx - ax) * (by' - vy) - (vy - ay) * (bx - vx))
    (hav : ¬ (ax = vx ∧ ay = vy)) (hvb : ¬ (vx = bx ∧ vy = by'))
    (hU : T = 0 → 0 < (vx - ax) * (bx - vx) + (vy - ay) * (by' - vy))
    (d1 : vy - ay < 0) (d2 : by' - vy < 0) (sg : 0 < T) :
    VGoal ay vy by' py qy ax vx bx t t' T := by
  have h1t : 0 < 1 - t := by linarith
  have hb1 : py < ay := by rw [hPy]; nlinarith
  have hb2 : vy < py := by rw [hPy]; nlinarith
  have hb3 : qy < vy := by rw [hQy]; nlinarith
  have hb4 : by' < qy := by rw [hQy]; nlinarith
  have g0 : ¬ ay < py := by linarith
  have g1 : ¬ ay ≤ py := by linarith
  have g2 : ¬ ay < vy := by linarith
  have g3 : ¬ ay ≤ vy := by linarith
  have g4 : py < ay := by linarith
  have g5 : py ≤ ay := by linarith
  have g6 : ¬ py < vy := by linarith
  have g7 : ¬ py ≤ vy := by linarith
  have g8 : vy < ay := by linarith
  have g9 : vy ≤ ay := by linarith
  have g10 : vy < py := by linarith
  have g11 : vy ≤ py := by linarith
  have k0 : ¬ vy < qy := by linarith
  have k1 : ¬ vy ≤ qy := by linarith
  have k2 : ¬ vy < by' := by linarith
  have k3 : ¬ vy ≤ by' := by linarith
  have k4 : qy < vy := by linarith
  have k5 : qy ≤ vy := by linarith
  have k6 : ¬ qy < by' := by linarith
  have k7 : ¬ qy ≤ by' := by linarith
  have k8 : by' < vy := by linarith
  have k9 : by' ≤ vy := by linarith
  have k10 : by' < qy := by linarith
  have k11 : by' ≤ qy := by linarith
  have f1 : 0 < (1 - t) * T := mul_pos h1t sg
  have f2 : ¬ (1 - t) * T < 0 := not_lt.mpr (mul_pos h1t sg).le
  have f3 : -((1 - t) * T) < 0 := by have := mul_pos h1t sg; linarith
  have f4 : 0 < t' * T := mul_pos t0' sg
  have f5 : ¬ t' * T < 0 := not_lt.mpr (mul_pos t0' sg).le
  have f6 : -(t' * T) < 0 := by have := mul_pos t0' sg; linarith
  unfold VGoal incR lamR
  simp only [inR_eq]
  simp only [g0, g1, g2, g3, g4, g5, g6, g7, g8, g9, g10, g11, k0, k1, k2, k3, k4, k5, k6, k7, k8, k9, k10, k11, f1, f2, f3, f4, f5, f6, lt_irrefl, ↓reduceIte]
  all_goals link_finish

theorem vleaf_nzn {ay vy by' py qy ax vx bx t t' T : Rat} (t0 : 0 < t) (t1 : t < 1) (t0' : 0 < t')
    (t1' : t' < 1) (hPy : py = ay + t * (vy - ay)) (hQy : qy = vy + t' * (by' - vy))
    (hTe : T = (vx - ax) * (by' - vy) - (vy - ay) * (bx - vx))
    (hav : ¬ (ax = vx ∧ ay = vy)) (hvb : ¬ (vx = bx ∧ vy = by'))
    (hU : T = 0 → 0 < (vx - ax) * (bx - vx) + (vy - ay) * (by' - vy))
    (d1 : vy - ay < 0) (d2 : by' - vy = 0) (sg : T < 0) :
    VGoal ay vy by' py qy ax vx bx t t' T := by
  have h1t : 0 < 1 - t := by linarith
  have hb1 : py < ay := by rw [hPy]; nlinarith
  have hb2 : vy < py := by rw [hPy]; nlinarith
  have hb3 : by' = vy := by linarith
  have hb4 : qy = vy := by rw [hQy, hb3]; ring
  have hTe' : T = -((vy - ay) * (bx - vx)) := by rw [hTe, d2]; ring
  have hdx : bx - vx < 0 := by
    by_contra hc
    have hc := not_lt.mp hc
    have : (vy - ay) * (bx - vx) ≤ 0 := mul_nonpos_of_nonpos_of_nonneg d1.le hc
    linarith
  have g0 : ¬ ay < py := by linarith
  have g1 : ¬ ay ≤ py := by linarith
  have g2 : ¬ ay < vy := by linarith
  have g3 : ¬ ay ≤ vy := by linarith
  have g4 : py < ay := by linarith
  have g5 : py ≤ ay := by linarith
  have g6 : ¬ py < vy := by linarith
  have g7 : ¬ py ≤ vy := by linarith
  have g8 : vy < ay := by linarith
  have g9 : vy ≤ ay := by linarith
  have g10 : vy < py := by linarith
  have g11 : vy ≤ py := by linarith
  have k0 : ¬ vy < qy := by linarith
  have k1 : vy ≤ qy := by linarith
  have k2 : ¬ vy < by' := by linarith
  have k3 : vy ≤ by' := by linarith
  have k4 : ¬ qy < vy := by linarith
  have k5 : qy ≤ vy := by linarith
  have k6 : ¬ qy < by' := by linarith
  have k7 : qy ≤ by' := by linarith
  have k8 : ¬ by' < vy := by linarith
  have k9 : by' ≤ vy := by linarith
  have k10 : ¬ by' < qy := by linarith
  have k11 : by' ≤ qy := by linarith
  have f1 : ¬ 0 < (1 - t) * T := not_lt.mpr (mul_neg_of_pos_of_neg h1t sg).le
  have f2 : (1 - t) * T < 0 := mul_neg_of_pos_of_neg h1t sg
  have f3 : ¬ -((1 - t) * T) < 0 := by have := mul_neg_of_pos_of_neg h1t sg; linarith
  have f4 : ¬ 0 < t' * T := not_lt.mpr (mul_neg_of_pos_of_neg t0' sg).le
  have f5 : t' * T < 0 := mul_neg_of_pos_of_neg t0' sg
  have f6 : ¬ -(t' * T) < 0 := by have := mul_neg_of_pos_of_neg t0' sg; linarith
  have l1 : bx < vx := by linarith
  unfold VGoal incR lamR
  simp only [inR_eq]
  simp only [g0, g1, g2, g3, g4, g5, g6, g7, g8, g9, g10, g11, k0, k1, k2, k3, k4, k5, k6, k7, k8, k9, k10, k11, f1, f2, f3, f4, f5, f6, l1, lt_irrefl, ↓reduceIte]
  all_goals link_finish

theorem vleaf_nzz {ay vy by' py qy ax vx bx t t' T : Rat} (t0 : 0 < t) (t1 : t < 1) (t0' : 0 < t')
    (t1' : t' < 1) (hPy : py = ay + t * (vy - ay)) (hQy : qy = vy + t' * (by' - vy))
    (hTe : T = (vx - ax) * (by' - vy) - (vy - ay) * (bx - vx))
    (hav : ¬ (ax = vx ∧ ay = vy)) (hvb : ¬ (vx = bx ∧ vy = by'))
    (hU : T = 0 → 0 < (vx - ax) * (bx - vx) + (vy - ay) * (by' - vy))
    (d1 : vy - ay < 0) (d2 : by' - vy = 0) (sg : T = 0) :
    VGoal ay vy by' py qy ax vx bx t t' T := by
  have h1t : 0 < 1 - t := by linarith
  exfalso
  rw [sg, d2] at hTe
  have : (vy - ay) * (bx - vx) = 0 := by linarith
  rcases mul_eq_zero.mp this with h | h
  · linarith
  · exact hvb ⟨by linarith, by linarith⟩

theorem vleaf_nzp {ay vy by' py qy ax vx bx t t' T : Rat} (t0 : 0 < t) (t1 : t < 1) (t0' : 0 < t')
    (t1' : t' < 1) (hPy : py = ay + t * (vy - ay)) (hQy : qy = vy + t' * (by' - vy))
    (hTe : T = (vx - ax) * (by' - vy) - (vy - ay) * (bx - vx))
    (hav : ¬ (ax = vx ∧ ay = vy)) (hvb : ¬ (vx = bx ∧ vy = by'))
    (hU : T = 0 → 0 < (vx - ax) * (bx - vx) + (vy - ay) * (by' - vy))
    (d1 : vy - ay < 0) (d2 : by' - vy = 0) (sg : 0 < T) :
    VGoal ay vy by' py qy ax vx bx t t' T := by
  have h1t : 0 < 1 - t := by linarith
  have hb1 : py < ay := by rw [hPy]; nlinarith
  have hb2 : vy < py := by rw [hPy]; nlinarith
  have hb3 : by' = vy := by linarith
  have hb4 : qy = vy := by rw [hQy, hb3]; ring
  have hTe' : T = -((vy - ay) * (bx - vx)) := by rw [hTe, d2]; ring
  have hdx : 0 < bx - vx := by
    by_contra hc
    have hc := not_lt.mp hc
    have : 0 ≤ (vy - ay) * (bx - vx) := mul_nonneg_of_nonpos_of_nonpos d1.le hc
    linarith
  have g0 : ¬ ay < py := by linarith
  have g1 : ¬ ay ≤ py := by linarith
  have g2 : ¬ ay < vy := by linarith
  have g3 : ¬ ay ≤ vy := by linarith
  have g4 : py < ay := by linarith
  have g5 : py ≤ ay := by linarith
  have g6 : ¬ py < vy := by linarith
  have g7 : ¬ py ≤ vy := by linarith
  have g8 : vy < ay := by linarith
  have g9 : vy ≤ ay := by linarith
  have g10 : vy < py := by linarith
  have g11 : vy ≤ py := by linarith
  have k0 : ¬ vy < qy := by linarith
  have k1 : vy ≤ qy := by linarith
  have k2 : ¬ vy < by' := by linarith
  have k3 : vy ≤ by' := by linarith
  have k4 : ¬ qy < vy := by linarith
  have k5 : qy ≤ vy := by linarith
  have k6 : ¬ qy < by' := by linarith
  have k7 : qy ≤ by' := by linarith
  have k8 : ¬ by' < vy := by linarith
  have k9 : by' ≤ vy := by linarith
  have k10 : ¬ by' < qy := by linarith
  have k11 : by' ≤ qy := by linarith
  have f1 : 0 < (1 - t) * T := mul_pos h1t sg
  have f2 : ¬ (1 - t) * T < 0 := not_lt.mpr (mul_pos h1t sg).le
  have f3 : -((1 - t) * T) < 0 := by have := mul_pos h1t sg; linarith
  have f4 : 0 < t' * T := mul_pos t0' sg
  have f5 : ¬ t' * T < 0 := not_lt.mpr (mul_pos t0' sg).le
  have f6 : -(t' * T) < 0 := by have := mul_pos t0' sg; linarith
  have l1 : ¬ bx < vx := by linarith
  unfold VGoal incR lamR
  simp only [inR_eq]
  simp only [g0, g1, g2, g3, g4, g5, g6, g7, g8, g9, g10, g11, k0, k1, k2, k3, k4, k5, k6, k7, k8, k9, k10, k11, f1, f2, f3, f4, f5, f6, l1, lt_irrefl, ↓reduceIte]
  all_goals link_finish

theorem vleaf_npn {ay vy by' py qy ax vx bx t t' T : Rat} (t0 : 0 < t) (t1 : t < 1) (t0' : 0 < t')
    (t1' : t' < 1) (hPy : py = ay + t * (vy - ay)) (hQy : qy = vy + t' * (by' - vy))
    (hTe : T = (vx - ax) * (by' - vy) - (vy - ay) * (bx - vx))
    (hav : ¬ (ax = vx ∧ ay = vy)) (hvb : ¬ (vx = bx ∧ vy = by'))
    (hU : T = 0 → 0 < (vx - ax) * (bx - vx) + (vy - ay) * (by' - vy))
    (d1 : vy - ay < 0) (d2 : 0 < by' - vy) (sg : T < 0) :
    VGoal ay vy by' py qy ax vx bx t t' T := by
  have h1t : 0 < 1 - t := by linarith
  have hb1 : py < ay := by rw [hPy]; nlinarith
  have hb2 : vy < py := by rw [hPy]; nlinarith
  have hb3 : vy < qy := by rw [hQy]; nlinarith
  have hb4 : qy < by' := by rw [hQy]; nlinarith
  have g0 : ¬ ay < py := by linarith
  have g1 : ¬ ay ≤ py := by linarith
  have g2 : ¬ ay < vy := by linarith
  have g3 : ¬ ay ≤ vy := by linarith
  have g4 : py < ay := by linarith
  have g5 : py ≤ ay := by linarith
  have g6 : ¬ py < vy := by linarith
  have g7 : ¬ py ≤ vy := by linarith
  have g8 : vy < ay := by linarith
  have g9 : vy ≤ ay := by linarith
  have g10 : vy < py := by linarith
  have g11 : vy ≤ py := by linarith
  have k0 : vy < qy := by linarith
  have k1 : vy ≤ qy := by linarith
  have k2 : vy < by' := by linarith
  have k3 : vy ≤ by' := by linarith
  have k4 : ¬ qy < vy := by linarith
  have k5 : ¬ qy ≤ vy := by linarith
  have k6 : qy < by' := by linarith
  have k7 : qy ≤ by' := by linarith
  have k8 : ¬ by' < vy := by linarith
  have k9 : ¬ by' ≤ vy := by linarith
  have k10 : ¬ by' < qy := by linarith
  have k11 : ¬ by' ≤ qy := by linarith
  have f1 : ¬ 0 < (1 - t) * T := not_lt.mpr (mul_neg_of_pos_of_neg h1t sg).le
  have f2 : (1 - t) * T < 0 := mul_neg_of_pos_of_neg h1t sg
  have f3 : ¬ -((1 - t) * T) < 0 := by have := mul_neg_of_pos_of_neg h1t sg; linarith
  have f4 : ¬ 0 < t' * T := not_lt.mpr (mul_neg_of_pos_of_neg t0' sg).le
  have f5 : t' * T < 0 := mul_neg_of_pos_of_neg t0' sg
  have f6 : ¬ -(t' * T) < 0 := by have := mul_neg_of_pos_of_neg t0' sg; linarith
  unfold VGoal incR lamR
  simp only [inR_eq]
  simp only [g0, g1, g2, g3, g4, g5, g6, g7, g8, g9, g10, g11, k0, k1, k2, k3, k4, k5, k6, k7, k8, k9, k10, k11, f1, f2, f3, f4, f5, f6, lt_irrefl, ↓reduceIte]
  all_goals link_finish

theorem vleaf_npz {ay vy by' py qy ax vx bx t t' T : Rat} (t0 : 0 < t) (t1 : t < 1) (t0' : 0 < t')
    (t1' : t' < 1) (hPy : py = ay + t * (vy - ay)) (hQy : qy = vy + t' * (by' - vy))
    (hTe : T = (vx - ax) * (by' - vy) - (vy - ay) * (bx - vx))
    (hav : ¬ (ax = vx ∧ ay = vy)) (hvb : ¬ (vx = bx ∧ vy = by'))
    (hU : T = 0 → 0 < (vx - ax) * (bx - vx) + (vy - ay) * (by' - vy))
    (d1 : vy - ay < 0) (d2 : 0 < by' - vy) (sg : T = 0) :
    VGoal ay vy by' py qy ax vx bx t t' T := by
  have h1t : 0 < 1 - t := by linarith
  exfalso
  have hd := hU sg
  rw [sg] at hTe
  exact par_contra hTe.symm hd (by first | exact Or.inl ⟨d1, d2⟩ | exact Or.inr ⟨d1, d2⟩)

theorem vleaf_npp {ay vy by' py qy ax vx bx t t' T : Rat} (t0 : 0 < t) (t1 : t < 1) (t0' : 0 < t')
    (t1' : t' < 1) (hPy : py = ay + t * (vy - ay)) (hQy : qy = vy + t' * (by' - vy))
    (hTe : T = (vx - ax) * (by' - vy) - (vy - ay) * (bx - vx))
    (hav : ¬ (ax = vx ∧ ay = vy)) (hvb : ¬ (vx = bx ∧ vy = by'))
    (hU : T = 0 → 0 < (vx - ax) * (bx - vx) + (vy - ay) * (by' - vy))
    (d1 : vy - ay < 0) (d2 : 0 < by' - vy) (sg : 0 < T) :
    VGoal ay vy by' py qy ax vx bx t t' T := by
  have h1t : 0 < 1 - t := by linarith
  have hb1 : py < ay := by rw [hPy]; nlinarith
  have hb2 : vy < py := by rw [hPy]; nlinarith
  have hb3 : vy < qy := by rw [hQy]; nlinarith
  have hb4 : qy < by' := by rw [hQy]; nlinarith
  have g0 : ¬ ay < py := by linarith
  have g1 : ¬ ay ≤ py := by linarith
  have g2 : ¬ ay < vy := by linarith
  have g3 : ¬ ay ≤ vy := by linarith
  have g4 : py < ay := by linarith
  have g5 : py ≤ ay := by linarith
  have g6 : ¬ py < vy := by linarith
  have g7 : ¬ py ≤ vy := by linarith
  have g8 : vy < ay := by linarith
  have g9 : vy ≤ ay := by linarith
  have g10 : vy < py := by linarith
  have g11 : vy ≤ py := by linarith
  have k0 : vy < qy := by linarith
  have k1 : vy ≤ qy := by linarith
  have k2 : vy < by' := by linarith
  have k3 : vy ≤ by' := by linarith
  have k4 : ¬ qy < vy := by linarith
  have k5 : ¬ qy ≤ vy := by linarith
  have k6 : qy < by' := by linarith
  have k7 : qy ≤ by' := by linarith
  have k8 : ¬ by' < vy := by linarith
  have k9 : ¬ by' ≤ vy := by linarith
  have k10 : ¬ by' < qy := by linarith
  have k11 : ¬ by' ≤ qy := by linarith
  have f1 : 0 < (1 - t) * T := mul_pos h1t sg
  have f2 : ¬ (1 - t) * T < 0 := not_lt.mpr (mul_pos h1t sg).le
  have f3 : -((1 - t) * T) < 0 := by have := mul_pos h1t sg; linarith
  have f4 : 0 < t' * T := mul_pos t0' sg
  have f5 : ¬ t' * T < 0 := not_lt.mpr (mul_pos t0' sg).le
  have f6 : -(t' * T) < 0 := by have := mul_pos t0' sg; linarith
  unfold VGoal incR lamR
  simp only [inR_eq]
  simp only [g0, g1, g2, g3, g4, g5, g6, g7, g8, g9, g10, g11, k0, k1, k2, k3, k4, k5, k6, k7, k8, k9, k10, k11, f1, f2, f3, f4, f5, f6, lt_irrefl, ↓reduceIte]
  all_goals link_finish

theorem vleaf_znn {ay vy by' py qy ax vx bx t t' T : Rat} (t0 : 0 < t) (t1 : t < 1) (t0' : 0 < t')
    (t1' : t' < 1) (hPy : py = ay + t * (vy - ay)) (hQy : qy = vy + t' * (by' - vy))
    (hTe : T = (vx - ax) * (by' - vy) - (vy - ay) * (bx - vx))
    (hav : ¬ (ax = vx ∧ ay = vy)) (hvb : ¬ (vx = bx ∧ vy = by'))
    (hU : T = 0 → 0 < (vx - ax) * (bx - vx) + (vy - ay) * (by' - vy))
    (d1 : vy - ay = 0) (d2 : by' - vy < 0) (sg : T < 0) :
    VGoal ay vy by' py qy ax vx bx t t' T := by
  have h1t : 0 < 1 - t := by linarith
  have hb1 : ay = vy := by linarith
  have hb2 : py = vy := by rw [hPy, hb1]; ring
  have hb3 : qy < vy := by rw [hQy]; nlinarith
  have hb4 : by' < qy := by rw [hQy]; nlinarith
  have hTe' : T = (vx - ax) * (by' - vy) := by rw [hTe, d1]; ring
  have hdx : 0 < vx - ax := by
    by_contra hc
    have hc := not_lt.mp hc
    have : 0 ≤ (vx - ax) * (by' - vy) := mul_nonneg_of_nonpos_of_nonpos hc d2.le
    linarith
  have g0 : ¬ ay < py := by linarith
  have g1 : ay ≤ py := by linarith
  have g2 : ¬ ay < vy := by linarith
  have g3 : ay ≤ vy := by linarith
  have g4 : ¬ py < ay := by linarith
  have g5 : py ≤ ay := by linarith
  have g6 : ¬ py < vy := by linarith
  have g7 : py ≤ vy := by linarith
  have g8 : ¬ vy < ay := by linarith
  have g9 : vy ≤ ay := by linarith
  have g10 : ¬ vy < py := by linarith
  have g11 : vy ≤ py := by linarith
  have k0 : ¬ vy < qy := by linarith
  have k1 : ¬ vy ≤ qy := by linarith
  have k2 : ¬ vy < by' := by linarith
  have k3 : ¬ vy ≤ by' := by linarith
  have k4 : qy < vy := by linarith
  have k5 : qy ≤ vy := by linarith
  have k6 : ¬ qy < by' := by linarith
  have k7 : ¬ qy ≤ by' := by linarith
  have k8 : by' < vy := by linarith
  have k9 : by' ≤ vy := by linarith
  have k10 : by' < qy := by linarith
  have k11 : by' ≤ qy := by linarith
  have f1 : ¬ 0 < (1 - t) * T := not_lt.mpr (mul_neg_of_pos_of_neg h1t sg).le
  have f2 : (1 - t) * T < 0 := mul_neg_of_pos_of_neg h1t sg
  have f3 : ¬ -((1 - t) * T) < 0 := by have := mul_neg_of_pos_of_neg h1t sg; linarith
  have f4 : ¬ 0 < t' * T := not_lt.mpr (mul_neg_of_pos_of_neg t0' sg).le
  have f5 : t' * T < 0 := mul_neg_of_pos_of_neg t0' sg
  have f6 : ¬ -(t' * T) < 0 := by have := mul_neg_of_pos_of_neg t0' sg; linarith
  have l1 : ¬ vx < ax := by linarith
  unfold VGoal incR lamR
  simp only [inR_eq]
  simp only [g0, g1, g2, g3, g4, g5, g6, g7, g8, g9, g10, g11, k0, k1, k2, k3, k4, k5, k6, k7, k8, k9, k10, k11, f1, f2, f3, f4, f5, f6, l1, lt_irrefl, ↓reduceIte]
  all_goals link_finish

theorem vleaf_znz {ay vy by' py qy ax vx bx t t' T : Rat} (t0 : 0 < t) (t1 : t < 1) (t0' : 0 < t')
    (t1' : t' < 1) (hPy : py = ay + t * (vy - ay)) (hQy : qy = vy + t' * (by' - vy))
    (hTe : T = (vx - ax) * (by' - vy) - (vy - ay) * (bx - vx))
    (hav : ¬ (ax = vx ∧ ay = vy)) (hvb : ¬ (vx = bx ∧ vy = by'))
    (hU : T = 0 → 0 < (vx - ax) * (bx - vx) + (vy - ay) * (by' - vy))
    (d1 : vy - ay = 0) (d2 : by' - vy < 0) (sg : T = 0) :
    VGoal ay vy by' py qy ax vx bx t t' T := by
  have h1t : 0 < 1 - t := by linarith
  exfalso
  rw [sg, d1] at hTe
  have : (vx - ax) * (by' - vy) = 0 := by linarith
  rcases mul_eq_zero.mp this with h | h
  · exact hav ⟨by linarith, by linarith⟩
  · linarith

theorem vleaf_znp {ay vy by' py qy ax vx bx t t' T : Rat} (t0 : 0 < t) (t1 : t < 1) (t0' : 0 < t')
    (t1' : t' < 1) (hPy : py = ay + t * (vy - ay)) (hQy : qy = vy + t' * (by' - vy))
    (hTe : T = (vx - ax) * (by' - vy) - (vy - ay) * (bx - vx))
    (hav : ¬ (ax = vx ∧ ay = vy)) (hvb : ¬ (vx = bx ∧ vy = by'))
    (hU : T = 0 → 0 < (vx - ax) * (bx - vx) + (vy - ay) * (by' - vy))
    (d1 : vy - ay = 0) (d2 : by' - vy < 0) (sg : 0 < T) :
    VGoal ay vy by' py qy ax vx bx t t' T := by
  have h1t : 0 < 1 - t := by linarith
  have hb1 : ay = vy := by linarith
  have hb2 : py = vy := by rw [hPy, hb1]; ring
  have hb3 : qy < vy := by rw [hQy]; nlinarith
  have hb4 : by' < qy := by rw [hQy]; nlinarith
  have hTe' : T = (vx - ax) * (by' - vy) := by rw [hTe, d1]; ring
  have hdx : vx - ax < 0 := by
    by_contra hc
    have hc := not_lt.mp hc
    have : (vx - ax) * (by' - vy) ≤ 0 := mul_nonpos_of_nonneg_of_nonpos hc d2.le
    linarith
  have g0 : ¬ ay < py := by linarith
  have g1 : ay ≤ py := by linarith
  have g2 : ¬ ay < vy := by linarith
  have g3 : ay ≤ vy := by linarith
  have g4 : ¬ py < ay := by linarith
  have g5 : py ≤ ay := by linarith
  have g6 : ¬ py < vy := by linarith
  have g7 : py ≤ vy := by linarith
  have g8 : ¬ vy < ay := by linarith
  have g9 : vy ≤ ay := by linarith
  have g10 : ¬ vy < py := by linarith
  have g11 : vy ≤ py := by linarith
  have k0 : ¬ vy < qy := by linarith
  have k1 : ¬ vy ≤ qy := by linarith
  have k2 : ¬ vy < by' := by linarith
  have k3 : ¬ vy ≤ by' := by linarith
  have k4 : qy < vy := by linarith
  have k5 : qy ≤ vy := by linarith
  have k6 : ¬ qy < by' := by linarith
  have k7 : ¬ qy ≤ by' := by linarith
  have k8 : by' < vy := by linarith
  have k9 : by' ≤ vy := by linarith
  have k10 : by' < qy := by linarith
  have k11 : by' ≤ qy := by linarith
  have f1 : 0 < (1 - t) * T := mul_pos h1t sg
  have f2 : ¬ (1 - t) * T < 0 := not_lt.mpr (mul_pos h1t sg).le
  have f3 : -((1 - t) * T) < 0 := by have := mul_pos h1t sg; linarith
  have f4 : 0 < t' * T := mul_pos t0' sg
  have f5 : ¬ t' * T < 0 := not_lt.mpr (mul_pos t0' sg).le
  have f6 : -(t' * T) < 0 := by have := mul_pos t0' sg; linarith
  have l1 : vx < ax := by linarith
  unfold VGoal incR lamR
  simp only [inR_eq]
  simp only [g0, g1, g2, g3, g4, g5, g6, g7, g8, g9, g10, g11, k0, k1, k2, k3, k4, k5, k6, k7, k8, k9, k10, k11, f1, f2, f3, f4, f5, f6, l1, lt_irrefl, ↓reduceIte]
  all_goals link_finish

theorem vleaf_zzn {ay vy by' py qy ax vx bx t t' T : Rat} (t0 : 0 < t) (t1 : t < 1) (t0' : 0 < t')
    (t1' : t' < 1) (hPy : py = ay + t * (vy - ay)) (hQy : qy = vy + t' * (by' - vy))
    (hTe : T = (vx - ax) * (by' - vy) - (vy - ay) * (bx - vx))
    (hav : ¬ (ax = vx ∧ ay = vy)) (hvb : ¬ (vx = bx ∧ vy = by'))
    (hU : T = 0 → 0 < (vx - ax) * (bx - vx) + (vy - ay) * (by' - vy))
    (d1 : vy - ay = 0) (d2 : by' - vy = 0) (sg : T < 0) :
    VGoal ay vy by' py qy ax vx bx t t' T := by
  have h1t : 0 < 1 - t := by linarith
  exfalso
  rw [d1, d2] at hTe
  linarith

theorem vleaf_zzz {ay vy by' py qy ax vx bx t t' T : Rat} (t0 : 0 < t) (t1 : t < 1) (t0' : 0 < t')
    (t1' : t' < 1) (hPy : py = ay + t * (vy - ay)) (hQy : qy = vy + t' * (by' - vy))
    (hTe : T = (vx - ax) * (by' - vy) - (vy - ay) * (bx - vx))
    (hav : ¬ (ax = vx ∧ ay = vy)) (hvb : ¬ (vx = bx ∧ vy = by'))
    (hU : T = 0 → 0 < (vx - ax) * (bx - vx) + (vy - ay) * (by' - vy))
    (d1 : vy - ay = 0) (d2 : by' - vy = 0) (sg : T = 0) :
    VGoal ay vy by' py qy ax vx bx t t' T := by
  have h1t : 0 < 1 - t := by linarith
  have hd := hU sg
  rw [d1, d2] at hd
  subst sg
  have hdd : 0 < (vx - ax) * (bx - vx) := by linarith
  rcases lt_trichotomy (vx - ax) 0 with hx1 | hx1 | hx1
  · have hx2 : bx - vx < 0 := by
      by_contra hc
      have := mul_nonpos_of_nonpos_of_nonneg hx1.le (not_lt.mp hc)
      linarith
    have hb1 : ay = vy := by linarith
    have hb2 : py = vy := by rw [hPy, hb1]; ring
    have hb3 : by' = vy := by linarith
    have hb4 : qy = vy := by rw [hQy, hb3]; ring
    have g0 : ¬ ay < py := by linarith
    have g1 : ay ≤ py := by linarith
    have g2 : ¬ ay < vy := by linarith
    have g3 : ay ≤ vy := by linarith
    have g4 : ¬ py < ay := by linarith
    have g5 : py ≤ ay := by linarith
    have g6 : ¬ py < vy := by linarith
    have g7 : py ≤ vy := by linarith
    have g8 : ¬ vy < ay := by linarith
    have g9 : vy ≤ ay := by linarith
    have g10 : ¬ vy < py := by linarith
    have g11 : vy ≤ py := by linarith
    have k0 : ¬ vy < qy := by linarith
    have k1 : vy ≤ qy := by linarith
    have k2 : ¬ vy < by' := by linarith
    have k3 : vy ≤ by' := by linarith
    have k4 : ¬ qy < vy := by linarith
    have k5 : qy ≤ vy := by linarith
    have k6 : ¬ qy < by' := by linarith
    have k7 : qy ≤ by' := by linarith
    have k8 : ¬ by' < vy := by linarith
    have k9 : by' ≤ vy := by linarith
    have k10 : ¬ by' < qy := by linarith
    have k11 : by' ≤ qy := by linarith
    have l1 : vx < ax := by linarith
    have l2 : bx < vx := by linarith
    unfold VGoal incR lamR
    simp only [inR_eq]
    simp only [g0, g1, g2, g3, g4, g5, g6, g7, g8, g9, g10, g11, k0, k1, k2, k3, k4, k5, k6, k7, k8, k9, k10, k11, l1, l2, mul_zero, neg_zero, lt_irrefl, ↓reduceIte]
    all_goals link_finish
  · rw [hx1] at hdd; linarith
  · have hx2 : 0 < bx - vx := by
      by_contra hc
      have := mul_nonpos_of_nonneg_of_nonpos hx1.le (not_lt.mp hc)
      linarith
    have hb1 : ay = vy := by linarith
    have hb2 : py = vy := by rw [hPy, hb1]; ring
    have hb3 : by' = vy := by linarith
    have hb4 : qy = vy := by rw [hQy, hb3]; ring
    have g0 : ¬ ay < py := by linarith
    have g1 : ay ≤ py := by linarith
    have g2 : ¬ ay < vy := by linarith
    have g3 : ay ≤ vy := by linarith
    have g4 : ¬ py < ay := by linarith
    have g5 : py ≤ ay := by linarith
    have g6 : ¬ py < vy := by linarith
    have g7 : py ≤ vy := by linarith
    have g8 : ¬ vy < ay := by linarith
    have g9 : vy ≤ ay := by linarith
    have g10 : ¬ vy < py := by linarith
    have g11 : vy ≤ py := by linarith
    have k0 : ¬ vy < qy := by linarith
    have k1 : vy ≤ qy := by linarith
    have k2 : ¬ vy < by' := by linarith
    have k3 : vy ≤ by' := by linarith
    have k4 : ¬ qy < vy := by linarith
    have k5 : qy ≤ vy := by linarith
    have k6 : ¬ qy < by' := by linarith
    have k7 : qy ≤ by' := by linarith
    have k8 : ¬ by' < vy := by linarith
    have k9 : by' ≤ vy := by linarith
    have k10 : ¬ by' < qy := by linarith
    have k11 : by' ≤ qy := by linarith
    have l1 : ¬ vx < ax := by linarith
    have l2 : ¬ bx < vx := by linarith
    unfold VGoal incR lamR
    simp only [inR_eq]
    simp only [g0, g1, g2, g3, g4, g5, g6, g7, g8, g9, g10, g11, k0, k1, k2, k3, k4, k5, k6, k7, k8, k9, k10, k11, l1, l2, mul_zero, neg_zero, lt_irrefl, ↓reduceIte]
    all_goals link_finish

theorem vleaf_zzp {ay vy by' py qy ax vx bx t t' T : Rat} (t0 : 0 < t) (t1 : t < 1) (t0' : 0 < t')
    (t1' : t' < 1) (hPy : py = ay + t * (vy - ay)) (hQy : qy = vy + t' * (by' - vy))
    (hTe : T = (vx - ax) * (by' - vy) - (vy - ay) * (bx - vx))
    (hav : ¬ (ax = vx ∧ ay = vy)) (hvb : ¬ (vx = bx ∧ vy = by'))
    (hU : T = 0 → 0 < (vx - ax) * (bx - vx) + (vy - ay) * (by' - vy))
    (d1 : vy - ay = 0) (d2 : by' - vy = 0) (sg : 0 < T) :
    VGoal ay vy by' py qy ax vx bx t t' T := by
  have h1t : 0 < 1 - t := by linarith
  exfalso
  rw [d1, d2] at hTe
  linarith

theorem vleaf_zpn {ay vy by' py qy ax vx bx t t' T : Rat} (t0 : 0 < t) (t1 : t < 1) (t0' : 0 < t')
    (t1' : t' < 1) (hPy : py = ay + t * (vy - ay)) (hQy : qy = vy + t' * (by' - vy))
    (hTe : T = (vx - ax) * (by' - vy) - (vy - ay) * (bx - vx))
    (hav : ¬ (ax = vx ∧ ay = vy)) (hvb : ¬ (vx = bx ∧ vy = by'))
    (hU : T = 0 → 0 < (vx - ax) * (bx - vx) + (vy - ay) * (by' - vy))
    (d1 : vy - ay = 0) (d2 : 0 < by' - vy) (sg : T < 0) :
    VGoal ay vy by' py qy ax vx bx t t' T := by
  have h1t : 0 < 1 - t := by linarith
  have hb1 : ay = vy := by linarith
  have hb2 : py = vy := by rw [hPy, hb1]; ring
  have hb3 : vy < qy := by rw [hQy]; nlinarith
  have hb4 : qy < by' := by rw [hQy]; nlinarith
  have hTe' : T = (vx - ax) * (by' - vy) := by rw [hTe, d1]; ring
  have hdx : vx - ax < 0 := by
    by_contra hc
    have hc := not_lt.mp hc
    have : 0 ≤ (vx - ax) * (by' - vy) := mul_nonneg hc d2.le
    linarith
  have g0 : ¬ ay < py := by linarith
  have g1 : ay ≤ py := by linarith
  have g2 : ¬ ay < vy := by linarith
  have g3 : ay ≤ vy := by linarith
  have g4 : ¬ py < ay := by linarith
  have g5 : py ≤ ay := by linarith
  have g6 : ¬ py < vy := by linarith
  have g7 : py ≤ vy := by linarith
  have g8 : ¬ vy < ay := by linarith
  have g9 : vy ≤ ay := by linarith
  have g10 : ¬ vy < py := by linarith
  have g11 : vy ≤ py := by linarith
  have k0 : vy < qy := by linarith
  have k1 : vy ≤ qy := by linarith
  have k2 : vy < by' := by linarith
  have k3 : vy ≤ by' := by linarith
  have k4 : ¬ qy < vy := by linarith
  have k5 : ¬ qy ≤ vy := by linarith
  have k6 : qy < by' := by linarith
  have k7 : qy ≤ by' := by linarith
  have k8 : ¬ by' < vy := by linarith
  have k9 : ¬ by' ≤ vy := by linarith
  have k10 : ¬ by' < qy := by linarith
  have k11 : ¬ by' ≤ qy := by linarith
  have f1 : ¬ 0 < (1 - t) * T := not_lt.mpr (mul_neg_of_pos_of_neg h1t sg).le
  have f2 : (1 - t) * T < 0 := mul_neg_of_pos_of_neg h1t sg
  have f3 : ¬ -((1 - t) * T) < 0 := by have := mul_neg_of_pos_of_neg h1t sg; linarith
  have f4 : ¬ 0 < t' * T := not_lt.mpr (mul_neg_of_pos_of_neg t0' sg).le
  have f5 : t' * T < 0 := mul_neg_of_pos_of_neg t0' sg
  have f6 : ¬ -(t' * T) < 0 := by have := mul_neg_of_pos_of_neg t0' sg; linarith
  have l1 : vx < ax := by linarith
  unfold VGoal incR lamR
  simp only [inR_eq]
  simp only [g0, g1, g2, g3, g4, g5, g6, g7, g8, g9, g10, g11, k0, k1, k2, k3, k4, k5, k6, k7, k8, k9, k10, k11, f1, f2, f3, f4, f5, f6, l1, lt_irrefl, ↓reduceIte]
  all_goals link_finish

theorem vleaf_zpz {ay vy by' py qy ax vx bx t t' T : Rat} (t0 : 0 < t) (t1 : t < 1) (t0' : 0 < t')
    (t1' : t' < 1) (hPy : py = ay + t * (vy - ay)) (hQy : qy = vy + t' * (by' - vy))
    (hTe : T = (vx - ax) * (by' - vy) - (vy - ay) * (bx - vx))
    (hav : ¬ (ax = vx ∧ ay = vy)) (hvb : ¬ (vx = bx ∧ vy = by'))
    (hU : T = 0 → 0 < (vx - ax) * (bx - vx) + (vy - ay) * (by' - vy))
    (d1 : vy - ay = 0) (d2 : 0 < by' - vy) (sg : T = 0) :
    VGoal ay vy by' py qy ax vx bx t t' T := by
  have h1t : 0 < 1 - t := by linarith
  exfalso
  rw [sg, d1] at hTe
  have : (vx - ax) * (by' - vy) = 0 := by linarith
  rcases mul_eq_zero.mp this with h | h
  · exact hav ⟨by linarith, by linarith⟩
  · linarith

theorem vleaf_zpp {ay vy by' py qy ax vx bx t t' T : Rat} (t0 : 0 < t) (t1 : t < 1) (t0' : 0 < t')
    (t1' : t' < 1) (hPy : py = ay + t * (vy - ay)) (hQy : qy = vy + t' * (by' - vy))
    (hTe : T = (vx - ax) * (by' - vy) - (vy - ay) * (bx - vx))
    (hav : ¬ (ax = vx ∧ ay = vy)) (hvb : ¬ (vx = bx ∧ vy = by'))
    (hU : T = 0 → 0 < (vx - ax) * (bx - vx) + (vy - ay) * (by' - vy))
    (d1 : vy - ay = 0) (d2 : 0 < by' - vy) (sg : 0 < T) :
    VGoal ay vy by' py qy ax vx bx t t' T := by
  have h1t : 0 < 1 - t := by linarith
  have hb1 : ay = vy := by linarith
  have hb2 : py = vy := by rw [hPy, hb1]; ring
  have hb3 : vy < qy := by rw [hQy]; nlinarith
  have hb4 : qy < by' := by rw [hQy]; nlinarith
  have hTe' : T = (vx - ax) * (by' - vy) := by rw [hTe, d1]; ring
  have hdx : 0 < vx - ax := by
    by_contra hc
    have hc := not_lt.mp hc
    have : (vx - ax) * (by' - vy) ≤ 0 := mul_nonpos_of_nonpos_of_nonneg hc d2.le
    linarith
  have g0 : ¬ ay < py := by linarith
  have g1 : ay ≤ py := by linarith
  have g2 : ¬ ay < vy := by linarith
  have g3 : ay ≤ vy := by linarith
  have g4 : ¬ py < ay := by linarith
  have g5 : py ≤ ay := by linarith
  have g6 : ¬ py < vy := by linarith
  have g7 : py ≤ vy := by linarith
  have g8 : ¬ vy < ay := by linarith
  have g9 : vy ≤ ay := by linarith
  have g10 : ¬ vy < py := by linarith
  have g11 : vy ≤ py := by linarith
  have k0 : vy < qy := by linarith
  have k1 : vy ≤ qy := by linarith
  have k2 : vy < by' := by linarith
  have k3 : vy ≤ by' := by linarith
  have k4 : ¬ qy < vy := by linarith
  have k5 : ¬ qy ≤ vy := by linarith
  have k6 : qy < by' := by linarith
  have k7 : qy ≤ by' := by linarith
  have k8 : ¬ by' < vy := by linarith
  have k9 : ¬ by' ≤ vy := by linarith
  have k10 : ¬ by' < qy := by linarith
  have k11 : ¬ by' ≤ qy := by linarith
  have f1 : 0 < (1 - t) * T := mul_pos h1t sg
  have f2 : ¬ (1 - t) * T < 0 := not_lt.mpr (mul_pos h1t sg).le
  have f3 : -((1 - t) * T) < 0 := by have := mul_pos h1t sg; linarith
  have f4 : 0 < t' * T := mul_pos t0' sg
  have f5 : ¬ t' * T < 0 := not_lt.mpr (mul_pos t0' sg).le
  have f6 : -(t' * T) < 0 := by have := mul_pos t0' sg; linarith
  have l1 : ¬ vx < ax := by linarith
  unfold VGoal incR lamR
  simp only [inR_eq]
  simp only [g0, g1, g2, g3, g4, g5, g6, g7, g8, g9, g10, g11, k0, k1, k2, k3, k4, k5, k6, k7, k8, k9, k10, k11, f1, f2, f3, f4, f5, f6, l1, lt_irrefl, ↓reduceIte]
  all_goals link_finish

theorem vleaf_pnn {ay vy by' py qy ax vx bx t t' T : Rat} (t0 : 0 < t) (t1 : t < 1) (t0' : 0 < t')
    (t1' : t' < 1) (hPy : py = ay + t * (vy - ay)) (hQy : qy = vy + t' * (by' - vy))
    (hTe : T = (vx - ax) * (by' - vy) - (vy - ay) * (bx - vx))
    (hav : ¬ (ax = vx ∧ ay = vy)) (hvb : ¬ (vx = bx ∧ vy = by'))
    (hU : T = 0 → 0 < (vx - ax) * (bx - vx) + (vy - ay) * (by' - vy))
    (d1 : 0 < vy - ay) (d2 : by' - vy < 0) (sg : T < 0) :
    VGoal ay vy by' py qy ax vx bx t t' T := by
  have h1t : 0 < 1 - t := by linarith
  have hb1 : ay < py := by rw [hPy]; nlinarith
  have hb2 : py < vy := by rw [hPy]; nlinarith
  have hb3 : qy < vy := by rw [hQy]; nlinarith
  have hb4 : by' < qy := by rw [hQy]; nlinarith
  have g0 : ay < py := by linarith
  have g1 : ay ≤ py := by linarith
  have g2 : ay < vy := by linarith
  have g3 : ay ≤ vy := by linarith
  have g4 : ¬ py < ay := by linarith
  have g5 : ¬ py ≤ ay := by linarith
  have g6 : py < vy := by linarith
  have g7 : py ≤ vy := by linarith
  have g8 : ¬ vy < ay := by linarith
  have g9 : ¬ vy ≤ ay := by linarith
  have g10 : ¬ vy < py := by linarith
  have g11 : ¬ vy ≤ py := by linarith
  have k0 : ¬ vy < qy := by linarith
  have k1 : ¬ vy ≤ qy := by linarith
  have k2 : ¬ vy < by' := by linarith
  have k3 : ¬ vy ≤ by' := by linarith
  have k4 : qy < vy := by linarith
  have k5 : qy ≤ vy := by linarith
  have k6 : ¬ qy < by' := by linarith
  have k7 : ¬ qy ≤ by' := by linarith
  have k8 : by' < vy := by linarith
  have k9 : by' ≤ vy := by linarith
  have k10 : by' < qy := by linarith
  have k11 : by' ≤ qy := by linarith
  have f1 : ¬ 0 < (1 - t) * T := not_lt.mpr (mul_neg_of_pos_of_neg h1t sg).le
  have f2 : (1 - t) * T < 0 := mul_neg_of_pos_of_neg h1t sg
  have f3 : ¬ -((1 - t) * T) < 0 := by have := mul_neg_of_pos_of_neg h1t sg; linarith
  have f4 : ¬ 0 < t' * T := not_lt.mpr (mul_neg_of_pos_of_neg t0' sg).le
  have f5 : t' * T < 0 := mul_neg_of_pos_of_neg t0' sg
  have f6 : ¬ -(t' * T) < 0 := by have := mul_neg_of_pos_of_neg t0' sg; linarith
  unfold VGoal incR lamR
  simp only [inR_eq]
  simp only [g0, g1, g2, g3, g4, g5, g6, g7, g8, g9, g10, g11, k0, k1, k2, k3, k4, k5, k6, k7, k8, k9, k10, k11, f1, f2, f3, f4, f5, f6, lt_irrefl, ↓reduceIte]
  all_goals link_finish

theorem vleaf_pnz {ay vy by' py qy ax vx bx t t' T : Rat} (t0 : 0 < t) (t1 : t < 1) (t0' : 0 < t')
    (t1' : t' < 1) (hPy : py = ay + t * (vy - ay)) (hQy : qy = vy + t' * (by' - vy))
    (hTe : T = (vx - ax) * (by' - vy) - (vy - ay) * (bx - vx))
    (hav : ¬ (ax = vx ∧ ay = vy)) (hvb : ¬ (vx = bx ∧ vy = by'))
    (hU : T = 0 → 0 < (vx - ax) * (bx - vx) + (vy - ay) * (by' - vy))
    (d1 : 0 < vy - ay) (d2 : by' - vy < 0) (sg : T = 0) :
    VGoal ay vy by' py qy ax vx bx t t' T := by
  have h1t : 0 < 1 - t := by linarith
  exfalso
  have hd := hU sg
  rw [sg] at hTe
  exact par_contra hTe.symm hd (by first | exact Or.inl ⟨d1, d2⟩ | exact Or.inr ⟨d1, d2⟩)

theorem vleaf_pnp {ay vy by' py qy ax vx bx t t' T : Rat} (t0 : 0 < t) (t1 : t < 1) (t0' : 0 < t')
    (t1' : t' < 1) (hPy : py = ay + t * (vy - ay)) (hQy : qy = vy + t' * (by' - vy))
    (hTe : T = (vx - ax) * (by' - vy) - (vy - ay) * (bx - vx))
    (hav : ¬ (ax = vx ∧ ay = vy)) (hvb : ¬ (vx = bx ∧ vy = by'))
    (hU : T = 0 → 0 < (vx - ax) * (bx - vx) + (vy - ay) * (by' - vy))
    (d1 : 0 < vy - ay) (d2 : by' - vy < 0) (sg : 0 < T) :
    VGoal ay vy by' py qy ax vx bx t t' T := by
  have h1t : 0 < 1 - t := by linarith
  have hb1 : ay < py := by rw [hPy]; nlinarith
  have hb2 : py < vy := by rw [hPy]; nlinarith
  have hb3 : qy < vy := by rw [hQy]; nlinarith
  have hb4 : by' < qy := by rw [hQy]; nlinarith
  have g0 : ay < py := by linarith
  have g1 : ay ≤ py := by linarith
  have g2 : ay < vy := by linarith
  have g3 : ay ≤ vy := by linarith
  have g4 : ¬ py < ay := by linarith
  have g5 : ¬ py ≤ ay := by linarith
  have g6 : py < vy := by linarith
  have g7 : py ≤ vy := by linarith
  have g8 : ¬ vy < ay := by linarith
  have g9 : ¬ vy ≤ ay := by linarith
  have g10 : ¬ vy < py := by linarith
  have g11 : ¬ vy ≤ py := by linarith
  have k0 : ¬ vy < qy := by linarith
  have k1 : ¬ vy ≤ qy := by linarith
  have k2 : ¬ vy < by' := by linarith
  have k3 : ¬ vy ≤ by' := by linarith
  have k4 : qy < vy := by linarith
  have k5 : qy ≤ vy := by linarith
  have k6 : ¬ qy < by' := by linarith
  have k7 : ¬ qy ≤ by' := by linarith
  have k8 : by' < vy := by linarith
  have k9 : by' ≤ vy := by linarith
  have k10 : by' < qy := by linarith
  have k11 : by' ≤ qy := by linarith
  have f1 : 0 < (1 - t) * T := mul_pos h1t sg
  have f2 : ¬ (1 - t) * T < 0 := not_lt.mpr (mul_pos h1t sg).le
  have f3 : -((1 - t) * T) < 0 := by have := mul_pos h1t sg; linarith
  have f4 : 0 < t' * T := mul_pos t0' sg
  have f5 : ¬ t' * T < 0 := not_lt.mpr (mul_pos t0' sg).le
  have f6 : -(t' * T) < 0 := by have := mul_pos t0' sg; linarith
  unfold VGoal incR lamR
  simp only [inR_eq]
  simp only [g0, g1, g2, g3, g4, g5, g6, g7, g8, g9, g10, g11, k0, k1, k2, k3, k4, k5, k6, k7, k8, k9, k10, k11, f1, f2, f3, f4, f5, f6, lt_irrefl, ↓reduceIte]
  all_goals link_finish

theorem vleaf_pzn {ay vy by' py qy ax vx bx t t' T : Rat} (t0 : 0 < t) (t1 : t < 1) (t0' : 0 < t')
    (t1' : t' < 1) (hPy : py = ay + t * (vy - ay)) (hQy : qy = vy + t' * (by' - vy))
    (hTe : T = (vx - ax) * (by' - vy) - (vy - ay) * (bx - vx))
    (hav : ¬ (ax = vx ∧ ay = vy)) (hvb : ¬ (vx = bx ∧ vy = by'))
    (hU : T = 0 → 0 < (vx - ax) * (bx - vx) + (vy - ay) * (by' - vy))
    (d1 : 0 < vy - ay) (d2 : by' - vy = 0) (sg : T < 0) :
    VGoal ay vy by' py qy ax vx bx t t' T := by
  have h1t : 0 < 1 - t := by linarith
  have hb1 : ay < py := by rw [hPy]; nlinarith
  have hb2 : py < vy := by rw [hPy]; nlinarith
  have hb3 : by' = vy := by linarith
  have hb4 : qy = vy := by rw [hQy, hb3]; ring
  have hTe' : T = -((vy - ay) * (bx - vx)) := by rw [hTe, d2]; ring
  have hdx : 0 < bx - vx := by
    by_contra hc
    have hc := not_lt.mp hc
    have : (vy - ay) * (bx - vx) ≤ 0 := mul_nonpos_of_nonneg_of_nonpos d1.le hc
    linarith
  have g0 : ay < py := by linarith
  have g1 : ay ≤ py := by linarith
  have g2 : ay < vy := by linarith
  have g3 : ay ≤ vy := by linarith
  have g4 : ¬ py < ay := by linarith
  have g5 : ¬ py ≤ ay := by linarith
  have g6 : py < vy := by linarith
  have g7 : py ≤ vy := by linarith
  have g8 : ¬ vy < ay := by linarith
  have g9 : ¬ vy ≤ ay := by linarith
  have g10 : ¬ vy < py := by linarith
  have g11 : ¬ vy ≤ py := by linarith
  have k0 : ¬ vy < qy := by linarith
  have k1 : vy ≤ qy := by linarith
  have k2 : ¬ vy < by' := by linarith
  have k3 : vy ≤ by' := by linarith
  have k4 : ¬ qy < vy := by linarith
  have k5 : qy ≤ vy := by linarith
  have k6 : ¬ qy < by' := by linarith
  have k7 : qy ≤ by' := by linarith
  have k8 : ¬ by' < vy := by linarith
  have k9 : by' ≤ vy := by linarith
  have k10 : ¬ by' < qy := by linarith
  have k11 : by' ≤ qy := by linarith
  have f1 : ¬ 0 < (1 - t) * T := not_lt.mpr (mul_neg_of_pos_of_neg h1t sg).le
  have f2 : (1 - t) * T < 0 := mul_neg_of_pos_of_neg h1t sg
  have f3 : ¬ -((1 - t) * T) < 0 := by have := mul_neg_of_pos_of_neg h1t sg; linarith
  have f4 : ¬ 0 < t' * T := not_lt.mpr (mul_neg_of_pos_of_neg t0' sg).le
  have f5 : t' * T < 0 := mul_neg_of_pos_of_neg t0' sg
  have f6 : ¬ -(t' * T) < 0 := by have := mul_neg_of_pos_of_neg t0' sg; linarith
  have l1 : ¬ bx < vx := by linarith
  unfold VGoal incR lamR
  simp only [inR_eq]
  simp only [g0, g1, g2, g3, g4, g5, g6, g7, g8, g9, g10, g11, k0, k1, k2, k3, k4, k5, k6, k7, k8, k9, k10, k11, f1, f2, f3, f4, f5, f6, l1, lt_irrefl, ↓reduceIte]
  all_goals link_finish

theorem vleaf_pzz {ay vy by' py qy ax vx bx t t' T : Rat} (t0 : 0 < t) (t1 : t < 1) (t0' : 0 < t')
    (t1' : t' < 1) (hPy : py = ay + t * (vy - ay)) (hQy : qy = vy + t' * (by' - vy))
    (hTe : T = (vx - ax) * (by' - vy) - (vy - ay) * (bx - vx))
    (hav : ¬ (ax = vx ∧ ay = vy)) (hvb : ¬ (vx = bx ∧ vy = by'))
    (hU : T = 0 → 0 < (vx - ax) * (bx - vx) + (vy - ay) * (by' - vy))
    (d1 : 0 < vy - ay) (d2 : by' - vy = 0) (sg : T = 0) :
    VGoal ay vy by' py qy ax vx bx t t' T := by
  have h1t : 0 < 1 - t := by linarith
  exfalso
  rw [sg, d2] at hTe
  have : (vy - ay) * (bx - vx) = 0 := by linarith
  rcases mul_eq_zero.mp this with h | h
  · linarith
  · exact hvb ⟨by linarith, by linarith⟩

theorem vleaf_pzp {ay vy by' py qy ax vx bx t t' T : Rat} (t0 : 0 < t) (t1 : t < 1) (t0' : 0 < t')
    (t1' : t' < 1) (hPy : py = ay + t * (vy - ay)) (hQy : qy = vy + t' * (by' - vy))
    (hTe : T = (vx - ax) * (by' - vy) - (vy - ay) * (bx - vx))
    (hav : ¬ (ax = vx ∧ ay = vy)) (hvb : ¬ (vx = bx ∧ vy = by'))
    (hU : T = 0 → 0 < (vx - ax) * (bx - vx) + (vy - ay) * (by' - vy))
    (d1 : 0 < vy - ay) (d2 : by' - vy = 0) (sg : 0 < T) :
    VGoal ay vy by' py qy ax vx bx t t' T := by
  have h1t : 0 < 1 - t := by linarith
  have hb1 : ay < py := by rw [hPy]; nlinarith
  have hb2 : py < vy := by rw [hPy]; nlinarith
  have hb3 : by' = vy := by linarith
  have hb4 : qy = vy := by rw [hQy, hb3]; ring
  have hTe' : T = -((vy - ay) * (bx - vx)) := by rw [hTe, d2]; ring
  have hdx : bx - vx < 0 := by
    by_contra hc
    have hc := not_lt.mp hc
    have : 0 ≤ (vy - ay) * (bx - vx) := mul_nonneg d1.le hc
    linarith
  have g0 : ay < py := by linarith
  have g1 : ay ≤ py := by linarith
  have g2 : ay < vy := by linarith
  have g3 : ay ≤ vy := by linarith
  have g4 : ¬ py < ay := by linarith
  have g5 : ¬ py ≤ ay := by linarith
  have g6 : py < vy := by linarith
  have g7 : py ≤ vy := by linarith
  have g8 : ¬ vy < ay := by linarith
  have g9 : ¬ vy ≤ ay := by linarith
  have g10 : ¬ vy < py := by linarith
  have g11 : ¬ vy ≤ py := by linarith
  have k0 : ¬ vy < qy := by linarith
  have k1 : vy ≤ qy := by linarith
  have k2 : ¬ vy < by' := by linarith
  have k3 : vy ≤ by' := by linarith
  have k4 : ¬ qy < vy := by linarith
  have k5 : qy ≤ vy := by linarith
  have k6 : ¬ qy < by' := by linarith
  have k7 : qy ≤ by' := by linarith
  have k8 : ¬ by' < vy := by linarith
  have k9 : by' ≤ vy := by linarith
  have k10 : ¬ by' < qy := by linarith
  have k11 : by' ≤ qy := by linarith
  have f1 : 0 < (1 - t) * T := mul_pos h1t sg
  have f2 : ¬ (1 - t) * T < 0 := not_lt.mpr (mul_pos h1t sg).le
  have f3 : -((1 - t) * T) < 0 := by have := mul_pos h1t sg; linarith
  have f4 : 0 < t' * T := mul_pos t0' sg
  have f5 : ¬ t' * T < 0 := not_lt.mpr (mul_pos t0' sg).le
  have f6 : -(t' * T) < 0 := by have := mul_pos t0' sg; linarith
  have l1 : bx < vx := by linarith
  unfold VGoal incR lamR
  simp only [inR_eq]
  simp only [g0, g1, g2, g3, g4, g5, g6, g7, g8, g9, g10, g11, k0, k1, k2, k3, k4, k5, k6, k7, k8, k9, k10, k11, f1, f2, f3, f4, f5, f6, l1, lt_irrefl, ↓reduceIte]
  all_goals link_finish

theorem vleaf_ppn {ay vy by' py qy ax vx bx t t' T : Rat} (t0 : 0 < t) (t1 : t < 1) (t0' : 0 < t')
    (t1' : t' < 1) (hPy : py = ay + t * (vy - ay)) (hQy : qy = vy + t' * (by' - vy))
    (hTe : T = (vx - ax) * (by' - vy) - (vy - ay) * (bx - vx))
    (hav : ¬ (ax = vx ∧ ay = vy)) (hvb : ¬ (vx = bx ∧ vy = by'))
    (hU : T = 0 → 0 < (vx - ax) * (bx - vx) + (vy - ay) * (by' - vy))
    (d1 : 0 < vy - ay) (d2 : 0 < by' - vy) (sg : T < 0) :
    VGoal ay vy by' py qy ax vx bx t t' T := by
  have h1t : 0 < 1 - t := by linarith
  have hb1 : ay < py := by rw [hPy]; nlinarith
  have hb2 : py < vy := by rw [hPy]; nlinarith
  have hb3 : vy < qy := by rw [hQy]; nlinarith
  have hb4 : qy < by' := by rw [hQy]; nlinarith
  have g0 : ay < py := by linarith
  have g1 : ay ≤ py := by linarith
  have g2 : ay < vy := by linarith
  have g3 : ay ≤ vy := by linarith
  have g4 : ¬ py < ay := by linarith
  have g5 : ¬ py ≤ ay := by linarith
  have g6 : py < vy := by linarith
  have g7 : py ≤ vy := by linarith
  have g8 : ¬ vy < ay := by linarith
  have g9 : ¬ vy ≤ ay := by linarith
  have g10 : ¬ vy < py := by linarith
  have g11 : ¬ vy ≤ py := by linarith
  have k0 : vy < qy := by linarith
  have k1 : vy ≤ qy := by linarith
  have k2 : vy < by' := by linarith
  have k3 : vy ≤ by' := by linarith
  have k4 : ¬ qy < vy := by linarith
  have k5 : ¬ qy ≤ vy := by linarith
  have k6 : qy < by' := by linarith
  have k7 : qy ≤ by' := by linarith
  have k8 : ¬ by' < vy := by linarith
  have k9 : ¬ by' ≤ vy := by linarith
  have k10 : ¬ by' < qy := by linarith
  have k11 : ¬ by' ≤ qy := by linarith
  have f1 : ¬ 0 < (1 - t) * T := not_lt.mpr (mul_neg_of_pos_of_neg h1t sg).le
  have f2 : (1 - t) * T < 0 := mul_neg_of_pos_of_neg h1t sg
  have f3 : ¬ -((1 - t) * T) < 0 := by have := mul_neg_of_pos_of_neg h1t sg; linarith
  have f4 : ¬ 0 < t' * T := not_lt.mpr (mul_neg_of_pos_of_neg t0' sg).le
  have f5 : t' * T < 0 := mul_neg_of_pos_of_neg t0' sg
  have f6 : ¬ -(t' * T) < 0 := by have := mul_neg_of_pos_of_neg t0' sg; linarith
  unfold VGoal incR lamR
  simp only [inR_eq]
  simp only [g0, g1, g2, g3, g4, g5, g6, g7, g8, g9, g10, g11, k0, k1, k2, k3, k4, k5, k6, k7, k8, k9, k10, k11, f1, f2, f3, f4, f5, f6, lt_irrefl, ↓reduceIte]
  all_goals link_finish

theorem vleaf_ppz {ay vy by' py qy ax vx bx t t' T : Rat} (t0 : 0 < t) (t1 : t < 1) (t0' : 0 < t')
    (t1' : t' < 1) (hPy : py = ay + t * (vy - ay)) (hQy : qy = vy + t' * (by' - vy))
    (hTe : T = (vx - ax) * (by' - vy) - (vy - ay) * (bx - vx))
    (hav : ¬ (ax = vx ∧ ay = vy)) (hvb : ¬ (vx = bx ∧ vy = by'))
    (hU : T = 0 → 0 < (vx - ax) * (bx - vx) + (vy - ay) * (by' - vy))
    (d1 : 0 < vy - ay) (d2 : 0 < by' - vy) (sg : T = 0) :
    VGoal ay vy by' py qy ax vx bx t t' T := by
  have h1t : 0 < 1 - t := by linarith
  subst sg
  have hb1 : ay < py := by rw [hPy]; nlinarith
  have hb2 : py < vy := by rw [hPy]; nlinarith
  have hb3 : vy < qy := by rw [hQy]; nlinarith
  have hb4 : qy < by' := by rw [hQy]; nlinarith
  have g0 : ay < py := by linarith
  have g1 : ay ≤ py := by linarith
  have g2 : ay < vy := by linarith
  have g3 : ay ≤ vy := by linarith
  have g4 : ¬ py < ay := by linarith
  have g5 : ¬ py ≤ ay := by linarith
  have g6 : py < vy := by linarith
  have g7 : py ≤ vy := by linarith
  have g8 : ¬ vy < ay := by linarith
  have g9 : ¬ vy ≤ ay := by linarith
  have g10 : ¬ vy < py := by linarith
  have g11 : ¬ vy ≤ py := by linarith
  have k0 : vy < qy := by linarith
  have k1 : vy ≤ qy := by linarith
  have k2 : vy < by' := by linarith
  have k3 : vy ≤ by' := by linarith
  have k4 : ¬ qy < vy := by linarith
  have k5 : ¬ qy ≤ vy := by linarith
  have k6 : qy < by' := by linarith
  have k7 : qy ≤ by' := by linarith
  have k8 : ¬ by' < vy := by linarith
  have k9 : ¬ by' ≤ vy := by linarith
  have k10 : ¬ by' < qy := by linarith
  have k11 : ¬ by' ≤ qy := by linarith
  unfold VGoal incR lamR
  simp only [inR_eq]
  simp only [g0, g1, g2, g3, g4, g5, g6, g7, g8, g9, g10, g11, k0, k1, k2, k3, k4, k5, k6, k7, k8, k9, k10, k11, mul_zero, neg_zero, lt_irrefl, ↓reduceIte]
  all_goals link_finish

theorem vleaf_ppp {ay vy by' py qy ax vx bx t t' T : Rat} (t0 : 0 < t) (t1 : t < 1) (t0' : 0 < t')
    (t1' : t' < 1) (hPy : py = ay + t * (vy - ay)) (hQy : qy = vy + t' * (by' - vy))
    (hTe : T = (vx - ax) * (by' - vy) - (vy - ay) * (bx - vx))
    (hav : ¬ (ax = vx ∧ ay = vy)) (hvb : ¬ (vx = bx ∧ vy = by'))
    (hU : T = 0 → 0 < (vx - ax) * (bx - vx) + (vy - ay) * (by' - vy))
    (d1 : 0 < vy - ay) (d2 : 0 < by' - vy) (sg : 0 < T) :
    VGoal ay vy by' py qy ax vx bx t t' T := by
  have h1t : 0 < 1 - t := by linarith
  have hb1 : ay < py := by rw [hPy]; nlinarith
  have hb2 : py < vy := by rw [hPy]; nlinarith
  have hb3 : vy < qy := by rw [hQy]; nlinarith
  have hb4 : qy < by' := by rw [hQy]; nlinarith
  have g0 : ay < py := by linarith
  have g1 : ay ≤ py := by linarith
  have g2 : ay < vy := by linarith
  have g3 : ay ≤ vy := by linarith
  have g4 : ¬ py < ay := by linarith
  have g5 : ¬ py ≤ ay := by linarith
  have g6 : py < vy := by linarith
  have g7 : py ≤ vy := by linarith
  have g8 : ¬ vy < ay := by linarith
  have g9 : ¬ vy ≤ ay := by linarith
  have g10 : ¬ vy < py := by linarith
  have g11 : ¬ vy ≤ py := by linarith
  have k0 : vy < qy := by linarith
  have k1 : vy ≤ qy := by linarith
  have k2 : vy < by' := by linarith
  have k3 : vy ≤ by' := by linarith
  have k4 : ¬ qy < vy := by linarith
  have k5 : ¬ qy ≤ vy := by linarith
  have k6 : qy < by' := by linarith
  have k7 : qy ≤ by' := by linarith
  have k8 : ¬ by' < vy := by linarith
  have k9 : ¬ by' ≤ vy := by linarith
  have k10 : ¬ by' < qy := by linarith
  have k11 : ¬ by' ≤ qy := by linarith
  have f1 : 0 < (1 - t) * T := mul_pos h1t sg
  have f2 : ¬ (1 - t) * T < 0 := not_lt.mpr (mul_pos h1t sg).le
  have f3 : -((1 - t) * T) < 0 := by have := mul_pos h1t sg; linarith
  have f4 : 0 < t' * T := mul_pos t0' sg
  have f5 : ¬ t' * T < 0 := not_lt.mpr (mul_pos t0' sg).le
  have f6 : -(t' * T) < 0 := by have := mul_pos t0' sg; linarith
  unfold VGoal incR lamR
  simp only [inR_eq]
  simp only [g0, g1, g2, g3, g4, g5, g6, g7, g8, g9, g10, g11, k0, k1, k2, k3, k4, k5, k6, k7, k8, k9, k10, k11, f1, f2, f3, f4, f5, f6, lt_irrefl, ↓reduceIte]
  all_goals link_finish

theorem vgoal {ay vy by' py qy ax vx bx t t' T : Rat} (t0 : 0 < t) (t1 : t < 1) (t0' : 0 < t')
    (t1' : t' < 1) (hPy : py = ay + t * (vy - ay)) (hQy : qy = vy + t' * (by' - vy))
    (hTe : T = (vx - ax) * (by' - vy) - (vy - ay) * (bx - vx))
    (hav : ¬ (ax = vx ∧ ay = vy)) (hvb : ¬ (vx = bx ∧ vy = by'))
    (hU : T = 0 → 0 < (vx - ax) * (bx - vx) + (vy - ay) * (by' - vy)) :
    VGoal ay vy by' py qy ax vx bx t t' T := by
  rcases lt_trichotomy (vy - ay) 0 with d1 | d1 | d1
  · rcases lt_trichotomy (by' - vy) 0 with d2 | d2 | d2
    · rcases lt_trichotomy T 0 with sg | sg | sg
      · exact vleaf_nnn t0 t1 t0' t1' hPy hQy hTe hav hvb hU d1 d2 sg
      · exact vleaf_nnz t0 t1 t0' t1' hPy hQy hTe hav hvb hU d1 d2 sg
      · exact vleaf_nnp t0 t1 t0' t1' hPy hQy hTe hav hvb hU d1 d2 sg
    · rcases lt_trichotomy T 0 with sg | sg | sg
      · exact vleaf_nzn t0 t1 t0' t1' hPy hQy hTe hav hvb hU d1 d2 sg
      · exact vleaf_nzz t0 t1 t0' t1' hPy hQy hTe hav hvb hU d1 d2 sg
      · exact vleaf_nzp t0 t1 t0' t1' hPy hQy hTe hav hvb hU d1 d2 sg
    · rcases lt_trichotomy T 0 with sg | sg | sg
      · exact vleaf_npn t0 t1 t0' t1' hPy hQy hTe hav hvb hU d1 d2 sg
      · exact vleaf_npz t0 t1 t0' t1' hPy hQy hTe hav hvb hU d1 d2 sg
      · exact vleaf_npp t0 t1 t0' t1' hPy hQy hTe hav hvb hU d1 d2 sg
  · rcases lt_trichotomy (by' - vy) 0 with d2 | d2 | d2
    · rcases lt_trichotomy T 0 with sg | sg | sg
      · exact vleaf_znn t0 t1 t0' t1' hPy hQy hTe hav hvb hU d1 d2 sg
      · exact vleaf_znz t0 t1 t0' t1' hPy hQy hTe hav hvb hU d1 d2 sg
      · exact vleaf_znp t0 t1 t0' t1' hPy hQy hTe hav hvb hU d1 d2 sg
    · rcases lt_trichotomy T 0 with sg | sg | sg
      · exact vleaf_zzn t0 t1 t0' t1' hPy hQy hTe hav hvb hU d1 d2 sg
      · exact vleaf_zzz t0 t1 t0' t1' hPy hQy hTe hav hvb hU d1 d2 sg
      · exact vleaf_zzp t0 t1 t0' t1' hPy hQy hTe hav hvb hU d1 d2 sg
    · rcases lt_trichotomy T 0 with sg | sg | sg
      · exact vleaf_zpn t0 t1 t0' t1' hPy hQy hTe hav hvb hU d1 d2 sg
      · exact vleaf_zpz t0 t1 t0' t1' hPy hQy hTe hav hvb hU d1 d2 sg
      · exact vleaf_zpp t0 t1 t0' t1' hPy hQy hTe hav hvb hU d1 d2 sg
  · rcases lt_trichotomy (by' - vy) 0 with d2 | d2 | d2
    · rcases lt_trichotomy T 0 with sg | sg | sg
      · exact vleaf_pnn t0 t1 t0' t1' hPy hQy hTe hav hvb hU d1 d2 sg
      · exact vleaf_pnz t0 t1 t0' t1' hPy hQy hTe hav hvb hU d1 d2 sg
      · exact vleaf_pnp t0 t1 t0' t1' hPy hQy hTe hav hvb hU d1 d2 sg
    · rcases lt_trichotomy T 0 with sg | sg | sg
      · exact vleaf_pzn t0 t1 t0' t1' hPy hQy hTe hav hvb hU d1 d2 sg
      · exact vleaf_pzz t0 t1 t0' t1' hPy hQy hTe hav hvb hU d1 d2 sg
      · exact vleaf_pzp t0 t1 t0' t1' hPy hQy hTe hav hvb hU d1 d2 sg
    · rcases lt_trichotomy T 0 with sg | sg | sg
      · exact vleaf_ppn t0 t1 t0' t1' hPy hQy hTe hav hvb hU d1 d2 sg
      · exact vleaf_ppz t0 t1 t0' t1' hPy hQy hTe hav hvb hU d1 d2 sg
      · exact vleaf_ppp t0 t1 t0' t1' hPy hQy hTe hav hvb hU d1 d2 sg

/-- **the local statement at a vertex** -/
theorem vertex_local {a v b P Q : Pt} {t t' : Rat} (t0 : 0 < t) (t1 : t < 1) (t0' : 0 < t')
    (t1' : t' < 1)
    (hPx : P.x = a.x + t * (v.x - a.x)) (hPy : P.y = a.y + t * (v.y - a.y))
    (hQx : Q.x = v.x + t' * (b.x - v.x)) (hQy : Q.y = v.y + t' * (b.y - v.y))
    (hav : a ≠ v) (hvb : v ≠ b)
    (hU : cross a v b = 0 → 0 < (v.x - a.x) * (b.x - v.x) + (v.y - a.y) * (b.y - v.y)) :
    ptInc P v b + lam a v =
      (if P.y < v.y then inR P.y v.y b.y (cross P v b) - inR P.y v.y a.y (cross P v a)
       else if v.y < P.y then -(inR v.y P.y b.y (cross v P b) - inR v.y P.y a.y (cross v P a))
       else 0)
      + (if v.y < Q.y then inR v.y Q.y b.y (cross v Q b) - inR v.y Q.y a.y (cross v Q a)
         else if Q.y < v.y then -(inR Q.y v.y b.y (cross Q v b) - inR Q.y v.y a.y (cross Q v a))
         else 0)
      + ptInc Q a v + lam v b := by
  have c1 : cross P v b = (1 - t) * cross a v b := by unfold cross; rw [hPx, hPy]; ring
  have c2 : cross P v a = 0 := by unfold cross; rw [hPx, hPy]; ring
  have c3 : cross v P b = -((1 - t) * cross a v b) := by unfold cross; rw [hPx, hPy]; ring
  have c4 : cross v P a = 0 := by unfold cross; rw [hPx, hPy]; ring
  have c5 : cross v Q b = 0 := by unfold cross; rw [hQx, hQy]; ring
  have c6 : cross v Q a = t' * cross a v b := by unfold cross; rw [hQx, hQy]; ring
  have c7 : cross Q v b = 0 := by unfold cross; rw [hQx, hQy]; ring
  have c8 : cross Q v a = -(t' * cross a v b) := by unfold cross; rw [hQx, hQy]; ring
  have c9 : cross v b P = (1 - t) * cross a v b := by unfold cross; rw [hPx, hPy]; ring
  have c10 : cross a v Q = t' * cross a v b := by unfold cross; rw [hQx, hQy]; ring
  rw [ptInc_eq_incR, ptInc_eq_incR, lam_eq, lam_eq, c1, c2, c3, c4, c5, c6, c7, c8, c9, c10]
  exact vgoal t0 t1 t0' t1' hPy hQy rfl
    (fun h => hav (Pt.ext' h.1 h.2)) (fun h => hvb (Pt.ext' h.1 h.2)) hU

end Geo.Proofs.WIND
