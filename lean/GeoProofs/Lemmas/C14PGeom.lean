/-
  C14 helper lemmas (pair-local geometry): what `pairBad` / `chainedOverlap` / `adjacentOk` say about
  two segments that share an end point, in terms of the point-set specification `SegMem`.
-/
import GeoModel.ValidationSpec
import GeoProofs.Lemmas.SegmentSpec
import GeoProofs.Lemmas.LISpec
import GeoProofs.Props.C11

namespace Geo.Proofs.C14P
open Geo Geo.V Geo.Proofs.Kernel

theorem pt_ne_xy {a b : Pt} (h : a ≠ b) : a.x ≠ b.x ∨ a.y ≠ b.y := by
  by_cases hx : a.x = b.x
  · right; intro hy; exact h (Pt.ext' hx hy)
  · left; exact hx

theorem cross_swap (a b c : Pt) : cross b a c = - cross a b c := by
  unfold cross; ring

/-- two non-degenerate segments `a→b`, `b→c`: `a`, `b`, `c` collinear with `a`, `c` on the same side
of `b` (the test of `chained_lines_overlap`) ⇔ the segments share a point other than `b` -/
theorem ray_overlap_iff (a b c : Pt) (hab : a ≠ b) (hbc : b ≠ c) :
    (orient a b c = .col ∧ (V.sameSide a.x b.x c.x || V.sameSide a.y b.y c.y) = true) ↔
      ∃ z, z ≠ b ∧ SegMem z a b ∧ SegMem z b c := by
  rw [orient_col_iff]
  simp only [V.sameSide, Bool.or_eq_true, Bool.and_eq_true, decide_eq_true_eq]
  constructor
  · rintro ⟨h0, hs⟩
    have h0' : cross b a c = 0 := by rw [cross_swap, h0]; ring
    obtain ⟨τ, hcx, hcy⟩ := exists_param (Ne.symm hab) h0'
    have hτ : 0 < τ := by
      by_contra hle
      have hle : τ ≤ 0 := not_lt.mp hle
      rcases hs with (⟨h1, h2⟩ | ⟨h1, h2⟩) | (⟨h1, h2⟩ | ⟨h1, h2⟩)
      · nlinarith
      · nlinarith
      · nlinarith
      · nlinarith
    by_cases h1 : 1 ≤ τ
    · refine ⟨a, hab, SegMem_left _ _, 1 / τ, by positivity, ?_, ?_, ?_⟩
      · rw [div_le_one hτ]; exact h1
      · rw [hcx]; field_simp; ring
      · rw [hcy]; field_simp; ring
    · have h1 : τ < 1 := not_le.mp h1
      refine ⟨c, Ne.symm hbc, ⟨1 - τ, by linarith, by linarith, ?_, ?_⟩, SegMem_right _ _⟩
      · rw [hcx]; ring
      · rw [hcy]; ring
  · rintro ⟨z, hzb, ⟨s, s0, s1, hsx, hsy⟩, ⟨t, t0, t1, htx, hty⟩⟩
    have hs1 : s ≠ 1 := by
      intro h; apply hzb; apply Pt.ext'
      · rw [hsx, h]; ring
      · rw [hsy, h]; ring
    have ht0 : t ≠ 0 := by
      intro h; apply hzb; apply Pt.ext'
      · rw [htx, h]; ring
      · rw [hty, h]; ring
    have hu : 0 < 1 - s := by
      rcases lt_or_eq_of_le s1 with h | h
      · linarith
      · exact absurd h hs1
    have ht : 0 < t := lt_of_le_of_ne t0 (Ne.symm ht0)
    have ex : (1 - s) * (a.x - b.x) = t * (c.x - b.x) := by linarith
    have ey : (1 - s) * (a.y - b.y) = t * (c.y - b.y) := by linarith
    constructor
    · have : t * cross a b c = 0 := by
        unfold cross
        have : t * ((b.x - a.x) * (c.y - b.y) - (b.y - a.y) * (c.x - b.x)) =
            (b.x - a.x) * (t * (c.y - b.y)) - (b.y - a.y) * (t * (c.x - b.x)) := by ring
        rw [this, ← ex, ← ey]; ring
      rcases mul_eq_zero.mp this with h | h
      · exact absurd h ht0
      · exact h
    · rcases pt_ne_xy hab with hx | hy
      · left
        rcases lt_or_gt_of_ne hx with h | h
        · right
          refine ⟨h, ?_⟩
          by_contra hc
          have hc : b.x ≤ c.x := not_lt.mp hc
          nlinarith
        · left
          refine ⟨h, ?_⟩
          by_contra hc
          have hc : c.x ≤ b.x := not_lt.mp hc
          nlinarith
      · right
        rcases lt_or_gt_of_ne hy with h | h
        · right
          refine ⟨h, ?_⟩
          by_contra hc
          have hc : b.y ≤ c.y := not_lt.mp hc
          nlinarith
        · left
          refine ⟨h, ?_⟩
          by_contra hc
          have hc : c.y ≤ b.y := not_lt.mp hc
          nlinarith

theorem lineLine_shared (a b c d v : Pt) (h1 : SegMem v a b) (h2 : SegMem v c d) :
    lineLine a b c d = true := (lineLine_iff a b c d).mpr ⟨v, h1, h2⟩

/-- `chained_lines_overlap(a→b, b→c)` -/
theorem chainedOverlap_fwd (a b c : Pt) (hab : a ≠ b) (hbc : b ≠ c) :
    chainedOverlap (a, b) (b, c) = true ↔ ∃ z, z ≠ b ∧ SegMem z a b ∧ SegMem z b c := by
  rw [← ray_overlap_iff a b c hab hbc]
  have hab' : (a == b) = false := by simp [hab]
  have hbc' : (b == c) = false := by simp [hbc]
  simp [chainedOverlap, hab', hbc']

/-- `chained_lines_overlap(b→c, a→b)`: the operands in the other order (the pivot is found by
comparing `line.end` with `other.start` first — also when the two segments are a spike `c = a`) -/
theorem chainedOverlap_bwd (a b c : Pt) (hab : a ≠ b) (hbc : b ≠ c) :
    chainedOverlap (b, c) (a, b) = true ↔ ∃ z, z ≠ b ∧ SegMem z a b ∧ SegMem z b c := by
  have hab' : (a == b) = false := by simp [hab]
  have hbc' : (b == c) = false := by simp [hbc]
  by_cases hca : c = a
  · subst hca
    have hcb : (c == b) = false := hab'
    constructor
    · intro _
      exact ⟨c, hab, SegMem_left _ _, SegMem_right _ _⟩
    · intro _
      have hcol : orient b c b = .col := by
        rw [orient_col_iff]; unfold cross; ring
      have hs : (V.sameSide b.x c.x b.x || V.sameSide b.y c.y b.y) = true := by
        simp only [V.sameSide, Bool.or_eq_true, Bool.and_eq_true, decide_eq_true_eq]
        rcases pt_ne_xy hab with hx | hy
        · left
          rcases lt_or_gt_of_ne hx with h | h
          · left; exact ⟨h, h⟩
          · right; exact ⟨h, h⟩
        · right
          rcases lt_or_gt_of_ne hy with h | h
          · left; exact ⟨h, h⟩
          · right; exact ⟨h, h⟩
      simp [chainedOverlap, hbc', hcb, hcol, hs]
  · have hca' : (c == a) = false := by simp [hca]
    have : chainedOverlap (b, c) (a, b) =
        (orient c b a == .col && (V.sameSide c.x b.x a.x || V.sameSide c.y b.y a.y)) := by
      simp [chainedOverlap, hab', hbc', hca']
    rw [this]
    have := ray_overlap_iff c b a (Ne.symm hbc) (Ne.symm hab)
    simp only [Bool.and_eq_true, beq_iff_eq]
    rw [this]
    constructor
    · rintro ⟨z, hz, h1, h2⟩; exact ⟨z, hz, SegMem_symm h2, SegMem_symm h1⟩
    · rintro ⟨z, hz, h1, h2⟩; exact ⟨z, hz, SegMem_symm h2, SegMem_symm h1⟩

/-- the loop body on a chained pair, first segment first -/
theorem pairBad_fwd (a b c : Pt) (hab : a ≠ b) (hbc : b ≠ c) :
    pairBad (a, b) (b, c) = true ↔ ∃ z, z ≠ b ∧ SegMem z a b ∧ SegMem z b c := by
  rw [← chainedOverlap_fwd a b c hab hbc]
  have hl : lineLine a b b c = true := lineLine_shared _ _ _ _ b (SegMem_right _ _) (SegMem_left _ _)
  simp [pairBad, hl]

/-- the loop body on a chained pair, second segment first -/
theorem pairBad_bwd (a b c : Pt) (hab : a ≠ b) (hbc : b ≠ c) :
    pairBad (b, c) (a, b) = true ↔ ∃ z, z ≠ b ∧ SegMem z a b ∧ SegMem z b c := by
  rw [← chainedOverlap_bwd a b c hab hbc]
  have hl : lineLine b c a b = true := lineLine_shared _ _ _ _ b (SegMem_left _ _) (SegMem_right _ _)
  simp [pairBad, hl]

/-- the specification's test for consecutive segments: `line_intersection` is the single point `b`
⇔ `b` is the only common point -/
theorem adjacentOk_iff (a b c : Pt) (hab : a ≠ b) (hbc : b ≠ c) :
    adjacentOk (a, b) (b, c) b = true ↔ ¬ ∃ z, z ≠ b ∧ SegMem z a b ∧ SegMem z b c := by
  have hb : SegMem b a b ∧ SegMem b b c := ⟨SegMem_right _ _, SegMem_left _ _⟩
  unfold adjacentOk
  cases h : lineIntersection a b b c with
  | none =>
    exact absurd ⟨b, hb⟩ ((C11.li_none_iff a b b c).mp h)
  | some li =>
    cases li with
    | single x f =>
      have hex := C11.li_single_exact a b b c x f h
      have hbx : b = x := (hex b).mp hb
      subst hbx
      simp only [beq_self_eq_true, true_iff]
      rintro ⟨z, hz, h1, h2⟩
      exact hz ((hex z).mp ⟨h1, h2⟩)
    | collinear x y =>
      have hne := C11.li_collinear_nondegenerate_partial a b b c x y hab hbc h
      have hx := (C11.li_collinear_exact a b b c x y h x).mpr (SegMem_left _ _)
      have hy := (C11.li_collinear_exact a b b c x y h y).mpr (SegMem_right _ _)
      simp only [Bool.false_eq_true, false_iff, not_not]
      by_cases hxb : x = b
      · exact ⟨y, fun e => hne (by rw [hxb, e]), hy.1, hy.2⟩
      · exact ⟨x, hxb, hx.1, hx.2⟩

/-- [per-pair class: consecutive segments] the specification accepts the pair exactly when the
implementation's loop does not flag it — in either operand order -/
theorem adjacent_agree (s t : Pt × Pt) (hs : s.1 ≠ s.2) (ht : t.1 ≠ t.2) (hst : s.2 = t.1) :
    adjacentOk s t s.2 = !pairBad s t ∧ adjacentOk s t s.2 = !pairBad t s := by
  obtain ⟨a, b⟩ := s
  obtain ⟨b', c⟩ := t
  simp only at hs ht hst
  subst hst
  have h1 := adjacentOk_iff a b c hs ht
  have h2 := pairBad_fwd a b c hs ht
  have h3 := pairBad_bwd a b c hs ht
  constructor
  · rw [Bool.eq_iff_iff, h1, ← h2]; simp
  · rw [Bool.eq_iff_iff, h1, ← h3]; simp

/-- two non-degenerate segments that END at the same point are flagged -/
theorem pairBad_end_end (s t : Pt × Pt) (hs : s.1 ≠ s.2) (ht : t.1 ≠ t.2) (h : s.2 = t.2) :
    pairBad s t = true := by
  obtain ⟨x, v⟩ := s
  obtain ⟨y, v'⟩ := t
  simp only at hs ht h
  subst h
  have hl : lineLine x v y v = true := lineLine_shared _ _ _ _ v (SegMem_right _ _) (SegMem_right _ _)
  have e1 : (x != v) = true := by simp [hs]
  have e2 : (v != y) = true := by simp [Ne.symm ht]
  simp [pairBad, hl, e1, e2]

/-- two non-degenerate segments that START at the same point are flagged -/
theorem pairBad_start_start (s t : Pt × Pt) (hs : s.1 ≠ s.2) (ht : t.1 ≠ t.2) (h : s.1 = t.1) :
    pairBad s t = true := by
  obtain ⟨v, x⟩ := s
  obtain ⟨v', y⟩ := t
  simp only at hs ht h
  subst h
  have hl : lineLine v x v y = true := lineLine_shared _ _ _ _ v (SegMem_left _ _) (SegMem_left _ _)
  have e1 : (v != y) = true := by simp [ht]
  have e2 : (x != v) = true := by simp [Ne.symm hs]
  simp [pairBad, hl, e1, e2]

theorem pairBad_lineLine (l o : Pt × Pt) (h : pairBad l o = true) : lineLine l.1 l.2 o.1 o.2 = true := by
  simp only [pairBad, Bool.and_eq_true] at h
  exact h.1

/-- a degenerate segment `(a, a)` is flagged against `o` only if `a` lies on `o` and is neither of
its end points -/
theorem pairBad_degenerate_left (a : Pt) (o : Pt × Pt) (h : pairBad (a, a) o = true) :
    SegMem a o.1 o.2 ∧ a ≠ o.1 ∧ a ≠ o.2 := by
  simp only [pairBad, chainedOverlap, beq_self_eq_true, Bool.true_or, if_true, Bool.or_false,
    Bool.and_eq_true, bne_iff_ne, ne_eq] at h
  obtain ⟨hl, h1, h2⟩ := h
  obtain ⟨p, hp1, hp2⟩ := (lineLine_iff _ _ _ _).mp hl
  rw [SegMem_degenerate] at hp1
  subst hp1
  exact ⟨hp2, h2, h1⟩

theorem pairBad_degenerate_right (a : Pt) (l : Pt × Pt) (h : pairBad l (a, a) = true) :
    SegMem a l.1 l.2 ∧ a ≠ l.1 ∧ a ≠ l.2 := by
  simp only [pairBad, chainedOverlap, beq_self_eq_true, Bool.or_true, if_true, Bool.or_false,
    Bool.and_eq_true, bne_iff_ne, ne_eq] at h
  obtain ⟨hl, h1, h2⟩ := h
  obtain ⟨p, hp1, hp2⟩ := (lineLine_iff _ _ _ _).mp hl
  rw [SegMem_degenerate] at hp2
  subst hp2
  exact ⟨hp1, fun e => h1 e.symm, fun e => h2 e.symm⟩

/-- a vertex `a` strictly inside a segment `o`: every non-degenerate segment with an end at `a`
is flagged against `o` -/
theorem pairBad_of_vertex_inside (s o : Pt × Pt) (a : Pt) (hs : s.1 ≠ s.2) (hsa : s.1 = a ∨ s.2 = a)
    (hin : SegMem a o.1 o.2) (h1 : a ≠ o.1) (h2 : a ≠ o.2) : pairBad s o = true := by
  obtain ⟨p, q⟩ := s
  obtain ⟨x, y⟩ := o
  simp only at hs hsa hin h1 h2
  have hxy : x ≠ y := by
    intro e; subst e
    exact h1 ((SegMem_degenerate a x).mp hin)
  rcases hsa with e | e
  · -- s = (a, q)
    subst e
    have hl : lineLine p q x y = true := lineLine_shared _ _ _ _ p (SegMem_left _ _) hin
    by_cases hq : q = x
    · subst hq
      exact (pairBad_fwd p q y hs hxy).mpr ⟨p, hs, SegMem_left _ _, hin⟩
    · have e1 : (p != y) = true := by simp [h2]
      have e2 : (q != x) = true := by simp [hq]
      simp [pairBad, hl, e1, e2]
  · -- s = (p, a)
    subst e
    have hl : lineLine p q x y = true := lineLine_shared _ _ _ _ q (SegMem_right _ _) hin
    by_cases hp : p = y
    · subst hp
      exact (pairBad_bwd x p q hxy hs).mpr ⟨q, Ne.symm hs, hin, SegMem_right _ _⟩
    · have e1 : (p != y) = true := by simp [hp]
      have e2 : (q != x) = true := by simp [h1]
      simp [pairBad, hl, e1, e2]

end Geo.Proofs.C14P
