/-
  C02Z: `Rect: Contains<Polygon>` (all exterior coordinates in the closed box, and — when none is strictly inside —
  a non-zero signed area) is the mask `T*****FF*` on the DE-9IM specification, on the validity domain
  (`containsM_rect_polygon_partial`), under the only extra hypothesis that a *valid* polygon none of whose exterior
  coordinates is strictly inside the box has a non-zero signed area (a Jordan / shoelace fact).

  Skeleton of `containsM_rect_rect` (C02YRect). New: a face sample inside the polygon is inside the Rect because the
  exterior ring lies in the closed box (`windingE_box`, C02ZRectE); `II ≠ F` by the interior side of a shell edge
  (`valid_side_inside`, C02XSide).
-/
import GeoProofs.Lemmas.C02ZRectE
import GeoProofs.Lemmas.C02YRect
import GeoProofs.Lemmas.C02XSide
import GeoProofs.Lemmas.C02YAvoid
import Mathlib.Tactic.NormNum

set_option linter.unusedSimpArgs false
set_option linter.unusedVariables false

namespace Geo.Proofs.C02Z
open Geo Geo.Proofs.Kernel Geo.Proofs.Spec Geo.Proofs.C02X Geo.Proofs.C02Y

theorem locateFace_polygon (p : Poly) (e : EPt) :
    locateFace (parts (.polygon p)) e = if insidePolyE e p = true then .inside else .outside := by
  simp [locateFace, parts]

theorem mem_allCoords_polygon {p : Poly} {r : List Pt} (hr : r ∈ p.rings) {c : Pt} (hc : c ∈ r) :
    c ∈ allCoords (parts (.polygon p)) :=
  mem_allCoords_ring (ps := parts (.polygon p)) (q := p) (by simp [parts]) hr hc

/-- a face sample inside a valid polygon whose exterior ring lies in the closed box is inside the Rect -/
theorem face_in_rect {mn mx : Pt} (hx : mn.x < mx.x) (hy : mn.y < mx.y) {p : Poly}
    (hc : p.ext.head? = p.ext.getLast?)
    (hin : ∀ c ∈ p.ext, mn.x ≤ c.x ∧ c.x ≤ mx.x ∧ mn.y ≤ c.y ∧ c.y ≤ mx.y) {e : EPt}
    (h : insidePolyE e p = true) : insidePolyE e ⟨SM.rectToPolygon ⟨mn, mx⟩, []⟩ = true := by
  rw [insidePolyE_rect _ _ hx hy]
  unfold insidePolyE at h
  rw [Bool.and_eq_true, bne_iff_ne] at h
  exact windingE_box e p.ext hc mn mx hin h.1

/-- **`Rect: Contains<Polygon>` is the mask `T*****FF*` on the specification** (validity domain; a valid polygon
without exterior coordinate strictly inside the box is assumed to have a non-zero signed area) -/
theorem containsM_rect_polygon_partial' (mn mx : Pt) (p : Poly)
    (ha : inDomain (.rect mn mx) = true) (hb : inDomain (.polygon p) = true)
    (harea : polyValid p = true → (p.ext.filter (fun c => rectContainsCoord mn mx c)).length = 0 →
      p.signedArea ≠ 0) :
    containsM (.rect mn mx) (.polygon p) = Gen.isContains (relateSpec (.rect mn mx) (.polygon p)) := by
  obtain ⟨hax, hay⟩ := rect_dom ha
  have ca := (dom_facts _ ha).closed
  have cb := (dom_facts _ hb).closed
  have e : containsM (.rect mn mx) (.polygon p) = rectContainsPolygon mn mx p := rfl
  have hr : relateSpec (.rect mn mx) (.polygon p) =
      relateParts (parts (.rect mn mx)) (parts (.polygon p)) := rfl
  rw [e, hr]
  have hv : (p.ext.isEmpty && p.ints.isEmpty) = true ∨ polyValid p = true := by
    simpa [inDomain, validGeom] using hb
  have hextr : p.ext ∈ p.rings := by simp [Poly.rings]
  by_cases hemp : p.ext = []
  · -- the empty polygon: nothing is located inside it
    have hcode : rectContainsPolygon mn mx p = false := by simp [rectContainsPolygon, hemp]
    rw [hcode]
    symm
    have hints : p.ints = [] := by
      rcases hv with he | hpv
      · rw [Bool.and_eq_true, List.isEmpty_iff, List.isEmpty_iff] at he
        exact he.2
      · obtain ⟨c1, h1, _⟩ := ringSimple_two (rings_simple hpv p.ext hextr)
        rw [hemp] at h1; cases h1
    have hnoc : ∀ c, c ∉ allCoords (parts (.polygon p)) := by
      intro c hc
      simp [allCoords, parts, Poly.rings, hemp, hints] at hc
    cases hcI : Gen.isContains (relateParts (parts (.rect mn mx)) (parts (.polygon p))) with
    | false => rfl
    | true =>
      exfalso
      obtain ⟨hii, _, _⟩ := (isContains_cells _).mp hcI
      obtain ⟨x, hx, hA, hB⟩ := atom_of_cell_right (by intro g; cases g) hii
      have hpt : ∀ v, locateParts (parts (.polygon p)) v ≠ .inside := by
        intro v hv'
        obtain ⟨⟨c, hc, _⟩, _⟩ := box_of_located cb.ext (p := v) (by rw [hv']; intro g; cases g)
        exact hnoc c hc
      have hfc : ∀ f : EPt, locateFace (parts (.polygon p)) f ≠ .inside := by
        intro f hf
        rw [locateFace_polygon] at hf
        by_cases hi : insidePolyE f p = true
        · unfold insidePolyE at hi
          rw [Bool.and_eq_true, bne_iff_ne, hemp] at hi
          exact hi.1 rfl
        · rw [if_neg hi] at hf; cases hf
      rcases mem_atomsOf_cases hx with ⟨v, _, rfl⟩ | ⟨s, _, _, m, _, _, rfl | rfl | rfl⟩
      · exact hpt _ hB
      · exact hpt _ hB
      · exact hfc _ hB
      · exact hfc _ hB
  · have hpv : polyValid p = true := by
      rcases hv with he | hpv
      · rw [Bool.and_eq_true, List.isEmpty_iff, List.isEmpty_iff] at he
        exact absurd he.1 hemp
      · exact hpv
    have hne' : p.ext.isEmpty = false := by
      cases hq : p.ext with
      | nil => exact absurd hq hemp
      | cons _ _ => rfl
    by_cases hall : p.ext.all (fun c => rectCoord mn mx c) = true
    · -- all exterior coordinates in the closed box: the code answers `true`
      have hcode : rectContainsPolygon mn mx p = true := by
        unfold rectContainsPolygon
        rw [hne', hall]
        simp only [Bool.false_eq_true, if_false, Bool.not_true]
        by_cases hz : (p.ext.filter (fun c => rectContainsCoord mn mx c)).length = 0
        · have hsa := harea hpv hz
          have hsa' : (p.signedArea == 0) = false := by
            rw [beq_eq_false_iff_ne]; exact hsa
          simp [hsa']
        · have hz' : ((p.ext.filter (fun c => rectContainsCoord mn mx c)).length == 0) = false := by
            rw [beq_eq_false_iff_ne]; exact hz
          simp [hz']
      rw [hcode]
      symm
      have hin : ∀ c ∈ p.ext, mn.x ≤ c.x ∧ c.x ≤ mx.x ∧ mn.y ≤ c.y ∧ c.y ≤ mx.y := by
        intro c hc
        exact (rectCoord_iff mn mx c).mp (List.all_eq_true.mp hall c hc)
      have hcoords : ∀ c ∈ allCoords (parts (.polygon p)),
          mn.x ≤ c.x ∧ c.x ≤ mx.x ∧ mn.y ≤ c.y ∧ c.y ≤ mx.y := by
        intro c hc
        obtain ⟨⟨e1, m1, l1⟩, ⟨e2, m2, l2⟩, ⟨e3, m3, l3⟩, ⟨e4, m4, l4⟩⟩ := (dom_facts _ hb).boxed c hc
        simp only [exteriorCoords] at m1 m2 m3 m4
        exact ⟨le_trans (hin e1 m1).1 l1, le_trans l2 (hin e2 m2).2.1, le_trans (hin e3 m3).2.2.1 l3,
          le_trans l4 (hin e4 m4).2.2.2⟩
      have hsub : ∀ v, locateParts (parts (.polygon p)) v ≠ .outside →
          locateParts (parts (.rect mn mx)) v ≠ .outside := by
        intro v hv'
        obtain ⟨⟨c1, m1, l1⟩, ⟨c2, m2, l2⟩, ⟨c3, m3, l3⟩, ⟨c4, m4, l4⟩⟩ := box_of_located cb.ext hv'
        exact (located_rect_iff ha v).mpr ⟨le_trans (hcoords c1 m1).1 l1, le_trans l2 (hcoords c2 m2).2.1,
          le_trans (hcoords c3 m3).2.2.1 l3, le_trans l4 (hcoords c4 m4).2.2.2⟩
      have hclosed : p.ext.head? = p.ext.getLast? := polygon_closed hpv p.ext hextr
      have hfaceI : ∀ f : EPt, insidePolyE f p = true →
          insidePolyE f ⟨SM.rectToPolygon ⟨mn, mx⟩, []⟩ = true :=
        fun f hf => face_in_rect hax hay hclosed hin hf
      have hface : ∀ f : EPt, locateFace (parts (.polygon p)) f ≠ .outside →
          locateFace (parts (.rect mn mx)) f = .inside := by
        intro f hf
        rw [locateFace_polygon] at hf
        rw [locateFace_rect]
        by_cases hi : insidePolyE f p = true
        · rw [if_pos (hfaceI f hi)]
        · rw [if_neg hi] at hf; exact absurd rfl hf
      have hno : ∀ x ∈ atomsOf (parts (.rect mn mx)) (parts (.polygon p)), x.posB ≠ .outside →
          x.posA ≠ .outside := by
        intro x hx hB
        rcases mem_atomsOf_cases hx with ⟨v, _, rfl⟩ | ⟨s, _, _, m, _, _, rfl | rfl | rfl⟩
        · exact hsub v hB
        · exact hsub m hB
        · simp only at hB ⊢
          rw [hface _ hB]; intro g; cases g
        · simp only at hB ⊢
          rw [hface _ hB]; intro g; cases g
      rw [isContains_cells]
      refine ⟨?_, ?_, ?_⟩
      · -- the interior side of a non-degenerate edge of the shell
        obtain ⟨s, hs, hnd⟩ := exists_nd_seg p.ext (ringSimple_two (rings_simple hpv p.ext hextr))
        have hs' : s ∈ (parts (.rect mn mx)).allSegs ++ (parts (.polygon p)).allSegs :=
          List.mem_append_right _
            (areaSegs_sub_allSegs (ps := parts (.polygon p)) (q := p) (by simp [parts]) hextr hs)
        obtain ⟨m, hm, hnv, hatoms⟩ := exists_atoms_of_seg hs' hnd
        have hnvr : ∀ r' ∈ p.rings, m ∉ r' := fun r' hr' hmem =>
          hnv (allCoords_mem_verts_right (mem_allCoords_polygon hr' hmem))
        obtain ⟨a, b⟩ := s
        simp only at hm hatoms hnd
        intro hE
        rcases valid_side_inside hpv hextr hs hm hnvr with hL | hR
        · refine Geo.Proofs.C02Q.cell_empty_no_atom hE (hatoms _ (Or.inr (Or.inl rfl))) ?_ ?_
          · simp only
            rw [locateFace_rect, if_pos (hfaceI _ hL)]
          · simp only
            rw [locateFace_polygon, if_pos hL]
        · refine Geo.Proofs.C02Q.cell_empty_no_atom hE (hatoms _ (Or.inr (Or.inr rfl))) ?_ ?_
          · simp only
            rw [locateFace_rect, if_pos (hfaceI _ hR)]
          · simp only
            rw [locateFace_polygon, if_pos hR]
      · by_contra hne
        obtain ⟨x, hx, hA, hB⟩ := atom_of_cell_right (by intro g; cases g) hne
        exact hno x hx (by rw [hB]; intro g; cases g) hA
      · by_contra hne
        obtain ⟨x, hx, hA, hB⟩ := atom_of_cell_right (by intro g; cases g) hne
        exact hno x hx (by rw [hB]; intro g; cases g) hA
    · -- some exterior coordinate outside the closed box
      have hcode : rectContainsPolygon mn mx p = false := by
        unfold rectContainsPolygon
        rw [hne']
        have : p.ext.all (fun c => rectCoord mn mx c) = false := by
          cases hq : p.ext.all (fun c => rectCoord mn mx c) with
          | false => rfl
          | true => exact absurd hq hall
        simp [this]
      rw [hcode]
      symm
      have hex : ∃ c ∈ p.ext, ¬ rectCoord mn mx c = true := by
        by_contra hnone
        apply hall
        rw [List.all_eq_true]
        intro c hc
        by_contra g
        exact hnone ⟨c, hc, g⟩
      obtain ⟨c, hc, hout⟩ := hex
      have hc' : c ∈ allCoords (parts (.polygon p)) := mem_allCoords_polygon hextr hc
      apply isContains_false_of_vertex ca cb (allCoords_mem_verts_right hc') (coords_located _ hb c hc')
      by_contra hl
      exact hout ((rectCoord_iff mn mx c).mpr ((located_rect_iff ha c).mp hl))

/-- the same with the hypothesis on the signed area for every valid polygon -/
theorem containsM_rect_polygon_partial (mn mx : Pt) (p : Poly)
    (ha : inDomain (.rect mn mx) = true) (hb : inDomain (.polygon p) = true)
    (harea : polyValid p = true → p.signedArea ≠ 0) :
    containsM (.rect mn mx) (.polygon p) = Gen.isContains (relateSpec (.rect mn mx) (.polygon p)) :=
  containsM_rect_polygon_partial' mn mx p ha hb (fun h _ => harea h)

/-- non-vacuity: a triangle with all three coordinates on the boundary of the box (no coordinate strictly inside: the
signed area decides) -/
example : containsM (.rect ⟨0, 0⟩ ⟨4, 4⟩) (.polygon ⟨[⟨0, 0⟩, ⟨4, 0⟩, ⟨4, 4⟩, ⟨0, 0⟩], []⟩) =
    Gen.isContains (relateSpec (.rect ⟨0, 0⟩ ⟨4, 4⟩) (.polygon ⟨[⟨0, 0⟩, ⟨4, 0⟩, ⟨4, 4⟩, ⟨0, 0⟩], []⟩)) :=
  containsM_rect_polygon_partial _ _ _ (by decide +kernel) (by decide +kernel)
    (fun _ => by norm_num [Poly.signedArea, ringArea, twiceSignedRingArea, shiftedDets, det, rabs])

/-- a polygon with a coordinate strictly inside the box: no hypothesis on the area is used -/
example : containsM (.rect ⟨0, 0⟩ ⟨4, 4⟩) (.polygon ⟨[⟨1, 1⟩, ⟨4, 0⟩, ⟨4, 4⟩, ⟨1, 1⟩], []⟩) =
    Gen.isContains (relateSpec (.rect ⟨0, 0⟩ ⟨4, 4⟩) (.polygon ⟨[⟨1, 1⟩, ⟨4, 0⟩, ⟨4, 4⟩, ⟨1, 1⟩], []⟩)) :=
  containsM_rect_polygon_partial' _ _ _ (by decide +kernel) (by decide +kernel)
    (fun _ h => absurd h (by decide +kernel))

end Geo.Proofs.C02Z
