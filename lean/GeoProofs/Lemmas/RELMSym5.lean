/-
  RELM — edge ends and the node loop for the operands in the other order: the edge ends are the
  swapped edge ends; inserting a permutation of the edge ends gives an equivalent node map (same
  nodes and labels, stars equal up to the order inside a bundle); the contributions of the node loop
  are the same for equivalent node maps and are swapped by the swap.
-/
import GeoProofs.Lemmas.RELMSym4
import GeoProofs.Lemmas.RELMStar
import GeoProofs.Lemmas.RELMAtoms

namespace Geo.Proofs.RELM
open Geo Geo.GG Geo.RI Geo.Proofs.Spec

/-! ### edge ends of the swapped edges -/

theorem flip_swap (l : Label) : l.swap.flip = l.flip.swap := by cases l; rfl

theorem endForPrev_swap (e : REdge) (cur : EI) (prev : Option EI) :
    endForPrev e.swap cur prev = (endForPrev e cur prev).map (List.map swapE) := by
  cases e with | mk cs l iso eis =>
  show endForPrev ⟨cs, l.swap, iso, eis⟩ cur prev = Option.map (List.map swapE) (endForPrev ⟨cs, l, iso, eis⟩ cur prev)
  simp only [endForPrev]
  split
  · split
    · rfl
    · cases cs[cur.seg - 1]? <;> simp [swapE, flip_swap]
  · cases cs[cur.seg]? <;> simp [swapE, flip_swap]

theorem endForNext_swap (e : REdge) (cur : EI) (next : Option EI) :
    endForNext e.swap cur next = (endForNext e cur next).map (List.map swapE) := by
  cases e with | mk cs l iso eis =>
  show endForNext ⟨cs, l.swap, iso, eis⟩ cur next = Option.map (List.map swapE) (endForNext ⟨cs, l, iso, eis⟩ cur next)
  simp only [endForNext]
  by_cases h : (decide (cur.seg + 1 ≥ cs.length) && next.isNone) = true
  · rw [if_pos h, if_pos h]; rfl
  · rw [if_neg h, if_neg h]
    cases cs[cur.seg + 1]? <;> simp [swapE]

theorem endsLoop_swap (e : REdge) : ∀ (eis : List EI) (prev : Option EI),
    endsLoop e.swap prev eis = (endsLoop e prev eis).map (List.map swapE)
  | [], _ => rfl
  | cur :: rest, prev => by
      simp only [endsLoop]
      rw [endForPrev_swap, endForNext_swap, endsLoop_swap e rest]
      cases endForPrev e cur prev <;> cases endForNext e cur rest.head? <;>
        cases endsLoop e (some cur) rest <;> simp

theorem endsForEdges_swap : ∀ (es : List REdge),
    endsForEdges (es.map REdge.swap) = (endsForEdges es).map (List.map swapE)
  | [] => rfl
  | e :: es => by
      simp only [List.map_cons, endsForEdges, endsForEdge]
      have : e.swap.addEndpoints.eis = e.addEndpoints.eis := by
        unfold REdge.addEndpoints REdge.swap
        simp only
        split <;> rfl
      rw [this, endsLoop_swap, endsForEdges_swap es]
      cases endsLoop e none e.addEndpoints.eis <;> cases endsForEdges es <;> simp

/-! ### inserting swapped edge ends -/

theorem cmpDir_swap (ar : Arith) (x y : EdgeEnd) : cmpDir ar (swapE x) (swapE y) = cmpDir ar x y := rfl

theorem starInsert_swap (ar : Arith) (e : EdgeEnd) : ∀ (s : List Bundle),
    starInsert ar (swapE e) (s.map swapB) = (starInsert ar e s).map swapB
  | [] => rfl
  | b :: bs => by
      simp only [List.map_cons, starInsert]
      have : cmpDir ar (swapE e) (swapB b).key = cmpDir ar e b.key := rfl
      rw [this]
      cases cmpDir ar e b.key with
      | lt => rfl
      | eq => simp [swapB]
      | gt => simp only [List.map_cons, starInsert_swap ar e bs]

theorem insertEdgeEnds_swap (ar : Arith) : ∀ (l : List EdgeEnd) (ns : List RNode),
    insertEdgeEnds ar (l.map swapE) (ns.map swapN) = (insertEdgeEnds ar l ns).map swapN
  | [], _ => rfl
  | e :: l, ns => by
      simp only [List.map_cons, insertEdgeEnds]
      rw [upsertR_map_swapN (swapE e).c0 (fun n => { n with star := starInsert ar e n.star })
        (fun n => { n with star := starInsert ar (swapE e) n.star })
        (fun n => by simp only [swapN, starInsert_swap]) ns]
      exact insertEdgeEnds_swap ar l _

/-! ### equivalent node maps -/

def NodeEqv (n n' : RNode) : Prop := n.coord = n'.coord ∧ n.label = n'.label ∧ StarEq n.star n'.star

def NodesEq (ns ns' : List RNode) : Prop := List.Forall₂ NodeEqv ns ns'

/-- every star belongs to its node: all keys start at the node's coordinate, with a direction -/
def GoodNodes (ns : List RNode) : Prop := ∀ n ∈ ns, GoodStar n.coord n.star

theorem NodeEqv.refl (n : RNode) : NodeEqv n n := ⟨rfl, rfl, StarEq.refl _⟩

theorem NodesEq.refl : ∀ (ns : List RNode), NodesEq ns ns
  | [] => List.Forall₂.nil
  | n :: ns => List.Forall₂.cons (NodeEqv.refl n) (NodesEq.refl ns)

theorem NodesEq.trans {n1 n2 : List RNode} (h12 : NodesEq n1 n2) : ∀ {n3 : List RNode},
    GoodNodes n1 → GoodNodes n2 → GoodNodes n3 → NodesEq n2 n3 → NodesEq n1 n3 := by
  induction h12 with
  | nil => intro n3 _ _ _ h; cases h; exact List.Forall₂.nil
  | @cons a b r1 r2 hab _ ih =>
    intro n3 g1 g2 g3 h23
    cases h23 with
    | @cons _ c _ r3 hbc hr =>
      refine List.Forall₂.cons ⟨hab.1.trans hbc.1, hab.2.1.trans hbc.2.1, ?_⟩ ?_
      · have ga := g1 a (List.mem_cons_self ..)
        have gb := g2 b (List.mem_cons_self ..)
        have gc := g3 c (List.mem_cons_self ..)
        rw [hab.1] at ga
        rw [← hbc.1] at gc
        exact StarEq.trans hab.2.2 ga gb gc hbc.2.2
      · exact ih (fun n hn => g1 n (List.mem_cons_of_mem _ hn)) (fun n hn => g2 n (List.mem_cons_of_mem _ hn))
          (fun n hn => g3 n (List.mem_cons_of_mem _ hn)) hr

/-- one edge end into the node map -/
def ins1 (x : EdgeEnd) (ns : List RNode) : List RNode :=
  upsertR x.c0 (fun n => { n with star := ins x n.star }) ns

theorem insertEdgeEnds_cons (x : EdgeEnd) (l : List EdgeEnd) (ns : List RNode) :
    insertEdgeEnds Arith.exact (x :: l) ns = insertEdgeEnds Arith.exact l (ins1 x ns) := rfl

theorem ins1_sorted (x : EdgeEnd) {ns : List RNode} (h : SortedR ns) : SortedR (ins1 x ns) :=
  upsertR_sorted x.c0 (fun n => { n with star := ins x n.star }) (fun _ => rfl) ns h

theorem ins1_good {x : EdgeEnd} (hx : NonZero (dirOf x)) {ns : List RNode} (h : GoodNodes ns) :
    GoodNodes (ins1 x ns) := by
  apply upsertR_forall (P := fun n => GoodStar n.coord n.star) x.c0 _ ns h
  · intro n hn hc
    exact goodStar_ins ⟨hc.symm, hx⟩ hn
  · exact goodStar_ins (s := []) ⟨rfl, hx⟩ (fun b hb => by cases hb)

/-- an update of the stars that respects the equivalence -/
theorem upsertR_nodesEq (c : Pt) (f g : RNode → RNode)
    (hfg : ∀ n n', NodeEqv n n' → n.coord = c → GoodStar c n.star → GoodStar c n'.star → NodeEqv (f n) (g n'))
    (hnew : NodeEqv (f (RNode.new c)) (g (RNode.new c))) :
    ∀ {ns ns' : List RNode}, NodesEq ns ns' → GoodNodes ns → GoodNodes ns' →
      NodesEq (upsertR c f ns) (upsertR c g ns') := by
  intro ns ns' h
  induction h with
  | nil => intro _ _; exact List.Forall₂.cons hnew List.Forall₂.nil
  | @cons a b r1 r2 hab hr ih =>
    intro g1 g2
    simp only [upsertR]
    rw [← hab.1]
    split
    · rename_i hc
      have hc' : c = a.coord := by simpa using hc
      have ga := g1 a (List.mem_cons_self ..)
      have gb := g2 b (List.mem_cons_self ..)
      rw [← hc'] at ga
      rw [← hab.1, ← hc'] at gb
      exact List.Forall₂.cons (hfg a b hab hc'.symm ga gb) hr
    · split
      · exact List.Forall₂.cons hnew (List.Forall₂.cons hab hr)
      · exact List.Forall₂.cons hab (ih (fun n hn => g1 n (List.mem_cons_of_mem _ hn))
          (fun n hn => g2 n (List.mem_cons_of_mem _ hn)))

theorem ins1_congr {x : EdgeEnd} (hx : NonZero (dirOf x)) {ns ns' : List RNode} (h : NodesEq ns ns')
    (g : GoodNodes ns) (g' : GoodNodes ns') : NodesEq (ins1 x ns) (ins1 x ns') := by
  apply upsertR_nodesEq x.c0 _ _ _ _ h g g'
  · intro n n' hn _ gs gs'
    exact ⟨hn.1, hn.2.1, ins_congr ⟨rfl, hx⟩ hn.2.2 gs gs'⟩
  · exact NodeEqv.refl _

theorem upsertR_upsertR_same (c : Pt) (f g : RNode → RNode) (hf : ∀ n, (f n).coord = n.coord)
    (hg : ∀ n, (g n).coord = n.coord) {ns : List RNode} (h : SortedR ns) :
    upsertR c g (upsertR c f ns) = upsertR c (fun n => g (f n)) ns := by
  have hgf : ∀ n, ((fun n => g (f n)) n).coord = n.coord := fun n => by simp only [hg, hf]
  have hs1 := upsertR_sorted c f hf ns h
  apply sortedR_ext (upsertR_sorted c g hg _ hs1) (upsertR_sorted c _ hgf ns h)
  intro c'
  rw [findR_upsertR c c' g hg _ hs1, findR_upsertR c c' _ hgf ns h]
  by_cases hc : c' = c
  · subst hc
    rw [if_pos rfl, if_pos rfl, findR_upsertR c' c' f hf ns h, if_pos rfl]
    rfl
  · rw [if_neg hc, if_neg hc, findR_upsertR c c' f hf ns h, if_neg hc]

/-- two insertions commute up to the equivalence -/
theorem ins1_comm {x y : EdgeEnd} (hx : NonZero (dirOf x)) (hy : NonZero (dirOf y)) {ns : List RNode}
    (h : SortedR ns) (g : GoodNodes ns) : NodesEq (ins1 x (ins1 y ns)) (ins1 y (ins1 x ns)) := by
  by_cases hc : x.c0 = y.c0
  · unfold ins1
    rw [← hc, upsertR_upsertR_same x.c0 (fun n => { n with star := ins y n.star })
        (fun n => { n with star := ins x n.star }) (fun _ => rfl) (fun _ => rfl) h,
      upsertR_upsertR_same x.c0 (fun n => { n with star := ins x n.star })
        (fun n => { n with star := ins y n.star }) (fun _ => rfl) (fun _ => rfl) h]
    apply upsertR_nodesEq x.c0 _ _ _ _ (NodesEq.refl ns) g g
    · intro n n' hn _ gs gs'
      refine ⟨hn.1, hn.2.1, ?_⟩
      simp only
      have h1 : StarEq (ins x (ins y n.star)) (ins y (ins x n.star)) := ins_comm ⟨rfl, hx⟩ ⟨hc.symm, hy⟩ gs
      have h2 : StarEq (ins y (ins x n.star)) (ins y (ins x n'.star)) :=
        ins_congr ⟨hc.symm, hy⟩ (ins_congr ⟨rfl, hx⟩ hn.2.2 gs gs') (goodStar_ins ⟨rfl, hx⟩ gs)
          (goodStar_ins ⟨rfl, hx⟩ gs')
      exact StarEq.trans h1 (goodStar_ins ⟨rfl, hx⟩ (goodStar_ins ⟨hc.symm, hy⟩ gs))
        (goodStar_ins ⟨hc.symm, hy⟩ (goodStar_ins ⟨rfl, hx⟩ gs))
        (goodStar_ins ⟨hc.symm, hy⟩ (goodStar_ins ⟨rfl, hx⟩ gs')) h2
    · refine ⟨rfl, rfl, ?_⟩
      simp only [RNode.new]
      exact ins_comm ⟨rfl, hx⟩ ⟨hc.symm, hy⟩ (fun b hb => by cases hb)
  · have := applyU_comm [(y.c0, fun n => { n with star := ins y n.star })]
      [(x.c0, fun n => { n with star := ins x n.star })]
      (fun u hu n => by simp only [List.mem_singleton] at hu; subst hu; rfl)
      (fun u hu n => by simp only [List.mem_singleton] at hu; subst hu; rfl)
      (fun u hu v hv huv => by
        simp only [List.mem_singleton] at hu hv; subst hu hv; exact absurd huv.symm hc) h
    simp only [applyU, List.foldl_cons, List.foldl_nil] at this
    unfold ins1
    rw [this]
    exact NodesEq.refl _

/-- inserting a list of edge ends -/
theorem insertEdgeEnds_sorted_good : ∀ (l : List EdgeEnd) {ns : List RNode}, (∀ x ∈ l, NonZero (dirOf x)) →
    SortedR ns → GoodNodes ns →
    SortedR (insertEdgeEnds Arith.exact l ns) ∧ GoodNodes (insertEdgeEnds Arith.exact l ns)
  | [], _, _, hs, hg => ⟨hs, hg⟩
  | x :: l, ns, hl, hs, hg => by
      rw [insertEdgeEnds_cons]
      exact insertEdgeEnds_sorted_good l (fun y hy => hl y (List.mem_cons_of_mem _ hy)) (ins1_sorted x hs)
        (ins1_good (hl x (List.mem_cons_self ..)) hg)

theorem insertEdgeEnds_congr : ∀ (l : List EdgeEnd) {ns ns' : List RNode}, (∀ x ∈ l, NonZero (dirOf x)) →
    NodesEq ns ns' → GoodNodes ns → GoodNodes ns' →
    NodesEq (insertEdgeEnds Arith.exact l ns) (insertEdgeEnds Arith.exact l ns')
  | [], _, _, _, h, _, _ => h
  | x :: l, ns, ns', hl, h, g, g' => by
      rw [insertEdgeEnds_cons, insertEdgeEnds_cons]
      have hx := hl x (List.mem_cons_self ..)
      exact insertEdgeEnds_congr l (fun y hy => hl y (List.mem_cons_of_mem _ hy)) (ins1_congr hx h g g')
        (ins1_good hx g) (ins1_good hx g')

/-- **the node map depends on the multiset of edge ends only** (up to the equivalence) -/
theorem insertEdgeEnds_perm {l l' : List EdgeEnd} (hp : l.Perm l') : ∀ {ns ns' : List RNode},
    (∀ x ∈ l, NonZero (dirOf x)) → SortedR ns → SortedR ns' → GoodNodes ns → GoodNodes ns' → NodesEq ns ns' →
    NodesEq (insertEdgeEnds Arith.exact l ns) (insertEdgeEnds Arith.exact l' ns') := by
  induction hp with
  | nil => intro _ _ _ _ _ _ _ h; exact h
  | cons x _ ih =>
    intro ns ns' hl s s' g g' h
    have hx := hl x (List.mem_cons_self ..)
    rw [insertEdgeEnds_cons, insertEdgeEnds_cons]
    exact ih (fun y hy => hl y (List.mem_cons_of_mem _ hy)) (ins1_sorted x s) (ins1_sorted x s')
      (ins1_good hx g) (ins1_good hx g') (ins1_congr hx h g g')
  | swap x y l =>
    intro ns ns' hl s s' g g' h
    have hy := hl y (List.mem_cons_self ..)
    have hx := hl x (List.mem_cons_of_mem _ (List.mem_cons_self ..))
    have hl' : ∀ z ∈ l, NonZero (dirOf z) := fun z hz => hl z (List.mem_cons_of_mem _ (List.mem_cons_of_mem _ hz))
    rw [insertEdgeEnds_cons, insertEdgeEnds_cons, insertEdgeEnds_cons, insertEdgeEnds_cons]
    apply insertEdgeEnds_congr l hl' _ (ins1_good hx (ins1_good hy g)) (ins1_good hy (ins1_good hx g'))
    exact NodesEq.trans (ins1_comm hx hy s g) (ins1_good hx (ins1_good hy g)) (ins1_good hy (ins1_good hx g))
      (ins1_good hy (ins1_good hx g'))
      (ins1_congr hy (ins1_congr hx h g g') (ins1_good hx g) (ins1_good hx g'))
  | @trans l1 l2 l3 p1 p2 ih1 ih2 =>
    intro ns ns' hl s s' g g' h
    have hl2 : ∀ x ∈ l2, NonZero (dirOf x) := fun x hx => hl x (p1.mem_iff.2 hx)
    have hl3 : ∀ x ∈ l3, NonZero (dirOf x) := fun x hx => hl2 x (p2.mem_iff.2 hx)
    exact NodesEq.trans (ih1 hl s s' g g' h) (insertEdgeEnds_sorted_good l1 hl s g).2
      (insertEdgeEnds_sorted_good l2 hl2 s' g').2 (insertEdgeEnds_sorted_good l3 hl3 s' g').2
      (ih2 hl2 s' s' g' g' (NodesEq.refl _))

/-! ### the node loop on equivalent / swapped node maps -/

theorem starLabels_of_starEq (a b : Geom) (c : Pt) {s s' : List Bundle} (h : StarEq s s') :
    starLabels a b c s = starLabels a b c s' := by
  have : s.map (fun bd => bundleLabel bd.ends) = s'.map (fun bd => bundleLabel bd.ends) := by
    induction h with
    | nil => rfl
    | cons hb _ ih => simp only [List.map_cons, ih, bundleLabel_perm hb.2]
  unfold starLabels
  simp only [this]

theorem nodesAtoms_of_nodesEq (a b : Geom) {ns ns' : List RNode} (h : NodesEq ns ns') :
    nodesAtoms a b ns = nodesAtoms a b ns' := by
  induction h with
  | nil => rfl
  | @cons n n' r r' hn _ ih =>
    simp only [nodesAtoms, ← hn.1, ← hn.2.1, starLabels_of_starEq a b n.coord hn.2.2, ih]

theorem optAtom_swap (d : Dim) (pa pb : Option Pos) : optAtom d pb pa = (optAtom d pa pb).map swapAB := by
  cases pa <;> cases pb <;> rfl

theorem labelAtoms_swap (l : Label) : labelAtoms l.swap = (labelAtoms l).map swapAB := by
  have h1 : l.swap.onPos 0 = l.onPos 1 := by cases l; rfl
  have h2 : l.swap.onPos 1 = l.onPos 0 := by cases l; rfl
  have h3 : l.swap.leftPos 0 = l.leftPos 1 := by cases l; rfl
  have h4 : l.swap.leftPos 1 = l.leftPos 0 := by cases l; rfl
  have h5 : l.swap.rightPos 0 = l.rightPos 1 := by cases l; rfl
  have h6 : l.swap.rightPos 1 = l.rightPos 0 := by cases l; rfl
  unfold labelAtoms
  rw [swap_isArea, h1, h2, h3, h4, h5, h6, optAtom_swap .one (l.onPos 0) (l.onPos 1),
    optAtom_swap .two (l.leftPos 0) (l.leftPos 1), optAtom_swap .two (l.rightPos 0) (l.rightPos 1)]
  cases l.isArea
  · simp
  · simp

theorem nodeAtoms_swap (l : Label) : nodeAtoms l.swap = (nodeAtoms l).map swapAB := by
  cases l; unfold nodeAtoms
  exact optAtom_swap _ _ _

/-- **the contributions of the node loop for the operands in the other order** -/
theorem nodesAtoms_swap (a b : Geom) : ∀ (ns : List RNode),
    nodesAtoms b a (ns.map swapN) = (nodesAtoms a b ns).map (·.map swapAB)
  | [] => rfl
  | n :: ns => by
      simp only [List.map_cons, nodesAtoms]
      have hc : (swapN n).coord = n.coord := rfl
      have hs : (swapN n).star = n.star.map swapB := rfl
      have hl : (swapN n).label = n.label.swap := rfl
      rw [hc, hs, hl, starLabels_swap, geometryCount_swap, nodesAtoms_swap a b ns]
      cases starLabels a b n.coord n.star with
      | none => rfl
      | some ls =>
        simp only [Option.map_some]
        split
        · cases nodesAtoms a b ns with
          | none => rfl
          | some rest =>
            simp only [Option.map_some, List.map_append, nodeAtoms_swap, List.map_flatMap, List.flatMap_map,
              labelAtoms_swap]
        · rfl

end Geo.Proofs.RELM
