/-
  MONO (C10, builder of the monotone pieces): the contract of `next_point`. When it returns the point `pt`, every
  segment it reported as ending (`incoming`) has its right end at `pt` and every segment it reported as starting
  (`outgoing`) has its left end at `pt` — for all inputs.
-/
import GeoProofs.Lemmas.MONOSweepC

namespace Geo.Proofs.MONO
open Geo Geo.Mono Geo.MonoBuild Geo.Proofs.C10

/-- the segments collected so far end, resp. start, at `pt` -/
structure IO (pt : Pt) (st : St) : Prop where
  inc : ∀ i ∈ st.incoming, ∃ l, st.lineOf i = some l ∧ l.right = pt
  out : ∀ o ∈ st.outgoing, ∃ l, st.lineOf o = some l ∧ l.left = pt

theorem lineOf_ext {st st' : St} (hx : Ext st st') {i : Nat} {l : LoP} (h : st.lineOf i = some l) :
    ∃ l', st'.lineOf i = some l' ∧ l'.left = l.left := by
  obtain ⟨s, hs, hl⟩ := lineOf_seg h
  obtain ⟨s', hs', hl'⟩ := hx i s hs
  exact ⟨s'.line, by unfold St.lineOf; rw [hs']; rfl, by rw [hl', hl]⟩

theorem lineOf_same {st st' : St} (hx : SameLines st st') {i : Nat} {l : LoP} (h : st.lineOf i = some l) :
    st'.lineOf i = some l := by
  obtain ⟨s, hs, hl⟩ := lineOf_seg h
  obtain ⟨s', hs', hl'⟩ := hx.2 i s hs
  unfold St.lineOf; rw [hs']; simp [hl', hl]

theorem IO.same {pt : Pt} {st st' : St} (h : IO pt st) (hx : SameLines st st')
    (h1 : st'.incoming = st.incoming) (h2 : st'.outgoing = st.outgoing) : IO pt st' := by
  refine ⟨?_, ?_⟩
  · intro i hi; rw [h1] at hi
    obtain ⟨l, hl, e⟩ := h.inc i hi
    exact ⟨l, lineOf_same hx hl, e⟩
  · intro o ho; rw [h2] at ho
    obtain ⟨l, hl, e⟩ := h.out o ho
    exact ⟨l, lineOf_same hx hl, e⟩

/-- the line of a segment after `split_at` of segment `i`: unchanged for the others -/
theorem splitAt_lineOf_ne {st st' : St} {i nw : Nat} {pt : Pt} (h : st.splitAt i pt = some (st', nw))
    {j : Nat} {l : LoP} (hj : st.lineOf j = some l) (hne : j ≠ i) : st'.lineOf j = some l := by
  obtain ⟨s, hs, _, hst⟩ := splitAt_spec h
  obtain ⟨sj, hsj, hl⟩ := lineOf_seg hj
  rw [hst]
  unfold St.lineOf
  simp only
  rw [getElem?_set_append _ _ _ _ _ _ hsj]
  have : ¬ i = j := fun e => hne e.symm
  simp [this, hl]

theorem splitAt_io {st st' : St} {i nw : Nat} {p pt : Pt} (hio : IO pt st)
    (h : st.splitAt i p = some (st', nw)) (hx : Ext st st')
    (hni : i ∉ st.incoming) (hinc : st'.incoming = st.incoming) (hout : st'.outgoing = st.outgoing) : IO pt st' := by
  refine ⟨?_, ?_⟩
  · intro j hj; rw [hinc] at hj
    obtain ⟨l, hl, e⟩ := hio.inc j hj
    have : j ≠ i := fun e => hni (e ▸ hj)
    exact ⟨l, splitAt_lineOf_ne h hl this, e⟩
  · intro o ho; rw [hout] at ho
    obtain ⟨l, hl, e⟩ := hio.out o ho
    obtain ⟨l', hl', e'⟩ := lineOf_ext hx hl
    exact ⟨l', hl', by rw [e', e]⟩

theorem splitAt_lists {st st' : St} {i nw : Nat} {p : Pt} (h : st.splitAt i p = some (st', nw)) :
    st'.incoming = st.incoming ∧ st'.outgoing = st.outgoing := by
  obtain ⟨_, _, _, hst⟩ := splitAt_spec h
  rw [hst]; exact ⟨rfl, rfl⟩

/-- the split of `handle_event` for a `LineLeft` event at `pt = lb.left` never cuts a segment that ended at `pt` -/
theorem applySplit_io {st st' : St} {act seg : Nat} {la lb : LoP} (hi : SInv st) (hio : IO lb.left st)
    (hla : st.lineOf act = some la) (hlb : st.lineOf seg = some lb) (hlo : Lo lb.left st)
    (h : st.applySplit act seg (checkInterior la lb) = some st') : IO lb.left st' := by
  obtain ⟨sb, hsb, hsbl⟩ := lineOf_seg hlb
  have okb : LineOk lb := by rw [← hsbl]; exact hi.lines sb (mem_of_getElem? hsb)
  have hblt := lineOk_lt okb
  obtain ⟨_, hx, _⟩ := applySplit_sinv hi hla hlb hlo h
  unfold St.applySplit at h
  split at h
  · cases h; exact hio
  · rename_i pt hck
    obtain ⟨c1, c2, c3⟩ := checkInterior_spec_a hck
    osplit h
    rename_i st1 nw h1
    osplit h
    cases h
    have hge : lexLt pt lb.left = false := by
      rcases c3 with e | e
      · rw [e]; exact lexLt_irrefl _
      · rw [e]; exact lexLt_asymm hblt
    have hni : act ∉ st.incoming := by
      intro hmem
      obtain ⟨l, hl, e⟩ := hio.inc act hmem
      rw [hla] at hl; cases hl
      rw [e] at c2
      rw [c2] at hge; cases hge
    obtain ⟨e1, e2⟩ := splitAt_lists h1
    have hx1 : Ext st st1 := fun i s hs => hx i s hs
    have := splitAt_io hio h1 hx1 hni e1 e2
    exact ⟨this.inc, this.out⟩
  · rename_i pt hck
    obtain ⟨c1, c2⟩ := checkInterior_spec_b hck
    osplit h
    rename_i st1 nw h1
    osplit h
    cases h
    have hni : seg ∉ st.incoming := by
      intro hmem
      obtain ⟨l, hl, e⟩ := hio.inc seg hmem
      rw [hlb] at hl; cases hl
      rw [e] at hblt
      rw [lexLt_irrefl] at hblt; cases hblt
    obtain ⟨e1, e2⟩ := splitAt_lists h1
    have hx1 : Ext st st1 := fun i s hs => hx i s hs
    have := splitAt_io hio h1 hx1 hni e1 e2
    exact ⟨this.inc, this.out⟩

theorem modifyChain_lists {st st' : St} {i : Nat} {f : List Pt → Option (List Pt)}
    (h : st.modifyChain i f = some st') : st'.incoming = st.incoming ∧ st'.outgoing = st.outgoing := by
  unfold St.modifyChain at h
  osplit h
  osplit h
  cases h; exact ⟨rfl, rfl⟩

/-- the callback: a `LineRight` event at its segment's right end, a `LineLeft` event at its left end -/
theorem onEvent_io {st st' : St} {ev : Ev} (hio : IO ev.pt st)
    (hR : ev.ty = .lineRight → ∃ l, st.lineOf ev.seg = some l ∧ l.right = ev.pt)
    (hL : ev.ty = .lineLeft → ∃ l, st.lineOf ev.seg = some l ∧ l.left = ev.pt)
    (h : st.onEvent ev = some st') : IO ev.pt st' := by
  obtain ⟨sl, _, _⟩ := onEvent_same h
  unfold St.onEvent at h
  split at h
  · rename_i hty
    osplit h
    obtain ⟨e1, e2⟩ := modifyChain_lists h
    obtain ⟨l, hl, e⟩ := hR hty
    refine ⟨?_, ?_⟩
    · intro i hi
      rw [e1] at hi
      simp only [List.mem_append, List.mem_singleton] at hi
      rcases hi with hi | hi
      · obtain ⟨l', hl', e'⟩ := hio.inc i hi
        exact ⟨l', lineOf_same sl hl', e'⟩
      · rw [hi]; exact ⟨l, lineOf_same sl hl, e⟩
    · intro o ho
      rw [e2] at ho
      obtain ⟨l', hl', e'⟩ := hio.out o ho
      exact ⟨l', lineOf_same sl hl', e'⟩
  · rename_i hty
    osplit h
    cases h
    obtain ⟨l, hl, e⟩ := hL hty
    refine ⟨?_, ?_⟩
    · intro i hi
      obtain ⟨l', hl', e'⟩ := hio.inc i hi
      exact ⟨l', lineOf_same sl hl', e'⟩
    · intro o ho
      simp only [List.mem_append, List.mem_singleton] at ho
      rcases ho with ho | ho
      · obtain ⟨l', hl', e'⟩ := hio.out o ho
        exact ⟨l', lineOf_same sl hl', e'⟩
      · rw [ho]; exact ⟨l, lineOf_same sl hl, e⟩
  · cases h

theorem handle_io : ∀ (fuel : Nat),
    (∀ (st st' : St) (ev : Ev), SInv st → EvOk st ev → Lo ev.pt st → IO ev.pt st →
        handleEvent fuel st ev = some st' → IO ev.pt st') ∧
    (∀ (st st' : St) (ev : Ev) (b : Bool) (idx idx' : Nat), SInv st → EvOk st ev → ev.ty = .lineLeft → Lo ev.pt st →
        IO ev.pt st → neighbour fuel st ev b idx = some (st', idx') → IO ev.pt st') ∧
    (∀ (st st' : St) (ev : Ev) (b : Bool) (idx idx' : Nat), SInv st → EvOk st ev → Lo ev.pt st → IO ev.pt st →
        drain fuel st ev b idx = some (st', idx') → IO ev.pt st')
  | 0 => by
    refine ⟨?_, ?_, ?_⟩ <;> intros <;> rename_i h <;> simp [handleEvent, neighbour, drain] at h
  | fuel + 1 => by
    obtain ⟨ihH, ihN, ihD⟩ := handle_io fuel
    -- the final callback
    have fin : ∀ (st st' : St) (ev : Ev) (ln : LoP), EvOk st ev → st.lineOf ev.seg = some ln →
        (ev.pt != ln.left && ev.pt != ln.right) = false → IO ev.pt st → st.onEvent ev = some st' → IO ev.pt st' := by
      intro st st' ev ln hev hln hsp hio h
      obtain ⟨s, hs, hc⟩ := hev
      obtain ⟨s2, hs2, hl2⟩ := lineOf_seg hln
      rw [hs] at hs2; cases hs2
      refine onEvent_io hio ?_ ?_ h
      · intro hty
        rcases hc with ⟨e, _⟩ | ⟨_, hlt⟩
        · rw [hty] at e; cases e
        · refine ⟨ln, hln, ?_⟩
          rw [hl2] at hlt
          have hne : ev.pt ≠ ln.left := by
            intro e; rw [e] at hlt; rw [lexLt_irrefl] at hlt; cases hlt
          simp only [Bool.and_eq_false_iff, bne_eq_false_iff_eq] at hsp
          rcases hsp with e | e
          · exact absurd e hne
          · exact e.symm
      · intro hty
        rcases hc with ⟨_, e⟩ | ⟨e, _⟩
        · exact ⟨ln, hln, by rw [← hl2]; exact e.symm⟩
        · rw [hty] at e; cases e
    refine ⟨?_, ?_, ?_⟩
    · intro st st' ev hi hev hlo hio h
      unfold handleEvent at h
      split at h
      · cases h
      · rename_i ln hln
        split at h
        · cases h; exact hio
        · rename_i hsp
          have hsp' : (ev.pt != ln.left && ev.pt != ln.right) = false := by simpa using hsp
          split at h
          · rename_i hty
            osplit h
            osplit h
            rename_i st1 idx1 hn1
            obtain ⟨i1, x1, l1⟩ := (handle_sinv fuel).2.1 _ _ _ _ _ _ hi hev hty hlo hn1
            have o1 := ihN _ _ _ _ _ _ hi hev hty hlo hio hn1
            osplit h
            rename_i st2 idx2 hn2
            obtain ⟨i2, x2, l2⟩ := (handle_sinv fuel).2.1 _ _ _ _ _ _ i1 (hev.ext x1) hty l1 hn2
            have o2 := ihN _ _ _ _ _ _ i1 (hev.ext x1) hty l1 o1 hn2
            osplit h
            rename_i act hact
            -- the line of the segment may have been shortened by a split, its left end is the same
            obtain ⟨ln2, hln2, hl2⟩ := lineOf_ext (x1.trans x2) hln
            have hev2 : EvOk st2 ev := hev.ext (x1.trans x2)
            obtain ⟨s, hs, hc⟩ := hev2
            refine onEvent_io (st := { st2 with active := act }) ⟨o2.inc, o2.out⟩ ?_ ?_ h
            · intro e; rw [hty] at e; cases e
            · intro _
              rcases hc with ⟨_, e⟩ | ⟨e, _⟩
              · obtain ⟨s3, hs3, hl3⟩ := lineOf_seg hln2
                rw [hs] at hs3; cases hs3
                exact ⟨ln2, hln2, by rw [← hl3]; exact e.symm⟩
              · rw [hty] at e; cases e
          · osplit h
            rename_i idx hidx
            exact fin { st with active := st.active.eraseIdx idx } st' ev ln (hev.congr rfl) hln hsp'
              ⟨hio.inc, hio.out⟩ h
          · exact fin st st' ev ln hev hln hsp' hio h
    · intro st st' ev b idx idx' hi hev hty hlo hio h
      unfold neighbour at h
      simp only at h
      split at h
      · cases h; exact hio
      · osplit h
        split at h
        · rename_i la lb hla hlb
          obtain ⟨s, hs, hc⟩ := hev
          obtain ⟨sb, hsb, hsbl⟩ := lineOf_seg hlb
          rw [hs] at hsb; cases hsb
          have hpt : lb.left = ev.pt := by
            rcases hc with ⟨_, e⟩ | ⟨e, _⟩
            · rw [← hsbl]; exact e.symm
            · rw [hty] at e; cases e
          osplit h
          rename_i st1 hs1
          obtain ⟨i1, x1, l1⟩ := applySplit_sinv hi hla hlb (by rw [hpt]; exact hlo) hs1
          have o1 := applySplit_io hi (by rw [hpt]; exact hio) hla hlb (by rw [hpt]; exact hlo) hs1
          rw [hpt] at l1 o1
          exact ihD _ _ _ _ _ _ i1 (EvOk.ext ⟨s, hs, hc⟩ x1) l1 o1 h
        · cases h
    · intro st st' ev b idx idx' hi hev hlo hio h
      unfold drain at h
      osplit h
      rename_i top htop
      split at h
      · rename_i hlt
        osplit h
        rename_i e evs hpop
        obtain ⟨i0, ok0, lo0, hd0⟩ := popped_sinv hi hpop
        rw [htop] at hd0; cases hd0
        have hle : lexLt ev.pt top.pt = false := pt_le_of_ev_le (le_of_lt ((ev_lt_iff _ _).2 hlt))
        have hge : lexLt top.pt ev.pt = false := hlo top (List.mem_of_mem_head? htop)
        have hpt : top.pt = ev.pt := lex_antisymm hge hle
        osplit h
        rename_i st1 hh
        obtain ⟨i1, x1, l1⟩ := (handle_sinv fuel).1 { st with events := evs } st1 top i0 (ok0.congr rfl) lo0 hh
        have o1 := ihH { st with events := evs } st1 top i0 (ok0.congr rfl) lo0
          (by rw [hpt]; exact ⟨hio.inc, hio.out⟩) hh
        rw [hpt] at l1 o1
        have x1' : Ext st st1 := fun i s hs => x1 i s hs
        split at h
        · exact ihD _ _ _ _ _ _ i1 (hev.ext x1') l1 o1 h
        · osplit h
          exact ihD _ _ _ _ _ _ i1 (hev.ext x1') l1 o1 h
      · cases h; exact hio

theorem nextPointLoop_io (hf : Nat) (pt : Pt) : ∀ (fuel : Nat) (st st' : St), SInv st → Lo pt st →
    (st.events.head?).map (·.pt) = some pt → IO pt st →
    nextPointLoop hf pt fuel st = some st' → IO pt st'
  | 0, st, st', _, _, _, _, h => by simp [nextPointLoop] at h
  | fuel + 1, st, st', hi, hlo, hhd, hio, h => by
    unfold nextPointLoop at h
    osplit h
    rename_i e evs hpop
    obtain ⟨i0, ok0, lo0, hd0⟩ := popped_sinv hi hpop
    have hpt : e.pt = pt := by rw [hd0] at hhd; simpa using hhd
    osplit h
    rename_i st1 hh
    obtain ⟨i1, x1, l1⟩ := (handle_sinv hf).1 { st with events := evs } st1 e i0 (ok0.congr rfl) lo0 hh
    have o1 := (handle_io hf).1 { st with events := evs } st1 e i0 (ok0.congr rfl) lo0
      (by rw [hpt]; exact ⟨hio.inc, hio.out⟩) hh
    rw [hpt] at l1 o1
    split at h
    · cases h; exact o1
    · rename_i heq
      have : (st1.events.head?).map (·.pt) = some pt := by simpa using heq
      exact nextPointLoop_io hf pt fuel st1 st' i1 l1 this o1 h

/-- `next_point` called with empty `incoming` / `outgoing` (as `process_next_pt` does) -/
theorem nextPoint_io {fuel : Nat} {st st' : St} {pt : Pt} (hi : SInv st)
    (h0 : st.incoming = [] ∧ st.outgoing = [])
    (h : nextPoint fuel st = some (st', some pt)) : IO pt st' := by
  unfold nextPoint at h
  split at h
  · cases h
  · rename_i e he
    osplit h
    rename_i st1 hl
    simp only [Option.some.injEq, Prod.mk.injEq] at h
    obtain ⟨h1, h2⟩ := h
    subst h1 h2
    have hd0 : st.events[0]? = some e := by rw [← List.head?_eq_getElem?]; exact he
    have hlo : Lo e.pt st := fun x hx => pt_le_of_ev_le (heapInv_root_min hi.heap hd0 x hx)
    have hhd : (st.events.head?).map (·.pt) = some e.pt := by rw [he]; rfl
    refine nextPointLoop_io fuel e.pt fuel st st1 hi hlo hhd ⟨?_, ?_⟩ hl
    · intro i hi'; rw [h0.1] at hi'; cases hi'
    · intro o ho; rw [h0.2] at ho; cases ho

end Geo.Proofs.MONO
