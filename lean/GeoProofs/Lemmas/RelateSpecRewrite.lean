/-
  Lemmas about the executable DE-9IM specification (GeoModel/RelateSpec.lean), part 6:
  the *whole matrix* is invariant when an operand is written differently without changing the
  direction of its segments: members / holes / points in another order, closed rings and closed
  curves started at another vertex.
-/
import GeoModel.RelateSpec
import GeoProofs.Lemmas.RelateSpecLemmas
import GeoProofs.Lemmas.RelateSpecLocate
import GeoProofs.Lemmas.RelateSpecSwap
import Mathlib.Data.List.Perm.Basic
import Mathlib.Tactic.Tauto

namespace Geo.Proofs.Spec
open Geo

theorem mem_pairVertices_perm {ss ss' : List (Pt × Pt)} (h : ss.Perm ss') (x : Pt) :
    x ∈ pairVertices ss ↔ x ∈ pairVertices ss' := by
  induction h with
  | nil => exact Iff.rfl
  | cons s hp ih =>
    simp only [pairVertices, List.mem_append, List.mem_flatMap, ih]
    constructor
    · rintro (⟨t, ht, hx⟩ | g)
      · exact Or.inl ⟨t, hp.mem_iff.mp ht, hx⟩
      · exact Or.inr g
    · rintro (⟨t, ht, hx⟩ | g)
      · exact Or.inl ⟨t, hp.mem_iff.mpr ht, hx⟩
      · exact Or.inr g
  | swap a b l =>
    simp only [pairVertices, List.mem_append, List.mem_flatMap, List.flatMap_cons, segVertex_symm a b]
    constructor
    · rintro ((g | g) | g | g)
      · exact Or.inl (Or.inl g)
      · exact Or.inr (Or.inl g)
      · exact Or.inl (Or.inr g)
      · exact Or.inr (Or.inr g)
    · rintro ((g | g) | g | g)
      · exact Or.inl (Or.inl g)
      · exact Or.inr (Or.inl g)
      · exact Or.inl (Or.inr g)
      · exact Or.inr (Or.inr g)
  | trans _ _ ih1 ih2 => exact ih1.trans ih2

/-- the single-coordinate curves / rings of an operand (they contribute their coordinate as a vertex) -/
def singlesOf (ps : Parts) : List Pt := (ps.curves ++ ps.areas.flatMap Poly.rings).flatMap singleOf

/-- Two ways of writing the same operand: the same directed segments (as a multiset), the same
single coordinates and isolated points (as sets), and the same point location. -/
structure PartsEquiv (pa pa' : Parts) : Prop where
  segs : pa.allSegs.Perm pa'.allSegs
  singles : ∀ x, x ∈ singlesOf pa ↔ x ∈ singlesOf pa'
  pts : ∀ x, x ∈ pa.pts ↔ x ∈ pa'.pts
  loc : ∀ p, locateParts pa p = locateParts pa' p
  face : ∀ e, locateFace pa e = locateFace pa' e

theorem PartsEquiv.refl (pa : Parts) : PartsEquiv pa pa :=
  ⟨List.Perm.refl _, fun _ => Iff.rfl, fun _ => Iff.rfl, fun _ => rfl, fun _ => rfl⟩

theorem PartsEquiv.symm {pa pa' : Parts} (h : PartsEquiv pa pa') : PartsEquiv pa' pa :=
  ⟨h.segs.symm, fun x => (h.singles x).symm, fun x => (h.pts x).symm, fun p => (h.loc p).symm,
   fun e => (h.face e).symm⟩

theorem PartsEquiv.trans {p1 p2 p3 : Parts} (h : PartsEquiv p1 p2) (h' : PartsEquiv p2 p3) : PartsEquiv p1 p3 :=
  ⟨h.segs.trans h'.segs, fun x => (h.singles x).trans (h'.singles x), fun x => (h.pts x).trans (h'.pts x),
   fun p => (h.loc p).trans (h'.loc p), fun e => (h.face e).trans (h'.face e)⟩

theorem mem_vertsOf_congr {pa pa' : Parts} (h : PartsEquiv pa pa') (pb : Parts) (x : Pt) :
    x ∈ vertsOf pa pb ↔ x ∈ vertsOf pa' pb := by
  unfold vertsOf
  rw [mem_dedupPts, mem_dedupPts]
  have hp := mem_pairVertices_perm (h.segs.append_right pb.allSegs) x
  have hE : x ∈ endsOf (pa.allSegs ++ pb.allSegs) ↔ x ∈ endsOf (pa'.allSegs ++ pb.allSegs) :=
    ((h.segs.append_right pb.allSegs).flatMap_right _).mem_iff
  have hS : x ∈ (pa.curves ++ pb.curves ++ (pa.areas ++ pb.areas).flatMap Poly.rings).flatMap singleOf ↔
      x ∈ (pa'.curves ++ pb.curves ++ (pa'.areas ++ pb.areas).flatMap Poly.rings).flatMap singleOf := by
    have hs := h.singles x
    simp only [singlesOf, List.flatMap_append, List.mem_append] at hs ⊢
    constructor
    · rintro ((g | g) | g | g)
      · rcases hs.mp (Or.inl g) with g' | g'
        · exact Or.inl (Or.inl g')
        · exact Or.inr (Or.inl g')
      · exact Or.inl (Or.inr g)
      · rcases hs.mp (Or.inr g) with g' | g'
        · exact Or.inl (Or.inl g')
        · exact Or.inr (Or.inl g')
      · exact Or.inr (Or.inr g)
    · rintro ((g | g) | g | g)
      · rcases hs.mpr (Or.inl g) with g' | g'
        · exact Or.inl (Or.inl g')
        · exact Or.inr (Or.inl g')
      · exact Or.inl (Or.inr g)
      · rcases hs.mpr (Or.inr g) with g' | g'
        · exact Or.inl (Or.inl g')
        · exact Or.inr (Or.inl g')
      · exact Or.inr (Or.inr g)
  rw [List.mem_append, List.mem_append, List.mem_append, List.mem_append, List.mem_append, List.mem_append,
    List.mem_append, List.mem_append]
  exact or_congr (or_congr (or_congr (or_congr hE hS) (h.pts x)) Iff.rfl) hp

theorem segAtoms_congr_loc {pa pa' : Parts} (hl : ∀ p, locateParts pa p = locateParts pa' p)
    (hf : ∀ e, locateFace pa e = locateFace pa' e) (pb : Parts) (verts : List Pt) (s : Pt × Pt) :
    segAtoms pa pb verts s = segAtoms pa' pb verts s := by
  obtain ⟨a, b⟩ := s
  simp only [segAtoms, hl, hf]

/-- **The matrix does not depend on how the first operand is written** (`PartsEquiv`). -/
theorem relateParts_congr_left {pa pa' : Parts} (h : PartsEquiv pa pa') (pb : Parts) :
    relateParts pa pb = relateParts pa' pb := by
  rw [relateParts_eq, relateParts_eq]
  congr 1
  apply fold_mem_congr
  intro x
  have hv : (vertsOf pa pb).Perm (vertsOf pa' pb) :=
    (List.perm_ext_iff_of_nodup (nodup_dedupPts _) (nodup_dedupPts _)).mpr (mem_vertsOf_congr h pb)
  have hs : ∀ s, segAtoms pa pb (vertsOf pa pb) s = segAtoms pa' pb (vertsOf pa' pb) s := by
    intro s
    rw [segAtoms_congr pa pb hv (nodup_dedupPts _), segAtoms_congr_loc h.loc h.face]
  unfold atomsOf
  simp only [List.mem_append, List.mem_map, List.mem_flatMap, hs, h.loc]
  constructor
  · rintro (⟨v, hv', e⟩ | ⟨s, hs', g⟩)
    · exact Or.inl ⟨v, hv.mem_iff.mp hv', e⟩
    · refine Or.inr ⟨s, ?_, g⟩
      rcases hs' with g' | g'
      · exact Or.inl (h.segs.mem_iff.mp g')
      · exact Or.inr g'
  · rintro (⟨v, hv', e⟩ | ⟨s, hs', g⟩)
    · exact Or.inl ⟨v, hv.mem_iff.mpr hv', e⟩
    · refine Or.inr ⟨s, ?_, g⟩
      rcases hs' with g' | g'
      · exact Or.inl (h.segs.mem_iff.mpr g')
      · exact Or.inr g'

/-- … nor on how the second operand is written (by transposition). -/
theorem relateParts_congr_right (pa : Parts) {pb pb' : Parts} (h : PartsEquiv pb pb') :
    relateParts pa pb = relateParts pa pb' := by
  rw [relateParts_transpose pb pa, relateParts_transpose pb' pa, relateParts_congr_left h]

/-! ### the re-writings -/

/-- a polygon re-written without reversing a ring: `PolyEquiv` plus the same directed edges -/
structure PolyRewrite (q q' : Poly) : Prop where
  equiv : PolyEquiv q q'
  segs : (q.rings.flatMap Geo.segs).Perm (q'.rings.flatMap Geo.segs)
  singles : ∀ x, x ∈ q.rings.flatMap singleOf ↔ x ∈ q'.rings.flatMap singleOf

theorem PolyRewrite.refl (q : Poly) : PolyRewrite q q := ⟨PolyEquiv.refl q, List.Perm.refl _, fun _ => Iff.rfl⟩

theorem segs_rotate_perm (a b : Pt) (l1 l2 : List Pt) :
    (Geo.segs (a :: l1 ++ b :: (l2 ++ [a]))).Perm (Geo.segs (b :: l2 ++ a :: (l1 ++ [b]))) := by
  rw [segs_append_mid, segs_append_mid (b :: l2)]
  exact List.perm_append_comm

theorem singleOf_rotate (a b : Pt) (l1 l2 : List Pt) :
    singleOf (a :: l1 ++ b :: (l2 ++ [a])) = [] ∧ singleOf (b :: l2 ++ a :: (l1 ++ [b])) = [] := by
  constructor
  · cases l1 <;> simp [singleOf]
  · cases l2 <;> simp [singleOf]

/-- exterior ring started at another vertex -/
theorem PolyRewrite.ext_rotate (a b : Pt) (l1 l2 : List Pt) (ints : List (List Pt)) :
    PolyRewrite ⟨a :: l1 ++ b :: (l2 ++ [a]), ints⟩ ⟨b :: l2 ++ a :: (l1 ++ [b]), ints⟩ := by
  refine ⟨PolyEquiv.of_ext (RingEquiv.rotate a b l1 l2) ints, ?_, ?_⟩
  · simp only [Poly.rings, List.flatMap_cons]
    exact (segs_rotate_perm a b l1 l2).append_right _
  · intro x
    simp only [Poly.rings, List.flatMap_cons, (singleOf_rotate a b l1 l2).1, (singleOf_rotate a b l1 l2).2]

/-- a hole started at another vertex -/
theorem PolyRewrite.hole_rotate (ext : List Pt) (h1 h2 : List (List Pt)) (a b : Pt) (l1 l2 : List Pt) :
    PolyRewrite ⟨ext, h1 ++ (a :: l1 ++ b :: (l2 ++ [a])) :: h2⟩ ⟨ext, h1 ++ (b :: l2 ++ a :: (l1 ++ [b])) :: h2⟩ := by
  refine ⟨PolyEquiv.of_hole (RingEquiv.rotate a b l1 l2) ext h1 h2, ?_, ?_⟩
  · simp only [Poly.rings, List.flatMap_cons, List.flatMap_append]
    exact List.Perm.append_left _ (List.Perm.append_left _ ((segs_rotate_perm a b l1 l2).append_right _))
  · intro x
    simp only [Poly.rings, List.flatMap_cons, List.flatMap_append, (singleOf_rotate a b l1 l2).1,
      (singleOf_rotate a b l1 l2).2]

/-- the holes listed in another order -/
theorem PolyRewrite.holes_perm (ext : List Pt) {ints ints' : List (List Pt)} (h : ints.Perm ints') :
    PolyRewrite ⟨ext, ints⟩ ⟨ext, ints'⟩ := by
  refine ⟨PolyEquiv.of_ints_perm ext h, ?_, ?_⟩
  · simp only [Poly.rings, List.flatMap_cons]
    exact List.Perm.append_left _ (h.flatMap_right _)
  · intro x
    simp only [Poly.rings, List.flatMap_cons, List.mem_append, (h.flatMap_right singleOf).mem_iff]

theorem PolyRewrite.trans {q q' q'' : Poly} (h : PolyRewrite q q') (h' : PolyRewrite q' q'') : PolyRewrite q q'' :=
  ⟨h.equiv.trans h'.equiv, h.segs.trans h'.segs, fun x => (h.singles x).trans (h'.singles x)⟩

/-- a curve re-written without reversing it -/
structure CurveRewrite (c c' : List Pt) : Prop where
  equiv : CurveEquiv c c'
  segs : (Geo.segs c).Perm (Geo.segs c')
  singles : singleOf c = singleOf c'

theorem CurveRewrite.refl (c : List Pt) : CurveRewrite c c := ⟨CurveEquiv.refl c, List.Perm.refl _, rfl⟩

/-- a closed curve started at another vertex -/
theorem CurveRewrite.rotate (a b : Pt) (l1 l2 : List Pt) :
    CurveRewrite (a :: l1 ++ b :: (l2 ++ [a])) (b :: l2 ++ a :: (l1 ++ [b])) :=
  ⟨CurveEquiv.rotate a b l1 l2, segs_rotate_perm a b l1 l2,
   (singleOf_rotate a b l1 l2).1.trans (singleOf_rotate a b l1 l2).2.symm⟩

theorem flatMap_perm_forall₂ {α β : Type} {R : α → α → Prop} {l l' : List α} (h : List.Forall₂ R l l')
    {f : α → List β} (hf : ∀ a b, R a b → (f a).Perm (f b)) : (l.flatMap f).Perm (l'.flatMap f) := by
  induction h with
  | nil => exact List.Perm.refl _
  | cons hab _ ih => simp only [List.flatMap_cons]; exact (hf _ _ hab).append ih

theorem forall₂_imp {α : Type} {R S : α → α → Prop} (hRS : ∀ a b, R a b → S a b) {l l' : List α}
    (h : List.Forall₂ R l l') : List.Forall₂ S l l' := by
  induction h with
  | nil => exact List.Forall₂.nil
  | cons hab _ ih => exact List.Forall₂.cons (hRS _ _ hab) ih

/-- members re-written one by one -/
theorem PartsEquiv.members (pts : List Pt) {cs cs' : List (List Pt)} {as as' : List Poly}
    (hc : List.Forall₂ CurveRewrite cs cs') (ha : List.Forall₂ PolyRewrite as as') :
    PartsEquiv ⟨pts, cs, as⟩ ⟨pts, cs', as'⟩ := by
  refine ⟨?_, ?_, fun _ => Iff.rfl, ?_, ?_⟩
  · simp only [Parts.allSegs, Parts.curveSegs, Parts.areaSegs, List.flatMap_assoc]
    exact (flatMap_perm_forall₂ hc (fun a b hab => hab.segs)).append
      (flatMap_perm_forall₂ ha (fun a b hab => hab.segs))
  · intro x
    simp only [singlesOf, List.flatMap_append, List.flatMap_assoc, List.mem_append]
    have e1 : cs.flatMap singleOf = cs'.flatMap singleOf := by
      clear ha
      induction hc with
      | nil => rfl
      | cons hab _ ih => simp only [List.flatMap_cons, hab.singles, ih]
    have e2 : x ∈ as.flatMap (fun q => q.rings.flatMap singleOf) ↔ x ∈ as'.flatMap (fun q => q.rings.flatMap singleOf) := by
      clear hc e1
      induction ha with
      | nil => exact Iff.rfl
      | cons hab _ ih => simp only [List.flatMap_cons, List.mem_append, hab.singles x, ih]
    rw [e1, e2]
  · intro p
    exact locateParts_congr p (fun _ => Iff.rfl) (forall₂_imp (fun _ _ h => h.equiv) hc)
      (forall₂_imp (fun _ _ h => h.equiv) ha)
  · intro e
    exact locateFace_congr e (forall₂_imp (fun _ _ h => h.equiv) ha)

/-- members / points listed in another order -/
theorem PartsEquiv.perm {pts pts' : List Pt} {cs cs' : List (List Pt)} {as as' : List Poly}
    (hp : pts.Perm pts') (hc : cs.Perm cs') (ha : as.Perm as') :
    PartsEquiv ⟨pts, cs, as⟩ ⟨pts', cs', as'⟩ := by
  refine ⟨?_, ?_, fun _ => hp.mem_iff, fun p => locateParts_perm p hp hc ha, fun e => locateFace_perm e ha⟩
  · simp only [Parts.allSegs, Parts.curveSegs, Parts.areaSegs]
    exact (hc.flatMap_right _).append ((ha.flatMap_right _).flatMap_right _)
  · intro x
    simp only [singlesOf]
    exact ((hc.append (ha.flatMap_right _)).flatMap_right _).mem_iff

/-! ### collections -/

theorem partsList_cons (g : Geom) (gs : List Geom) : partsList (g :: gs) = (parts g).append (partsList gs) := by
  simp [partsList]

theorem append_swap_perm {α : Type} (a b r : List α) : (a ++ (b ++ r)).Perm (b ++ (a ++ r)) := by
  rw [← List.append_assoc, ← List.append_assoc]
  exact List.perm_append_comm.append_right r

/-- the parts of a collection with its members in another order -/
theorem partsList_perm {gs gs' : List Geom} (h : gs.Perm gs') :
    (partsList gs).pts.Perm (partsList gs').pts ∧ (partsList gs).curves.Perm (partsList gs').curves ∧
      (partsList gs).areas.Perm (partsList gs').areas := by
  induction h with
  | nil => exact ⟨List.Perm.refl _, List.Perm.refl _, List.Perm.refl _⟩
  | cons g _ ih =>
    simp only [partsList_cons, Parts.append]
    exact ⟨ih.1.append_left _, ih.2.1.append_left _, ih.2.2.append_left _⟩
  | swap a b l =>
    simp only [partsList_cons, Parts.append]
    exact ⟨append_swap_perm _ _ _, append_swap_perm _ _ _, append_swap_perm _ _ _⟩
  | trans _ _ ih1 ih2 => exact ⟨ih1.1.trans ih2.1, ih1.2.1.trans ih2.2.1, ih1.2.2.trans ih2.2.2⟩

theorem PartsEquiv.collection_perm {gs gs' : List Geom} (h : gs.Perm gs') :
    PartsEquiv (parts (.collection gs)) (parts (.collection gs')) := by
  obtain ⟨h1, h2, h3⟩ := partsList_perm h
  have e : ∀ l, parts (.collection l) = ⟨(partsList l).pts, (partsList l).curves, (partsList l).areas⟩ := by
    intro l; simp [parts]
  rw [e, e]
  exact PartsEquiv.perm h1 h2 h3

end Geo.Proofs.Spec
