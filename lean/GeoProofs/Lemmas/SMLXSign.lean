/-
  SMLX (C05), part 5: the sign of the signed sum of crossing abscissae of a level, and of the area.

  * `abel_ge`, `abel_pos` (pure list lemmas, summation by parts): for weights `s` on strictly increasing
    abscissae `t` whose sums from every position on are non-negative, `Σ s·t ≥ (Σ s)·t₁`; with `Σ s = 0`,
    weights `±1` and suffix sums `(1 + s)/2` the sum `Σ s·t` is positive.
  * `level_sign`: on a level that avoids the coordinates of a simple ring and crosses it,
    `(2L − 1)·levelF y > 0` (`L` the side constant of `simple_faces`).
  * `area_sign`: `(2L − 1)·shoelace2 r > 0` — **the exact area of a simple ring is positive iff its interior
    is on the left of its edges**, in particular never zero.
-/
import GeoProofs.Lemmas.SMLXFaces
import GeoProofs.Lemmas.SMLXLevel
import Mathlib.Data.List.Dedup

set_option linter.unusedSimpArgs false
set_option linter.unusedVariables false

namespace Geo.Proofs.SMLX
open Geo Geo.IP Geo.Proofs.Kernel Geo.Proofs.Spec Geo.Proofs.C02Q Geo.Proofs.C12 Geo.Proofs.WIND
open Geo.Proofs.C05L

/-! ### summation by parts -/

def sumS (l : List (Rat × Rat)) : Rat := sumRat (l.map (·.2))
def sumST (l : List (Rat × Rat)) : Rat := sumRat (l.map (fun b => b.2 * b.1))
/-- sum of the weights at abscissae `≥ x` -/
def sgeP (l : List (Rat × Rat)) (x : Rat) : Rat :=
  sumRat ((l.filter (fun b => decide (x ≤ b.1))).map (·.2))

theorem sgeP_cons (a : Rat × Rat) (l : List (Rat × Rat)) (x : Rat) :
    sgeP (a :: l) x = (if x ≤ a.1 then a.2 else 0) + sgeP l x := by
  unfold sgeP
  by_cases h : x ≤ a.1
  · simp [List.filter_cons, h, sumRat]
  · simp [List.filter_cons, h, sumRat]

theorem sgeP_all (l : List (Rat × Rat)) (x : Rat) (h : ∀ b ∈ l, x ≤ b.1) : sgeP l x = sumS l := by
  induction l with
  | nil => rfl
  | cons a t ih =>
    rw [sgeP_cons, if_pos (h a List.mem_cons_self), ih (fun b hb => h b (List.mem_cons_of_mem _ hb))]
    simp [sumS, sumRat]

theorem abel_ge : ∀ l : List (Rat × Rat), l.Pairwise (fun a b => a.1 < b.1) →
    (∀ a ∈ l, 0 ≤ sgeP l a.1) → ∀ hd ∈ l.head?, sumS l * hd.1 ≤ sumST l
  | [], _, _, hd, h => by simp at h
  | [a], _, _, hd, h => by
    simp only [List.head?_cons, Option.mem_def, Option.some.injEq] at h
    subst h
    simp [sumS, sumST, sumRat]
  | a :: b :: rest, hs, hge, hd, h => by
    simp only [List.head?_cons, Option.mem_def, Option.some.injEq] at h
    subst h
    rw [List.pairwise_cons] at hs
    obtain ⟨ha, hs'⟩ := hs
    have hge' : ∀ c ∈ b :: rest, 0 ≤ sgeP (b :: rest) c.1 := by
      intro c hc
      have := hge c (List.mem_cons_of_mem _ hc)
      rw [sgeP_cons, if_neg (not_le.mpr (ha c hc))] at this
      simpa using this
    have ih := abel_ge (b :: rest) hs' hge' b (by simp)
    have hall : ∀ c ∈ b :: rest, b.1 ≤ c.1 := by
      intro c hc
      rcases List.mem_cons.mp hc with rfl | hc
      · exact le_refl _
      · exact le_of_lt ((List.pairwise_cons.mp hs').1 c hc)
    have hS : 0 ≤ sumS (b :: rest) := by
      rw [← sgeP_all (b :: rest) b.1 hall]
      exact hge' b (by simp)
    have hab : a.1 < b.1 := ha b (by simp)
    have e1 : sumS (a :: b :: rest) = a.2 + sumS (b :: rest) := by simp [sumS, sumRat]
    have e2 : sumST (a :: b :: rest) = a.2 * a.1 + sumST (b :: rest) := by simp [sumST, sumRat]
    rw [e1, e2]
    nlinarith

theorem abel_pos (l : List (Rat × Rat)) (hs : l.Pairwise (fun a b => a.1 < b.1)) (hne : l ≠ [])
    (h0 : sumS l = 0)
    (hw : ∀ a ∈ l, (a.2 = 1 ∨ a.2 = -1) ∧ sgeP l a.1 = (1 + a.2) / 2) : 0 < sumST l := by
  match l, hne with
  | a :: rest, _ =>
    rw [List.pairwise_cons] at hs
    obtain ⟨ha, hs'⟩ := hs
    have hall : ∀ c ∈ a :: rest, a.1 ≤ c.1 := by
      intro c hc
      rcases List.mem_cons.mp hc with rfl | hc
      · exact le_refl _
      · exact le_of_lt (ha c hc)
    obtain ⟨hpm, hsa⟩ := hw a (by simp)
    rw [sgeP_all _ _ hall, h0] at hsa
    have ha2 : a.2 = -1 := by linarith
    have e1 : sumS (a :: rest) = a.2 + sumS rest := by simp [sumS, sumRat]
    have e2 : sumST (a :: rest) = a.2 * a.1 + sumST rest := by simp [sumST, sumRat]
    have hSr : sumS rest = 1 := by rw [e1, ha2] at h0; linarith
    match rest, hs', ha, hw, hSr, e2 with
    | [], _, _, _, hSr, _ => simp [sumS, sumRat] at hSr
    | b :: rest', hs', ha, hw, hSr, e2 =>
      have hge' : ∀ c ∈ b :: rest', 0 ≤ sgeP (b :: rest') c.1 := by
        intro c hc
        obtain ⟨hcpm, hc2⟩ := hw c (List.mem_cons_of_mem _ hc)
        rw [sgeP_cons, if_neg (not_le.mpr (ha c hc))] at hc2
        rw [zero_add] at hc2
        rw [hc2]
        rcases hcpm with e | e <;> rw [e] <;> norm_num
      have ih := abel_ge (b :: rest') hs' hge' b (by simp)
      have hab : a.1 < b.1 := ha b (by simp)
      rw [e2, ha2]
      rw [hSr] at ih
      linarith

/-! ### invariance under permutation -/

theorem sumRat_perm {l1 l2 : List Rat} (h : l1.Perm l2) : sumRat l1 = sumRat l2 := by
  induction h with
  | nil => rfl
  | cons a _ ih => simp [sumRat, ih]
  | swap a b l => simp only [sumRat]; ring
  | trans _ _ ih1 ih2 => exact ih1.trans ih2

theorem sumS_perm {l1 l2 : List (Rat × Rat)} (h : l1.Perm l2) : sumS l1 = sumS l2 :=
  sumRat_perm (h.map _)

theorem sumST_perm {l1 l2 : List (Rat × Rat)} (h : l1.Perm l2) : sumST l1 = sumST l2 :=
  sumRat_perm (h.map _)

theorem sgeP_perm {l1 l2 : List (Rat × Rat)} (h : l1.Perm l2) (x : Rat) : sgeP l1 x = sgeP l2 x :=
  sumRat_perm ((h.filter _).map _)

/-! ### sorting pairs by the abscissa -/

def leP (a b : Rat × Rat) : Bool := decide (a.1 ≤ b.1)

theorem insertBy_sortedP (a : Rat × Rat) :
    ∀ l : List (Rat × Rat), l.Pairwise (fun u v => u.1 ≤ v.1) →
      (insertBy leP a l).Pairwise (fun u v => u.1 ≤ v.1)
  | [], _ => by simp [insertBy]
  | b :: bs, h => by
    simp only [insertBy, leP]
    have h' := List.pairwise_cons.1 h
    by_cases hab : a.1 ≤ b.1
    · simp only [hab, decide_true, if_true]
      refine List.pairwise_cons.2 ⟨fun c hc => ?_, h⟩
      rcases List.mem_cons.1 hc with rfl | hc
      · exact hab
      · exact le_trans hab (h'.1 c hc)
    · simp only [hab, decide_false, Bool.false_eq_true, if_false]
      refine List.pairwise_cons.2 ⟨fun c hc => ?_, insertBy_sortedP a bs h'.2⟩
      have := (insertBy_perm _ a bs).mem_iff.1 hc
      rcases List.mem_cons.1 this with rfl | hc'
      · exact le_of_lt (not_le.1 hab)
      · exact h'.1 c hc'

theorem isort_sortedP : ∀ l : List (Rat × Rat), (isort leP l).Pairwise (fun u v => u.1 ≤ v.1)
  | [] => List.Pairwise.nil
  | a :: l => by
    show (insertBy _ a (isort _ l)).Pairwise _
    exact insertBy_sortedP a _ (isort_sortedP l)

theorem isort_strictP (l : List (Rat × Rat)) (hnd : (l.map (·.1)).Nodup) :
    (isort leP l).Pairwise (fun u v => u.1 < v.1) := by
  have h1 := isort_sortedP l
  have h2 : ((isort leP l).map (·.1)).Nodup := ((isort_perm leP l).map _).nodup_iff.2 hnd
  have h3 : (isort leP l).Pairwise (fun u v => u.1 ≠ v.1) := by
    have := List.pairwise_map.mp h2
    exact this
  exact (h1.and h3).imp (fun h => lt_of_le_of_ne h.1 h.2)

/-! ### the crossings of a level as weighted abscissae -/

/-- the crossings of the level `y` with the edges `es`: abscissa and `σ ·` sign -/
def crL (σ y : Rat) (es : List (Pt × Pt)) : List (Rat × Rat) :=
  (es.filter (fun e => decide (sgnE y e ≠ 0))).map (fun e => (xAt y e, σ * ((sgnE y e : Int) : Rat)))

theorem crL_cons (σ y : Rat) (e : Pt × Pt) (es : List (Pt × Pt)) :
    crL σ y (e :: es) =
      if sgnE y e ≠ 0 then (xAt y e, σ * ((sgnE y e : Int) : Rat)) :: crL σ y es else crL σ y es := by
  unfold crL
  by_cases h : sgnE y e ≠ 0
  · simp [List.filter_cons, h]
  · simp [List.filter_cons, h]

theorem crL_abscissae (σ y : Rat) (es : List (Pt × Pt)) :
    (crL σ y es).map (·.1) = es.flatMap (crossXs y) := by
  induction es with
  | nil => rfl
  | cons e es ih =>
    rw [crL_cons, List.flatMap_cons]
    have hx : crossXs y e = if sgnE y e ≠ 0 then [xAt y e] else [] := rfl
    by_cases h : sgnE y e ≠ 0
    · rw [if_pos h, List.map_cons, ih, hx, if_pos h]; rfl
    · rw [if_neg h, ih, hx, if_neg h]; rfl

theorem sumST_crL (σ y : Rat) (es : List (Pt × Pt)) : sumST (crL σ y es) = σ * levelF y es := by
  induction es with
  | nil => simp [crL, sumST, levelF, sumRat]
  | cons e es ih =>
    rw [crL_cons]
    have hl : levelF y (e :: es) = ((sgnE y e : Int) : Rat) * xAt y e + levelF y es := by
      simp [levelF, sumRat]
    by_cases h : sgnE y e ≠ 0
    · rw [if_pos h]
      have : sumST ((xAt y e, σ * ((sgnE y e : Int) : Rat)) :: crL σ y es) =
          σ * ((sgnE y e : Int) : Rat) * xAt y e + sumST (crL σ y es) := by simp [sumST, sumRat]
      rw [this, ih, hl]; ring
    · rw [if_neg h, ih, hl]
      have h0 : sgnE y e = 0 := by simpa using h
      rw [h0]; simp

theorem sumS_crL (σ y : Rat) (es : List (Pt × Pt)) :
    sumS (crL σ y es) = σ * (((es.map (sgnE y)).sum : Int) : Rat) := by
  induction es with
  | nil => simp [crL, sumS, sumRat]
  | cons e es ih =>
    rw [crL_cons]
    by_cases h : sgnE y e ≠ 0
    · rw [if_pos h]
      have : sumS ((xAt y e, σ * ((sgnE y e : Int) : Rat)) :: crL σ y es) =
          σ * ((sgnE y e : Int) : Rat) + sumS (crL σ y es) := by simp [sumS, sumRat]
      rw [this, ih]; simp only [List.map_cons, List.sum_cons]; push_cast; ring
    · rw [if_neg h, ih]
      have h0 : sgnE y e = 0 := by simpa using h
      simp only [List.map_cons, List.sum_cons, h0]; push_cast; ring

theorem sgeP_crL (σ y t0 : Rat) (es : List (Pt × Pt)) :
    sgeP (crL σ y es) t0 = σ * ((sge y t0 es : Int) : Rat) := by
  induction es with
  | nil => simp [crL, sgeP, sge, psum, sumRat]
  | cons e es ih =>
    have hp : sge y t0 (e :: es) = (if decide (t0 ≤ xAt y e) = true then sgnE y e else 0) + sge y t0 es := by
      unfold sge; rw [psum_cons]
    rw [crL_cons, hp]
    by_cases h : sgnE y e ≠ 0
    · rw [if_pos h, sgeP_cons, ih]
      by_cases hle : t0 ≤ xAt y e
      · simp [hle]; ring
      · simp [hle]
    · rw [if_neg h, ih]
      have h0 : sgnE y e = 0 := by simpa using h
      simp [h0]

theorem mem_crL {σ y : Rat} {es : List (Pt × Pt)} {a : Rat × Rat} (ha : a ∈ crL σ y es) :
    ∃ e ∈ es, sgnE y e ≠ 0 ∧ a = (xAt y e, σ * ((sgnE y e : Int) : Rat)) := by
  unfold crL at ha
  rw [List.mem_map] at ha
  obtain ⟨e, he, rfl⟩ := ha
  rw [List.mem_filter] at he
  exact ⟨e, he.1, by simpa using he.2, rfl⟩

/-! ### the sign of a level -/

/-- **the signed sum of the crossing abscissae of a level has the sign of the side of the ring** -/
theorem level_sign {r0 : List Pt} (h : ringSimple r0 = true) {L : Int} (hL01 : L = 0 ∨ L = 1)
    (hL : ∀ a b P, (a, b) ∈ segs r0 → SegMem P a b → P ∉ r0 →
      windingE (faceL a b P) r0 = L ∧ windingE (faceR a b P) r0 = L - 1)
    {y : Rat} (hy : ∀ v ∈ r0, v.y ≠ y) (hcross : ∃ e ∈ segs r0, sgnE y e ≠ 0) :
    0 < (2 * (L : Rat) - 1) * levelF y (segs r0) := by
  have hc := closed_of_simple h
  set σ : Rat := 2 * (L : Rat) - 1 with hσ
  set l := crL σ y (segs r0) with hl
  set l' := isort leP l with hl'
  have hperm : l'.Perm l := isort_perm leP l
  -- weights and suffix sums of the crossings
  have hw : ∀ a ∈ l, (a.2 = 1 ∨ a.2 = -1) ∧ sgeP l a.1 = (1 + a.2) / 2 := by
    intro a ha
    obtain ⟨⟨p, q⟩, he, hsg, rfl⟩ := mem_crL ha
    have hsuf := crossing_suffix h hL hy he hsg
    simp only
    rw [sgeP_crL, hsuf]
    rcases sgnE_cases y (p, q) with e1 | e1 | e1
    · rw [e1]
      rcases hL01 with rfl | rfl <;> (simp [hσ]; try norm_num)
    · rw [e1]
      rcases hL01 with rfl | rfl <;> (simp [hσ]; try norm_num)
    · exact absurd e1 hsg
  have hw' : ∀ a ∈ l', (a.2 = 1 ∨ a.2 = -1) ∧ sgeP l' a.1 = (1 + a.2) / 2 := by
    intro a ha
    obtain ⟨h1, h2⟩ := hw a (hperm.mem_iff.1 ha)
    exact ⟨h1, by rw [sgeP_perm hperm]; exact h2⟩
  have hsum : sumS l' = 0 := by
    rw [sumS_perm hperm, sumS_crL, sum_sgnE_closed y r0 hc hy]; simp
  have hsorted : l'.Pairwise (fun u v => u.1 < v.1) := by
    apply isort_strictP
    rw [crL_abscissae]
    exact crossings_nodup_of_simple h y hy
  have hne : l' ≠ [] := by
    obtain ⟨e, he, hsg⟩ := hcross
    have : (xAt y e, σ * ((sgnE y e : Int) : Rat)) ∈ l := by
      rw [hl]; unfold crL
      rw [List.mem_map]
      exact ⟨e, by rw [List.mem_filter]; exact ⟨he, by simpa using hsg⟩, rfl⟩
    intro e0
    have := hperm.mem_iff.2 this
    rw [e0] at this; cases this
  have := abel_pos l' hsorted hne hsum hw'
  rw [sumST_perm hperm, sumST_crL] at this
  exact this

/-! ### the sign of the area -/

/-- the ordinates of the coordinates of a ring, strictly increasing -/
def levelsOf (r : List Pt) : List Rat := isort (fun a b => decide (a ≤ b)) ((r.map (·.y)).dedup)

theorem levelsOf_sorted (r : List Pt) : (levelsOf r).Pairwise (· < ·) :=
  isort_strict _ (List.nodup_dedup _)

theorem mem_levelsOf (r : List Pt) (w : Rat) : w ∈ levelsOf r ↔ ∃ v ∈ r, v.y = w := by
  unfold levelsOf
  rw [(isort_perm _ _).mem_iff, List.mem_dedup, List.mem_map]

theorem pairsQ_ne_nil : ∀ (Y : List Rat) (a b : Rat), a ∈ Y → b ∈ Y → a ≠ b → pairsQ Y ≠ []
  | [], a, b, ha, _, _ => by cases ha
  | [x], a, b, ha, hb, hab => by
    simp only [List.mem_singleton] at ha hb
    exact absurd (ha.trans hb.symm) hab
  | x :: y :: t, _, _, _, _, _ => by simp [pairsQ]

/-- a slab between consecutive ordinates: its middle level avoids the coordinates and crosses the ring -/
theorem slab_level {r : List Pt} {s : Rat × Rat} (hs : s ∈ pairsQ (levelsOf r)) :
    s.1 < s.2 ∧ (∀ v ∈ r, v.y ≠ (s.1 + s.2) / 2) ∧ (∃ v ∈ r, v.y < (s.1 + s.2) / 2) ∧
      (∃ v ∈ r, (s.1 + s.2) / 2 < v.y) ∧ (∀ v ∈ r, ¬ (s.1 < v.y ∧ v.y < s.2)) := by
  obtain ⟨g1, g2⟩ := pairsQ_gap _ (levelsOf_sorted r) s hs
  obtain ⟨m1, m2⟩ := pairsQ_mem _ s hs
  have hgap : ∀ v ∈ r, ¬ (s.1 < v.y ∧ v.y < s.2) := fun v hv =>
    g2 v.y ((mem_levelsOf r v.y).2 ⟨v, hv, rfl⟩)
  refine ⟨g1, ?_, ?_, ?_, hgap⟩
  · intro v hv e
    exact hgap v hv ⟨by rw [e]; linarith, by rw [e]; linarith⟩
  · obtain ⟨v, hv, e⟩ := (mem_levelsOf r s.1).1 m1
    exact ⟨v, hv, by rw [e]; linarith⟩
  · obtain ⟨v, hv, e⟩ := (mem_levelsOf r s.2).1 m2
    exact ⟨v, hv, by rw [e]; linarith⟩

/-- **the exact area of a simple ring is positive iff the interior is on the left of its edges**:
`(2L − 1) · shoelace2 r > 0` with `L` the side constant of `simple_faces`. In particular the area is not 0. -/
theorem area_sign {r0 : List Pt} (h : ringSimple r0 = true) {L : Int} (hL01 : L = 0 ∨ L = 1)
    (hL : ∀ a b P, (a, b) ∈ segs r0 → SegMem P a b → P ∉ r0 →
      windingE (faceL a b P) r0 = L ∧ windingE (faceR a b P) r0 = L - 1) :
    0 < (2 * (L : Rat) - 1) * shoelace2 r0 := by
  have hc := closed_of_simple h
  rw [shoelace2_slabs r0 hc (levelsOf r0) (levelsOf_sorted r0)
    (fun v hv => (mem_levelsOf r0 v.y).2 ⟨v, hv, rfl⟩), ← sumRat_map_mul]
  have hterm : ∀ s ∈ pairsQ (levelsOf r0),
      0 < (2 * (L : Rat) - 1) * (2 * (s.2 - s.1) * levelF ((s.1 + s.2) / 2) (segs r0)) := by
    intro s hs
    obtain ⟨g1, hy, hlo, hhi, _⟩ := slab_level hs
    have hcross := exists_straddle ((s.1 + s.2) / 2) r0 hy hlo hhi
    have := level_sign h hL01 hL hy hcross
    have h2 : 0 < 2 * (s.2 - s.1) := by linarith
    nlinarith [mul_pos h2 this]
  -- there is a slab: the ring does not lie on one horizontal line
  have hne : pairsQ (levelsOf r0) ≠ [] := by
    have hlen := length_of_simple h
    match r0, hlen with
    | u :: rest, _ =>
      have hnh := simple_not_horizontal h u.y
      have : ∃ v ∈ u :: rest, v.y ≠ u.y := by
        by_contra hno
        apply hnh
        intro v hv
        by_contra hne
        exact hno ⟨v, hv, hne⟩
      obtain ⟨v, hv, hne⟩ := this
      exact pairsQ_ne_nil _ v.y u.y ((mem_levelsOf _ _).2 ⟨v, hv, rfl⟩)
        ((mem_levelsOf _ _).2 ⟨u, by simp, rfl⟩) hne
  obtain ⟨s0, hs0⟩ := List.exists_mem_of_ne_nil _ hne
  exact sumRat_map_pos _ _ (fun s hs => le_of_lt (hterm s hs)) s0 hs0 (hterm s0 hs0)

end Geo.Proofs.SMLX
