/-
  C02X, part 12: `Y: Intersects<Line>` for every geometry `Y` of the validity domain (collections
  included) holds exactly when the segment has a point in `Y` (`vsPiece_line_iff`); the per-type
  "union of parts" descriptions of the specification's location used by the dispatch proofs; and the
  bounding-box soundness in the form that also covers degenerate line pieces.
-/
import GeoProofs.Lemmas.C02XKernel

set_option linter.unusedSimpArgs false
set_option linter.unusedVariables false

namespace Geo.Proofs.C02X
open Geo Geo.Proofs.Kernel Geo.Proofs.Spec Geo.Proofs.C02Q Geo.Proofs.WIND

/-! ### bounding-box soundness on `DomFacts` (pieces need not be valid geometries) -/

theorem domFacts_line (x y : Pt) : DomFacts (.line x y) :=
  ⟨rfl, fun c hc => Hull.self (by simpa [allCoords, parts, exteriorCoords] using hc),
    fun q hq => by simp [parts] at hq⟩

theorem domFacts_point (c : Pt) : DomFacts (.point c) :=
  ⟨rfl, fun x hx => Hull.self (by simpa [allCoords, parts, exteriorCoords] using hx),
    fun q hq => by simp [parts] at hq⟩

theorem disjointBB_facts {a b : Geom} (fa : DomFacts a) (fb : DomFacts b)
    (h : disjointBB a b = true) (p : Pt) : locate a p = .outside ∨ locate b p = .outside := by
  have hsep := disjointBB_sep fa fb h
  by_cases hp : locate a p = .outside
  · exact Or.inl hp
  · right
    exact locateParts_far (far_of_box hsep fb.closed.ext (box_of_located fa.closed.ext hp))

/-- a common point: the bounding boxes are not disjoint -/
theorem disjointBB_false_of_common_facts {a b : Geom} (fa : DomFacts a) (fb : DomFacts b) {p : Pt}
    (h1 : locate a p ≠ .outside) (h2 : locate b p ≠ .outside) : disjointBB a b = false := by
  cases hd : disjointBB a b with
  | false => rfl
  | true =>
    rcases disjointBB_facts fa fb hd p with h | h
    · exact absurd h h1
    · exact absurd h h2

/-! ### the location as a union over parts -/

theorem located_point (c p : Pt) : locate (.point c) p ≠ .outside ↔ p = c := by
  unfold locate
  rw [located_noAreas (by simp [parts])]
  simp [parts, Parts.curveSegs, onAnySeg]

theorem located_multiPoint (cs : List Pt) (p : Pt) : locate (.multiPoint cs) p ≠ .outside ↔ p ∈ cs := by
  unfold locate
  rw [located_noAreas (by simp [parts])]
  simp [parts, Parts.curveSegs, onAnySeg]

theorem located_line (x y p : Pt) : locate (.line x y) p ≠ .outside ↔ SegMem p x y := by
  rw [located_linear (g := .line x y) rfl, curveSegs_line]
  simp

theorem located_lineString (cs : List Pt) (p : Pt) :
    locate (.lineString cs) p ≠ .outside ↔ ∃ s ∈ segs cs, SegMem p s.1 s.2 := by
  rw [located_linear (g := .lineString cs) rfl, curveSegs_lineString]

theorem located_mls (ls : List (List Pt)) (p : Pt) :
    locate (.multiLineString ls) p ≠ .outside ↔ ∃ cs ∈ ls, locate (.lineString cs) p ≠ .outside := by
  rw [located_linear (g := .multiLineString ls) rfl, curveSegs_mls]
  constructor
  · rintro ⟨t, ht, h⟩
    obtain ⟨cs, hcs, htc⟩ := List.mem_flatMap.mp ht
    exact ⟨cs, hcs, (located_lineString cs p).mpr ⟨t, htc, h⟩⟩
  · rintro ⟨cs, hcs, h⟩
    obtain ⟨t, ht, h'⟩ := (located_lineString cs p).mp h
    exact ⟨t, List.mem_flatMap.mpr ⟨cs, hcs, ht⟩, h'⟩

theorem located_multiPolygon (ps : List Poly) (p : Pt) :
    locate (.multiPolygon ps) p ≠ .outside ↔ ∃ q ∈ ps, locate (.polygon q) p ≠ .outside := by
  rw [Geo.Proofs.Loc.locate_multiPolygon]
  constructor
  · intro h
    by_cases hi : (ps.any fun m => locate (.polygon m) p == .inside) = true
    · obtain ⟨m, hm, e⟩ := List.any_eq_true.mp hi
      have : locate (.polygon m) p = .inside := by simpa using e
      exact ⟨m, hm, by rw [this]; intro e; cases e⟩
    · rw [if_neg hi] at h
      by_cases hb : (ps.any fun m => locate (.polygon m) p == .onBoundary) = true
      · obtain ⟨m, hm, e⟩ := List.any_eq_true.mp hb
        have : locate (.polygon m) p = .onBoundary := by simpa using e
        exact ⟨m, hm, by rw [this]; intro e; cases e⟩
      · rw [if_neg hb] at h; exact absurd rfl h
  · rintro ⟨q, hq, h⟩
    by_cases hi : (ps.any fun m => locate (.polygon m) p == .inside) = true
    · rw [if_pos hi]; intro e; cases e
    · rw [if_neg hi]
      have hb : (ps.any fun m => locate (.polygon m) p == .onBoundary) = true := by
        rw [List.any_eq_true]
        refine ⟨q, hq, ?_⟩
        have h1 : ¬ (locate (.polygon q) p == .inside) = true := fun e => hi (List.any_eq_true.mpr ⟨q, hq, e⟩)
        cases hl : locate (.polygon q) p <;> simp_all
      rw [if_pos hb]; intro e; cases e

theorem located_collection {gs : List Geom} (hd : inDomain (.collection gs) = true) (p : Pt) :
    locate (.collection gs) p ≠ .outside ↔ ∃ g ∈ gs, locate g p ≠ .outside := by
  obtain ⟨hok, hl⟩ := inDomain_collection hd
  have hloc : locate (.collection gs) p = locateParts (partsList gs) p := rfl
  rw [hloc]
  rcases partsList_located gs p (collection_apart hok hl p) with ⟨h1, h2⟩ | ⟨g, hg, h1, h2⟩
  · rw [h2]
    constructor
    · intro h; exact absurd rfl h
    · rintro ⟨g, hg, h⟩; exact absurd (h1 g hg) h
  · rw [h2]
    exact ⟨fun _ => ⟨g, hg, h1⟩, fun _ => h1⟩

theorem locate_empty_polygon (p : Pt) : locate (.polygon ⟨[], []⟩) p = .outside := by
  have hl : locate (.polygon ⟨[], []⟩) p = locateParts ⟨[], [], [⟨[], []⟩]⟩ p := rfl
  rw [hl, Geo.Proofs.Loc.locateParts_poly]
  simp [Poly.rings, segs, onAnySeg, windingE]

/-! ### members of valid Multi* are valid -/

theorem mls_member_dom {ls : List (List Pt)} (h : inDomain (.multiLineString ls) = true) :
    ∀ cs ∈ ls, inDomain (.lineString cs) = true := by
  have hv : multiLineValid ls = true := by simpa [inDomain, validGeom] using h
  unfold multiLineValid at hv
  rw [Bool.and_eq_true, List.all_eq_true] at hv
  intro cs hcs
  simp [inDomain, validGeom, hv.1 cs hcs]

theorem mpg_member_dom {ps : List Poly} (h : inDomain (.multiPolygon ps) = true) :
    ∀ q ∈ ps, inDomain (.polygon q) = true := by
  intro q hq
  simp [inDomain, validGeom, multiPolyValid_members (multiPolygon_dom h) q hq]

theorem isxCollAny_eq (gs : List Geom) (b : Geom) : isxCollAny gs b = gs.any (fun g => vsPiece g b) := by
  induction gs with
  | nil => rw [isxCollAny]; rfl
  | cons g t ih =>
    rw [List.any_cons, ← ih]
    cases g <;> simp only [isxCollAny, vsPiece]

/-! ### `Polygon: Intersects<Line>` on the domain -/

theorem polyLine_dom (q : Poly) (hd : inDomain (.polygon q) = true) (x y : Pt) :
    polyLine q x y = true ↔ ∃ p, SegMem p x y ∧ locate (.polygon q) p ≠ .outside := by
  rcases polygon_dom_cases hd with ⟨he, hi⟩ | hv
  · obtain ⟨ext, ints⟩ := q
    simp only at he hi
    subst he; subst hi
    constructor
    · intro h
      exfalso
      have h1 : lsLine [] x y = false := by rw [Geo.Proofs.Loc.lsLine_eq]; rfl
      have h2 : ∀ c, polyCoord ⟨[], []⟩ c = false := by
        intro c
        unfold polyCoord
        rw [coordPos_polygon_dom ⟨[], []⟩ c hd, locate_empty_polygon]; rfl
      simp [polyLine, h1, h2] at h
    · rintro ⟨p, _, h⟩
      exact absurd (locate_empty_polygon p) h
  · exact polyLine_iff q (rings_ok hv) x y (coordPos_polygon_valid_full q x hv)
      (coordPos_polygon_valid_full q y hv)

/-! ### `Y: Intersects<Line>` for every `Y` of the domain -/

mutual
/-- **`Y.intersects(Line)` through the `Intersects<Line>` impls, every `Y` of the validity domain** (the line
may be degenerate): true exactly when the segment has a point in `Y` -/
theorem vsPiece_line_iff : ∀ (g : Geom) (x y : Pt), inDomain g = true →
    (vsPiece g (.line x y) = true ↔ ∃ p, SegMem p x y ∧ locate g p ≠ .outside)
  | .point c, x, y, _ => by
      simp only [vsPiece, isxFlat, coordX]
      rw [lineCoord_iff]
      constructor
      · intro h; exact ⟨c, h, (located_point c c).mpr rfl⟩
      · rintro ⟨p, h, hp⟩; rw [(located_point c p).mp hp] at h; exact h
  | .line a b, x, y, _ => by
      simp only [vsPiece, isxFlat, lineX]
      rw [lineLine_iff]
      constructor
      · rintro ⟨p, h1, h2⟩; exact ⟨p, h2, (located_line a b p).mpr h1⟩
      · rintro ⟨p, h1, h2⟩; exact ⟨p, (located_line a b p).mp h2, h1⟩
  | .multiPoint cs, x, y, _ => by
      simp only [vsPiece, isxFlat, coordX]
      rw [List.any_eq_true]
      constructor
      · rintro ⟨c, hc, h⟩
        exact ⟨c, (lineCoord_iff _ _ _).mp h, (located_multiPoint cs c).mpr hc⟩
      · rintro ⟨p, h, hp⟩
        exact ⟨p, (located_multiPoint cs p).mp hp, (lineCoord_iff _ _ _).mpr h⟩
  | .lineString cs, x, y, _ => by
      rw [vsPiece_linear_iff (.lineString cs) rfl x y]
      constructor
      · rintro ⟨t, ht, p, h1, h2⟩
        exact ⟨p, h2, (located_linear (g := .lineString cs) rfl p).mpr ⟨t, ht, h1⟩⟩
      · rintro ⟨p, h, hp⟩
        obtain ⟨t, ht, h'⟩ := (located_linear (g := .lineString cs) rfl p).mp hp
        exact ⟨t, ht, p, h', h⟩
  | .multiLineString ls, x, y, _ => by
      rw [vsPiece_linear_iff (.multiLineString ls) rfl x y]
      constructor
      · rintro ⟨t, ht, p, h1, h2⟩
        exact ⟨p, h2, (located_linear (g := .multiLineString ls) rfl p).mpr ⟨t, ht, h1⟩⟩
      · rintro ⟨p, h, hp⟩
        obtain ⟨t, ht, h'⟩ := (located_linear (g := .multiLineString ls) rfl p).mp hp
        exact ⟨t, ht, p, h', h⟩
  | .polygon q, x, y, hd => by
      simp only [vsPiece, isxFlat, polyX]
      exact polyLine_dom q hd x y
  | .multiPolygon ps, x, y, hd => by
      simp only [vsPiece, isxFlat, polyX]
      constructor
      · intro h
        split at h
        · cases h
        · rw [List.any_eq_true] at h
          obtain ⟨q, hq, h⟩ := h
          obtain ⟨p, h1, h2⟩ := (polyLine_dom q (mpg_member_dom hd q hq) x y).mp h
          exact ⟨p, h1, (located_multiPolygon ps p).mpr ⟨q, hq, h2⟩⟩
      · rintro ⟨p, h1, h2⟩
        have hdb := disjointBB_false_of_common_facts (dom_facts _ hd) (domFacts_line x y) h2
          ((located_line x y p).mpr h1)
        rw [hdb]
        simp only [Bool.false_eq_true, if_false]
        obtain ⟨q, hq, h3⟩ := (located_multiPolygon ps p).mp h2
        rw [List.any_eq_true]
        exact ⟨q, hq, (polyLine_dom q (mpg_member_dom hd q hq) x y).mpr ⟨p, h1, h3⟩⟩
  | .rect mn mx, x, y, hd => by
      simp only [vsPiece, isxFlat, rectX]
      exact rectLine_iff mn mx x y (rect_dom hd).1 (rect_dom hd).2
  | .triangle a b c, x, y, _ => by
      simp only [vsPiece, isxFlat, triX]
      exact triLine_iff a b c x y
  | .collection gs, x, y, hd => by
      obtain ⟨hok, hl⟩ := inDomain_collection hd
      have hm := vsPiece_line_iff_list gs x y hl
      simp only [vsPiece]
      rw [isxColl, isxCollAny_eq]
      constructor
      · intro h
        split at h
        · cases h
        · rw [List.any_eq_true] at h
          obtain ⟨g, hg, h⟩ := h
          obtain ⟨p, h1, h2⟩ := (hm g hg).mp h
          exact ⟨p, h1, (located_collection hd p).mpr ⟨g, hg, h2⟩⟩
      · rintro ⟨p, h1, h2⟩
        have hdb := disjointBB_false_of_common_facts (dom_facts _ hd) (domFacts_line x y) h2
          ((located_line x y p).mpr h1)
        rw [hdb]
        simp only [Bool.false_eq_true, if_false]
        obtain ⟨g, hg, h3⟩ := (located_collection hd p).mp h2
        rw [List.any_eq_true]
        exact ⟨g, hg, (hm g hg).mpr ⟨p, h1, h3⟩⟩
theorem vsPiece_line_iff_list : ∀ (gs : List Geom) (x y : Pt), inDomainList gs = true →
    ∀ g ∈ gs, (vsPiece g (.line x y) = true ↔ ∃ p, SegMem p x y ∧ locate g p ≠ .outside)
  | [], _, _, _ => fun g hg => by cases hg
  | a :: t, x, y, h => by
      simp only [inDomainList, Bool.and_eq_true] at h
      intro g hg
      rcases List.mem_cons.mp hg with e | hg
      · rw [e]; exact vsPiece_line_iff a x y h.1
      · exact vsPiece_line_iff_list t x y h.2 g hg
end

/-- `Y: Intersects<Point>`, every `Y` of the domain -/
theorem vsPiece_point_iff (g : Geom) (c : Pt) (hd : inDomain g = true) :
    vsPiece g (.point c) = true ↔ locate g c ≠ .outside := by
  rw [vsPiece_point, isx_dom_point g c hd]
  simp

end Geo.Proofs.C02X
