/-
  GeoProofs.Lemmas.C07XSets — the point set of a polygon and the crossing lemmas the areal distance
  theorems rest on.

  * `PolyPts q x`: the specification (`locate`) does not put `x` outside the polygon `q` — the closed
    polygon as a point set. For closed rings it is "on a ring, or winding number ≠ 0 about the shell and
    = 0 about every hole" (`PolyPts_iff`).
  * `ring_cross`: a segment whose end points have different winding numbers about a closed ring meets
    the ring (contrapositive of `windingE_const`).
  * `poly_cross`: a segment from a point outside the polygon to a point of the polygon meets a ring.
  * `ls_winding_const`: the winding number about a closed ring is the same at all points of a line
    string that does not meet the ring.
  * `winding_in_bbox`: a point with non-zero winding number lies in the bounding box of the ring.
-/
import GeoProofs.Lemmas.WINDHoles
import GeoProofs.Lemmas.C07PRings

namespace Geo.Proofs.C07
open Geo Geo.Proofs.Kernel Geo.Proofs.Loc

/-! ### the point set of a polygon -/

/-- the closed polygon as a point set: not located outside by the specification -/
def PolyPts (q : Poly) (x : Pt) : Prop := locate (.polygon q) x ≠ .outside

/-- all rings closed with at least two coordinates (valid rings have at least four) -/
def RingsOK (q : Poly) : Prop := ∀ r ∈ q.ext :: q.ints, RingOK r

theorem RingsOK_of_valid {q : Poly} (hv : polyValid q = true) : RingsOK q := by
  obtain ⟨h1, h2, _⟩ := Geo.Proofs.C02Q.polyValid_unpack hv
  intro r hr
  rcases List.mem_cons.mp hr with rfl | hr
  · exact Geo.Proofs.C02Q.ringOK_of_simple h1
  · exact Geo.Proofs.C02Q.ringOK_of_simple (h2 r hr)

theorem LsPts_iff_onAnySeg (r : List Pt) (x : Pt) : LsPts r x ↔ onAnySeg x (segs r) = true := by
  rw [Geo.Proofs.Loc.onAnySeg_iff]
  unfold LsPts
  simp only [lineCoord_iff]

theorem not_LsPts_iff (r : List Pt) (x : Pt) : ¬ LsPts r x ↔ onAnySeg x (segs r) = false := by
  rw [LsPts_iff_onAnySeg]; simp

theorem RingsPts_iff_any (rs : List (List Pt)) (x : Pt) :
    RingsPts rs x ↔ (rs.any fun r => onAnySeg x (segs r)) = true := by
  unfold RingsPts
  rw [List.any_eq_true]
  constructor
  · rintro ⟨r, hr, h⟩; exact ⟨r, hr, (LsPts_iff_onAnySeg r x).mp h⟩
  · rintro ⟨r, hr, h⟩; exact ⟨r, hr, (LsPts_iff_onAnySeg r x).mpr h⟩

/-- the interior condition of the specification for a point off all rings -/
def WindIn (q : Poly) (x : Pt) : Prop :=
  windingE (EPt.ofPt x) q.ext ≠ 0 ∧ ∀ h ∈ q.ints, windingE (EPt.ofPt x) h = 0

/-- **the closed polygon**: on a ring, or inside the shell and outside every hole -/
theorem PolyPts_iff {q : Poly} (hok : RingsOK q) (x : Pt) :
    PolyPts q x ↔ RingsPts (q.ext :: q.ints) x ∨ WindIn q x := by
  unfold PolyPts
  have hl : locate (.polygon q) x = locateParts ⟨[], [], [q]⟩ x := rfl
  have hsingle : (q.rings.any fun r => r == [x]) = false := by
    rw [List.any_eq_false]
    intro r hr
    rw [ring_ne_single (hok r hr)]; simp
  rw [hl, locateParts_poly, hsingle]
  have hR : q.rings = q.ext :: q.ints := rfl
  rw [hR]
  by_cases hon : ((q.ext :: q.ints).any fun r => onAnySeg x (segs r)) = true
  · have : RingsPts (q.ext :: q.ints) x := (RingsPts_iff_any _ x).mpr hon
    simp [hon, this]
  · have hon' : ((q.ext :: q.ints).any fun r => onAnySeg x (segs r)) = false := by simpa using hon
    have hnr : ¬ RingsPts (q.ext :: q.ints) x := fun h => hon ((RingsPts_iff_any _ x).mp h)
    rw [hon']
    simp only [Bool.not_false, Bool.true_and, Bool.or_false, Bool.false_eq_true, if_false]
    have hb : (windingE (EPt.ofPt x) q.ext != 0 &&
        q.ints.all fun h => windingE (EPt.ofPt x) h == 0) = true ↔ WindIn q x := by
      unfold WindIn
      simp [List.all_eq_true]
    by_cases hW : WindIn q x
    · rw [if_pos (hb.mpr hW)]; simp [hW]
    · rw [if_neg (fun h => hW (hb.mp h))]; simp [hW, hnr]

/-- every point of a ring of the polygon is a point of the polygon -/
theorem PolyPts_of_ring {q : Poly} (hok : RingsOK q) {x : Pt} (h : RingsPts (q.ext :: q.ints) x) :
    PolyPts q x := (PolyPts_iff hok x).mpr (Or.inl h)

/-- a point that is not a point of the polygon is on no ring, and is outside the shell or strictly
inside a hole -/
theorem not_PolyPts {q : Poly} (hok : RingsOK q) {x : Pt} (h : ¬ PolyPts q x) :
    ¬ RingsPts (q.ext :: q.ints) x ∧
      (windingE (EPt.ofPt x) q.ext = 0 ∨ ∃ h ∈ q.ints, windingE (EPt.ofPt x) h ≠ 0) := by
  rw [PolyPts_iff hok, not_or] at h
  refine ⟨h.1, ?_⟩
  by_contra hc
  push Not at hc
  exact h.2 ⟨hc.1, hc.2⟩

/-! ### crossing lemmas -/

/-- **a segment whose end points have different winding numbers about a closed ring meets the ring** -/
theorem ring_cross {r : List Pt} (hc : r.head? = r.getLast?) {x y : Pt}
    (hw : windingE (EPt.ofPt x) r ≠ windingE (EPt.ofPt y) r) : ∃ z, SegMem z x y ∧ LsPts r z := by
  by_contra hno
  apply hw
  apply Geo.Proofs.C02Q.windingE_const r hc x y
  intro s hs ⟨z, hz1, hz2⟩
  exact hno ⟨z, hz2, s, hs, hz1⟩

/-- the same with "on the ring" allowed at the far end -/
theorem ring_cross' {r : List Pt} (hc : r.head? = r.getLast?) {x y : Pt}
    (hw : LsPts r y ∨ windingE (EPt.ofPt x) r ≠ windingE (EPt.ofPt y) r) :
    ∃ z, SegMem z x y ∧ LsPts r z := by
  rcases hw with h | h
  · exact ⟨y, SegMem_right x y, h⟩
  · exact ring_cross hc h

/-- **a segment from a point that is not in the polygon to a point of the polygon meets a ring** -/
theorem poly_cross {q : Poly} (hok : RingsOK q) {x y : Pt} (hx : ¬ PolyPts q x) (hy : PolyPts q y) :
    ∃ z, SegMem z x y ∧ RingsPts (q.ext :: q.ints) z := by
  obtain ⟨_, hxw⟩ := not_PolyPts hok hx
  rcases (PolyPts_iff hok y).mp hy with hr | ⟨hy1, hy2⟩
  · exact ⟨y, SegMem_right x y, hr⟩
  · rcases hxw with h0 | ⟨h, hh, hne⟩
    · obtain ⟨z, hz1, hz2⟩ := ring_cross (hok q.ext List.mem_cons_self).1 (x := x) (y := y)
        (by rw [h0]; exact fun e => hy1 e.symm)
      exact ⟨z, hz1, q.ext, List.mem_cons_self, hz2⟩
    · obtain ⟨z, hz1, hz2⟩ := ring_cross (hok h (List.mem_cons_of_mem _ hh)).1 (x := x) (y := y)
        (by rw [hy2 h hh]; exact hne)
      exact ⟨z, hz1, h, List.mem_cons_of_mem _ hh, hz2⟩

/-! ### distances along a segment -/

theorem dist2_le_of_SegMem {x y z : Pt} (h : SegMem z x y) : dist2 x z ≤ dist2 x y := by
  obtain ⟨t, t0, t1, hx, hy⟩ := h
  unfold dist2
  have e1 : x.x - z.x = t * (x.x - y.x) := by rw [hx]; ring
  have e2 : x.y - z.y = t * (x.y - y.y) := by rw [hy]; ring
  rw [e1, e2]
  have hs : 0 ≤ (x.x - y.x) * (x.x - y.x) + (x.y - y.y) * (x.y - y.y) :=
    add_nonneg (mul_self_nonneg _) (mul_self_nonneg _)
  have ht : t * t ≤ 1 := by nlinarith
  nlinarith

/-- two nested cuts of a segment: `w ∈ [x, y]`, `z ∈ [w, y]` -/
theorem dist2_le_of_nested {x y w z : Pt} (hw : SegMem w x y) (hz : SegMem z w y) :
    dist2 w z ≤ dist2 x y := by
  have h1 := dist2_le_of_SegMem hz
  have h2 := dist2_le_of_SegMem (SegMem_symm hw)
  rw [dist2_symm y w] at h2
  rw [dist2_symm x y]
  exact le_trans h1 h2

/-! ### winding numbers along a line string -/

/-- a sub-segment of a segment that does not meet the ring does not meet it either -/
theorem winding_eq_on_seg {r : List Pt} (hc : r.head? = r.getLast?) {a b x y : Pt}
    (hno : ∀ t ∈ segs r, ¬ ∃ p, SegMem p a b ∧ SegMem p t.1 t.2) (hx : SegMem x a b) (hy : SegMem y a b) :
    windingE (EPt.ofPt x) r = windingE (EPt.ofPt y) r := by
  apply Geo.Proofs.C02Q.windingE_const r hc x y
  intro s hs ⟨z, hz1, hz2⟩
  exact hno s hs ⟨z, SegMem_convex hx hy hz2, hz1⟩

/-- **the winding number about a closed ring is constant along a line string that does not meet it** -/
theorem ls_winding_const {r : List Pt} (hc : r.head? = r.getLast?) :
    ∀ {cs : List Pt}, NoMeet cs r → ∀ x y, LsPts cs x → LsPts cs y →
      windingE (EPt.ofPt x) r = windingE (EPt.ofPt y) r := by
  have key : ∀ (cs : List Pt), NoMeet cs r → ∀ x, LsPts cs x →
      windingE (EPt.ofPt x) r = windingE (EPt.ofPt (cs.headD ⟨0, 0⟩)) r := by
    intro cs
    induction cs with
    | nil => intro _ x ⟨se, hse, _⟩; simp [segs] at hse
    | cons a t ih =>
      cases t with
      | nil => intro _ x ⟨se, hse, _⟩; simp [segs] at hse
      | cons b rest =>
        intro hno x ⟨se, hse, hx⟩
        have hab : ∀ t ∈ segs r, ¬ ∃ p, SegMem p a b ∧ SegMem p t.1 t.2 :=
          fun t ht => hno (a, b) (by simp [segs]) t ht
        simp only [segs, List.mem_cons] at hse
        rcases hse with rfl | hse
        · exact winding_eq_on_seg hc hab hx (SegMem_left a b)
        · have hno' : NoMeet (b :: rest) r := fun s hs t ht => hno s (by simp only [segs]; exact List.mem_cons_of_mem _ hs) t ht
          have h1 := ih hno' x ⟨se, hse, hx⟩
          simp only [List.headD_cons] at h1 ⊢
          rw [h1]
          exact winding_eq_on_seg hc hab (SegMem_right a b) (SegMem_left a b)
  intro cs hno x y hx hy
  rw [key cs hno x hx, key cs hno y hy]

/-- the first coordinate of a line string with a segment is one of its points -/
theorem LsPts_head {cs : List Pt} (h : segs cs ≠ []) : LsPts cs (cs.headD ⟨0, 0⟩) := by
  match cs, h with
  | a :: b :: rest, _ => exact ⟨(a, b), by simp [segs], SegMem_left a b⟩

/-! ### a point with non-zero winding number lies in the bounding box of the ring -/

theorem specInc_above {p s e : Pt} (hs : s.y < p.y) (he : e.y < p.y) : specInc (EPt.ofPt p) s e = 0 := by
  rw [specInc_ofPt]; unfold ptInc
  have h1 : s.y ≤ p.y := hs.le
  have h2 : ¬ p.y < e.y := not_lt.mpr he.le
  simp [h1, h2]

theorem winding_zero_above {r : List Pt} {p : Pt} (h : ∀ v ∈ r, v.y < p.y) : windingE (EPt.ofPt p) r = 0 := by
  rw [windingE_eq_sum]
  apply List.sum_eq_zero
  intro z hz
  obtain ⟨se, hse, rfl⟩ := List.mem_map.mp hz
  obtain ⟨h1, h2⟩ := segs_mem hse
  exact specInc_above (h _ h1) (h _ h2)

theorem specInc_below {p s e : Pt} (hs : p.y < s.y) (he : p.y < e.y) : specInc (EPt.ofPt p) s e = 0 := by
  rw [specInc_ofPt]; unfold ptInc
  have h1 : ¬ s.y ≤ p.y := not_le.mpr hs
  have h2 : ¬ e.y ≤ p.y := not_le.mpr he
  simp [h1, h2]

theorem winding_zero_below {r : List Pt} {p : Pt} (h : ∀ v ∈ r, p.y < v.y) : windingE (EPt.ofPt p) r = 0 := by
  rw [windingE_eq_sum]
  apply List.sum_eq_zero
  intro z hz
  obtain ⟨se, hse, rfl⟩ := List.mem_map.mp hz
  obtain ⟨h1, h2⟩ := segs_mem hse
  exact specInc_below (h _ h1) (h _ h2)

/-- **a point with non-zero winding number about a closed ring lies in every axis-parallel box that
contains the coordinates of the ring** -/
theorem winding_in_box {r : List Pt} (hc : r.head? = r.getLast?) {mn mx p : Pt}
    (hb : ∀ v ∈ r, mn.x ≤ v.x ∧ v.x ≤ mx.x ∧ mn.y ≤ v.y ∧ v.y ≤ mx.y)
    (hw : windingE (EPt.ofPt p) r ≠ 0) : mn.x ≤ p.x ∧ p.x ≤ mx.x ∧ mn.y ≤ p.y ∧ p.y ≤ mx.y := by
  -- a point strictly to one side in `x` can be moved above the ring without meeting it
  have side : ∀ (hx : p.x < mn.x ∨ mx.x < p.x), False := by
    intro hx
    apply hw
    let p' : Pt := ⟨p.x, max p.y mx.y + 1⟩
    have hmove : windingE (EPt.ofPt p) r = windingE (EPt.ofPt p') r := by
      apply Geo.Proofs.C02Q.windingE_const r hc p p'
      intro s hs ⟨z, hz1, hz2⟩
      obtain ⟨h1, h2⟩ := segs_mem hs
      have hzb := SegMem_in_box hz1 (hb _ h1) (hb _ h2)
      obtain ⟨t, _, _, hzx, _⟩ := hz2
      have : z.x = p.x := by rw [hzx]; simp [p']
      rcases hx with hx | hx <;> linarith [hzb.1, hzb.2.1]
    rw [hmove]
    apply winding_zero_above
    intro v hv
    have := (hb v hv).2.2.2
    have h2 : mx.y ≤ max p.y mx.y := le_max_right _ _
    show v.y < max p.y mx.y + 1
    linarith
  by_contra hout
  rcases lt_or_ge p.x mn.x with h1 | h1
  · exact side (Or.inl h1)
  rcases lt_or_ge mx.x p.x with h2 | h2
  · exact side (Or.inr h2)
  rcases lt_or_ge p.y mn.y with h3 | h3
  · exact hw (winding_zero_below (fun v hv => lt_of_lt_of_le h3 (hb v hv).2.2.1))
  rcases lt_or_ge mx.y p.y with h4 | h4
  · exact hw (winding_zero_above (fun v hv => lt_of_le_of_lt (hb v hv).2.2.2 h4))
  exact hout ⟨h1, h2, h3, h4⟩

/-- …in particular in the ring's bounding box -/
theorem winding_in_bbox {r : List Pt} (hc : r.head? = r.getLast?) {p : Pt}
    (hw : windingE (EPt.ofPt p) r ≠ 0) :
    ∀ mn mx, getBoundingRect r = some (mn, mx) → mn.x ≤ p.x ∧ p.x ≤ mx.x ∧ mn.y ≤ p.y ∧ p.y ≤ mx.y :=
  fun mn mx h => winding_in_box hc (Geo.Proofs.C19.getBoundingRect_bounds r mn mx h).1 hw

theorem LsPts_in_bbox {r : List Pt} {p : Pt} (h : LsPts r p) :
    ∀ mn mx, getBoundingRect r = some (mn, mx) → mn.x ≤ p.x ∧ p.x ≤ mx.x ∧ mn.y ≤ p.y ∧ p.y ≤ mx.y := by
  obtain ⟨se, hse, hx⟩ := h
  exact ls_box hse hx

end Geo.Proofs.C07
