/-
  C02X, part 1: from a point of an edge of the arrangement to the midpoint of an elementary
  sub-segment, for *all* closed rings of the arrangement at once.

  `WINDHoles.inside_elem` does this for one ring `rb` in the arrangement `(pa, polyOf rb)`. For the
  MultiPolygon argument the arrangement is `(partsOfPoly m, partsOfPoly m')` and the point has to
  keep its winding number about every ring of `m` (shell and holes) simultaneously, so the choice
  of the sub-segment must not depend on the ring: it is the elementary sub-segment around `p`
  (`p` not a vertex of the arrangement) or one adjacent to `p` (`p` a vertex).
-/
import GeoProofs.Lemmas.WINDHoles

set_option linter.unusedSimpArgs false
set_option linter.unusedVariables false

namespace Geo.Proofs.C02X
open Geo Geo.Proofs.Kernel Geo.Proofs.Spec Geo.Proofs.C02Q Geo.Proofs.WIND

/-- a point `x ≠ p` between the midpoint of an elementary sub-segment and a point `p` of the closed
sub-segment is strictly inside the sub-segment -/
theorem within_of_between {a b u v p m x : Pt} (hab : a ≠ b) (hpm : SegMem p a b)
    (hp1 : dist2 a u ≤ dist2 a p) (hp2 : dist2 a p ≤ dist2 a v) (hmw : Within a b u v m)
    (hx : SegMem x m p) (hxp : x ≠ p) : Within a b u v x := by
  have hxm : SegMem x a b := SegMem_convex hmw.1 hpm hx
  have hdne : dist2 a x ≠ dist2 a p := fun e => hxp (dist2_inj_on_seg hab hxm hpm e)
  rcases le_total (dist2 a p) (dist2 a m) with hle | hle
  · obtain ⟨b1, b2⟩ := dist2_between hab hpm hmw.1 (SegMem_symm hx) hle
    exact ⟨hxm, lt_of_le_of_lt hp1 (lt_of_le_of_ne b1 (Ne.symm hdne)), lt_of_le_of_lt b2 hmw.2.2⟩
  · obtain ⟨b1, b2⟩ := dist2_between hab hmw.1 hpm hx hle
    exact ⟨hxm, lt_of_lt_of_le hmw.2.1 b1, lt_of_lt_of_le (lt_of_le_of_ne b2 hdne) hp2⟩

/-- **the adjacent elementary sub-segment.** For a point `p` of a non-degenerate edge `(a, b)` of
the arrangement `(pa, pb)` there is an elementary sub-segment `(u, v)` of `(a, b)` such that every
edge of the arrangement through a point strictly inside it contains `p`, and such that about every
closed ring made of edges of the arrangement that does not pass through `p` the midpoint is off the
ring and has the winding number of `p`. -/
theorem adj_elem {pa pb : Parts} {a b p : Pt} (hs : (a, b) ∈ pa.allSegs ++ pb.allSegs) (hab : a ≠ b)
    (hpm : SegMem p a b) :
    ∃ u v, Elem (vertsOf pa pb) a b u v ∧
      (∀ z, Within a b u v z → ∀ s ∈ pa.allSegs ++ pb.allSegs, SegMem z s.1 s.2 → SegMem p s.1 s.2) ∧
      ∀ r : List Pt, r.head? = r.getLast? → (∀ s ∈ segs r, s ∈ pa.allSegs ++ pb.allSegs) →
        onAnySeg p (segs r) = false →
        onAnySeg (midpoint u v) (segs r) = false ∧
          windingE (EPt.ofPt (midpoint u v)) r = windingE (EPt.ofPt p) r := by
  obtain ⟨ha, hb⟩ := ends_mem_vertsOf hs
  -- the sub-segment and the position of `p` in its closure
  have hex : ∃ u v, Elem (vertsOf pa pb) a b u v ∧ dist2 a u ≤ dist2 a p ∧ dist2 a p ≤ dist2 a v := by
    by_cases hv : p ∈ vertsOf pa pb
    · have hmem : ∀ w, w ∈ vertsOf pa pb → SegMem w a b →
          w ∈ sortByDist a ((vertsOf pa pb).filter (fun w => lineCoord a b w)) := by
        intro w hw hwm
        rw [mem_sortByDist, List.mem_filter]; exact ⟨hw, (lineCoord_iff _ _ _).mpr hwm⟩
      have hlen := two_le_length_of_mem_ne (hmem a ha (SegMem_left a b)) (hmem b hb (SegMem_right a b)) hab
      obtain ⟨⟨u, v⟩, huv, hpuv⟩ := Geo.Proofs.C12.mem_segs_end _ p hlen (hmem p hv hpm)
      have hnod : (sortByDist a ((vertsOf pa pb).filter (fun w => lineCoord a b w))).Nodup :=
        (sortByDist_perm_self a _).nodup_iff.mpr ((nodup_dedupPts _).filter _)
      have hne : u ≠ v := segs_ne_of_nodup hnod huv
      have E : Elem (vertsOf pa pb) a b u v := ⟨hab, huv, hne⟩
      have hle := (sorted_consecutive (sortByDist_sorted a _) E.pair).1
      refine ⟨u, v, E, ?_⟩
      rcases hpuv with e | e
      · simp only at e; rw [e]; exact ⟨le_refl _, hle⟩
      · simp only at e; rw [e]; exact ⟨hle, le_refl _⟩
    · obtain ⟨u, v, E, hw⟩ := exists_elem hab ha hb hpm hv
      exact ⟨u, v, E, hw.2.1.le, hw.2.2.le⟩
  obtain ⟨u, v, E, hp1, hp2⟩ := hex
  have hmw := E.midpoint_within
  have key : ∀ z, Within a b u v z → ∀ s ∈ pa.allSegs ++ pb.allSegs, SegMem z s.1 s.2 → SegMem p s.1 s.2 :=
    fun z hz s hs' hzs => edge_all_closed hs (show (s.1, s.2) ∈ _ from hs') E hz hzs hpm hp1 hp2
  refine ⟨u, v, E, key, ?_⟩
  intro r hc hsub hoff
  have hoffW : ∀ z, Within a b u v z → ∀ s ∈ segs r, ¬ SegMem z s.1 s.2 := by
    intro z hz s hs' hzs
    have := key z hz s (hsub s hs') hzs
    have hon' : onAnySeg p (segs r) = true := by
      rw [Geo.Proofs.Loc.onAnySeg_iff]
      exact ⟨s, hs', (lineCoord_iff _ _ _).mpr this⟩
    rw [hoff] at hon'; cases hon'
  constructor
  · cases hb' : onAnySeg (midpoint u v) (segs r) with
    | false => rfl
    | true =>
      rw [Geo.Proofs.Loc.onAnySeg_iff] at hb'
      obtain ⟨s, hs', hl⟩ := hb'
      exact absurd ((lineCoord_iff _ _ _).mp hl) (hoffW _ hmw s hs')
  · apply windingE_const r hc (midpoint u v) p
    intro s hs' ⟨x, hx1, hx2⟩
    by_cases hxp : x = p
    · subst hxp
      have hon' : onAnySeg x (segs r) = true := by
        rw [Geo.Proofs.Loc.onAnySeg_iff]
        exact ⟨s, hs', (lineCoord_iff _ _ _).mpr hx1⟩
      rw [hoff] at hon'; cases hon'
    · exact hoffW x (within_of_between hab hpm hp1 hp2 hmw hx2 hxp) s hs' hx1

end Geo.Proofs.C02X
