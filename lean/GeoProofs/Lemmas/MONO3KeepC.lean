/-
  MONO3 (C10): `AInv` at the level of `next_point`; the ownership invariant between two calls of `process_next_pt`
  (`OwnB`) gives the ownership facts in the state that `next_point` returns (`OwnM`).
-/
import GeoProofs.Lemmas.MONO3KeepB

namespace Geo.Proofs.MONO3
open Geo Geo.Mono Geo.MonoBuild Geo.Proofs.C10 Geo.Proofs.MONO Geo.Proofs.MONO2

theorem nextPointLoop_ainv (hf : Nat) (pt : Pt) (st0 : St) : ∀ (fuel : Nat) (st st' : St), SInv st → Lo pt st →
    (st.events.head?).map (·.pt) = some pt → IO pt st → AInv pt st0 (fun _ => False) st →
    nextPointLoop hf pt fuel st = some st' → AInv pt st0 (fun _ => False) st'
  | 0, st, st', _, _, _, _, _, h => by simp [nextPointLoop] at h
  | fuel + 1, st, st', hi, hlo, hhd, hio, hn, h => by
    unfold nextPointLoop at h
    osplit h
    rename_i e evs hpop
    obtain ⟨i0, ok0, lo0, hd0⟩ := popped_sinv hi hpop
    have hpt : e.pt = pt := by rw [hd0] at hhd; simpa using hhd
    osplit h
    rename_i st1 hh
    obtain ⟨i1, x1, l1⟩ := (handle_sinv hf).1 { st with events := evs } st1 e i0 (ok0.congr rfl) lo0 hh
    have o1 := (handle_io hf).1 { st with events := evs } st1 e i0 (ok0.congr rfl) lo0
      (by rw [hpt]; exact ⟨hio.inc, hio.out⟩) hh
    have n1 := (handle_ainv st0 hf).1 (fun _ => False) { st with events := evs } st1 e i0 (ok0.congr rfl) lo0
      (by rw [hpt]; exact ⟨hio.inc, hio.out⟩)
      (by rw [hpt]; exact hn.congr rfl (fun x hx => (heapPop_perm hpop).mem_iff.1 hx) rfl rfl) hh
    rw [hpt] at l1 o1 n1
    split at h
    · cases h; exact n1
    · rename_i heq
      have : (st1.events.head?).map (·.pt) = some pt := by simpa using heq
      exact nextPointLoop_ainv hf pt st0 fuel st1 st' i1 l1 this o1 n1 h

/-- between two calls of `process_next_pt`: the `LineLeft` event of a segment is queued, or its left end lies before every
queued event -/
def LB (st : St) : Prop :=
  ∀ (j : Nat) (s : Seg), st.segs[j]? = some s →
    (⟨s.line.left, .lineLeft, j⟩ : Ev) ∈ st.events ∨ ∀ e ∈ st.events, lexLt s.line.left e.pt = true

theorem nextPoint_ainv {fuel : Nat} {st st' : St} {pt : Pt} (hi : SInv st) (hlb : LB st)
    (h0 : st.incoming = [] ∧ st.outgoing = [])
    (h : nextPoint fuel st = some (st', some pt)) : AInv pt st (fun _ => False) st' := by
  unfold nextPoint at h
  split at h
  · cases h
  · rename_i e hhe
    osplit h
    rename_i st1 hl
    simp only [Option.some.injEq, Prod.mk.injEq] at h
    obtain ⟨h1, h2⟩ := h
    subst h1 h2
    have hd0 : st.events[0]? = some e := by rw [← List.head?_eq_getElem?]; exact hhe
    have hlo : Lo e.pt st := fun x hx => pt_le_of_ev_le (heapInv_root_min hi.heap hd0 x hx)
    have hhd : (st.events.head?).map (·.pt) = some e.pt := by rw [hhe]; rfl
    refine nextPointLoop_ainv fuel e.pt st fuel st st1 hi hlo hhd ⟨?_, ?_⟩ ⟨?_, ?_, ?_, ?_, rfl⟩ hl
    · intro i hi'; rw [h0.1] at hi'; cases hi'
    · intro o ho; rw [h0.2] at ho; cases ho
    · intro j s0 hj
      exact ⟨s0, hj, rfl, lexLt_irrefl _, fun _ => rfl⟩
    · intro j s hj hge
      have := (List.getElem?_eq_some_iff.1 hj).1
      omega
    · intro j s hj
      rcases hlb j s hj with g | g
      · exact Or.inl g
      · exact Or.inr (Or.inl (g e (List.mem_of_mem_head? hhe)))
    · intro o ho; rw [h0.2] at ho; cases ho

/-! ### ownership -/

/-- segment `j` (stored as `s`) has started and not ended: its `LineLeft` event is not queued and some queued event lies at
or before its right end -/
def InB (st : St) (j : Nat) (s : Seg) : Prop :=
  st.segs[j]? = some s ∧ (⟨s.line.left, .lineLeft, j⟩ : Ev) ∉ st.events ∧
    ∃ e ∈ st.events, lexLt s.line.right e.pt = false

/-- ownership between two calls of `process_next_pt`: the chain indices held by the segments that have started and not
ended (`chain_idx`, the components of a registered `help`) are in range and pairwise different; `helper_chain` is in range -/
structure OwnB (st : St) : Prop where
  lt : ∀ j s, InB st j s → ∀ a k, refOf s.info a = some k → k < st.chains.length
  hc : ∀ j s, InB st j s → ∀ k, s.info.helperChain = some k → k < st.chains.length
  inj : ∀ i s j t, InB st i s → InB st j t → ∀ a b k, refOf s.info a = some k → refOf t.info b = some k → i = j ∧ a = b

/-- segment `j` started before `pt` and does not end before `pt` -/
def InM (pt : Pt) (st : St) (j : Nat) (s : Seg) : Prop :=
  st.segs[j]? = some s ∧ lexLt s.line.left pt = true ∧ lexLt s.line.right pt = false

/-- ownership in the state that `next_point` returns for `pt` -/
structure OwnM (pt : Pt) (st : St) : Prop where
  lt : ∀ j s, InM pt st j s → ∀ a k, refOf s.info a = some k → k < st.chains.length
  hc : ∀ j s, InM pt st j s → ∀ k, s.info.helperChain = some k → k < st.chains.length
  inj : ∀ i s j t, InM pt st i s → InM pt st j t → ∀ a b k, refOf s.info a = some k → refOf t.info b = some k →
    i = j ∧ a = b

/-- a segment of the state returned by `next_point` that started before `pt` and has not ended before `pt` is a
started-and-not-ended segment of the state `next_point` was called in, with the same payload -/
theorem inM_inB {fuel : Nat} {st st' : St} {pt : Pt} (hi : SInv st) (hlb : LB st)
    (h0 : st.incoming = [] ∧ st.outgoing = []) (h : nextPoint fuel st = some (st', some pt))
    {j : Nat} {s' : Seg} (hm : InM pt st' j s') : ∃ s, InB st j s ∧ s'.info = s.info := by
  have ha := nextPoint_ainv hi hlb h0 h
  obtain ⟨_, _, _, hd⟩ := nextPoint_sinv hi h
  obtain ⟨hj, hl, hr⟩ := hm
  have hjl : j < st.segs.length := by
    by_contra hge
    have := ha.new j s' hj (by omega)
    rw [hl] at this; cases this
  obtain ⟨s1, h1, e1, e2, e3⟩ := ha.keep j st.segs[j] (List.getElem?_eq_getElem hjl)
  rw [hj] at h1; cases h1
  have hl0 : lexLt (st.segs[j]).line.left pt = true := by rw [← e1]; exact hl
  cases hh : st.events.head? with
  | none => rw [hh] at hd; cases hd
  | some e =>
    rw [hh] at hd
    simp only [Option.map_some, Option.some.injEq] at hd
    have hd0 : st.events[0]? = some e := by rw [← List.head?_eq_getElem?]; exact hh
    have hlo : ∀ x ∈ st.events, lexLt x.pt pt = false := fun x hx => by
      rw [← hd]; exact pt_le_of_ev_le (heapInv_root_min hi.heap hd0 x hx)
    refine ⟨st.segs[j], ⟨List.getElem?_eq_getElem hjl, ?_, e, List.mem_of_mem_head? hh, ?_⟩, e3 hl0⟩
    · intro hmem
      have := hlo _ hmem
      simp only at this
      rw [hl0] at this; cases this
    · rw [hd]
      cases hx : lexLt (st.segs[j]).line.right pt with
      | false => rfl
      | true =>
        exfalso
        -- s'.right ≤ s0.right < pt contradicts ¬ s'.right < pt
        have : lexLt s'.line.right pt = true := by
          cases hy : lexLt s'.line.right pt with
          | true => rfl
          | false =>
            have := lexLe_lt_trans (a := s'.line.right) (b := (st.segs[j]).line.right) (c := pt)
              (by
                cases hz : lexLt (st.segs[j]).line.right s'.line.right with
                | false => rfl
                | true => rw [hz] at e2; cases e2) hx
            rw [hy] at this; cases this
        rw [hr] at this; cases this

theorem ownM_of_ownB {fuel : Nat} {st st' : St} {pt : Pt} (hi : SInv st) (hlb : LB st) (ho : OwnB st)
    (h0 : st.incoming = [] ∧ st.outgoing = []) (h : nextPoint fuel st = some (st', some pt)) : OwnM pt st' := by
  have hlen := (nextPoint_ainv hi hlb h0 h).len
  refine ⟨?_, ?_, ?_⟩
  · intro j s' hm a k hr
    obtain ⟨s, hb, e⟩ := inM_inB hi hlb h0 h hm
    rw [hlen]; rw [e] at hr
    exact ho.lt j s hb a k hr
  · intro j s' hm k hr
    obtain ⟨s, hb, e⟩ := inM_inB hi hlb h0 h hm
    rw [hlen]; rw [e] at hr
    exact ho.hc j s hb k hr
  · intro i s' j t' hm1 hm2 a b k hr1 hr2
    obtain ⟨s, hb1, e1⟩ := inM_inB hi hlb h0 h hm1
    obtain ⟨t, hb2, e2⟩ := inM_inB hi hlb h0 h hm2
    rw [e1] at hr1; rw [e2] at hr2
    exact ho.inj i s j t hb1 hb2 a b k hr1 hr2

end Geo.Proofs.MONO3
