/-
  C02Z: `LineString: Contains<LineString>` = the mask `T*****FF*` on the specification (valid operands), given the
  completeness of the two-pass truncation loop `lsContainsLine` on the proper (non-degenerate) segments of the argument.

  * `coord_proper_end`: every coordinate of a list with two distinct coordinates is an end point of a proper segment;
  * `lsContainsLs_iff`: for non-empty operands, the argument having a proper segment, the model asks the loop about
    exactly the proper segments of the argument;
  * `containsM_lineString_lineString_of_loop`: the equality, the soundness of the loop being `lsContainsLine_sound`.
-/
import GeoProofs.Lemmas.C02YLoop

set_option linter.unusedSimpArgs false
set_option linter.unusedVariables false

namespace Geo.Proofs.C02Z
open Geo Geo.Proofs.Kernel Geo.Proofs.Spec Geo.Proofs.C02X Geo.Proofs.C02Q Geo.Proofs.C02Y

/-- a coordinate is an end point of a proper segment, or every coordinate is equal to it -/
theorem coord_proper_end_or : ∀ (ds : List Pt), ∀ c ∈ ds,
    (∃ s ∈ segs ds, s.1 ≠ s.2 ∧ (c = s.1 ∨ c = s.2)) ∨ (∀ c' ∈ ds, c' = c)
  | [], _, h => by cases h
  | [a], c, h => by
      right
      intro c' hc'
      simp only [List.mem_singleton] at h hc'
      rw [h, hc']
  | a :: b :: t, c, h => by
      have hseg : segs (a :: b :: t) = (a, b) :: segs (b :: t) := rfl
      have lift : (∃ s ∈ segs (b :: t), s.1 ≠ s.2 ∧ (c = s.1 ∨ c = s.2)) →
          ∃ s ∈ segs (a :: b :: t), s.1 ≠ s.2 ∧ (c = s.1 ∨ c = s.2) := by
        rintro ⟨s, hs, h1, h2⟩
        exact ⟨s, by rw [hseg]; exact List.mem_cons_of_mem _ hs, h1, h2⟩
      by_cases hab : a = b
      · subst hab
        have hc : c ∈ a :: t := by
          rcases List.mem_cons.mp h with rfl | h
          · exact List.mem_cons_self
          · exact h
        rcases coord_proper_end_or (a :: t) c hc with g | g
        · exact Or.inl (lift g)
        · right
          intro c' hc'
          rcases List.mem_cons.mp hc' with rfl | hc'
          · exact g _ List.mem_cons_self
          · exact g _ hc'
      · left
        rcases List.mem_cons.mp h with rfl | h
        · exact ⟨(c, b), by rw [hseg]; exact List.mem_cons_self, hab, Or.inl rfl⟩
        · rcases coord_proper_end_or (b :: t) c h with g | g
          · exact lift g
          · have hb : b = c := g b List.mem_cons_self
            exact ⟨(a, b), by rw [hseg]; exact List.mem_cons_self, hab, Or.inr hb.symm⟩

/-- every coordinate of a list with two distinct coordinates is an end point of a proper segment -/
theorem coord_proper_end {ds : List Pt} (h2 : ∃ c1 ∈ ds, ∃ c2 ∈ ds, c1 ≠ c2) {c : Pt} (hc : c ∈ ds) :
    ∃ s ∈ segs ds, s.1 ≠ s.2 ∧ (c = s.1 ∨ c = s.2) := by
  rcases coord_proper_end_or ds c hc with g | g
  · exact g
  · obtain ⟨c1, h1, c2, h2', hne⟩ := h2
    exact absurd ((g c1 h1).trans (g c2 h2').symm) hne

/-- non-empty operands, the argument with a proper segment: the loop is asked about the proper segments of the argument -/
theorem lsContainsLs_iff {cs ds : List Pt} (hc : cs ≠ []) (hnd : ∃ s ∈ segs ds, s.1 ≠ s.2) :
    lsContainsLs cs ds = true ↔ ∀ s ∈ segs ds, s.1 ≠ s.2 → lsContainsLine cs s.1 s.2 = true := by
  obtain ⟨s0, hs0, hne0⟩ := hnd
  have hd : ds ≠ [] := by
    rintro rfl
    simp [segs] at hs0
  have hce : cs.isEmpty = false := by simpa using hc
  have hde : ds.isEmpty = false := by simpa using hd
  have hp : ((segs ds).filter (fun s => s.1 != s.2)).isEmpty = false := by
    cases hq : ((segs ds).filter (fun s => s.1 != s.2)).isEmpty with
    | false => rfl
    | true =>
      have hnil := List.isEmpty_iff.mp hq
      have : s0 ∈ (segs ds).filter (fun s => s.1 != s.2) := by
        rw [List.mem_filter]
        exact ⟨hs0, by simpa using hne0⟩
      rw [hnil] at this
      cases this
  unfold lsContainsLs
  simp only [hce, hde, Bool.or_self, Bool.false_eq_true, if_false, hp, Bool.not_false, if_true, List.all_eq_true,
    List.mem_filter, bne_iff_ne, ne_eq, and_imp]

/-- **`LineString: Contains<LineString>` is the mask `T*****FF*` on the specification** (valid operands), given the
completeness of the truncation loop on the proper segments of the argument -/
theorem containsM_lineString_lineString_of_loop (cs ds : List Pt)
    (ha : inDomain (.lineString cs) = true) (hb : inDomain (.lineString ds) = true)
    (hloop : ∀ s ∈ segs ds, s.1 ≠ s.2 →
      (∀ x, Geo.Proofs.Kernel.SegMem x s.1 s.2 → ∃ t ∈ segs cs, Geo.Proofs.Kernel.SegMem x t.1 t.2) →
      lsContainsLine cs s.1 s.2 = true) :
    containsM (.lineString cs) (.lineString ds) = Gen.isContains (relateSpec (.lineString cs) (.lineString ds)) := by
  have e : containsM (.lineString cs) (.lineString ds) = lsContainsLs cs ds := rfl
  have hs : Gen.isContains (relateSpec (.lineString cs) (.lineString ds)) = true ↔
      (∃ x, locate (.lineString cs) x = .inside ∧ locate (.lineString ds) x = .inside) ∧
      (∀ x, locate (.lineString ds) x ≠ .outside → locate (.lineString cs) x ≠ .outside) :=
    isContains_iff_thin_right (pa := parts (.lineString cs)) (pb := parts (.lineString ds))
      (closedRings_of_noAreas rfl) rfl
  rw [e, Bool.eq_iff_iff, hs]
  have hvc : cs.isEmpty = true ∨ lineStringSimple cs = true := by simpa [inDomain, validGeom] using ha
  have hvd : ds.isEmpty = true ∨ lineStringSimple ds = true := by simpa [inDomain, validGeom] using hb
  rcases hvc with hce | hcsimple
  · have : cs = [] := List.isEmpty_iff.mp hce
    subst this
    have hm : lsContainsLs [] ds = false := by simp [lsContainsLs]
    rw [hm]
    simp only [Bool.false_eq_true, false_iff, not_and]
    rintro ⟨x, hx, _⟩
    rw [locate_lineString_nil] at hx
    cases hx
  rcases hvd with hde | hdsimple
  · have : ds = [] := List.isEmpty_iff.mp hde
    subst this
    have hm : lsContainsLs cs [] = false := by simp [lsContainsLs]
    rw [hm]
    simp only [Bool.false_eq_true, false_iff, not_and]
    rintro ⟨x, _, hx⟩
    rw [locate_lineString_nil] at hx
    cases hx
  have hc2 := lineStringSimple_two hcsimple
  have hd2 := lineStringSimple_two hdsimple
  have hcne : cs ≠ [] := by
    obtain ⟨c1, h1, _⟩ := hc2
    rintro rfl
    cases h1
  have hnd := exists_nd_seg ds hd2
  rw [lsContainsLs_iff hcne hnd]
  simp only [located_lineString]
  constructor
  · intro hall
    have hsub : ∀ x, (∃ s ∈ segs ds, SegMem x s.1 s.2) → ∃ t ∈ segs cs, SegMem x t.1 t.2 := by
      rintro x ⟨s, hs', hx⟩
      by_cases hne : s.1 = s.2
      · -- a zero-length segment: its point is an end point of a proper segment of `ds`
        rw [← hne, SegMem_degenerate] at hx
        have hm := (mem_of_mem_segs hs').1
        obtain ⟨s', hs'', hne', hend⟩ := coord_proper_end hd2 hm
        have hon := lsContainsLine_sound cs s'.1 s'.2 hne' (hall s' hs'' hne')
        rw [hx]
        rcases hend with h | h
        · rw [h]; exact hon _ (SegMem_left _ _)
        · rw [h]; exact hon _ (SegMem_right _ _)
      · exact lsContainsLine_sound cs s.1 s.2 hne (hall s hs' hne) x hx
    refine ⟨?_, hsub⟩
    obtain ⟨s, hs', hne⟩ := hnd
    obtain ⟨t, t0, t1, hL, hf, hl⟩ :=
      exists_inside_on_seg (cs := ds) hne (cs.head?.toList ++ cs.getLast?.toList)
    have hon : ∃ s' ∈ segs ds, SegMem (lerp s.1 s.2 t) s'.1 s'.2 :=
      ⟨s, hs', lerp_segMem _ _ (le_of_lt t0) (le_of_lt t1)⟩
    refine ⟨lerp s.1 s.2 t, inside_lineString (hsub _ hon) ?_ ?_, inside_lineString hon hf hl⟩
    · intro h; exact hL (by simp [h])
    · intro h; exact hL (by simp [h])
  · rintro ⟨_, hsub⟩ s hs' hne
    exact hloop s hs' hne (fun x hx => hsub x ⟨s, hs', hx⟩)

/-! ### non-vacuity: a line string with a repeated coordinate, traversed backwards, on a bent line string -/

example : containsM (.lineString [⟨0, 0⟩, ⟨2, 0⟩, ⟨4, 0⟩, ⟨4, 4⟩]) (.lineString [⟨3, 0⟩, ⟨1, 0⟩, ⟨1, 0⟩]) =
    Gen.isContains (relateSpec (.lineString [⟨0, 0⟩, ⟨2, 0⟩, ⟨4, 0⟩, ⟨4, 4⟩]) (.lineString [⟨3, 0⟩, ⟨1, 0⟩, ⟨1, 0⟩])) := by
  refine containsM_lineString_lineString_of_loop _ _ (by decide +kernel) (by decide +kernel) ?_
  intro s hs hne _
  simp only [segs, List.mem_cons, List.not_mem_nil, or_false] at hs
  rcases hs with rfl | rfl
  · decide +kernel
  · exact absurd rfl hne

end Geo.Proofs.C02Z
