/-
  MONO3 (C10): chain-index ownership along the whole run, and what is left of the hypothesis of
  `monotone_pieces_wellFormed_partial`.
-/
import GeoProofs.Lemmas.MONO3Own

namespace Geo.Proofs.MONO3
open Geo Geo.Mono Geo.MonoBuild Geo.Proofs.C10 Geo.Proofs.MONO Geo.Proofs.MONO2

theorem initGo_lefts : ∀ (ls : List LoP) (st : St), (∀ l ∈ ls, LineOk l) →
    (∀ (j : Nat) (s : Seg), st.segs[j]? = some s → (⟨s.line.left, .lineLeft, j⟩ : Ev) ∈ st.events) →
    ∀ (j : Nat) (s : Seg), (initGo ls st).segs[j]? = some s →
      (⟨s.line.left, .lineLeft, j⟩ : Ev) ∈ (initGo ls st).events
  | [], st, _, h => by simp only [initGo]; exact h
  | l :: ls, st, hl, h => by
    simp only [initGo]
    refine initGo_lefts ls _ (fun x hx => hl x (List.mem_cons_of_mem _ hx)) ?_
    intro j s hj
    simp only at hj ⊢
    have hp := heapExtend2_perm st.events
      ⟨l.left, if l.isLine = true then EvTy.lineLeft else EvTy.pointLeft, st.segs.length⟩
      ⟨l.right, if l.isLine = true then EvTy.lineRight else EvTy.pointRight, st.segs.length⟩
    refine hp.mem_iff.2 ?_
    by_cases hjl : j < st.segs.length
    · rw [List.getElem?_append_left hjl] at hj
      exact List.mem_cons_of_mem _ (List.mem_cons_of_mem _ (h j s hj))
    · have hlen := (List.getElem?_eq_some_iff.1 hj).1
      simp only [List.length_append, List.length_singleton] at hlen
      have e : j = st.segs.length := by omega
      subst e
      rw [List.getElem?_append_right (Nat.le_refl _)] at hj
      simp only [Nat.sub_self, List.getElem?_cons_zero, Option.some.injEq] at hj
      subst hj
      obtain ⟨a, b, e, _⟩ := hl l (List.mem_cons_self ..)
      subst e
      simp [LoP.isLine, LoP.left]

theorem initState_runInv (ps : List Poly) : RunInv (initState ps) := by
  have hl := initGo_lefts (inputLines ps) ⟨[], [], [], [], [], [], []⟩ (inputLines_ok ps)
    (fun j s hj => by simp at hj)
  refine ⟨initState_sinv ps, initState_einv ps, fun j s hj => Or.inl (hl j s hj), ⟨?_, ?_, ?_⟩⟩
  · intro j s hb; exact absurd (hl j s hb.1) hb.2.1
  · intro j s hb; exact absurd (hl j s hb.1) hb.2.1
  · intro i s j t hb; exact absurd (hl i s hb.1) hb.2.1

/-- [T] in every state that `next_point` returns during a run the ownership facts `MidFacts` hold -/
theorem midStates_facts (hf : Nat) : ∀ (fuel : Nat) (st : St), RunInv st →
    ∀ r ∈ midStates hf fuel st, MidFacts r.1 r.2 ∧
      ∃ st0 : St, SInv st0 ∧ nextPoint hf { st0 with incoming := [], outgoing := [] } = some (r.2, some r.1)
  | 0, st, _, r, hr => by simp [midStates] at hr
  | fuel + 1, st, hi, r, hr => by
    unfold midStates at hr
    rcases List.mem_append.1 hr with hr | hr
    · split at hr
      · rename_i st1 pt e1
        simp only [List.mem_singleton] at hr
        subst hr
        exact ⟨nextPoint_mid hi e1, st, hi.s, e1⟩
      · cases hr
    · split at hr
      · rename_i st1 e1
        exact midStates_facts hf fuel st1 (processNextPt_own hi e1) r hr
      · cases hr

/-- the part of the ownership hypothesis that is not proved as an invariant: a live chain held as a component of a
registered `help` (by a segment ending at `pt` or by the segment below `pt`) has its tip strictly before `pt` -/
def tipsB (pt : Pt) (st : St) : Bool :=
  (refsOf st (handSegs pt st)).all (fun r => r.2.1 == 0 ||
    (match (chainAt st r.2.2).bind List.getLast? with
     | some t => lexLt t pt
     | none => true))

/-- `tipsB` holds after every `next_point` of `monotone_subdivision(ps)` -/
def ownedTips (ps : List Poly) : Bool :=
  let st := initState ps
  (midStates (fuelFor st.segs.length) (fuelFor st.segs.length) st).all (fun r => tipsB r.1 r.2)

theorem refsB_of_mid {fuel : Nat} {st0 st1 : St} {pt : Pt} (_hi0 : SInv st0)
    (_e1 : nextPoint fuel { st0 with incoming := [], outgoing := [] } = some (st1, some pt))
    (mf : MidFacts pt st1) (ht : tipsB pt st1 = true) : refsB pt st1 = true := by
  -- the segments whose payload is read are in `InM`
  have hS : ∀ i ∈ handSegs pt st1, ∀ s : Seg, st1.segs[i]? = some s → InM pt st1 i s := by
    intro i hi s hs
    unfold handSegs at hi
    rcases List.mem_append.1 hi with hi | hi
    · obtain ⟨l, hl, e⟩ := mf.io.inc i hi
      obtain ⟨s', hs', hsl⟩ := lineOf_seg hl
      rw [hs] at hs'; cases hs'
      have hlt := lineOk_lt (mf.s.lines s (mem_of_getElem? hs))
      rw [hsl, e] at hlt
      exact ⟨hs, by rw [hsl]; exact hlt, by rw [hsl, e]; exact lexLt_irrefl _⟩
    · have hb : st1.prevActive pt = some i := by
        cases hp : st1.prevActive pt with
        | none => rw [hp] at hi; simp at hi
        | some b => rw [hp] at hi; simp at hi; rw [hi]
      obtain ⟨s', hs', h1, h2⟩ := prevActive_across mf.s hb
      rw [hs] at hs'; cases hs'
      exact ⟨hs, h1, lexLt_asymm h2⟩
  unfold refsB
  unfold tipsB at ht
  simp only [Bool.and_eq_true, List.all_eq_true, decide_eq_true_eq]
  refine ⟨⟨⟨?_, ?_⟩, ?_⟩, ?_⟩
  · cases hp : st1.prevActive pt with
    | none => simp
    | some b =>
      simp only [Option.all_some]
      cases hbi : st1.infoOf b with
      | none => simp
      | some bi =>
        simp only
        cases hk : bi.helperChain with
        | none => simp
        | some k =>
          simp only [decide_eq_true_eq]
          obtain ⟨sb, hsb, hsbi⟩ := infoOf_seg hbi
          have hm := hS b (by unfold handSegs; rw [hp]; simp) sb hsb
          exact mf.own.hc b sb hm k (by rw [hsbi]; exact hk)
  · intro r hr
    obtain ⟨i, a, k⟩ := r
    obtain ⟨hi, s, hs, hra⟩ := mem_refsOf.1 hr
    exact mf.own.lt i s (hS i hi s hs) a k hra
  · simp only [List.all_eq_true] at ht
    intro r hr
    exact ht r hr
  · intro r hr r' hr'
    obtain ⟨i, a, k⟩ := r
    obtain ⟨j, b, k'⟩ := r'
    obtain ⟨hi, s, hs, hra⟩ := mem_refsOf.1 hr
    obtain ⟨hj, t, ht', hrb⟩ := mem_refsOf.1 hr'
    simp only [Bool.or_eq_true, Bool.not_eq_eq_eq_not, Bool.not_true, beq_eq_false_iff_ne, ne_eq,
      Bool.and_eq_true, beq_iff_eq]
    by_cases e : k = k'
    · right
      subst e
      exact mf.own.inj i s j t (hS i hi s hs) (hS j hj t ht') a b k hra hrb
    · left; exact e

/-- [T] on every input, `ownedTips` is all that `ownedSteps` asks for: the rest of the ownership check — the chain indices
read by `process_next_pt` are in range and pairwise different, every ending segment is reported once, the segment below
is neither ending nor starting — is an invariant of the run -/
theorem ownedSteps_of_ownedTips (ps : List Poly) (h : ownedTips ps = true) : ownedSteps ps = true := by
  apply ownedSteps_of_ownedRefs
  unfold ownedTips at h
  unfold ownedRefs
  simp only [List.all_eq_true] at h ⊢
  intro r hr
  obtain ⟨mf, st0, hi0, e1⟩ := midStates_facts _ _ _ (initState_runInv ps) r hr
  exact refsB_of_mid hi0 e1 mf (h r hr)

/-- the segments whose payload `process_next_pt` reads started before the point and do not end before it -/
theorem hand_inM {pt : Pt} {st1 : St} (mf : MidFacts pt st1) :
    ∀ i ∈ handSegs pt st1, ∀ s : Seg, st1.segs[i]? = some s → InM pt st1 i s := by
  intro i hi s hs
  unfold handSegs at hi
  rcases List.mem_append.1 hi with hi | hi
  · obtain ⟨l, hl, e⟩ := mf.io.inc i hi
    obtain ⟨s', hs', hsl⟩ := lineOf_seg hl
    rw [hs] at hs'; cases hs'
    have hlt := lineOk_lt (mf.s.lines s (mem_of_getElem? hs))
    rw [hsl, e] at hlt
    exact ⟨hs, by rw [hsl]; exact hlt, by rw [hsl, e]; exact lexLt_irrefl _⟩
  · have hb : st1.prevActive pt = some i := by
      cases hp : st1.prevActive pt with
      | none => rw [hp] at hi; simp at hi
      | some b => rw [hp] at hi; simp at hi; rw [hi]
    obtain ⟨s', hs', h1, h2⟩ := prevActive_across mf.s hb
    rw [hs] at hs'; cases hs'
    exact ⟨hs, h1, lexLt_asymm h2⟩

/-- [T] chain-index ownership on every run: in every state that `next_point` returns, for the segments whose payload
`process_next_pt` reads (ending at the point, or just below it), the chain indices held as `chain_idx` or as a component of
`help` are in range and no index is held twice; the `helper_chain` of the segment below is in range -/
theorem midStates_owned (ps : List Poly) :
    ∀ r ∈ midStates (fuelFor (initState ps).segs.length) (fuelFor (initState ps).segs.length) (initState ps),
      (∀ i ∈ handSegs r.1 r.2, ∀ (s : Seg) (a k : Nat), r.2.segs[i]? = some s → refOf s.info a = some k →
        k < r.2.chains.length) ∧
      (∀ i ∈ handSegs r.1 r.2, ∀ j ∈ handSegs r.1 r.2, ∀ (s t : Seg) (a b k : Nat), r.2.segs[i]? = some s →
        r.2.segs[j]? = some t → refOf s.info a = some k → refOf t.info b = some k → i = j ∧ a = b) ∧
      (∀ (b : Nat) (sb : Seg) (k : Nat), r.2.prevActive r.1 = some b → r.2.segs[b]? = some sb →
        sb.info.helperChain = some k → k < r.2.chains.length) := by
  intro r hr
  obtain ⟨mf, _, _, _⟩ := midStates_facts _ _ _ (initState_runInv ps) r hr
  have hS := hand_inM mf
  refine ⟨?_, ?_, ?_⟩
  · intro i hi s a k hs hra
    exact mf.own.lt i s (hS i hi s hs) a k hra
  · intro i hi j hj s t a b k hs ht hra hrb
    exact mf.own.inj i s j t (hS i hi s hs) (hS j hj t ht) a b k hra hrb
  · intro b sb k hb hsb hk
    exact mf.own.hc b sb (hS b (by unfold handSegs; rw [hb]; simp) sb hsb) k hk

end Geo.Proofs.MONO3
