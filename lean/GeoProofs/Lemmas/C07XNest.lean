/-
  GeoProofs.Lemmas.C07XNest — two closed rings without a common point: the Jordan-type facts the
  Polygon × Polygon distance needs, from `windingE_const` and a "first hit" argument along a segment.

  * `first_hit`: among the points of a segment `[x, F]` that lie on a finite set of segments there is
    one nearest to `x`; no other point of `[x, P]` lies on the set.
  * `far_point`: a point above two rings (winding number 0 about both, on neither).
  * `nested_rings`: if one point of `e` is strictly inside `h` (winding number ≠ 0), then every point of
    `h` has winding number 0 about `e`, and the closed region of `e` (on `e`, or winding number ≠ 0 about
    `e`) is strictly inside `h`.
  * `exterior_rings`: if each ring is outside the other, no point is strictly inside both.
-/
import GeoProofs.Lemmas.C07XSets
import GeoProofs.Props.C11

namespace Geo.Proofs.C07
open Geo Geo.Proofs.Kernel

/-! ### the nearest common point of a segment with another segment, with a set of segments -/

theorem seg_nearest {x F c d : Pt} (h : ∃ z, SegMem z x F ∧ SegMem z c d) :
    ∃ c0, SegMem c0 x F ∧ SegMem c0 c d ∧ ∀ z, SegMem z x F → SegMem z c d → dist2 x c0 ≤ dist2 x z := by
  by_cases hxF : x = F
  · subst hxF
    obtain ⟨z0, h1, h2⟩ := h
    refine ⟨z0, h1, h2, fun z hz _ => ?_⟩
    rw [(SegMem_degenerate z x).mp hz, (SegMem_degenerate z0 x).mp h1]
  cases hli : lineIntersection x F c d with
  | none => exact absurd h ((Geo.Proofs.C11.li_none_iff x F c d).mp hli)
  | some r =>
    cases r with
    | single q f =>
      have hq := (Geo.Proofs.C11.li_single_exact x F c d q f hli q).mpr rfl
      refine ⟨q, hq.1, hq.2, fun z hz1 hz2 => ?_⟩
      rw [(Geo.Proofs.C11.li_single_exact x F c d q f hli z).mp ⟨hz1, hz2⟩]
    | collinear u v =>
      have hex := Geo.Proofs.C11.li_collinear_exact x F c d u v hli
      have hu := (hex u).mpr (SegMem_left u v)
      have hv := (hex v).mpr (SegMem_right u v)
      rcases le_total (dist2 x u) (dist2 x v) with hle | hle
      · refine ⟨u, hu.1, hu.2, fun z hz1 hz2 => ?_⟩
        exact (Geo.Proofs.C02Q.dist2_between hxF hu.1 hv.1 ((hex z).mp ⟨hz1, hz2⟩) hle).1
      · refine ⟨v, hv.1, hv.2, fun z hz1 hz2 => ?_⟩
        exact (Geo.Proofs.C02Q.dist2_between hxF hv.1 hu.1 (SegMem_symm ((hex z).mp ⟨hz1, hz2⟩)) hle).1

theorem nearest_hit (x F : Pt) : ∀ (T : List (Pt × Pt)),
    (∃ t ∈ T, ∃ z, SegMem z x F ∧ SegMem z t.1 t.2) →
    ∃ P, SegMem P x F ∧ (∃ t ∈ T, SegMem P t.1 t.2) ∧
      ∀ z, SegMem z x F → (∃ t ∈ T, SegMem z t.1 t.2) → dist2 x P ≤ dist2 x z
  | [], h => by obtain ⟨t, ht, _⟩ := h; cases ht
  | t :: T', h => by
    by_cases h1 : ∃ z, SegMem z x F ∧ SegMem z t.1 t.2
    · obtain ⟨c0, hc1, hc2, hc3⟩ := seg_nearest h1
      by_cases h2 : ∃ t' ∈ T', ∃ z, SegMem z x F ∧ SegMem z t'.1 t'.2
      · obtain ⟨P, hP1, ⟨t', ht', hP2⟩, hP3⟩ := nearest_hit x F T' h2
        rcases le_total (dist2 x c0) (dist2 x P) with hle | hle
        · refine ⟨c0, hc1, ⟨t, List.mem_cons_self, hc2⟩, ?_⟩
          rintro z hz ⟨s, hs, hzs⟩
          rcases List.mem_cons.mp hs with rfl | hs
          · exact hc3 z hz hzs
          · exact le_trans hle (hP3 z hz ⟨s, hs, hzs⟩)
        · refine ⟨P, hP1, ⟨t', List.mem_cons_of_mem _ ht', hP2⟩, ?_⟩
          rintro z hz ⟨s, hs, hzs⟩
          rcases List.mem_cons.mp hs with rfl | hs
          · exact le_trans hle (hc3 z hz hzs)
          · exact hP3 z hz ⟨s, hs, hzs⟩
      · refine ⟨c0, hc1, ⟨t, List.mem_cons_self, hc2⟩, ?_⟩
        rintro z hz ⟨s, hs, hzs⟩
        rcases List.mem_cons.mp hs with rfl | hs
        · exact hc3 z hz hzs
        · exact absurd ⟨s, hs, z, hz, hzs⟩ h2
    · have h2 : ∃ t' ∈ T', ∃ z, SegMem z x F ∧ SegMem z t'.1 t'.2 := by
        obtain ⟨s, hs, hz⟩ := h
        rcases List.mem_cons.mp hs with rfl | hs
        · exact absurd hz h1
        · exact ⟨s, hs, hz⟩
      obtain ⟨P, hP1, ⟨t', ht', hP2⟩, hP3⟩ := nearest_hit x F T' h2
      refine ⟨P, hP1, ⟨t', List.mem_cons_of_mem _ ht', hP2⟩, ?_⟩
      rintro z hz ⟨s, hs, hzs⟩
      rcases List.mem_cons.mp hs with rfl | hs
      · exact absurd ⟨z, hz, hzs⟩ h1
      · exact hP3 z hz ⟨s, hs, hzs⟩

/-- **first hit**: walking from `x` towards `F`, the first point `P` that lies on one of the segments
of `T`; no other point of `[x, P]` lies on `T` -/
theorem first_hit {T : List (Pt × Pt)} {x F : Pt} (h : ∃ t ∈ T, ∃ z, SegMem z x F ∧ SegMem z t.1 t.2) :
    ∃ P, SegMem P x F ∧ (∃ t ∈ T, SegMem P t.1 t.2) ∧
      ∀ z, SegMem z x P → (∃ t ∈ T, SegMem z t.1 t.2) → z = P := by
  obtain ⟨P, hP1, hP2, hP3⟩ := nearest_hit x F T h
  refine ⟨P, hP1, hP2, fun z hz hzT => ?_⟩
  have hzF : SegMem z x F := SegMem_convex (SegMem_left x F) hP1 hz
  by_cases hxF : x = F
  · subst hxF
    rw [(SegMem_degenerate z x).mp hzF, (SegMem_degenerate P x).mp hP1]
  · have h1 := hP3 z hzF hzT
    have h2 := dist2_le_of_SegMem hz
    exact Geo.Proofs.Spec.dist2_inj_on_seg hxF hzF hP1 (le_antisymm h2 h1)

/-! ### a point far above -/

theorem exists_above (l : List Pt) (y0 : Rat) : ∃ Y : Rat, y0 < Y ∧ ∀ v ∈ l, v.y < Y := by
  induction l with
  | nil => exact ⟨y0 + 1, by linarith, fun v hv => by cases hv⟩
  | cons a t ih =>
    obtain ⟨Y, h0, hY⟩ := ih
    refine ⟨max Y (a.y + 1), lt_of_lt_of_le h0 (le_max_left _ _), ?_⟩
    intro v hv
    rcases List.mem_cons.mp hv with rfl | hv
    · exact lt_of_lt_of_le (by linarith) (le_max_right _ _)
    · exact lt_of_lt_of_le (hY v hv) (le_max_left _ _)

/-- a point above a ring is not on it -/
theorem not_LsPts_above {r : List Pt} {p : Pt} (h : ∀ v ∈ r, v.y < p.y) : ¬ LsPts r p := by
  rintro ⟨se, hse, hx⟩
  obtain ⟨h1, h2⟩ := segs_mem hse
  obtain ⟨t, t0, t1, _, hy⟩ := hx
  have ha := h _ h1
  have hb' := h _ h2
  nlinarith [mul_nonneg t0 (sub_nonneg.mpr hb'.le), mul_nonneg (sub_nonneg.mpr t1) (sub_nonneg.mpr ha.le),
    mul_nonneg t0 (sub_nonneg.mpr ha.le)]

/-- a point from which both rings are below: winding number `0` about both and on neither -/
theorem far_point (e h : List Pt) : ∃ F : Pt,
    windingE (EPt.ofPt F) e = 0 ∧ windingE (EPt.ofPt F) h = 0 ∧ ¬ LsPts e F ∧ ¬ LsPts h F := by
  obtain ⟨Y, _, hY⟩ := exists_above (e ++ h) 0
  have he : ∀ v ∈ e, v.y < (⟨0, Y⟩ : Pt).y := fun v hv => hY v (List.mem_append_left _ hv)
  have hh : ∀ v ∈ h, v.y < (⟨0, Y⟩ : Pt).y := fun v hv => hY v (List.mem_append_right _ hv)
  exact ⟨⟨0, Y⟩, winding_zero_above he, winding_zero_above hh, not_LsPts_above he, not_LsPts_above hh⟩

/-! ### two closed rings without a common point -/

/-- the first point of `e ∪ h` on the way from `x` to `F`, when `[x, F]` meets `e ∪ h`: it is on exactly
one of the rings and the way up to it meets the other ring nowhere -/
theorem first_of_two {e h : List Pt} (hno : NoMeet e h) {x F : Pt}
    (hmeet : ∃ z, SegMem z x F ∧ (LsPts e z ∨ LsPts h z)) :
    ∃ P, SegMem P x F ∧
      ((LsPts e P ∧ ∀ s ∈ segs h, ¬ ∃ z, SegMem z s.1 s.2 ∧ SegMem z x P) ∨
       (LsPts h P ∧ ∀ s ∈ segs e, ¬ ∃ z, SegMem z s.1 s.2 ∧ SegMem z x P)) := by
  have hT : ∃ t ∈ segs e ++ segs h, ∃ z, SegMem z x F ∧ SegMem z t.1 t.2 := by
    obtain ⟨z, hz, hon⟩ := hmeet
    rcases hon with ⟨t, ht, hzt⟩ | ⟨t, ht, hzt⟩
    · exact ⟨t, List.mem_append_left _ ht, z, hz, hzt⟩
    · exact ⟨t, List.mem_append_right _ ht, z, hz, hzt⟩
  obtain ⟨P, hP1, ⟨t, ht, hPt⟩, hP3⟩ := first_hit hT
  refine ⟨P, hP1, ?_⟩
  rcases List.mem_append.mp ht with hte | hth
  · left
    refine ⟨⟨t, hte, hPt⟩, ?_⟩
    rintro s hs ⟨z, hz1, hz2⟩
    have := hP3 z hz2 ⟨s, List.mem_append_right _ hs, hz1⟩
    subst this
    exact hno t hte s hs ⟨z, hPt, hz1⟩
  · right
    refine ⟨⟨t, hth, hPt⟩, ?_⟩
    rintro s hs ⟨z, hz1, hz2⟩
    have := hP3 z hz2 ⟨s, List.mem_append_left _ hs, hz1⟩
    subst this
    exact hno s hs t hth ⟨z, hz1, hPt⟩

/-- **nested rings**: `e` and `h` closed, without a common point, one point `e0` of `e` strictly
inside `h`. Then `h` is outside `e`, and the closed region bounded by `e` is strictly inside `h`. -/
theorem nested_rings {e h : List Pt} (hce : e.head? = e.getLast?) (hch : h.head? = h.getLast?)
    (hno : NoMeet e h) {e0 : Pt} (he0 : LsPts e e0) (hin : windingE (EPt.ofPt e0) h ≠ 0) :
    (∀ p, LsPts h p → windingE (EPt.ofPt p) e = 0) ∧
    (∀ x, (LsPts e x ∨ windingE (EPt.ofPt x) e ≠ 0) → windingE (EPt.ofPt x) h ≠ 0) := by
  have hon_e : ∀ p, LsPts e p → windingE (EPt.ofPt p) h ≠ 0 := by
    intro p hp
    rw [ls_winding_const hch hno p e0 hp he0]; exact hin
  -- `h` is outside `e`: come down from a far point to `e0`
  have hout : ∀ p, LsPts h p → windingE (EPt.ofPt p) e = 0 := by
    obtain ⟨F, hFe, hFh, _, _⟩ := far_point e h
    obtain ⟨P, _, hP⟩ := first_of_two hno (x := F) (F := e0) ⟨e0, SegMem_right F e0, Or.inl he0⟩
    rcases hP with ⟨hPe, hclear⟩ | ⟨hPh, hclear⟩
    · exfalso
      apply hon_e P hPe
      rw [← Geo.Proofs.C02Q.windingE_const h hch F P hclear]; exact hFh
    · intro p hp
      rw [ls_winding_const hce hno.symm p P hp hPh, ← Geo.Proofs.C02Q.windingE_const e hce F P hclear]
      exact hFe
  refine ⟨hout, ?_⟩
  rintro x (hx | hx)
  · exact hon_e x hx
  · intro hxh
    -- `x` is strictly inside `e`, with winding number `0` about `h`: go from `x` to a far point
    obtain ⟨F, hFe, _, _, _⟩ := far_point e h
    have hmeet : ∃ z, SegMem z x F ∧ (LsPts e z ∨ LsPts h z) := by
      obtain ⟨z, hz1, hz2⟩ := ring_cross hce (x := x) (y := F) (by rw [hFe]; exact hx)
      exact ⟨z, hz1, Or.inl hz2⟩
    obtain ⟨P, _, hP⟩ := first_of_two hno hmeet
    rcases hP with ⟨hPe, hclear⟩ | ⟨hPh, hclear⟩
    · apply hon_e P hPe
      rw [← Geo.Proofs.C02Q.windingE_const h hch x P hclear]; exact hxh
    · apply hx
      rw [Geo.Proofs.C02Q.windingE_const e hce x P hclear]
      exact hout P hPh

/-- **mutually exterior rings**: `e` and `h` closed, without a common point, each outside the other.
Then no point is strictly inside both. -/
theorem exterior_rings {e h : List Pt} (hce : e.head? = e.getLast?) (hch : h.head? = h.getLast?)
    (hno : NoMeet e h) (he : ∀ p, LsPts e p → windingE (EPt.ofPt p) h = 0)
    (hh : ∀ p, LsPts h p → windingE (EPt.ofPt p) e = 0) (x : Pt) :
    ¬ (windingE (EPt.ofPt x) e ≠ 0 ∧ windingE (EPt.ofPt x) h ≠ 0) := by
  rintro ⟨hxe, hxh⟩
  obtain ⟨F, hFe, _, _, _⟩ := far_point e h
  have hmeet : ∃ z, SegMem z x F ∧ (LsPts e z ∨ LsPts h z) := by
    obtain ⟨z, hz1, hz2⟩ := ring_cross hce (x := x) (y := F) (by rw [hFe]; exact hxe)
    exact ⟨z, hz1, Or.inl hz2⟩
  obtain ⟨P, _, hP⟩ := first_of_two hno hmeet
  rcases hP with ⟨hPe, hclear⟩ | ⟨hPh, hclear⟩
  · apply hxh
    rw [Geo.Proofs.C02Q.windingE_const h hch x P hclear]
    exact he P hPe
  · apply hxe
    rw [Geo.Proofs.C02Q.windingE_const e hce x P hclear]
    exact hh P hPh

end Geo.Proofs.C07
