/-
  GeoProofs.Lemmas.C07PRings — the areal kernels once the `intersects` short-circuit has not fired:
  what they return is the true minimum distance (over all pairs of points) to the ring(s) they measure:
  `Line × Polygon` → all rings; `LineString × Polygon`, `Polygon × Polygon` → the exterior ring(s) in
  the exterior branch, the hole rings in a containment branch.
  (That the distance to a disjoint polygon *is* the distance to these rings is spec adequacy S2.)
-/
import GeoProofs.Lemmas.C07PMin

namespace Geo.Proofs.C07
open Geo Geo.Proofs.Kernel

/-- the points of a list of rings -/
def RingsPts (rs : List (List Pt)) (y : Pt) : Prop := ∃ r ∈ rs, LsPts r y

/-- no segment of `cs` meets a segment of `ds` -/
def NoMeet (cs ds : List Pt) : Prop :=
  ∀ s ∈ segs cs, ∀ t ∈ segs ds, ¬ ∃ p, SegMem p s.1 s.2 ∧ SegMem p t.1 t.2

theorem NoMeet.symm {cs ds : List Pt} (h : NoMeet cs ds) : NoMeet ds cs :=
  fun t ht s hs ⟨p, h1, h2⟩ => h s hs t ht ⟨p, h2, h1⟩

/-- disjoint bounding boxes: no common point at all -/
theorem NoMeet_of_bboxDisjoint {cs ds : List Pt}
    (h : bboxDisjoint (getBoundingRect cs) (getBoundingRect ds) = true) : NoMeet cs ds := by
  intro s hs t ht ⟨p, h1, h2⟩
  have := not_bboxDisjoint_of_common (x := p) (ls_box hs h1) (ls_box ht h2)
  rw [h] at this; cases this

/-- `LineString: Intersects<Line>` false: the line meets no segment -/
theorem noMeet_of_lsLine {ds : List Pt} {a b : Pt} (h : lsLineIntersects ds a b = false) :
    ∀ t ∈ segs ds, ¬ ∃ p, SegMem p a b ∧ SegMem p t.1 t.2 := by
  intro t ht ⟨p, h1, h2⟩
  have := (lsLineIntersects_iff ds a b).mpr ⟨t, ht, (lineLine_iff _ _ _ _).mpr ⟨p, h2, h1⟩⟩
  rw [h] at this; cases this

/-! ### Line × Polygon -/

/-- **Line × Polygon**, not intersecting: the minimum over all pairs of points of the line and of the
rings of the polygon -/
theorem linePoly2_IsMinDist {a b : Pt} {poly : Poly} (hi : polyLineIntersects poly a b = false)
    (hr : ∀ r ∈ poly.ext :: poly.ints, segs r ≠ []) {m : Rat} (hm : linePoly2 a b poly = .fin m) :
    IsMinDist (fun x => SegMem x a b) (RingsPts (poly.ext :: poly.ints)) m := by
  unfold linePoly2 at hm
  simp only [hi, Bool.false_eq_true, if_false] at hm
  refine foldMin_IsMinDist (B := fun r y => LsPts r y) (fun r hr' => ?_) hm
  obtain ⟨q, hq⟩ := lineLs2_finite a b (hr r hr')
  exact ⟨q, hq, lineLs2_IsMinDist a b r hq⟩

/-! ### the ring folds of the containment branches -/

theorem ringFold_IsMinDist {cs : List Pt} {rs : List (List Pt)} (hc : segs cs ≠ []) (hr : RingsOk rs)
    (hno : ∀ r ∈ rs, NoMeet cs r) {m : Rat} (hm : foldMin (fun r => nnDist2 cs r) rs = .fin m) :
    IsMinDist (LsPts cs) (RingsPts rs) m := by
  refine foldMin_IsMinDist (B := fun r y => LsPts r y) (fun r hr' => ?_) hm
  obtain ⟨q, hq⟩ := nnDist2_finite hc (hr r hr')
  exact ⟨q, hq, nnDist2_IsMinDist hc (hr r hr') (hno r hr') hq⟩

/-! ### LineString × Polygon -/

/-- `LineString: Intersects<Polygon>` false: the line string meets no segment of the exterior ring;
and, unless the bounding boxes of line string and exterior ring are disjoint, of no hole ring either -/
theorem noMeet_of_lsPoly {cs : List Pt} {poly : Poly} (h : lsPolyIntersects cs poly = false) :
    NoMeet cs poly.ext ∧
    (bboxDisjoint (getBoundingRect cs) (getBoundingRect poly.ext) = false → ∀ r ∈ poly.ints, NoMeet cs r) := by
  unfold lsPolyIntersects at h
  by_cases hb : bboxDisjoint (getBoundingRect cs) (getBoundingRect poly.ext) = true
  · exact ⟨NoMeet_of_bboxDisjoint hb, fun hf => by rw [hb] at hf; cases hf⟩
  · simp only [hb, Bool.false_eq_true, if_false] at h
    have hall : ∀ s ∈ segs cs, polyLineIntersects poly s.1 s.2 = false := by
      intro s hs
      by_contra hc
      have ht : polyLineIntersects poly s.1 s.2 = true := by simpa using hc
      have : (segs cs).any (fun x => polyLineIntersects poly x.1 x.2) = true :=
        List.any_eq_true.mpr ⟨s, hs, ht⟩
      rw [h] at this; cases this
    constructor
    · intro s hs t ht
      have h1 := hall s hs
      unfold polyLineIntersects at h1
      simp only [Bool.or_eq_false_iff] at h1
      exact noMeet_of_lsLine h1.1.1.1 t ht
    · intro _ r hr s hs t ht
      have h1 := hall s hs
      unfold polyLineIntersects at h1
      simp only [Bool.or_eq_false_iff] at h1
      have h2 : lsLineIntersects r s.1 s.2 = false := by
        have := h1.1.1.2
        by_contra hc
        have ht' : lsLineIntersects r s.1 s.2 = true := by simpa using hc
        have : poly.ints.any (fun r => lsLineIntersects r s.1 s.2) = true :=
          List.any_eq_true.mpr ⟨r, hr, ht'⟩
        simp_all
      exact noMeet_of_lsLine h2 t ht

/-- **LineString × Polygon**, exterior branch (not intersecting, not inside the exterior ring of a
polygon with holes): the true minimum distance between the line string and the exterior ring -/
theorem lsPoly2_ext_IsMinDist {cs : List Pt} {poly : Poly} (hi : lsPolyIntersects cs poly = false)
    (hc : segs cs ≠ []) (he : segs poly.ext ≠ [])
    (hB : (!poly.ints.isEmpty && ringContainsCoord poly.ext (cs.headD ⟨0, 0⟩)) = false)
    {m : Rat} (hm : lsPoly2 cs poly = .fin m) : IsMinDist (LsPts cs) (LsPts poly.ext) m := by
  unfold lsPoly2 at hm
  rw [hi, segs_ne_nil_not_empty hc, hB] at hm
  simp only [Bool.and_false, Bool.false_eq_true, if_false] at hm
  exact nnDist2_IsMinDist hc he (noMeet_of_lsPoly hi).1 hm

/-- **LineString × Polygon**, containment branch (first vertex inside the exterior ring of a polygon
with holes): the true minimum distance between the line string and the hole rings -/
theorem lsPoly2_holes_IsMinDist {cs : List Pt} {poly : Poly} (hi : lsPolyIntersects cs poly = false)
    (hc : segs cs ≠ []) (hr : RingsOk poly.ints)
    (hbb : bboxDisjoint (getBoundingRect cs) (getBoundingRect poly.ext) = false)
    (hB : (!poly.ints.isEmpty && ringContainsCoord poly.ext (cs.headD ⟨0, 0⟩)) = true)
    {m : Rat} (hm : lsPoly2 cs poly = .fin m) : IsMinDist (LsPts cs) (RingsPts poly.ints) m := by
  unfold lsPoly2 at hm
  rw [hi, segs_ne_nil_not_empty hc, hB] at hm
  simp only [Bool.and_false, Bool.false_eq_true, if_false, if_true] at hm
  exact ringFold_IsMinDist hc hr ((noMeet_of_lsPoly hi).2 hbb) hm

/-! ### Polygon × Polygon -/

/-- `Polygon: Intersects<Polygon>` false: the exterior rings do not meet -/
theorem noMeet_of_polyPoly {a b : Poly} (h : polyPolyIntersects a b = false) : NoMeet a.ext b.ext := by
  unfold polyPolyIntersects at h
  by_cases hb : bboxDisjoint (getBoundingRect a.ext) (getBoundingRect b.ext) = true
  · exact NoMeet_of_bboxDisjoint hb
  · simp only [hb, Bool.false_eq_true, if_false, Bool.or_eq_false_iff] at h
    exact (noMeet_of_lsPoly h.2).1

/-- **Polygon × Polygon**, exterior branch: the true minimum distance between the two exterior rings -/
theorem polyPoly2_ext_IsMinDist {a b : Poly} (hi : polyPolyIntersects a b = false)
    (ha : segs a.ext ≠ []) (hb : segs b.ext ≠ [])
    (hA : (!a.ints.isEmpty && ringContainsCoord a.ext (b.ext.headD ⟨0, 0⟩)) = false)
    (hB : (!b.ints.isEmpty && ringContainsCoord b.ext (a.ext.headD ⟨0, 0⟩)) = false)
    {m : Rat} (hm : polyPoly2 a b = .fin m) : IsMinDist (LsPts a.ext) (LsPts b.ext) m := by
  unfold polyPoly2 at hm
  rw [hi, segs_ne_nil_not_empty ha, segs_ne_nil_not_empty hb, hA, hB] at hm
  simp only [Bool.and_false, Bool.false_eq_true, if_false] at hm
  exact nnDist2_IsMinDist ha hb (noMeet_of_polyPoly hi) hm

end Geo.Proofs.C07
