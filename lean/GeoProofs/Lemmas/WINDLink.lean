/-
  WIND, part 4: linking a point off the ring to the face samples beside an edge.

  `windingE_link`: `P` strictly inside the edge `(a, b)` of a closed ring and on no other edge
  occurrence; `m` a point off the line `a b` such that the segment `m P` meets no other edge of the
  ring. Then the winding number of `m` is the winding number of the face sample beside `P` on the
  side of `m` (`faceL` if `m` is on the left of `a → b`, `faceR` otherwise).

  Proof: the increments of the edges not through `P` change between `m` and `P` by potential
  differences (`ptInc_diff`, `ptInc_horiz`), which telescope along the closed ring to the
  contribution of the one edge `(a, b)`; what remains is a statement about `a`, `b`, `P`, `m` only
  (`link_local`).

  `windingE_cross`: consequently, two points on opposite sides of the edge, each joined to `P` by a
  segment that meets no other edge, have winding numbers that differ by exactly one.
-/
import GeoProofs.Lemmas.WINDJump

set_option linter.unusedSimpArgs false
set_option linter.unusedVariables false

namespace Geo.Proofs.WIND
open Geo Geo.Proofs.Kernel Geo.Proofs.Loc Geo.Proofs.C02Q Geo.Proofs.Spec

/-- the part of the winding number of a face sample beside an edge that depends only on the
direction of the edge (left sample) -/
def lam (a b : Pt) : Int :=
  if a.y < b.y then 1 else if b.y < a.y then 0 else if b.x < a.x then 1 else 0

theorem inR_eq (ym yp y c : Rat) :
    inR ym yp y c = if ym < y then (if y ≤ yp then (if c < 0 then 1 else 0) else 0) else 0 := by
  unfold inR
  by_cases h1 : ym < y <;> by_cases h2 : y ≤ yp <;> by_cases h3 : c < 0 <;> simp [h1, h2, h3]

/-- left and right face samples beside `P`: the direction-dependent part -/
theorem face_parts {a b P : Pt} (hab : a ≠ b) (hm : SegMem P a b) (hma : P ≠ a) (hmb : P ≠ b) :
    (if b.x - a.x < 0 then psi P a - psi P b else 0) + specInc (faceL a b P) a b = lam a b ∧
    (if -(b.x - a.x) < 0 then psi P a - psi P b else 0) + specInc (faceR a b P) a b = lam a b - 1 := by
  have key := edge_jump hab hm hma hmb
  suffices h : (if b.x - a.x < 0 then psi P a - psi P b else 0) + specInc (faceL a b P) a b = lam a b by
    exact ⟨h, by omega⟩
  obtain ⟨t, t0, t1, hx, hy⟩ := strict_param hm hma hmb
  have hcl := eCrossSign_faceL hab hm
  have fl : faceL a b P = ⟨P.x, -(b.y - a.y), P.y, b.x - a.x⟩ := rfl
  unfold specInc lam
  rw [hcl]
  simp only [fl]
  rcases lt_trichotomy (b.y - a.y) 0 with hdy | hdy | hdy
  · have h1 : b.y < P.y := by rw [hy]; nlinarith
    have h2 : P.y < a.y := by rw [hy]; nlinarith
    have pa : psi P a = 0 := by unfold psi; rw [if_neg]; intro h; linarith [h.1]
    have pb : psi P b = 0 := by unfold psi; rw [if_neg]; intro h; linarith [h.1]
    have n1 : ¬ a.y < P.y := by linarith
    have n2 : ¬ a.y = P.y := by intro h; linarith
    have n3 : ¬ a.y < b.y := by linarith
    have n4 : b.y < a.y := by linarith
    simp [eLe, eLt, pa, pb, h1, n1, n2, n3, n4]
  · have hay : a.y = P.y := by rw [hy, hdy]; ring
    have hby : b.y = P.y := by linarith
    have hdx : b.x - a.x ≠ 0 := by
      intro h
      apply hab
      apply Pt.ext' <;> linarith
    have n5 : ¬ a.y < b.y := by linarith
    have n6 : ¬ b.y < a.y := by linarith
    rcases lt_or_gt_of_ne hdx with hneg | hpos
    · have hxa : P.x < a.x := by rw [hx]; nlinarith
      have hxb : b.x < P.x := by rw [hx]; nlinarith
      have pa : psi P a = 1 := by unfold psi; rw [if_pos ⟨hay, hxa⟩]
      have pb : psi P b = 0 := by unfold psi; rw [if_neg]; intro h; linarith [h.2]
      have n1 : ¬ 0 ≤ b.x - a.x := by linarith
      have q1 : b.x < a.x := by linarith
      have q2 : ¬ a.x < b.x := by linarith
      have q3 : b.x ≤ a.x := by linarith
      have q4 : ¬ a.x ≤ b.x := by linarith
      rw [if_neg n5, if_neg n6, if_pos q1, if_pos hneg]
      simp [eLe, eLt, pa, pb, hay, hby, hneg, n1, q1, q2, q3, q4]
    · have hxa : a.x < P.x := by rw [hx]; nlinarith
      have hxb : P.x < b.x := by rw [hx]; nlinarith
      have n1 : ¬ b.x - a.x < 0 := by linarith
      have n4 : 0 ≤ b.x - a.x := by linarith
      have q1 : a.x < b.x := by linarith
      have q2 : ¬ b.x ≤ a.x := by linarith
      have q3 : ¬ b.x < a.x := by linarith
      have q4 : a.x ≤ b.x := by linarith
      rw [if_neg n5, if_neg n6, if_neg q3, if_neg n1]
      simp [eLe, eLt, hay, hby, n1, n4, q1, q2, q3, q4]
  · have h1 : a.y < P.y := by rw [hy]; nlinarith
    have h2 : P.y < b.y := by rw [hy]; nlinarith
    have pa : psi P a = 0 := by unfold psi; rw [if_neg]; intro h; linarith [h.1]
    have pb : psi P b = 0 := by unfold psi; rw [if_neg]; intro h; linarith [h.1]
    have n3 : a.y < b.y := by linarith
    simp [eLe, eLt, pa, pb, h1, h2, n3]

/-- the winding numbers of the face samples beside a point strictly inside exactly one edge -/
theorem windingE_faces (ring : List Pt) (hc : ring.head? = ring.getLast?) {a b P : Pt}
    (hone : (segs ring).filter (onE P) = [(a, b)]) (hab : a ≠ b)
    (hm : SegMem P a b) (hma : P ≠ a) (hmb : P ≠ b) :
    windingE (faceL a b P) ring =
      (((segs ring).filter (fun se => !onE P se)).map (fun se => ptInc P se.1 se.2)).sum + lam a b ∧
    windingE (faceR a b P) ring =
      (((segs ring).filter (fun se => !onE P se)).map (fun se => ptInc P se.1 se.2)).sum + (lam a b - 1) := by
  have fl : faceL a b P = ⟨P.x, -(b.y - a.y), P.y, b.x - a.x⟩ := rfl
  have fr : faceR a b P = ⟨P.x, - -(b.y - a.y), P.y, -(b.x - a.x)⟩ := rfl
  obtain ⟨k1, k2⟩ := face_parts hab hm hma hmb
  simp only [fl, fr] at k1 k2 ⊢
  rw [windingE_local ring hc P, windingE_local ring hc P, hone]
  simp only [List.map_cons, List.map_nil, List.sum_cons, List.sum_nil, add_zero]
  generalize (((segs ring).filter (fun se => !onE P se)).map (fun se => ptInc P se.1 se.2)).sum = C
  constructor <;> omega

/-! ### the local statement -/

macro "link_finish" : tactic => `(tactic| (split_ifs <;> first | omega | (exfalso; linarith)))

theorem link_local {a b P m : Pt} {t : Rat} (t0 : 0 < t) (t1 : t < 1)
    (hx : P.x = a.x + t * (b.x - a.x)) (hy : P.y = a.y + t * (b.y - a.y)) (hab : a ≠ b)
    (hD : cross a b m ≠ 0) :
    ptInc m a b =
      (if m.y < P.y then inR m.y P.y b.y (cross m P b) - inR m.y P.y a.y (cross m P a)
       else if P.y < m.y then -(inR P.y m.y b.y (cross P m b) - inR P.y m.y a.y (cross P m a))
       else 0) + (if 0 < cross a b m then lam a b else lam a b - 1) := by
  have c1 : cross m P a = -(t * cross a b m) := by unfold cross; rw [hx, hy]; ring
  have c2 : cross m P b = (1 - t) * cross a b m := by unfold cross; rw [hx, hy]; ring
  have c3 : cross P m a = t * cross a b m := by unfold cross; rw [hx, hy]; ring
  have c4 : cross P m b = -((1 - t) * cross a b m) := by unfold cross; rw [hx, hy]; ring
  have t1' : 0 < 1 - t := by linarith
  generalize hDd : cross a b m = D at *
  simp only [inR_eq]
  unfold ptInc lam
  rw [hDd, c1, c2, c3, c4]
  rcases lt_or_gt_of_ne hD with hneg | hpos
  ·
    have s1 : ¬ -(t * D) < 0 := by nlinarith
    have s2 : (1 - t) * D < 0 := by nlinarith
    have s3 : t * D < 0 := by nlinarith
    have s4 : ¬ -((1 - t) * D) < 0 := by nlinarith
    have hnp : ¬ 0 < D := by linarith
    have hnn : D < 0 := hneg
    rcases lt_trichotomy (b.y - a.y) 0 with hdy | hdy | hdy
    · have p1 : b.y ≤ P.y := by rw [hy]; nlinarith
      have p2 : ¬ a.y ≤ P.y := by rw [hy]; nlinarith
      have p3 : ¬ P.y < b.y := by linarith
      have p4 : P.y < a.y := by linarith
      have l1 : ¬ a.y < b.y := by linarith
      have l2 : b.y < a.y := by linarith
      simp only [s1, s2, s3, s4, hnp, hnn, p1, p2, p3, p4, l1, l2, ↓reduceIte]
      all_goals link_finish
    · have hay : a.y = P.y := by rw [hy, hdy]; ring
      have hby : b.y = P.y := by linarith
      have hDe : D = (b.x - a.x) * (m.y - P.y) := by
        rw [← hDd]; unfold cross; rw [hdy, ← hby]; ring
      have hmy : m.y ≠ P.y := by
        intro h
        apply hD
        rw [hDe, h]; ring
      have p1 : b.y ≤ P.y := by linarith
      have p2 : a.y ≤ P.y := by linarith
      have p3 : ¬ P.y < b.y := by linarith
      have p4 : ¬ P.y < a.y := by linarith
      have l1 : ¬ a.y < b.y := by linarith
      have l2 : ¬ b.y < a.y := by linarith
      rcases lt_or_gt_of_ne hmy with hlt | hgt
      ·
        have hdx : 0 < b.x - a.x := by
          by_contra hc
          have hc : b.x - a.x ≤ 0 := not_lt.mp hc
          have : 0 ≤ (b.x - a.x) * (m.y - P.y) :=
            mul_nonneg_of_nonpos_of_nonpos hc (by linarith)
          linarith
        have l3 : ¬ b.x < a.x := by linarith
        have o1 : ¬ P.y < m.y := by linarith
        simp only [s1, s2, s3, s4, hnp, hnn, p1, p2, p3, p4, l1, l2, l3, hlt, o1, ↓reduceIte]
        all_goals link_finish
      ·
        have hdx : b.x - a.x < 0 := by
          by_contra hc
          have hc : 0 ≤ b.x - a.x := not_lt.mp hc
          have : 0 ≤ (b.x - a.x) * (m.y - P.y) := mul_nonneg hc (by linarith)
          linarith
        have l3 : b.x < a.x := by linarith
        have o1 : ¬ m.y < P.y := by linarith
        simp only [s1, s2, s3, s4, hnp, hnn, p1, p2, p3, p4, l1, l2, l3, hgt, o1, ↓reduceIte]
        all_goals link_finish
    · have p2 : a.y ≤ P.y := by rw [hy]; nlinarith
      have p1 : ¬ b.y ≤ P.y := by rw [hy]; nlinarith
      have p3 : P.y < b.y := by linarith
      have p4 : ¬ P.y < a.y := by linarith
      have l1 : a.y < b.y := by linarith
      simp only [s1, s2, s3, s4, hnp, hnn, p1, p2, p3, p4, l1, ↓reduceIte]
      all_goals link_finish
  ·
    have s1 : -(t * D) < 0 := by nlinarith
    have s2 : ¬ (1 - t) * D < 0 := by nlinarith
    have s3 : ¬ t * D < 0 := by nlinarith
    have s4 : -((1 - t) * D) < 0 := by nlinarith
    have hnp : 0 < D := hpos
    have hnn : ¬ D < 0 := by linarith
    rcases lt_trichotomy (b.y - a.y) 0 with hdy | hdy | hdy
    · have p1 : b.y ≤ P.y := by rw [hy]; nlinarith
      have p2 : ¬ a.y ≤ P.y := by rw [hy]; nlinarith
      have p3 : ¬ P.y < b.y := by linarith
      have p4 : P.y < a.y := by linarith
      have l1 : ¬ a.y < b.y := by linarith
      have l2 : b.y < a.y := by linarith
      simp only [s1, s2, s3, s4, hnp, hnn, p1, p2, p3, p4, l1, l2, ↓reduceIte]
      all_goals link_finish
    · have hay : a.y = P.y := by rw [hy, hdy]; ring
      have hby : b.y = P.y := by linarith
      have hDe : D = (b.x - a.x) * (m.y - P.y) := by
        rw [← hDd]; unfold cross; rw [hdy, ← hby]; ring
      have hmy : m.y ≠ P.y := by
        intro h
        apply hD
        rw [hDe, h]; ring
      have p1 : b.y ≤ P.y := by linarith
      have p2 : a.y ≤ P.y := by linarith
      have p3 : ¬ P.y < b.y := by linarith
      have p4 : ¬ P.y < a.y := by linarith
      have l1 : ¬ a.y < b.y := by linarith
      have l2 : ¬ b.y < a.y := by linarith
      rcases lt_or_gt_of_ne hmy with hlt | hgt
      ·
        have hdx : b.x - a.x < 0 := by
          by_contra hc
          have hc : 0 ≤ b.x - a.x := not_lt.mp hc
          have : (b.x - a.x) * (m.y - P.y) ≤ 0 :=
            mul_nonpos_of_nonneg_of_nonpos hc (by linarith)
          linarith
        have l3 : b.x < a.x := by linarith
        have o1 : ¬ P.y < m.y := by linarith
        simp only [s1, s2, s3, s4, hnp, hnn, p1, p2, p3, p4, l1, l2, l3, hlt, o1, ↓reduceIte]
        all_goals link_finish
      ·
        have hdx : 0 < b.x - a.x := by
          by_contra hc
          have hc : b.x - a.x ≤ 0 := not_lt.mp hc
          have : (b.x - a.x) * (m.y - P.y) ≤ 0 :=
            mul_nonpos_of_nonpos_of_nonneg hc (by linarith)
          linarith
        have l3 : ¬ b.x < a.x := by linarith
        have o1 : ¬ m.y < P.y := by linarith
        simp only [s1, s2, s3, s4, hnp, hnn, p1, p2, p3, p4, l1, l2, l3, hgt, o1, ↓reduceIte]
        all_goals link_finish
    · have p2 : a.y ≤ P.y := by rw [hy]; nlinarith
      have p1 : ¬ b.y ≤ P.y := by rw [hy]; nlinarith
      have p3 : P.y < b.y := by linarith
      have p4 : ¬ P.y < a.y := by linarith
      have l1 : a.y < b.y := by linarith
      simp only [s1, s2, s3, s4, hnp, hnn, p1, p2, p3, p4, l1, ↓reduceIte]
      all_goals link_finish

/-! ### the link -/

/-- the sum of a potential difference over the edges not through `P` -/
theorem sum_off_potential (ring : List Pt) (hc : ring.head? = ring.getLast?) {a b P : Pt}
    (hone : (segs ring).filter (onE P) = [(a, b)]) (φ : Pt → Int) :
    (((segs ring).filter (fun se => !onE P se)).map (fun se => φ se.1 - φ se.2)).sum = φ b - φ a := by
  have h0 := sum_potential_closed φ ring hc
  rw [sum_filter_split (segs ring) (onE P), hone] at h0
  simp only [List.map_cons, List.map_nil, List.sum_cons, List.sum_nil, add_zero] at h0
  omega

theorem sum_map_sub' {α : Type} (l : List α) (f g : α → Int) :
    (l.map f).sum - (l.map g).sum = (l.map (fun x => f x - g x)).sum := by
  induction l with
  | nil => simp
  | cons a t ih => simp only [List.map_cons, List.sum_cons, ← ih]; omega

/-- **The link**: the winding number of a point `m` joined to a point `P` strictly inside exactly one
edge by a segment that meets no other edge is the winding number of the face sample beside `P` on
the side of `m`. -/
theorem windingE_link (ring : List Pt) (hc : ring.head? = ring.getLast?) {a b P m : Pt}
    (hone : (segs ring).filter (onE P) = [(a, b)]) (hab : a ≠ b)
    (hP : SegMem P a b) (hPa : P ≠ a) (hPb : P ≠ b) (hD : cross a b m ≠ 0)
    (hclear : ∀ se ∈ segs ring, onE P se = false → ¬ ∃ x, SegMem x se.1 se.2 ∧ SegMem x m P) :
    windingE (EPt.ofPt m) ring =
      if 0 < cross a b m then windingE (faceL a b P) ring else windingE (faceR a b P) ring := by
  obtain ⟨fL, fR⟩ := windingE_faces ring hc hone hab hP hPa hPb
  obtain ⟨t, t0, t1, hx, hy⟩ := strict_param hP hPa hPb
  have hloc := link_local t0 t1 hx hy hab hD
  rw [fL, fR, windingE_ofPt, sum_filter_split (segs ring) (onE P), hone]
  simp only [List.map_cons, List.map_nil, List.sum_cons, List.sum_nil, add_zero]
  have hoffmem : ∀ se ∈ (segs ring).filter (fun se => !onE P se),
      ¬ ∃ x, SegMem x se.1 se.2 ∧ SegMem x m P := by
    intro se hse
    rw [List.mem_filter] at hse
    exact hclear se hse.1 (by simpa using hse.2)
  -- the off-edges: difference between `P` and `m`
  have hdiff : (((segs ring).filter (fun se => !onE P se)).map (fun se => ptInc P se.1 se.2)).sum -
      (((segs ring).filter (fun se => !onE P se)).map (fun se => ptInc m se.1 se.2)).sum =
      (if m.y < P.y then inR m.y P.y b.y (cross m P b) - inR m.y P.y a.y (cross m P a)
       else if P.y < m.y then -(inR P.y m.y b.y (cross P m b) - inR P.y m.y a.y (cross P m a))
       else 0) := by
    rw [sum_map_sub']
    rcases lt_trichotomy m.y P.y with hlt | heq | hgt
    · rw [if_pos hlt, ← sum_off_potential ring hc hone (fun v => inR m.y P.y v.y (cross m P v))]
      apply sum_map_congr
      intro se hse
      exact ptInc_diff hlt (hoffmem se hse)
    · rw [if_neg (by linarith), if_neg (by linarith)]
      have : ∀ se ∈ (segs ring).filter (fun se => !onE P se),
          ptInc P se.1 se.2 - ptInc m se.1 se.2 = 0 := by
        intro se hse
        have := ptInc_horiz heq (hoffmem se hse)
        omega
      rw [sum_map_congr _ _ (fun _ => (0 : Int)) this, sum_map_const_zero]
    · rw [if_neg (by linarith), if_pos hgt]
      have h1 := sum_off_potential ring hc hone (fun v => inR P.y m.y v.y (cross P m v))
      have h2 : (((segs ring).filter (fun se => !onE P se)).map
          (fun se => ptInc P se.1 se.2 - ptInc m se.1 se.2)).sum =
          - (((segs ring).filter (fun se => !onE P se)).map
            (fun se => inR P.y m.y se.1.y (cross P m se.1) - inR P.y m.y se.2.y (cross P m se.2))).sum := by
        have : ∀ se ∈ (segs ring).filter (fun se => !onE P se),
            ptInc P se.1 se.2 - ptInc m se.1 se.2 =
            - (inR P.y m.y se.1.y (cross P m se.1) - inR P.y m.y se.2.y (cross P m se.2)) := by
          intro se hse
          have hd : ¬ ∃ x, SegMem x se.1 se.2 ∧ SegMem x P m := by
            rintro ⟨x, h1, h2⟩
            exact hoffmem se hse ⟨x, h1, SegMem_symm h2⟩
          have := ptInc_diff hgt hd
          omega
        rw [sum_map_congr _ _ _ this]
        generalize (segs ring).filter (fun se => !onE P se) = l
        induction l with
        | nil => simp
        | cons a t ih => simp only [List.map_cons, List.sum_cons, ih]; omega
      rw [h2, h1]
  split_ifs at hloc hdiff ⊢ <;> omega

/-- **The winding number changes by one across an edge**: `m₁` on the left and `m₂` on the right of
the edge `(a, b)`, both joined to a point `P` strictly inside the edge (and on no other edge
occurrence) by segments that meet no other edge of the closed ring. -/
theorem windingE_cross (ring : List Pt) (hc : ring.head? = ring.getLast?) {a b P m₁ m₂ : Pt}
    (hone : (segs ring).filter (onE P) = [(a, b)]) (hab : a ≠ b)
    (hP : SegMem P a b) (hPa : P ≠ a) (hPb : P ≠ b)
    (h1 : 0 < cross a b m₁) (h2 : cross a b m₂ < 0)
    (hc1 : ∀ se ∈ segs ring, onE P se = false → ¬ ∃ x, SegMem x se.1 se.2 ∧ SegMem x m₁ P)
    (hc2 : ∀ se ∈ segs ring, onE P se = false → ¬ ∃ x, SegMem x se.1 se.2 ∧ SegMem x m₂ P) :
    windingE (EPt.ofPt m₁) ring = windingE (EPt.ofPt m₂) ring + 1 := by
  rw [windingE_link ring hc hone hab hP hPa hPb (ne_of_gt h1) hc1,
    windingE_link ring hc hone hab hP hPa hPb (ne_of_lt h2) hc2,
    if_pos h1, if_neg (by linarith), windingE_jump ring hc hone hab hP hPa hPb]

example : windingE (EPt.ofPt ⟨1, 1⟩) [⟨0, 0⟩, ⟨4, 0⟩, ⟨0, 4⟩, ⟨0, 0⟩] =
    windingE (EPt.ofPt ⟨3, -1⟩) [⟨0, 0⟩, ⟨4, 0⟩, ⟨0, 4⟩, ⟨0, 0⟩] + 1 := by decide +kernel

end Geo.Proofs.WIND
