/-
  SMLX (C05), part 7: the turn at the lexicographically least coordinate of a simple ring has the sign of
  the side of the ring.

  `pivot_side`: with `p` the least coordinate and `(pv, p)`, `(p, nx)` the two ring edges of positive length
  at `p` (the pivot triple of `winding_order`), `(2L − 1) · cross pv p nx > 0`.

  Proof. Take the slab of levels just above `p` (when one of the two edges leaves `p` upward) or just below
  (otherwise; the two edges cannot both be horizontal). On its middle level the edges that end at `p` are to
  the left of all others (`pedge_left_of_others`), so the left-most crossing is on one of them; which one, when
  both cross, is decided by the sign of `cross pv p nx` (`pedges_order`). The left-most crossing has the
  exterior on its left (`leftmost_side`), which gives `L` from the direction of that edge; the sign of the
  determinant follows from the position of the other edge and the minimality of `p`.
-/
import GeoProofs.Lemmas.SMLXTurn

set_option linter.unusedSimpArgs false
set_option linter.unusedVariables false

namespace Geo.Proofs.SMLX
open Geo Geo.IP Geo.Proofs.Kernel Geo.Proofs.Spec Geo.Proofs.C02Q Geo.Proofs.C12 Geo.Proofs.WIND
open Geo.Proofs.C05L

/-! ### neighbours in a strictly increasing list of levels -/

theorem pairsQ_succ : ∀ (Y : List Rat), Y.Pairwise (· < ·) → ∀ u w, u ∈ Y → w ∈ Y → u < w →
    ∃ v, (u, v) ∈ pairsQ Y
  | [], _, u, w, hu, _, _ => by cases hu
  | [a], _, u, w, hu, hw, hlt => by
    simp only [List.mem_singleton] at hu hw
    rw [hu, hw] at hlt; exact absurd hlt (lt_irrefl _)
  | a :: b :: t, hs, u, w, hu, hw, hlt => by
    rw [List.pairwise_cons] at hs
    rcases List.mem_cons.mp hu with rfl | hu'
    · exact ⟨b, by simp [pairsQ]⟩
    · have hw' : w ∈ b :: t := by
        rcases List.mem_cons.mp hw with rfl | hw'
        · have := hs.1 u hu'; linarith
        · exact hw'
      obtain ⟨v, hv⟩ := pairsQ_succ (b :: t) hs.2 u w hu' hw' hlt
      exact ⟨v, by simp only [pairsQ]; exact List.mem_cons_of_mem _ hv⟩

theorem pairsQ_pred : ∀ (Y : List Rat), Y.Pairwise (· < ·) → ∀ u w, u ∈ Y → w ∈ Y → u < w →
    ∃ v, (v, w) ∈ pairsQ Y
  | [], _, u, w, hu, _, _ => by cases hu
  | [a], _, u, w, hu, hw, hlt => by
    simp only [List.mem_singleton] at hu hw
    rw [hu, hw] at hlt; exact absurd hlt (lt_irrefl _)
  | a :: b :: t, hs, u, w, hu, hw, hlt => by
    rw [List.pairwise_cons] at hs
    have hwa : w ≠ a := by
      rintro rfl
      rcases List.mem_cons.mp hu with rfl | hu'
      · exact lt_irrefl _ hlt
      · have := hs.1 u hu'; linarith
    have hw' : w ∈ b :: t := by
      rcases List.mem_cons.mp hw with e | hw'
      · exact absurd e hwa
      · exact hw'
    by_cases hwb : w = b
    · subst hwb
      exact ⟨a, by simp [pairsQ]⟩
    · have hwt : w ∈ t := by
        rcases List.mem_cons.mp hw' with e | e
        · exact absurd e hwb
        · exact e
      have hbw : b < w := (List.pairwise_cons.mp hs.2).1 w hwt
      obtain ⟨v, hv⟩ := pairsQ_pred (b :: t) hs.2 b w (by simp) hw' hbw
      exact ⟨v, by simp only [pairsQ]; exact List.mem_cons_of_mem _ hv⟩

/-! ### the left-most crossing is on an edge that ends at `p` -/

theorem mem_crossXs {y t : Rat} {es : List (Pt × Pt)} (ht : t ∈ es.flatMap (crossXs y)) :
    ∃ e ∈ es, sgnE y e ≠ 0 ∧ t = xAt y e := by
  rw [List.mem_flatMap] at ht
  obtain ⟨e, he, hte⟩ := ht
  unfold crossXs at hte
  by_cases h0 : sgnE y e ≠ 0
  · rw [if_pos h0, List.mem_singleton] at hte
    exact ⟨e, he, h0, hte⟩
  · rw [if_neg h0] at hte; cases hte

theorem sgnE_degenerate (y : Rat) (a : Pt) : sgnE y (a, a) = 0 := by
  unfold sgnE
  have n1 : ¬ (a.y < y ∧ y < a.y) := fun hh => by linarith [hh.1, hh.2]
  simp [n1]

/-- the side constant from the left-most of the edges that end at `p` -/
theorem side_of_leftmost_pedge {r0 : List Pt} (h : ringSimple r0 = true) {L : Int}
    (hL : ∀ a b P, (a, b) ∈ segs r0 → SegMem P a b → P ∉ r0 →
      windingE (faceL a b P) r0 = L ∧ windingE (faceR a b P) r0 = L - 1)
    {pv p nx : Pt} (hpx : ∀ q ∈ r0, p.x ≤ q.x)
    (e1 : (pv, p) ∈ segs r0) (e2 : (p, nx) ∈ segs r0) (n1 : pv ≠ p) (n2 : nx ≠ p)
    {lo hi : Rat} (hlh : lo < hi) (hgap : ∀ v ∈ r0, ¬ (lo < v.y ∧ v.y < hi))
    (hpy : p.y = lo ∨ p.y = hi) {e e₂ : Pt × Pt}
    (hee : (e = (pv, p) ∧ e₂ = (p, nx)) ∨ (e = (p, nx) ∧ e₂ = (pv, p)))
    (hs : sgnE ((lo + hi) / 2) e ≠ 0)
    (hother : sgnE ((lo + hi) / 2) e₂ = 0 ∨ xAt ((lo + hi) / 2) e ≤ xAt ((lo + hi) / 2) e₂) :
    (if sgnE ((lo + hi) / 2) e = 1 then L else L - 1) = 0 := by
  have hy : ∀ v ∈ r0, v.y ≠ (lo + hi) / 2 := by
    intro v hv e0
    exact hgap v hv ⟨by rw [e0]; linarith, by rw [e0]; linarith⟩
  have he : e ∈ segs r0 := by rcases hee with ⟨rfl, _⟩ | ⟨rfl, _⟩ <;> assumption
  have hpe : p = e.1 ∨ p = e.2 := by
    rcases hee with ⟨rfl, _⟩ | ⟨rfl, _⟩
    · exact Or.inr rfl
    · exact Or.inl rfl
  have hmem : ∀ e'' : Pt × Pt, (e'' = (pv, p) ∨ e'' = (p, nx)) → sgnE ((lo + hi) / 2) e'' ≠ 0 →
      xAt ((lo + hi) / 2) e ≤ xAt ((lo + hi) / 2) e'' := by
    intro e'' h'' hs''
    rcases hee with ⟨rfl, rfl⟩ | ⟨rfl, rfl⟩
    · rcases h'' with rfl | rfl
      · exact le_refl _
      · rcases hother with h0 | h0
        · exact absurd h0 hs''
        · exact h0
    · rcases h'' with rfl | rfl
      · rcases hother with h0 | h0
        · exact absurd h0 hs''
        · exact h0
      · exact le_refl _
  obtain ⟨a, b⟩ := e
  apply leftmost_side h hL hy he hs
  intro t ht
  obtain ⟨⟨c, d⟩, he'', hs'', rfl⟩ := mem_crossXs ht
  by_cases hc : p = c
  · subst hc
    have hdne : d ≠ p := by
      rintro rfl; exact hs'' (sgnE_degenerate _ _)
    have := simple_next_unique h he'' hdne e2 n2
    subst this
    exact hmem _ (Or.inr rfl) hs''
  · by_cases hd : p = d
    · subst hd
      have hcne : c ≠ p := fun e0 => hc e0.symm
      have := simple_prev_unique h he'' hcne e1 n1
      subst this
      exact hmem _ (Or.inl rfl) hs''
    · exact le_of_lt (pedge_left_of_others h hpx hlh hgap hpy he he'' hpe ⟨hc, hd⟩ hs hs'')

/-! ### the two edges at `p` -/

/-- the order of the two edges at `p` on a level `m` is decided by the determinant of the pivot triple -/
theorem pedges_order (pv p nx : Pt) (m : Rat) (h1 : pv.y ≠ p.y) (h2 : nx.y ≠ p.y) :
    (xAt m (p, nx) - xAt m (pv, p)) * ((pv.y - p.y) * (nx.y - p.y)) = (m - p.y) * cross pv p nx := by
  have d1 : p.y - pv.y ≠ 0 := fun h0 => h1 (by linarith)
  have d2 : nx.y - p.y ≠ 0 := fun h0 => h2 (by linarith)
  simp only [xAt, cross]
  field_simp
  ring

/-- the two edges at `p` do not cross a level that avoids the coordinates at the same abscissa -/
theorem pedges_apart {r0 : List Pt} (h : ringSimple r0 = true) {pv p nx : Pt}
    (e1 : (pv, p) ∈ segs r0) (e2 : (p, nx) ∈ segs r0) (n1 : pv ≠ p) {m : Rat}
    (hy : ∀ v ∈ r0, v.y ≠ m) (s1 : sgnE m (pv, p) ≠ 0) (s2 : sgnE m (p, nx) ≠ 0) :
    xAt m (pv, p) ≠ xAt m (p, nx) := by
  intro heq
  have hP : SegMem ⟨xAt m (pv, p), m⟩ pv p := xAt_segMem s1
  have hP' : SegMem ⟨xAt m (pv, p), m⟩ p nx := by rw [heq]; exact xAt_segMem s2
  have hnv : (⟨xAt m (pv, p), m⟩ : Pt) ∉ r0 := fun hm => hy _ hm rfl
  have u1 := simple_unique_edge h e1 hP hnv
  have u2 := simple_unique_edge h e2 hP' hnv
  rw [u1] at u2
  have := (List.cons.inj u2).1
  exact n1 (Prod.mk.inj this).1

/-- the two edges at the least coordinate are not both horizontal -/
theorem pedges_not_horizontal {r0 : List Pt} (h : ringSimple r0 = true) {pv p nx : Pt}
    (e1 : (pv, p) ∈ segs r0) (e2 : (p, nx) ∈ segs r0) (n1 : pv ≠ p) (n2 : nx ≠ p)
    (hx1 : p.x < pv.x) (hx2 : p.x < nx.x) (hy1 : pv.y = p.y) (hy2 : nx.y = p.y) : False := by
  have hne : ((pv, p) : Pt × Pt) ≠ (p, nx) := fun e0 => n1 (Prod.mk.inj e0).1
  have hpe : p = ⟨p.x, p.y⟩ := rfl
  have hpve : pv = ⟨pv.x, p.y⟩ := Pt.ext' rfl hy1
  have hnxe : nx = ⟨nx.x, p.y⟩ := Pt.ext' rfl hy2
  rcases le_total nx.x pv.x with hle | hle
  · -- the midpoint of `(p, nx)` is on `(pv, p)` too
    set z : Pt := ⟨(p.x + nx.x) / 2, p.y⟩ with hz
    have z1 : SegMem z p nx := by
      rw [hpe, hnxe]
      exact segMem_horiz_of rfl (by simp only [hz]; linarith) (by simp only [hz]; linarith)
    have z2 : SegMem z pv p := by
      apply SegMem_symm
      rw [hpe, hpve]
      exact segMem_horiz_of rfl (by simp only [hz]; linarith) (by simp only [hz]; linarith)
    have := (common_point_endpoint h e1 e2 n1 n2.symm hne z2 z1).2
    rcases this with e0 | e0
    · have : z.x = p.x := by rw [e0]
      simp only [hz] at this; linarith
    · have : z.x = nx.x := by rw [e0]
      simp only [hz] at this; linarith
  · set z : Pt := ⟨(p.x + pv.x) / 2, p.y⟩ with hz
    have z1 : SegMem z p nx := by
      rw [hpe, hnxe]
      exact segMem_horiz_of rfl (by simp only [hz]; linarith) (by simp only [hz]; linarith)
    have z2 : SegMem z pv p := by
      apply SegMem_symm
      rw [hpe, hpve]
      exact segMem_horiz_of rfl (by simp only [hz]; linarith) (by simp only [hz]; linarith)
    have := (common_point_endpoint h e1 e2 n1 n2.symm hne z2 z1).1
    rcases this with e0 | e0
    · have : z.x = pv.x := by rw [e0]
      simp only [hz] at this; linarith
    · have : z.x = p.x := by rw [e0]
      simp only [hz] at this; linarith

theorem sgnE_up {y : Rat} {a b : Pt} (h1 : a.y < y) (h2 : y < b.y) : sgnE y (a, b) = 1 := by
  unfold sgnE; simp [h1, h2]

theorem sgnE_down {y : Rat} {a b : Pt} (h1 : b.y < y) (h2 : y < a.y) : sgnE y (a, b) = -1 := by
  unfold sgnE
  have n1 : ¬ (a.y < y ∧ y < b.y) := fun hh => by linarith [hh.1]
  simp [n1, h1, h2]

theorem sgnE_below {y : Rat} {a b : Pt} (h1 : a.y < y) (h2 : b.y < y) : sgnE y (a, b) = 0 := by
  unfold sgnE
  have n1 : ¬ (a.y < y ∧ y < b.y) := fun hh => by linarith [hh.2]
  have n2 : ¬ (b.y < y ∧ y < a.y) := fun hh => by linarith [hh.2]
  simp [n1, n2]

theorem sgnE_above {y : Rat} {a b : Pt} (h1 : y < a.y) (h2 : y < b.y) : sgnE y (a, b) = 0 := by
  unfold sgnE
  have n1 : ¬ (a.y < y ∧ y < b.y) := fun hh => by linarith [hh.1]
  have n2 : ¬ (b.y < y ∧ y < a.y) := fun hh => by linarith [hh.1]
  simp [n1, n2]

/-! ### the theorem -/

/-- **the turn at the least coordinate of a simple ring has the sign of the side of the ring** -/
theorem pivot_side {r0 : List Pt} (h : ringSimple r0 = true) {L : Int} (hL01 : L = 0 ∨ L = 1)
    (hL : ∀ a b P, (a, b) ∈ segs r0 → SegMem P a b → P ∉ r0 →
      windingE (faceL a b P) r0 = L ∧ windingE (faceR a b P) r0 = L - 1)
    {pv p nx : Pt} (hp : p ∈ r0) (hmin : ∀ q ∈ r0, lexLt q p = false)
    (e1 : (pv, p) ∈ segs r0) (e2 : (p, nx) ∈ segs r0) (n1 : pv ≠ p) (n2 : nx ≠ p) :
    0 < (2 * (L : Rat) - 1) * cross pv p nx := by
  have hpx : ∀ q ∈ r0, p.x ≤ q.x := by
    intro q hq
    have := hmin q hq
    rw [Bool.eq_false_iff, Ne, lexLt_iff] at this
    by_contra hlt
    exact this (Or.inl (not_le.mp hlt))
  have hpvm := (mem_of_mem_segs e1).1
  have hnxm := (mem_of_mem_segs e2).2
  have lpv := lex_pos (hmin pv hpvm) n1
  have lnx := lex_pos (hmin nx hnxm) n2
  have hYs := levelsOf_sorted r0
  have hpY : p.y ∈ levelsOf r0 := (mem_levelsOf r0 _).2 ⟨p, hp, rfl⟩
  have hpvY : pv.y ∈ levelsOf r0 := (mem_levelsOf r0 _).2 ⟨pv, hpvm, rfl⟩
  have hnxY : nx.y ∈ levelsOf r0 := (mem_levelsOf r0 _).2 ⟨nx, hnxm, rfl⟩
  -- the conclusion from the side constant
  have fin0 : L = 0 → cross pv p nx < 0 → 0 < (2 * (L : Rat) - 1) * cross pv p nx := by
    intro e0 hc; rw [e0]; push_cast; linarith
  have fin1 : L = 1 → 0 < cross pv p nx → 0 < (2 * (L : Rat) - 1) * cross pv p nx := by
    intro e0 hc; rw [e0]; push_cast; linarith
  by_cases hup : p.y < nx.y ∨ p.y < pv.y
  · -- the slab above `p`
    obtain ⟨w, hwY, hw⟩ : ∃ w ∈ levelsOf r0, p.y < w := by
      rcases hup with h0 | h0
      · exact ⟨_, hnxY, h0⟩
      · exact ⟨_, hpvY, h0⟩
    obtain ⟨v, hv⟩ := pairsQ_succ _ hYs p.y w hpY hwY hw
    obtain ⟨hlh, hy, _, _, hgap⟩ := slab_level hv
    simp only at hlh hy hgap
    set m := (p.y + v) / 2 with hm
    have hpm : p.y < m := by rw [hm]; linarith
    have habove : ∀ q ∈ r0, p.y < q.y → m < q.y := by
      intro q hq hlt
      have : v ≤ q.y := by
        by_contra hh
        exact hgap q hq ⟨hlt, not_le.mp hh⟩
      rw [hm]; linarith
    by_cases hnu : p.y < nx.y
    · have snx : sgnE m (p, nx) = 1 := sgnE_up hpm (habove nx hnxm hnu)
      by_cases hpu : p.y < pv.y
      · -- both edges leave `p` upward
        have spv : sgnE m (pv, p) = -1 := sgnE_down hpm (habove pv hpvm hpu)
        have hord := pedges_order pv p nx m (ne_of_gt hpu) (ne_of_gt hnu)
        have hD : 0 < (pv.y - p.y) * (nx.y - p.y) := mul_pos (by linarith) (by linarith)
        have hapart := pedges_apart h e1 e2 n1 hy (by rw [spv]; decide) (by rw [snx]; decide)
        rcases lt_trichotomy (cross pv p nx) 0 with hc | hc | hc
        · have hlt : xAt m (p, nx) < xAt m (pv, p) := by
            have : (m - p.y) * cross pv p nx < 0 := mul_neg_of_pos_of_neg (by linarith) hc
            rw [← hord] at this
            by_contra hh
            have : 0 ≤ (xAt m (p, nx) - xAt m (pv, p)) * ((pv.y - p.y) * (nx.y - p.y)) :=
              mul_nonneg (by linarith [not_lt.mp hh]) (le_of_lt hD)
            linarith
          have := side_of_leftmost_pedge h hL hpx e1 e2 n1 n2 hlh hgap (Or.inl rfl)
            (e := (p, nx)) (e₂ := (pv, p)) (Or.inr ⟨rfl, rfl⟩) (by rw [snx]; decide)
            (Or.inr (le_of_lt hlt))
          rw [snx] at this
          exact fin0 (by simpa using this) hc
        · exfalso
          rw [hc, mul_zero] at hord
          rcases mul_eq_zero.mp hord with h0 | h0
          · exact hapart (by linarith)
          · exact absurd h0 (ne_of_gt hD)
        · have hlt : xAt m (pv, p) < xAt m (p, nx) := by
            have : 0 < (m - p.y) * cross pv p nx := mul_pos (by linarith) hc
            rw [← hord] at this
            by_contra hh
            have : (xAt m (p, nx) - xAt m (pv, p)) * ((pv.y - p.y) * (nx.y - p.y)) ≤ 0 :=
              mul_nonpos_of_nonpos_of_nonneg (by linarith [not_lt.mp hh]) (le_of_lt hD)
            linarith
          have := side_of_leftmost_pedge h hL hpx e1 e2 n1 n2 hlh hgap (Or.inl rfl)
            (e := (pv, p)) (e₂ := (p, nx)) (Or.inl ⟨rfl, rfl⟩) (by rw [spv]; decide)
            (Or.inr (le_of_lt hlt))
          rw [spv] at this
          have hL1 : L = 1 := by
            have : L - 1 = 0 := by simpa using this
            omega
          exact fin1 hL1 hc
      · -- only `(p, nx)` leaves upward
        have hpvle : pv.y ≤ p.y := not_lt.mp hpu
        have spv : sgnE m (pv, p) = 0 := sgnE_below (by linarith) hpm
        have := side_of_leftmost_pedge h hL hpx e1 e2 n1 n2 hlh hgap (Or.inl rfl)
          (e := (p, nx)) (e₂ := (pv, p)) (Or.inr ⟨rfl, rfl⟩) (by rw [snx]; decide) (Or.inl spv)
        rw [snx] at this
        have hpvx : p.x < pv.x := by
          rcases lpv with h0 | ⟨_, h0⟩
          · exact h0
          · linarith
        have hnxx : p.x ≤ nx.x := hpx nx hnxm
        apply fin0 (by simpa using this)
        unfold cross
        nlinarith [mul_pos (sub_pos.mpr hpvx) (sub_pos.mpr hnu),
          mul_nonneg (sub_nonneg.mpr hpvle) (sub_nonneg.mpr hnxx)]
    · -- only `(pv, p)` arrives from above
      have hnxle : nx.y ≤ p.y := not_lt.mp hnu
      have hpu : p.y < pv.y := by
        rcases hup with h0 | h0
        · exact absurd h0 hnu
        · exact h0
      have spv : sgnE m (pv, p) = -1 := sgnE_down hpm (habove pv hpvm hpu)
      have snx : sgnE m (p, nx) = 0 := sgnE_below hpm (by linarith)
      have := side_of_leftmost_pedge h hL hpx e1 e2 n1 n2 hlh hgap (Or.inl rfl)
        (e := (pv, p)) (e₂ := (p, nx)) (Or.inl ⟨rfl, rfl⟩) (by rw [spv]; decide) (Or.inl snx)
      rw [spv] at this
      have hL1 : L = 1 := by
        have : L - 1 = 0 := by simpa using this
        omega
      have hnxx : p.x < nx.x := by
        rcases lnx with h0 | ⟨_, h0⟩
        · exact h0
        · linarith
      have hpvx : p.x ≤ pv.x := hpx pv hpvm
      apply fin1 hL1
      unfold cross
      nlinarith [mul_pos (sub_pos.mpr hpu) (sub_pos.mpr hnxx),
        mul_nonneg (sub_nonneg.mpr hpvx) (sub_nonneg.mpr hnxle)]
  · -- both edges leave `p` downward or horizontally: the slab below `p`
    have hnxle : nx.y ≤ p.y := by
      by_contra hh; exact hup (Or.inl (not_le.mp hh))
    have hpvle : pv.y ≤ p.y := by
      by_contra hh; exact hup (Or.inr (not_le.mp hh))
    have hnxx : p.x < nx.x := by
      rcases lnx with h0 | ⟨_, h0⟩
      · exact h0
      · linarith
    have hpvx : p.x < pv.x := by
      rcases lpv with h0 | ⟨_, h0⟩
      · exact h0
      · linarith
    by_cases hflat : nx.y = p.y ∧ pv.y = p.y
    · exact absurd (pedges_not_horizontal h e1 e2 n1 n2 hpvx hnxx hflat.2 hflat.1) id
    obtain ⟨w, hwY, hw⟩ : ∃ w ∈ levelsOf r0, w < p.y := by
      by_cases h0 : nx.y = p.y
      · have : pv.y ≠ p.y := fun h1 => hflat ⟨h0, h1⟩
        exact ⟨_, hpvY, lt_of_le_of_ne hpvle this⟩
      · exact ⟨_, hnxY, lt_of_le_of_ne hnxle h0⟩
    obtain ⟨u, hu⟩ := pairsQ_pred _ hYs w p.y hwY hpY hw
    obtain ⟨hlh, hy, _, _, hgap⟩ := slab_level hu
    simp only at hlh hy hgap
    set m := (u + p.y) / 2 with hm
    have hpm : m < p.y := by rw [hm]; linarith
    have hbelow : ∀ q ∈ r0, q.y < p.y → q.y < m := by
      intro q hq hlt
      have : q.y ≤ u := by
        by_contra hh
        exact hgap q hq ⟨not_le.mp hh, hlt⟩
      rw [hm]; linarith
    by_cases hnd : nx.y < p.y
    · have snx : sgnE m (p, nx) = -1 := sgnE_down (hbelow nx hnxm hnd) hpm
      by_cases hpd : pv.y < p.y
      · -- both edges leave `p` downward
        have spv : sgnE m (pv, p) = 1 := sgnE_up (hbelow pv hpvm hpd) hpm
        have hord := pedges_order pv p nx m (ne_of_lt hpd) (ne_of_lt hnd)
        have hD : 0 < (pv.y - p.y) * (nx.y - p.y) := mul_pos_of_neg_of_neg (by linarith) (by linarith)
        have hapart := pedges_apart h e1 e2 n1 hy (by rw [spv]; decide) (by rw [snx]; decide)
        rcases lt_trichotomy (cross pv p nx) 0 with hc | hc | hc
        · have hlt : xAt m (pv, p) < xAt m (p, nx) := by
            have : 0 < (m - p.y) * cross pv p nx := mul_pos_of_neg_of_neg (by linarith) hc
            rw [← hord] at this
            by_contra hh
            have : (xAt m (p, nx) - xAt m (pv, p)) * ((pv.y - p.y) * (nx.y - p.y)) ≤ 0 :=
              mul_nonpos_of_nonpos_of_nonneg (by linarith [not_lt.mp hh]) (le_of_lt hD)
            linarith
          have := side_of_leftmost_pedge h hL hpx e1 e2 n1 n2 hlh hgap (Or.inr rfl)
            (e := (pv, p)) (e₂ := (p, nx)) (Or.inl ⟨rfl, rfl⟩) (by rw [spv]; decide)
            (Or.inr (le_of_lt hlt))
          rw [spv] at this
          exact fin0 (by simpa using this) hc
        · exfalso
          rw [hc, mul_zero] at hord
          rcases mul_eq_zero.mp hord with h0 | h0
          · exact hapart (by linarith)
          · exact absurd h0 (ne_of_gt hD)
        · have hlt : xAt m (p, nx) < xAt m (pv, p) := by
            have : (m - p.y) * cross pv p nx < 0 := mul_neg_of_neg_of_pos (by linarith) hc
            rw [← hord] at this
            by_contra hh
            have : 0 ≤ (xAt m (p, nx) - xAt m (pv, p)) * ((pv.y - p.y) * (nx.y - p.y)) :=
              mul_nonneg (by linarith [not_lt.mp hh]) (le_of_lt hD)
            linarith
          have := side_of_leftmost_pedge h hL hpx e1 e2 n1 n2 hlh hgap (Or.inr rfl)
            (e := (p, nx)) (e₂ := (pv, p)) (Or.inr ⟨rfl, rfl⟩) (by rw [snx]; decide)
            (Or.inr (le_of_lt hlt))
          rw [snx] at this
          have hL1 : L = 1 := by
            have : L - 1 = 0 := by simpa using this
            omega
          exact fin1 hL1 hc
      · -- `(pv, p)` is horizontal
        have hpve : pv.y = p.y := le_antisymm hpvle (not_lt.mp hpd)
        have spv : sgnE m (pv, p) = 0 := sgnE_above (by linarith) hpm
        have := side_of_leftmost_pedge h hL hpx e1 e2 n1 n2 hlh hgap (Or.inr rfl)
          (e := (p, nx)) (e₂ := (pv, p)) (Or.inr ⟨rfl, rfl⟩) (by rw [snx]; decide) (Or.inl spv)
        rw [snx] at this
        have hL1 : L = 1 := by
          have : L - 1 = 0 := by simpa using this
          omega
        apply fin1 hL1
        unfold cross
        rw [hpve]
        nlinarith [mul_pos (sub_pos.mpr hpvx) (sub_pos.mpr hnd)]
    · -- `(p, nx)` is horizontal, `(pv, p)` arrives from below
      have hnxe : nx.y = p.y := le_antisymm hnxle (not_lt.mp hnd)
      have hpd : pv.y < p.y := by
        rcases lt_or_eq_of_le hpvle with h0 | h0
        · exact h0
        · exact absurd ⟨hnxe, h0⟩ hflat
      have spv : sgnE m (pv, p) = 1 := sgnE_up (hbelow pv hpvm hpd) hpm
      have snx : sgnE m (p, nx) = 0 := sgnE_above hpm (by linarith)
      have := side_of_leftmost_pedge h hL hpx e1 e2 n1 n2 hlh hgap (Or.inr rfl)
        (e := (pv, p)) (e₂ := (p, nx)) (Or.inl ⟨rfl, rfl⟩) (by rw [spv]; decide) (Or.inl snx)
      rw [spv] at this
      apply fin0 (by simpa using this)
      unfold cross
      rw [hnxe]
      nlinarith [mul_pos (sub_pos.mpr hpd) (sub_pos.mpr hnxx)]

end Geo.Proofs.SMLX
