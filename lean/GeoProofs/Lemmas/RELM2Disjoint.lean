/-
  RELM2 — the disjoint-envelope shortcut of the implementation for operands *with* interiors: on
  the validity domain every written coordinate (hole coordinates included) lies in the reported
  bounding rectangle and all rings are closed (C02X `dom_facts`), so operands whose reported
  rectangles do not intersect are separated along an axis and the model of the implementation
  returns the specification's matrix wherever `HasDimensions` agrees with the specification
  (`Spec.DimsSpec`, proved per type in Props/C01).
-/
import GeoProofs.Lemmas.RELMDisjoint
import GeoProofs.Lemmas.C02XBox

namespace Geo.Proofs.RELM2
open Geo Geo.GG Geo.RI Geo.Proofs.Spec Geo.Proofs.RELM

/-- an operand of the domain without a bounding rectangle has no coordinates -/
theorem allCoords_nil_of_bbox_none {g : Geom} (hd : Geo.Proofs.C02X.DomFacts g) (h : boundingRect g = none) :
    ∀ c, c ∉ allCoords (parts g) := by
  intro c hc
  have hs := Geo.Proofs.C19.bbox_spec g hd.rects
  rw [h] at hs
  have he : exteriorCoords g = [] := hs
  obtain ⟨⟨e, he', _⟩, _⟩ := hd.boxed c hc
  rw [he] at he'
  cases he'

/-- operands of the validity domain whose reported rectangles do not intersect (or one of which has
none) have their written coordinates separated along an axis -/
theorem sep_of_envelopes_dom {a b : Geom} (ha : inDomain a = true) (hb : inDomain b = true)
    (h : envelopesMeet a b = false) : Sep (parts a) (parts b) := by
  have fa := Geo.Proofs.C02X.dom_facts a ha
  have fb := Geo.Proofs.C02X.dom_facts b hb
  cases hba : boundingRect a with
  | none =>
    left
    intro p hp
    exact absurd hp (allCoords_nil_of_bbox_none fa hba p)
  | some ra =>
    cases hbb : boundingRect b with
    | none =>
      left
      intro p _ q hq
      exact absurd hq (allCoords_nil_of_bbox_none fb hbb q)
    | some rb =>
      exact sep_of_envelopes hba hbb h (fun mn mx hm => Geo.Proofs.C02X.coords_in_bbox fa hm)
        (fun mn mx hm => Geo.Proofs.C02X.coords_in_bbox fb hm)

/-- **the disjoint-envelope shortcut is sound on the validity domain**, polygons with holes
included: the hypotheses "coordinates in the reported rectangle" and "exterior rings closed" of
`relateImplWith_disjoint_eq_spec` follow from validity. -/
theorem relateImplWith_disjoint_eq_spec_dom (ar : Arith) {a b : Geom} (ha : inDomain a = true) (hb : inDomain b = true)
    (h : envelopesMeet a b = false) (da : DimsSpec a) (db : DimsSpec b) :
    relateImplWith ar a b = some (relateSpec a b) := by
  rw [relateImplWith_of_disjoint ar a b h,
    relateSpec_disjoint_of_dimsSpec (sep_of_envelopes_dom ha hb h)
      (Geo.Proofs.C02X.dom_facts a ha).closed.ext (Geo.Proofs.C02X.dom_facts b hb).closed.ext da db]

end Geo.Proofs.RELM2
