/-
  GeoProofs.Lemmas.C12Fold — `Closest::best_of_two` and the `closest_of` loop are an arg-min fold
  with a sound early exit; lifted through the per-type dispatch of `closest_point`.
-/
import GeoProofs.Lemmas.C12Line

namespace Geo.Proofs.C12
open Geo Geo.CP Geo.Proofs.Kernel

theorem Spec.congr {p : Pt} {H H' : Prop} {L L' : Pt → Prop} {c : Closest}
    (hH : H ↔ H') (hL : ∀ q, L q ↔ L' q) (h : Spec p H L c) : Spec p H' L' c := by
  cases c with
  | intersection x => exact ⟨h.1, hH.1 h.2⟩
  | single x =>
    exact ⟨(hL x).1 h.1, fun h' => h.2.1 (hH.2 h'), fun q hq => h.2.2 q ((hL q).2 hq)⟩
  | indeterminate => exact ⟨fun h' => h.1 (hH.2 h'), fun q hq => h.2 q ((hL q).2 hq)⟩

/-- [T] `bestOfTwo_min`: `best_of_two` of two sound answers is a sound answer for the union: an
`Intersection` wins, `Indeterminate` loses, and of two `SinglePoint`s the one at the smaller
squared distance is kept (ties keep `self`). -/
theorem bestOfTwo_spec {p : Pt} {H1 H2 : Prop} {L1 L2 : Pt → Prop} {got best : Closest}
    (hg : Spec p H1 L1 got) (hb : Spec p H2 L2 best) :
    Spec p (H1 ∨ H2) (fun q => L1 q ∨ L2 q) (bestOfTwo got best p) := by
  cases got with
  | indeterminate =>
    simp only [bestOfTwo]
    cases best with
    | intersection x => exact ⟨hb.1, Or.inr hb.2⟩
    | single x =>
      refine ⟨Or.inr hb.1, fun h => h.elim hg.1 hb.2.1, ?_⟩
      intro q hq
      rcases hq with hq | hq
      · exact absurd hq (hg.2 q)
      · exact hb.2.2 q hq
    | indeterminate =>
      exact ⟨fun h => h.elim hg.1 hb.1, fun q hq => hq.elim (hg.2 q) (hb.2 q)⟩
  | intersection x =>
    simp only [bestOfTwo]
    exact ⟨hg.1, Or.inl hg.2⟩
  | single l =>
    cases best with
    | indeterminate =>
      simp only [bestOfTwo]
      refine ⟨Or.inl hg.1, fun h => h.elim hg.2.1 hb.1, ?_⟩
      intro q hq
      rcases hq with hq | hq
      · exact hg.2.2 q hq
      · exact absurd hq (hb.2 q)
    | intersection x =>
      simp only [bestOfTwo]
      exact ⟨hb.1, Or.inr hb.2⟩
    | single r =>
      simp only [bestOfTwo]
      by_cases hle : dist2 l p ≤ dist2 r p
      · simp only [hle, if_true]
        refine ⟨Or.inl hg.1, fun h => h.elim hg.2.1 hb.2.1, ?_⟩
        intro q hq
        rcases hq with hq | hq
        · exact hg.2.2 q hq
        · exact le_trans hle (hb.2.2 q hq)
      · simp only [hle, if_false]
        refine ⟨Or.inr hb.1, fun h => h.elim hg.2.1 hb.2.1, ?_⟩
        intro q hq
        rcases hq with hq | hq
        · exact le_trans (le_of_lt (not_le.1 hle)) (hg.2.2 q hq)
        · exact hb.2.2 q hq

theorem Spec.of_isIntersection {p : Pt} {H H' : Prop} {L L' : Pt → Prop} {c : Closest}
    (hi : c.isIntersection = true) (hH : H → H') (h : Spec p H L c) : Spec p H' L' c := by
  cases c with
  | intersection x => exact ⟨h.1, hH h.2⟩
  | single x => simp [Closest.isIntersection] at hi
  | indeterminate => simp [Closest.isIntersection] at hi

/-- the loop of `closest_of` from any sound running `best` -/
theorem closestFold_spec {ι : Type} (p : Pt) (c : ι → Closest) (H : ι → Prop) (L : ι → Pt → Prop) :
    ∀ (l : List ι) (best : Closest) (H0 : Prop) (L0 : Pt → Prop),
      (∀ e ∈ l, Spec p (H e) (L e) (c e)) → Spec p H0 L0 best →
      Spec p (H0 ∨ ∃ e ∈ l, H e) (fun q => L0 q ∨ ∃ e ∈ l, L e q) (closestFold p (l.map c) best)
  | [], best, H0, L0, _, hb => by
    simp only [List.map_nil, closestFold]
    exact hb.congr (by simp) (by simp)
  | e :: rest, best, H0, L0, hl, hb => by
    simp only [List.map_cons, closestFold]
    have hstep := bestOfTwo_spec (hl e (List.mem_cons_self)) hb
    by_cases hi : (bestOfTwo (c e) best p).isIntersection = true
    · simp only [hi, if_true]
      refine Spec.of_isIntersection hi ?_ hstep
      intro h
      rcases h with h | h
      · exact Or.inr ⟨e, List.mem_cons_self, h⟩
      · exact Or.inl h
    · simp only [hi]
      have ih := closestFold_spec p c H L rest _ _ _ (fun e' he' => hl e' (List.mem_cons_of_mem _ he')) hstep
      refine ih.congr ?_ ?_
      · constructor
        · rintro ((h | h) | ⟨e', he', h⟩)
          · exact Or.inr ⟨e, List.mem_cons_self, h⟩
          · exact Or.inl h
          · exact Or.inr ⟨e', List.mem_cons_of_mem _ he', h⟩
        · rintro (h | ⟨e', he', h⟩)
          · exact Or.inl (Or.inr h)
          · rcases List.mem_cons.1 he' with rfl | he'
            · exact Or.inl (Or.inl h)
            · exact Or.inr ⟨e', he', h⟩
      · intro q
        constructor
        · rintro ((h | h) | ⟨e', he', h⟩)
          · exact Or.inr ⟨e, List.mem_cons_self, h⟩
          · exact Or.inl h
          · exact Or.inr ⟨e', List.mem_cons_of_mem _ he', h⟩
        · rintro (h | ⟨e', he', h⟩)
          · exact Or.inl (Or.inr h)
          · rcases List.mem_cons.1 he' with rfl | he'
            · exact Or.inl (Or.inl h)
            · exact Or.inr ⟨e', he', h⟩

/-- [T] `closestOf_argmin`: `closest_of` over any list of elements with sound answers is a sound
answer for the union of their loci: `Intersection` iff some element is hit (early exit is sound),
otherwise a candidate of minimal squared distance, `Indeterminate` iff there is no candidate. -/
theorem closestOf_spec {ι : Type} (p : Pt) (f : ι → Closest) (H : ι → Prop) (L : ι → Pt → Prop)
    (l : List ι) (hl : ∀ e ∈ l, Spec p (H e) (L e) (f e)) :
    Spec p (∃ e ∈ l, H e) (fun q => ∃ e ∈ l, L e q) (closestOf f p l) := by
  unfold closestOf
  have h0 : Spec p False (fun _ => False) Closest.indeterminate := ⟨id, fun _ => id⟩
  exact (closestFold_spec p f H L l _ _ _ hl h0).congr (by simp) (by simp)

/-! ### loci -/

/-- on some non-degenerate segment of the list -/
def SegsLocus (ss : List (Pt × Pt)) (q : Pt) : Prop := ∃ s ∈ ss, OnSeg s.1 s.2 q

theorem onSegsNZ_iff (ss : List (Pt × Pt)) (p : Pt) : onSegsNZ ss p = true ↔ SegsLocus ss p := by
  simp only [onSegsNZ, SegsLocus, OnSeg, List.any_eq_true, Bool.and_eq_true, bne_iff_ne, ne_eq]
  constructor
  · rintro ⟨s, hs, hne, hc⟩
    exact ⟨s, hs, hne, (lineCoord_iff _ _ _).1 hc⟩
  · rintro ⟨s, hs, hne, hc⟩
    exact ⟨s, hs, hne, (lineCoord_iff _ _ _).2 hc⟩

theorem SegsLocus_append (a b : List (Pt × Pt)) (q : Pt) :
    SegsLocus (a ++ b) q ↔ SegsLocus a q ∨ SegsLocus b q := by
  simp only [SegsLocus, List.mem_append]
  constructor
  · rintro ⟨s, hs | hs, h⟩
    · exact Or.inl ⟨s, hs, h⟩
    · exact Or.inr ⟨s, hs, h⟩
  · rintro (⟨s, hs, h⟩ | ⟨s, hs, h⟩)
    · exact ⟨s, Or.inl hs, h⟩
    · exact ⟨s, Or.inr hs, h⟩

theorem SegsLocus_flatMap {α : Type} (f : α → List (Pt × Pt)) (l : List α) (q : Pt) :
    SegsLocus (l.flatMap f) q ↔ ∃ e ∈ l, SegsLocus (f e) q := by
  simp only [SegsLocus, List.mem_flatMap]
  constructor
  · rintro ⟨s, ⟨e, he, hs⟩, h⟩
    exact ⟨e, he, s, hs, h⟩
  · rintro ⟨e, he, s, hs, h⟩
    exact ⟨s, ⟨e, he, hs⟩, h⟩

/-- segments: the fold over `lines()` -/
theorem segsClosest_spec (ss : List (Pt × Pt)) (p : Pt) :
    Spec p (SegsLocus ss p) (SegsLocus ss)
      (closestOf (fun (s : Pt × Pt) => lineClosest s.1 s.2 p) p ss) :=
  closestOf_spec p (fun (s : Pt × Pt) => lineClosest s.1 s.2 p) (fun s => OnSeg s.1 s.2 p)
    (fun s => OnSeg s.1 s.2) ss (fun s _ => line_closest_spec s.1 s.2 p)

theorem lsClosest_spec (cs : List Pt) (p : Pt) :
    Spec p (SegsLocus (segs cs) p) (SegsLocus (segs cs)) (lsClosest cs p) :=
  segsClosest_spec (segs cs) p

theorem pointClosest_spec (q p : Pt) : Spec p (q = p) (fun x => x = q) (pointClosest q p) := by
  unfold pointClosest
  by_cases h : q = p
  · simp only [h, if_true, Spec]; exact ⟨trivial, trivial⟩
  · simp only [h, if_false, Spec]
    refine ⟨trivial, not_false, ?_⟩
    intro x hx; rw [hx]

/-- an areal type: `intersects(p)` first, else the fold over its boundary segments -/
theorem arealClosest_spec (hit : Bool) (ss : List (Pt × Pt)) (p : Pt) (r : Closest)
    (hr : Spec p (SegsLocus ss p) (SegsLocus ss) r) :
    Spec p (hit = true ∨ SegsLocus ss p) (SegsLocus ss) (if hit then .intersection p else r) := by
  cases hit with
  | true => exact ⟨rfl, Or.inl rfl⟩
  | false =>
    simp only [Bool.false_eq_true, if_false]
    exact hr.congr (by simp) (fun _ => Iff.rfl)

theorem polyHits_iff (poly : Poly) (p : Pt) :
    polyHits poly p = true ↔
      ((coordPos (.polygon poly) p != .outside) = true ∨ SegsLocus (Poly.ringSegs poly) p) := by
  unfold polyHits
  rw [Bool.or_eq_true]
  apply or_congr Iff.rfl
  rw [List.any_eq_true, Poly.ringSegs, SegsLocus_flatMap]
  constructor
  · rintro ⟨r, hr, hs⟩; exact ⟨r, hr, (onSegsNZ_iff _ _).1 hs⟩
  · rintro ⟨r, hr, hs⟩; exact ⟨r, hr, (onSegsNZ_iff _ _).2 hs⟩

theorem polyClosest_spec (poly : Poly) (p : Pt) :
    Spec p (polyHits poly p = true) (SegsLocus (Poly.ringSegs poly)) (polyClosest poly p) := by
  have h := closestOf_spec p (fun r => lsClosest r p) (fun r => SegsLocus (segs r) p)
    (fun r => SegsLocus (segs r)) (poly.ints ++ [poly.ext]) (fun r _ => lsClosest_spec r p)
  have h' : Spec p (SegsLocus (Poly.ringSegs poly) p) (SegsLocus (Poly.ringSegs poly))
      (closestOf (fun r => lsClosest r p) p (poly.ints ++ [poly.ext])) :=
    h.congr (SegsLocus_flatMap segs _ p).symm (fun q => (SegsLocus_flatMap segs _ q).symm)
  have := arealClosest_spec (coordPos (.polygon poly) p != .outside) _ p _ h'
  unfold polyClosest
  exact this.congr (polyHits_iff poly p).symm (fun _ => Iff.rfl)

end Geo.Proofs.C12
