/-
  C02Z, part 2: a simple line string (`lineStringSimple`, the validity predicate of a `LineString`) has a `SimpleChain`
  RAW segment list — the list `segs cs` with its zero-length segments `(p, p)` of repeated coordinates still in it.

  `lineStringSimple` speaks of the segments of the merged coordinate list `dedupConsecutive cs`; these are the proper
  segments of `segs cs`, in the same order (`segs_filter_nondeg`). A zero-length segment is a single point, which is the
  end point of the segment before it: so a point of a later zero-length segment is also a point of a later proper segment,
  or it is the end point of the segment in hand.
-/
import GeoProofs.Lemmas.C02ZChain
import GeoProofs.Lemmas.WINDSimple
import GeoProofs.Lemmas.C12QSimple

set_option linter.unusedSimpArgs false
set_option linter.unusedVariables false

namespace Geo.Proofs.C02Z
open Geo Geo.Proofs.Kernel Geo.Proofs.Spec

/-- consecutive segments of the list share a vertex: the end of one is the start of the next -/
def Chained : List (Pt × Pt) → Prop
  | s :: t :: rest => s.2 = t.1 ∧ Chained (t :: rest)
  | _ => True

theorem chained_segs : ∀ cs : List Pt, Chained (segs cs)
  | [] => trivial
  | [_] => trivial
  | [_, _] => trivial
  | a :: b :: c :: rest => by
    have ih := chained_segs (b :: c :: rest)
    simp only [segs] at ih ⊢
    exact ⟨rfl, ih⟩

theorem Chained.tail {s : Pt × Pt} : ∀ {L : List (Pt × Pt)}, Chained (s :: L) → Chained L
  | [], _ => trivial
  | _ :: _, h => h.2

theorem Chained.suffix : ∀ (pre : List (Pt × Pt)) {L : List (Pt × Pt)}, Chained (pre ++ L) → Chained L
  | [], _, h => h
  | _ :: pre, _, h => Chained.suffix pre (Chained.tail h)

/-- walking back over the zero-length segments: a point of a later segment is the end point of the segment in hand, or
a point of a later PROPER segment -/
theorem walk_back (x : Pt) : ∀ (post : List (Pt × Pt)) (seg : Pt × Pt), Chained (seg :: post) →
    (∃ t ∈ post, SegMem x t.1 t.2) →
    x = seg.2 ∨ ∃ t ∈ post, t.1 ≠ t.2 ∧ SegMem x t.1 t.2
  | [], _, _, h => by
    obtain ⟨t, ht, _⟩ := h
    simp at ht
  | u :: post, seg, hc, h => by
    obtain ⟨t, ht, hxt⟩ := h
    have hsu : seg.2 = u.1 := hc.1
    by_cases hu : u.1 = u.2
    · -- `u` is a single point, the end point of `seg`
      have hux : ∀ y, SegMem y u.1 u.2 → y = seg.2 := by
        intro y hy
        rw [← hu] at hy
        rw [hsu]
        exact (SegMem_degenerate _ _).1 hy
      rcases List.mem_cons.1 ht with rfl | ht'
      · exact Or.inl (hux x hxt)
      · rcases walk_back x post u hc.2 ⟨t, ht', hxt⟩ with h1 | ⟨t', ht', hne, hx'⟩
        · left
          apply hux
          rw [h1]
          exact SegMem_right _ _
        · exact Or.inr ⟨t', List.mem_cons_of_mem _ ht', hne, hx'⟩
    · rcases List.mem_cons.1 ht with rfl | ht'
      · exact Or.inr ⟨t, List.mem_cons_self, hu, hxt⟩
      · rcases walk_back x post u hc.2 ⟨t, ht', hxt⟩ with h1 | ⟨t', ht', hne, hx'⟩
        · right
          refine ⟨u, List.mem_cons_self, hu, ?_⟩
          rw [h1]
          exact SegMem_right _ _
        · exact Or.inr ⟨t', List.mem_cons_of_mem _ ht', hne, hx'⟩

/-- the positions of an element and of a later element of a list -/
theorem idx_of_split {α : Type} (A B : List α) (s t : α) (ht : t ∈ B) :
    ∃ j, A.length < j ∧ (A ++ s :: B)[A.length]? = some s ∧ (A ++ s :: B)[j]? = some t := by
  obtain ⟨k, hk⟩ := List.mem_iff_getElem?.1 ht
  refine ⟨A.length + 1 + k, by omega, by simp, ?_⟩
  rw [List.getElem?_append_right (by omega)]
  have e : A.length + 1 + k - A.length = k + 1 := by omega
  rw [e, List.getElem?_cons_succ]
  exact hk

/-- the last segment ends in the last coordinate -/
theorem segs_getLast : ∀ (l : List Pt) (t : Pt × Pt), (segs l).getLast? = some t → l.getLast? = some t.2
  | [], _, h => by simp [segs] at h
  | [_], _, h => by simp [segs] at h
  | [a, b], t, h => by
    simp only [segs, List.getLast?_singleton, Option.some.injEq] at h
    rw [← h]
    rfl
  | a :: b :: c :: rest, t, h => by
    have ih := segs_getLast (b :: c :: rest) t
    simp only [segs] at ih h
    rw [List.getLast?_cons_cons] at h
    rw [List.getLast?_cons_cons]
    exact ih h

/-- the common part: the exceptional point `w` is needed for a closed line string only -/
theorem simpleChain_core {cs : List Pt} (hs : lineStringSimple cs = true) (w : Pt)
    (hw : isClosedLS cs = true → cs.head? = some w) : SimpleChain w (segs cs) := by
  intro pre seg post e x hx hpost
  by_cases hd : seg.1 = seg.2
  · left
    rw [← hd] at hx ⊢
    exact (SegMem_degenerate _ _).1 hx
  have hch : Chained (seg :: post) := Chained.suffix pre (e ▸ chained_segs cs)
  rcases walk_back x post seg hch hpost with h1 | ⟨t, ht, hne, hxt⟩
  · exact Or.inl h1
  -- both proper: they are segments of the merged list, in this order
  have hD : segs (dedupConsecutive cs) =
      pre.filter (fun se => !(se.1 == se.2)) ++ seg :: post.filter (fun se => !(se.1 == se.2)) := by
    rw [← Geo.Proofs.WIND.segs_filter_nondeg, e, List.filter_append, List.filter_cons]
    simp [hd]
  have htf : t ∈ post.filter (fun se => !(se.1 == se.2)) := by
    rw [List.mem_filter]
    exact ⟨ht, by simpa using hne⟩
  obtain ⟨j, hij, hi, hj⟩ := idx_of_split (pre.filter (fun se => !(se.1 == se.2))) _ seg t htf
  rw [← hD] at hi hj
  unfold lineStringSimple at hs
  simp only [Bool.and_eq_true] at hs
  have hok := Geo.Proofs.C12.allPairs_spec hs.2 hij hi hj
  split at hok
  · exact Or.inl (Geo.Proofs.C12.adjacentOk_spec hok x hx hxt)
  · split at hok
    · rename_i hcond
      right
      rw [Geo.Proofs.C12.adjacentOk_spec hok x hxt hx]
      simp only [Bool.and_eq_true, beq_iff_eq, decide_eq_true_eq] at hcond
      obtain ⟨⟨hc, _⟩, hjn⟩ := hcond
      have hlast : (segs (dedupConsecutive cs)).getLast? = some t := by
        rw [List.getLast?_eq_getElem?, ← hjn, Nat.add_sub_cancel]
        exact hj
      have h2 := segs_getLast _ _ hlast
      rw [← hc, Geo.Proofs.C12.dedup_head] at h2
      have hcl : isClosedLS cs = true := by
        rw [Geo.Proofs.C12.dedup_head, Geo.Proofs.C12.dedup_getLast] at hc
        unfold isClosedLS
        exact decide_eq_true hc
      rw [hw hcl] at h2
      exact (Option.some.inj h2).symm
    · exfalso
      have : lineLine seg.1 seg.2 t.1 t.2 = true := (lineLine_iff _ _ _ _).2 ⟨x, hx, hxt⟩
      rw [this] at hok
      simp at hok

/-- a segment of a simple line string meets a later segment only in its own end point, or — closed line strings — in the
first coordinate -/
theorem simpleChain_of_simple {cs : List Pt} (hs : lineStringSimple cs = true) (w : Pt) (hw : cs.head? = some w) :
    SimpleChain w (segs cs) :=
  simpleChain_core hs w (fun _ => hw)

/-- open line strings: no exception -/
theorem simpleChain_of_simple_open {cs : List Pt} (hs : lineStringSimple cs = true) (hop : isClosedLS cs = false) (w : Pt) :
    SimpleChain w (segs cs) :=
  simpleChain_core hs w (fun h => by rw [hop] at h; exact absurd h (by simp))

/-- a closed line string with a repeated coordinate -/
example : SimpleChain (⟨0, 0⟩ : Pt) (segs [⟨0, 0⟩, ⟨2, 0⟩, ⟨2, 0⟩, ⟨2, 2⟩, ⟨0, 0⟩]) :=
  simpleChain_of_simple (by decide +kernel) _ rfl

/-- an open line string with a repeated coordinate: any `w` -/
example : SimpleChain (⟨7, 7⟩ : Pt) (segs [⟨0, 0⟩, ⟨2, 0⟩, ⟨2, 0⟩, ⟨2, 2⟩]) :=
  simpleChain_of_simple_open (by decide +kernel) (by decide +kernel) _

end Geo.Proofs.C02Z
