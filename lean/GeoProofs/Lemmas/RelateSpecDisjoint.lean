/-
  Lemmas about the executable DE-9IM specification (GeoModel/RelateSpec.lean), part 5:
  operands with strictly separated coordinate bounding boxes: every atom is exterior to one of the
  operands, so the four cells II, IB, BI, BB of the matrix are `F` (the shape produced by the
  disjoint-envelope shortcut `compute_disjoint`).
-/
import GeoModel.RelateSpec
import GeoProofs.Lemmas.SegmentSpec
import GeoProofs.Props.C11
import GeoProofs.Lemmas.RelateSpecLemmas
import GeoProofs.Lemmas.RelateSpecLocate
import GeoProofs.Lemmas.RelateSpecBBox
import GeoProofs.Lemmas.RelateSpecSwap
import Mathlib.Tactic.Linarith

namespace Geo.Proofs.Spec
open Geo Geo.Proofs.Kernel

/-! ### inside / strictly outside the coordinate bounding box -/

/-- `(x, y)` lies within the bounding box of the written coordinates -/
def Box (ps : Parts) (x y : Rat) : Prop :=
  (∃ c ∈ allCoords ps, c.x ≤ x) ∧ (∃ c ∈ allCoords ps, x ≤ c.x) ∧
  (∃ c ∈ allCoords ps, c.y ≤ y) ∧ (∃ c ∈ allCoords ps, y ≤ c.y)

/-- all exterior rings closed -/
def ClosedExt (ps : Parts) : Prop := ∀ q ∈ ps.areas, q.ext.head? = q.ext.getLast?

/-- `(x, y)` lies strictly outside the bounding box, on one of the four sides -/
def Far (ps : Parts) (x y : Rat) : Prop :=
  (∀ c ∈ allCoords ps, c.x < x) ∨ ((∀ c ∈ allCoords ps, x < c.x) ∧ ClosedExt ps) ∨
  (∀ c ∈ allCoords ps, c.y < y) ∨ (∀ c ∈ allCoords ps, y < c.y)

/-- the coordinate bounding boxes are strictly separated along one axis -/
def Sep (pa pb : Parts) : Prop :=
  (∀ a ∈ allCoords pa, ∀ b ∈ allCoords pb, a.x < b.x) ∨ (∀ a ∈ allCoords pa, ∀ b ∈ allCoords pb, b.x < a.x) ∨
  (∀ a ∈ allCoords pa, ∀ b ∈ allCoords pb, a.y < b.y) ∨ (∀ a ∈ allCoords pa, ∀ b ∈ allCoords pb, b.y < a.y)

theorem Sep.symm {pa pb : Parts} (h : Sep pa pb) : Sep pb pa := by
  rcases h with h | h | h | h
  · exact Or.inr (Or.inl fun b hb a ha => h a ha b hb)
  · exact Or.inl fun b hb a ha => h a ha b hb
  · exact Or.inr (Or.inr (Or.inr fun b hb a ha => h a ha b hb))
  · exact Or.inr (Or.inr (Or.inl fun b hb a ha => h a ha b hb))

theorem far_of_box {pa pb : Parts} (h : Sep pa pb) (hc : ClosedExt pb) {x y : Rat} (hb : Box pa x y) :
    Far pb x y := by
  obtain ⟨⟨c1, m1, l1⟩, ⟨c2, m2, l2⟩, ⟨c3, m3, l3⟩, ⟨c4, m4, l4⟩⟩ := hb
  rcases h with h | h | h | h
  · exact Or.inr (Or.inl ⟨fun b hb => lt_of_le_of_lt l2 (h c2 m2 b hb), hc⟩)
  · exact Or.inl fun b hb => lt_of_lt_of_le (h c1 m1 b hb) l1
  · exact Or.inr (Or.inr (Or.inr fun b hb => lt_of_le_of_lt l4 (h c4 m4 b hb)))
  · exact Or.inr (Or.inr (Or.inl fun b hb => lt_of_lt_of_le (h c3 m3 b hb) l3))

theorem locateParts_far {ps : Parts} {p : Pt} (h : Far ps p.x p.y) : locateParts ps p = .outside :=
  locate_outside_bbox ps p h

theorem locateFace_far {ps : Parts} {e : EPt} (h : Far ps e.x0 e.y0) : locateFace ps e = .outside :=
  locateFace_outside_bbox ps e h

theorem box_of_coord {ps : Parts} {c : Pt} (h : c ∈ allCoords ps) : Box ps c.x c.y :=
  ⟨⟨c, h, le_refl _⟩, ⟨c, h, le_refl _⟩, ⟨c, h, le_refl _⟩, ⟨c, h, le_refl _⟩⟩

/-- the box is convex: anything coordinate-wise between two box points is a box point -/
theorem box_between {ps : Parts} {x1 y1 x2 y2 x y : Rat} (h1 : Box ps x1 y1) (h2 : Box ps x2 y2)
    (hx : min x1 x2 ≤ x ∧ x ≤ max x1 x2) (hy : min y1 y2 ≤ y ∧ y ≤ max y1 y2) : Box ps x y := by
  obtain ⟨⟨a1, ma1, la1⟩, ⟨a2, ma2, la2⟩, ⟨a3, ma3, la3⟩, ⟨a4, ma4, la4⟩⟩ := h1
  obtain ⟨⟨b1, mb1, lb1⟩, ⟨b2, mb2, lb2⟩, ⟨b3, mb3, lb3⟩, ⟨b4, mb4, lb4⟩⟩ := h2
  refine ⟨?_, ?_, ?_, ?_⟩
  · rcases le_total x1 x2 with g | g
    · rw [min_eq_left g] at hx; exact ⟨a1, ma1, le_trans la1 hx.1⟩
    · rw [min_eq_right g] at hx; exact ⟨b1, mb1, le_trans lb1 hx.1⟩
  · rcases le_total x1 x2 with g | g
    · rw [max_eq_right g] at hx; exact ⟨b2, mb2, le_trans hx.2 lb2⟩
    · rw [max_eq_left g] at hx; exact ⟨a2, ma2, le_trans hx.2 la2⟩
  · rcases le_total y1 y2 with g | g
    · rw [min_eq_left g] at hy; exact ⟨a3, ma3, le_trans la3 hy.1⟩
    · rw [min_eq_right g] at hy; exact ⟨b3, mb3, le_trans lb3 hy.1⟩
  · rcases le_total y1 y2 with g | g
    · rw [max_eq_right g] at hy; exact ⟨b4, mb4, le_trans hy.2 lb4⟩
    · rw [max_eq_left g] at hy; exact ⟨a4, ma4, le_trans hy.2 la4⟩

theorem box_of_lineCoord {ps : Parts} {a b v : Pt} (ha : Box ps a.x a.y) (hb : Box ps b.x b.y)
    (h : lineCoord a b v = true) : Box ps v.x v.y := by
  have hr := ((lineCoord_eq a b v).mp h).2
  rw [pointInRect_iff_min_max] at hr
  exact box_between ha hb hr.1 hr.2

theorem box_of_midpoint {ps : Parts} {u v : Pt} (hu : Box ps u.x u.y) (hv : Box ps v.x v.y) :
    Box ps (midpoint u v).x (midpoint u v).y := by
  apply box_between hu hv
  · simp only [midpoint]
    rcases le_total u.x v.x with g | g
    · rw [min_eq_left g, max_eq_right g]; constructor <;> linarith
    · rw [min_eq_right g, max_eq_left g]; constructor <;> linarith
  · simp only [midpoint]
    rcases le_total u.y v.y with g | g
    · rw [min_eq_left g, max_eq_right g]; constructor <;> linarith
    · rw [min_eq_right g, max_eq_left g]; constructor <;> linarith

theorem box_of_seg {ps : Parts} {s : Pt × Pt} (hs : s ∈ ps.allSegs) {v : Pt}
    (h : lineCoord s.1 s.2 v = true) : Box ps v.x v.y := by
  obtain ⟨h1, h2⟩ := mem_allSegs_coords hs
  exact box_of_lineCoord (box_of_coord h1) (box_of_coord h2) h

/-! ### where the vertices are -/

theorem mem_pairVertices {ss : List (Pt × Pt)} {x : Pt} (h : x ∈ pairVertices ss) :
    ∃ s ∈ ss, ∃ t ∈ ss, x ∈ segVertex s t := by
  induction ss with
  | nil => simp [pairVertices] at h
  | cons a rest ih =>
    simp only [pairVertices, List.mem_append, List.mem_flatMap] at h
    rcases h with ⟨t, ht, hx⟩ | h
    · exact ⟨a, by simp, t, List.mem_cons_of_mem _ ht, hx⟩
    · obtain ⟨s, hs, t, ht, hx⟩ := ih h
      exact ⟨s, List.mem_cons_of_mem _ hs, t, List.mem_cons_of_mem _ ht, hx⟩

theorem segVertex_on_first {s t : Pt × Pt} {x : Pt} (h : x ∈ segVertex s t) : lineCoord s.1 s.2 x = true := by
  unfold segVertex at h
  cases hl : lineIntersection s.1 s.2 t.1 t.2 with
  | none => simp [hl] at h
  | some r =>
    cases r with
    | single y f =>
      simp only [hl, List.mem_singleton] at h
      subst h
      exact (Geo.Proofs.C11.li_single_on_both _ _ _ _ _ _ hl).1
    | collinear _ _ => simp [hl] at h

theorem mem_singleOf {c : List Pt} {x : Pt} (h : x ∈ singleOf c) : x ∈ c := by
  unfold singleOf at h
  split at h
  · exact h
  · simp at h

/-- every vertex of the arrangement lies in the bounding box of one of the operands -/
theorem box_of_vert {pa pb : Parts} {v : Pt} (h : v ∈ vertsOf pa pb) : Box pa v.x v.y ∨ Box pb v.x v.y := by
  unfold vertsOf at h
  rw [mem_dedupPts] at h
  simp only [List.mem_append, endsOf, List.mem_flatMap] at h
  rcases h with (((⟨s, hs, hv⟩ | ⟨c, hc, hv⟩) | hv) | hv) | hv
  · have hv' : v = s.1 ∨ v = s.2 := by simpa using hv
    rcases hs with hs | hs
    · left
      obtain ⟨h1, h2⟩ := mem_allSegs_coords hs
      rcases hv' with rfl | rfl
      · exact box_of_coord h1
      · exact box_of_coord h2
    · right
      obtain ⟨h1, h2⟩ := mem_allSegs_coords hs
      rcases hv' with rfl | rfl
      · exact box_of_coord h1
      · exact box_of_coord h2
  · have hvc := mem_singleOf hv
    rcases hc with (hc | hc) | ⟨q, hq, hr⟩
    · exact Or.inl (box_of_coord (mem_allCoords_curve hc hvc))
    · exact Or.inr (box_of_coord (mem_allCoords_curve hc hvc))
    · rcases hq with hq | hq
      · exact Or.inl (box_of_coord (mem_allCoords_ring hq hr hvc))
      · exact Or.inr (box_of_coord (mem_allCoords_ring hq hr hvc))
  · exact Or.inl (box_of_coord (mem_allCoords_pts hv))
  · exact Or.inr (box_of_coord (mem_allCoords_pts hv))
  · obtain ⟨s, hs, t, _, hx⟩ := mem_pairVertices hv
    have hl := segVertex_on_first hx
    rw [List.mem_append] at hs
    rcases hs with hs | hs
    · exact Or.inl (box_of_seg hs hl)
    · exact Or.inr (box_of_seg hs hl)

/-! ### where the atoms of a segment are -/

theorem mem_insertByDist (a p x : Pt) (l : List Pt) : x ∈ insertByDist a p l ↔ x = p ∨ x ∈ l := by
  induction l with
  | nil => simp [insertByDist]
  | cons q qs ih =>
    simp only [insertByDist]
    split
    · simp
    · simp only [List.mem_cons, ih]; tauto

theorem mem_sortByDist (a x : Pt) (l : List Pt) : x ∈ sortByDist a l ↔ x ∈ l := by
  induction l with
  | nil => simp [sortByDist]
  | cons q qs ih =>
    simp only [sortByDist, List.foldr_cons] at ih ⊢
    rw [mem_insertByDist, ih]; simp

/-- every atom of a segment is located at a point (or perturbed point) whose standard part lies in
the bounding box of the segment's end points -/
theorem segAtoms_located (pa pb pc : Parts) (verts : List Pt) (s : Pt × Pt)
    (h1 : Box pc s.1.x s.1.y) (h2 : Box pc s.2.x s.2.y) {x : Atom} (hx : x ∈ segAtoms pa pb verts s) :
    (∃ m : Pt, Box pc m.x m.y ∧ x.posA = locateParts pa m ∧ x.posB = locateParts pb m) ∨
    (∃ e : EPt, Box pc e.x0 e.y0 ∧ x.posA = locateFace pa e ∧ x.posB = locateFace pb e) := by
  obtain ⟨a, b⟩ := s
  simp only [segAtoms] at hx
  split at hx
  · simp at hx
  · rw [List.mem_flatMap] at hx
    obtain ⟨⟨u, v⟩, huv, hx⟩ := hx
    obtain ⟨hu, hv⟩ := mem_of_mem_segs huv
    rw [mem_sortByDist, List.mem_filter] at hu hv
    have bu := box_of_lineCoord h1 h2 hu.2
    have bv := box_of_lineCoord h1 h2 hv.2
    have bm := box_of_midpoint bu bv
    split at hx
    · simp at hx
    · simp only [List.mem_cons, List.not_mem_nil, or_false] at hx
      rcases hx with rfl | rfl | rfl
      · exact Or.inl ⟨_, bm, rfl, rfl⟩
      · exact Or.inr ⟨_, bm, rfl, rfl⟩
      · exact Or.inr ⟨_, bm, rfl, rfl⟩

/-! ### the matrix of separated operands -/

/-- **Every atom of separated operands is exterior to one of them.** -/
theorem atom_outside_of_sep {pa pb : Parts} (h : Sep pa pb) (ca : ClosedExt pa) (cb : ClosedExt pb)
    {x : Atom} (hx : x ∈ atomsOf pa pb) : x.posA = .outside ∨ x.posB = .outside := by
  unfold atomsOf at hx
  rw [List.mem_append, List.mem_map, List.mem_flatMap] at hx
  rcases hx with ⟨v, hv, rfl⟩ | ⟨s, hs, hx⟩
  · rcases box_of_vert hv with b | b
    · exact Or.inr (locateParts_far (far_of_box h cb b))
    · exact Or.inl (locateParts_far (far_of_box h.symm ca b))
  · rw [List.mem_append] at hs
    rcases hs with hs | hs
    · obtain ⟨c1, c2⟩ := mem_allSegs_coords hs
      rcases segAtoms_located pa pb pa _ s (box_of_coord c1) (box_of_coord c2) hx with
        ⟨m, bm, _, e2⟩ | ⟨e, be, _, e2⟩
      · exact Or.inr (e2.trans (locateParts_far (far_of_box h cb bm)))
      · exact Or.inr (e2.trans (locateFace_far (far_of_box h cb be)))
    · obtain ⟨c1, c2⟩ := mem_allSegs_coords hs
      rcases segAtoms_located pa pb pb _ s (box_of_coord c1) (box_of_coord c2) hx with
        ⟨m, bm, e1, _⟩ | ⟨e, be, e1, _⟩
      · exact Or.inl (e1.trans (locateParts_far (far_of_box h.symm ca bm)))
      · exact Or.inl (e1.trans (locateFace_far (far_of_box h.symm ca be)))

/-- **Disjoint-envelope shortcut, matrix form**: if the coordinate bounding boxes of the operands
are strictly separated along an axis (exterior rings closed), every cell that is not in the
exterior row or column is `F` — the matrix has the shape `FF*FF****` that `compute_disjoint` emits. -/
theorem relateParts_sep {pa pb : Parts} (h : Sep pa pb) (ca : ClosedExt pa) (cb : ClosedExt pb)
    (x y : Pos) (hx : x ≠ .outside) (hy : y ≠ .outside) : (relateParts pa pb).get x y = .empty := by
  rw [relateParts_eq, get_set]
  have hne : ¬ (Pos.outside = x ∧ Pos.outside = y) := fun e => hx e.1.symm
  rw [if_neg hne]
  by_contra hc
  have h1 : Dim.zero.rank ≤ ((fold (atomsOf pa pb)).get x y).rank := by
    generalize (fold (atomsOf pa pb)).get x y = d at hc
    cases d <;> simp [Dim.rank] at hc ⊢
  rcases (fold_get _ x y .zero).mp h1 with h0 | ⟨a, ha, hax, hay, _⟩
  · cases h0
  · rcases atom_outside_of_sep h ca cb ha with e | e
    · exact hx (hax ▸ e)
    · exact hy (hay ▸ e)

end Geo.Proofs.Spec
