/-
  C04X, part 3: the Jordan-type facts behind "even-odd parity over the rings of a valid polygon is its
  interior" (S2), on a level `y` that avoids the coordinates, from the WIND / SMLX lemmas:

  * `simple_wind_level`: the winding number of a simple ring is `0` or the sign of its exact area;
  * `rings_apart_level`: two simple rings with `II = F`, `dim BB ≤ 0` (two holes of a valid polygon)
    never both wind around a point;
  * `hole_in_shell_level`: where a hole of a valid polygon winds, its shell winds.
-/
import GeoProofs.Lemmas.SMLXSign
import GeoProofs.Lemmas.WINDHoles

set_option linter.unusedSimpArgs false
set_option linter.unusedVariables false

namespace Geo.Proofs.C04X
open Geo Geo.IP Geo.Proofs.Kernel Geo.Proofs.Spec Geo.Proofs.C02Q Geo.Proofs.C12 Geo.Proofs.WIND
open Geo.Proofs.SMLX

/-! ### levels -/

theorem mem_crossXs {y : Rat} {es : List (Pt × Pt)} {t : Rat} (ht : t ∈ es.flatMap (crossXs y)) :
    ∃ e ∈ es, sgnE y e ≠ 0 ∧ t = xAt y e := by
  rw [List.mem_flatMap] at ht
  obtain ⟨e, he, hte⟩ := ht
  unfold crossXs at hte
  by_cases h0 : sgnE y e ≠ 0
  · rw [if_pos h0, List.mem_singleton] at hte; exact ⟨e, he, h0, hte⟩
  · rw [if_neg h0] at hte; cases hte

/-- the winding number counted from the right: the signed count of the crossings right of the point -/
theorem winding_level_right (x y : Rat) (r : List Pt) (hc : r.head? = r.getLast?)
    (hy : ∀ v ∈ r, v.y ≠ y) :
    windingE (EPt.ofPt ⟨x, y⟩) r = psum y (fun t => !decide (t ≤ x)) (segs r) := by
  rw [winding_level x y r hc hy]
  have h2 : (0 : Int) = psum y (fun t => decide (t ≤ x)) (segs r) +
      psum y (fun t => !decide (t ≤ x)) (segs r) := by
    have := psum_split y (fun t => decide (t ≤ x)) (segs r)
    rw [sum_sgnE_closed y r hc hy] at this
    exact this
  omega

/-- the winding number does not change between two abscissae with the same crossings on their left -/
theorem winding_same_level (x x' y : Rat) (r : List Pt) (hc : r.head? = r.getLast?)
    (hy : ∀ v ∈ r, v.y ≠ y)
    (h : ∀ t ∈ (segs r).flatMap (crossXs y), (t ≤ x ↔ t ≤ x')) :
    windingE (EPt.ofPt ⟨x, y⟩) r = windingE (EPt.ofPt ⟨x', y⟩) r := by
  rw [winding_level x y r hc hy, winding_level x' y r hc hy]
  congr 1
  apply psum_congr
  intro t ht
  exact decide_eq_decide.2 (h t ht)

/-- a value at or below `x` in a list: the greatest one -/
theorem exists_max_le (x : Rat) : ∀ l : List Rat, (∃ z ∈ l, z ≤ x) →
    ∃ z ∈ l, z ≤ x ∧ ∀ w ∈ l, w ≤ x → w ≤ z
  | [], h => by obtain ⟨z, hz, _⟩ := h; cases hz
  | a :: t, h => by
    by_cases ht : ∃ z ∈ t, z ≤ x
    · obtain ⟨z, hz, hzx, hmax⟩ := exists_max_le x t ht
      by_cases ha : a ≤ x
      · by_cases haz : a ≤ z
        · refine ⟨z, List.mem_cons_of_mem _ hz, hzx, fun w hw hwx => ?_⟩
          rcases List.mem_cons.1 hw with rfl | hw
          · exact haz
          · exact hmax w hw hwx
        · refine ⟨a, List.mem_cons_self, ha, fun w hw hwx => ?_⟩
          rcases List.mem_cons.1 hw with rfl | hw
          · exact le_refl _
          · exact le_trans (hmax w hw hwx) (le_of_lt (not_le.1 haz))
      · refine ⟨z, List.mem_cons_of_mem _ hz, hzx, fun w hw hwx => ?_⟩
        rcases List.mem_cons.1 hw with rfl | hw
        · exact absurd hwx ha
        · exact hmax w hw hwx
    · obtain ⟨z, hz, hzx⟩ := h
      rcases List.mem_cons.1 hz with rfl | hz
      · refine ⟨z, List.mem_cons_self, hzx, fun w hw hwx => ?_⟩
        rcases List.mem_cons.1 hw with rfl | hw
        · exact le_refl _
        · exact absurd ⟨w, hw, hwx⟩ ht
      · exact absurd ⟨z, hz, hzx⟩ ht

/-! ### one simple ring -/

/-- **the winding number of a simple ring is 0 or the sign of its exact area** (on a level that
avoids its coordinates; the point may even lie on the ring) -/
theorem simple_wind_level {r0 : List Pt} (h : ringSimple r0 = true) (x y : Rat)
    (hy : ∀ v ∈ r0, v.y ≠ y) :
    windingE (EPt.ofPt ⟨x, y⟩) r0 = 0 ∨
    (windingE (EPt.ofPt ⟨x, y⟩) r0 = 1 ∧ 0 < shoelace2 r0) ∨
    (windingE (EPt.ofPt ⟨x, y⟩) r0 = -1 ∧ shoelace2 r0 < 0) := by
  have hc := closed_of_simple h
  obtain ⟨L, hL01, hL⟩ := simple_faces h
  have hs := area_sign h hL01 hL
  rw [winding_level_right x y r0 hc hy]
  by_cases hex : ∃ t ∈ (segs r0).flatMap (crossXs y), x < t
  · obtain ⟨t1, ht1, hlt, hmin⟩ := exists_min_above x _ hex
    obtain ⟨⟨a, b⟩, he, hsg, rfl⟩ := mem_crossXs ht1
    have hsge : psum y (fun t => !decide (t ≤ x)) (segs r0) = sge y (xAt y (a, b)) (segs r0) := by
      unfold sge
      apply psum_congr
      intro t ht
      by_cases hle : t ≤ x
      · have : ¬ xAt y (a, b) ≤ t := by intro h'; linarith
        simp [hle, this]
      · have : xAt y (a, b) ≤ t := hmin t ht (not_le.1 hle)
        simp [hle, this]
    rw [hsge, crossing_suffix h hL hy he hsg]
    rcases hL01 with rfl | rfl
    · have hneg : shoelace2 r0 < 0 := by
        have : (2 * ((0 : Int) : Rat) - 1) * shoelace2 r0 = - shoelace2 r0 := by push_cast; ring
        rw [this] at hs; linarith
      by_cases h1 : sgnE y (a, b) = 1
      · rw [if_pos h1]; left; rfl
      · rw [if_neg h1]; right; right; exact ⟨by norm_num, hneg⟩
    · have hpos : 0 < shoelace2 r0 := by
        have : (2 * ((1 : Int) : Rat) - 1) * shoelace2 r0 = shoelace2 r0 := by push_cast; ring
        rw [this] at hs; exact hs
      by_cases h1 : sgnE y (a, b) = 1
      · rw [if_pos h1]; right; left; exact ⟨rfl, hpos⟩
      · rw [if_neg h1]; left; norm_num
  · left
    apply psum_zero
    intro t ht
    have : t ≤ x := by
      by_contra hn
      exact hex ⟨t, ht, not_le.1 hn⟩
    simp [this]

/-! ### two rings -/

/-- a crossing of `ra` at `t0 ≤ x` with no crossing of `rb` in `[t0, x]`: the point of `ra` is located
where `(x, y)` is with respect to `rb` -/
theorem inside_at_crossing {rb : List Pt} (hcb : rb.head? = rb.getLast?) {x y t0 : Rat}
    (hyb : ∀ v ∈ rb, v.y ≠ y) (ht0 : t0 ≤ x)
    (hnb : t0 ∉ (segs rb).flatMap (crossXs y))
    (hmax : ∀ t ∈ (segs rb).flatMap (crossXs y), t ≤ x → t ≤ t0)
    (hw : windingE (EPt.ofPt ⟨x, y⟩) rb ≠ 0) :
    locateParts (polyOf rb) ⟨t0, y⟩ = .inside := by
  rw [locate_polyOf_inside_iff]
  constructor
  · cases hon : onAnySeg ⟨t0, y⟩ (segs rb) with
    | false => rfl
    | true => exact absurd (on_ring_crossing hyb hon) hnb
  · rw [winding_same_level t0 x y rb hcb hyb]
    · exact hw
    · intro t ht
      constructor
      · intro h; exact le_trans h ht0
      · intro h; exact hmax t ht h

/-- **two simple rings with `II = F` and `dim BB ≤ 0` never both wind around a point** -/
theorem rings_apart_level {ra rb : List Pt} (hsa : ringSimple ra = true) (hsb : ringSimple rb = true)
    (hii : (relateParts (polyOf ra) (polyOf rb)).ii = .empty)
    (hbb : dimLe0 (relateParts (polyOf ra) (polyOf rb)).bb = true)
    (x y : Rat) (hya : ∀ v ∈ ra, v.y ≠ y) (hyb : ∀ v ∈ rb, v.y ≠ y) :
    windingE (EPt.ofPt ⟨x, y⟩) ra = 0 ∨ windingE (EPt.ofPt ⟨x, y⟩) rb = 0 := by
  by_contra hcon
  have hwa : windingE (EPt.ofPt ⟨x, y⟩) ra ≠ 0 := fun h => hcon (Or.inl h)
  have hwb : windingE (EPt.ofPt ⟨x, y⟩) rb ≠ 0 := fun h => hcon (Or.inr h)
  have hca := closed_of_simple hsa
  have hcb := closed_of_simple hsb
  obtain ⟨ta, hta, htax⟩ := exists_crossing_le_of_winding x y ra hca hya hwa
  obtain ⟨t0, ht0, ht0x, hmax⟩ := exists_max_le x
    ((segs ra).flatMap (crossXs y) ++ (segs rb).flatMap (crossXs y))
    ⟨ta, List.mem_append_left _ hta, htax⟩
  have hdisj : ∀ t, t ∈ (segs ra).flatMap (crossXs y) → t ∈ (segs rb).flatMap (crossXs y) → False := by
    intro t h1 h2
    exact rings_no_common_nonvertex_ii hsa hsb hii hbb (P := ⟨t, y⟩) (crossing_on_ring h1)
      (fun hm => hya _ hm rfl) (crossing_on_ring h2) (fun hm => hyb _ hm rfl)
  rcases List.mem_append.1 ht0 with h0 | h0
  · have hin := inside_at_crossing hcb hyb ht0x (fun h' => hdisj t0 h0 h')
      (fun t ht htx => hmax t (List.mem_append_right _ ht) htx) hwb
    exact (ii_empty_rings_apart hsa hsb hii ⟨t0, y⟩).1 (crossing_on_ring h0) hin
  · have hin := inside_at_crossing hca hya ht0x (fun h' => hdisj t0 h' h0)
      (fun t ht htx => hmax t (List.mem_append_left _ ht) htx) hwa
    exact (ii_empty_rings_apart hsa hsb hii ⟨t0, y⟩).2 (crossing_on_ring h0) hin

/-! ### hole and shell: `IE = F` keeps the shell ring out of the interior of the hole -/

theorem polyValid_hole_ie {q : Poly} (h : polyValid q = true) :
    ∀ r ∈ q.ints, (relateParts (polyOf r) (polyOf q.ext)).ie = .empty := by
  unfold polyValid polyValid.polyValidRings at h
  simp only [Bool.and_eq_true, List.all_eq_true, beq_iff_eq] at h
  obtain ⟨⟨⟨⟨_, _⟩, h3⟩, _⟩, _⟩ := h
  exact fun r hr => (h3 r hr).1.1.2

/-- no point of the (simple) shell ring `ra` is strictly inside the hole ring `rb` when the cell
`IE` of `(hole, shell)` is empty: beside the point one side of the shell edge is outside the shell
(`edgeJordan`) and inside the hole. -/
theorem ie_empty_ring_not_inside {ra rb : List Pt} (hsa : ringSimple ra = true)
    (hsb : ringSimple rb = true)
    (hie : (relateParts (polyOf rb) (polyOf ra)).ie = .empty) {p : Pt}
    (hp : onAnySeg p (segs ra) = true) : locateParts (polyOf rb) p ≠ .inside := by
  intro hin
  have hcell : (relateParts (polyOf ra) (polyOf rb)).get .outside .inside = .empty := by
    rw [relateParts_transpose (polyOf rb) (polyOf ra)]
    generalize relateParts (polyOf rb) (polyOf ra) = M at hie ⊢
    exact hie
  have hokb := ringOK_of_simple hsb
  have hoka := ringOK_of_simple hsa
  obtain ⟨a, b, hse, hab, hpm⟩ := simple_on_nondeg_edge hsa hp
  have hs' : (a, b) ∈ (polyOf ra).allSegs ++ (polyOf rb).allSegs := by
    rw [allSegs_polyOf]; exact List.mem_append_left _ hse
  obtain ⟨u, v, E, hmin⟩ := inside_elem hokb.1 hokb.2 hs' hab hpm hin
  obtain ⟨ha, hb⟩ := ends_mem_vertsOf hs'
  obtain ⟨_, hnv, hall⟩ := segAtoms_of_pair (polyOf ra) (polyOf rb) hab E.pair E.ne
  have hmw := E.midpoint_within
  have hnr : midpoint u v ∉ ra := by
    intro hmem
    obtain ⟨s, hs1, hs2⟩ := Geo.Proofs.C12.mem_segs_end ra _ hoka.2 hmem
    have hs3 : s ∈ (polyOf ra).allSegs ++ (polyOf rb).allSegs := by
      rw [allSegs_polyOf]; exact List.mem_append_left _ hs1
    obtain ⟨e1, e2⟩ := ends_mem_vertsOf hs3
    rcases hs2 with h | h
    · exact hnv (h ▸ e1)
    · exact hnv (h ▸ e2)
  have hjor := edgeJordan hsa hse hmw.1 hnr
  rw [locate_polyOf_inside_iff] at hmin
  obtain ⟨hoff, hw⟩ := hmin
  have hbL : locateFace (polyOf rb) (faceL a b (midpoint u v)) = .inside := by
    rw [locateFace_polyOf]
    have : windingE (faceL a b (midpoint u v)) rb = windingE (EPt.ofPt (midpoint u v)) rb :=
      windingE_perturb rb hokb.1 (midpoint u v) _ _ hoff
    rw [this, if_pos hw]
  have hbR : locateFace (polyOf rb) (faceR a b (midpoint u v)) = .inside := by
    rw [locateFace_polyOf]
    have : windingE (faceR a b (midpoint u v)) rb = windingE (EPt.ofPt (midpoint u v)) rb :=
      windingE_perturb rb hokb.1 (midpoint u v) _ _ hoff
    rw [this, if_pos hw]
  have hmemA : ∀ x, IsAtomAt (polyOf ra) (polyOf rb) a b (midpoint u v) x →
      x ∈ atomsOf (polyOf ra) (polyOf rb) := by
    intro x hx
    unfold atomsOf
    exact List.mem_append_right _ (List.mem_flatMap.mpr ⟨(a, b), hs', hall x hx⟩)
  rcases hjor with hL | hR
  · have haL : locateFace (polyOf ra) (faceL a b (midpoint u v)) = .outside := by
      rw [locateFace_polyOf]; simp [hL]
    exact cell_empty_no_atom hcell (hmemA _ (Or.inr (Or.inl rfl))) haL hbL
  · have haR : locateFace (polyOf ra) (faceR a b (midpoint u v)) = .outside := by
      rw [locateFace_polyOf]; simp [hR]
    exact cell_empty_no_atom hcell (hmemA _ (Or.inr (Or.inr rfl))) haR hbR

/-- **where a hole of a valid polygon winds, the shell winds** -/
theorem hole_in_shell_level {q : Poly} (hv : polyValid q = true) (x y : Rat)
    (hy : ∀ v ∈ q.coords, v.y ≠ y) :
    ∀ hole ∈ q.ints, windingE (EPt.ofPt ⟨x, y⟩) hole ≠ 0 → windingE (EPt.ofPt ⟨x, y⟩) q.ext ≠ 0 := by
  intro hole hh hw
  obtain ⟨hse, hsimple, _⟩ := polyValid_unpack hv
  have hsh := hsimple hole hh
  have hch := closed_of_simple hsh
  have hce := closed_of_simple hse
  have hr1 : hole ∈ q.rings := by simp [Poly.rings, hh]
  have hr2 : q.ext ∈ q.rings := by simp [Poly.rings]
  have hyh : ∀ v ∈ hole, v.y ≠ y := fun v hv' => hy v (mem_rings_coords hr1 hv')
  have hye : ∀ v ∈ q.ext, v.y ≠ y := fun v hv' => hy v (mem_rings_coords hr2 hv')
  obtain ⟨ta, hta, htax⟩ := exists_crossing_le_of_winding x y hole hch hyh hw
  obtain ⟨t0, ht0, ht0x, hmax⟩ := exists_max_le x
    ((segs hole).flatMap (crossXs y) ++ (segs q.ext).flatMap (crossXs y))
    ⟨ta, List.mem_append_left _ hta, htax⟩
  have hdisj := valid_hole_shell_disjoint hv hy hole hh
  rcases List.mem_append.1 ht0 with h0 | h0
  · -- the nearest crossing on the left is one of the hole: the shell winds there, and up to `x`
    have hws := valid_shell_winds hv hy hole hh t0 h0
    rw [winding_same_level x t0 y q.ext hce hye]
    · exact hws
    · intro t ht
      constructor
      · intro h; exact hmax t (List.mem_append_right _ ht) h
      · intro h; exact le_trans h ht0x
  · -- it is one of the shell: that point of the shell would be strictly inside the hole
    exfalso
    have hin := inside_at_crossing hch hyh ht0x (fun h' => hdisj t0 h' h0)
      (fun t ht htx => hmax t (List.mem_append_left _ ht) htx) hw
    exact ie_empty_ring_not_inside hse hsh (polyValid_hole_ie hv hole hh) (crossing_on_ring h0) hin

end Geo.Proofs.C04X
