/-
  C08 helper lemmas — the degenerate inputs of `convex_hull` (no three non-collinear coordinates:
  all collinear, all equal, one or two points): the ring is `close [m, M]` or `close [M, m]` for a
  lexicographically least coordinate `m` and a greatest one `M`, i.e. `[m, M, m]` / `[M, m, M]`
  (the two ends of the segment, closed) or `[m, m]` when all coordinates are equal.
-/
import GeoModel.Hull
import GeoProofs.Lemmas.C08Mem
import GeoProofs.Lemmas.C08QSort
import GeoProofs.Lemmas.C08QHull
import GeoProofs.Lemmas.QHULPart
import GeoProofs.Lemmas.QHULSet

namespace Geo.Proofs.C08
open Geo Geo.Hull

theorem hasTriangle_false {pts : List Pt} (h : hasTriangle pts = false) :
    ∀ a ∈ pts, ∀ b ∈ pts, ∀ c ∈ pts, cross a b c = 0 := by
  intro a ha b hb c hc
  by_contra hne
  have : hasTriangle pts = true := by
    unfold hasTriangle
    simp only [List.any_eq_true, bne_iff_ne, ne_eq]
    exact ⟨a, ha, b, hb, c, hc, hne⟩
  rw [h] at this
  exact Bool.false_ne_true this

theorem close_pair (a b : Pt) : close [a, b] = if b = a then [a, b] else [a, b, a] := by
  simp only [close, List.getLast?_cons_cons, List.getLast?_singleton, Option.some.injEq]
  split <;> simp

/-! ### four or more collinear coordinates: `quick_hull` -/

theorem partition_fst_nil (pred : Pt → Bool) (xs : List Pt) (h : ∀ x ∈ xs, pred x = false) :
    (partition pred xs).1 = [] := by
  apply List.eq_nil_iff_forall_not_mem.2
  intro x hx
  have h1 := (partition_spec pred xs).1 x hx
  have h2 := h x (partition_subset pred xs x (Or.inl hx))
  rw [h1] at h2
  exact Bool.noConfusion h2

/-- for collinear input the two partitions of `quick_hull` find no point strictly on either side
of `min → max`: the ring is `max, min` closed. -/
theorem quickHullRaw_collinear (rnd : Rat → Rat) (pts : List Pt) (h2 : 2 ≤ pts.length)
    (hnt : hasTriangle pts = false) :
    (quickHullRaw rnd pts).2 =
      close [(swapRemove (swapRemove pts (leastGreatest pts).1).2
        ((if (leastGreatest pts).2 = 0 then (leastGreatest pts).1 else (leastGreatest pts).2) - 1)).1,
        (swapRemove pts (leastGreatest pts).1).1] := by
  have hcol := hasTriangle_false hnt
  have hsub := quickHullRaw_subset rnd pts h2
  have hpne : pts ≠ [] := by intro h; simp [h] at h2
  unfold quickHullRaw at hsub ⊢
  dsimp only at hsub ⊢
  have hmn := swapRemove_fst_mem pts (leastGreatest pts).1 hpne
  have h1 := swapRemove_snd_subset pts (leastGreatest pts).1
  have hl1 := swapRemove_length pts (leastGreatest pts).1 hpne
  generalize swapRemove pts (leastGreatest pts).1 = s1 at *
  have hs1ne : s1.2 ≠ [] := by intro h; rw [h] at hl1; simp at hl1; omega
  have hmx := swapRemove_fst_mem s1.2
    ((if (leastGreatest pts).2 = 0 then (leastGreatest pts).1 else (leastGreatest pts).2) - 1) hs1ne
  have h2' := swapRemove_snd_subset s1.2
    ((if (leastGreatest pts).2 = 0 then (leastGreatest pts).1 else (leastGreatest pts).2) - 1)
  generalize swapRemove s1.2
    ((if (leastGreatest pts).2 = 0 then (leastGreatest pts).1 else (leastGreatest pts).2) - 1) = s2 at *
  have hs2 : ∀ x ∈ s2.2, x ∈ pts := fun x hx => h1 x (h2' x hx)
  have hmx' : s2.1 ∈ pts := h1 _ hmx
  have e1 : (partition (isCcw s2.1 s1.1) s2.2).1 = [] := by
    apply partition_fst_nil
    intro x hx
    rw [isCcw_false_iff, hcol _ hmx' _ hmn _ (hs2 x hx)]
  have hp1s := partition_subset (isCcw s2.1 s1.1) s2.2
  generalize partition (isCcw s2.1 s1.1) s2.2 = p1 at *
  obtain ⟨p11, p12⟩ := p1
  simp only at e1 hp1s
  subst e1
  simp only [List.length_nil, hullSet, List.nil_append] at hsub ⊢
  have e2 : (partition (isCcw s1.1 s2.1) p12).1 = [] := by
    apply partition_fst_nil
    intro x hx
    rw [isCcw_false_iff, hcol _ hmn _ hmx' _ (hs2 x (hp1s x (Or.inr hx)))]
  generalize partition (isCcw s1.1 s2.1) p12 = p2 at *
  obtain ⟨p21, p22⟩ := p2
  simp only at e2
  subst e2
  simp only [List.length_nil, hullSet, List.nil_append]

/-- **`quick_hull` of four or more collinear coordinates** is the closed pair `max, min` of the
lexicographic extremes (`[M, m, M]`, or `[m, m]` when all coordinates are equal) -/
theorem quickHull_collinear (rnd : Rat → Rat) (pts : List Pt) (h4 : 4 ≤ pts.length)
    (hnt : hasTriangle pts = false) :
    ∃ m M, m ∈ pts ∧ M ∈ pts ∧ (∀ x ∈ pts, ¬ lexLt x m = true) ∧ (∀ x ∈ pts, ¬ lexLt M x = true) ∧
      quickHull rnd pts = close [M, m] := by
  have hext := quickHull_extremes pts (by omega)
  have hraw := quickHullRaw_collinear rnd pts (by omega) hnt
  have hsub := (quickHullRaw_subset rnd pts (by omega)).2
  dsimp only at hext
  refine ⟨_, _, ?_, ?_, hext.1, hext.2, ?_⟩
  · exact hsub _ (by rw [hraw]; exact subset_close _ _ (by simp))
  · exact hsub _ (by rw [hraw]; exact subset_close _ _ (by simp))
  · unfold quickHull
    rw [if_neg (by omega)]
    dsimp only
    rw [if_neg]
    · exact hraw
    · have hlen : ∀ a b : Pt, (close [a, b]).length ≤ 3 := by
        intro a b; rw [close_pair]; split <;> simp
      have h3 : ¬ (quickHullRaw rnd pts).2.length > 3 := by
        rw [hraw]; exact not_lt.2 (hlen _ _)
      simp [h3]

/-! ### fewer than four coordinates: `trivial_hull` -/

def LexSorted (l : List Pt) : Prop := l.Pairwise (fun a b => ¬ lexLt b a = true)

theorem lexInsert_sorted (p : Pt) : ∀ l : List Pt, LexSorted l → LexSorted (lexInsert p l) := by
  intro l
  induction l with
  | nil => intro _; simp [lexInsert, LexSorted]
  | cons q t ih =>
    intro hs
    unfold LexSorted at hs ⊢
    rw [List.pairwise_cons] at hs
    simp only [lexInsert]
    split
    · rename_i hqp
      rw [List.pairwise_cons]
      refine ⟨?_, ih hs.2⟩
      intro y hy
      rw [lexInsert_mem] at hy
      rcases hy with hy | hy
      · rw [hy]; exact lexLt_asymm hqp
      · exact hs.1 y hy
    · rename_i hqp
      rw [List.pairwise_cons]
      refine ⟨?_, List.pairwise_cons.2 hs⟩
      intro y hy
      rcases List.mem_cons.1 hy with hy | hy
      · rw [hy]; exact hqp
      · intro hyp
        rcases lexLt_tricho q p hqp with h | h
        · rw [← h] at hyp; exact hs.1 y hy hyp
        · exact hs.1 y hy (lexLt_trans hyp h)

theorem lexSort_sorted (l : List Pt) : LexSorted (lexSort l) := by
  induction l with
  | nil => simp [lexSort, LexSorted]
  | cons a t ih =>
    have : lexSort (a :: t) = lexInsert a (lexSort t) := rfl
    rw [this]; exact lexInsert_sorted a _ ih

theorem makeCcw_short (r : List Pt) (h : r.length < 4) : makeCcw r = r := by
  unfold makeCcw windingOrder
  simp [h]

/-- **`trivial_hull(.., false)` of one to three coordinates without a triangle** is the closed pair
`min, max` of the lexicographic extremes (`[m, M, m]`, or `[m, m]` when all are equal) -/
theorem trivialHull_collinear (pts : List Pt) (hne : pts ≠ []) (hl : pts.length < 4)
    (hnt : hasTriangle pts = false) :
    ∃ m M, m ∈ pts ∧ M ∈ pts ∧ (∀ x ∈ pts, ¬ lexLt x m = true) ∧ (∀ x ∈ pts, ¬ lexLt M x = true) ∧
      trivialHull pts false = close [m, M] := by
  have hcol := hasTriangle_false hnt
  have hsl := lexSort_length pts
  have hsm := lexSort_mem pts
  have hss := lexSort_sorted pts
  unfold trivialHull trivialDedup
  simp only [Bool.false_eq_true, if_false]
  generalize lexSort pts = s at *
  unfold LexSorted at hss
  match s, hsl, hsm, hss with
  | [], hsl, _, _ =>
    exfalso; apply hne; exact List.eq_nil_of_length_eq_zero (by simpa using hsl.symm)
  | [a], _, hsm, _ =>
    refine ⟨a, a, (hsm a).1 (by simp), (hsm a).1 (by simp), ?_, ?_, ?_⟩
    · intro x hx
      have := (hsm x).2 hx
      simp at this; rw [this]; exact lexLt_irrefl _
    · intro x hx
      have := (hsm x).2 hx
      simp at this; rw [this]; exact lexLt_irrefl _
    · simp only [trivialPad]
      rw [makeCcw_short _ (by rw [close_pair]; simp)]
  | [a, b], _, hsm, hss =>
    simp only [List.pairwise_cons, List.mem_cons, List.not_mem_nil, or_false, forall_eq] at hss
    refine ⟨a, b, (hsm a).1 (by simp), (hsm b).1 (by simp), ?_, ?_, ?_⟩
    · intro x hx
      have := (hsm x).2 hx
      simp at this
      rcases this with h | h
      · rw [h]; exact lexLt_irrefl _
      · rw [h]; exact hss.1
    · intro x hx
      have := (hsm x).2 hx
      simp at this
      rcases this with h | h
      · rw [h]; exact hss.1
      · rw [h]; exact lexLt_irrefl _
    · simp only [trivialPad]
      rw [makeCcw_short _ (by rw [close_pair]; split <;> simp)]
  | [a, b, c], _, hsm, hss =>
    simp only [List.pairwise_cons, List.mem_cons, List.not_mem_nil, or_false, forall_eq_or_imp,
      forall_eq] at hss
    have hc0 : orient a b c = .col :=
      (orient_col_iff a b c).2 (hcol a ((hsm a).1 (by simp)) b ((hsm b).1 (by simp)) c
        ((hsm c).1 (by simp)))
    refine ⟨a, c, (hsm a).1 (by simp), (hsm c).1 (by simp), ?_, ?_, ?_⟩
    · intro x hx
      have := (hsm x).2 hx
      simp at this
      rcases this with h | h | h
      · rw [h]; exact lexLt_irrefl _
      · rw [h]; exact hss.1.1
      · rw [h]; exact hss.1.2
    · intro x hx
      have := (hsm x).2 hx
      simp at this
      rcases this with h | h | h
      · rw [h]; exact hss.1.2
      · rw [h]; exact hss.2.1
      · rw [h]; exact lexLt_irrefl _
    · simp only [hc0, if_true, trivialPad]
      rw [makeCcw_short _ (by rw [close_pair]; split <;> simp)]
  | _ :: _ :: _ :: _ :: _, hsl, _, _ => simp at hsl; omega

end Geo.Proofs.C08
