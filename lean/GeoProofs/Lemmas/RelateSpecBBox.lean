/-
  Lemmas about the executable DE-9IM specification (GeoModel/RelateSpec.lean), part 3:
  boundary semantics of `locateParts` (mod-2 rule) and the disjoint-envelope lemma: a point strictly
  outside the bounding box of all coordinates is located `outside`.
-/
import GeoModel.RelateSpec
import GeoProofs.Lemmas.SegmentSpec
import GeoProofs.Lemmas.RelateSpecLocate
import Mathlib.Tactic.Linarith
import Mathlib.Tactic.Ring

namespace Geo.Proofs.Spec
open Geo Geo.Proofs.Kernel

/-! ### signs of `eCrossSign` -/

/-- the standard part of the determinant evaluated by `eCrossSign` -/
def c0 (s e : Pt) (p : EPt) : Rat := (e.x - s.x) * (p.y0 - e.y) - (e.y - s.y) * (p.x0 - e.x)

theorem c0_eq (s e : Pt) (p : EPt) :
    c0 s e p = -((p.y0 - s.y) * (p.x0 - e.x)) - (e.y - p.y0) * (p.x0 - s.x) := by
  unfold c0; ring

theorem eCrossSign_of_pos {s e : Pt} {p : EPt} (h : 0 < c0 s e p) : eCrossSign s e p = 1 := by
  unfold c0 at h
  simp only [eCrossSign, gt_iff_lt, h, if_true]

theorem eCrossSign_of_neg {s e : Pt} {p : EPt} (h : c0 s e p < 0) : eCrossSign s e p = -1 := by
  unfold c0 at h
  have h' : ¬ (0 < (e.x - s.x) * (p.y0 - e.y) - (e.y - s.y) * (p.x0 - e.x)) := not_lt.mpr h.le
  simp only [eCrossSign, gt_iff_lt, h, h', if_true, if_false]

/-- an edge that crosses the sweep line upwards -/
theorem up_weights {s e : Pt} {p : EPt} (h1 : eLe s.y 0 p.y0 p.y1 = true) (h2 : eLt p.y0 p.y1 e.y 0 = true) :
    0 ≤ p.y0 - s.y ∧ 0 ≤ e.y - p.y0 ∧ 0 < (p.y0 - s.y) + (e.y - p.y0) := by
  rw [eLe_iff] at h1; rw [eLt_iff] at h2
  rcases h1 with h1 | ⟨h1, h1'⟩ <;> rcases h2 with h2 | ⟨h2, h2'⟩ <;>
    refine ⟨by linarith, by linarith, by linarith⟩

/-- an edge that crosses the sweep line downwards -/
theorem down_weights {s e : Pt} {p : EPt} (h1 : ¬ eLe s.y 0 p.y0 p.y1 = true) (h2 : eLe e.y 0 p.y0 p.y1 = true) :
    0 ≤ s.y - p.y0 ∧ 0 ≤ p.y0 - e.y ∧ 0 < (s.y - p.y0) + (p.y0 - e.y) := by
  rw [← eLt_iff_not_eLe, eLt_iff] at h1; rw [eLe_iff] at h2
  rcases h1 with h1 | ⟨h1, h1'⟩ <;> rcases h2 with h2 | ⟨h2, h2'⟩ <;>
    refine ⟨by linarith, by linarith, by linarith⟩

theorem comb_pos {a b u v : Rat} (ha : 0 ≤ a) (hb : 0 ≤ b) (hab : 0 < a + b) (hu : 0 < u) (hv : 0 < v) :
    0 < a * u + b * v := by
  rcases ha.lt_or_eq with h | h
  · have := mul_pos h hu
    have := mul_nonneg hb hv.le
    linarith
  · have hb' : 0 < b := by linarith
    have := mul_pos hb' hv
    rw [← h]; linarith

/-! ### one edge, the point strictly on one side of both end points -/

/-- both end points strictly left of the point: the edge contributes nothing -/
theorem edgeW_right (p : EPt) (s e : Pt) (hs : s.x < p.x0) (he : e.x < p.x0) : edgeW p (s, e) = 0 := by
  simp only [edgeW]
  by_cases h1 : eLe s.y 0 p.y0 p.y1 = true
  · by_cases h2 : eLt p.y0 p.y1 e.y 0 = true
    · obtain ⟨a, b, ab⟩ := up_weights h1 h2
      have := comb_pos a b ab (sub_pos.mpr he) (sub_pos.mpr hs)
      have hc : c0 s e p < 0 := by rw [c0_eq]; linarith
      rw [eCrossSign_of_neg hc]; simp [h1, h2]
    · simp [h1, h2]
  · by_cases h2 : eLe e.y 0 p.y0 p.y1 = true
    · obtain ⟨a, b, ab⟩ := down_weights h1 h2
      have := comb_pos a b ab (sub_pos.mpr he) (sub_pos.mpr hs)
      have hc : 0 < c0 s e p := by rw [c0_eq]; linarith
      rw [eCrossSign_of_pos hc]; simp [h1, h2]
    · simp [h1, h2]

/-- level indicator used for the telescoping sum: `0` at or below the sweep line, `1` above -/
def lvl (p : EPt) (v : Pt) : Int := if eLe v.y 0 p.y0 p.y1 then 0 else 1

/-- both end points strictly right of the point: upward crossings count `+1`, downward `-1` -/
theorem edgeW_left (p : EPt) (s e : Pt) (hs : p.x0 < s.x) (he : p.x0 < e.x) :
    edgeW p (s, e) = lvl p e - lvl p s := by
  simp only [edgeW, lvl]
  by_cases h1 : eLe s.y 0 p.y0 p.y1 = true
  · by_cases h2 : eLt p.y0 p.y1 e.y 0 = true
    · obtain ⟨a, b, ab⟩ := up_weights h1 h2
      have := comb_pos a b ab (sub_pos.mpr he) (sub_pos.mpr hs)
      have hc : 0 < c0 s e p := by rw [c0_eq]; linarith
      have h2' : ¬ eLe e.y 0 p.y0 p.y1 = true := (eLt_iff_not_eLe _ _ _ _).mp h2
      rw [eCrossSign_of_pos hc]; simp [h1, h2, h2']
    · have h2' : eLe e.y 0 p.y0 p.y1 = true := by
        by_contra hc; exact h2 ((eLt_iff_not_eLe _ _ _ _).mpr hc)
      simp [h1, h2, h2']
  · by_cases h2 : eLe e.y 0 p.y0 p.y1 = true
    · obtain ⟨a, b, ab⟩ := down_weights h1 h2
      have := comb_pos a b ab (sub_pos.mpr he) (sub_pos.mpr hs)
      have hc : c0 s e p < 0 := by rw [c0_eq]; linarith
      rw [eCrossSign_of_neg hc]; simp [h1, h2]
    · simp [h1, h2]

/-- both end points strictly below the point -/
theorem edgeW_above (p : EPt) (s e : Pt) (hs : s.y < p.y0) (he : e.y < p.y0) : edgeW p (s, e) = 0 := by
  simp only [edgeW]
  have h1 : eLe s.y 0 p.y0 p.y1 = true := (eLe_iff _ _ _ _).mpr (Or.inl hs)
  have h2 : ¬ eLt p.y0 p.y1 e.y 0 = true := by
    rw [eLt_iff]; rintro (h | ⟨h, _⟩) <;> linarith
  simp [h1, h2]

/-- both end points strictly above the point -/
theorem edgeW_below (p : EPt) (s e : Pt) (hs : p.y0 < s.y) (he : p.y0 < e.y) : edgeW p (s, e) = 0 := by
  simp only [edgeW]
  have h1 : ¬ eLe s.y 0 p.y0 p.y1 = true := by
    rw [eLe_iff]; rintro (h | ⟨h, _⟩) <;> linarith
  have h2 : ¬ eLe e.y 0 p.y0 p.y1 = true := by
    rw [eLe_iff]; rintro (h | ⟨h, _⟩) <;> linarith
  simp [h1, h2]

/-! ### whole rings -/

theorem mem_of_mem_segs {l : List Pt} {s : Pt × Pt} (h : s ∈ segs l) : s.1 ∈ l ∧ s.2 ∈ l := by
  induction l with
  | nil => simp [segs] at h
  | cons a t ih =>
    cases t with
    | nil => simp [segs] at h
    | cons b t' =>
      simp only [segs, List.mem_cons] at h
      rcases h with rfl | h
      · simp
      · have := ih h
        exact ⟨List.mem_cons_of_mem _ this.1, List.mem_cons_of_mem _ this.2⟩

theorem wsum_zero (p : EPt) {l : List (Pt × Pt)} (h : ∀ s ∈ l, edgeW p s = 0) : wsum p l = 0 := by
  induction l with
  | nil => rfl
  | cons x t ih =>
    simp only [wsum]
    rw [h x (List.mem_cons_self ..), ih (fun s hs => h s (List.mem_cons_of_mem _ hs))]
    rfl

/-- telescoping: a sum of differences along consecutive pairs -/
theorem wsum_telescope (p : EPt) (f : Pt → Int) (a : Pt) (t : List Pt)
    (h : ∀ s ∈ segs (a :: t), edgeW p s = f s.2 - f s.1) :
    wsum p (segs (a :: t)) = f ((a :: t).getLast (List.cons_ne_nil _ _)) - f a := by
  induction t generalizing a with
  | nil => simp [segs, wsum]
  | cons b t' ih =>
    have hb := ih b (fun s hs => h s (by simp only [segs, List.mem_cons]; exact Or.inr hs))
    have ha := h (a, b) (by simp [segs])
    simp only [segs, wsum, hb, ha, List.getLast_cons_cons]
    omega

theorem windingE_right (p : EPt) (ring : List Pt) (h : ∀ c ∈ ring, c.x < p.x0) : windingE p ring = 0 := by
  rw [windingE_eq_wsum]
  apply wsum_zero
  rintro ⟨s, e⟩ hs
  obtain ⟨h1, h2⟩ := mem_of_mem_segs hs
  exact edgeW_right p s e (h s h1) (h e h2)

theorem windingE_above (p : EPt) (ring : List Pt) (h : ∀ c ∈ ring, c.y < p.y0) : windingE p ring = 0 := by
  rw [windingE_eq_wsum]
  apply wsum_zero
  rintro ⟨s, e⟩ hs
  obtain ⟨h1, h2⟩ := mem_of_mem_segs hs
  exact edgeW_above p s e (h s h1) (h e h2)

theorem windingE_below (p : EPt) (ring : List Pt) (h : ∀ c ∈ ring, p.y0 < c.y) : windingE p ring = 0 := by
  rw [windingE_eq_wsum]
  apply wsum_zero
  rintro ⟨s, e⟩ hs
  obtain ⟨h1, h2⟩ := mem_of_mem_segs hs
  exact edgeW_below p s e (h s h1) (h e h2)

/-- A *closed* polyline crosses a horizontal line upward as often as downward: if the point is
strictly to the left of all coordinates the winding number is zero. -/
theorem windingE_left (p : EPt) (ring : List Pt) (hc : ring.head? = ring.getLast?)
    (h : ∀ c ∈ ring, p.x0 < c.x) : windingE p ring = 0 := by
  rw [windingE_eq_wsum]
  cases ring with
  | nil => rfl
  | cons a t =>
    rw [wsum_telescope p (lvl p) a t]
    · rw [List.head?_cons, List.getLast?_eq_getLast_of_ne_nil (List.cons_ne_nil _ _)] at hc
      injection hc with hc
      rw [← hc]; omega
    · rintro ⟨s, e⟩ hs
      obtain ⟨h1, h2⟩ := mem_of_mem_segs hs
      exact edgeW_left p s e (h s h1) (h e h2)

/-! ### the whole geometry -/

/-- every coordinate written in the parts -/
def allCoords (ps : Parts) : List Pt :=
  ps.pts ++ ps.curves.flatten ++ (ps.areas.flatMap Poly.rings).flatten

theorem mem_allCoords_pts {ps : Parts} {c : Pt} (h : c ∈ ps.pts) : c ∈ allCoords ps := by
  simp [allCoords, h]

theorem mem_allCoords_curve {ps : Parts} {c : Pt} {cv : List Pt} (hcv : cv ∈ ps.curves) (h : c ∈ cv) :
    c ∈ allCoords ps := by
  simp only [allCoords, List.mem_append, List.mem_flatten]
  exact Or.inl (Or.inr ⟨cv, hcv, h⟩)

theorem mem_allCoords_ring {ps : Parts} {c : Pt} {q : Poly} {r : List Pt} (hq : q ∈ ps.areas)
    (hr : r ∈ q.rings) (h : c ∈ r) : c ∈ allCoords ps := by
  simp only [allCoords, List.mem_append, List.mem_flatten, List.mem_flatMap]
  exact Or.inr ⟨r, ⟨q, hq, hr⟩, h⟩

/-- A point on no segment, around which no exterior ring winds, and equal to no written
coordinate, is `outside`. -/
theorem locateParts_outside_of (ps : Parts) (p : Pt)
    (hseg : ∀ s ∈ ps.allSegs, lineCoord s.1 s.2 p = false)
    (hw : ∀ q ∈ ps.areas, windingE (EPt.ofPt p) q.ext = 0)
    (hpt : p ∉ allCoords ps) : locateParts ps p = .outside := by
  have h1 : ps.areas.any (fun poly => !(onAnySeg p (poly.rings.flatMap segs)) && insidePolyE (EPt.ofPt p) poly) = false := by
    rw [List.any_eq_false]
    intro q hq
    simp [insidePolyE, hw q hq]
  have h2 : onAnySeg p ps.areaSegs = false := by
    rw [Bool.eq_false_iff]; intro h
    obtain ⟨s, hs, hl⟩ := (onAnySeg_iff _ _).mp h
    rw [hseg s (by simp [Parts.allSegs, hs])] at hl; cases hl
  have h3 : onAnySeg p ps.curveSegs = false := by
    rw [Bool.eq_false_iff]; intro h
    obtain ⟨s, hs, hl⟩ := (onAnySeg_iff _ _).mp h
    rw [hseg s (by simp [Parts.allSegs, hs])] at hl; cases hl
  have h4 : ps.areas.any (fun poly => poly.rings.any (fun r => r == [p])) = false := by
    rw [List.any_eq_false]
    intro q hq
    rw [Bool.not_eq_true, List.any_eq_false]
    intro r hr hrp
    rw [beq_iff_eq] at hrp
    exact hpt (mem_allCoords_ring hq hr (by rw [hrp]; simp))
  have h5 : ps.pts.any (· == p) = false := by
    rw [List.any_eq_false]
    intro x hx hxp
    rw [beq_iff_eq] at hxp
    exact hpt (mem_allCoords_pts (hxp ▸ hx))
  unfold locateParts
  simp [h1, h2, h3, h4, h5]

theorem mem_allSegs_coords {ps : Parts} {s : Pt × Pt} (h : s ∈ ps.allSegs) :
    s.1 ∈ allCoords ps ∧ s.2 ∈ allCoords ps := by
  simp only [Parts.allSegs, Parts.curveSegs, Parts.areaSegs, List.mem_append, List.mem_flatMap] at h
  rcases h with ⟨cv, hcv, hs⟩ | ⟨r, ⟨q, hq, hr⟩, hs⟩
  · obtain ⟨h1, h2⟩ := mem_of_mem_segs hs
    exact ⟨mem_allCoords_curve hcv h1, mem_allCoords_curve hcv h2⟩
  · obtain ⟨h1, h2⟩ := mem_of_mem_segs hs
    exact ⟨mem_allCoords_ring hq hr h1, mem_allCoords_ring hq hr h2⟩

/-- a point strictly outside the coordinate range of a segment is not on it -/
theorem lineCoord_false_of_sep {a b p : Pt}
    (h : (a.x < p.x ∧ b.x < p.x) ∨ (p.x < a.x ∧ p.x < b.x) ∨ (a.y < p.y ∧ b.y < p.y) ∨ (p.y < a.y ∧ p.y < b.y)) :
    lineCoord a b p = false := by
  rw [Bool.eq_false_iff]; intro hl
  have hr := ((lineCoord_eq a b p).mp hl).2
  rw [pointInRect_iff] at hr
  obtain ⟨hx, hy⟩ := hr
  rcases h with h | h | h | h
  · rcases hx with g | g <;> linarith [h.1, h.2, g.1, g.2]
  · rcases hx with g | g <;> linarith [h.1, h.2, g.1, g.2]
  · rcases hy with g | g <;> linarith [h.1, h.2, g.1, g.2]
  · rcases hy with g | g <;> linarith [h.1, h.2, g.1, g.2]

/-- **Disjoint-envelope lemma**: a point strictly outside the bounding box of all coordinates of
the parts (on any of the four sides) is located `outside`. Only the "left" side needs the exterior
rings to be closed (a closed polyline crosses a horizontal line upward as often as downward). -/
theorem locate_outside_bbox (ps : Parts) (p : Pt)
    (h : (∀ c ∈ allCoords ps, c.x < p.x) ∨
         ((∀ c ∈ allCoords ps, p.x < c.x) ∧ ∀ q ∈ ps.areas, q.ext.head? = q.ext.getLast?) ∨
         (∀ c ∈ allCoords ps, c.y < p.y) ∨ (∀ c ∈ allCoords ps, p.y < c.y)) :
    locateParts ps p = .outside := by
  apply locateParts_outside_of
  · intro s hs
    obtain ⟨h1, h2⟩ := mem_allSegs_coords hs
    apply lineCoord_false_of_sep
    rcases h with h | ⟨h, _⟩ | h | h
    · exact Or.inl ⟨h _ h1, h _ h2⟩
    · exact Or.inr (Or.inl ⟨h _ h1, h _ h2⟩)
    · exact Or.inr (Or.inr (Or.inl ⟨h _ h1, h _ h2⟩))
    · exact Or.inr (Or.inr (Or.inr ⟨h _ h1, h _ h2⟩))
  · intro q hq
    have hm : ∀ c ∈ q.ext, c ∈ allCoords ps := fun c hc =>
      mem_allCoords_ring hq (by simp [Poly.rings]) hc
    rcases h with h | ⟨h, hc⟩ | h | h
    · exact windingE_right _ _ (fun c hc => h c (hm c hc))
    · exact windingE_left _ _ (hc q hq) (fun c hc => h c (hm c hc))
    · exact windingE_above _ _ (fun c hc => h c (hm c hc))
    · exact windingE_below _ _ (fun c hc => h c (hm c hc))
  · intro hp
    rcases h with h | ⟨h, _⟩ | h | h <;> exact lt_irrefl _ (h p hp)

/-- the same for face samples (perturbed points): the standard part decides -/
theorem locateFace_outside_bbox (ps : Parts) (e : EPt)
    (h : (∀ c ∈ allCoords ps, c.x < e.x0) ∨
         ((∀ c ∈ allCoords ps, e.x0 < c.x) ∧ ∀ q ∈ ps.areas, q.ext.head? = q.ext.getLast?) ∨
         (∀ c ∈ allCoords ps, c.y < e.y0) ∨ (∀ c ∈ allCoords ps, e.y0 < c.y)) :
    locateFace ps e = .outside := by
  have : ps.areas.any (insidePolyE e) = false := by
    rw [List.any_eq_false]
    intro q hq
    have hm : ∀ c ∈ q.ext, c ∈ allCoords ps := fun c hc =>
      mem_allCoords_ring hq (by simp [Poly.rings]) hc
    have hw : windingE e q.ext = 0 := by
      rcases h with h | ⟨h, hc⟩ | h | h
      · exact windingE_right _ _ (fun c hc => h c (hm c hc))
      · exact windingE_left _ _ (hc q hq) (fun c hc => h c (hm c hc))
      · exact windingE_above _ _ (fun c hc => h c (hm c hc))
      · exact windingE_below _ _ (fun c hc => h c (hm c hc))
    simp [insidePolyE, hw]
  simp [locateFace, this]

/-! ### boundary semantics (mod-2 rule) -/

/-- purely linear parts: interior / boundary by the parity of the number of curve end points -/
theorem locateParts_linear (ps : Parts) (p : Pt) (ha : ps.areas = []) (hp : ps.pts = []) :
    locateParts ps p =
      if onAnySeg p ps.curveSegs then
        (if endpointCount p ps.curves % 2 = 1 then .onBoundary else .inside)
      else .outside := by
  unfold locateParts
  simp [ha, hp, Parts.areaSegs, onAnySeg]

theorem locateParts_linear_boundary (ps : Parts) (p : Pt) (ha : ps.areas = []) (hp : ps.pts = []) :
    locateParts ps p = .onBoundary ↔ onAnySeg p ps.curveSegs = true ∧ endpointCount p ps.curves % 2 = 1 := by
  rw [locateParts_linear ps p ha hp]
  split_ifs <;> simp_all

theorem locateParts_linear_inside (ps : Parts) (p : Pt) (ha : ps.areas = []) (hp : ps.pts = []) :
    locateParts ps p = .inside ↔ onAnySeg p ps.curveSegs = true ∧ endpointCount p ps.curves % 2 = 0 := by
  rw [locateParts_linear ps p ha hp]
  split_ifs <;> simp_all

theorem locateParts_linear_outside (ps : Parts) (p : Pt) (ha : ps.areas = []) (hp : ps.pts = []) :
    locateParts ps p = .outside ↔ onAnySeg p ps.curveSegs = false := by
  rw [locateParts_linear ps p ha hp]
  split_ifs <;> simp_all

/-- purely areal parts -/
theorem locateParts_areal (ps : Parts) (p : Pt) (hc : ps.curves = []) (hp : ps.pts = []) :
    locateParts ps p =
      if inAnyPoly ps.areas p then .inside else if onAnyRing ps.areas p then .onBoundary else .outside := by
  rw [locateParts_eq]
  simp [hc, hp, onAnyCurve]

/-- the boundary of an areal geometry lies on its rings -/
theorem locateParts_areal_boundary (ps : Parts) (p : Pt) (hc : ps.curves = []) (hp : ps.pts = [])
    (h : locateParts ps p = .onBoundary) :
    onAnySeg p ps.areaSegs = true ∨ ∃ q ∈ ps.areas, [p] ∈ q.rings := by
  rw [locateParts_areal ps p hc hp] at h
  split_ifs at h with h1 h2
  unfold onAnyRing at h2
  rw [Bool.or_eq_true] at h2
  rcases h2 with h2 | h2
  · left; rw [onAnySeg_areaSegs]; exact h2
  · right
    rw [List.any_eq_true] at h2
    obtain ⟨q, hq, hr⟩ := h2
    rw [List.any_eq_true] at hr
    obtain ⟨r, hr, hrp⟩ := hr
    rw [beq_iff_eq] at hrp
    exact ⟨q, hq, hrp ▸ hr⟩

/-- conversely a ring point is a boundary point unless some member polygon has it strictly inside -/
theorem locateParts_areal_boundary_conv (ps : Parts) (p : Pt) (hc : ps.curves = []) (hp : ps.pts = [])
    (hin : inAnyPoly ps.areas p = false)
    (h : onAnySeg p ps.areaSegs = true ∨ ∃ q ∈ ps.areas, [p] ∈ q.rings) :
    locateParts ps p = .onBoundary := by
  rw [locateParts_areal ps p hc hp]
  have h2 : onAnyRing ps.areas p = true := by
    unfold onAnyRing
    rw [Bool.or_eq_true]
    rcases h with h | ⟨q, hq, hr⟩
    · left; rw [← onAnySeg_areaSegs]; exact h
    · right
      rw [List.any_eq_true]
      exact ⟨q, hq, by rw [List.any_eq_true]; exact ⟨[p], hr, by simp⟩⟩
  simp [hin, h2]

/-- a point strictly inside one member polygon is interior -/
theorem locateParts_inside_of_poly (ps : Parts) (p : Pt) (h : inAnyPoly ps.areas p = true) :
    locateParts ps p = .inside := by
  rw [locateParts_eq]; simp [h]

/-- point parts: interior iff listed; never boundary -/
theorem locateParts_points (ps : Parts) (p : Pt) (ha : ps.areas = []) (hc : ps.curves = []) :
    locateParts ps p = if p ∈ ps.pts then .inside else .outside := by
  unfold locateParts
  simp [ha, hc, Parts.areaSegs, Parts.curveSegs, onAnySeg]

theorem locateParts_points_inside (ps : Parts) (p : Pt) (ha : ps.areas = []) (hc : ps.curves = []) :
    locateParts ps p = .inside ↔ p ∈ ps.pts := by
  rw [locateParts_points ps p ha hc]; split_ifs <;> simp_all

theorem locateParts_points_not_boundary (ps : Parts) (p : Pt) (ha : ps.areas = []) (hc : ps.curves = []) :
    locateParts ps p ≠ .onBoundary := by
  rw [locateParts_points ps p ha hc]; split_ifs <;> simp

end Geo.Proofs.Spec
