/-
  RELM — `Point × anything` for the model of the implementation, part 3: the rows Interior and
  Boundary of `relate(Point p, B)` for every `B`.
-/
import GeoProofs.Lemmas.RELMPoint2

namespace Geo.Proofs.RELM
open Geo Geo.GG Geo.RI Geo.Proofs.Spec

/-! ### stars -/

theorem labeledNodes_star {a b : Geom} {ga gb : RGraph} {labeled : List RNode}
    (h : labeledNodes a b ga gb = some labeled) : ∀ n ∈ labeled, n.star = [] := by
  unfold labeledNodes at h
  simp only at h
  have hupd : ∀ idx ep (n : RNode), n.star = [] → (intersectionNodeUpdate ep idx n).star = [] := by
    intro idx ep n hn
    unfold intersectionNodeUpdate
    split
    · exact hn
    · split <;> exact hn
  have i0 : ∀ n ∈ intersectionNodes 0 ga.edges [], n.star = [] :=
    intersectionNodes_forall (P := fun n => n.star = []) 0 (hupd 0) (fun _ => rfl) _ _ (fun n hn => by cases hn)
  have i1 : ∀ n ∈ intersectionNodes 1 gb.edges (intersectionNodes 0 ga.edges []), n.star = [] :=
    intersectionNodes_forall (P := fun n => n.star = []) 1 (hupd 1) (fun _ => rfl) _ _ i0
  split at h
  · cases h
  · rename_i ns2 h2
    have i2 : ∀ n ∈ ns2, n.star = [] :=
      copyNodes_forall (P := fun n => n.star = []) 0 (fun n q hn => hn) (fun _ => rfl) _ _ ns2 h2 i1
    split at h
    · cases h
    · rename_i ns3 h3
      have i3 : ∀ n ∈ ns3, n.star = [] :=
        copyNodes_forall (P := fun n => n.star = []) 1 (fun n q hn => hn) (fun _ => rfl) _ _ ns3 h3 i2
      cases h
      intro n hn
      simp only [List.mem_map] at hn
      obtain ⟨n0, hn0, rfl⟩ := hn
      have := i3 n0 hn0
      unfold labelIsolatedNode
      split
      · split <;> exact this
      · exact this

theorem insertEdgeEnds_forall' {P : RNode → Prop} (ar : Arith) (hnew : ∀ c, P (RNode.new c)) :
    ∀ (es : List EdgeEnd) (ns : List RNode), (∀ n ∈ ns, P n) →
      (∀ n, ∀ e ∈ es, P n → P { n with star := starInsert ar e n.star }) →
      ∀ n ∈ insertEdgeEnds ar es ns, P n
  | [], _, h, _ => h
  | e :: es, ns, h, hf =>
      insertEdgeEnds_forall' ar hnew es _
        (upsertR_forall e.c0 _ ns h (fun n hn _ => hf n e (List.mem_cons_self ..) hn)
          (hf _ e (List.mem_cons_self ..) (hnew _)))
        (fun n e' he' hn => hf n e' (List.mem_cons_of_mem _ he') hn)

theorem final_stars (ar : Arith) {ends : List EdgeEnd} (hends : ∀ e ∈ ends, AEmpty e.label)
    {ns : List RNode} (hns : ∀ n ∈ ns, n.star = []) :
    ∀ n ∈ insertEdgeEnds ar ends ns, StarAEmpty n.star := by
  apply insertEdgeEnds_forall' (P := fun n => StarAEmpty n.star) ar
  · intro c bd hbd; cases hbd
  · intro n hn; rw [hns n hn]; intro bd hbd; cases hbd
  · intro n e he hn
    exact starInsert_aEmpty ar e (hends e he) n.star hn

/-! ### the contributions of the node loop -/

theorem nodesAtoms_spec (a b : Geom) : ∀ (ns : List RNode) (atoms : List Atom), nodesAtoms a b ns = some atoms →
    (∀ n ∈ ns, n.label.geometryCount ≥ 2) ∧
    (∀ t, t ∈ atoms ↔ ∃ n ∈ ns, t ∈ nodeAtoms n.label ∨
        ∃ ls, starLabels a b n.coord n.star = some ls ∧ ∃ l ∈ ls, t ∈ labelAtoms l)
  | [], atoms, h => by
      simp only [nodesAtoms] at h; cases h
      exact ⟨fun n hn => (by cases hn), fun t => (by simp)⟩
  | n :: ns, atoms, h => by
      simp only [nodesAtoms] at h
      split at h
      · cases h
      · rename_i ls hls
        split at h
        · rename_i hc
          cases hr : nodesAtoms a b ns with
          | none => rw [hr] at h; cases h
          | some rest =>
            rw [hr] at h
            simp only [Option.map_some, Option.some.injEq] at h
            subst h
            obtain ⟨ih1, ih2⟩ := nodesAtoms_spec a b ns rest hr
            refine ⟨?_, ?_⟩
            · intro x hx
              simp only [List.mem_cons] at hx
              rcases hx with rfl | hx
              · exact hc
              · exact ih1 x hx
            · intro t
              simp only [List.mem_append, List.mem_flatMap, ih2, List.mem_cons, exists_eq_or_imp, hls,
                Option.some.injEq, exists_eq_left']
        · cases h

/-! ### the result -/

theorem emptyDisjoint_get {X : Pos} (Y : Pos) (hX : X ≠ .outside) : emptyDisjoint.get X Y = .empty := by
  cases X <;> cases Y <;> first | rfl | exact absurd rfl hX

theorem properAtoms_zero (db : Dim) (p q : Bool) : properAtoms .zero db p q = [] := by
  cases db <;> rfl

theorem findR_copyNodes_isSome (idx : Nat) (c : Pt) : ∀ (gs : List Node) (ns ns' : List RNode),
    copyNodes idx gs ns = some ns' → SortedR ns → (findR c ns).isSome → (findR c ns').isSome
  | [], ns, ns', h, _, hc => by simp only [copyNodes] at h; cases h; exact hc
  | g :: gs, ns, ns', h, hs, hc => by
      simp only [copyNodes] at h
      split at h
      · cases h
      · rename_i q _
        apply findR_copyNodes_isSome idx c gs _ ns' h
          (upsertR_sorted g.coord (fun n => { n with label := n.label.setOn idx q }) (fun _ => rfl) ns hs)
        rw [findR_upsertR g.coord c (fun n => { n with label := n.label.setOn idx q }) (fun _ => rfl) ns hs]
        split
        · rfl
        · exact hc

theorem findR_insertEdgeEnds (ar : Arith) (c : Pt) : ∀ (es : List EdgeEnd) (ns : List RNode) (n : RNode),
    SortedR ns → findR c ns = some n →
      ∃ n', findR c (insertEdgeEnds ar es ns) = some n' ∧ n'.label = n.label
  | [], ns, n, _, h => ⟨n, h, rfl⟩
  | e :: es, ns, n, hs, h => by
      simp only [insertEdgeEnds]
      have hs' := upsertR_sorted e.c0 (fun n => { n with star := starInsert ar e n.star }) (fun _ => rfl) ns hs
      have hf := findR_upsertR e.c0 c (fun n => { n with star := starInsert ar e n.star }) (fun _ => rfl) ns hs
      by_cases hc : c = e.c0
      · subst hc
        rw [if_pos rfl, h] at hf
        obtain ⟨n', hn', hl⟩ := findR_insertEdgeEnds ar _ es _ _ hs' hf
        exact ⟨n', hn', hl⟩
      · rw [if_neg hc, h] at hf
        exact findR_insertEdgeEnds ar c es _ n hs' hf

/-- **Rows Interior and Boundary of `relate(Point p, B)`, for every geometry `B`** (graph path of
the model, any arithmetic): the Boundary row is `F`, and the Interior row has a single `0`, in
the column of the position `q` that the node map records for `p` w.r.t. `B` — the label of `p` as
a node of `B`'s graph if it is one, `B.coordinate_position(p)` otherwise (`pointPos_*` below). -/
theorem point_rows (ar : Arith) (p : Pt) (b : Geom) {m : IM} (h : relateGraph ar (.point p) b = some m) :
    ∃ labeled n q,
      labeledNodes (.point p) b (freshGraph ar 0 (.point p)) (freshGraph ar 1 b) = some labeled ∧
      findR p labeled = some n ∧ n.label.b = .lineOrPoint (some q) ∧
      ∀ X Y, X ≠ .outside → m.get X Y = if X = .inside ∧ q = Y then .zero else .empty := by
  unfold relateGraph at h
  have hfold := relateGraphs_eq_fold ar (.point p) b (freshGraph ar 0 (.point p)) (freshGraph ar 1 b)
  rw [h] at hfold
  have hmg : mutualGraphs ar (freshGraph ar 0 (.point p)) (freshGraph ar 1 b) =
      (freshGraph ar 0 (.point p), freshGraph ar 1 b, false, false) := rfl
  unfold graphAtoms at hfold
  rw [hmg] at hfold
  simp only at hfold
  cases hl : labeledNodes (.point p) b (freshGraph ar 0 (.point p)) (freshGraph ar 1 b) with
  | none => rw [hl] at hfold; cases hfold
  | some labeled =>
  rw [hl] at hfold
  simp only at hfold
  have hA : (freshGraph ar 0 (.point p)).edges = [] := rfl
  rw [hA] at hfold
  simp only [endsForEdges, labelIsolatedEdges, insertEdgeEnds] at hfold
  cases hB : endsForEdges (freshGraph ar 1 b).edges with
  | none => rw [hB] at hfold; cases hfold
  | some endsB =>
  rw [hB] at hfold
  simp only at hfold
  cases hI : labelIsolatedEdges (.point p) 0 (freshGraph ar 1 b).edges with
  | none => rw [hI] at hfold; cases hfold
  | some isoB =>
  rw [hI] at hfold
  simp only [List.nil_append] at hfold
  cases hN : nodesAtoms (.point p) b (insertEdgeEnds ar endsB labeled) with
  | none => rw [hN] at hfold; cases hfold
  | some na =>
  rw [hN] at hfold
  simp only [Option.map_some, Option.some.injEq] at hfold
  have hdz : dims (.point p) = .zero := rfl
  rw [hdz, properAtoms_zero, List.nil_append] at hfold
  -- facts about the pieces
  have hedges := fresh1_edges_aEmpty ar b
  have hendsB := endsForEdges_aEmpty hB hedges
  have hiso := labelIsolatedEdges_outside (a := .point p) (Nat.lt_irrefl _) _ _ hI hedges
  obtain ⟨hsorted, hinv⟩ := point_nodes_inv ar p b (freshGraph ar 1 b) hl endsB
  have hstars := final_stars ar hendsB (labeledNodes_star hl)
  obtain ⟨hcount, hmem⟩ := nodesAtoms_spec _ _ _ _ hN
  -- the node of the point in `labeled`
  have hfind : (findR p labeled).isSome := by
    have hl' := hl
    unfold labeledNodes at hl'
    simp only at hl'
    have hnodes : sortNodes (freshGraph ar 0 (.point p)).nodes = [⟨p, Label.emptyLine.setOn 0 .inside⟩] := rfl
    rw [hA, hnodes] at hl'
    simp only [intersectionNodes, copyNodes] at hl'
    have hon : (Label.emptyLine.setOn 0 Pos.inside).onPos 0 = some .inside := rfl
    rw [hon] at hl'
    simp only at hl'
    split at hl'
    · cases hl'
    · rename_i ns2 h2
      cases hl'
      rw [findR_map _ (fun n => by unfold labelIsolatedNode; split <;> [split <;> rfl; rfl])]
      rw [Option.isSome_map]
      have s1 : SortedR (intersectionNodes 1 (freshGraph ar 1 b).edges []) :=
        intersectionNodes_sorted 1 _ [] sortedR_nil
      apply findR_copyNodes_isSome 1 p _ _ ns2 h2
        (upsertR_sorted p (fun n => { n with label := n.label.setOn 0 .inside }) (fun _ => rfl) _ s1)
      rw [findR_upsertR p p (fun n => { n with label := n.label.setOn 0 .inside }) (fun _ => rfl) _ s1, if_pos rfl]
      rfl
  obtain ⟨n0, hn0⟩ := Option.isSome_iff_exists.1 hfind
  have hsl : SortedR labeled := by
    have := (point_nodes_inv ar p b (freshGraph ar 1 b) hl []).1
    simpa [insertEdgeEnds] using this
  obtain ⟨n', hn', hlab⟩ := findR_insertEdgeEnds ar p endsB labeled n0 hsl hn0
  obtain ⟨hn'mem, hn'c⟩ := findR_mem hn'
  -- its label
  obtain ⟨x, q, hxa, hqb⟩ := (hinv n' hn'mem).1.count_ge_two (hcount n' hn'mem)
  have hx : x = .inside := by
    rcases (hinv n' hn'mem).2 with h1 | ⟨_, h1⟩ | ⟨h1, _⟩
    · rw [hxa] at h1; cases h1
    · rw [hxa] at h1; cases h1; rfl
    · exact absurd hn'c h1
  subst hx
  refine ⟨labeled, n0, q, rfl, hn0, by rw [← hlab]; exact hqb, ?_⟩
  -- atoms outside of the Exterior row
  have hatoms : ∀ t ∈ isoB.flatMap labelAtoms ++ na, t.posA ≠ .outside → t = ⟨.zero, .inside, q⟩ := by
    intro t ht hne
    simp only [List.mem_append, List.mem_flatMap] at ht
    rcases ht with ⟨l, hl1, ht⟩ | ht
    · exact absurd (labelAtoms_outside (hiso l hl1) t ht) hne
    · obtain ⟨n, hn, ht | ⟨ls, hls, l, hl1, ht⟩⟩ := (hmem t).1 ht
      · obtain ⟨x', y', ha', hb'⟩ := (hinv n hn).1.count_ge_two (hcount n hn)
        have hta := mem_optAtom ht
        rw [onPos0, ha', onPos1, hb'] at hta
        simp only [TopoPos.on, Option.some.injEq] at hta
        rcases (hinv n hn).2 with h1 | ⟨h1, h2⟩ | ⟨_, h2⟩
        · rw [ha'] at h1; cases h1
        · have : n = n' := by
            have := findR_of_mem hsorted hn
            rw [h1, hn'] at this
            exact (Option.some.inj this).symm
          subst this
          rw [hqb] at hb'; rw [hxa] at ha'
          cases ha'; cases hb'
          cases t
          simp only at hta
          obtain ⟨h1', h2', h3'⟩ := hta
          subst h1' h2' h3'
          rfl
        · rw [ha'] at h2; cases h2
          exact absurd hta.1.symm hne
      · have hso := starLabels_outside (a := .point p) (b := b) rfl hls (hstars n hn) l hl1
        exact absurd (labelAtoms_outside hso t ht) hne
  have hq : (⟨.zero, .inside, q⟩ : Atom) ∈ isoB.flatMap labelAtoms ++ na := by
    apply List.mem_append_right
    rw [hmem]
    refine ⟨n', hn'mem, Or.inl ?_⟩
    unfold nodeAtoms optAtom
    rw [onPos0, hxa, onPos1, hqb]
    simp [TopoPos.on]
  intro X Y hX
  apply Dim.eq_of_le_iff
  intro d
  rw [hfold, foldFrom_get, emptyDisjoint_get Y hX]
  constructor
  · rintro (h0 | ⟨t, ht, hta, htb, hd⟩)
    · have : d = .empty := Dim.rank_le_zero.1 h0
      subst this; exact Nat.zero_le _
    · have := hatoms t ht (by rw [hta]; exact hX)
      subst this
      simp only at hta htb hd
      subst hta htb
      simpa using hd
  · intro hd
    by_cases hc : X = .inside ∧ q = Y
    · rw [if_pos hc] at hd
      obtain ⟨rfl, rfl⟩ := hc
      exact Or.inr ⟨_, hq, rfl, rfl, hd⟩
    · rw [if_neg hc] at hd
      exact Or.inl hd

end Geo.Proofs.RELM
