/-
  RELM — `Point × anything`, part 4: which position the node map records for the point.
  If the point is neither a node of `B`'s graph nor an intersection recorded on `B`'s edges, it is
  `B.coordinate_position(p)`; hence the rows Interior / Boundary of the model of the implementation
  are those of the specification wherever `coordinate_position` is `locate` (C02).
-/
import GeoProofs.Lemmas.RELMPoint3

namespace Geo.Proofs.RELM
open Geo Geo.GG Geo.RI Geo.Proofs.Spec

theorem findR_intersectionNodesOfEdge_of_not_mem (ep : Option Pos) (idx : Nat) (c : Pt) :
    ∀ (eis : List EI) (ns : List RNode), SortedR ns → c ∉ eis.map (·.coord) →
      findR c (intersectionNodesOfEdge ep idx eis ns) = findR c ns
  | [], _, _, _ => rfl
  | ei :: rest, ns, hs, hc => by
      simp only [List.map_cons, List.mem_cons, not_or] at hc
      simp only [intersectionNodesOfEdge]
      rw [findR_intersectionNodesOfEdge_of_not_mem ep idx c rest _
          (upsertR_sorted _ _ (intersectionNodeUpdate_coord ep idx) ns hs) hc.2,
        findR_upsertR ei.coord c _ (intersectionNodeUpdate_coord ep idx) ns hs, if_neg hc.1]

theorem findR_intersectionNodes_of_not_mem (idx : Nat) (c : Pt) :
    ∀ (es : List REdge) (ns : List RNode), SortedR ns → (∀ e ∈ es, c ∉ e.eis.map (·.coord)) →
      findR c (intersectionNodes idx es ns) = findR c ns
  | [], _, _, _ => rfl
  | e :: es, ns, hs, hc => by
      simp only [intersectionNodes]
      rw [findR_intersectionNodes_of_not_mem idx c es _ (intersectionNodesOfEdge_sorted _ idx e.eis ns hs)
          (fun x hx => hc x (List.mem_cons_of_mem _ hx)),
        findR_intersectionNodesOfEdge_of_not_mem _ idx c e.eis ns hs (hc e (List.mem_cons_self ..))]

theorem findR_copyNodes_of_not_mem (idx : Nat) (c : Pt) : ∀ (gs : List Node) (ns ns' : List RNode),
    copyNodes idx gs ns = some ns' → SortedR ns → c ∉ gs.map (·.coord) → findR c ns' = findR c ns
  | [], ns, ns', h, _, _ => by simp only [copyNodes] at h; cases h; rfl
  | g :: gs, ns, ns', h, hs, hc => by
      simp only [List.map_cons, List.mem_cons, not_or] at hc
      simp only [copyNodes] at h
      split at h
      · cases h
      · rename_i q _
        rw [findR_copyNodes_of_not_mem idx c gs _ ns' h
            (upsertR_sorted g.coord (fun n => { n with label := n.label.setOn idx q }) (fun _ => rfl) ns hs) hc.2,
          findR_upsertR g.coord c (fun n => { n with label := n.label.setOn idx q }) (fun _ => rfl) ns hs,
          if_neg hc.1]

theorem mem_insertNodeSorted (n x : Node) : ∀ (ns : List Node), x ∈ insertNodeSorted n ns ↔ x = n ∨ x ∈ ns
  | [] => by simp [insertNodeSorted]
  | m :: ms => by
      simp only [insertNodeSorted]
      split
      · simp only [List.mem_cons, mem_insertNodeSorted n x ms]; tauto
      · simp only [List.mem_cons]

theorem mem_sortNodes (x : Node) : ∀ (ns : List Node), x ∈ sortNodes ns ↔ x ∈ ns
  | [] => by simp [sortNodes]
  | n :: ns => by
      have ih := mem_sortNodes x ns
      unfold sortNodes at ih ⊢
      simp only [List.foldr_cons, mem_insertNodeSorted, ih, List.mem_cons]

/-- **the position recorded for the point when it is not a node of `B`'s graph**:
`B.coordinate_position(p)` (`label_isolated_node`) -/
theorem point_pos_isolated (ar : Arith) (p : Pt) (b : Geom) {labeled : List RNode} {n : RNode}
    (hl : labeledNodes (.point p) b (freshGraph ar 0 (.point p)) (freshGraph ar 1 b) = some labeled)
    (hn : findR p labeled = some n)
    (h1 : ∀ e ∈ (freshGraph ar 1 b).edges, p ∉ e.eis.map (·.coord))
    (h2 : p ∉ (freshGraph ar 1 b).nodes.map (·.coord)) :
    n.label.b = .lineOrPoint (some (coordPos b p)) := by
  unfold labeledNodes at hl
  simp only at hl
  have hA : (freshGraph ar 0 (.point p)).edges = [] := rfl
  have hnodes : sortNodes (freshGraph ar 0 (.point p)).nodes = [⟨p, Label.emptyLine.setOn 0 .inside⟩] := rfl
  rw [hA, hnodes] at hl
  simp only [intersectionNodes, copyNodes] at hl
  have hon : (Label.emptyLine.setOn 0 Pos.inside).onPos 0 = some .inside := rfl
  rw [hon] at hl
  simp only at hl
  split at hl
  · cases hl
  · rename_i ns2 h2'
    cases hl
    have s1 : SortedR (intersectionNodes 1 (freshGraph ar 1 b).edges []) :=
      intersectionNodes_sorted 1 _ [] sortedR_nil
    have s2 := upsertR_sorted p (fun n => { n with label := n.label.setOn 0 .inside }) (fun _ => rfl) _ s1
    have hsort : p ∉ (sortNodes (freshGraph ar 1 b).nodes).map (·.coord) := by
      intro hc
      apply h2
      simp only [List.mem_map] at hc ⊢
      obtain ⟨x, hx, hxc⟩ := hc
      exact ⟨x, (mem_sortNodes x _).1 hx, hxc⟩
    rw [findR_map _ (fun n => by unfold labelIsolatedNode; split <;> [split <;> rfl; rfl]),
      findR_copyNodes_of_not_mem 1 p _ _ ns2 h2' s2 hsort,
      findR_upsertR p p (fun n => { n with label := n.label.setOn 0 .inside }) (fun _ => rfl) _ s1, if_pos rfl,
      findR_intersectionNodes_of_not_mem 1 p _ [] sortedR_nil h1] at hn
    simp only [findR, Option.getD_none, Option.map_some, Option.some.injEq] at hn
    subst hn
    rfl

/-- **Rows Interior / Boundary of `relate(Point p, B)`** when `p` is neither a node of `B`'s graph
nor an intersection recorded on its edges: a single `0`, in the column `B.coordinate_position(p)`. -/
theorem point_rows_isolated (ar : Arith) (p : Pt) (b : Geom) {m : IM} (h : relateGraph ar (.point p) b = some m)
    (h1 : ∀ e ∈ (freshGraph ar 1 b).edges, p ∉ e.eis.map (·.coord))
    (h2 : p ∉ (freshGraph ar 1 b).nodes.map (·.coord)) (X Y : Pos) (hX : X ≠ .outside) :
    m.get X Y = if X = .inside ∧ coordPos b p = Y then .zero else .empty := by
  obtain ⟨labeled, n, q, hl, hn, hq, hrows⟩ := point_rows ar p b h
  have := point_pos_isolated ar p b hl hn h1 h2
  rw [hq] at this
  cases this
  exact hrows X Y hX

end Geo.Proofs.RELM
