/-
  C06 helper layer 3: the shifted shoelace sums of `twice_signed_ring_area` / `add_ring` equal the
  textbook (unshifted) ones on a closed ring (telescoping).
-/
import GeoProofs.Lemmas.C06Basic
import Mathlib.Tactic.FieldSimp

namespace Geo.Proofs.C06
open Geo Geo.Cen

/-! ### sums -/

theorem foldl_add_sumR {α : Type} (f : α → Rat) (L : List α) (z : Rat) :
    L.foldl (fun t l => t + f l) z = z + sumR (L.map f) := by
  induction L generalizing z with
  | nil => simp [sumR]
  | cons a t ih => simp only [List.foldl_cons, List.map_cons, sumR, ih]; ring

theorem foldl_add_sumP {α : Type} (f : α → Pt) (L : List α) (z : Pt) :
    L.foldl (fun t l => t + f l) z = z + sumP (L.map f) := by
  induction L generalizing z with
  | nil => simp [sumP]
  | cons a t ih => simp only [List.foldl_cons, List.map_cons, sumP, ih, padd_assoc]

theorem sumP_x (L : List Pt) : (sumP L).x = sumR (L.map (·.x)) := by
  induction L with
  | nil => rfl
  | cons a t ih => simp [sumP, sumR, ih]

theorem sumP_y (L : List Pt) : (sumP L).y = sumR (L.map (·.y)) := by
  induction L with
  | nil => rfl
  | cons a t ih => simp [sumP, sumR, ih]

theorem sumR_map_add {α : Type} (f g : α → Rat) (L : List α) :
    sumR (L.map (fun l => f l + g l)) = sumR (L.map f) + sumR (L.map g) := by
  induction L with
  | nil => simp [sumR]
  | cons a t ih => simp only [List.map_cons, sumR, ih]; ring

theorem sumR_map_sub {α : Type} (f g : α → Rat) (L : List α) :
    sumR (L.map (fun l => f l - g l)) = sumR (L.map f) - sumR (L.map g) := by
  induction L with
  | nil => simp [sumR]
  | cons a t ih => simp only [List.map_cons, sumR, ih]; ring

theorem sumR_map_mul_left {α : Type} (k : Rat) (f : α → Rat) (L : List α) :
    sumR (L.map (fun l => k * f l)) = k * sumR (L.map f) := by
  induction L with
  | nil => simp [sumR]
  | cons a t ih => simp only [List.map_cons, sumR, ih]; ring

theorem sumR_congr {α : Type} (f g : α → Rat) (L : List α) (h : ∀ l, f l = g l) :
    sumR (L.map f) = sumR (L.map g) := by
  have : f = g := funext h
  rw [this]

/-! ### telescoping along a chain -/

/-- last coordinate of the non-empty list `a :: t` -/
def lastOf (a : Pt) : List Pt → Pt
  | [] => a
  | b :: t => lastOf b t

theorem getLast?_eq_lastOf (a : Pt) (t : List Pt) : (a :: t).getLast? = some (lastOf a t) := by
  induction t generalizing a with
  | nil => rfl
  | cons b t ih => rw [List.getLast?_cons_cons]; exact ih b

theorem isClosed_iff (a : Pt) (t : List Pt) : isClosed (a :: t) = true ↔ lastOf a t = a := by
  simp only [isClosed, List.head?_cons, getLast?_eq_lastOf, beq_iff_eq, Option.some.injEq]
  exact eq_comm

/-- a sum of differences along consecutive pairs collapses to first minus last -/
theorem telescope (G : Pt → Rat) (a : Pt) (t : List Pt) :
    sumR ((windows2 (a :: t)).map (fun l => G l.1 - G l.2)) = G a - G (lastOf a t) := by
  induction t generalizing a with
  | nil => simp [windows2, sumR, lastOf]
  | cons b t ih =>
    simp only [windows2, List.map_cons, sumR, lastOf]
    rw [ih b]; ring

/-! ### area -/

theorem det_shift (a b s : Pt) : det (a - s) (b - s) = det a b - (det a s - det b s) := by
  simp only [det, sub_x, sub_y]; ring

/-- [T] the shifted shoelace sum of `twice_signed_ring_area` is the textbook one -/
theorem twiceArea_eq_text (r : List Pt) : twiceArea r = twiceAreaText r := by
  unfold twiceArea twiceAreaText
  split
  · rfl
  · split
    · rfl
    · next h3 hc =>
      cases r with
      | nil => simp [windows2, sumR]
      | cons s t =>
        simp only
        rw [foldl_add_sumR (fun l : Pt × Pt => det (l.1 - s) (l.2 - s))]
        have hcl : lastOf s t = s := (isClosed_iff s t).1 (by simpa using hc)
        have hterm : ∀ l : Pt × Pt, det (l.1 - s) (l.2 - s) = det l.1 l.2 - ((fun p => det p s) l.1 - (fun p => det p s) l.2) :=
          fun l => det_shift l.1 l.2 s
        rw [sumR_congr _ _ _ hterm, sumR_map_sub, telescope (fun p => det p s) s t, hcl]
        ring

theorem ringArea_eq_text (r : List Pt) : ringArea r = twiceAreaText r / 2 := by
  unfold ringArea; rw [twiceArea_eq_text]

/-! ### first moment -/

private def Fx (s p : Pt) : Rat := s.x * p.x * p.y - s.y * p.x * p.x + s.x * s.x * p.y - s.x * s.y * p.x
private def Fy (s p : Pt) : Rat := s.x * p.y * p.y - s.y * p.x * p.y + s.x * s.y * p.y - s.y * s.y * p.x

private theorem term_x (s a b : Pt) :
    (det (a - s) (b - s)) * ((b - s) + (a - s)).x =
      (det a b) * (a + b).x + (Fx s a - Fx s b) - (3 * s.x) * det (a - s) (b - s) := by
  simp only [det, Fx, sub_x, sub_y, add_x]; ring

private theorem term_y (s a b : Pt) :
    (det (a - s) (b - s)) * ((b - s) + (a - s)).y =
      (det a b) * (a + b).y + (Fy s a - Fy s b) - (3 * s.y) * det (a - s) (b - s) := by
  simp only [det, Fy, sub_x, sub_y, add_y]; ring

/-- the shifted sum of determinants over a closed chain -/
theorem sum_shifted_det (s : Pt) (t : List Pt) (hcl : lastOf s t = s) :
    sumR ((windows2 (s :: t)).map (fun l => det (l.1 - s) (l.2 - s))) =
      sumR ((windows2 (s :: t)).map (fun l => det l.1 l.2)) := by
  have hterm : ∀ l : Pt × Pt, det (l.1 - s) (l.2 - s) = det l.1 l.2 - ((fun p => det p s) l.1 - (fun p => det p s) l.2) :=
    fun l => det_shift l.1 l.2 s
  rw [sumR_congr _ _ _ hterm, sumR_map_sub, telescope (fun p => det p s) s t, hcl]
  ring

theorem ringAccum_x (s : Pt) (t : List Pt) (hcl : lastOf s t = s) :
    (ringAccum s (s :: t)).x =
      sumR ((windows2 (s :: t)).map (fun l => det l.1 l.2 * (l.1 + l.2).x)) -
        3 * s.x * sumR ((windows2 (s :: t)).map (fun l => det l.1 l.2)) := by
  unfold ringAccum
  simp only
  rw [foldl_add_sumP (fun l : Pt × Pt => Pt.smul (det (l.1 - s) (l.2 - s)) ((l.2 - s) + (l.1 - s)))]
  rw [add_x, zeroPt_x, zero_add, sumP_x, List.map_map]
  have hterm : ∀ l : Pt × Pt, ((fun p : Pt => p.x) ∘ fun l : Pt × Pt => Pt.smul (det (l.1 - s) (l.2 - s)) ((l.2 - s) + (l.1 - s))) l =
      (det l.1 l.2 * (l.1 + l.2).x + ((Fx s) l.1 - (Fx s) l.2)) - (3 * s.x) * det (l.1 - s) (l.2 - s) := by
    intro l
    simp only [Function.comp, smul_x]
    exact term_x s l.1 l.2
  rw [sumR_congr _ _ _ hterm, sumR_map_sub, sumR_map_add, telescope (Fx s) s t, hcl, sumR_map_mul_left,
    sum_shifted_det s t hcl]
  ring

theorem ringAccum_y (s : Pt) (t : List Pt) (hcl : lastOf s t = s) :
    (ringAccum s (s :: t)).y =
      sumR ((windows2 (s :: t)).map (fun l => det l.1 l.2 * (l.1 + l.2).y)) -
        3 * s.y * sumR ((windows2 (s :: t)).map (fun l => det l.1 l.2)) := by
  unfold ringAccum
  simp only
  rw [foldl_add_sumP (fun l : Pt × Pt => Pt.smul (det (l.1 - s) (l.2 - s)) ((l.2 - s) + (l.1 - s)))]
  rw [add_y, zeroPt_y, zero_add, sumP_y, List.map_map]
  have hterm : ∀ l : Pt × Pt, ((fun p : Pt => p.y) ∘ fun l : Pt × Pt => Pt.smul (det (l.1 - s) (l.2 - s)) ((l.2 - s) + (l.1 - s))) l =
      (det l.1 l.2 * (l.1 + l.2).y + ((Fy s) l.1 - (Fy s) l.2)) - (3 * s.y) * det (l.1 - s) (l.2 - s) := by
    intro l
    simp only [Function.comp, smul_y]
    exact term_y s l.1 l.2
  rw [sumR_congr _ _ _ hterm, sumR_map_sub, sumR_map_add, telescope (Fy s) s t, hcl, sumR_map_mul_left,
    sum_shifted_det s t hcl]
  ring

/-- a ring with area is closed, has at least 3 coordinates, and its doubled area is the plain
shoelace sum -/
theorem area_ne_zero_facts (s : Pt) (t : List Pt) (h : ringArea (s :: t) ≠ 0) :
    lastOf s t = s ∧ twiceAreaText (s :: t) = sumR ((windows2 (s :: t)).map (fun l => det l.1 l.2)) ∧
      twiceAreaText (s :: t) ≠ 0 := by
  have h2 : twiceAreaText (s :: t) ≠ 0 := by
    intro h0; apply h; rw [ringArea_eq_text, h0]; simp
  have h3 : ¬ (s :: t).length < 3 := by
    intro hlt; apply h2; unfold twiceAreaText; rw [if_pos hlt]
  have hc : isClosed (s :: t) = true := by
    by_contra hc
    apply h2; unfold twiceAreaText; rw [if_neg h3, if_pos (by simpa using hc)]
  refine ⟨(isClosed_iff s t).1 hc, ?_, h2⟩
  unfold twiceAreaText; rw [if_neg h3, if_neg (by simp [hc])]

/-- [T] `ringCentroid_shift`: the centroid `add_ring` computes (moment sum of the ring shifted to
its first coordinate, divided by `6·area`, shifted back) is the textbook centroid
`Σ (pᵢ + pᵢ₊₁)·det(pᵢ, pᵢ₊₁) / (6A)` of the unshifted ring. -/
theorem ringCentroid_shift (s : Pt) (t : List Pt) (h : ringArea (s :: t) ≠ 0) :
    Pt.divS (ringAccum s (s :: t)) (6 * ringArea (s :: t)) + s = ringCentroidText (s :: t) := by
  obtain ⟨hcl, hT, hne⟩ := area_ne_zero_facts s t h
  have hA : ringArea (s :: t) = twiceAreaText (s :: t) / 2 := ringArea_eq_text _
  apply Pt.ext'
  · simp only [add_x, divS_x, ringCentroidText, sumP_x, List.map_map]
    rw [ringAccum_x s t hcl, hA, ← hT]
    have hm : sumR ((windows2 (s :: t)).map ((fun p : Pt => p.x) ∘ fun l : Pt × Pt => Pt.smul (det l.1 l.2) (l.1 + l.2))) =
        sumR ((windows2 (s :: t)).map (fun l => det l.1 l.2 * (l.1 + l.2).x)) := by
      apply sumR_congr; intro l; simp [Function.comp]
    rw [hm]
    field_simp
    ring
  · simp only [add_y, divS_y, ringCentroidText, sumP_y, List.map_map]
    rw [ringAccum_y s t hcl, hA, ← hT]
    have hm : sumR ((windows2 (s :: t)).map ((fun p : Pt => p.y) ∘ fun l : Pt × Pt => Pt.smul (det l.1 l.2) (l.1 + l.2))) =
        sumR ((windows2 (s :: t)).map (fun l => det l.1 l.2 * (l.1 + l.2).y)) := by
      apply sumR_congr; intro l; simp [Function.comp]
    rw [hm]
    field_simp
    ring

end Geo.Proofs.C06
