/-
  C02X, part 4: `has_disjoint_bboxes` is sound for *every* pair of geometries of the validity domain.

  `bounding_rect` ranges over the exterior traversal only (hole rings are ignored, K6 of C19). On the
  validity domain every written coordinate of a geometry — hole coordinates included, by `BE = F` of
  `polyValid` — lies within the coordinate range of the exterior traversal (`Boxed`), every Rect has
  `min ≤ max`, and every ring is closed (`dom_facts`, one structural induction over the geometry tree).
  Hence disjoint bounding boxes give strictly separated coordinate ranges (`Spec.Sep`), so
  * no point is located non-`Outside` in both operands (`disjointBB_no_common_point`), and
  * the DE-9IM specification has the shape `FF*FF****`, i.e. `is_intersects` is `false` on it
    (`disjointBB_spec`): the shortcut returns what the mask gives.
-/
import GeoProofs.Props.C19
import GeoProofs.Lemmas.C12QValid
import GeoProofs.Lemmas.RelateSpecDisjoint
import GeoProofs.Lemmas.C02QHoles
import GeoModel.Intersects
import GeoModel.Gen.Masks

set_option linter.unusedSimpArgs false
set_option linter.unusedVariables false

namespace Geo.Proofs.C02X
open Geo Geo.Proofs.Kernel Geo.Proofs.Spec Geo.Proofs.C02Q

/-! ### the coordinate range of a list of coordinates -/

/-- `c` lies within the coordinate range of `E` (both axes) -/
def Hull (E : List Pt) (c : Pt) : Prop :=
  (∃ e ∈ E, e.x ≤ c.x) ∧ (∃ e ∈ E, c.x ≤ e.x) ∧ (∃ e ∈ E, e.y ≤ c.y) ∧ (∃ e ∈ E, c.y ≤ e.y)

theorem Hull.self {E : List Pt} {c : Pt} (h : c ∈ E) : Hull E c :=
  ⟨⟨c, h, le_refl _⟩, ⟨c, h, le_refl _⟩, ⟨c, h, le_refl _⟩, ⟨c, h, le_refl _⟩⟩

theorem Hull.mono {E E' : List Pt} {c : Pt} (h : ∀ e ∈ E, e ∈ E') (hc : Hull E c) : Hull E' c := by
  obtain ⟨⟨e1, m1, l1⟩, ⟨e2, m2, l2⟩, ⟨e3, m3, l3⟩, ⟨e4, m4, l4⟩⟩ := hc
  exact ⟨⟨e1, h _ m1, l1⟩, ⟨e2, h _ m2, l2⟩, ⟨e3, h _ m3, l3⟩, ⟨e4, h _ m4, l4⟩⟩

theorem hull_of_bbox {cs : List Pt} {mn mx v : Pt} (hb : getBoundingRect cs = some (mn, mx))
    (hv : (mn.x ≤ v.x ∧ v.x ≤ mx.x) ∧ (mn.y ≤ v.y ∧ v.y ≤ mx.y)) : Hull cs v := by
  obtain ⟨_, ⟨p1, m1, e1⟩, ⟨p2, m2, e2⟩, ⟨p3, m3, e3⟩, ⟨p4, m4, e4⟩⟩ :=
    Geo.Proofs.C19.getBoundingRect_bounds cs mn mx hb
  exact ⟨⟨p1, m1, by rw [e1]; exact hv.1.1⟩, ⟨p2, m2, by rw [e2]; exact hv.1.2⟩,
    ⟨p3, m3, by rw [e3]; exact hv.2.1⟩, ⟨p4, m4, by rw [e4]; exact hv.2.2⟩⟩

/-- all rings of all areal members are closed -/
def ClosedRings (ps : Parts) : Prop := ∀ q ∈ ps.areas, ∀ r ∈ q.rings, r.head? = r.getLast?

theorem ClosedRings.ext {ps : Parts} (h : ClosedRings ps) : ClosedExt ps :=
  fun q hq => h q hq q.ext (by simp [Poly.rings])

/-- every written coordinate lies within the coordinate range of the exterior traversal -/
def Boxed (g : Geom) : Prop := ∀ c ∈ allCoords (parts g), Hull (exteriorCoords g) c

/-- what the validity domain gives, per geometry -/
structure DomFacts (g : Geom) : Prop where
  rects : Geo.Proofs.C19.rectsValid g = true
  boxed : Boxed g
  closed : ClosedRings (parts g)

structure DomFactsList (gs : List Geom) : Prop where
  rects : Geo.Proofs.C19.rectsValidList gs = true
  boxed : ∀ c ∈ allCoords (partsList gs), Hull (exteriorCoordsList gs) c
  closed : ClosedRings (partsList gs)

theorem mem_allCoords_append {a b : Parts} {c : Pt} :
    c ∈ allCoords (a.append b) ↔ c ∈ allCoords a ∨ c ∈ allCoords b := by
  simp only [allCoords, Parts.append, List.mem_append, List.flatten_append, List.flatMap_append]
  tauto

/-! ### one valid polygon -/

theorem polygon_boxed {q : Poly} (hv : polyValid q = true) : ∀ r ∈ q.rings, ∀ c ∈ r, Hull q.ext c := by
  obtain ⟨hse, hsimple, hbe⟩ := polyValid_unpack hv
  have hok := ringOK_of_simple hse
  intro r hr c hc
  rcases List.mem_cons.mp hr with rfl | hh
  · exact Hull.self hc
  · obtain ⟨⟨mn, mx⟩, hb⟩ : ∃ r, getBoundingRect q.ext = some r := by
      cases hbr : getBoundingRect q.ext with
      | some r => exact ⟨r, rfl⟩
      | none =>
        rw [Geo.Proofs.C19.getBoundingRect_none_iff] at hbr
        have := hok.2; rw [hbr] at this; simp at this
    have := Geo.Proofs.C12.ring_in_bbox_of_be (hbe r hh) (ringOK_of_simple (hsimple r hh)).2 hok.1 hb c hc
    exact hull_of_bbox hb this

theorem polygon_closed {q : Poly} (hv : polyValid q = true) : ∀ r ∈ q.rings, r.head? = r.getLast? := by
  obtain ⟨hse, hsimple, _⟩ := polyValid_unpack hv
  intro r hr
  rcases List.mem_cons.mp hr with rfl | hh
  · exact (ringOK_of_simple hse).1
  · exact (ringOK_of_simple (hsimple r hh)).1

theorem multiPolyValid_all {ps : List Poly} (h : multiPolyValid ps = true) : ∀ m ∈ ps, polyValid m = true := by
  unfold multiPolyValid at h
  rw [Bool.and_eq_true, List.all_eq_true] at h
  exact h.1

/-! ### the geometry tree -/

mutual
theorem dom_facts : ∀ g : Geom, inDomain g = true → DomFacts g
  | .point p, _ => ⟨rfl, fun c hc => Hull.self (by simpa [allCoords, parts, exteriorCoords] using hc),
      fun q hq => by simp [parts] at hq⟩
  | .line a b, _ => ⟨rfl, fun c hc => Hull.self (by simpa [allCoords, parts, exteriorCoords] using hc),
      fun q hq => by simp [parts] at hq⟩
  | .lineString cs, _ => ⟨rfl, fun c hc => Hull.self (by simpa [allCoords, parts, exteriorCoords] using hc),
      fun q hq => by simp [parts] at hq⟩
  | .multiPoint ps, _ => ⟨rfl, fun c hc => Hull.self (by simpa [allCoords, parts, exteriorCoords] using hc),
      fun q hq => by simp [parts] at hq⟩
  | .multiLineString ls, _ => ⟨rfl,
      fun c hc => Hull.self (by simpa [allCoords, parts, exteriorCoords] using hc),
      fun q hq => by simp [parts] at hq⟩
  | .polygon q, h => by
      have hv : (q.ext.isEmpty && q.ints.isEmpty) = true ∨ polyValid q = true := by
        simpa [inDomain, validGeom] using h
      refine ⟨rfl, ?_, ?_⟩
      · intro c hc
        simp only [allCoords, parts, List.flatten_nil, List.nil_append, List.flatMap_cons, List.flatMap_nil,
          List.append_nil, List.mem_flatten] at hc
        obtain ⟨r, hr, hcr⟩ := hc
        rcases hv with he | hv
        · rw [Bool.and_eq_true, List.isEmpty_iff, List.isEmpty_iff] at he
          simp only [Poly.rings, he.1, he.2, List.mem_singleton] at hr
          rw [hr] at hcr; cases hcr
        · exact polygon_boxed hv r hr c hcr
      · intro q' hq' r hr
        simp only [parts, List.mem_singleton] at hq'
        subst hq'
        rcases hv with he | hv
        · rw [Bool.and_eq_true, List.isEmpty_iff, List.isEmpty_iff] at he
          simp only [Poly.rings, he.1, he.2, List.mem_singleton] at hr
          rw [hr]; rfl
        · exact polygon_closed hv r hr
  | .multiPolygon ps, h => by
      have hv : multiPolyValid ps = true := by simpa [inDomain, validGeom] using h
      have hall := multiPolyValid_all hv
      refine ⟨rfl, ?_, ?_⟩
      · intro c hc
        simp only [allCoords, parts, List.flatten_nil, List.nil_append, List.mem_flatten, List.mem_flatMap] at hc
        obtain ⟨r, ⟨q, hq, hr⟩, hcr⟩ := hc
        apply Hull.mono _ (polygon_boxed (hall q hq) r hr c hcr)
        intro e he
        simp only [exteriorCoords, List.mem_flatten, List.mem_map]
        exact ⟨q.ext, ⟨q, hq, rfl⟩, he⟩
      · intro q hq r hr
        simp only [parts] at hq
        exact polygon_closed (hall q hq) r hr
  | .rect mn mx, h => by
      have hv : mn.x < mx.x ∧ mn.y < mx.y := by simpa [inDomain, validGeom] using h
      refine ⟨?_, ?_, ?_⟩
      · simp [Geo.Proofs.C19.rectsValid, le_of_lt hv.1, le_of_lt hv.2]
      · intro c hc
        apply Hull.self
        simp only [allCoords, parts, SM.rectToPolygon, Poly.rings, List.nil_append, List.flatMap_cons,
          List.flatMap_nil, List.append_nil, List.flatten_cons, List.flatten_nil, List.mem_cons,
          List.not_mem_nil, or_false] at hc
        simp only [exteriorCoords, rectCoords, List.mem_cons, List.not_mem_nil, or_false]
        rcases hc with e | e | e | e | e <;> simp [e]
      · intro q hq r hr
        simp only [parts, List.mem_singleton] at hq
        subst hq
        simp only [Poly.rings, List.mem_singleton] at hr
        rw [hr]; rfl
  | .triangle a b c, _ => by
      refine ⟨rfl, ?_, ?_⟩
      · intro x hx
        apply Hull.self
        simp only [allCoords, parts, Poly.rings, List.nil_append, List.flatMap_cons,
          List.flatMap_nil, List.append_nil, List.flatten_cons, List.flatten_nil, List.mem_cons,
          List.not_mem_nil, or_false] at hx
        simp only [exteriorCoords, List.mem_cons, List.not_mem_nil, or_false]
        rcases hx with e | e | e | e <;> simp [e]
      · intro q hq r hr
        simp only [parts, List.mem_singleton] at hq
        subst hq
        simp only [Poly.rings, List.mem_singleton] at hr
        rw [hr]; rfl
  | .collection gs, h => by
      have hl : inDomainList gs = true := by
        simp only [inDomain, Bool.and_eq_true] at h; exact h.2
      have := dom_facts_list gs hl
      exact ⟨by simpa [Geo.Proofs.C19.rectsValid] using this.rects,
        by simpa [Boxed, parts, exteriorCoords] using this.boxed,
        by simpa [parts] using this.closed⟩
theorem dom_facts_list : ∀ gs : List Geom, inDomainList gs = true → DomFactsList gs
  | [], _ => ⟨rfl, fun c hc => by simp [allCoords, partsList] at hc, fun q hq => by simp [partsList] at hq⟩
  | g :: gs, h => by
      simp only [inDomainList, Bool.and_eq_true] at h
      have hg := dom_facts g h.1
      have hgs := dom_facts_list gs h.2
      refine ⟨?_, ?_, ?_⟩
      · simp [Geo.Proofs.C19.rectsValidList, hg.rects, hgs.rects]
      · intro c hc
        simp only [partsList] at hc
        rcases mem_allCoords_append.mp hc with hc | hc
        · exact Hull.mono (fun e he => by simp [exteriorCoordsList, he]) (hg.boxed c hc)
        · exact Hull.mono (fun e he => by simp [exteriorCoordsList, he]) (hgs.boxed c hc)
      · intro q hq r hr
        simp only [partsList, Parts.append, List.mem_append] at hq
        rcases hq with hq | hq
        · exact hg.closed q hq r hr
        · exact hgs.closed q hq r hr
end

/-! ### the bounding box contains every written coordinate -/

theorem coords_in_bbox {g : Geom} (hd : DomFacts g) {mn mx : Pt} (hb : boundingRect g = some (mn, mx)) :
    ∀ c ∈ allCoords (parts g), mn.x ≤ c.x ∧ c.x ≤ mx.x ∧ mn.y ≤ c.y ∧ c.y ≤ mx.y := by
  intro c hc
  have hbd := (Geo.Proofs.C19.bbox_bounds g hd.rects mn mx hb).1
  obtain ⟨⟨e1, m1, l1⟩, ⟨e2, m2, l2⟩, ⟨e3, m3, l3⟩, ⟨e4, m4, l4⟩⟩ := hd.boxed c hc
  exact ⟨le_trans (hbd e1 m1).1 l1, le_trans l2 (hbd e2 m2).2.1, le_trans (hbd e3 m3).2.2.1 l3,
    le_trans l4 (hbd e4 m4).2.2.2⟩

/-- **disjoint bounding boxes ⇒ strictly separated coordinate ranges** -/
theorem disjointBB_sep {a b : Geom} (ha : DomFacts a) (hb : DomFacts b) (h : disjointBB a b = true) :
    Sep (parts a) (parts b) := by
  unfold disjointBB at h
  cases hba : boundingRect a with
  | none => rw [hba] at h; cases h
  | some ra =>
    cases hbb : boundingRect b with
    | none => rw [hba, hbb] at h; cases h
    | some rb =>
      obtain ⟨amn, amx⟩ := ra
      obtain ⟨bmn, bmx⟩ := rb
      rw [hba, hbb] at h
      simp only [Bool.not_eq_true'] at h
      have ca := coords_in_bbox ha hba
      have cb := coords_in_bbox hb hbb
      unfold rectRect at h
      by_cases h1 : amx.x < bmn.x
      · exact Or.inl fun x hx y hy => lt_of_le_of_lt (ca x hx).2.1 (lt_of_lt_of_le h1 (cb y hy).1)
      · by_cases h2 : amx.y < bmn.y
        · exact Or.inr (Or.inr (Or.inl fun x hx y hy =>
            lt_of_le_of_lt (ca x hx).2.2.2 (lt_of_lt_of_le h2 (cb y hy).2.2.1)))
        · by_cases h3 : amn.x > bmx.x
          · exact Or.inr (Or.inl fun x hx y hy =>
              lt_of_le_of_lt (cb y hy).2.1 (lt_of_lt_of_le h3 (ca x hx).1))
          · by_cases h4 : amn.y > bmx.y
            · exact Or.inr (Or.inr (Or.inr fun x hx y hy =>
                lt_of_le_of_lt (cb y hy).2.2.2 (lt_of_lt_of_le h4 (ca x hx).2.2.1)))
            · simp [h1, h2, h3, h4] at h

/-- a point located non-`Outside` lies within the coordinate range of the written coordinates -/
theorem box_of_located {ps : Parts} (hc : ClosedExt ps) {p : Pt} (hp : locateParts ps p ≠ .outside) :
    Box ps p.x p.y := by
  by_contra hbox
  apply hp
  apply locate_outside_bbox
  unfold Box at hbox
  by_cases h1 : ∃ c ∈ allCoords ps, c.x ≤ p.x
  · by_cases h2 : ∃ c ∈ allCoords ps, p.x ≤ c.x
    · by_cases h3 : ∃ c ∈ allCoords ps, c.y ≤ p.y
      · by_cases h4 : ∃ c ∈ allCoords ps, p.y ≤ c.y
        · exact absurd ⟨h1, h2, h3, h4⟩ hbox
        · exact Or.inr (Or.inr (Or.inl fun c hc => by
            by_contra hle; exact h4 ⟨c, hc, not_lt.mp hle⟩))
      · exact Or.inr (Or.inr (Or.inr fun c hc => by
          by_contra hle; exact h3 ⟨c, hc, not_lt.mp hle⟩))
    · exact Or.inl fun c hc => by
        by_contra hle; exact h2 ⟨c, hc, not_lt.mp hle⟩
  · exact Or.inr (Or.inl ⟨fun c hc => by
      by_contra hle; exact h1 ⟨c, hc, not_lt.mp hle⟩, hc⟩)

/-- **`has_disjoint_bboxes` is sound, point form**: on the validity domain, if the bounding boxes of
two geometries (of any of the 10 types) are disjoint, no point is located in the interior or on the
boundary of both. -/
theorem disjointBB_no_common_point {a b : Geom} (ha : inDomain a = true) (hb : inDomain b = true)
    (h : disjointBB a b = true) (p : Pt) : locate a p = .outside ∨ locate b p = .outside := by
  have fa := dom_facts a ha
  have fb := dom_facts b hb
  have hsep := disjointBB_sep fa fb h
  by_cases hp : locate a p = .outside
  · exact Or.inl hp
  · right
    exact locateParts_far (far_of_box hsep fb.closed.ext (box_of_located fa.closed.ext hp))

/-- **`has_disjoint_bboxes` is sound, matrix form**: … and the DE-9IM specification of the pair has
the shape `FF*FF****`, so `is_intersects` is `false` on it — the value the shortcut returns. -/
theorem disjointBB_spec {a b : Geom} (ha : inDomain a = true) (hb : inDomain b = true)
    (h : disjointBB a b = true) : Gen.isIntersects (relateSpec a b) = false := by
  have fa := dom_facts a ha
  have fb := dom_facts b hb
  have hsep := disjointBB_sep fa fb h
  have cell := relateParts_sep hsep fa.closed.ext fb.closed.ext
  have h1 : (relateSpec a b).ii = .empty := cell .inside .inside (by decide) (by decide)
  have h2 : (relateSpec a b).ib = .empty := cell .inside .onBoundary (by decide) (by decide)
  have h3 : (relateSpec a b).bi = .empty := cell .onBoundary .inside (by decide) (by decide)
  have h4 : (relateSpec a b).bb = .empty := cell .onBoundary .onBoundary (by decide) (by decide)
  simp [Gen.isIntersects, Gen.isDisjoint, h1, h2, h3, h4]

end Geo.Proofs.C02X
