/-
  RELM3 — `relate(Point p, B) = relateSpec (Point p) B`, the whole matrix, on the graph path for an areal `B` of the
  domain whose `HasDimensions` answers are the specification's row maxima (`DimsSpec`: proved for Rect and Triangle,
  an interior face sample away for a valid polygon).  Implementation: `EI = 2`, `EB = 1` (RELM3ArealExt).
  Specification: the row maxima of `B` against a point are attained in the column Exterior, because the columns
  Interior / Boundary of a point operand hold dimension 0 at most.
-/
import GeoProofs.Lemmas.RELM3ArealExt
import GeoProofs.Lemmas.C01QTypes
import GeoProofs.Lemmas.C01QTriangle

namespace Geo.Proofs.RELM3
open Geo Geo.GG Geo.RI Geo.Proofs.Spec Geo.Proofs.RELM Geo.Proofs.RELM2 Geo.Proofs.Kernel

theorem dim_rank_le (d : Dim) : d.rank ≤ Dim.two.rank := by cases d <;> decide

theorem final_stars_area (ar : Arith) {ends : List EdgeEnd} (hends : ∀ e ∈ ends, AreaLbl e.label)
    {ns : List RNode} (hns : ∀ n ∈ ns, n.star = []) :
    ∀ n ∈ insertEdgeEnds ar ends ns, StarArea n.star := by
  apply insertEdgeEnds_forall' (P := fun n => StarArea n.star) ar
  · intro c bd hbd; cases hbd
  · intro n hn; rw [hns n hn]; intro bd hbd; cases hbd
  · intro n e he hn
    exact starInsert_forall ar e (hends e he) n.star hn

theorem endsForEdges_area {es : List REdge} {l : List EdgeEnd} (h : endsForEdges es = some l)
    (hes : ∀ e ∈ es, AreaLbl e.label) : ∀ x ∈ l, AreaLbl x.label := by
  intro x hx
  obtain ⟨e, he, h'⟩ := endsForEdges_label es l h x hx
  rcases h' with h' | h'
  · rw [h']; exact hes e he
  · rw [h']; exact areaLbl_flip (hes e he)

/-- **the Exterior row of `relate(Point p, B)` for a `B` all of whose edges are ring edges** (any arithmetic, `B` valid
or not): `EI = 2`, `EB = 1` -/
theorem point_ext_row_areal (ar : Arith) (p : Pt) (b : Geom)
    (hE : ∀ e ∈ (freshGraph ar 1 b).edges, AreaLbl e.label) (hne : (freshGraph ar 1 b).edges ≠ [])
    {m : IM} (h : relateGraph ar (.point p) b = some m) :
    m.get .outside .inside = .two ∧ m.get .outside .onBoundary = .one := by
  unfold relateGraph at h
  have hfold := relateGraphs_eq_fold ar (.point p) b (freshGraph ar 0 (.point p)) (freshGraph ar 1 b)
  rw [h] at hfold
  have hmg : mutualGraphs ar (freshGraph ar 0 (.point p)) (freshGraph ar 1 b) =
      (freshGraph ar 0 (.point p), freshGraph ar 1 b, false, false) := rfl
  unfold graphAtoms at hfold
  rw [hmg] at hfold
  simp only at hfold
  cases hl : labeledNodes (.point p) b (freshGraph ar 0 (.point p)) (freshGraph ar 1 b) with
  | none => rw [hl] at hfold; cases hfold
  | some labeled =>
  rw [hl] at hfold
  simp only at hfold
  have hA : (freshGraph ar 0 (.point p)).edges = [] := rfl
  rw [hA] at hfold
  simp only [endsForEdges, labelIsolatedEdges, insertEdgeEnds] at hfold
  cases hB : endsForEdges (freshGraph ar 1 b).edges with
  | none => rw [hB] at hfold; cases hfold
  | some endsB =>
  rw [hB] at hfold
  simp only at hfold
  cases hI : labelIsolatedEdges (.point p) 0 (freshGraph ar 1 b).edges with
  | none => rw [hI] at hfold; cases hfold
  | some isoB =>
  rw [hI] at hfold
  simp only [List.nil_append] at hfold
  cases hNa : nodesAtoms (.point p) b (insertEdgeEnds ar endsB labeled) with
  | none => rw [hNa] at hfold; cases hfold
  | some na =>
  rw [hNa] at hfold
  simp only [Option.map_some, Option.some.injEq] at hfold
  have hdz : dims (.point p) = .zero := rfl
  rw [hdz, properAtoms_zero, List.nil_append] at hfold
  have hiso := labelIsolatedEdges_area p _ _ hI (fresh_edges_isolated ar 1 b)
  have hstars := final_stars_area ar (endsForEdges_area hB hE) (labeledNodes_star hl)
  obtain ⟨hcount, hmem⟩ := nodesAtoms_spec _ _ _ _ hNa
  obtain ⟨e0, he0⟩ := List.exists_mem_of_ne_nil _ hne
  obtain ⟨a1, a2, _⟩ := labelAtoms_isolated_area (hE e0 he0)
  have hin : ∀ t, t ∈ labelAtoms (e0.label.setAll 0 .outside) → t ∈ isoB.flatMap labelAtoms ++ na := by
    intro t ht
    apply List.mem_append_left
    exact List.mem_flatMap.2 ⟨_, hiso.2 e0 he0, ht⟩
  -- atoms on the boundary of `B` have dimension ≤ 1
  have hbd : ∀ t ∈ isoB.flatMap labelAtoms ++ na, t.posB = .onBoundary → t.dim.rank ≤ Dim.one.rank := by
    intro t ht htb
    simp only [List.mem_append, List.mem_flatMap] at ht
    rcases ht with ⟨l, hl1, ht⟩ | ht
    · obtain ⟨e, he, rfl⟩ := hiso.1 l hl1
      rw [((labelAtoms_isolated_area (hE e he)).2.2 t ht).2 htb]
    · obtain ⟨n, hn, ht | ⟨ls, hls, l, hl1, ht⟩⟩ := (hmem t).1 ht
      · rw [(mem_optAtom ht).2.2]; decide
      · rw [labelAtoms_fullArea (starLabels_area hls (hstars n hn) l hl1) t ht htb]
  have hE0 : ∀ Y, Y ≠ .outside → (emptyDisjoint.get .outside Y).rank = 0 := by
    intro Y hY
    cases Y <;> first | rfl | exact absurd rfl hY
  refine ⟨?_, ?_⟩
  · apply Dim.eq_of_le_iff
    intro d
    rw [hfold, foldFrom_get]
    exact ⟨fun _ => dim_rank_le d, fun hd => Or.inr ⟨_, hin _ a2, rfl, rfl, hd⟩⟩
  · apply Dim.eq_of_le_iff
    intro d
    rw [hfold, foldFrom_get, hE0 .onBoundary (by decide)]
    constructor
    · rintro (h0 | ⟨t, ht, _, htb, hd⟩)
      · exact Nat.le_trans h0 (Nat.zero_le _)
      · exact Nat.le_trans hd (hbd t ht htb)
    · intro hd
      exact Or.inr ⟨_, hin _ a1, rfl, rfl, hd⟩

/-! ### the specification -/

/-- against a point operand, a row maximum of dimension ≥ 1 is attained in the column Exterior -/
theorem spec_cell_ext_of_rowMax (pa : Parts) (c : Pt) {X : Pos} (hX : X ≠ .outside) {d : Dim}
    (hm : RowMax pa ⟨[c], [], []⟩ X d) (hd : Dim.zero.rank < d.rank) :
    (relateParts pa ⟨[c], [], []⟩).get X .outside = d := by
  apply Dim.eq_of_le_iff
  intro e
  rw [cell_le_iff (fun h => hX h.1)]
  constructor
  · rintro (rfl | ⟨x, hx, hxa, _, he⟩)
    · exact Nat.zero_le _
    · exact Nat.le_trans he (hm.2 x hx hxa)
  · intro he
    rcases hm.1 with rfl | ⟨x, hx, hxa, hxd⟩
    · exact absurd hd (by decide)
    · right
      refine ⟨x, hx, hxa, ?_, by rw [hxd]; exact he⟩
      -- the atom is not in the columns Interior / Boundary: those hold dimension 0 at most
      have hge := cell_ge_of_atom hx
      rw [hxa, hxd] at hge
      cases hY : x.posB with
      | outside => rfl
      | inside =>
        exfalso
        rw [hY, relate_point_right pa c X .inside (by decide)] at hge
        split at hge
        · exact absurd (Nat.lt_of_lt_of_le hd hge) (by decide)
        · have : d.rank ≤ 0 := hge
          omega
      | onBoundary =>
        exfalso
        rw [hY, relate_point_right pa c X .onBoundary (by decide)] at hge
        split at hge
        · rename_i hc; exact absurd hc.1 (by decide)
        · have : d.rank ≤ 0 := hge
          omega

theorem spec_ext_row_of_dimsSpec (p : Pt) (b : Geom) (db : DimsSpec b) :
    (Dim.zero.rank < (dims b).rank → (relateSpec (.point p) b).get .outside .inside = dims b) ∧
    (Dim.zero.rank < (boundaryDims b).rank → (relateSpec (.point p) b).get .outside .onBoundary = boundaryDims b) := by
  have ht : relateSpec (.point p) b = (relateParts (parts b) ⟨[p], [], []⟩).transpose :=
    Geo.Proofs.Spec.relateParts_transpose _ _
  have hg : ∀ (m : IM) (Y : Pos), m.transpose.get .outside Y = m.get Y .outside := by
    intro m Y; cases Y <;> rfl
  rw [ht, hg, hg]
  exact ⟨spec_cell_ext_of_rowMax _ p (by decide) (db.inside _), spec_cell_ext_of_rowMax _ p (by decide) (db.boundary _)⟩

/-! ### the whole matrix -/

/-- **`relate(Point p, B) = relateSpec (Point p) B`, the whole matrix, on the graph path**, for an areal `B` of the
domain (collections of pairwise disjoint areal members included) with `DimsSpec B`, of dimension 2 -/
theorem point_areal_full (p : Pt) (b : Geom) (hd : inDomain b = true) (ha : arOk b = true) (db : DimsSpec b)
    (h2 : dims b = .two) (h1 : boundaryDims b = .one) (hne : (freshGraph Arith.exact 1 b).edges ≠ []) {m : IM}
    (h : relateGraph Arith.exact (.point p) b = some m) : m = relateSpec (.point p) b := by
  obtain ⟨i1, i2⟩ := point_ext_row_areal Arith.exact p b (fresh_edges_area _ b ha) hne h
  obtain ⟨s1, s2⟩ := spec_ext_row_of_dimsSpec p b db
  apply im_ext
  intro X Y
  by_cases hX : X = .outside
  · subst hX
    cases Y with
    | inside => rw [i1, s1 (by rw [h2]; decide), h2]
    | onBoundary => rw [i2, s2 (by rw [h1]; decide), h1]
    | outside =>
      have e1 : m.ee = .two := relateGraph_ee _ _ _ h
      have e2 : (relateSpec (.point p) b).get .outside .outside = .two := by
        unfold relateSpec
        rw [relateParts_eq, get_set, if_pos ⟨rfl, rfl⟩]
      rw [e2]
      exact e1
  · exact point_rows_eq_spec_dom5 p b hd (by simp [pointRowsOk5, ha]) h X Y hX

/-- the graph of a Rect / Triangle has an edge -/
theorem fresh_edges_ne_nil_poly (ar : Arith) (g : Geom) (q : Poly) (f : Pt) (t : List Pt) (hq : q.ext = f :: t)
    (hg : buildGraph 1 g = addPolygon 1 q Graph.empty) : (freshGraph ar 1 g).edges ≠ [] := by
  intro he
  have h1 : ((freshGraph ar 1 g).edges).map toEdge = (buildGraph 1 g).edges := by
    rw [fresh_edges, selfIntersections_toEdge, map_toEdge_ofEdge]
  rw [he, hg] at h1
  have hmono : ∀ (hs : List (List Pt)) (G : Graph), G.edges ≠ [] → (addHoles 1 hs G).edges ≠ [] := by
    intro hs
    induction hs with
    | nil => intro G h; exact h
    | cons r hs ih =>
      intro G h
      apply ih
      unfold addPolygonRing
      split
      · exact h
      · intro e
        have : G.edges ++ [GG.ringEdge 1 r .inside .outside] = [] := e
        simp at this
  apply hmono q.ints _ _ h1.symm
  unfold addPolygonRing
  rw [hq]
  simp only [dedup]
  intro e
  have : Graph.empty.edges ++ [GG.ringEdge 1 (f :: t) .outside .inside] = [] := e
  simp at this

end Geo.Proofs.RELM3

namespace Geo.Proofs.RELM3
open Geo Geo.GG Geo.RI Geo.Proofs.Spec Geo.Proofs.RELM Geo.Proofs.RELM2 Geo.Proofs.Kernel

/-- Rect, Triangle -/
def boxType : Geom → Bool
  | .rect _ _ | .triangle _ _ _ => true
  | _ => false

/-- **`relate(Point p, B) = relateSpec (Point p) B`, the whole matrix, on the graph path, for `B` a Rect or Triangle
of the domain** -/
theorem point_boxType_graph (p : Pt) (b : Geom) (hd : inDomain b = true) (ht : boxType b = true) {m : IM}
    (h : relateGraph Arith.exact (.point p) b = some m) : m = relateSpec (.point p) b := by
  cases b with
  | rect mn mx =>
    have hv : mn.x < mx.x ∧ mn.y < mx.y := by simpa [inDomain, validGeom] using hd
    have h2 : dims (.rect mn mx) = .two := rectDims_two hv.1 hv.2
    have h1 : boundaryDims (.rect mn mx) = .one := by
      show boundaryOfDims (rectDims mn mx) = .one
      rw [rectDims_two hv.1 hv.2]; rfl
    exact point_areal_full p _ hd rfl (dimsSpec_rect mn mx hv.1 hv.2) h2 h1
      (fresh_edges_ne_nil_poly _ _ (rectPolygon mn mx) _ _ rfl rfl) h
  | triangle a c e =>
    have hv : orient a c e ≠ .col := by simpa [inDomain, validGeom] using hd
    have hD : cross a c e ≠ 0 := fun e' => hv ((Geo.Proofs.Kernel.orient_col_iff a c e).2 e')
    have h2 : dims (.triangle a c e) = .two := triDims_two hD
    have h1 : boundaryDims (.triangle a c e) = .one := by
      show boundaryOfDims (triDims a c e) = .one
      rw [triDims_two hD]; rfl
    exact point_areal_full p _ hd rfl (dimsSpec_triangle a c e hD) h2 h1
      (fresh_edges_ne_nil_poly _ _ (trianglePolygon a c e) _ _ rfl rfl) h
  | point _ => cases ht
  | line _ _ => cases ht
  | lineString _ => cases ht
  | polygon _ => cases ht
  | multiPoint _ => cases ht
  | multiLineString _ => cases ht
  | multiPolygon _ => cases ht
  | collection _ => cases ht

end Geo.Proofs.RELM3
