/-
  C08 helper lemmas: the triangle case of `trivial_hull`.
-/
import GeoModel.Hull
import GeoProofs.Lemmas.C08Mem
import Mathlib.Tactic.Linarith
import Mathlib.Tactic.Ring
import Mathlib.Tactic.Tauto

namespace Geo.Proofs.C08
open Geo Geo.Hull

theorem orient_ccw_of_pos (a b c : Pt) (h : 0 < cross a b c) : orient a b c = .ccw := by
  unfold orient; dsimp only; rw [if_pos h]

theorem orient_cw_of_neg (a b c : Pt) (h : cross a b c < 0) : orient a b c = .cw := by
  unfold orient; dsimp only; rw [if_neg (by linarith), if_pos h]

theorem cross_rot (a b c : Pt) : cross b c a = cross a b c := by unfold cross; ring
theorem cross_swap (a b c : Pt) : cross a c b = - cross a b c := by unfold cross; ring

theorem ne_of_cross_ne (p q s : Pt) (h : cross p q s ≠ 0) : p ≠ q ∧ q ≠ s ∧ p ≠ s := by
  refine ⟨?_, ?_, ?_⟩ <;> intro e <;> subst e <;> apply h <;> unfold cross <;> ring

theorem leastIndex_four (p q s : Pt) :
    leastIndex [p, q, s, p] = 0 ∨ leastIndex [p, q, s, p] = 1 ∨ leastIndex [p, q, s, p] = 2 ∨
      leastIndex [p, q, s, p] = 3 := by
  simp only [leastIndex, leastIndexGo]
  repeat' split
  all_goals simp

/-- the winding order of a closed triangle ring is the orientation of its corners -/
theorem windingOrder_tri (p q s : Pt) (h : cross p q s ≠ 0) :
    windingOrder [p, q, s, p] = some (if 0 < cross p q s then .ccw else .cw) := by
  obtain ⟨hpq, hqs, hps⟩ := ne_of_cross_ne p q s h
  have hqp : q ≠ p := fun e => hpq e.symm
  have hsq : s ≠ q := fun e => hqs e.symm
  have hsp : s ≠ p := fun e => hps e.symm
  have b1 : (s != p) = true := by simp [hsp]
  have b2 : (q != p) = true := by simp [hqp]
  have b3 : (p != q) = true := by simp [hpq]
  have b4 : (s != q) = true := by simp [hsq]
  have b5 : (p != s) = true := by simp [hps]
  have b6 : (q != s) = true := by simp [hqs]
  by_cases hpos : 0 < cross p q s
  · have o1 : orient p q s = .ccw := orient_ccw_of_pos _ _ _ hpos
    have o2 : orient q s p = .ccw := orient_ccw_of_pos _ _ _ (by rw [cross_rot]; exact hpos)
    have o3 : orient s p q = .ccw := orient_ccw_of_pos _ _ _ (by rw [cross_rot, cross_rot]; exact hpos)
    rw [if_pos hpos]
    rcases leastIndex_four p q s with hi | hi | hi | hi <;>
      simp [windingOrder, hi, List.find?, hpq, hqs, hps, hqp, hsq, hsp, b1, b2, b3, b4, b5, b6, o1, o2, o3]
  · have hneg : cross p q s < 0 := lt_of_le_of_ne (not_lt.1 hpos) h
    have o1 : orient p q s = .cw := orient_cw_of_neg _ _ _ hneg
    have o2 : orient q s p = .cw := orient_cw_of_neg _ _ _ (by rw [cross_rot]; exact hneg)
    have o3 : orient s p q = .cw := orient_cw_of_neg _ _ _ (by rw [cross_rot, cross_rot]; exact hneg)
    rw [if_neg hpos]
    rcases leastIndex_four p q s with hi | hi | hi | hi <;>
      simp [windingOrder, hi, List.find?, hpq, hqs, hps, hqp, hsq, hsp, b1, b2, b3, b4, b5, b6, o1, o2, o3]

/-- a counter-clockwise triangle ring passes the checker against its own corners -/
theorem tri_ring_strict (p q s : Pt) (pts : List Pt) (h : 0 < cross p q s)
    (hin : ∀ v ∈ [p, q, s], v ∈ pts) (hout : ∀ x ∈ pts, x ∈ [p, q, s]) :
    isStrictHull [p, q, s, p] pts = true := by
  have o1 : orient p q s = .ccw := orient_ccw_of_pos _ _ _ h
  have o2 : orient q s p = .ccw := orient_ccw_of_pos _ _ _ (by rw [cross_rot]; exact h)
  have o3 : orient s p q = .ccw := orient_ccw_of_pos _ _ _ (by rw [cross_rot, cross_rot]; exact h)
  unfold isStrictHull
  simp only [Bool.and_eq_true, List.all_eq_true, List.contains_eq_mem, decide_eq_true_eq, beq_iff_eq]
  refine ⟨⟨⟨⟨by simp, by simp⟩, ?_⟩, ?_⟩, ?_⟩
  · simp [cycTriplesCcw, triplesCcw, o1, o2, o3]
  · intro v hv
    apply hin
    simp at hv ⊢
    rcases hv with e | e | e | e <;> simp [e]
  · intro x hx e he
    have hx' := hout x hx
    simp [edges] at he
    simp at hx'
    simp only [cross] at h
    rcases he with e1 | e1 | e1 <;> rcases hx' with e2 | e2 | e2 <;> subst e1 <;> subst e2 <;>
      simp only [cross] <;> nlinarith [h]


theorem orient_col_iff (a b c : Pt) : orient a b c = .col ↔ cross a b c = 0 := by
  unfold orient
  dsimp only
  constructor
  · intro h
    split at h
    · simp at h
    · split at h
      · simp at h
      · rename_i h1 h2; exact le_antisymm (not_lt.1 h1) (not_lt.1 h2)
  · intro h
    rw [if_neg (by linarith), if_neg (by linarith)]

theorem triHull_ok (p q s : Pt) (pts : List Pt) (h : cross p q s ≠ 0)
    (hin : ∀ v ∈ [p, q, s], v ∈ pts) (hout : ∀ x ∈ pts, x ∈ [p, q, s]) :
    isStrictHull (makeCcw (close (trivialPad [p, q, s]))) pts = true := by
  obtain ⟨hpq, hqs, hps⟩ := ne_of_cross_ne p q s h
  have hc : close (trivialPad [p, q, s]) = [p, q, s, p] := by
    have : s ≠ p := fun e => hps e.symm
    simp [trivialPad, close, this]
  rw [hc]
  unfold makeCcw
  rw [windingOrder_tri p q s h]
  by_cases hpos : 0 < cross p q s
  · rw [if_pos hpos]
    simp only [reduceCtorEq, if_false, Option.some.injEq]
    exact tri_ring_strict p q s pts hpos hin hout
  · have hneg : cross p q s < 0 := lt_of_le_of_ne (not_lt.1 hpos) h
    rw [if_neg hpos]
    simp only [if_true]
    have : [p, q, s, p].reverse = [p, s, q, p] := by simp
    rw [this]
    apply tri_ring_strict p s q pts (by rw [cross_swap]; linarith)
    · intro v hv; apply hin; simp at hv ⊢; tauto
    · intro x hx; have := hout x hx; simp at this ⊢; tauto

theorem hasTriangle_three (pts : List Pt) (ht : hasTriangle pts = true) (hl : pts.length < 4) :
    ∃ a b c, pts = [a, b, c] ∧ cross a b c ≠ 0 := by
  unfold hasTriangle at ht
  simp only [List.any_eq_true, bne_iff_ne, ne_eq] at ht
  obtain ⟨x, hx, y, hy, z, hz, hne⟩ := ht
  match pts, hl, hx, hy, hz with
  | [], _, hx, _, _ => simp at hx
  | [a], _, hx, hy, hz =>
    simp at hx hy hz; subst hx hy hz
    exact absurd (by unfold cross; ring) hne
  | [a, b], _, hx, hy, hz =>
    simp at hx hy hz
    exfalso
    rcases hx with rfl | rfl <;> rcases hy with rfl | rfl <;> rcases hz with rfl | rfl <;>
      exact hne (by unfold cross; ring)
  | [a, b, c], _, hx, hy, hz =>
    refine ⟨a, b, c, rfl, ?_⟩
    simp at hx hy hz
    intro h0
    apply hne
    simp only [cross] at h0 ⊢
    rcases hx with rfl | rfl | rfl <;> rcases hy with rfl | rfl | rfl <;> rcases hz with rfl | rfl | rfl <;>
      linarith
  | _ :: _ :: _ :: _ :: _, hl, _, _, _ => simp at hl; omega

theorem trivialHull_triangle (pts : List Pt) (incl : Bool) (ht : hasTriangle pts = true)
    (hl : pts.length < 4) : isStrictHull (trivialHull pts incl) pts = true := by
  obtain ⟨a, b, c, rfl, hne⟩ := hasTriangle_three pts ht hl
  unfold trivialHull
  cases incl with
  | true =>
    have : trivialDedup [a, b, c] true = [a, b, c] := by simp [trivialDedup]
    rw [this]
    exact triHull_ok a b c _ hne (fun v hv => hv) (fun x hx => hx)
  | false =>
    have hlen := lexSort_length [a, b, c]
    have hmem := lexSort_mem [a, b, c]
    generalize hs : lexSort [a, b, c] = srt at hlen hmem
    match srt, hlen with
    | [p, q, s], _ =>
      have ha := (hmem a).2 (by simp)
      have hb := (hmem b).2 (by simp)
      have hc := (hmem c).2 (by simp)
      have hcross : cross p q s ≠ 0 := by
        simp at ha hb hc
        intro h0
        apply hne
        simp only [cross] at h0 ⊢
        rcases ha with rfl | rfl | rfl <;> rcases hb with rfl | rfl | rfl <;> rcases hc with rfl | rfl | rfl <;>
          linarith
      have hcol : ¬ orient p q s = .col := fun e => hcross ((orient_col_iff _ _ _).1 e)
      have : trivialDedup [a, b, c] false = [p, q, s] := by
        simp [trivialDedup, hs, hcol]
      rw [this]
      exact triHull_ok p q s _ hcross (fun v hv => (hmem v).1 hv) (fun x hx => (hmem x).2 hx)

end Geo.Proofs.C08
